(* C17 -- the thread pool runs every submitted request exactly once and its destructor terminates, for every number of
   workers >= 1, queue length >= 1, request list and schedule. *)
From Coq Require Import List Arith Lia Bool.
From Kenlm Require Import C17.PCQueueModel C17.PCQueueProofs C17.PoolModel.
Import ListNotations.

Definition is_req (r : nat) (x : item) : bool := match x with Req r' => r' =? r | Poison => false end.
Definition is_poison (x : item) : bool := match x with Poison => true | _ => false end.
Definition holds (r : nat) (x : wst) : bool := match x with WHold r' => r' =? r | _ => false end.
Definition is_hold (x : wst) : bool := match x with WHold _ => true | _ => false end.
Definition is_idle (x : wst) : bool := match x with WIdle => true | _ => false end.
Definition did (r : nat) (p : nat * nat) : bool := snd p =? r.

Lemma cnt_app : forall A (f : A -> bool) a b, cnt f (a ++ b) = cnt f a + cnt f b.
Proof. induction a; simpl; intros; [reflexivity|]. rewrite IHa. lia. Qed.
Lemma cnt_repeat : forall A (f : A -> bool) x n, cnt f (repeat x n) = if f x then n else 0.
Proof. induction n; simpl; [destruct (f x); reflexivity|]. rewrite IHn. destruct (f x); lia. Qed.
Lemma cnt_last_pos : forall A (f : A -> bool) l d, l <> [] -> f (last l d) = true -> 1 <= cnt f l.
Proof.
  induction l as [|h t IH]; intros d Hne Hf; [congruence|]. destruct t as [|h2 t2].
  - simpl in *. rewrite Hf. lia.
  - specialize (IH d ltac:(discriminate) Hf). simpl in *. lia.
Qed.

Lemma last_app_ne : forall A (a b : list A) d, b <> [] -> last (a ++ b) d = last b d.
Proof.
  induction a as [|h t IH]; intros b d H; [reflexivity|]. simpl. rewrite IH by exact H.
  destruct (t ++ b) eqn:E; [destruct t; simpl in E; [congruence|discriminate]|reflexivity].
Qed.

Section Pool.
Variable cap w : nat.
Variable reqs : list nat.
Hypothesis Hcap : 1 <= cap.
Hypothesis Hw : 1 <= w.
Definition stream : list item := map Req reqs ++ repeat Poison w.

Record PInv (s : pool) : Prop := {
  Q1 : forall r, cnt (did r) (handled s) + cnt (holds r) (pws s) + cnt (is_req r) (pq s) + cnt (is_req r) (todo s) = cnt (Nat.eqb r) reqs;
  Q2 : exists taken, stream = taken ++ pq s ++ todo s /\ cnt is_poison taken = cnt is_done (pws s);
  Q3 : length (pws s) = w
}.

Lemma cnt_req_map : forall r l, cnt (is_req r) (map Req l) = cnt (Nat.eqb r) l.
Proof. induction l; simpl; [reflexivity|]. rewrite IHl. rewrite (Nat.eqb_sym a r). reflexivity. Qed.

Lemma pool_init_inv : PInv (pool_init reqs w).
Proof.
  constructor; simpl.
  - intros r. rewrite cnt_app, cnt_req_map, !cnt_repeat. simpl. lia.
  - exists []. split; [reflexivity|]. simpl. rewrite cnt_repeat. reflexivity.
  - apply repeat_length.
Qed.

Lemma pool_step_inv : forall s t s', PInv s -> pool_step cap s t = Some s' -> PInv s'.
Proof.
  intros s t s' [H1 (taken & H2 & H2') H3] Hs. destruct t as [|j]; simpl in Hs.
  - destruct (todo s) as [|x rest] eqn:Et; [discriminate|]. destruct (length (pq s) <? cap); [|discriminate].
    injection Hs as <-. constructor; simpl; auto.
    + intros r. specialize (H1 r). rewrite cnt_app. simpl in *. lia.
    + exists taken. split; [rewrite H2, <- app_assoc; reflexivity|exact H2'].
  - destruct (nth_error (pws s) j) as [[|r|]|] eqn:Hn; try discriminate.
    + destruct (pq s) as [|[r|] q'] eqn:Eq; [discriminate| |]; injection Hs as <-; constructor; simpl;
        try (rewrite upd_length; exact H3).
      * intros r0. specialize (H1 r0). pose proof (cnt_upd _ (holds r0) (pws s) j (WHold r) _ Hn) as Hu. simpl in *. lia.
      * exists (taken ++ [Req r]). split; [rewrite H2, <- app_assoc; reflexivity|].
        rewrite cnt_app. pose proof (cnt_upd _ is_done (pws s) j (WHold r) _ Hn) as Hu. simpl in *. lia.
      * intros r0. specialize (H1 r0). pose proof (cnt_upd _ (holds r0) (pws s) j WDone _ Hn) as Hu. simpl in *. lia.
      * exists (taken ++ [Poison]). split; [rewrite H2, <- app_assoc; reflexivity|].
        rewrite cnt_app. pose proof (cnt_upd _ is_done (pws s) j WDone _ Hn) as Hu. simpl in *. lia.
    + injection Hs as <-. constructor; simpl; try (rewrite upd_length; exact H3).
      * intros r0. specialize (H1 r0). rewrite cnt_app. pose proof (cnt_upd _ (holds r0) (pws s) j WIdle _ Hn) as Hu.
        simpl in *. unfold did at 2. simpl. lia.
      * exists taken. split; [exact H2|]. pose proof (cnt_upd _ is_done (pws s) j WIdle _ Hn) as Hu. simpl in *. lia.
Qed.

Lemma pool_run_none : forall sched, fold_left (fun o t => match o with Some x => pool_step cap x t | None => None end) sched None = None.
Proof. induction sched; simpl; auto. Qed.
Lemma pool_reach_inv : forall sched s s', PInv s -> pool_run cap sched s = Some s' -> PInv s'.
Proof.
  induction sched as [|t sched IH]; intros s s' HI Hr; unfold pool_run in Hr; simpl in Hr.
  - injection Hr as <-. exact HI.
  - destruct (pool_step cap s t) as [s1|] eqn:E; [|rewrite pool_run_none in Hr; discriminate].
    apply (IH s1); [eapply pool_step_inv; eassumption|exact Hr].
Qed.
Definition pool_reachable (s : pool) : Prop := exists sched, pool_run cap sched (pool_init reqs w) = Some s.

(* every request is, at every moment, in exactly one place: not yet submitted, queued, in a worker's hands, or handled *)
Theorem pool_exactly_once : forall s, pool_reachable s -> forall r,
  cnt (did r) (handled s) + cnt (holds r) (pws s) + cnt (is_req r) (pq s) + cnt (is_req r) (todo s) = cnt (Nat.eqb r) reqs.
Proof. intros s [sched H] r. apply (pool_reach_inv _ _ _ pool_init_inv H). Qed.

Lemma all_done_cnt : forall l, forallb is_done l = true -> cnt is_done l = length l /\ (forall r, cnt (holds r) l = 0).
Proof.
  induction l as [|[|r|] t IH]; simpl; intros H; try discriminate; [split; auto|].
  destruct (IH H) as [A B]. split; [lia|]. intros r. rewrite B. reflexivity.
Qed.

(* when everything has finished, every request was handled exactly as often as it was submitted *)
Theorem pool_all_handled : forall s, pool_reachable s -> pool_finished s = true ->
  forall r, cnt (did r) (handled s) = cnt (Nat.eqb r) reqs.
Proof.
  intros s H Hf r. pose proof (pool_exactly_once s H r) as E. unfold pool_finished in Hf.
  destruct (todo s); [|discriminate]. destruct (pq s); [|discriminate].
  destruct (all_done_cnt _ Hf) as [_ B]. rewrite B in E. simpl in E. lia.
Qed.

Lemma cnt_all : forall A (f : A -> bool) l, cnt f l = length l -> forallb f l = true.
Proof.
  induction l as [|h t IH]; simpl; intros H; [reflexivity|]. pose proof (cnt_le_len _ f t).
  destruct (f h); simpl in *; [apply IH; lia|lia].
Qed.
Lemma cnt_zero_none : forall A (f : A -> bool) l, cnt f l = 0 -> forall i x, nth_error l i = Some x -> f x = false.
Proof.
  induction l as [|h t IH]; intros H [|i] x Hn; simpl in *; try discriminate.
  - injection Hn as ->. destruct (f x); [lia|reflexivity].
  - apply (IH ltac:(destruct (f h); lia) i x Hn).
Qed.
Lemma wst_split : forall l, cnt is_idle l + cnt is_hold l + cnt is_done l = length l.
Proof. induction l as [|[|r|] t IH]; simpl; lia. Qed.

(* the destructor cannot hang: while anything is unfinished some thread can step *)
Theorem pool_no_deadlock : forall s, pool_reachable s -> pool_finished s = false -> exists t s', pool_step cap s t = Some s'.
Proof.
  intros s [sched H] Hf. destruct (pool_reach_inv _ _ _ pool_init_inv H) as [H1 (taken & H2 & H2') H3].
  pose proof (wst_split (pws s)) as Hsp.
  (* a worker that holds a request can always handle it *)
  destruct (Nat.eq_dec (cnt is_hold (pws s)) 0) as [Hh|Hh].
  2:{ destruct (cnt_pos_ex _ is_hold (pws s) ltac:(lia)) as (j & [|r|] & Hn & Hx); try discriminate.
      exists (Wk j). simpl. rewrite Hn. eauto. }
  destruct (pq s) as [|x q'] eqn:Eq.
  - (* queue empty *)
    destruct (todo s) as [|y rest] eqn:Et.
    + (* everything was taken: all w poisons were consumed, so all w workers are done *)
      exfalso. simpl in H2. rewrite app_nil_r in H2. unfold pool_finished in Hf. rewrite Eq, Et in Hf.
      assert (cnt is_poison taken = w).
      { rewrite <- H2. unfold stream. rewrite cnt_app, cnt_repeat. simpl.
        assert (cnt is_poison (map Req reqs) = 0) by (clear; induction reqs; simpl; auto). lia. }
      rewrite (cnt_all _ is_done (pws s)) in Hf; [discriminate|lia].
    + exists Main. simpl. rewrite Et, Eq. simpl. destruct cap; [lia|]. simpl. eauto.
  - (* queue not empty: an idle worker can consume; if there is none, all workers are done, which is impossible *)
    destruct (Nat.eq_dec (cnt is_idle (pws s)) 0) as [Hi|Hi].
    2:{ destruct (cnt_pos_ex _ is_idle (pws s) ltac:(lia)) as (j & [|r|] & Hn & Hx); try discriminate.
        exists (Wk j). simpl. rewrite Hn, Eq. destruct x; eauto. }
    exfalso. rewrite <- Eq in H2.
    assert (Hall : cnt is_poison taken = w) by lia.
    assert (Hrest : cnt is_poison (pq s ++ todo s) = 0).
    { assert (cnt is_poison stream = w).
      { unfold stream. rewrite cnt_app, cnt_repeat. simpl.
        assert (cnt is_poison (map Req reqs) = 0) by (clear; induction reqs; simpl; auto). lia. }
      rewrite H2, cnt_app in H0. lia. }
    assert (Hne : pq s ++ todo s <> []) by (rewrite Eq; discriminate).
    assert (Hlast : last (pq s ++ todo s) Poison = Poison).
    { assert (last stream Poison = Poison).
      { unfold stream. destruct w as [|w']; [lia|]. rewrite last_app_ne by (simpl; discriminate).
        clear. induction w'; simpl in *; auto. }
      rewrite H2 in H0. rewrite last_app_ne in H0 by exact Hne. exact H0. }
    pose proof (cnt_last_pos _ is_poison (pq s ++ todo s) Poison Hne) as Hp. rewrite Hlast in Hp. specialize (Hp eq_refl). lia.
Qed.

End Pool.

(* every step decreases a measure: every schedule is finite *)
Definition pool_measure (s : pool) : nat :=
  3 * length (todo s) + 2 * length (pq s) + cnt is_hold (pws s).
Theorem pool_progress : forall cap s t s', pool_step cap s t = Some s' -> pool_measure s' < pool_measure s.
Proof.
  intros cap s t s' Hs. unfold pool_measure. destruct t as [|j]; simpl in Hs.
  - destruct (todo s) as [|x rest]; [discriminate|]. destruct (length (pq s) <? cap); [|discriminate].
    injection Hs as <-. simpl. rewrite app_length. simpl. lia.
  - destruct (nth_error (pws s) j) as [[|r|]|] eqn:Hn; try discriminate.
    + destruct (pq s) as [|[r|] q']; [discriminate| |]; injection Hs as <-; simpl.
      * pose proof (cnt_upd _ is_hold (pws s) j (WHold r) _ Hn). simpl in *. lia.
      * pose proof (cnt_upd _ is_hold (pws s) j WDone _ Hn). simpl in *. lia.
    + injection Hs as <-. simpl. pose proof (cnt_upd _ is_hold (pws s) j WIdle _ Hn). simpl in *. lia.
Qed.


Example pool_example :
  exists s, pool_run 1 [Main; Wk 1; Main; Wk 0; Wk 1; Main; Wk 1; Wk 0; Main; Wk 0; Main; Wk 1; Wk 1] (pool_init [5; 6; 7] 2) = Some s /\
            pool_finished s = true /\ handled s = [(1, 5); (0, 6); (1, 7)].
Proof. eexists. split; [vm_compute; reflexivity|]. split; reflexivity. Qed.

(* ------------------------------------------------------------------------------------------- *)
(* handlers that may throw: a consumed request is handled or the process ends -- it is never dropped *)
Section PoolFail.
Variable cap w : nat.
Variable reqs : list nat.
Variable fails : nat -> bool.
Hypothesis Hcap : 1 <= cap.
Hypothesis Hw : 1 <= w.

Lemma pool_step_f_inv : forall s t s', PInv w reqs (fst s) -> pool_step_f cap fails s t = Some s' -> PInv w reqs (fst s').
Proof.
  intros [p ab] t [p' ab'] HI Hs. unfold pool_step_f in Hs. simpl in *. destruct ab; [discriminate|].
  assert (G : forall t0, option_map (fun q => (q, false)) (pool_step cap p t0) = Some (p', ab') -> PInv w reqs p').
  { intros t0 E. destruct (pool_step cap p t0) as [q|] eqn:Eq; [|discriminate]. injection E as <- <-.
    exact (pool_step_inv cap w reqs Hcap Hw _ _ _ HI Eq). }
  destruct t as [|j]; [eapply G; exact Hs|].
  destruct (nth_error (pws p) j) as [[|r|]|]; try (eapply G; exact Hs).
  destruct (fails r); [injection Hs as <- <-; exact HI|eapply G; exact Hs].
Qed.

Lemma pool_run_f_none : forall sched, fold_left (fun o t => match o with Some x => pool_step_f cap fails x t | None => None end) sched None = None.
Proof. induction sched; simpl; auto. Qed.
Lemma pool_run_f_inv : forall sched s s', PInv w reqs (fst s) -> pool_run_f cap fails sched s = Some s' -> PInv w reqs (fst s').
Proof.
  induction sched as [|t sched IH]; intros s s' HI Hr; unfold pool_run_f in Hr; simpl in Hr.
  - injection Hr as <-. exact HI.
  - destruct (pool_step_f cap fails s t) as [s1|] eqn:E; [|rewrite pool_run_f_none in Hr; discriminate].
    apply (IH s1); [eapply pool_step_f_inv; eassumption|exact Hr].
Qed.
Definition pool_reachable_f (s : pool * bool) : Prop := exists sched, pool_run_f cap fails sched (pool_init reqs w, false) = Some s.

(* whatever the handlers do, every request is at every moment in exactly one place: a worker never drops one *)
Theorem pool_f_never_drops : forall s, pool_reachable_f s -> forall r,
  cnt (did r) (handled (fst s)) + cnt (holds r) (pws (fst s)) + cnt (is_req r) (pq (fst s)) + cnt (is_req r) (todo (fst s)) = cnt (Nat.eqb r) reqs.
Proof. intros s [sched H] r. apply (pool_run_f_inv sched (pool_init reqs w, false) s (pool_init_inv cap w reqs Hcap Hw) H). Qed.

(* the run always ends: until everything is finished or the process has been aborted some thread can step
   (a worker whose handler throws can step too: its step is the abort) *)
Theorem pool_f_no_hang : forall s, pool_reachable_f s -> snd s = false -> pool_finished (fst s) = false ->
  exists t s', pool_step_f cap fails s t = Some s'.
Proof.
  intros [p ab] [sched H] Hab Hf. simpl in *. subst ab.
  pose proof (pool_run_f_inv sched (pool_init reqs w, false) _ (pool_init_inv cap w reqs Hcap Hw) H) as [H1 (taken & H2 & H2') H3]. simpl in *.
  pose proof (wst_split cap w Hcap Hw (pws p)) as Hsp.
  destruct (Nat.eq_dec (cnt is_hold (pws p)) 0) as [Hh|Hh].
  2:{ destruct (cnt_pos_ex _ is_hold (pws p) ltac:(lia)) as (j & [|r|] & Hn & Hx); try discriminate.
      exists (Wk j). unfold pool_step_f. simpl. rewrite Hn. destruct (fails r); [eauto|]. simpl. rewrite ?Hn. simpl. eauto. }
  (* no worker holds a request: the failure oracle plays no role, reuse the argument for handlers that cannot fail *)
  assert (Hnf : forall t q, pool_step cap p t = Some q -> exists s', pool_step_f cap fails (p, false) t = Some s').
  { intros t q E. unfold pool_step_f. simpl. destruct t as [|j]; [rewrite E; simpl; eauto|].
    destruct (nth_error (pws p) j) as [[|r|]|] eqn:Hn; try (rewrite E; simpl; eauto).
    exfalso. pose proof (cnt_nth_pos _ is_hold _ _ _ Hn eq_refl). lia. }
  destruct (pq p) as [|x q'] eqn:Eq.
  - destruct (todo p) as [|y rest] eqn:Et.
    + exfalso. simpl in H2. rewrite app_nil_r in H2. unfold pool_finished in Hf. rewrite Eq, Et in Hf.
      assert (cnt is_poison taken = w).
      { rewrite <- H2. unfold stream. rewrite cnt_app, cnt_repeat. simpl.
        assert (cnt is_poison (map Req reqs) = 0) by (clear; induction reqs; simpl; auto). lia. }
      rewrite (cnt_all cap w Hcap Hw _ is_done (pws p)) in Hf; [discriminate|lia].
    + exists Main. apply (Hnf Main (mkpool rest (pq p ++ [y]) (pws p) (handled p))). simpl. rewrite Et, Eq. simpl.
      destruct cap; [lia|]. reflexivity.
  - destruct (Nat.eq_dec (cnt is_idle (pws p)) 0) as [Hi|Hi].
    2:{ destruct (cnt_pos_ex _ is_idle (pws p) ltac:(lia)) as (j & [|r|] & Hn & Hx); try discriminate.
        exists (Wk j). destruct x as [r|].
        - apply (Hnf (Wk j) (mkpool (todo p) q' (upd (pws p) j (WHold r)) (handled p))). simpl. rewrite Hn, Eq. reflexivity.
        - apply (Hnf (Wk j) (mkpool (todo p) q' (upd (pws p) j WDone) (handled p))). simpl. rewrite Hn, Eq. reflexivity. }
    exfalso. rewrite <- Eq in H2.
    assert (Hall : cnt is_poison taken = w) by lia.
    assert (Hrest : cnt is_poison (pq p ++ todo p) = 0).
    { assert (cnt is_poison (stream w reqs) = w).
      { unfold stream. rewrite cnt_app, cnt_repeat. simpl.
        assert (cnt is_poison (map Req reqs) = 0) by (clear; induction reqs; simpl; auto). lia. }
      rewrite H2, cnt_app in H0. lia. }
    assert (Hne : pq p ++ todo p <> []) by (rewrite Eq; discriminate).
    assert (Hlast : last (pq p ++ todo p) Poison = Poison).
    { assert (last (stream w reqs) Poison = Poison).
      { unfold stream. destruct w as [|w']; [lia|]. rewrite last_app_ne by (simpl; discriminate).
        clear. induction w'; simpl in *; auto. }
      rewrite H2 in H0. rewrite last_app_ne in H0 by exact Hne. exact H0. }
    pose proof (cnt_last_pos _ is_poison (pq p ++ todo p) Poison Hne) as Hp. rewrite Hlast in Hp. specialize (Hp eq_refl). lia.
Qed.
End PoolFail.
