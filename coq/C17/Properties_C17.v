(* C17 -- the property theorems and nothing else (PCQueue layer; chain and thread-pool layer in the second half).
   Each is closed by `exact <lemma>`; vlib runs Print Assumptions on every one of them on every check run.
   Model: C17/PCQueueModel.v interprets the operation sequences of Gen/PCQueueProg.v, which the translator step
   regenerates from util/pcqueue.hh.  P producers, C consumers, capacity k, item lists and schedules are all
   universally quantified; `reachable k items counts s` = some schedule leads from the constructor's state to s. *)
From Coq Require Import List Arith.
From Kenlm Require Import C17.PCQueueOps Gen.PCQueueProg C17.PCQueueModel C17.PCQueueProofs C17.PoolModel C17.PoolProofs C17.ChainModel C17.ChainProofs C17.LifeModel C17.LifeProofs.
Import ListNotations.

(* The source still performs exactly the expected synchronisation operations, in the expected order, on the
   expected semaphores / mutexes / cursors.  Proved by reflexivity; every theorem below goes through it. *)
Theorem C17_prog_is_expected :
  produce_prog = [SemWait SemEmpty; Lock MtxProduce; StoreArg CurProduce; AdvanceWrap CurProduce; Unlock MtxProduce; SemPost SemUsed] /\
  consume_prog = [SemWait SemUsed; Lock MtxConsume; LoadOut CurConsume; AdvanceWrap CurConsume; Unlock MtxConsume; SemPost SemEmpty] /\
  (forall k, sem_init ctor_prog SemEmpty k = k /\ sem_init ctor_prog SemUsed k = 0) /\
  cur_init ctor_prog CurProduce = 0 /\ cur_init ctor_prog CurConsume = 0 /\
  forallb init_known ctor_prog = true /\ In InitStorageSize ctor_prog /\ In InitEndSize ctor_prog.
Proof. exact prog_is_expected. Qed.

(* never more than k values stored and not yet taken; the k semaphore tokens are conserved *)
Theorem C17_capacity : forall k items counts s, reachable k items counts s ->
  ca s <= pa s /\ pa s - ca s <= k /\
  empty s + used s + cnt hasTok (prods s) + cnt hasTok (cons s) = k.
Proof. exact capacity. Qed.

(* the values taken, in order, are a prefix of the values stored, in order; every load is handed to exactly one
   consumer; what one producer has stored is a prefix of its items in its order (hence per-producer FIFO as seen by
   any one consumer, no loss, no duplication) *)
Theorem C17_exactly_once_fifo : forall k items counts s, reachable k items counts s ->
  map snd (loaded s) = firstn (length (loaded s)) (map snd (hist s)) /\
  length (loaded s) <= length (hist s) /\
  (forall j, consumed_by j s = proj j (loaded s)) /\
  (forall i o, nth_error items i = Some o -> exists rest, stored_by i s ++ rest = o).
Proof. exact exactly_once_fifo. Qed.

(* a producer about to store writes a slot different from every slot whose value has not been taken *)
Theorem C17_no_slot_reuse_race : forall k items counts s i todo, reachable k items counts s ->
  nth_error (prods s) i = Some (2, todo) ->
  forall n, ca s <= n < pa s -> n mod k <> pa s mod k.
Proof. exact no_slot_reuse_race. Qed.

(* as many Consume as Produce calls planned, some thread unfinished => some thread can step *)
Theorem C17_deadlock_free : forall k items counts s, 1 <= k -> sum_len items = sum_n counts ->
  reachable k items counts s -> finished s = false -> exists t s', step s t = Some s'.
Proof. exact deadlock_free_reachable. Qed.

(* every step decreases the measure: no schedule is longer than 6 * (#Produce + #Consume) steps *)
Theorem C17_progress_measure : forall s t s', step s t = Some s' -> measure s' < measure s.
Proof. exact progress_measure. Qed.

Theorem C17_schedules_bounded : forall k items counts sched s, run sched (init_st k items counts) = Some s ->
  length sched <= 6 * sum_len items + 6 * sum_n counts.
Proof. exact schedules_bounded_init. Qed.

(* ... and a run that cannot be extended has delivered everything: loads = stores, each producer stored exactly its items *)
Theorem C17_all_delivered : forall k items counts s, reachable k items counts s -> sum_len items = sum_n counts ->
  finished s = true ->
  map snd (loaded s) = map snd (hist s) /\ (forall i o, nth_error items i = Some o -> stored_by i s = o) /\
  length (hist s) = sum_len items.
Proof. exact all_delivered_finished. Qed.

(* PCQueue refines the atomic bounded FIFO: with absq = values stored and not yet loaded, a producer's store appends
   its value, a consumer's load removes the head (and that is the value its Consume call returns), every other
   operation leaves absq alone, and absq never holds more than k values. *)
Theorem C17_pcqueue_refines_atomic : forall k items counts s t s', reachable k items counts s -> step s t = Some s' ->
  length (absq s) <= k /\
  (   (exists i v, t = P i /\ absq s' = absq s ++ [v] /\ stored_by i s' = stored_by i s ++ [v])
   \/ (exists j v, t = C j /\ absq s = v :: absq s' /\ consumed_by j s' = consumed_by j s ++ [v])
   \/ (absq s' = absq s /\ hist s' = hist s /\ loaded s' = loaded s)).
Proof. exact refines_atomic. Qed.

(* ---- util::ThreadPool over the atomic bounded FIFO (C17/PoolModel.v): any queue length >= 1, any number of
   workers >= 1, any request list, any schedule ---- *)

(* at every moment every request is in exactly one place (not yet submitted / queued / in a worker's hands / handled) *)
Theorem C17_thread_pool_exactly_once : forall cap w reqs, 1 <= cap -> 1 <= w -> forall s, pool_reachable cap w reqs s -> forall r,
  cnt (did r) (handled s) + cnt (holds r) (pws s) + cnt (is_req r) (pq s) + cnt (is_req r) (todo s) = cnt (Nat.eqb r) reqs.
Proof. exact pool_exactly_once. Qed.

(* ... so when the destructor has finished, every request was handled exactly as often as it was submitted *)
Theorem C17_thread_pool : forall cap w reqs, 1 <= cap -> 1 <= w -> forall s, pool_reachable cap w reqs s -> pool_finished s = true ->
  forall r, cnt (did r) (handled s) = cnt (Nat.eqb r) reqs.
Proof. exact pool_all_handled. Qed.

(* the destructor (one poison per worker, then join) cannot hang, and every schedule is finite *)
Theorem C17_thread_pool_no_deadlock : forall cap w reqs, 1 <= cap -> 1 <= w ->
  forall s, pool_reachable cap w reqs s -> pool_finished s = false -> exists t s', pool_step cap s t = Some s'.
Proof. exact pool_no_deadlock. Qed.

Theorem C17_thread_pool_progress : forall cap s t s', pool_step cap s t = Some s' -> pool_measure s' < pool_measure s.
Proof. exact pool_progress. Qed.

(* ---- util::stream::Chain over the atomic bounded FIFO (C17/ChainModel.v): a ring of queues of capacity b =
   block_count, a source writing `payloads` block by block and ending with Link::Poison, one Link-loop worker per
   stage function in `fs` (the last one recycles into queue 0), Chain::Wait joining the workers and draining queue 0.
   Any b >= 1, any non-empty list of stage functions, any payloads, any schedule. ---- *)

(* Kahn determinism and production order: at every moment every worker has received a prefix of one fixed stream:
   the source's blocks in production order followed by the poison, mapped through the functions of the workers before it *)
Theorem C17_chain_kahn : forall b payloads fs, 1 <= b -> fs <> [] ->
  forall c, chain_reachable b payloads fs c -> forall pre s post, segs c = pre ++ s :: post ->
  sseen s = firstn (length (sseen s)) (stream_into payloads (firstn (length pre) fs)) /\ map sf (segs c) = fs.
Proof. exact chain_kahn. Qed.

(* total content is preserved: b blocks in the queues and in the workers' hands while the workers run *)
Theorem C17_chain_conservation : forall b payloads fs, 1 <= b -> fs <> [] ->
  forall c, chain_reachable b payloads fs c -> mainp c = MJoin ->
  length (q0 c) + src_hold c + seg_items (segs c) = b.
Proof. exact chain_conservation. Qed.

(* when Chain::Wait has returned, every worker has received its whole stream: every block, in order, then the poison;
   Wait never aborts ("Chain ending without poison") *)
Theorem C17_chain : forall b payloads fs, 1 <= b -> fs <> [] ->
  forall c, chain_reachable b payloads fs c -> mainp c = MDone -> forall pre s post, segs c = pre ++ s :: post ->
  sseen s = stream_into payloads (firstn (length pre) fs) /\ sphs c = SDone /\ srest c = [].
Proof. exact chain_finished. Qed.

Theorem C17_chain_no_abort : forall b payloads fs, 1 <= b -> fs <> [] ->
  forall c, chain_reachable b payloads fs c -> mainp c <> MAbort.
Proof. exact chain_no_abort. Qed.

(* waiting on the chain returns: no deadlock, and every schedule is finite *)
Theorem C17_chain_no_deadlock : forall b payloads fs, 1 <= b -> fs <> [] ->
  forall c, chain_reachable b payloads fs c -> mainp c <> MDone -> exists t c', chain_step b c t = Some c'.
Proof. exact chain_no_deadlock. Qed.

Theorem C17_chain_terminates : forall b payloads fs, 1 <= b -> fs <> [] ->
  forall sched c, chain_run b sched (chain_init b payloads fs) = Some c ->
  length sched + chain_measure b payloads c <= chain_measure b payloads (chain_init b payloads fs).
Proof. exact chain_schedules_bounded. Qed.

(* util::stream::Stream (the record-level view of a worker's blocks): reading to the end delivers exactly the records of
   the blocks received, in order -- for every sequence of blocks, in particular with any runs of empty blocks (valid size 0)
   at the start, in the middle or before the poison, as left behind by stages that compact blocks in place *)
Theorem C17_stream_records : forall bl : list payload, stream_records bl = concat bl.
Proof. exact stream_records_concat. Qed.

(* ... hence, with C17_chain: a Stream consumer at any position of a finished chain has read the concatenation of the
   payloads of its whole stream *)
Theorem C17_stream_consumer : forall b payloads fs, 1 <= b -> fs <> [] ->
  forall c, chain_reachable b payloads fs c -> mainp c = MDone -> forall pre s post, segs c = pre ++ s :: post ->
  stream_records (payloads_of (sseen s)) = concat (payloads_of (stream_into payloads (firstn (length pre) fs))).
Proof. exact stream_consumer. Qed.

(* ---- handlers that throw (util::Worker::operator(): report, then abort()) ----
   `fails r` says on which requests the handler throws; the state carries "the process has been aborted".
   Whatever the handlers do, a worker never drops a request: at every moment every request is still to be submitted, queued,
   in a worker's hands or handled (a consumed request is handled or the process ends). *)
Theorem C17_thread_pool_never_drops : forall cap w reqs fails, 1 <= cap -> 1 <= w ->
  forall s, pool_reachable_f cap w reqs fails s -> forall r,
  cnt (did r) (handled (fst s)) + cnt (holds r) (pws (fst s)) + cnt (is_req r) (pq (fst s)) + cnt (is_req r) (todo (fst s)) = cnt (Nat.eqb r) reqs.
Proof. exact pool_f_never_drops. Qed.

(* ... and the run always ends: until every worker has finished or the process has been aborted some thread can step *)
Theorem C17_thread_pool_fails_no_hang : forall cap w reqs fails, 1 <= cap -> 1 <= w ->
  forall s, pool_reachable_f cap w reqs fails s -> snd s = false -> pool_finished (fst s) = false ->
  exists t s', pool_step_f cap fails s t = Some s'.
Proof. exact pool_f_no_hang. Qed.

(* ---- signals ---- util::WaitSemaphore, regenerated from the source, retries after EINTR; therefore a signal delivered to any
   thread at any moment (in particular to one parked in Produce / Consume) leaves the queue's state unchanged, and every run with
   signals is a run without them: all theorems above hold under arbitrary signal delivery. *)
Theorem C17_wait_retries_on_eintr : wait_on_eintr = EintrRetry.
Proof. exact wait_is_expected. Qed.

Theorem C17_signals_are_invisible : forall sched s s', run_i sched s = Some s' -> run (runs_of sched) s = Some s'.
Proof. exact run_i_is_run. Qed.

(* "fill, then drain": with every queue of capacity block_count (what Chain::Start / Chain::Add pass to the PCQueue constructors;
   read back from the running code through the constructor's scheduling-point hook on every run), a source that writes at most
   block_count - 1 blocks and then poisons runs to completion without any consumer: data blocks and poison fit. *)
Theorem C17_chain_source_alone_never_blocks : forall b payloads fs, fs <> [] -> length payloads + 1 <= b ->
  exists c, chain_run b (repeat TSrc (2 * (length payloads + 1))) (chain_init b payloads fs) = Some c /\ sphs c = SDone.
Proof. exact source_alone_never_blocks. Qed.

(* ---- configuration and life cycle of a Chain (C17/LifeModel.v; tied by executing the same op sequences on the real Chain) ---- *)

(* Chain::Chain accepts a configuration only with a positive block size that is a multiple of the entry size and fits the budget
   block_count times; a budget below one entry per block is refused (ChainConfigException) *)
Theorem C17_chain_block_size : forall es bc total bs, chain_block_size es bc total = Some bs ->
  0 < bs /\ (exists k, 0 < k /\ bs = k * es) /\ bs * bc <= total /\ 0 < es /\ 0 < bc.
Proof. exact block_size_sound. Qed.
Theorem C17_chain_config_refused : forall es bc total, total < es * bc -> chain_block_size es bc total = None.
Proof. exact block_size_refuses. Qed.

(* after Wait() the chain is empty (no queue, no chain-owned thread, no block in flight) whatever was done before,
   including rounds in which the chain owned no thread at all *)
Theorem C17_chain_wait_empties : forall bc ops, let l := life_step bc (life_run bc ops life_init) LWait in
  lqueues l = 0 /\ lrunning l = false /\ lthreads l = 0 /\ lcomplete l = false /\ linflight l = 0.
Proof. exact wait_empties. Qed.

(* Start(), also on a chain that is still running, waits for it and leaves exactly a fresh lead queue with block_count blocks *)
Theorem C17_chain_start_fresh : forall bc ops, let l0 := life_run bc ops life_init in let l := life_step bc l0 LStart in
  lqueues l = 1 /\ lthreads l = 0 /\ lcomplete l = false /\ linflight l = bc /\ lmade l = lmade l0 ++ [bc].
Proof. exact start_fresh. Qed.

(* reuse: the next round after a Wait() starts from fresh queues (chain_init), so by C17_chain it delivers exactly its own entries *)
Theorem C17_chain_reuse_starts_fresh : forall bc ops o, o = LAddOutside \/ o = LAddWorker ->
  let l0 := life_step bc (life_run bc ops life_init) LWait in let l := life_step bc l0 o in
  lqueues l = 2 /\ linflight l = bc /\ lmade l = lmade l0 ++ [bc; bc].
Proof. exact reuse_starts_fresh. Qed.
