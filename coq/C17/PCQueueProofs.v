(* C17 -- invariants of the PCQueue interleaving model, for any number of producers and consumers, any capacity,
   any item lists and any schedule.  Everything starts from prog_is_expected (proved by reflexivity against
   the program regenerated from util/pcqueue.hh): the step characterisations pstep_spec / cstep_spec rewrite with it. *)
From Coq Require Import List Arith Lia Bool.
From Kenlm Require Import C17.PCQueueOps Gen.PCQueueProg C17.PCQueueModel.
Import ListNotations.

Definition expected_produce : list op :=
  [SemWait SemEmpty; Lock MtxProduce; StoreArg CurProduce; AdvanceWrap CurProduce; Unlock MtxProduce; SemPost SemUsed].
Definition expected_consume : list op :=
  [SemWait SemUsed; Lock MtxConsume; LoadOut CurConsume; AdvanceWrap CurConsume; Unlock MtxConsume; SemPost SemEmpty].
Definition init_known (x : init) : bool := match x with InitOpaque _ => false | _ => true end.

Lemma prog_is_expected :
  produce_prog = expected_produce /\ consume_prog = expected_consume /\
  (forall k, sem_init ctor_prog SemEmpty k = k /\ sem_init ctor_prog SemUsed k = 0) /\
  cur_init ctor_prog CurProduce = 0 /\ cur_init ctor_prog CurConsume = 0 /\
  forallb init_known ctor_prog = true /\ In InitStorageSize ctor_prog /\ In InitEndSize ctor_prog.
Proof. repeat split; try reflexivity; simpl; tauto. Qed.

(* WaitSemaphore retries after EINTR (regenerated from the source like the programs) *)
Lemma wait_is_expected : wait_on_eintr = EintrRetry.
Proof. reflexivity. Qed.

(* ------------------------------------------------------------------------------------------- *)
(* step characterisation *)
Lemma pstep_spec : forall s i s', pstep s i = Some s' ->
  exists pc v rest, nth_error (prods s) i = Some (pc, v :: rest) /\
  (   (pc = 0 /\ 0 < empty s /\ s' = mkst (empty s - 1) (used s) (pm s) (cm s) (pa s) (ca s) (ring s) (hist s) (loaded s) (upd (prods s) i (1, v :: rest)) (cons s))
   \/ (pc = 1 /\ pm s = false /\ s' = mkst (empty s) (used s) true (cm s) (pa s) (ca s) (ring s) (hist s) (loaded s) (upd (prods s) i (2, v :: rest)) (cons s))
   \/ (pc = 2 /\ s' = mkst (empty s) (used s) (pm s) (cm s) (pa s) (ca s) (upd (ring s) (pa s mod length (ring s)) v) (hist s ++ [(i, v)]) (loaded s) (upd (prods s) i (3, v :: rest)) (cons s))
   \/ (pc = 3 /\ s' = mkst (empty s) (used s) (pm s) (cm s) (S (pa s)) (ca s) (ring s) (hist s) (loaded s) (upd (prods s) i (4, v :: rest)) (cons s))
   \/ (pc = 4 /\ s' = mkst (empty s) (used s) false (cm s) (pa s) (ca s) (ring s) (hist s) (loaded s) (upd (prods s) i (5, v :: rest)) (cons s))
   \/ (pc = 5 /\ s' = mkst (empty s) (S (used s)) (pm s) (cm s) (pa s) (ca s) (ring s) (hist s) (loaded s) (upd (prods s) i (0, rest)) (cons s))).
Proof.
  intros s i s' H. unfold pstep in H. rewrite (proj1 prog_is_expected) in H.
  destruct (nth_error (prods s) i) as [[pc todo]|] eqn:Hn; [|discriminate].
  destruct todo as [|v rest]; [destruct pc as [|[|[|[|[|[|[|pc]]]]]]]; discriminate|].
  destruct pc as [|[|[|[|[|[|pc]]]]]]; simpl in H.
  - destruct (0 <? empty s) eqn:E; [|discriminate]. apply Nat.ltb_lt in E. injection H as <-.
    exists 0, v, rest. split; [reflexivity|]. left. auto.
  - destruct (pm s) eqn:E; [discriminate|]. injection H as <-.
    exists 1, v, rest. split; [reflexivity|]. right; left. auto.
  - injection H as <-. exists 2, v, rest. split; [reflexivity|]. do 2 right; left. auto.
  - injection H as <-. exists 3, v, rest. split; [reflexivity|]. do 3 right; left. auto.
  - injection H as <-. exists 4, v, rest. split; [reflexivity|]. do 4 right; left. auto.
  - injection H as <-. exists 5, v, rest. split; [reflexivity|]. do 5 right. auto.
  - destruct pc; discriminate.
Qed.

Lemma cstep_spec : forall s j s', cstep s j = Some s' ->
  exists pc n, nth_error (cons s) j = Some (pc, S n) /\
  (   (pc = 0 /\ 0 < used s /\ s' = mkst (empty s) (used s - 1) (pm s) (cm s) (pa s) (ca s) (ring s) (hist s) (loaded s) (prods s) (upd (cons s) j (1, S n)))
   \/ (pc = 1 /\ cm s = false /\ s' = mkst (empty s) (used s) (pm s) true (pa s) (ca s) (ring s) (hist s) (loaded s) (prods s) (upd (cons s) j (2, S n)))
   \/ (pc = 2 /\ s' = mkst (empty s) (used s) (pm s) (cm s) (pa s) (ca s) (ring s) (hist s) (loaded s ++ [(j, nth (ca s mod length (ring s)) (ring s) 0)]) (prods s) (upd (cons s) j (3, S n)))
   \/ (pc = 3 /\ s' = mkst (empty s) (used s) (pm s) (cm s) (pa s) (S (ca s)) (ring s) (hist s) (loaded s) (prods s) (upd (cons s) j (4, S n)))
   \/ (pc = 4 /\ s' = mkst (empty s) (used s) (pm s) false (pa s) (ca s) (ring s) (hist s) (loaded s) (prods s) (upd (cons s) j (5, S n)))
   \/ (pc = 5 /\ s' = mkst (S (empty s)) (used s) (pm s) (cm s) (pa s) (ca s) (ring s) (hist s) (loaded s) (prods s) (upd (cons s) j (0, n)))).
Proof.
  intros s j s' H. unfold cstep in H. rewrite (proj1 (proj2 prog_is_expected)) in H.
  destruct (nth_error (cons s) j) as [[pc n]|] eqn:Hn; [|discriminate].
  destruct n as [|n]; [destruct pc as [|[|[|[|[|[|[|pc]]]]]]]; discriminate|].
  destruct pc as [|[|[|[|[|[|pc]]]]]]; simpl in H.
  - destruct (0 <? used s) eqn:E; [|discriminate]. apply Nat.ltb_lt in E. injection H as <-.
    exists 0, n. split; [reflexivity|]. left. auto.
  - destruct (cm s) eqn:E; [discriminate|]. injection H as <-.
    exists 1, n. split; [reflexivity|]. right; left. auto.
  - injection H as <-. exists 2, n. split; [reflexivity|]. do 2 right; left. auto.
  - injection H as <-. exists 3, n. split; [reflexivity|]. do 3 right; left. auto.
  - injection H as <-. exists 4, n. split; [reflexivity|]. do 4 right; left. auto.
  - injection H as <-. exists 5, n. split; [reflexivity|]. do 5 right. auto.
  - destruct pc; discriminate.
Qed.

(* ------------------------------------------------------------------------------------------- *)
(* counting over thread lists *)
Fixpoint cnt {A} (f : A -> bool) (l : list A) : nat :=
  match l with [] => 0 | h :: t => (if f h then 1 else 0) + cnt f t end.
Fixpoint tot {A} (g : A -> nat) (l : list A) : nat :=
  match l with [] => 0 | h :: t => g h + tot g t end.

Lemma cnt_upd : forall A (f : A -> bool) l i x y, nth_error l i = Some y ->
  cnt f (upd l i x) + (if f y then 1 else 0) = cnt f l + (if f x then 1 else 0).
Proof.
  induction l as [|h t IH]; intros i x y H; destruct i; simpl in *; try discriminate.
  - injection H as ->. lia.
  - specialize (IH _ x _ H). lia.
Qed.
Lemma tot_upd : forall A (g : A -> nat) l i x y, nth_error l i = Some y ->
  tot g (upd l i x) + g y = tot g l + g x.
Proof.
  induction l as [|h t IH]; intros i x y H; destruct i; simpl in *; try discriminate.
  - injection H as ->. lia.
  - specialize (IH _ x _ H). lia.
Qed.
Lemma cnt_le_len : forall A (f : A -> bool) l, cnt f l <= length l.
Proof. induction l; simpl; [lia|]. destruct (f a); lia. Qed.
Lemma cnt_all_nth : forall A (f : A -> bool) l i x, cnt f l = length l -> nth_error l i = Some x -> f x = true.
Proof.
  induction l as [|h t IH]; intros i x Hc Hn; destruct i; simpl in *; try discriminate.
  - injection Hn as ->. pose proof (cnt_le_len _ f t). destruct (f x); [reflexivity|lia].
  - pose proof (cnt_le_len _ f t). apply (IH i); [destruct (f h); lia|assumption].
Qed.
Lemma cnt_nth_pos : forall A (f : A -> bool) l i x, nth_error l i = Some x -> f x = true -> 1 <= cnt f l.
Proof.
  induction l as [|h t IH]; intros i x Hn Hf; destruct i; simpl in *; try discriminate.
  - injection Hn as ->. rewrite Hf. lia.
  - specialize (IH _ _ Hn Hf). lia.
Qed.
Lemma upd_length : forall A (l : list A) i x, length (upd l i x) = length l.
Proof. induction l; intros [|i] x; simpl; auto. Qed.
Lemma upd_nth_same : forall A (l : list A) i x, i < length l -> nth_error (upd l i x) i = Some x.
Proof. induction l; intros [|i] x H; simpl in *; try lia; auto. apply IHl. lia. Qed.
Lemma upd_nth_other : forall A (l : list A) i j x, i <> j -> nth_error (upd l i x) j = nth_error l j.
Proof. induction l; intros [|i] [|j] x H; simpl; auto; try congruence. Qed.
Lemma nth_upd_same : forall A (l : list A) i x d, i < length l -> nth i (upd l i x) d = x.
Proof. induction l; intros [|i] x d H; simpl in *; try lia; auto. apply IHl. lia. Qed.
Lemma nth_upd_other : forall A (l : list A) i j x d, i <> j -> nth j (upd l i x) d = nth j l d.
Proof. induction l; intros [|i] [|j] x d H; simpl; auto; try congruence. Qed.
Lemma cnt_pos_ex : forall A (f : A -> bool) l, 0 < cnt f l -> exists i x, nth_error l i = Some x /\ f x = true.
Proof.
  induction l as [|h t IH]; simpl; intros H; [lia|].
  destruct (f h) eqn:E.
  - exists 0, h. simpl. auto.
  - destruct (IH ltac:(lia)) as (i & x & Hn & Hf). exists (S i), x. simpl. auto.
Qed.
Lemma tot_pos_ex : forall A (g : A -> nat) l, 0 < tot g l -> exists i x, nth_error l i = Some x /\ 0 < g x.
Proof.
  induction l as [|h t IH]; simpl; intros H; [lia|].
  destruct (Nat.eq_dec (g h) 0) as [E|E].
  - destruct (IH ltac:(lia)) as (i & x & Hn & Hf). exists (S i), x. simpl. auto.
  - exists 0, h. simpl. split; [reflexivity|lia].
Qed.

(* classification of a thread by its pc; the two roles are mirror images, so the predicates are shared *)
Definition hasTok {X} (x : nat * X) := match fst x with 0 => false | _ => true end.       (* holds a token of its first semaphore *)
Definition inLock {X} (x : nat * X) := match fst x with 2 | 3 | 4 => true | _ => false end.
Definition at1 {X} (x : nat * X) := match fst x with 1 => true | _ => false end.
Definition at2 {X} (x : nat * X) := match fst x with 2 => true | _ => false end.
Definition at3 {X} (x : nat * X) := match fst x with 3 => true | _ => false end.           (* stored / loaded, cursor not advanced *)
Definition advNP {X} (x : nat * X) := match fst x with 4 | 5 => true | _ => false end.     (* cursor advanced, not posted *)
Definition claimNA {X} (x : nat * X) := match fst x with 1 | 2 | 3 => true | _ => false end. (* token held, cursor not advanced *)
Definition running {X} (x : nat * X) := match fst x with 0 | 1 => false | _ => true end.
Definition p_rem (x : nat * list val) := match fst x with 4 | 5 => length (snd x) - 1 | _ => length (snd x) end.
Definition c_rem (x : nat * nat) := match fst x with 4 | 5 => snd x - 1 | _ => snd x end.
Definition p_ok (x : nat * list val) := (fst x <? 6) && (match fst x with 0 => true | _ => 0 <? length (snd x) end).
Definition c_ok (x : nat * nat) := (fst x <? 6) && (match fst x with 0 => true | _ => 0 <? snd x end).
Definition p_rest (x : nat * list val) := match fst x with 3 | 4 | 5 => tl (snd x) | _ => snd x end.
Definition b2n (b : bool) := if b then 1 else 0.

Section K.
Variable k : nat.        (* capacity *)
Variable tp tc : nat.    (* total number of Produce / Consume calls of the run *)

Record CInv (s : st) : Prop := {
  I0 : length (ring s) = k;
  J1 : empty s + used s + cnt hasTok (prods s) + cnt hasTok (cons s) = k;
  J2 : pa s = ca s + cnt advNP (prods s) + used s + cnt claimNA (cons s);
  J3 : cnt inLock (prods s) = b2n (pm s);
  J4 : cnt inLock (cons s) = b2n (cm s);
  J5 : pa s + tot p_rem (prods s) = tp;
  J6 : ca s + tot c_rem (cons s) = tc;
  J7 : cnt p_ok (prods s) = length (prods s);
  J8 : cnt c_ok (cons s) = length (cons s);
  H1 : length (hist s) = pa s + cnt at3 (prods s);
  H2 : length (loaded s) = ca s + cnt at3 (cons s)
}.

Ltac upd_facts Hn :=
  repeat match goal with
  | |- context [cnt ?f (upd ?l ?i ?x)] =>
      let H := fresh "Hc" in pose proof (cnt_upd _ f l i x _ Hn) as H; simpl in H;
      let c := fresh "c" in set (c := cnt f (upd l i x)) in *; clearbody c
  | |- context [tot ?g (upd ?l ?i ?x)] =>
      let H := fresh "Ht" in pose proof (tot_upd _ g l i x _ Hn) as H; simpl in H;
      let c := fresh "c" in set (c := tot g (upd l i x)) in *; clearbody c
  end.

Ltac count_case Hn :=
  constructor; simpl; rewrite ?upd_length, ?app_length; simpl; upd_facts Hn;
  unfold b2n, p_rem, c_rem, p_ok, c_ok, hasTok, inLock, at3, advNP, claimNA in *; simpl in *; rewrite ?Nat.sub_0_r in *; try (destruct (pm _)); try (destruct (cm _)); try lia.

Theorem step_cinv : forall s t s', CInv s -> step s t = Some s' -> CInv s'.
Proof.
  intros s t s' [G0 G1 G2 G3 G4 G5 G6 G7 G8 G9 G10] Hs. destruct t as [i|j]; simpl in Hs.
  - destruct (pstep_spec _ _ _ Hs) as (pc & v & rest & Hn & Hc).
    pose proof (cnt_all_nth _ _ _ _ _ G7 Hn) as Hok. unfold p_ok in Hok; simpl in Hok.
    destruct Hc as [(-> & He & ->)|[(-> & Hm & ->)|[(-> & ->)|[(-> & ->)|[(-> & ->)|(-> & ->)]]]]]; simpl in *.
    + count_case Hn.
    + rewrite Hm in *. count_case Hn.
    + count_case Hn.
    + count_case Hn.
    + count_case Hn.
    + count_case Hn.
  - destruct (cstep_spec _ _ _ Hs) as (pc & n & Hn & Hc).
    pose proof (cnt_all_nth _ _ _ _ _ G8 Hn) as Hok. unfold c_ok in Hok; simpl in Hok.
    destruct Hc as [(-> & He & ->)|[(-> & Hm & ->)|[(-> & ->)|[(-> & ->)|[(-> & ->)|(-> & ->)]]]]]; simpl in *.
    + count_case Hn.
    + rewrite Hm in *. count_case Hn.
    + count_case Hn.
    + count_case Hn.
    + count_case Hn.
    + count_case Hn.
Qed.

(* facts about one thread list that follow from the classification alone *)
Lemma cls_tok : forall X (l : list (nat * X)), cnt advNP l + cnt at2 l + cnt at3 l + cnt at1 l <= cnt hasTok l.
Proof. induction l as [|[[|[|[|[|[|[|n]]]]]] x] l IH]; simpl; unfold advNP, at1, at2, at3, hasTok in *; simpl; lia. Qed.
Lemma cls_lock : forall X (l : list (nat * X)), cnt at2 l + cnt at3 l <= cnt inLock l.
Proof. induction l as [|[[|[|[|[|[|[|n]]]]]] x] l IH]; simpl; unfold at2, at3, inLock in *; simpl; lia. Qed.
Lemma cls_claim : forall X (l : list (nat * X)), cnt claimNA l = cnt at1 l + cnt at2 l + cnt at3 l /\ cnt claimNA l <= cnt hasTok l.
Proof. induction l as [|[[|[|[|[|[|[|n]]]]]] x] l IH]; simpl; unfold claimNA, at1, at2, at3, hasTok in *; simpl; lia. Qed.

Lemma mod_distinct : forall a b, 0 < k -> a < b -> b - a < k -> a mod k <> b mod k.
Proof.
  intros a b Hk Hab Hd E.
  pose proof (Nat.div_mod a k ltac:(lia)) as Ha. pose proof (Nat.div_mod b k ltac:(lia)) as Hb.
  assert (a / k <= b / k) by (apply Nat.div_le_mono; lia).
  rewrite E in Ha. set (qa := a / k) in *. set (qb := b / k) in *. set (r := b mod k) in *.
  destruct (Nat.eq_dec qa qb) as [e|e]; [rewrite e in Ha; lia|].
  assert (Hq : k * (qa + 1) <= k * qb) by (apply Nat.mul_le_mono_l; lia).
  rewrite Nat.mul_add_distr_l, Nat.mul_1_r in Hq. lia.
Qed.

Lemma firstn_S_nth : forall A (l : list A) n d, n < length l -> firstn (S n) l = firstn n l ++ [nth n l d].
Proof.
  induction l as [|h t IH]; intros n d H; simpl in H; [lia|].
  destruct n; simpl; [reflexivity|]. f_equal. apply IH. lia.
Qed.

Definition proj (i : nat) (l : list (nat * val)) : list val := map snd (filter (fun x => fst x =? i) l).
Lemma proj_app : forall i l1 l2, proj i (l1 ++ l2) = proj i l1 ++ proj i l2.
Proof. intros. unfold proj. rewrite filter_app, map_app. reflexivity. Qed.

Variable items : list (list val).

Record DInv (s : st) : Prop := {
  R : forall n, ca s <= n < length (hist s) -> nth (n mod k) (ring s) 0 = snd (nth n (hist s) (0, 0));
  L : map snd (loaded s) = firstn (length (loaded s)) (map snd (hist s));
  PO : forall i pc todo o, nth_error (prods s) i = Some (pc, todo) -> nth_error items i = Some o ->
       proj i (hist s) ++ p_rest (pc, todo) = o
}.

Lemma PO_upd : forall (prods : list (nat * list val)) h i old new,
  nth_error prods i = Some old -> p_rest new = p_rest old ->
  (forall i' pc todo o, nth_error prods i' = Some (pc, todo) -> nth_error items i' = Some o -> proj i' h ++ p_rest (pc, todo) = o) ->
  (forall i' pc todo o, nth_error (upd prods i new) i' = Some (pc, todo) -> nth_error items i' = Some o -> proj i' h ++ p_rest (pc, todo) = o).
Proof.
  intros prods h i [opc otodo] new Hn Hr H i' pc todo o Hu Hi.
  destruct (Nat.eq_dec i i') as [<-|Ne].
  - rewrite upd_nth_same in Hu by (apply nth_error_Some; congruence). injection Hu as <-. rewrite Hr. eapply H; eassumption.
  - rewrite upd_nth_other in Hu by assumption. eapply H; eassumption.
Qed.

Theorem step_dinv : forall s t s', CInv s -> DInv s -> step s t = Some s' -> DInv s'.
Proof.
  intros s t s' [G0 G1 G2 G3 G4 G5 G6 G7 G8 G9 G10] [DR DL DP] Hs.
  pose proof (cls_tok _ (prods s)) as Tp. pose proof (cls_tok _ (cons s)) as Tc.
  pose proof (cls_lock _ (prods s)) as Lp. pose proof (cls_lock _ (cons s)) as Lc.
  pose proof (cls_claim _ (cons s)) as [Cc Cc'].
  assert (Hll : length (loaded s) <= length (hist s)) by lia.
  destruct t as [i|j]; simpl in Hs.
  - destruct (pstep_spec _ _ _ Hs) as (pc & v & rest & Hn & Hc).
    destruct Hc as [(-> & He & ->)|[(-> & Hm & ->)|[(-> & ->)|[(-> & ->)|[(-> & ->)|(-> & ->)]]]]];
      try (constructor; simpl; [exact DR | exact DL | eapply PO_upd; [exact Hn | reflexivity | exact DP]]).
    (* store *)
    pose proof (cnt_nth_pos _ at2 _ _ _ Hn eq_refl) as A2.
    assert (B : cnt inLock (prods s) <= 1) by (rewrite G3; destruct (pm s); simpl; lia).
    assert (A3 : cnt at3 (prods s) = 0) by lia.
    assert (Hk : pa s - ca s < k) by lia. assert (Hk0 : 0 < k) by lia.
    assert (Hlen : length (hist s) = pa s) by lia.
    constructor; simpl.
    + intros n Hr. rewrite app_length in Hr. simpl in Hr. rewrite G0.
      destruct (Nat.eq_dec n (pa s)) as [->|Ne].
      * rewrite nth_upd_same by (rewrite G0; apply Nat.mod_upper_bound; lia).
        rewrite app_nth2 by lia. rewrite Hlen, Nat.sub_diag. reflexivity.
      * rewrite nth_upd_other by (apply not_eq_sym, mod_distinct; lia).
        rewrite app_nth1 by lia. apply DR. lia.
    + rewrite map_app, firstn_app, map_length.
      replace (length (loaded s) - length (hist s)) with 0 by lia. simpl. rewrite app_nil_r. exact DL.
    + intros i' pc todo o Hu Hi. rewrite proj_app. destruct (Nat.eq_dec i i') as [<-|Ne].
      * rewrite upd_nth_same in Hu by (apply nth_error_Some; congruence). injection Hu as <- <-.
        unfold proj at 2. simpl. rewrite Nat.eqb_refl. simpl. rewrite <- app_assoc. simpl.
        apply (DP _ _ _ _ Hn Hi).
      * rewrite upd_nth_other in Hu by assumption. unfold proj at 2. simpl.
        destruct (i =? i') eqn:E; [apply Nat.eqb_eq in E; congruence|]. simpl. rewrite app_nil_r. eapply DP; eassumption.
  - destruct (cstep_spec _ _ _ Hs) as (pc & n & Hn & Hc).
    destruct Hc as [(-> & He & ->)|[(-> & Hm & ->)|[(-> & ->)|[(-> & ->)|[(-> & ->)|(-> & ->)]]]]];
      try (constructor; simpl; [exact DR | exact DL | exact DP]).
    + (* load *)
      pose proof (cnt_nth_pos _ at2 _ _ _ Hn eq_refl) as A2.
      assert (B : cnt inLock (cons s) <= 1) by (rewrite G4; destruct (cm s); simpl; lia).
      assert (A3 : cnt at3 (cons s) = 0) by lia.
      assert (Hlen : length (loaded s) = ca s) by lia.
      assert (Hlt : ca s < length (hist s)) by lia.
      constructor; simpl; [exact DR | | exact DP].
      rewrite map_app, app_length. simpl. rewrite Nat.add_1_r, Hlen.
      rewrite (firstn_S_nth _ _ _ 0) by (rewrite map_length; exact Hlt).
      rewrite DL, Hlen. f_equal. f_equal. rewrite G0. rewrite DR by lia.
      symmetry. apply (map_nth snd (hist s) (0, 0) (ca s)).
    + (* advance consume_at_ *)
      constructor; simpl; [| exact DL | exact DP]. intros m Hr. apply DR. lia.
Qed.
End K.

(* ------------------------------------------------------------------------------------------- *)
(* initial state, reachable states *)
Definition sum_len (items : list (list val)) : nat := tot (@length val) items.
Definition sum_n (counts : list nat) : nat := tot (fun n => n) counts.

Lemma init_fields : forall k items counts,
  init_st k items counts = mkst k 0 false false 0 0 (repeat 0 k) [] [] (map (fun l => (0, l)) items) (map (fun n => (0, n)) counts).
Proof.
  intros. unfold init_st. destruct prog_is_expected as (_ & _ & Hs & Hp & Hc & _).
  destruct (Hs k) as [-> ->]. rewrite Hp, Hc. reflexivity.
Qed.

Lemma cnt_map0 : forall X (f : nat * X -> bool) (l : list X), f = f -> (forall x, f (0, x) = false) -> cnt f (map (fun x => (0, x)) l) = 0.
Proof. induction l; simpl; intros; [reflexivity|]. rewrite H0. rewrite IHl; auto. Qed.
Lemma cnt_map1 : forall X (f : nat * X -> bool) (l : list X), (forall x, f (0, x) = true) -> cnt f (map (fun x => (0, x)) l) = length (map (fun x => (0, x)) l).
Proof. induction l; simpl; intros; [reflexivity|]. rewrite H. rewrite IHl; auto. Qed.

Lemma init_cinv : forall k items counts, CInv k (sum_len items) (sum_n counts) (init_st k items counts).
Proof.
  intros. rewrite init_fields. constructor; simpl;
    rewrite ?cnt_map0 by (auto; intros; reflexivity); try reflexivity; try lia.
  - apply repeat_length.
  - unfold sum_len. induction items; simpl; [reflexivity|]. unfold p_rem at 1. simpl. lia.
  - unfold sum_n. induction counts; simpl; [reflexivity|]. unfold c_rem at 1. simpl. lia.
  - apply cnt_map1. reflexivity.
  - apply cnt_map1. reflexivity.
Qed.

Lemma init_dinv : forall k items counts, DInv k items (init_st k items counts).
Proof.
  intros. rewrite init_fields. constructor; simpl.
  - intros n H. lia.
  - reflexivity.
  - intros i pc todo o Hn Hi. rewrite nth_error_map in Hn. rewrite Hi in Hn. simpl in Hn. injection Hn as <- <-. reflexivity.
Qed.

Lemma run_app : forall a b s, run (a ++ b) s = match run a s with Some x => run b x | None => None end.
Proof.
  intros. unfold run. rewrite fold_left_app.
  destruct (fold_left _ a (Some s)); [reflexivity|]. induction b; simpl; auto.
Qed.
Lemma run_none : forall sched, fold_left (fun o t => match o with Some x => step x t | None => None end) sched None = None.
Proof. induction sched; simpl; auto. Qed.

Theorem reach_inv : forall k tp tc items sched s s', CInv k tp tc s -> DInv k items s -> run sched s = Some s' ->
  CInv k tp tc s' /\ DInv k items s'.
Proof.
  induction sched as [|t sched IH]; intros s s' Hc Hd Hr; unfold run in Hr; simpl in Hr.
  - injection Hr as <-. auto.
  - destruct (step s t) as [s1|] eqn:E; [|rewrite run_none in Hr; discriminate].
    apply (IH s1); [eapply step_cinv; eassumption | eapply step_dinv; eassumption | exact Hr].
Qed.

Definition reachable (k : nat) (items : list (list val)) (counts : list nat) (s : st) : Prop :=
  exists sched, run sched (init_st k items counts) = Some s.

Lemma reachable_inv : forall k items counts s, reachable k items counts s ->
  CInv k (sum_len items) (sum_n counts) s /\ DInv k items s.
Proof. intros k items counts s [sched H]. eapply reach_inv; [apply init_cinv | apply init_dinv | exact H]. Qed.

(* ------------------------------------------------------------------------------------------- *)
(* the claimed clauses *)

(* capacity: stored-but-untaken never exceeds the capacity; semaphore tokens are conserved *)
Lemma capacity : forall k items counts s, reachable k items counts s ->
  ca s <= pa s /\ pa s - ca s <= k /\
  empty s + used s + cnt hasTok (prods s) + cnt hasTok (cons s) = k.
Proof.
  intros k items counts s H. destruct (reachable_inv _ _ _ _ H) as [[G0 G1 G2 G3 G4 G5 G6 G7 G8 G9 G10] _].
  pose proof (cls_tok _ (prods s)). pose proof (cls_claim _ (cons s)) as [? ?]. lia.
Qed.

(* a slot is never stored to before the value of its previous lap was copied out:
   when producer i is about to store (pc 2), the slot it writes is different from every slot that holds a
   stored-but-not-yet-advanced-past value, including the one a consumer is loading from right now *)
Lemma no_slot_reuse_race : forall k items counts s i todo, reachable k items counts s ->
  nth_error (prods s) i = Some (2, todo) ->
  forall n, ca s <= n < pa s -> n mod k <> pa s mod k.
Proof.
  intros k items counts s i todo H Hn n Hr. destruct (reachable_inv _ _ _ _ H) as [[G0 G1 G2 G3 G4 G5 G6 G7 G8 G9 G10] _].
  pose proof (cls_tok _ (prods s)). pose proof (cls_claim _ (cons s)) as [? ?].
  pose proof (cnt_nth_pos _ at2 _ _ _ Hn eq_refl).
  apply mod_distinct; lia.
Qed.

(* exactly once, FIFO *)
Lemma exactly_once_fifo : forall k items counts s, reachable k items counts s ->
  (* the values loaded, in order, are a prefix of the values stored, in order *)
  map snd (loaded s) = firstn (length (loaded s)) (map snd (hist s)) /\
  length (loaded s) <= length (hist s) /\
  (* what consumer j received is the sub-sequence of the loads tagged j: each load goes to exactly one consumer *)
  (forall j, consumed_by j s = proj j (loaded s)) /\
  (* what producer i has stored so far is a prefix, in order, of the items handed to it *)
  (forall i o, nth_error items i = Some o -> exists rest, stored_by i s ++ rest = o).
Proof.
  intros k items counts s H. destruct (reachable_inv _ _ _ _ H) as [[G0 G1 G2 G3 G4 G5 G6 G7 G8 G9 G10] [DR DL DP]].
  pose proof (cls_claim _ (cons s)) as [? ?]. pose proof (cls_tok _ (prods s)).
  repeat split; auto; try lia.
  intros i o Hi. destruct (nth_error (prods s) i) as [[pc todo]|] eqn:Hn.
  - exists (p_rest (pc, todo)). apply (DP _ _ _ _ Hn Hi).
  - exfalso. destruct H as [sched Hr].
    assert (Hlen : forall sched s0 s1, run sched s0 = Some s1 -> length (prods s1) = length (prods s0)).
    { clear. induction sched as [|t sched IH]; intros s0 s1 Hr; unfold run in Hr; simpl in Hr; [injection Hr as <-; reflexivity|].
      destruct (step s0 t) as [s2|] eqn:E; [|rewrite run_none in Hr; discriminate].
      rewrite (IH _ _ Hr). destruct t as [i|j]; simpl in E.
      - destruct (pstep_spec _ _ _ E) as (pc & v & rest & Hn & Hc).
        destruct Hc as [(-> & He & ->)|[(-> & Hm & ->)|[(-> & ->)|[(-> & ->)|[(-> & ->)|(-> & ->)]]]]]; simpl; apply upd_length.
      - destruct (cstep_spec _ _ _ E) as (pc & n & Hn & Hc).
        destruct Hc as [(-> & He & ->)|[(-> & Hm & ->)|[(-> & ->)|[(-> & ->)|[(-> & ->)|(-> & ->)]]]]]; simpl; reflexivity. }
    apply Hlen in Hr. rewrite init_fields in Hr. simpl in Hr. rewrite map_length in Hr.
    apply nth_error_None in Hn. assert (i < length items) by (apply nth_error_Some; congruence). lia.
Qed.

(* ------------------------------------------------------------------------------------------- *)
(* deadlock freedom and termination *)
Definition work_left (s : st) : Prop :=
  0 < tot p_rem (prods s) + tot c_rem (cons s) \/ 0 < cnt hasTok (prods s) + cnt hasTok (cons s).

Lemma pstep_enabled : forall s i pc todo, nth_error (prods s) i = Some (pc, todo) -> p_ok (pc, todo) = true ->
  (running (pc, todo) = true \/ (pc = 1 /\ pm s = false) \/ (pc = 0 /\ todo <> [] /\ 0 < empty s)) ->
  exists s', pstep s i = Some s'.
Proof.
  intros s i pc todo Hn Hok H. unfold pstep. rewrite Hn, (proj1 prog_is_expected).
  unfold p_ok in Hok. simpl in Hok. apply andb_true_iff in Hok. destruct Hok as [Hlt Hpos].
  destruct pc as [|[|[|[|[|[|pc]]]]]]; simpl in *; try discriminate;
    destruct todo as [|v rest]; simpl in *; try discriminate;
    try (destruct H as [H|[(H & H')|(H & H' & H'')]]; try discriminate; try congruence); eauto.
  - apply Nat.ltb_lt in H''. rewrite H''. eauto.
  - rewrite H'. eauto.
Qed.

Lemma cstep_enabled : forall s j pc n, nth_error (cons s) j = Some (pc, n) -> c_ok (pc, n) = true ->
  (running (pc, n) = true \/ (pc = 1 /\ cm s = false) \/ (pc = 0 /\ 0 < n /\ 0 < used s)) ->
  exists s', cstep s j = Some s'.
Proof.
  intros s j pc n Hn Hok H. unfold cstep. rewrite Hn, (proj1 (proj2 prog_is_expected)).
  unfold c_ok in Hok. simpl in Hok. apply andb_true_iff in Hok. destruct Hok as [Hlt Hpos].
  destruct pc as [|[|[|[|[|[|pc]]]]]]; simpl in *; try discriminate;
    destruct n as [|n]; simpl in *; try discriminate;
    try (destruct H as [H|[(H & H')|(H & H' & H'')]]; try discriminate; try congruence; try lia); eauto.
  - apply Nat.ltb_lt in H''. rewrite H''. eauto.
  - rewrite H'. eauto.
Qed.

Lemma cls_run : forall X (l : list (nat * X)), cnt hasTok l = cnt running l + cnt at1 l /\ cnt inLock l <= cnt running l.
Proof. induction l as [|[[|[|[|[|[|[|n]]]]]] x] l IH]; simpl; unfold hasTok, running, at1, inLock in *; simpl; lia. Qed.

Lemma p_idle : forall l : list (nat * list val), cnt hasTok l = 0 ->
  tot p_rem l = tot (fun x => length (snd x)) l /\ (forall i pc todo, nth_error l i = Some (pc, todo) -> pc = 0).
Proof.
  induction l as [|[pc todo] l IH]; simpl; intros H.
  - split; [reflexivity|]. intros [|i]; discriminate.
  - destruct pc; unfold hasTok in H; simpl in H; try lia. destruct (IH H) as [E F].
    split; [unfold p_rem at 1; simpl; lia|]. intros [|i] pc' n' Hn; simpl in Hn; [congruence|eauto].
Qed.
Lemma c_idle : forall l : list (nat * nat), cnt hasTok l = 0 ->
  tot c_rem l = tot (fun x => snd x) l /\ (forall j pc n, nth_error l j = Some (pc, n) -> pc = 0).
Proof.
  induction l as [|[pc n] l IH]; simpl; intros H.
  - split; [reflexivity|]. intros [|i]; discriminate.
  - destruct pc; unfold hasTok in H; simpl in H; try lia. destruct (IH H) as [E F].
    split; [unfold c_rem at 1; simpl; lia|]. intros [|i] pc' n' Hn; simpl in Hn; [congruence|eauto].
Qed.

(* If as many Consume calls as Produce calls are planned (t of each) and anything is left to do, some thread can step. *)
Theorem deadlock_free : forall k t s, 1 <= k -> CInv k t t s -> work_left s -> exists th s', step s th = Some s'.
Proof.
  intros k t s Hk [G0 G1 G2 G3 G4 G5 G6 G7 G8 G9 G10] Hw.
  destruct (cls_run _ (prods s)) as (Pa & Pb). destruct (cls_run _ (cons s)) as (Ca & Cb).
  pose proof (cls_claim _ (cons s)) as [Cc Cd]. pose proof (cls_tok _ (prods s)) as Pt.
  (* a thread past its lock acquisition can always run *)
  destruct (Nat.eq_dec (cnt running (prods s)) 0) as [Pr|Pr].
  2:{ destruct (cnt_pos_ex _ running (prods s) ltac:(lia)) as (i & [pc n] & Hn & Hf).
      destruct (pstep_enabled s i pc n Hn (cnt_all_nth _ _ _ _ _ G7 Hn) (or_introl Hf)) as [s' E]. exists (P i), s'. exact E. }
  destruct (Nat.eq_dec (cnt running (cons s)) 0) as [Cr|Cr].
  2:{ destruct (cnt_pos_ex _ running (cons s) ltac:(lia)) as (j & [pc n] & Hn & Hf).
      destruct (cstep_enabled s j pc n Hn (cnt_all_nth _ _ _ _ _ G8 Hn) (or_introl Hf)) as [s' E]. exists (C j), s'. exact E. }
  (* nobody holds a mutex *)
  assert (Hpm : pm s = false) by (destruct (pm s); [simpl in G3; lia|reflexivity]).
  assert (Hcm : cm s = false) by (destruct (cm s); [simpl in G4; lia|reflexivity]).
  destruct (Nat.eq_dec (cnt at1 (prods s)) 0) as [Pl|Pl].
  2:{ destruct (cnt_pos_ex _ at1 (prods s) ltac:(lia)) as (i & [pc n] & Hn & Hf).
      assert (pc = 1) by (unfold at1 in Hf; simpl in Hf; destruct pc as [|[|pc]]; congruence). subst pc.
      destruct (pstep_enabled s i 1 n Hn (cnt_all_nth _ _ _ _ _ G7 Hn) (or_intror (or_introl (conj eq_refl Hpm)))) as [s' E].
      exists (P i), s'. exact E. }
  destruct (Nat.eq_dec (cnt at1 (cons s)) 0) as [Cl|Cl].
  2:{ destruct (cnt_pos_ex _ at1 (cons s) ltac:(lia)) as (j & [pc n] & Hn & Hf).
      assert (pc = 1) by (unfold at1 in Hf; simpl in Hf; destruct pc as [|[|pc]]; congruence). subst pc.
      destruct (cstep_enabled s j 1 n Hn (cnt_all_nth _ _ _ _ _ G8 Hn) (or_intror (or_introl (conj eq_refl Hcm)))) as [s' E].
      exists (C j), s'. exact E. }
  (* everyone is between calls *)
  assert (HpE : cnt hasTok (prods s) = 0) by lia. assert (HcU : cnt hasTok (cons s) = 0) by lia.
  destruct (p_idle _ HpE) as [Prem Ppc]. destruct (c_idle _ HcU) as [Crem Cpc].
  assert (Hu : used s + tot p_rem (prods s) = tot c_rem (cons s)) by lia.
  destruct (Nat.eq_dec (used s) 0) as [U0|U0].
  - (* queue empty: a producer with a call left can take an empty-token, since empty = k >= 1 *)
    assert (H : 0 < tot p_rem (prods s)) by (destruct Hw; lia).
    rewrite Prem in H. destruct (tot_pos_ex _ _ _ H) as (i & [pc todo] & Hn & Hpos). simpl in Hpos.
    rewrite (Ppc _ _ _ Hn) in Hn.
    assert (Hne : todo <> []) by (destruct todo; simpl in Hpos; [lia|discriminate]).
    destruct (pstep_enabled s i 0 todo Hn (cnt_all_nth _ _ _ _ _ G7 Hn)) as [s' E].
    { right; right. repeat split; auto. lia. }
    exists (P i), s'. exact E.
  - (* something is queued: a consumer with a call left can take a used-token *)
    assert (H : 0 < tot c_rem (cons s)) by lia.
    rewrite Crem in H. destruct (tot_pos_ex _ _ _ H) as (j & [pc n] & Hn & Hpos). simpl in Hpos.
    rewrite (Cpc _ _ _ Hn) in Hn.
    destruct (cstep_enabled s j 0 n Hn (cnt_all_nth _ _ _ _ _ G8 Hn)) as [s' E].
    { right; right. repeat split; auto. lia. }
    exists (C j), s'. exact E.
Qed.

(* progress measure: every step strictly decreases it, so every schedule is finite *)
Definition p_meas (x : nat * list val) := 6 * length (snd x) - fst x.
Definition c_meas (x : nat * nat) := 6 * snd x - fst x.
Definition measure (s : st) : nat := tot p_meas (prods s) + tot c_meas (cons s).

Theorem progress_measure : forall s t s', step s t = Some s' -> measure s' < measure s.
Proof.
  intros s t s' Hs. unfold measure. destruct t as [i|j]; simpl in Hs.
  - destruct (pstep_spec _ _ _ Hs) as (pc & v & rest & Hn & Hc).
    destruct Hc as [(-> & He & ->)|[(-> & Hm & ->)|[(-> & ->)|[(-> & ->)|[(-> & ->)|(-> & ->)]]]]]; simpl;
      match goal with |- context [tot p_meas (upd ?l ?i ?x)] => pose proof (tot_upd _ p_meas l i x _ Hn) as Hu end;
      unfold p_meas in Hu at 2 4; simpl in Hu; lia.
  - destruct (cstep_spec _ _ _ Hs) as (pc & n & Hn & Hc).
    destruct Hc as [(-> & He & ->)|[(-> & Hm & ->)|[(-> & ->)|[(-> & ->)|[(-> & ->)|(-> & ->)]]]]]; simpl;
      match goal with |- context [tot c_meas (upd ?l ?i ?x)] => pose proof (tot_upd _ c_meas l i x _ Hn) as Hu end;
      unfold c_meas in Hu at 2 4; simpl in Hu; lia.
Qed.

Theorem schedules_bounded : forall sched s s', run sched s = Some s' -> length sched + measure s' <= measure s.
Proof.
  induction sched as [|t sched IH]; intros s s' Hr; unfold run in Hr; simpl in Hr.
  - injection Hr as <-. simpl. lia.
  - destruct (step s t) as [s1|] eqn:E; [|rewrite run_none in Hr; discriminate].
    apply progress_measure in E. apply IH in Hr. simpl. lia.
Qed.

(* when nothing is left to do, every stored value has been loaded, in order, and every producer stored exactly its items *)
Theorem all_delivered : forall k items counts s, reachable k items counts s -> sum_len items = sum_n counts ->
  ~ work_left s ->
  map snd (loaded s) = map snd (hist s) /\
  (forall i o, nth_error items i = Some o -> stored_by i s = o) /\
  length (hist s) = sum_len items.
Proof.
  intros k items counts s H Heq Hw. destruct (reachable_inv _ _ _ _ H) as [[G0 G1 G2 G3 G4 G5 G6 G7 G8 G9 G10] [DR DL DP]].
  unfold work_left in Hw.
  assert (A : tot p_rem (prods s) = 0 /\ tot c_rem (cons s) = 0 /\ cnt hasTok (prods s) = 0 /\ cnt hasTok (cons s) = 0) by lia.
  destruct A as (A1 & A2 & A3 & A4).
  pose proof (cls_tok _ (prods s)). pose proof (cls_tok _ (cons s)).
  assert (Hl : length (loaded s) = length (hist s)) by lia.
  split; [|split].
  - rewrite DL, Hl. rewrite <- (map_length snd (hist s)). apply firstn_all.
  - intros i o Hi. destruct (exactly_once_fifo _ _ _ _ H) as (_ & _ & _ & Hp).
    destruct (nth_error (prods s) i) as [[pc todo]|] eqn:Hn.
    + pose proof (DP _ _ _ _ Hn Hi) as E. destruct (p_idle _ A3) as [Prem Ppc]. rewrite (Ppc _ _ _ Hn) in *.
      rewrite Prem in A1.
      assert (length todo = 0).
      { clear -A1 Hn. revert i Hn. induction (prods s) as [|h l IH]; intros [|i] Hn; simpl in *; try discriminate.
        - injection Hn as ->. simpl in A1. lia.
        - apply (IH ltac:(lia) i Hn). }
      destruct todo; [|discriminate]. unfold p_rest in E. simpl in E. rewrite app_nil_r in E. exact E.
    + destruct (Hp _ _ Hi) as [rest Hr]. exfalso.
      (* the producer list never changes length, so index i exists *)
      destruct H as [sched Hrun]. clear -Hrun Hn Hi.
      assert (Hlen : forall sched s0 s1, run sched s0 = Some s1 -> length (prods s1) = length (prods s0)).
      { clear. induction sched as [|t sched IH]; intros s0 s1 Hr; unfold run in Hr; simpl in Hr; [injection Hr as <-; reflexivity|].
        destruct (step s0 t) as [s2|] eqn:E; [|rewrite run_none in Hr; discriminate].
        rewrite (IH _ _ Hr). destruct t as [i|j]; simpl in E.
        - destruct (pstep_spec _ _ _ E) as (pc & v & rest & Hn & Hc).
          destruct Hc as [(-> & He & ->)|[(-> & Hm & ->)|[(-> & ->)|[(-> & ->)|[(-> & ->)|(-> & ->)]]]]]; simpl; apply upd_length.
        - destruct (cstep_spec _ _ _ E) as (pc & n & Hn & Hc).
          destruct Hc as [(-> & He & ->)|[(-> & Hm & ->)|[(-> & ->)|[(-> & ->)|[(-> & ->)|(-> & ->)]]]]]; simpl; reflexivity. }
      apply Hlen in Hrun. rewrite init_fields in Hrun. simpl in Hrun. rewrite map_length in Hrun.
      apply nth_error_None in Hn. assert (i < length items) by (apply nth_error_Some; congruence). lia.
  - lia.
Qed.

(* the hypotheses are satisfiable: a concrete complete run, 2 producers, 2 consumers, capacity 2, interleaved *)
Example run_example :
  exists s, run [P 0; P 0; P 0; P 1; P 0; P 0; P 0; P 1; P 1; P 1; P 1; P 1; C 0; C 0; C 1; C 0; C 0; C 0; C 0;
                 C 1; C 1; C 1; C 1; C 1; P 0; P 0; P 0; P 0; P 0; P 0; C 1; C 1; C 1; C 1; C 1; C 1]
                (init_st 2 [[7; 8]; [9]] [1; 2]) = Some s /\ finished s = true /\
            consumed_by 0 s = [7] /\ consumed_by 1 s = [9; 8] /\ ~ work_left s.
Proof. eexists. split; [vm_compute; reflexivity|]. split; [reflexivity|]. split; [reflexivity|]. split; [reflexivity|].
  unfold work_left. simpl. lia. Qed.

(* "work left" is exactly "not every thread has finished" *)
Lemma p_not_fin : forall l : list (nat * list val),
  forallb (fun x => (fst x =? 0) && (match snd x with [] => true | _ => false end)) l = false -> 0 < tot p_rem l + cnt hasTok l.
Proof.
  induction l as [|[pc todo] l IH]; simpl; intros H; [discriminate|].
  destruct pc as [|pc]; simpl in *.
  - destruct todo; simpl in *; [specialize (IH H)|]; unfold p_rem, hasTok in *; simpl in *; lia.
  - unfold p_rem, hasTok in *; simpl in *. lia.
Qed.
Lemma c_not_fin : forall l : list (nat * nat),
  forallb (fun x => (fst x =? 0) && (snd x =? 0)) l = false -> 0 < tot c_rem l + cnt hasTok l.
Proof.
  induction l as [|[pc n] l IH]; simpl; intros H; [discriminate|].
  destruct pc as [|pc]; simpl in *.
  - destruct n; simpl in *; [specialize (IH H)|]; unfold c_rem, hasTok in *; simpl in *; lia.
  - unfold c_rem, hasTok in *; simpl in *. lia.
Qed.
Lemma not_finished_work_left : forall s, finished s = false -> work_left s.
Proof.
  intros s H. unfold finished in H. apply andb_false_iff in H. unfold work_left.
  destruct H as [H|H]; [apply p_not_fin in H|apply c_not_fin in H]; lia.
Qed.
Lemma finished_no_work : forall s, finished s = true -> ~ work_left s.
Proof.
  intros s H. unfold finished in H. apply andb_true_iff in H. destruct H as [Hp Hc]. unfold work_left.
  assert (A : tot p_rem (prods s) + cnt hasTok (prods s) = 0).
  { clear Hc. induction (prods s) as [|[pc todo] l IH]; simpl in *; [reflexivity|].
    apply andb_true_iff in Hp. destruct Hp as [Hh Ht]. apply andb_true_iff in Hh. destruct Hh as [H1 H2].
    apply Nat.eqb_eq in H1. subst pc. destruct todo; [|discriminate]. specialize (IH Ht). unfold p_rem, hasTok in *. simpl in *. lia. }
  assert (B : tot c_rem (cons s) + cnt hasTok (cons s) = 0).
  { clear Hp A. induction (cons s) as [|[pc n] l IH]; simpl in *; [reflexivity|].
    apply andb_true_iff in Hc. destruct Hc as [Hh Ht]. apply andb_true_iff in Hh. destruct Hh as [H1 H2].
    apply Nat.eqb_eq in H1. apply Nat.eqb_eq in H2. subst pc n. specialize (IH Ht). unfold c_rem, hasTok in *. simpl in *. lia. }
  lia.
Qed.

Theorem deadlock_free_reachable : forall k items counts s, 1 <= k -> sum_len items = sum_n counts ->
  reachable k items counts s -> finished s = false -> exists t s', step s t = Some s'.
Proof.
  intros k items counts s Hk Heq H Hf. destruct (reachable_inv _ _ _ _ H) as [Hc _]. rewrite <- Heq in Hc.
  eapply deadlock_free; [exact Hk | exact Hc | apply not_finished_work_left; exact Hf].
Qed.

Theorem all_delivered_finished : forall k items counts s, reachable k items counts s -> sum_len items = sum_n counts ->
  finished s = true ->
  map snd (loaded s) = map snd (hist s) /\ (forall i o, nth_error items i = Some o -> stored_by i s = o) /\
  length (hist s) = sum_len items.
Proof. intros. eapply all_delivered; eauto. apply finished_no_work. assumption. Qed.

Theorem schedules_bounded_init : forall k items counts sched s, run sched (init_st k items counts) = Some s ->
  length sched <= 6 * sum_len items + 6 * sum_n counts.
Proof.
  intros k items counts sched s H. apply schedules_bounded in H.
  assert (A : forall l, tot p_meas (map (fun l => (0, l)) l) = 6 * tot (@length val) l).
  { induction l as [|h l IH]; [reflexivity|]. cbn [map tot]. rewrite IH. unfold p_meas. cbn [fst snd]. lia. }
  assert (B : forall l, tot c_meas (map (fun n => (0, n)) l) = 6 * tot (fun n => n) l).
  { induction l as [|h l IH]; [reflexivity|]. cbn [map tot]. rewrite IH. unfold c_meas. cbn [fst snd]. lia. }
  assert (measure (init_st k items counts) = 6 * sum_len items + 6 * sum_n counts).
  { rewrite init_fields. unfold measure. cbn [prods cons]. rewrite A, B. reflexivity. }
  lia.
Qed.

(* ------------------------------------------------------------------------------------------- *)
(* Refinement to the atomic bounded FIFO: the abstract queue content is the list of values stored and not yet loaded. *)
(* A store appends to it, a load removes its head, every other operation leaves it alone, and it never holds more   *)
(* than k values.  (Linearisation points: the store into the slot / the load from the slot.)                         *)
Definition absq (s : st) : list val := skipn (length (loaded s)) (map snd (hist s)).

Lemma skipn_app_le' : forall A (l r : list A) n, n <= length l -> skipn n (l ++ r) = skipn n l ++ r.
Proof. induction l as [|h t IH]; intros r [|n] H; simpl in *; try lia; auto. apply IH. lia. Qed.
Lemma skipn_nth' : forall A (l : list A) n d, n < length l -> skipn n l = nth n l d :: skipn (S n) l.
Proof. induction l as [|h t IH]; intros [|n] d H; simpl in *; try lia; auto. apply IH. lia. Qed.

Theorem refines_atomic : forall k items counts s t s', reachable k items counts s -> step s t = Some s' ->
  length (absq s) <= k /\
  (   (exists i v, t = P i /\ absq s' = absq s ++ [v] /\ stored_by i s' = stored_by i s ++ [v])      (* Produce takes effect *)
   \/ (exists j v, t = C j /\ absq s = v :: absq s' /\ consumed_by j s' = consumed_by j s ++ [v])     (* Consume takes effect *)
   \/ (absq s' = absq s /\ hist s' = hist s /\ loaded s' = loaded s)).
Proof.
  intros k items counts s t s' H Hs.
  destruct (reachable_inv _ _ _ _ H) as [[G0 G1 G2 G3 G4 G5 G6 G7 G8 G9 G10] [DR DL DP]].
  pose proof (cls_tok _ (prods s)) as Tp. pose proof (cls_claim _ (cons s)) as [Cc Cc'].
  pose proof (cls_lock _ (cons s)) as Lc.
  assert (Hll : length (loaded s) <= length (hist s)) by lia.
  split.
  - unfold absq. rewrite skipn_length, map_length. lia.
  - destruct t as [i|j]; simpl in Hs.
    + destruct (pstep_spec _ _ _ Hs) as (pc & v & rest & Hn & Hc).
      destruct Hc as [(-> & He & ->)|[(-> & Hm & ->)|[(-> & ->)|[(-> & ->)|[(-> & ->)|(-> & ->)]]]]];
        try solve [right; right; unfold absq; simpl; auto].
      left. exists i, v. split; [reflexivity|]. unfold absq, stored_by. simpl.
      rewrite map_app, skipn_app_le' by (rewrite map_length; lia). split; [reflexivity|].
      rewrite filter_app, map_app. simpl. rewrite Nat.eqb_refl. reflexivity.
    + destruct (cstep_spec _ _ _ Hs) as (pc & n & Hn & Hc).
      destruct Hc as [(-> & He & ->)|[(-> & Hm & ->)|[(-> & ->)|[(-> & ->)|[(-> & ->)|(-> & ->)]]]]];
        try solve [right; right; unfold absq; simpl; auto].
      right; left.
      pose proof (cnt_nth_pos _ at2 _ _ _ Hn eq_refl) as A2.
      assert (B : cnt inLock (cons s) <= 1) by (rewrite G4; destruct (cm s); simpl; lia).
      assert (A3 : cnt at3 (cons s) = 0) by lia.
      assert (Hlen : length (loaded s) = ca s) by lia.
      assert (Hlt : ca s < length (hist s)) by lia.
      exists j, (nth (ca s mod length (ring s)) (ring s) 0). split; [reflexivity|]. unfold absq, consumed_by. simpl.
      rewrite app_length. simpl. rewrite Nat.add_1_r. split.
      * rewrite (skipn_nth' _ (map snd (hist s)) (length (loaded s)) 0) by (rewrite map_length; lia).
        f_equal. rewrite Hlen, G0, DR by lia. apply (map_nth snd (hist s) (0, 0) (ca s)).
      * rewrite filter_app, map_app. simpl. rewrite Nat.eqb_refl. reflexivity.
Qed.

(* ------------------------------------------------------------------------------------------- *)
(* signals: an interrupted wait is retried, so a signal never changes the state of the queue, and every run with signals *)
(* is a run without them                                                                                                 *)
Lemma interrupt_noop : forall s t s', interrupt s t = Some s' -> s' = s.
Proof.
  intros s t s' H. unfold interrupt in H. rewrite wait_is_expected in H.
  destruct (parked s t); injection H as <-; reflexivity.
Qed.
Lemma interrupt_total : forall s t, interrupt s t = Some s.
Proof. intros s t. unfold interrupt. rewrite wait_is_expected. destruct (parked s t); reflexivity. Qed.

Lemma run_i_none : forall sched, fold_left (fun o e => match o with Some x => step_i x e | None => None end) sched None = None.
Proof. induction sched; simpl; auto. Qed.
Theorem run_i_is_run : forall sched s s', run_i sched s = Some s' -> run (runs_of sched) s = Some s'.
Proof.
  induction sched as [|e sched IH]; intros s s' H; unfold run_i in H; simpl in H.
  - exact H.
  - destruct e as [t|t]; simpl in *.
    + unfold run. simpl. destruct (step s t) as [s1|] eqn:E; [|rewrite run_i_none in H; discriminate].
      apply IH. exact H.
    + rewrite interrupt_total in H. apply IH. exact H.
Qed.
