(* C17 -- life cycle and configuration of util::stream::Chain (util/stream/chain.{hh,cc}): constructor check and block-size
   arithmetic, Start / Add / operator>> / CompleteLoop / Wait and reuse.  One *round* of a running chain is what ChainModel.v
   describes; this file describes what happens between rounds.  No proofs in this file. *)
From Coq Require Import List Arith Bool.
Import ListNotations.

(* Chain::Chain: refuses zero-size entries, zero blocks, and a budget below one entry per block; otherwise
   block_size_ = total_memory / (block_count * entry_size) * entry_size *)
Definition chain_block_size (entry_size block_count total_memory : nat) : option nat :=
  if (entry_size =? 0) || (block_count =? 0) || (total_memory <? entry_size * block_count) then None
  else Some (total_memory / (block_count * entry_size) * entry_size).

(* the chain object between and during rounds *)
Record life := mklife {
  lqueues : nat;          (* queues_.size() : 0 = not running *)
  lthreads : nat;         (* threads_.size(): workers owned by the chain *)
  lcomplete : bool;       (* complete_called_ *)
  linflight : nat;        (* blocks (and poison) sitting in queues or in workers' hands *)
  lmade : list nat        (* capacities of the PCQueues constructed so far, in order (white-box observation) *)
}.
Definition life_init : life := mklife 0 0 false 0 [].
Definition lrunning (l : life) : bool := negb (lqueues l =? 0).

Inductive lop :=
| LWait                  (* Chain::Wait *)
| LStart                 (* Chain::Start (public: "waits for the current chain to complete (if any) then starts again") *)
| LAddOutside            (* chain >> stream / chain.Add(): a position driven by a thread the chain does not own *)
| LAddWorker             (* chain >> worker: a chain-owned thread on a new position *)
| LRecycle.              (* chain >> kRecycle = CompleteLoop: a chain-owned recycler from the last queue to the lead queue *)

Definition do_wait (l : life) : life :=
  if lqueues l =? 0 then l          (* nothing to wait for *)
  else (* if (!complete_called_) CompleteLoop(); threads_.clear() [join]; drain the lead queue to the poison; queues_.clear() *)
    mklife 0 0 false 0 (lmade l).
Definition do_start (bc : nat) (l : life) : life :=
  let l := do_wait l in
  mklife 1 0 false bc (lmade l ++ [bc]).           (* the lead queue, populated with block_count blocks *)
Definition do_add (bc : nat) (l : life) : life :=
  let l := if lrunning l then l else do_start bc l in
  mklife (S (lqueues l)) (lthreads l) (lcomplete l) (linflight l) (lmade l ++ [bc]).
Definition life_step (bc : nat) (l : life) (o : lop) : life :=
  match o with
  | LWait => do_wait l
  | LStart => do_start bc l
  | LAddOutside => do_add bc l
  | LAddWorker => let l := do_add bc l in mklife (lqueues l) (S (lthreads l)) (lcomplete l) (linflight l) (lmade l)
  | LRecycle => if lrunning l then mklife (lqueues l) (S (lthreads l)) true (linflight l) (lmade l) else l   (* Complete() asserts Running() *)
  end.
Definition life_run (bc : nat) (ops : list lop) (l : life) : life := fold_left (life_step bc) ops l.
