(* C17 -- vocabulary of synchronisation operations.  coq/Gen/PCQueueProg.v (regenerated from util/pcqueue.hh on
   every run) is a value of these types; the interleaving semantics in PCQueueModel.v interprets them. *)
Inductive sem := SemEmpty | SemUsed.                (* PCQueue::empty_ , PCQueue::used_ *)
Inductive mtx := MtxProduce | MtxConsume.           (* produce_at_mutex_ , consume_at_mutex_ *)
Inductive cursor := CurProduce | CurConsume.        (* produce_at_ , consume_at_ *)

Inductive op :=
| SemWait (s : sem)            (* WaitSemaphore(s)  (the EINTR retry loop is one blocking wait) *)
| SemPost (s : sem)            (* s.post() *)
| Lock (m : mtx)               (* boost::unique_lock<boost::mutex> l(m): constructor *)
| Unlock (m : mtx)             (* end of the scope that owns the unique_lock *)
| StoreArg (c : cursor)        (* *c = val *)
| LoadOut (c : cursor)         (* out = *c *)
| AdvanceWrap (c : cursor)     (* if (++c == end_) c = storage_.get() *)
| Opaque (n : nat).            (* a statement the extractor does not recognise (never in the expected programs) *)

(* member initialisers of the constructor PCQueue(size_t size) *)
Inductive init :=
| InitSemSize (s : sem)        (* s(size) *)
| InitSemZero (s : sem)        (* s(0) *)
| InitStorageSize              (* storage_(new T[size]) *)
| InitEndSize                  (* end_(storage_.get() + size) *)
| InitCursorBegin (c : cursor) (* c(storage_.get()) *)
| InitOpaque (n : nat).

Definition sem_eqb (a b : sem) : bool := match a, b with SemEmpty, SemEmpty | SemUsed, SemUsed => true | _, _ => false end.
Definition mtx_eqb (a b : mtx) : bool := match a, b with MtxProduce, MtxProduce | MtxConsume, MtxConsume => true | _, _ => false end.

(* what util::WaitSemaphore does when the blocking Semaphore::wait() is interrupted by a signal (EINTR) *)
Inductive eintr_action :=
| EintrRetry                 (* while (1) { try { wait(); break; } catch (EINTR) {} }: wait again *)
| EintrReturnAsAcquired      (* returns to the caller as if a unit had been acquired *)
| EintrOpaque.               (* a shape the extractor does not recognise *)
