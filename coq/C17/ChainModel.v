(* C17 -- util::stream::Chain (util/stream/chain.{hh,cc}) over the atomic bounded-FIFO specification of PCQueue.
   A chain is a ring: queue 0 (filled with block_count empty blocks by Chain::Start) -> source worker -> queue 1 ->
   worker 1 -> ... -> last worker -> queue 0.  Every worker is a Link loop:
       Link l(pos)            Consume(in)                          [Link::Init]
       for (; l; ++l) {...}   Produce(out, cur); Consume(in, cur); if (!cur) { poisoned_ = true; Produce(out, cur); }   [operator++]
   The source fills blocks and finally calls Link::Poison() (its current block *becomes* the poison and is produced).
   The last worker hands blocks back to queue 0 (Recycler / WriteAndRecycle): their payload is gone, they are Empty.
   Chain::Wait joins every worker (threads_.clear()), then consumes queue 0 up to the poison, aborting if it sees more
   than block_count other blocks.
   A block's payload is the list of its entries; a stage is a function on payloads (it may shrink a block to nothing,
   it never drops the block).  No proofs in this file. *)
From Coq Require Import List Arith Bool.
Import ListNotations.

Definition payload := list nat.
Inductive citem := Blk (p : payload) | Empty | CPoison.
Inductive wphase := PCons | PProd (y : citem) | PDone.
Record seg := mkseg { sq : list citem; sf : payload -> payload; sseen : list citem; sphase : wphase }.
   (* sq: the worker's input queue; sseen: ghost, everything it has consumed so far *)
Inductive srcphase := SCons | SProd | SDone.
Inductive mphase := MJoin | MDrain (n : nat) | MDone | MAbort.
Record chain := mkchain { q0 : list citem; sphs : srcphase; srest : list payload; segs : list seg; mainp : mphase }.

Definition lift (f : payload -> payload) (x : citem) : citem := match x with Blk p => Blk (f p) | other => other end.
Definition is_cpoison (x : citem) : bool := match x with CPoison => true | _ => false end.
Definition after_produce (y : citem) : wphase := if is_cpoison y then PDone else PCons.
Definition recycle (y : citem) : citem := match y with Blk _ => Empty | other => other end.

(* worker i of the segment list acts; the last worker's output goes to queue 0 *)
Fixpoint wstep (cap : nat) (sg : list seg) (q : list citem) (i : nat) : option (list seg * list citem) :=
  match sg with
  | [] => None
  | s :: rest =>
    match i with
    | O =>
      match sphase s with
      | PCons => match sq s with
                 | [] => None
                 | x :: q' => Some (mkseg q' (sf s) (sseen s ++ [x]) (PProd (lift (sf s) x)) :: rest, q)
                 end
      | PProd y =>
        match rest with
        | [] => if length q <? cap then Some ([mkseg (sq s) (sf s) (sseen s) (after_produce y)], q ++ [recycle y]) else None
        | s2 :: rest2 => if length (sq s2) <? cap
                         then Some (mkseg (sq s) (sf s) (sseen s) (after_produce y) :: mkseg (sq s2 ++ [y]) (sf s2) (sseen s2) (sphase s2) :: rest2, q)
                         else None
        end
      | PDone => None
      end
    | S j => match wstep cap rest q j with Some (rest', q') => Some (s :: rest', q') | None => None end
    end
  end.

Definition all_done (sg : list seg) : bool := forallb (fun s => match sphase s with PDone => true | _ => false end) sg.

Inductive ctid := TSrc | TW (i : nat) | TMain.
Definition chain_step (cap : nat) (c : chain) (t : ctid) : option chain :=
  match t with
  | TSrc =>
    match sphs c with
    | SCons => match q0 c with [] => None | _ :: q' => Some (mkchain q' SProd (srest c) (segs c) (mainp c)) end
    | SProd =>
      match segs c with
      | [] => None
      | s1 :: rest =>
        if length (sq s1) <? cap then
          match srest c with
          | p :: r => Some (mkchain (q0 c) SCons r (mkseg (sq s1 ++ [Blk p]) (sf s1) (sseen s1) (sphase s1) :: rest) (mainp c))
          | [] => Some (mkchain (q0 c) SDone [] (mkseg (sq s1 ++ [CPoison]) (sf s1) (sseen s1) (sphase s1) :: rest) (mainp c))
          end
        else None
      end
    | SDone => None
    end
  | TW i => match wstep cap (segs c) (q0 c) i with
            | Some (sg', q') => Some (mkchain q' (sphs c) (srest c) sg' (mainp c))
            | None => None
            end
  | TMain =>
    match mainp c with
    | MJoin => match sphs c with
               | SDone => if all_done (segs c) then Some (mkchain (q0 c) (sphs c) (srest c) (segs c) (MDrain 0)) else None
               | _ => None
               end
    | MDrain n => match q0 c with
                  | [] => None
                  | CPoison :: q' => Some (mkchain q' (sphs c) (srest c) (segs c) MDone)
                  | _ :: q' => Some (mkchain q' (sphs c) (srest c) (segs c) (if n =? cap then MAbort else MDrain (S n)))
                  end
    | _ => None
    end
  end.

Definition chain_init (b : nat) (payloads : list payload) (fs : list (payload -> payload)) : chain :=
  mkchain (repeat Empty b) SCons payloads (map (fun f => mkseg [] f [] PCons) fs) MJoin.
Definition chain_run (cap : nat) (sched : list ctid) (c : chain) : option chain :=
  fold_left (fun o t => match o with Some x => chain_step cap x t | None => None end) sched (Some c).

(* what the last worker (the sink) has received, as payloads *)
Definition payloads_of (l : list citem) : list payload := flat_map (fun x => match x with Blk p => [p] | _ => [] end) l.
Definition sink_seen (c : chain) : list payload := match rev (segs c) with s :: _ => payloads_of (sseen s) | [] => [] end.

(* ---- util::stream::Stream (util/stream/stream.hh): the record-level view of the blocks a worker receives ----
   StartBlock skips EVERY block whose valid size is 0 (a stage that compacts blocks in place can empty whole runs of them),
   operator++ moves to the next record and, at the end of the block, to the next non-empty block; the stream is false at
   the poison.  Cursor = current record, the rest of its block, the blocks still to come. *)
Fixpoint skip_empty (bl : list payload) : list payload :=
  match bl with [] :: r => skip_empty r | _ => bl end.
Inductive scursor := SEnd | SAt (cur : nat) (rest_of_block : list nat) (blocks : list payload).
Definition stream_start (bl : list payload) : scursor :=
  match skip_empty bl with (x :: r) :: rest => SAt x r rest | _ => SEnd end.
Definition stream_next (c : scursor) : scursor :=
  match c with SAt _ (y :: r) rest => SAt y r rest | SAt _ [] rest => stream_start rest | SEnd => SEnd end.
(* for (Stream s(pos); s; ++s) use the record at s *)
Fixpoint stream_read (fuel : nat) (c : scursor) : list nat :=
  match fuel, c with S f, SAt x _ _ => x :: stream_read f (stream_next c) | _, _ => [] end.
Definition stream_records (bl : list payload) : list nat := stream_read (S (length (concat bl))) (stream_start bl).
