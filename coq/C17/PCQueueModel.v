(* C17 -- executable interleaving model of util::PCQueue (util/pcqueue.hh).
   The thread programs are NOT written here: they are Gen.PCQueueProg.produce_prog / consume_prog / ctor_prog,
   regenerated from the source on every run.  This file only gives the operations their meaning.
   No proofs in this file (the model must still run when a proof breaks). *)
From Coq Require Import List Arith Bool.
From Kenlm Require Import C17.PCQueueOps Gen.PCQueueProg.
Import ListNotations.

Definition val := nat.

Record st := mkst {
  empty : nat; used : nat;            (* counts of the semaphores empty_ , used_ *)
  pm : bool; cm : bool;               (* produce_at_mutex_ / consume_at_mutex_ held? *)
  pa : nat; ca : nat;                 (* how often produce_at_ / consume_at_ advanced; slot = count mod capacity *)
  ring : list val;                    (* storage_ : capacity slots *)
  hist : list (nat * val);            (* ghost: every store so far, in order: (producer, value) *)
  loaded : list (nat * val);          (* ghost: every load so far, in order: (consumer, value) *)
  prods : list (nat * list val);      (* producer: pc into produce_prog, arguments of the Produce calls still to finish *)
  cons : list (nat * nat)             (* consumer: pc into consume_prog, number of Consume calls still to finish *)
}.

Fixpoint upd {A} (l : list A) (i : nat) (x : A) : list A :=
  match l, i with
  | [], _ => []
  | _ :: t, O => x :: t
  | h :: t, S i' => h :: upd t i' x
  end.

Definition sem_get (s : st) (x : sem) : nat := match x with SemEmpty => empty s | SemUsed => used s end.
Definition sem_set (s : st) (x : sem) (n : nat) : st :=
  match x with
  | SemEmpty => mkst n (used s) (pm s) (cm s) (pa s) (ca s) (ring s) (hist s) (loaded s) (prods s) (cons s)
  | SemUsed => mkst (empty s) n (pm s) (cm s) (pa s) (ca s) (ring s) (hist s) (loaded s) (prods s) (cons s)
  end.
Definition mtx_get (s : st) (m : mtx) : bool := match m with MtxProduce => pm s | MtxConsume => cm s end.
Definition mtx_set (s : st) (m : mtx) (b : bool) : st :=
  match m with
  | MtxProduce => mkst (empty s) (used s) b (cm s) (pa s) (ca s) (ring s) (hist s) (loaded s) (prods s) (cons s)
  | MtxConsume => mkst (empty s) (used s) (pm s) b (pa s) (ca s) (ring s) (hist s) (loaded s) (prods s) (cons s)
  end.
Definition cur_get (s : st) (c : cursor) : nat := match c with CurProduce => pa s | CurConsume => ca s end.
Definition slot (s : st) (c : cursor) : nat := cur_get s c mod length (ring s).
Definition advance (s : st) (c : cursor) : st :=
  match c with
  | CurProduce => mkst (empty s) (used s) (pm s) (cm s) (S (pa s)) (ca s) (ring s) (hist s) (loaded s) (prods s) (cons s)
  | CurConsume => mkst (empty s) (used s) (pm s) (cm s) (pa s) (S (ca s)) (ring s) (hist s) (loaded s) (prods s) (cons s)
  end.
Definition store (s : st) (c : cursor) (who : nat) (v : val) : st :=
  mkst (empty s) (used s) (pm s) (cm s) (pa s) (ca s) (upd (ring s) (slot s c) v) (hist s ++ [(who, v)]) (loaded s) (prods s) (cons s).
Definition load (s : st) (c : cursor) (who : nat) : st :=
  mkst (empty s) (used s) (pm s) (cm s) (pa s) (ca s) (ring s) (hist s) (loaded s ++ [(who, nth (slot s c) (ring s) 0)]) (prods s) (cons s).
Definition set_prods (s : st) (l : list (nat * list val)) : st :=
  mkst (empty s) (used s) (pm s) (cm s) (pa s) (ca s) (ring s) (hist s) (loaded s) l (cons s).
Definition set_cons (s : st) (l : list (nat * nat)) : st :=
  mkst (empty s) (used s) (pm s) (cm s) (pa s) (ca s) (ring s) (hist s) (loaded s) (prods s) l.

(* One operation by thread `who`; arg = the value passed to Produce (None in a consumer).
   None = the operation blocks in this state. *)
Definition exec (o : op) (who : nat) (arg : option val) (s : st) : option st :=
  match o with
  | SemWait x => if 0 <? sem_get s x then Some (sem_set s x (sem_get s x - 1)) else None
  | SemPost x => Some (sem_set s x (S (sem_get s x)))
  | Lock m => if mtx_get s m then None else Some (mtx_set s m true)
  | Unlock m => Some (mtx_set s m false)
  | StoreArg c => match arg with Some v => Some (store s c who v) | None => Some s end
  | LoadOut c => Some (load s c who)
  | AdvanceWrap c => Some (advance s c)
  | Opaque _ => Some s
  end.

Definition next_pc (prog : list op) (pc : nat) : nat := if S pc =? length prog then 0 else S pc.

(* producer i performs its next operation; at pc 0 with no call left the thread has finished (None) *)
Definition pstep (s : st) (i : nat) : option st :=
  match nth_error (prods s) i with
  | None => None
  | Some (pc, todo) =>
    match nth_error produce_prog pc, todo with
    | Some o, v :: rest =>
      match exec o i (Some v) s with
      | None => None
      | Some s1 => Some (set_prods s1 (upd (prods s1) i (next_pc produce_prog pc, if S pc =? length produce_prog then rest else todo)))
      end
    | _, _ => None
    end
  end.

Definition cstep (s : st) (j : nat) : option st :=
  match nth_error (cons s) j with
  | None => None
  | Some (pc, n) =>
    match nth_error consume_prog pc, n with
    | Some o, S n' =>
      match exec o j None s with
      | None => None
      | Some s1 => Some (set_cons s1 (upd (cons s1) j (next_pc consume_prog pc, if S pc =? length consume_prog then n' else n)))
      end
    | _, _ => None
    end
  end.

Inductive tid := P (i : nat) | C (j : nat).
Definition step (s : st) (t : tid) : option st := match t with P i => pstep s i | C j => cstep s j end.

(* a schedule is a list of thread ids; a step that is not enabled makes the run invalid (None) *)
Definition run (sched : list tid) (s : st) : option st :=
  fold_left (fun o t => match o with Some x => step x t | None => None end) sched (Some s).

(* initial state, from the constructor's initialisers *)
Fixpoint sem_init (l : list init) (x : sem) (k : nat) : nat :=
  match l with
  | [] => 0
  | InitSemSize y :: r => if sem_eqb x y then k else sem_init r x k
  | InitSemZero y :: r => if sem_eqb x y then 0 else sem_init r x k
  | _ :: r => sem_init r x k
  end.
Definition cursor_eqb (a b : cursor) := match a, b with CurProduce, CurProduce | CurConsume, CurConsume => true | _, _ => false end.
(* a cursor that is not initialised to storage_.get() is given the (wrong) start 1, so that the difference shows *)
Fixpoint cur_init (l : list init) (c : cursor) : nat :=
  match l with
  | [] => 1
  | InitCursorBegin d :: r => if cursor_eqb c d then 0 else cur_init r c
  | _ :: r => cur_init r c
  end.

Definition init_st (k : nat) (items : list (list val)) (counts : list nat) : st :=
  mkst (sem_init ctor_prog SemEmpty k) (sem_init ctor_prog SemUsed k) false false
       (cur_init ctor_prog CurProduce) (cur_init ctor_prog CurConsume) (repeat 0 k) [] []
       (map (fun l => (0, l)) items) (map (fun n => (0, n)) counts).

(* ---- observations used by the correspondence driver ---- *)
Fixpoint iota (from n : nat) : list nat := match n with O => [] | S m => from :: iota (S from) m end.
Definition enabled (s : st) : list tid :=
  map P (filter (fun i => match pstep s i with Some _ => true | None => false end) (iota 0 (length (prods s)))) ++
  map C (filter (fun j => match cstep s j with Some _ => true | None => false end) (iota 0 (length (cons s)))).
Definition finished (s : st) : bool :=
  forallb (fun x => (fst x =? 0) && (match snd x with [] => true | _ => false end)) (prods s) &&
  forallb (fun x => (fst x =? 0) && (snd x =? 0)) (cons s).
Definition consumed_by (j : nat) (s : st) : list val := map snd (filter (fun x => fst x =? j) (loaded s)).
(* values already *returned* by Consume calls of consumer j: its loads, minus the one of a call still in progress *)
Definition returned_by (j : nat) (s : st) : list val :=
  match nth_error (cons s) j with
  | Some (pc, _) => if (pc =? 0) || (pc =? 1) || (pc =? 2) then consumed_by j s else removelast (consumed_by j s)
  | None => []
  end.
Definition stored_by (i : nat) (s : st) : list val := map snd (filter (fun x => fst x =? i) (hist s)).

(* replay a schedule, recording the enabled set before every step; stops at the first step that is not enabled *)
Fixpoint replay (sched : list tid) (s : st) (acc : list (list tid)) : list (list tid) * st * option tid :=
  match sched with
  | [] => (rev acc, s, None)
  | t :: r => match step s t with
              | Some s' => replay r s' (enabled s :: acc)
              | None => (rev (enabled s :: acc), s, Some t)
              end
  end.

(* ---- a signal interrupts a thread ----
   Only a thread that is parked in a semaphore wait (its next operation is SemWait x and the count is 0) notices: the blocking
   wait() fails with EINTR and util::WaitSemaphore does what Gen.PCQueueProg.wait_on_eintr says: wait again (the state does not
   change), or return to the caller as if a unit had been acquired (the thread goes on without the unit). *)
Definition skip_wait_p (s : st) (i : nat) : option st :=
  match nth_error (prods s) i with
  | Some (pc, todo) => Some (set_prods s (upd (prods s) i (next_pc produce_prog pc, if S pc =? length produce_prog then tl todo else todo)))
  | None => None
  end.
Definition skip_wait_c (s : st) (j : nat) : option st :=
  match nth_error (cons s) j with
  | Some (pc, n) => Some (set_cons s (upd (cons s) j (next_pc consume_prog pc, if S pc =? length consume_prog then pred n else n)))
  | None => None
  end.
Definition parked (s : st) (t : tid) : bool :=
  match t with
  | P i => match nth_error (prods s) i with
           | Some (pc, _ :: _) => match nth_error produce_prog pc with Some (SemWait x) => sem_get s x =? 0 | _ => false end
           | _ => false
           end
  | C j => match nth_error (cons s) j with
           | Some (pc, S _) => match nth_error consume_prog pc with Some (SemWait x) => sem_get s x =? 0 | _ => false end
           | _ => false
           end
  end.
Definition interrupt (s : st) (t : tid) : option st :=
  if parked s t then
    match wait_on_eintr with
    | EintrRetry => Some s
    | EintrReturnAsAcquired => match t with P i => skip_wait_p s i | C j => skip_wait_c s j end
    | EintrOpaque => None
    end
  else Some s.

Inductive event := Run (t : tid) | Signal (t : tid).
Definition step_i (s : st) (e : event) : option st := match e with Run t => step s t | Signal t => interrupt s t end.
Definition run_i (sched : list event) (s : st) : option st :=
  fold_left (fun o e => match o with Some x => step_i x e | None => None end) sched (Some s).
Definition runs_of (sched : list event) : list tid := flat_map (fun e => match e with Run t => [t] | Signal _ => [] end) sched.

(* run the given threads until none of them can step (bounded by the progress measure; out of fuel is reported as None) *)
Fixpoint quiesce (fuel : nat) (active : list tid) (s : st) : option st :=
  match fuel with
  | O => None
  | S f => match find (fun t => match step s t with Some _ => true | None => false end) active with
           | Some t => match step s t with Some s' => quiesce f active s' | None => None end
           | None => Some s
           end
  end.
