(* C17 -- util::ThreadPool (util/thread_pool.hh) over the atomic bounded-FIFO specification of the queue
   (what C17_exactly_once_fifo / C17_capacity establish for PCQueue): Produce appends when there is room, Consume
   removes the head when there is one.  Main thread: Produce every request, then (~ThreadPool) one poison per worker.
   Worker: loop { Consume; if poison return; handle }.  No proofs in this file. *)
From Coq Require Import List Arith Bool.
From Kenlm Require Import C17.PCQueueModel.
Import ListNotations.

Inductive item := Req (r : nat) | Poison.
Inductive wst := WIdle | WHold (r : nat) | WDone.
Record pool := mkpool { todo : list item; pq : list item; pws : list wst; handled : list (nat * nat) }.

Definition pool_init (reqs : list nat) (w : nat) : pool :=
  mkpool (map Req reqs ++ repeat Poison w) [] (repeat WIdle w) [].

Inductive ptid := Main | Wk (j : nat).
Definition pool_step (cap : nat) (s : pool) (t : ptid) : option pool :=
  match t with
  | Main => match todo s with
            | x :: rest => if length (pq s) <? cap then Some (mkpool rest (pq s ++ [x]) (pws s) (handled s)) else None
            | [] => None
            end
  | Wk j => match nth_error (pws s) j with
            | Some WIdle => match pq s with
                            | Req r :: q' => Some (mkpool (todo s) q' (upd (pws s) j (WHold r)) (handled s))
                            | Poison :: q' => Some (mkpool (todo s) q' (upd (pws s) j WDone) (handled s))
                            | [] => None
                            end
            | Some (WHold r) => Some (mkpool (todo s) (pq s) (upd (pws s) j WIdle) (handled s ++ [(j, r)]))
            | _ => None
            end
  end.
Definition pool_run (cap : nat) (sched : list ptid) (s : pool) : option pool :=
  fold_left (fun o t => match o with Some x => pool_step cap x t | None => None end) sched (Some s).
Definition is_done (x : wst) : bool := match x with WDone => true | _ => false end.
Definition pool_finished (s : pool) : bool :=
  match todo s, pq s with [], [] => forallb is_done (pws s) | _, _ => false end.

(* ---- handlers that can fail ----
   util::Worker::operator() catches whatever the handler throws, reports it and calls abort(): the request has been consumed
   and the whole process ends; it is never dropped with the worker carrying on.  `fails r` = the handler throws on request r.
   State: the pool and "the process has been aborted" (then nothing steps any more). *)
Definition pool_step_f (cap : nat) (fails : nat -> bool) (s : pool * bool) (t : ptid) : option (pool * bool) :=
  if snd s then None else
  match t with
  | Wk j => match nth_error (pws (fst s)) j with
            | Some (WHold r) => if fails r then Some (fst s, true)
                                else option_map (fun p => (p, false)) (pool_step cap (fst s) t)
            | _ => option_map (fun p => (p, false)) (pool_step cap (fst s) t)
            end
  | Main => option_map (fun p => (p, false)) (pool_step cap (fst s) t)
  end.
Definition pool_run_f (cap : nat) (fails : nat -> bool) (sched : list ptid) (s : pool * bool) : option (pool * bool) :=
  fold_left (fun o t => match o with Some x => pool_step_f cap fails x t | None => None end) sched (Some s).
