(* C17 -- chains: every worker sees a prefix of a schedule-independent stream (Kahn), in production order; the number of
   blocks is conserved; poison reaches queue 0; Chain::Wait returns without aborting; no deadlock.  For every number of
   blocks >= 1, every number of workers >= 1, all payloads, all stage functions, all schedules. *)
From Coq Require Import List Arith Lia Bool.
From Kenlm Require Import C17.PCQueueModel C17.PCQueueProofs C17.ChainModel.
Import ListNotations.

Definition no_poison (l : list citem) : Prop := forallb (fun x => negb (is_cpoison x)) l = true.
Definition poison_last (X : list citem) : Prop := exists body, X = body ++ [CPoison] /\ no_poison body.

Lemma lift_poison : forall f x, lift f x = CPoison <-> x = CPoison.
Proof. intros f [p| |]; simpl; split; intros H; try discriminate; reflexivity. Qed.
Lemma lift_empty : forall f, lift f Empty = Empty. Proof. reflexivity. Qed.

Lemma poison_last_map : forall f X, poison_last X -> poison_last (map (lift f) X).
Proof.
  intros f X (body & -> & Hb). exists (map (lift f) body). split; [rewrite map_app; reflexivity|].
  unfold no_poison in *. rewrite forallb_forall in *. intros y Hy. apply in_map_iff in Hy. destruct Hy as (x & <- & Hx).
  specialize (Hb x Hx). destruct x; simpl in *; auto.
Qed.
Lemma poison_last_pos : forall X n, poison_last X -> n < length X -> nth n X Empty = CPoison -> S n = length X.
Proof.
  intros X n (body & -> & Hb) Hn Hp. rewrite app_length in *. simpl in *.
  destruct (Nat.lt_ge_cases n (length body)) as [Hlt|Hge]; [|lia].
  rewrite app_nth1 in Hp by exact Hlt. unfold no_poison in Hb. rewrite forallb_forall in Hb.
  specialize (Hb (nth n body Empty) (nth_In _ _ Hlt)). rewrite Hp in Hb. discriminate.
Qed.
Lemma poison_last_at_end : forall X, poison_last X -> 1 <= length X /\ nth (length X - 1) X Empty = CPoison.
Proof.
  intros X (body & -> & Hb). rewrite app_length. simpl. split; [lia|].
  rewrite app_nth2 by lia. replace (length body + 1 - 1 - length body) with 0 by lia. reflexivity.
Qed.
Lemma firstn_In' : forall A (l : list A) n x, In x (firstn n l) -> In x l.
Proof. induction l as [|h t IH]; intros [|n] x H; simpl in *; auto; try contradiction. destruct H; auto. right. eapply IH; eauto. Qed.
Lemma no_poison_prefix : forall X c, poison_last X -> c < length X -> ~ In CPoison (firstn c X).
Proof.
  intros X c (body & -> & Hb) Hc Hin. rewrite app_length in Hc. simpl in Hc.
  rewrite firstn_app in Hin. replace (c - length body) with 0 in Hin by lia. simpl in Hin. rewrite app_nil_r in Hin.
  apply firstn_In' in Hin. unfold no_poison in Hb. rewrite forallb_forall in Hb. specialize (Hb _ Hin). discriminate.
Qed.

Lemma nth_skipn' : forall A (l : list A) c i d, nth i (skipn c l) d = nth (c + i) l d.
Proof. induction l as [|h t IH]; intros [|c] i d; simpl; auto. destruct i; reflexivity. Qed.
Lemma firstn_skipn_cons : forall A (l : list A) c n x q d, firstn n (skipn c l) = x :: q ->
  1 <= n /\ c < length l /\ x = nth c l d /\ q = firstn (n - 1) (skipn (S c) l).
Proof.
  intros A l c n x q d H. destruct n as [|n]; [discriminate|].
  destruct (skipn c l) as [|y r] eqn:E; [discriminate|]. simpl in H. injection H as <- <-.
  assert (Hc : c < length l).
  { destruct (Nat.lt_ge_cases c (length l)); [assumption|]. rewrite skipn_all2 in E by assumption. discriminate. }
  rewrite (skipn_nth' _ l c d Hc) in E. injection E as <- <-. repeat split; auto; try lia.
  simpl. rewrite Nat.sub_0_r. reflexivity.
Qed.

Definition produced (s : seg) : nat := match sphase s with PProd _ => length (sseen s) - 1 | _ => length (sseen s) end.

Fixpoint pipe_ok (X : list citem) (p : nat) (sg : list seg) : Prop :=
  match sg with
  | [] => True
  | s :: rest =>
    let c := length (sseen s) in
    sseen s = firstn c X /\ c <= p /\ p <= length X /\ sq s = firstn (p - c) (skipn c X) /\
    match sphase s with
    | PCons => ~ In CPoison (sseen s)
    | PProd y => 1 <= c /\ y = lift (sf s) (nth (c - 1) X Empty)
    | PDone => c = length X
    end /\
    pipe_ok (map (lift (sf s)) X) (produced s) rest
  end.

Lemma pipe_ok_cons : forall X p s rest, pipe_ok X p (s :: rest) =
  (sseen s = firstn (length (sseen s)) X /\ length (sseen s) <= p /\ p <= length X /\
   sq s = firstn (p - length (sseen s)) (skipn (length (sseen s)) X) /\
   match sphase s with
   | PCons => ~ In CPoison (sseen s)
   | PProd y => 1 <= length (sseen s) /\ y = lift (sf s) (nth (length (sseen s) - 1) X Empty)
   | PDone => length (sseen s) = length X
   end /\
   pipe_ok (map (lift (sf s)) X) (produced s) rest).
Proof. reflexivity. Qed.

Definition push (sg : list seg) (y : citem) : list seg :=
  match sg with [] => [] | s :: rest => mkseg (sq s ++ [y]) (sf s) (sseen s) (sphase s) :: rest end.

Lemma pipe_push : forall sg X p, pipe_ok X p sg -> p < length X -> pipe_ok X (S p) (push sg (nth p X Empty)).
Proof.
  intros [|s rest] X p H Hp; [exact I|]. cbn [push pipe_ok sq sf sseen sphase] in *.
  destruct H as (H1 & H2 & H3 & H4 & H5 & H6). repeat split; auto; try lia.
  rewrite H4. replace (S p - length (sseen s)) with (S (p - length (sseen s))) by lia.
  rewrite (firstn_S_nth _ (skipn (length (sseen s)) X) (p - length (sseen s)) Empty) by (rewrite skipn_length; lia).
  rewrite nth_skipn'. replace (length (sseen s) + (p - length (sseen s))) with p by lia. reflexivity.
Qed.

Lemma wstep_ok : forall cap sg X p q i sg' q', poison_last X -> pipe_ok X p sg ->
  wstep cap sg q i = Some (sg', q') -> pipe_ok X p sg'.
Proof.
  intros cap. induction sg as [|s rest IH]; intros X p q i sg' q' HX H Hs; simpl in Hs; [discriminate|].
  simpl in H. destruct H as (H1 & H2 & H3 & H4 & H5 & H6).
  destruct i as [|j].
  - destruct (sphase s) as [|y|] eqn:Eph.
    + (* consume *)
      destruct (sq s) as [|x q1] eqn:Eq; [discriminate|]. injection Hs as <- <-.
      symmetry in H4. destruct (firstn_skipn_cons _ X _ _ _ _ Empty H4) as (A & B & Cx & D).
      simpl. rewrite app_length. simpl. rewrite Nat.add_1_r.
      repeat split; auto; try lia.
      * rewrite (firstn_S_nth _ X (length (sseen s)) Empty B), <- H1, Cx. reflexivity.
      * rewrite D. f_equal. lia.
      * simpl. rewrite Nat.sub_0_r. rewrite Cx. reflexivity.
      * unfold produced in *. simpl. rewrite Eph in H6. rewrite app_length. simpl.
        replace (length (sseen s) + 1 - 1) with (length (sseen s)) by lia. exact H6.
    + (* produce *)
      destruct H5 as [Hc Hy].
      assert (Hnew : match after_produce y with
                     | PCons => ~ In CPoison (sseen s) | PProd y0 => 1 <= length (sseen s) /\ y0 = lift (sf s) (nth (length (sseen s) - 1) X Empty)
                     | PDone => length (sseen s) = length X end).
      { unfold after_produce. destruct (is_cpoison y) eqn:Ep.
        - destruct y; try discriminate. symmetry in Hy. apply lift_poison in Hy.
          pose proof (poison_last_pos X (length (sseen s) - 1) HX ltac:(lia) Hy). lia.
        - rewrite H1. apply no_poison_prefix; [exact HX|].
          destruct (Nat.eq_dec (length (sseen s)) (length X)) as [E|E]; [|lia]. exfalso.
          destruct (poison_last_at_end X HX) as [_ Hend]. rewrite <- E in Hend. rewrite Hend in Hy. simpl in Hy. subst y. discriminate. }
      assert (Hprod : forall ph, match ph with PProd _ => False | _ => True end ->
                      (match ph with PProd _ => length (sseen s) - 1 | _ => length (sseen s) end) = length (sseen s)).
      { intros [| |]; simpl; tauto. }
      assert (Hnp : match after_produce y with PProd _ => False | _ => True end) by (unfold after_produce; destruct (is_cpoison y); exact I).
      destruct rest as [|s2 rest2].
      * destruct (length q <? cap); [|discriminate]. injection Hs as <- <-.
        cbn [pipe_ok sq sf sseen sphase]. repeat split; auto.
      * destruct (length (sq s2) <? cap); [|discriminate]. injection Hs as <- <-.
        rewrite pipe_ok_cons. cbn [sq sf sseen sphase]. split; [exact H1|]. split; [exact H2|]. split; [exact H3|]. split; [exact H4|]. split; [exact Hnew|].
        unfold produced at 1. cbn [sphase sseen]. rewrite (Hprod _ Hnp).
        unfold produced in H6. rewrite Eph in H6.
        assert (Hpush := pipe_push (s2 :: rest2) (map (lift (sf s)) X) (length (sseen s) - 1) H6 ltac:(rewrite map_length; lia)).
        replace (S (length (sseen s) - 1)) with (length (sseen s)) in Hpush by lia.
        change Empty with (lift (sf s) Empty) in Hpush. rewrite map_nth in Hpush. rewrite <- Hy in Hpush. exact Hpush.
    + discriminate.
  - destruct (wstep cap rest q j) as [[rest' q1]|] eqn:E; [|discriminate]. injection Hs as <- <-.
    rewrite pipe_ok_cons. repeat split; auto. eapply IH; [apply poison_last_map; exact HX|exact H6|exact E].
Qed.
