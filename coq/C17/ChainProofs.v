(* C17 -- chains: every worker sees a prefix of a schedule-independent stream (Kahn), in production order; the number of
   blocks is conserved; poison reaches queue 0; Chain::Wait returns without aborting; no deadlock.  For every number of
   blocks >= 1, every number of workers >= 1, all payloads, all stage functions, all schedules. *)
From Coq Require Import List Arith Lia Bool.
From Kenlm Require Import C17.PCQueueModel C17.PCQueueProofs C17.ChainModel.
Import ListNotations.

Definition no_poison (l : list citem) : Prop := forallb (fun x => negb (is_cpoison x)) l = true.
Definition poison_last (X : list citem) : Prop := exists body, X = body ++ [CPoison] /\ no_poison body.

Lemma lift_poison : forall f x, lift f x = CPoison <-> x = CPoison.
Proof. intros f [p| |]; simpl; split; intros H; try discriminate; reflexivity. Qed.
Lemma lift_empty : forall f, lift f Empty = Empty. Proof. reflexivity. Qed.

Lemma poison_last_map : forall f X, poison_last X -> poison_last (map (lift f) X).
Proof.
  intros f X (body & -> & Hb). exists (map (lift f) body). split; [rewrite map_app; reflexivity|].
  unfold no_poison in *. rewrite forallb_forall in *. intros y Hy. apply in_map_iff in Hy. destruct Hy as (x & <- & Hx).
  specialize (Hb x Hx). destruct x; simpl in *; auto.
Qed.
Lemma poison_last_pos : forall X n, poison_last X -> n < length X -> nth n X Empty = CPoison -> S n = length X.
Proof.
  intros X n (body & -> & Hb) Hn Hp. rewrite app_length in *. simpl in *.
  destruct (Nat.lt_ge_cases n (length body)) as [Hlt|Hge]; [|lia].
  rewrite app_nth1 in Hp by exact Hlt. unfold no_poison in Hb. rewrite forallb_forall in Hb.
  specialize (Hb (nth n body Empty) (nth_In _ _ Hlt)). rewrite Hp in Hb. discriminate.
Qed.
Lemma poison_last_at_end : forall X, poison_last X -> 1 <= length X /\ nth (length X - 1) X Empty = CPoison.
Proof.
  intros X (body & -> & Hb). rewrite app_length. simpl. split; [lia|].
  rewrite app_nth2 by lia. replace (length body + 1 - 1 - length body) with 0 by lia. reflexivity.
Qed.
Lemma firstn_In' : forall A (l : list A) n x, In x (firstn n l) -> In x l.
Proof. induction l as [|h t IH]; intros [|n] x H; simpl in *; auto; try contradiction. destruct H; auto. right. eapply IH; eauto. Qed.
Lemma no_poison_prefix : forall X c, poison_last X -> c < length X -> ~ In CPoison (firstn c X).
Proof.
  intros X c (body & -> & Hb) Hc Hin. rewrite app_length in Hc. simpl in Hc.
  rewrite firstn_app in Hin. replace (c - length body) with 0 in Hin by lia. simpl in Hin. rewrite app_nil_r in Hin.
  apply firstn_In' in Hin. unfold no_poison in Hb. rewrite forallb_forall in Hb. specialize (Hb _ Hin). discriminate.
Qed.

Lemma nth_skipn' : forall A (l : list A) c i d, nth i (skipn c l) d = nth (c + i) l d.
Proof. induction l as [|h t IH]; intros [|c] i d; simpl; auto. destruct i; reflexivity. Qed.
Lemma firstn_skipn_cons : forall A (l : list A) c n x q d, firstn n (skipn c l) = x :: q ->
  1 <= n /\ c < length l /\ x = nth c l d /\ q = firstn (n - 1) (skipn (S c) l).
Proof.
  intros A l c n x q d H. destruct n as [|n]; [discriminate|].
  destruct (skipn c l) as [|y r] eqn:E; [discriminate|]. simpl in H. injection H as <- <-.
  assert (Hc : c < length l).
  { destruct (Nat.lt_ge_cases c (length l)); [assumption|]. rewrite skipn_all2 in E by assumption. discriminate. }
  rewrite (skipn_nth' _ l c d Hc) in E. injection E as <- <-. repeat split; auto; try lia.
  simpl. rewrite Nat.sub_0_r. reflexivity.
Qed.

Definition produced (s : seg) : nat := match sphase s with PProd _ => length (sseen s) - 1 | _ => length (sseen s) end.

Fixpoint pipe_ok (X : list citem) (p : nat) (sg : list seg) : Prop :=
  match sg with
  | [] => True
  | s :: rest =>
    let c := length (sseen s) in
    sseen s = firstn c X /\ c <= p /\ p <= length X /\ sq s = firstn (p - c) (skipn c X) /\
    match sphase s with
    | PCons => ~ In CPoison (sseen s)
    | PProd y => 1 <= c /\ y = lift (sf s) (nth (c - 1) X Empty)
    | PDone => c = length X
    end /\
    pipe_ok (map (lift (sf s)) X) (produced s) rest
  end.

Lemma pipe_ok_cons : forall X p s rest, pipe_ok X p (s :: rest) =
  (sseen s = firstn (length (sseen s)) X /\ length (sseen s) <= p /\ p <= length X /\
   sq s = firstn (p - length (sseen s)) (skipn (length (sseen s)) X) /\
   match sphase s with
   | PCons => ~ In CPoison (sseen s)
   | PProd y => 1 <= length (sseen s) /\ y = lift (sf s) (nth (length (sseen s) - 1) X Empty)
   | PDone => length (sseen s) = length X
   end /\
   pipe_ok (map (lift (sf s)) X) (produced s) rest).
Proof. reflexivity. Qed.

Definition push (sg : list seg) (y : citem) : list seg :=
  match sg with [] => [] | s :: rest => mkseg (sq s ++ [y]) (sf s) (sseen s) (sphase s) :: rest end.

Lemma pipe_push : forall sg X p, pipe_ok X p sg -> p < length X -> pipe_ok X (S p) (push sg (nth p X Empty)).
Proof.
  intros [|s rest] X p H Hp; [exact I|]. cbn [push pipe_ok sq sf sseen sphase] in *.
  destruct H as (H1 & H2 & H3 & H4 & H5 & H6). repeat split; auto; try lia.
  rewrite H4. replace (S p - length (sseen s)) with (S (p - length (sseen s))) by lia.
  rewrite (firstn_S_nth _ (skipn (length (sseen s)) X) (p - length (sseen s)) Empty) by (rewrite skipn_length; lia).
  rewrite nth_skipn'. replace (length (sseen s) + (p - length (sseen s))) with p by lia. reflexivity.
Qed.

Lemma wstep_ok : forall cap sg X p q i sg' q', poison_last X -> pipe_ok X p sg ->
  wstep cap sg q i = Some (sg', q') -> pipe_ok X p sg'.
Proof.
  intros cap. induction sg as [|s rest IH]; intros X p q i sg' q' HX H Hs; simpl in Hs; [discriminate|].
  simpl in H. destruct H as (H1 & H2 & H3 & H4 & H5 & H6).
  destruct i as [|j].
  - destruct (sphase s) as [|y|] eqn:Eph.
    + (* consume *)
      destruct (sq s) as [|x q1] eqn:Eq; [discriminate|]. injection Hs as <- <-.
      symmetry in H4. destruct (firstn_skipn_cons _ X _ _ _ _ Empty H4) as (A & B & Cx & D).
      simpl. rewrite app_length. simpl. rewrite Nat.add_1_r.
      repeat split; auto; try lia.
      * rewrite (firstn_S_nth _ X (length (sseen s)) Empty B), <- H1, Cx. reflexivity.
      * rewrite D. f_equal. lia.
      * simpl. rewrite Nat.sub_0_r. rewrite Cx. reflexivity.
      * unfold produced in *. simpl. rewrite Eph in H6. rewrite app_length. simpl.
        replace (length (sseen s) + 1 - 1) with (length (sseen s)) by lia. exact H6.
    + (* produce *)
      destruct H5 as [Hc Hy].
      assert (Hnew : match after_produce y with
                     | PCons => ~ In CPoison (sseen s) | PProd y0 => 1 <= length (sseen s) /\ y0 = lift (sf s) (nth (length (sseen s) - 1) X Empty)
                     | PDone => length (sseen s) = length X end).
      { unfold after_produce. destruct (is_cpoison y) eqn:Ep.
        - destruct y; try discriminate. symmetry in Hy. apply lift_poison in Hy.
          pose proof (poison_last_pos X (length (sseen s) - 1) HX ltac:(lia) Hy). lia.
        - rewrite H1. apply no_poison_prefix; [exact HX|].
          destruct (Nat.eq_dec (length (sseen s)) (length X)) as [E|E]; [|lia]. exfalso.
          destruct (poison_last_at_end X HX) as [_ Hend]. rewrite <- E in Hend. rewrite Hend in Hy. simpl in Hy. subst y. discriminate. }
      assert (Hprod : forall ph, match ph with PProd _ => False | _ => True end ->
                      (match ph with PProd _ => length (sseen s) - 1 | _ => length (sseen s) end) = length (sseen s)).
      { intros [| |]; simpl; tauto. }
      assert (Hnp : match after_produce y with PProd _ => False | _ => True end) by (unfold after_produce; destruct (is_cpoison y); exact I).
      destruct rest as [|s2 rest2].
      * destruct (length q <? cap); [|discriminate]. injection Hs as <- <-.
        cbn [pipe_ok sq sf sseen sphase]. repeat split; auto.
      * destruct (length (sq s2) <? cap); [|discriminate]. injection Hs as <- <-.
        rewrite pipe_ok_cons. cbn [sq sf sseen sphase]. split; [exact H1|]. split; [exact H2|]. split; [exact H3|]. split; [exact H4|]. split; [exact Hnew|].
        unfold produced at 1. cbn [sphase sseen]. rewrite (Hprod _ Hnp).
        unfold produced in H6. rewrite Eph in H6.
        assert (Hpush := pipe_push (s2 :: rest2) (map (lift (sf s)) X) (length (sseen s) - 1) H6 ltac:(rewrite map_length; lia)).
        replace (S (length (sseen s) - 1)) with (length (sseen s)) in Hpush by lia.
        change Empty with (lift (sf s) Empty) in Hpush. rewrite map_nth in Hpush. rewrite <- Hy in Hpush. exact Hpush.
    + discriminate.
  - destruct (wstep cap rest q j) as [[rest' q1]|] eqn:E; [|discriminate]. injection Hs as <- <-.
    rewrite pipe_ok_cons. repeat split; auto. eapply IH; [apply poison_last_map; exact HX|exact H6|exact E].
Qed.

(* ------------------------------------------------------------------------------------------- *)
(* bookkeeping lemmas about the worker list *)
Definition seg_items (sg : list seg) : nat :=
  tot (fun s => length (sq s) + match sphase s with PProd _ => 1 | _ => 0 end) sg.
Definition quiet (s : seg) : bool :=
  match sphase s with PProd _ => false | PCons => match sq s with [] => true | _ => false end | PDone => true end.

Lemma wstep_items : forall cap sg q i sg' q', wstep cap sg q i = Some (sg', q') ->
  length q' + seg_items sg' = length q + seg_items sg /\ length sg' = length sg /\ map sf sg' = map sf sg.
Proof.
  intros cap. induction sg as [|s rest IH]; intros q i sg' q' Hs; simpl in Hs; [discriminate|].
  destruct i as [|j].
  - destruct (sphase s) as [|y|] eqn:Eph.
    + destruct (sq s) as [|x q1] eqn:Eq; [discriminate|]. injection Hs as <- <-.
      unfold seg_items. simpl. rewrite Eph, Eq. simpl. repeat split; lia.
    + destruct rest as [|s2 rest2].
      * destruct (length q <? cap); [|discriminate]. injection Hs as <- <-.
        unfold seg_items, after_produce. simpl. rewrite Eph, app_length. simpl. destruct (is_cpoison y); simpl; repeat split; lia.
      * destruct (length (sq s2) <? cap); [|discriminate]. injection Hs as <- <-.
        unfold seg_items, after_produce. simpl. rewrite Eph, app_length. simpl. destruct (is_cpoison y); simpl; repeat split; lia.
    + discriminate.
  - destruct (wstep cap rest q j) as [[rest' q1]|] eqn:E; [|discriminate]. injection Hs as <- <-.
    destruct (IH _ _ _ _ E) as (A & B & C). unfold seg_items in *. simpl. repeat split; try lia. f_equal. exact C.
Qed.

Lemma all_done_no_step : forall cap sg q i, all_done sg = true -> wstep cap sg q i = None.
Proof.
  intros cap. induction sg as [|s rest IH]; intros q i H; simpl in *; [reflexivity|].
  apply andb_true_iff in H. destruct H as [Hs Hr]. destruct i as [|j].
  - destruct (sphase s); try discriminate. reflexivity.
  - rewrite (IH q j Hr). reflexivity.
Qed.

(* all workers done => the upstream has produced its whole stream, and nothing is queued or held *)
Lemma all_done_upstream : forall sg X p, sg <> [] -> pipe_ok X p sg -> all_done sg = true -> p = length X /\ seg_items sg = 0.
Proof.
  induction sg as [|s rest IH]; intros X p Hne H Hd; [congruence|].
  rewrite pipe_ok_cons in H. destruct H as (H1 & H2 & H3 & H4 & H5 & H6).
  simpl in Hd. apply andb_true_iff in Hd. destruct Hd as [Hs Hr].
  destruct (sphase s) eqn:Eph; try discriminate.
  assert (p = length X) by lia. split; [assumption|].
  unfold seg_items. simpl. rewrite Eph. rewrite H4. replace (p - length (sseen s)) with 0 by lia. simpl.
  destruct rest as [|s2 rest2]; [reflexivity|].
  unfold produced in H6. rewrite Eph in H6. destruct (IH _ _ ltac:(discriminate) H6 Hr) as [_ Hi]. unfold seg_items in Hi. lia.
Qed.

(* a step that leaves every worker done has just put the poison into queue 0 *)
Lemma wstep_alldone : forall cap sg X p q i sg' q', pipe_ok X p sg -> wstep cap sg q i = Some (sg', q') ->
  all_done sg' = true -> In CPoison q'.
Proof.
  intros cap. induction sg as [|s rest IH]; intros X p q i sg' q' H Hs Hd; simpl in Hs; [discriminate|].
  rewrite pipe_ok_cons in H. destruct H as (H1 & H2 & H3 & H4 & H5 & H6).
  destruct i as [|j].
  - destruct (sphase s) as [|y|] eqn:Eph.
    + destruct (sq s) as [|x q1]; [discriminate|]. injection Hs as <- <-. simpl in Hd. discriminate.
    + destruct rest as [|s2 rest2].
      * destruct (length q <? cap); [|discriminate]. injection Hs as <- <-. simpl in Hd. unfold after_produce in Hd.
        destruct (is_cpoison y) eqn:Ep; [|discriminate]. destruct y; try discriminate. apply in_or_app. right. left. reflexivity.
      * destruct (length (sq s2) <? cap); [|discriminate]. injection Hs as <- <-. exfalso.
        simpl in Hd. apply andb_true_iff in Hd. destruct Hd as [_ Hd]. apply andb_true_iff in Hd. destruct Hd as [Hd2 _].
        simpl in Hd2. destruct (sphase s2) eqn:E2; try discriminate.
        unfold produced in H6. rewrite Eph in H6. rewrite pipe_ok_cons in H6. destruct H6 as (_ & A & B & _ & C & _).
        rewrite E2 in C. rewrite map_length in *. destruct H5 as [Hc _]. lia.
    + discriminate.
  - destruct (wstep cap rest q j) as [[rest' q1]|] eqn:E; [|discriminate]. injection Hs as <- <-.
    simpl in Hd. apply andb_true_iff in Hd. destruct Hd as [_ Hd]. eapply IH; eassumption.
Qed.

(* a worker that holds an item, or has one queued, can step (there is always room downstream: only b items exist) *)
Lemma wstep_enabled : forall cap sg q, length q + seg_items sg <= cap -> existsb (fun s => negb (quiet s)) sg = true ->
  exists i sg' q', wstep cap sg q i = Some (sg', q').
Proof.
  intros cap. induction sg as [|s rest IH]; intros q Hcap Hex; simpl in Hex; [discriminate|].
  unfold seg_items in Hcap. simpl in Hcap. fold (seg_items rest) in Hcap.
  destruct (quiet s) eqn:Eq.
  - simpl in Hex. destruct (IH q ltac:(lia) Hex) as (i & sg' & q' & Hs). exists (S i). simpl. rewrite Hs. eauto.
  - exists 0. simpl. unfold quiet in Eq. destruct (sphase s) as [|y|] eqn:Eph; try discriminate.
    + destruct (sq s); [discriminate|]. eauto.
    + destruct rest as [|s2 rest2].
      * assert (Hl : (length q <? cap) = true) by (apply Nat.ltb_lt; unfold seg_items in Hcap; simpl in Hcap; lia). rewrite Hl. eauto.
      * assert (Hl : (length (sq s2) <? cap) = true) by (apply Nat.ltb_lt; unfold seg_items in Hcap; simpl in Hcap; lia). rewrite Hl. eauto.
Qed.

(* everything quiet and the upstream finished => every worker is done *)
Lemma quiet_all_done : forall sg X p, poison_last X -> pipe_ok X p sg -> p = length X ->
  existsb (fun s => negb (quiet s)) sg = false -> all_done sg = true.
Proof.
  induction sg as [|s rest IH]; intros X p HX H Hp Hq; [reflexivity|].
  rewrite pipe_ok_cons in H. destruct H as (H1 & H2 & H3 & H4 & H5 & H6).
  simpl in Hq. apply orb_false_iff in Hq. destruct Hq as [Hqs Hqr]. apply negb_false_iff in Hqs.
  unfold quiet in Hqs. simpl. destruct (sphase s) eqn:Eph; try discriminate.
  - (* PCons with an empty queue although the upstream produced everything: it has consumed everything, poison included *)
    exfalso. destruct (sq s) eqn:Es; [|discriminate].
    assert (Hc : length (sseen s) = length X).
    { destruct (Nat.eq_dec (length (sseen s)) (length X)); [assumption|]. exfalso.
      assert (Hl : length (firstn (p - length (sseen s)) (skipn (length (sseen s)) X)) = 0) by (rewrite <- H4; reflexivity).
      rewrite firstn_length, skipn_length in Hl. lia. }
    apply H5. rewrite H1, Hc, firstn_all. destruct HX as (body & -> & _). apply in_or_app. right. left. reflexivity.
  - simpl. unfold produced in H6. rewrite Eph in H6.
    apply (IH _ _ (poison_last_map _ _ HX) H6); [rewrite map_length; lia|exact Hqr].
Qed.

Lemma quiet_items : forall sg X p, pipe_ok X p sg -> existsb (fun s => negb (quiet s)) sg = false -> seg_items sg = 0.
Proof.
  induction sg as [|s rest IH]; intros X p H Hq; [reflexivity|].
  rewrite pipe_ok_cons in H. destruct H as (H1 & H2 & H3 & H4 & H5 & H6).
  simpl in Hq. apply orb_false_iff in Hq. destruct Hq as [A B]. apply negb_false_iff in A.
  specialize (IH _ _ H6 B). unfold seg_items in *. simpl. unfold quiet in A.
  destruct (sphase s) eqn:Eph; try discriminate.
  - destruct (sq s); [simpl; lia|discriminate].
  - rewrite H4. replace (p - length (sseen s)) with 0 by lia. simpl. lia.
Qed.

(* progress: every worker step consumes or forwards one of the finitely many items of its stream *)
Definition seg_m (L : nat) (s : seg) : nat := 2 * (L - length (sseen s)) + match sphase s with PProd _ => 1 | _ => 0 end.
Lemma wstep_measure : forall cap sg X p q i sg' q', pipe_ok X p sg -> wstep cap sg q i = Some (sg', q') ->
  tot (seg_m (length X)) sg' < tot (seg_m (length X)) sg.
Proof.
  intros cap. induction sg as [|s rest IH]; intros X p q i sg' q' H Hs; simpl in Hs; [discriminate|].
  rewrite pipe_ok_cons in H. destruct H as (H1 & H2 & H3 & H4 & H5 & H6).
  destruct i as [|j].
  - destruct (sphase s) as [|y|] eqn:Eph.
    + destruct (sq s) as [|x q1] eqn:Eq; [discriminate|]. injection Hs as <- <-.
      symmetry in H4. destruct (firstn_skipn_cons _ X _ _ _ _ Empty H4) as (A & B & _ & _).
      simpl. unfold seg_m at 1 3. simpl. rewrite Eph, app_length. simpl. lia.
    + destruct rest as [|s2 rest2].
      * destruct (length q <? cap); [|discriminate]. injection Hs as <- <-. simpl. unfold seg_m, after_produce. simpl. rewrite Eph.
        destruct (is_cpoison y); simpl; lia.
      * destruct (length (sq s2) <? cap); [|discriminate]. injection Hs as <- <-. simpl. unfold seg_m, after_produce. simpl. rewrite Eph.
        destruct (is_cpoison y); simpl; lia.
    + discriminate.
  - destruct (wstep cap rest q j) as [[rest' q1]|] eqn:E; [|discriminate]. injection Hs as <- <-.
    specialize (IH _ _ _ _ _ _ H6 E). rewrite map_length in IH. simpl. lia.
Qed.

(* ------------------------------------------------------------------------------------------- *)
Section ChainInv.
Variable b : nat.                    (* block_count = capacity of every queue *)
Variable payloads : list payload.    (* what the source writes, block by block *)
Variable fs : list (payload -> payload).   (* the stage functions, source excluded; the last worker recycles *)
Hypothesis Hb : 1 <= b.
Hypothesis Hfs : fs <> [].

Definition X0 : list citem := map Blk payloads ++ [CPoison].
Lemma X0_poison_last : poison_last X0.
Proof. exists (map Blk payloads). split; [reflexivity|]. unfold no_poison. apply forallb_forall. intros x H. apply in_map_iff in H. destruct H as (p & <- & _). reflexivity. Qed.
Lemma X0_length : length X0 = S (length payloads).
Proof. unfold X0. rewrite app_length, map_length. simpl. lia. Qed.

Definition src_p (c : chain) : nat := match sphs c with SDone => length X0 | _ => length payloads - length (srest c) end.
Definition src_hold (c : chain) : nat := match sphs c with SProd => 1 | _ => 0 end.

Record KInv (c : chain) : Prop := {
  K1 : exists done, payloads = done ++ srest c;
  K2 : sphs c = SDone -> srest c = [];
  K3 : pipe_ok X0 (src_p c) (segs c);
  K4 : map sf (segs c) = fs;
  K5 : match mainp c with
       | MJoin => length (q0 c) + src_hold c + seg_items (segs c) = b
       | MDrain n => sphs c = SDone /\ all_done (segs c) = true /\ n + length (q0 c) = b /\ In CPoison (q0 c)
       | MDone => sphs c = SDone /\ all_done (segs c) = true
       | MAbort => False
       end;
  K6 : mainp c = MJoin -> all_done (segs c) = true -> In CPoison (q0 c)
}.

Lemma segs_ne : forall c, KInv c -> segs c <> [].
Proof. intros c H E. destruct H as [_ _ _ H4 _ _]. rewrite E in H4. simpl in H4. congruence. Qed.

Lemma all_done_src_done : forall c, KInv c -> all_done (segs c) = true -> sphs c = SDone /\ seg_items (segs c) = 0.
Proof.
  intros c H Hd. pose proof (segs_ne c H) as Hne. destruct H as [[done K1] K2 K3 K4 K5 K6].
  destruct (all_done_upstream _ _ _ Hne K3 Hd) as [Hp Hi]. split; [|exact Hi].
  unfold src_p in Hp. destruct (sphs c); auto; rewrite X0_length in Hp; lia.
Qed.

Lemma chain_init_inv : KInv (chain_init b payloads fs).
Proof.
  unfold chain_init. constructor; simpl.
  - exists []. reflexivity.
  - discriminate.
  - unfold src_p. simpl. rewrite Nat.sub_diag. clear Hfs. generalize X0. induction fs as [|f r IH]; intros X; [exact I|].
    simpl map. rewrite pipe_ok_cons. simpl. repeat split; auto; try lia; try apply IH.
  - rewrite map_map. simpl. apply map_id.
  - rewrite repeat_length. unfold src_hold, seg_items. simpl. clear. induction fs; simpl; lia.
  - intros _ Hd. destruct fs; [congruence|]. simpl in Hd. discriminate.
Qed.

Lemma nth_X0_payload : forall done p r, payloads = done ++ p :: r -> nth (length done) X0 Empty = Blk p.
Proof.
  intros done p r E. unfold X0. rewrite E, map_app. simpl. rewrite <- app_assoc. rewrite app_nth2 by (rewrite map_length; lia).
  rewrite map_length, Nat.sub_diag. reflexivity.
Qed.

Lemma seg_items_push : forall sg y, sg <> [] -> seg_items (push sg y) = S (seg_items sg).
Proof. intros [|s rest] y H; [congruence|]. unfold seg_items. simpl. rewrite app_length. simpl. lia. Qed.
Lemma push_sf : forall sg y, map sf (push sg y) = map sf sg.
Proof. intros [|s rest] y; reflexivity. Qed.

Ltac cfields := cbn [q0 sphs srest segs mainp].

Lemma chain_step_inv : forall c t c', KInv c -> chain_step b c t = Some c' -> KInv c'.
Proof.
  intros c t c' HK Hs. pose proof (segs_ne c HK) as Hne. pose proof HK as [[done K1] K2 K3 K4 K5 K6].
  destruct t as [|i|]; simpl in Hs.
  - (* source *)
    destruct (sphs c) eqn:Eph; [| |discriminate].
    + destruct (q0 c) as [|x q'] eqn:Eq; [discriminate|]. injection Hs as <-.
      assert (Hnd : all_done (segs c) = true -> False).
      { intros Hd. destruct (all_done_src_done c HK Hd) as [E _]. congruence. }
      constructor; cfields; auto;
        try solve [exists done; exact K1];
        try solve [discriminate];
        try solve [unfold src_p in *; cfields; rewrite Eph in K3; exact K3];
        try solve [intros _ Hd; destruct (Hnd Hd)].
      destruct (mainp c); unfold src_hold in *; cfields; simpl in *; rewrite ?Eph in *; try lia; destruct K5 as (E & _); congruence.
    + destruct (segs c) as [|s1 rest] eqn:Es; [congruence|].
      destruct (length (sq s1) <? b); [|discriminate].
      assert (Hmj : mainp c = MJoin).
      { destruct (mainp c); auto; try (destruct K5 as (E & _); congruence). destruct K5. }
      unfold src_p in K3. rewrite Eph in K3.
      destruct (srest c) as [|p r] eqn:Er; injection Hs as <-.
      * (* Link::Poison: the held block becomes the poison *)
        cbn [length] in K3. rewrite Nat.sub_0_r in K3.
        assert (Hpush := pipe_push (s1 :: rest) X0 (length payloads) K3 ltac:(rewrite X0_length; lia)).
        assert (Hn : nth (length payloads) X0 Empty = CPoison).
        { unfold X0. rewrite app_nth2 by (rewrite map_length; lia). rewrite map_length, Nat.sub_diag. reflexivity. }
        rewrite Hn in Hpush. cbn [push] in Hpush.
        constructor; cfields; auto;
          try solve [exists done; exact K1];
          try solve [unfold src_p; cfields; rewrite X0_length; exact Hpush].
        all: try solve [rewrite Hmj in *; unfold src_hold in *; cfields; rewrite Eph in K5; unfold seg_items in *; simpl in *; rewrite app_length; simpl; lia].
      * assert (Hd : length done = length payloads - length (p :: r)) by (rewrite K1, app_length; lia).
        rewrite <- Hd in K3.
        assert (Hpush := pipe_push (s1 :: rest) X0 (length done) K3 ltac:(rewrite X0_length, K1, app_length; simpl; lia)).
        rewrite (nth_X0_payload done p r K1) in Hpush. cbn [push] in Hpush.
        constructor; cfields; auto;
          try solve [exists (done ++ [p]); rewrite <- app_assoc; exact K1];
          try solve [discriminate];
          try solve [unfold src_p; cfields; replace (length payloads - length r) with (S (length done)) by (rewrite K1, app_length; simpl; lia); exact Hpush].
        all: try solve [rewrite Hmj in *; unfold src_hold in *; cfields; rewrite Eph in K5; unfold seg_items in *; simpl in *; rewrite app_length; simpl; lia].
  - (* worker i *)
    destruct (wstep b (segs c) (q0 c) i) as [[sg' q']|] eqn:Ew; [|discriminate]. injection Hs as <-.
    destruct (wstep_items _ _ _ _ _ _ Ew) as (Hit & Hlen & Hsf).
    assert (Hmj : mainp c = MJoin).
    { destruct (mainp c); auto.
      - destruct K5 as (_ & Hd & _). rewrite (all_done_no_step b _ (q0 c) i Hd) in Ew. discriminate.
      - destruct K5 as (_ & Hd). rewrite (all_done_no_step b _ (q0 c) i Hd) in Ew. discriminate.
      - destruct K5. }
    constructor; cfields; auto;
      try solve [exists done; exact K1];
      try solve [unfold src_p in *; cfields; eapply wstep_ok; [apply X0_poison_last|exact K3|exact Ew]];
      try solve [congruence];
      try solve [rewrite Hmj in *; unfold src_hold in *; cfields; lia];
      try solve [intros _ Hd; eapply wstep_alldone; [exact K3|exact Ew|exact Hd]].
  - (* main thread: Chain::Wait *)
    destruct (mainp c) as [|n| |] eqn:Em; try discriminate.
    + destruct (sphs c) eqn:Eph; try discriminate. destruct (all_done (segs c)) eqn:Ed; [|discriminate]. injection Hs as <-.
      destruct (all_done_src_done c HK Ed) as [_ Hi].
      constructor; cfields; auto;
        try solve [exists done; exact K1];
        try solve [unfold src_p in *; cfields; rewrite Eph in *; exact K3];
        try solve [unfold src_hold in K5; rewrite Eph in K5; repeat split; auto; lia];
        try solve [discriminate].
    + destruct K5 as (Eph & Ed & Hn & Hin). destruct (q0 c) as [|x q'] eqn:Eq; [discriminate|].
      assert (Hcase : x = CPoison \/ (x <> CPoison /\ In CPoison q')).
      { destruct x; auto; right; (split; [discriminate|]); destruct Hin as [E|E]; try discriminate; exact E. }
      assert (Hstep : x <> CPoison -> (n =? b) = false /\ S n + length q' = b /\ In CPoison q').
      { intros Hx. destruct Hcase as [E|[_ Hin']]; [congruence|]. simpl in Hn.
        assert (1 <= length q') by (destruct q'; [destruct Hin'|simpl; lia]). repeat split; auto; [apply Nat.eqb_neq; lia|lia]. }
      destruct x as [pp| |]; injection Hs as <-.
      * destruct (Hstep ltac:(discriminate)) as (Hnb & Hn' & Hin'). rewrite Hnb.
        constructor; cfields; auto; try solve [exists done; exact K1]; try solve [unfold src_p in *; cfields; exact K3]; try solve [discriminate].
      * destruct (Hstep ltac:(discriminate)) as (Hnb & Hn' & Hin'). rewrite Hnb.
        constructor; cfields; auto; try solve [exists done; exact K1]; try solve [unfold src_p in *; cfields; exact K3]; try solve [discriminate].
      * constructor; cfields; auto; try solve [exists done; exact K1]; try solve [unfold src_p in *; cfields; exact K3]; try solve [discriminate].
Qed.

Lemma chain_run_none : forall sched, fold_left (fun o t => match o with Some x => chain_step b x t | None => None end) sched None = None.
Proof. induction sched; simpl; auto. Qed.
Lemma chain_reach_inv : forall sched c c', KInv c -> chain_run b sched c = Some c' -> KInv c'.
Proof.
  induction sched as [|t sched IH]; intros c c' HI Hr; unfold chain_run in Hr; simpl in Hr.
  - injection Hr as <-. exact HI.
  - destruct (chain_step b c t) as [c1|] eqn:E; [|rewrite chain_run_none in Hr; discriminate].
    apply (IH c1); [eapply chain_step_inv; eassumption|exact Hr].
Qed.
Definition chain_reachable (c : chain) : Prop := exists sched, chain_run b sched (chain_init b payloads fs) = Some c.
Lemma chain_reachable_inv : forall c, chain_reachable c -> KInv c.
Proof. intros c [sched H]. eapply chain_reach_inv; [apply chain_init_inv|exact H]. Qed.

(* the stream a worker is fed: the source's blocks and the poison, through the functions of the workers before it *)
Definition stream_into (pre : list (payload -> payload)) : list citem := fold_left (fun X f => map (lift f) X) pre X0.

Lemma pipe_ok_nth : forall sg X p pre s post, pipe_ok X p sg -> sg = pre ++ s :: post ->
  sseen s = firstn (length (sseen s)) (fold_left (fun X f => map (lift f) X) (map sf pre) X) /\
  (sphase s = PDone -> sseen s = fold_left (fun X f => map (lift f) X) (map sf pre) X).
Proof.
  induction sg as [|s0 rest IH]; intros X p pre s post H E; [destruct pre; discriminate|].
  rewrite pipe_ok_cons in H. destruct H as (H1 & H2 & H3 & H4 & H5 & H6).
  destruct pre as [|s1 pre']; simpl in E; injection E as -> ->.
  - simpl. split; [exact H1|]. intros Ed. rewrite Ed in H5. rewrite H1, H5. apply firstn_all.
  - simpl. eapply IH; [exact H6|reflexivity].
Qed.

(* Kahn determinism / production order: whatever the schedule, every worker has received a prefix of one fixed stream *)
Theorem chain_kahn : forall c, chain_reachable c -> forall pre s post, segs c = pre ++ s :: post ->
  sseen s = firstn (length (sseen s)) (stream_into (firstn (length pre) fs)) /\ map sf (segs c) = fs.
Proof.
  intros c H pre s post E. destruct (chain_reachable_inv c H) as [_ _ K3 K4 _ _].
  destruct (pipe_ok_nth _ _ _ _ _ _ K3 E) as [A _]. split; [|exact K4].
  unfold stream_into. rewrite <- K4, E, map_app, firstn_app, map_length, Nat.sub_diag. simpl. rewrite app_nil_r.
  rewrite <- (map_length sf pre), firstn_all. exact A.
Qed.

(* the number of blocks is conserved while the workers run: b items in the queues and in the workers' hands *)
Theorem chain_conservation : forall c, chain_reachable c -> mainp c = MJoin ->
  length (q0 c) + src_hold c + seg_items (segs c) = b.
Proof. intros c H Em. destruct (chain_reachable_inv c H) as [_ _ _ _ K5 _]. rewrite Em in K5. exact K5. Qed.

(* Chain::Wait never sees more than block_count blocks before the poison *)
Theorem chain_no_abort : forall c, chain_reachable c -> mainp c <> MAbort.
Proof. intros c H E. destruct (chain_reachable_inv c H) as [_ _ _ _ K5 _]. rewrite E in K5. exact K5. Qed.

(* when Wait has returned, every worker has received its whole stream (all blocks, in production order, then the poison) *)
Theorem chain_finished : forall c, chain_reachable c -> mainp c = MDone -> forall pre s post, segs c = pre ++ s :: post ->
  sseen s = stream_into (firstn (length pre) fs) /\ sphs c = SDone /\ srest c = [].
Proof.
  intros c H Em pre s post E. destruct (chain_reachable_inv c H) as [_ K2 K3 K4 K5 _]. rewrite Em in K5. destruct K5 as [Es Ed].
  split; [|split; [exact Es|exact (K2 Es)]].
  assert (Hs : sphase s = PDone).
  { unfold all_done in Ed. rewrite forallb_forall in Ed. specialize (Ed s). rewrite E in Ed.
    assert (Hin : In s (pre ++ s :: post)) by (apply in_or_app; right; left; reflexivity).
    specialize (Ed Hin). destruct (sphase s); try discriminate. reflexivity. }
  destruct (pipe_ok_nth _ _ _ _ _ _ K3 E) as [_ A].
  unfold stream_into. rewrite <- K4, E, map_app, firstn_app, map_length, Nat.sub_diag. simpl. rewrite app_nil_r.
  rewrite <- (map_length sf pre), firstn_all. exact (A Hs).
Qed.

(* no deadlock: until Wait has returned some thread can step *)
Theorem chain_no_deadlock : forall c, chain_reachable c -> mainp c <> MDone -> exists t c', chain_step b c t = Some c'.
Proof.
  intros c H Hm. pose proof (chain_reachable_inv c H) as HK. pose proof (segs_ne c HK) as Hne.
  pose proof HK as [[done K1] K2 K3 K4 K5 K6].
  destruct (mainp c) as [|n| |] eqn:Em; try congruence.
  - (* workers running *)
    destruct (sphs c) eqn:Eph.
    + (* source wants a block *)
      destruct (existsb (fun s => negb (quiet s)) (segs c)) eqn:Eq.
      * destruct (wstep_enabled b (segs c) (q0 c) ltac:(unfold src_hold in K5; lia) Eq) as (i & sg' & q' & Hw).
        exists (TW i). simpl. rewrite Hw. eauto.
      * (* everything downstream is idle and empty: all b blocks are in queue 0 *)
        assert (Hi : seg_items (segs c) = 0) by (eapply quiet_items; [exact K3|exact Eq]).
        unfold src_hold in K5. rewrite Eph in K5. exists TSrc. simpl. rewrite Eph. destruct (q0 c); [simpl in K5; lia|eauto].
    + (* source holds a block: there is room in the first queue *)
      destruct (segs c) as [|s1 rest] eqn:Es; [congruence|]. exists TSrc. simpl. rewrite Eph, Es.
      assert (Hl : (length (sq s1) <? b) = true).
      { apply Nat.ltb_lt. unfold src_hold, seg_items in K5. rewrite Eph in K5. simpl in K5. lia. }
      rewrite Hl. destruct (srest c); eauto.
    + (* source finished *)
      destruct (existsb (fun s => negb (quiet s)) (segs c)) eqn:Eq.
      * destruct (wstep_enabled b (segs c) (q0 c) ltac:(unfold src_hold in K5; lia) Eq) as (i & sg' & q' & Hw).
        exists (TW i). simpl. rewrite Hw. eauto.
      * assert (Hd : all_done (segs c) = true).
        { eapply quiet_all_done; [apply X0_poison_last|exact K3| |exact Eq]. unfold src_p. rewrite Eph. reflexivity. }
        exists TMain. simpl. rewrite Em, Eph, Hd. eauto.
  - (* draining queue 0: the poison is in it *)
    destruct K5 as (_ & _ & _ & Hin). exists TMain. simpl. rewrite Em.
    destruct (q0 c) as [|x q']; [destruct Hin|]. destruct x; eauto.
  - destruct K5.
Qed.

Definition chain_measure (c : chain) : nat :=
  2 * length (srest c) + match sphs c with SCons => 2 | SProd => 1 | SDone => 0 end +
  tot (seg_m (length X0)) (segs c) +
  match mainp c with MJoin => b + 2 | MDrain n => b + 1 - n | _ => 0 end.

Theorem chain_progress : forall c t c', KInv c -> chain_step b c t = Some c' -> chain_measure c' < chain_measure c.
Proof.
  intros c t c' HK Hs. pose proof HK as [[done K1] K2 K3 K4 K5 K6]. unfold chain_measure.
  destruct t as [|i|]; simpl in Hs.
  - destruct (sphs c) eqn:Eph; [| |discriminate].
    + destruct (q0 c); [discriminate|]. injection Hs as <-. simpl. lia.
    + destruct (segs c) as [|s1 rest] eqn:Es; [discriminate|]. destruct (length (sq s1) <? b); [|discriminate].
      destruct (srest c) as [|p r]; injection Hs as <-; simpl; unfold seg_m; simpl; lia.
  - destruct (wstep b (segs c) (q0 c) i) as [[sg' q']|] eqn:Ew; [|discriminate]. injection Hs as <-.
    pose proof (wstep_measure _ _ _ _ _ _ _ _ K3 Ew). simpl. lia.
  - destruct (mainp c) as [|n| |] eqn:Em; try discriminate.
    + destruct (sphs c); try discriminate. destruct (all_done (segs c)); [|discriminate]. injection Hs as <-. simpl. lia.
    + destruct K5 as (_ & _ & Hn & _). destruct (q0 c) as [|x q']; [discriminate|]. simpl in Hn.
      destruct x; injection Hs as <-; simpl; try lia; destruct (n =? b) eqn:E; simpl; try lia; apply Nat.eqb_eq in E; lia.
Qed.

Theorem chain_schedules_bounded : forall sched c, chain_run b sched (chain_init b payloads fs) = Some c ->
  length sched + chain_measure c <= chain_measure (chain_init b payloads fs).
Proof.
  assert (G : forall sched c0 c, KInv c0 -> chain_run b sched c0 = Some c -> length sched + chain_measure c <= chain_measure c0).
  { induction sched as [|t sched IH]; intros c0 c HI Hr; unfold chain_run in Hr; simpl in Hr.
    - injection Hr as <-. simpl. lia.
    - destruct (chain_step b c0 t) as [c1|] eqn:E; [|rewrite chain_run_none in Hr; discriminate].
      pose proof (chain_progress _ _ _ HI E). pose proof (IH c1 c (chain_step_inv _ _ _ HI E) Hr). simpl. lia. }
  intros sched c H. apply G; [apply chain_init_inv|exact H].
Qed.
End ChainInv.

Example chain_example :
  exists c, chain_run 2 [TSrc; TSrc; TSrc; TW 0; TSrc; TW 0; TW 1; TW 0; TW 1; TSrc; TSrc; TW 0; TW 1; TW 1; TW 0; TW 0; TW 1; TW 1; TMain; TMain; TMain]
              (chain_init 2 [[1; 2]; [3]] [map (fun x => x + 10); (fun p => p)]) = Some c /\
            mainp c = MDone /\ sink_seen c = [[11; 12]; [13]].
Proof. eexists. split; [vm_compute; reflexivity|]. split; reflexivity. Qed.

(* ------------------------------------------------------------------------------------------- *)
(* util::stream::Stream delivers exactly the records of the blocks, whatever runs of empty blocks lie between them *)
Lemma skip_empty_concat : forall bl, concat (skip_empty bl) = concat bl.
Proof. induction bl as [|[|x r] t IH]; simpl; auto. Qed.
Lemma skip_empty_head : forall bl, match skip_empty bl with [] :: _ => False | _ => True end.
Proof. induction bl as [|[|x r] t IH]; simpl; auto. Qed.

Lemma stream_read_at : forall r x rest fuel, length (x :: r ++ concat rest) <= fuel ->
  stream_read fuel (SAt x r rest) = x :: r ++ concat rest.
Proof.
  intros r x rest fuel. remember (length (r ++ concat rest)) as n eqn:Hn. revert r x rest fuel Hn.
  induction n as [n IH] using lt_wf_ind. intros r x rest fuel Hn Hf.
  destruct fuel as [|f]; [simpl in Hf; lia|]. simpl. f_equal.
  destruct r as [|y r'].
  - simpl. unfold stream_start. pose proof (skip_empty_concat rest) as Hc. pose proof (skip_empty_head rest) as Hh.
    destruct (skip_empty rest) as [|[|z r2] rest2] eqn:Es.
    + simpl in Hc. rewrite <- Hc. destruct f; reflexivity.
    + destruct Hh.
    + simpl in Hc. rewrite <- Hc. simpl in Hn, Hf. rewrite <- Hc in Hn, Hf. simpl in Hn, Hf.
      apply (IH (length (r2 ++ concat rest2))); [lia|reflexivity|simpl; lia].
  - simpl. simpl in Hn, Hf. apply (IH (length (r' ++ concat rest))); [lia|reflexivity|simpl; lia].
Qed.

Theorem stream_records_concat : forall bl, stream_records bl = concat bl.
Proof.
  intros bl. unfold stream_records, stream_start.
  pose proof (skip_empty_concat bl) as Hc. pose proof (skip_empty_head bl) as Hh.
  destruct (skip_empty bl) as [|[|x r] rest] eqn:Es.
  - simpl in Hc. rewrite <- Hc. reflexivity.
  - destruct Hh.
  - simpl in Hc. rewrite <- Hc. apply stream_read_at. simpl. lia.
Qed.

Example stream_example : stream_records [[]; []; [1; 2]; []; []; []; [3]; []; []] = [1; 2; 3].
Proof. reflexivity. Qed.

Lemma stream_consumer : forall b payloads fs, 1 <= b -> fs <> [] ->
  forall c, chain_reachable b payloads fs c -> mainp c = MDone -> forall pre s post, segs c = pre ++ s :: post ->
  stream_records (payloads_of (sseen s)) = concat (payloads_of (stream_into payloads (firstn (length pre) fs))).
Proof.
  intros b payloads fs Hb Hfs c Hr Hm pre s post E. rewrite stream_records_concat.
  destruct (chain_finished b payloads fs Hb Hfs c Hr Hm pre s post E) as [-> _]. reflexivity.
Qed.

(* ------------------------------------------------------------------------------------------- *)
(* "fill, then drain": a source that writes at most block_count - 1 blocks and then poisons never blocks, even when nobody *)
(* consumes yet: the queue behind it (capacity block_count, Chain::Add) takes the data blocks AND the poison.              *)
Lemma src_alone_gen : forall b rest q s1 tl mp, length (sq s1) + length rest + 1 <= b -> length rest + 1 <= length q ->
  exists c, chain_run b (repeat TSrc (2 * (length rest + 1))) (mkchain q SCons rest (s1 :: tl) mp) = Some c /\ sphs c = SDone /\
            mainp c = mp /\ srest c = [].
Proof.
  intros b. induction rest as [|p r IH]; intros q s1 tl mp Hc Hq.
  - destruct q as [|x q']; [simpl in Hq; lia|]. simpl.
    assert (Hl : (length (sq s1) <? b) = true) by (apply Nat.ltb_lt; simpl in Hc; lia).
    unfold chain_run. simpl. rewrite Hl. simpl. eauto.
  - destruct q as [|x q']; [simpl in Hq; lia|].
    assert (Hl : (length (sq s1) <? b) = true) by (apply Nat.ltb_lt; simpl in Hc; lia).
    replace (2 * (length (p :: r) + 1)) with (S (S (2 * (length r + 1)))) by (simpl; lia).
    unfold chain_run. simpl repeat. simpl fold_left. rewrite Hl. simpl.
    apply (IH q' (mkseg (sq s1 ++ [Blk p]) (sf s1) (sseen s1) (sphase s1)) tl mp).
    + simpl. rewrite app_length. simpl in *. lia.
    + simpl in Hq. lia.
Qed.

Theorem source_alone_never_blocks : forall b payloads fs, fs <> [] -> length payloads + 1 <= b ->
  exists c, chain_run b (repeat TSrc (2 * (length payloads + 1))) (chain_init b payloads fs) = Some c /\ sphs c = SDone.
Proof.
  intros b payloads fs Hfs Hb. unfold chain_init. destruct fs as [|f r]; [congruence|]. simpl map.
  destruct (src_alone_gen b payloads (repeat Empty b) (mkseg [] f [] PCons) (map (fun f0 => mkseg [] f0 [] PCons) r) MJoin) as (c & H1 & H2 & _).
  - simpl. lia.
  - rewrite repeat_length. lia.
  - exists c. auto.
Qed.
