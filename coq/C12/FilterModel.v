(* C12 -- executable model of the threaded filter protocol (lm/filter/thread.hh: Controller, ThreadBatch, FilterWorker,
   OutputWorker; lm/filter/format.hh: InputBuffer, BinaryOutputBuffer, MultipleOutputBuffer, Format::RunFilter).

   Granularity.  All cross-thread traffic of the filter is ownership transfer of whole batches through PCQueues
   (property C17).  The model therefore has two kinds of step:
     Rd      the reader thread runs up to and including its next queue operation (AddNGram / Flush / destructor);
     Arr i   the i-th of the batches that were submitted and have not yet reached the OutputWorker is filtered by
             some FilterWorker and handed to OutputWorker::operator() (which flushes what is now in sequence).
   "The bag of submitted batches, any of which may arrive next" over-approximates every interleaving of any number of
   FilterWorkers and of the three queues: a theorem for all schedules [Rd | Arr i] covers all of those.
   Batches are values that move between the reader's stack, the bag, the reorder deque and the to_read_ queue
   (exactly the ownership discipline of the code); a batch keeps its identity and whatever state the code does not
   reset when it is recycled (that is what defect F4 is about).

   Three switches select the protocol as it was before the three repairs (all three = faithful model of the
   unrepaired tree) or after:  skip_empty (F3), reset_last (F4); F2 is the absence of the final FlushOnly token in the
   token list produced for the raw format.
   No proofs in this file. *)
From Coq Require Import List Arith Bool.
Import ListNotations.

(* ---- data ---- *)
Inductive call := ToAll | ToOne (o : nat).           (* output.AddNGram(line) | output.SingleAddNGram(o, line) *)
Record line := mkline { lid : nat; llen : nat; lcalls : list call }.   (* text identity, length in bytes, what the filter does with it *)
Inductive token := Line (l : line) | EndSection | FlushOnly.
   (* ARPA: Line* EndSection per n-gram length (EndLength = filter.Flush(); output.EndLength()).
      raw : Line* FlushOnly (after the repair of F2)  /  Line* (before). *)
Inductive event := Ev (c : call) (id : nat) | Mark.   (* what reaches the real output, in order *)

Record annot := mkannot { asys : list nat; aline : nat }.
Record batch := mkbatch {
  bid : nat;                       (* which element of Controller::batches_ *)
  bseq : nat;                      (* ThreadBatch::sequence_ *)
  blines : list line;              (* InputBuffer: lines_[0 .. actual_) *)
  bout : list annot;               (* MultipleOutputBuffer::annotated_ (BinaryOutputBuffer = entries with asys = []) *)
  blast : option (nat * nat)       (* MultipleOutputBuffer::last_ : (slot of the InputBuffer string it points into, length) *)
}.

Record config := mkconfig { nbatch : nat; bsize : nat; skip_empty : bool; reset_last : bool }.
   (* nbatch = queue = 2 * threads; bsize = batch_size *)

Inductive rpc := RTok | RMoveA | RMoveF (mark : bool) | RWait (mark : bool) | RDrain | RDone.

Record st := mkst {
  input : list token;              (* tokens not yet read *)
  seqn : nat;                      (* Controller::sequence_ *)
  local : list batch;              (* local_read_ (stack, top first); while pc = RTok its top is the pending input batch *)
  home : list batch;               (* to_read_ (queue) *)
  bag : list batch;                (* submitted, not yet handled by the OutputWorker *)
  ordering : list (option batch);  (* OutputWorker::ordering_ *)
  base : nat;                      (* OutputWorker::base_sequence_ *)
  out : list event;                (* the real output *)
  pc : rpc;
  crashed : bool                   (* undefined behaviour was reached: back() of an empty vector, or a sequence number below base_sequence_ *)
}.

(* ---- the sequential filter = specification ---- *)
Definition line_events (l : line) : list event := map (fun c => Ev c (lid l)) (lcalls l).
Definition token_events (t : token) : list event :=
  match t with Line l => line_events l | EndSection => [Mark] | FlushOnly => [] end.
Definition sequential (toks : list token) : list event := flat_map token_events toks.

(* ---- MultipleOutputBuffer ---- *)
Definition pair_eqb (a b : nat * nat) : bool := (fst a =? fst b) && (snd a =? snd b).
Fixpoint push_back_sys (l : list annot) (o : nat) : list annot :=
  match l with
  | [] => []
  | [a] => [mkannot (asys a ++ [o]) (aline a)]
  | h :: t => h :: push_back_sys t o
  end.
(* one call of the filter on the line stored in slot `slot`; None = annotated_.back() on an empty vector *)
Definition add_call (b : batch) (slot : nat) (l : line) (c : call) : option batch :=
  match c with
  | ToAll => Some (mkbatch (bid b) (bseq b) (blines b) (bout b ++ [mkannot [] (lid l)]) (blast b))
  | ToOne o =>
    if match blast b with Some p => pair_eqb p (slot, llen l) | None => false end
    then match bout b with
         | [] => None
         | _ => Some (mkbatch (bid b) (bseq b) (blines b) (push_back_sys (bout b) o) (blast b))
         end
    else Some (mkbatch (bid b) (bseq b) (blines b) (bout b ++ [mkannot [o] (lid l)]) (Some (slot, llen l)))
  end.
Fixpoint add_calls (b : batch) (slot : nat) (l : line) (cs : list call) : option batch :=
  match cs with
  | [] => Some b
  | c :: r => match add_call b slot l c with Some b' => add_calls b' slot l r | None => None end
  end.
(* InputBuffer::CallFilter: every line in slot order *)
Fixpoint call_filter (b : batch) (slot : nat) (ls : list line) : option batch :=
  match ls with
  | [] => Some b
  | l :: r => match add_calls b slot l (lcalls l) with Some b' => call_filter b' (S slot) r | None => None end
  end.
Definition annot_events (a : annot) : list event :=
  match asys a with [] => [Ev ToAll (aline a)] | sys => map (fun o => Ev (ToOne o) (aline a)) sys end.
Definition flush_events (b : batch) : list event := flat_map annot_events (bout b).
Definition flushed (c : config) (b : batch) : batch :=
  mkbatch (bid b) (bseq b) (blines b) [] (if reset_last c then None else blast b).

(* ---- OutputWorker::operator() ---- *)
Fixpoint put {A} (l : list (option A)) (pos : nat) (x : A) : list (option A) :=
  match pos, l with
  | O, [] => [Some x]
  | O, _ :: t => Some x :: t
  | S p, [] => None :: put [] p x
  | S p, h :: t => h :: put t p x
  end.
(* while (!ordering_.empty() && ordering_.front()) { flush; done_.Produce; pop_front; ++base } *)
Fixpoint drain (c : config) (ord : list (option batch)) (bs : nat) (o : list event) (hm : list batch)
  : list (option batch) * nat * list event * list batch :=
  match ord with
  | Some b :: t => drain c t (S bs) (o ++ flush_events b) (hm ++ [flushed c b])
  | _ => (ord, bs, o, hm)
  end.

(* ---- Controller ---- *)
Definition fill (b : batch) (s : nat) : batch := mkbatch (bid b) s [] (bout b) (blast b).   (* ThreadBatch::Fill *)
Definition add_line (b : batch) (l : line) : batch := mkbatch (bid b) (bseq b) (blines b ++ [l]) (bout b) (blast b).

Definition set_reader (s : st) (inp : list token) (sq : nat) (lc hm bg : list batch) (o : list event) (p : rpc) : st :=
  mkst inp sq lc hm bg (ordering s) (base s) o p (crashed s).
(* NewInput: input_ = &local_read_.top()->Fill(sequence_++) *)
Definition new_input (lc : list batch) (sq : nat) : list batch * nat :=
  match lc with [] => ([], sq) | t :: r => (fill t sq :: r, S sq) end.

Definition reader_step (c : config) (s : st) : option st :=
  match pc s with
  | RTok =>
    match input s, local s with
    | [], _ => Some (set_reader s [] (seqn s) (local s) (home s) (bag s) (out s) RDrain)
    | Line l :: rest, top :: lower =>
      let top' := add_line top l in
      if length (blines top') =? bsize c then
        (* FlushInput: filter_.Produce(top); pop; if (local_read_.empty()) MoveRead();  then NewInput *)
        match lower with
        | [] => Some (set_reader s rest (seqn s) [] (home s) (bag s ++ [top']) (out s) RMoveA)
        | _ => let '(lc, sq) := new_input lower (seqn s) in
               Some (set_reader s rest sq lc (home s) (bag s ++ [top']) (out s) RTok)
        end
      else Some (set_reader s rest (seqn s) (top' :: lower) (home s) (bag s) (out s) RTok)
    | (EndSection as t) :: rest, top :: lower
    | (FlushOnly as t) :: rest, top :: lower =>
      let mark := match t with EndSection => true | _ => false end in
      if skip_empty c && (length (blines top) =? 0) then
        Some (set_reader s rest (seqn s) (local s) (home s) (bag s) (out s) (RWait mark))
      else match lower with
           | [] => Some (set_reader s rest (seqn s) [] (home s) (bag s ++ [top]) (out s) (RMoveF mark))
           | _ => Some (set_reader s rest (seqn s) lower (home s) (bag s ++ [top]) (out s) (RWait mark))
           end
    | _ :: _, [] => None
    end
  | RMoveA =>
    match home s with
    | [] => None
    | h :: hm => let '(lc, sq) := new_input (h :: local s) (seqn s) in
                 Some (set_reader s (input s) sq lc hm (bag s) (out s) RTok)
    end
  | RMoveF mark =>
    match home s with
    | [] => None
    | h :: hm => Some (set_reader s (input s) (seqn s) (h :: local s) hm (bag s) (out s) (RWait mark))
    end
  | RWait mark =>
    if length (local s) <? nbatch c then
      match home s with
      | [] => None
      | h :: hm => Some (set_reader s (input s) (seqn s) (h :: local s) hm (bag s) (out s) (RWait mark))
      end
    else let '(lc, sq) := new_input (local s) (seqn s) in
         Some (set_reader s (input s) sq lc (home s) (bag s) (if mark then out s ++ [Mark] else out s) RTok)
  | RDrain =>
    (* ~Controller: both pools are poisoned and joined: everything submitted is filtered and handed to the OutputWorker *)
    match bag s with [] => Some (set_reader s (input s) (seqn s) (local s) (home s) [] (out s) RDone) | _ => None end
  | RDone => None
  end.

Fixpoint remove_nth {A} (l : list A) (i : nat) : list A :=
  match l, i with [], _ => [] | _ :: t, O => t | h :: t, S j => h :: remove_nth t j end.

Definition arrive (c : config) (s : st) (i : nat) : option st :=
  match nth_error (bag s) i with
  | None => None
  | Some b =>
    let bg := remove_nth (bag s) i in
    match call_filter b 0 (blines b) with
    | None => Some (mkst (input s) (seqn s) (local s) (home s) bg (ordering s) (base s) (out s) (pc s) true)
    | Some b' =>
      if bseq b' <? base s then Some (mkst (input s) (seqn s) (local s) (home s) bg (ordering s) (base s) (out s) (pc s) true)
      else let ord := put (ordering s) (bseq b' - base s) b' in
           let '(ord', bs, o, hm) := drain c ord (base s) (out s) (home s) in
           Some (mkst (input s) (seqn s) (local s) hm bg ord' bs o (pc s) (crashed s))
    end
  end.

Inductive tid := Rd | Arr (i : nat).
Definition step (c : config) (s : st) (t : tid) : option st :=
  if crashed s then None else match t with Rd => reader_step c s | Arr i => arrive c s i end.

Fixpoint fresh (n : nat) : list batch :=      (* batches_[n-1] on top, as pushed by the constructor *)
  match n with O => [] | S m => mkbatch m 0 [] [] None :: fresh m end.
Definition init (c : config) (toks : list token) : st :=
  let '(lc, sq) := new_input (fresh (nbatch c)) 0 in
  mkst toks sq lc [] [] [] 0 [] RTok false.

Definition run (c : config) (sched : list tid) (s : st) : option st :=
  fold_left (fun o t => match o with Some x => step c x t | None => None end) sched (Some s).

Definition rd_enabled (c : config) (s : st) : bool := match step c s Rd with Some _ => true | None => false end.
Definition stuck (c : config) (s : st) : bool := negb (rd_enabled c s) && (match bag s with [] => true | _ => false end || crashed s).
Definition done (s : st) : bool := match pc s with RDone => negb (crashed s) | _ => false end.

(* Drive the model with a list of choices: at each step the enabled threads are Rd (if enabled) and Arr 0 .. Arr (|bag|-1);
   pick (choice mod number-enabled).  Out of fuel and deadlock are distinct results. *)
Inductive outcome := Finished (s : st) | Deadlock (s : st) | Crashed (s : st) | OutOfFuel (s : st).
Fixpoint drive (c : config) (fuel : nat) (picks : list nat) (s : st) : outcome :=
  match fuel with
  | O => OutOfFuel s
  | S f =>
    if crashed s then Crashed s else
    if done s then Finished s else
    let r := rd_enabled c s in
    let n := (if r then 1 else 0) + length (bag s) in
    if n =? 0 then Deadlock s else
    let p := match picks with [] => 0 | p :: _ => p mod n end in
    let t := if r then (match p with O => Rd | S j => Arr j end) else Arr p in
    match step c s t with
    | Some s' => drive c f (tl picks) s'
    | None => Deadlock s
    end
  end.
