(* Extraction of the C12 executable model (ExtrOcamlBasic only; nat stays an inductive type).
   Z.of_nat is extracted only so that the shared OCaml glue (ocaml/zio.ml.inc), which mentions z/positive, compiles. *)
From Coq Require Import List ZArith Extraction ExtrOcamlBasic.
From Kenlm Require Import C12.FilterModel.
Extraction Language OCaml.
Extraction "extracted/c12_model.ml" init step run drive sequential out done Z.of_nat.
