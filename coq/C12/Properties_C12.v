(* C12 -- the property theorems and nothing else.  Model: C12/FilterModel.v (Controller protocol of lm/filter/thread.hh
   and the buffers of lm/filter/format.hh).  `unrepaired` = the protocol of the tree before the fix: commits
   (skip_empty = true, reset_last = false, no final Flush in the raw format); `repaired` = after. *)
From Coq Require Import List Arith.
From Kenlm Require Import C12.FilterModel C12.FilterProofs.
Import ListNotations.

(* F2 (fixed by "fix: raw-format filter flushes the last partial batch"): before the fix a complete, terminating run of
   the raw format wrote nothing although the sequential filter writes three n-grams. *)
Theorem C12_count_format_drops_tail_refuted :
  exists s, run (unrepaired 2 5) [Rd; Rd; Rd; Rd; Rd] (init (unrepaired 2 5) f2_tokens) = Some s /\
            done s = true /\ out s = [] /\ sequential f2_tokens = [Ev ToAll 1; Ev ToAll 2; Ev ToAll 3].
Proof. exact count_format_drops_tail. Qed.

(* F3: a reachable state of the unrepaired protocol in which no thread can step, the run is not finished, the
   OutputWorker holds sequence number 2 and waits for 1, which was never submitted. *)
Theorem C12_sequence_gap_deadlock_refuted :
  exists s, run (unrepaired 2 1) f3_sched (init (unrepaired 2 1) f3_tokens) = Some s /\
            (forall t, step (unrepaired 2 1) s t = None) /\ done s = false /\ crashed s = false /\
            out s = [Ev (ToOne 0) 1; Mark] /\ base s = 1 /\ map (option_map bseq) (ordering s) = [None; Some 2].
Proof. exact sequence_gap_deadlock. Qed.

(* F4: a reachable state of the unrepaired protocol in which annotated_.back() was evaluated on an empty vector. *)
Theorem C12_stale_last_pointer_refuted :
  exists s, run (unrepaired 2 1) f4_sched (init (unrepaired 2 1) f4_tokens) = Some s /\ crashed s = true.
Proof. exact stale_last_pointer. Qed.
