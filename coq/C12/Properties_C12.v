(* C12 -- the property theorems and nothing else.  Model: C12/FilterModel.v (Controller protocol of lm/filter/thread.hh
   and the buffers of lm/filter/format.hh).  `unrepaired` = the protocol of the tree before the fix: commits
   (skip_empty = true, reset_last = false, no final Flush in the raw format); `repaired` = after. *)
From Coq Require Import List Arith.
From Kenlm Require Import C12.FilterModel C12.FilterProofs.
Import ListNotations.

(* F2 (fixed by "fix: raw-format filter flushes the last partial batch"): before the fix a complete, terminating run of
   the raw format wrote nothing although the sequential filter writes three n-grams. *)
Theorem C12_count_format_drops_tail_refuted :
  exists s, run (unrepaired 2 5) [Rd; Rd; Rd; Rd; Rd] (init (unrepaired 2 5) f2_tokens) = Some s /\
            done s = true /\ out s = [] /\ sequential f2_tokens = [Ev ToAll 1; Ev ToAll 2; Ev ToAll 3].
Proof. exact count_format_drops_tail. Qed.

(* F3: a reachable state of the unrepaired protocol in which no thread can step, the run is not finished, the
   OutputWorker holds sequence number 2 and waits for 1, which was never submitted. *)
Theorem C12_sequence_gap_deadlock_refuted :
  exists s, run (unrepaired 2 1) f3_sched (init (unrepaired 2 1) f3_tokens) = Some s /\
            (forall t, step (unrepaired 2 1) s t = None) /\ done s = false /\ crashed s = false /\
            out s = [Ev (ToOne 0) 1; Mark] /\ base s = 1 /\ map (option_map bseq) (ordering s) = [None; Some 2].
Proof. exact sequence_gap_deadlock. Qed.

(* F4: a reachable state of the unrepaired protocol in which annotated_.back() was evaluated on an empty vector. *)
Theorem C12_stale_last_pointer_refuted :
  exists s, run (unrepaired 2 1) f4_sched (init (unrepaired 2 1) f4_tokens) = Some s /\ crashed s = true.
Proof. exact stale_last_pointer. Qed.

(* ---------------------------------------------------------------------------------------------------------------
   The repaired protocol (skip_empty = false, reset_last = true).  Quantified over: the number of batch objects Q >= 1
   (the tool uses 2 * threads, so every thread count is covered), the batch size B >= 1, every token list whose lines
   are well-formed for the filter contract (a line is sent to all outputs once, or to single outputs, never both) and
   which ends with a Flush (EndLength of the last ARPA section / the raw format's final Flush), and every schedule:
   `reachable Q B toks s` = some sequence of [reader step | arrival of ANY in-flight batch at the OutputWorker] leads
   from the constructor's state to s.  Arrival of any in-flight batch next over-approximates every interleaving of any
   number of FilterWorkers and of the queues. *)

(* no n-gram lost, duplicated, reordered or sent to the wrong output: a finished run wrote exactly what the
   single-threaded filter writes (events = (target output(s), line) and section marks, in order) *)
Theorem C12_output_equals_sequential : forall Q B, 1 <= Q -> 1 <= B -> forall toks, Forall wf_token toks ->
  (forall l, last toks EndSection <> Line l) ->
  forall s, reachable Q B toks s -> done s = true -> out s = sequential toks.
Proof. exact output_equals_sequential. Qed.

(* ... and at every moment of every run the output so far is a prefix of it *)
Theorem C12_output_prefix : forall Q B, 1 <= Q -> 1 <= B -> forall toks, Forall wf_token toks ->
  (forall l, last toks EndSection <> Line l) ->
  forall s, reachable Q B toks s -> exists rest, out s ++ rest = sequential toks.
Proof. exact output_prefix. Qed.

(* the undefined behaviour of F4 (back() of an empty vector) and a sequence number below base_sequence_ are unreachable *)
Theorem C12_never_crashes : forall Q B, 1 <= Q -> 1 <= B -> forall toks, Forall wf_token toks ->
  (forall l, last toks EndSection <> Line l) ->
  forall s, reachable Q B toks s -> crashed s = false.
Proof. exact never_crashes. Qed.

(* the sequence numbers in flight are exactly base_sequence_ .. nsub-1, each once: no gap (F3), no duplicate *)
Theorem C12_dense_sequence : forall Q B, 1 <= Q -> 1 <= B -> forall toks, Forall wf_token toks ->
  (forall l, last toks EndSection <> Line l) ->
  forall s, reachable Q B toks s ->
  exists nsub, base s <= nsub /\
               Permutation.Permutation (map bseq (bag s) ++ present_seqs (base s) (ordering s)) (seq (base s) (nsub - base s)).
Proof. exact dense_sequence. Qed.

(* while the run is not finished some thread can step *)
Theorem C12_no_deadlock : forall Q B, 1 <= Q -> 1 <= B -> forall toks, Forall wf_token toks ->
  (forall l, last toks EndSection <> Line l) ->
  forall s, reachable Q B toks s -> done s = false -> exists t s', step (mkconfig Q B false true) s t = Some s'.
Proof. exact no_deadlock. Qed.

(* every schedule is finite (a measure decreases with every step), so with C12_no_deadlock every run ends finished *)
Theorem C12_terminates : forall Q B, 1 <= Q -> 1 <= B -> forall toks, Forall wf_token toks ->
  (forall l, last toks EndSection <> Line l) ->
  forall sched s, run (mkconfig Q B false true) sched (init (mkconfig Q B false true) toks) = Some s ->
  length sched <= 8 * length toks + 2.
Proof. exact terminates. Qed.

(* MultipleOutputBuffer: filtering a clean batch buffers exactly the sequential filter's calls for its lines,
   whatever the batch object was used for before *)
Theorem C12_batch_output_independent_of_history : forall b, clean b -> Forall wf_line (blines b) ->
  exists b', call_filter b 0 (blines b) = Some b' /\ same_hdr b b' /\ flush_events b' = flat_map line_events (blines b).
Proof. exact filter_clean_batch. Qed.
