(* C12 -- proofs about the filter protocol model (FilterModel.v). *)
From Coq Require Import List Arith Lia Bool Permutation.
From Kenlm Require Import C12.FilterModel.
Import ListNotations.

(* ------------------------------------------------------------------------------------------- *)
(* The protocol as it stood before the repairs: three witnesses.                                 *)
Definition unrepaired (threads b : nat) : config := mkconfig (2 * threads) b true false.
Definition repaired (threads b : nat) : config := mkconfig (2 * threads) b false true.
Definition ln (id len : nat) (cs : list call) : line := mkline id len cs.

(* F2: the raw format never called Flush: the last partial batch is never submitted. *)
Definition f2_tokens : list token := [Line (ln 1 3 [ToAll]); Line (ln 2 3 [ToAll]); Line (ln 3 3 [ToAll])].
Lemma count_format_drops_tail :
  exists s, run (unrepaired 2 5) [Rd; Rd; Rd; Rd; Rd] (init (unrepaired 2 5) f2_tokens) = Some s /\
            done s = true /\ out s = [] /\ sequential f2_tokens = [Ev ToAll 1; Ev ToAll 2; Ev ToAll 3].
Proof. eexists. split; [vm_compute; reflexivity|]. repeat split. Qed.

(* F3: a section whose size is a multiple of the batch size leaves an empty pending batch; Flush skips it but NewInput
   has already consumed its sequence number; the OutputWorker waits for that number for ever. *)
Definition f3_tokens : list token := [Line (ln 1 6 [ToOne 0]); EndSection; Line (ln 2 6 [ToAll]); EndSection].
Definition f3_sched : list tid := [Rd; Rd; Arr 0; Rd; Rd; Rd; Rd; Arr 0].
Lemma sequence_gap_deadlock :
  exists s, run (unrepaired 2 1) f3_sched (init (unrepaired 2 1) f3_tokens) = Some s /\
            (forall t, step (unrepaired 2 1) s t = None) /\ done s = false /\ crashed s = false /\
            out s = [Ev (ToOne 0) 1; Mark] /\ base s = 1 /\ map (option_map bseq) (ordering s) = [None; Some 2].
Proof.
  eexists. split; [vm_compute; reflexivity|]. split; [|repeat split].
  intros [|i]; [vm_compute; reflexivity|]. destruct i; reflexivity.
Qed.

(* F4: last_ survives Flush; a recycled batch whose first SingleAddNGram is for a line in the same slot with the same
   length matches the stale pointer and writes through annotated_.back() of an empty vector. *)
Definition f4_tokens : list token :=
  [Line (ln 1 6 [ToOne 0]); Line (ln 2 6 [ToOne 0]); Line (ln 3 6 [ToOne 0]); Line (ln 4 6 [ToOne 0]); Line (ln 5 6 [ToOne 0]); EndSection].
Definition f4_sched : list tid := [Rd; Rd; Rd; Rd; Arr 0; Rd; Rd; Arr 3].
Lemma stale_last_pointer :
  exists s, run (unrepaired 2 1) f4_sched (init (unrepaired 2 1) f4_tokens) = Some s /\ crashed s = true.
Proof. eexists. split; [vm_compute; reflexivity|]. reflexivity. Qed.
(* the same inputs and schedules are harmless in the repaired protocol *)
Lemma witnesses_repaired :
  (exists s, run (repaired 2 5) [Rd; Rd; Rd; Rd; Arr 0; Rd; Rd; Rd; Rd] (init (repaired 2 5) (f2_tokens ++ [FlushOnly])) = Some s /\
             done s = true /\ out s = sequential (f2_tokens ++ [FlushOnly])) /\
  (exists s, run (repaired 2 1) f4_sched (init (repaired 2 1) f4_tokens) = Some s /\ crashed s = false).
Proof. split; eexists; (split; [vm_compute; reflexivity|]); repeat split. Qed.

(* ------------------------------------------------------------------------------------------- *)
(* Part A.  MultipleOutputBuffer: filtering the lines of a clean batch buffers exactly the events of the sequential  *)
(* filter, provided the filter never mixes AddNGram and SingleAddNGram for one line.                                  *)
Definition is_one (c : call) : bool := match c with ToOne _ => true | ToAll => false end.
Definition wf_line (l : line) : Prop := lcalls l = [ToAll] \/ forallb is_one (lcalls l) = true.
Definition wf_token (t : token) : Prop := match t with Line l => wf_line l | _ => True end.
Definition clean (b : batch) : Prop := bout b = [] /\ blast b = None.
Definition slot_lt (b : batch) (i : nat) : Prop := match blast b with None => True | Some p => fst p < i end.
Definition same_hdr (b b' : batch) : Prop := bid b' = bid b /\ bseq b' = bseq b /\ blines b' = blines b.

Lemma flush_events_app : forall b x, flat_map annot_events (b ++ [x]) = flat_map annot_events b ++ annot_events x.
Proof. intros. rewrite flat_map_app. simpl. rewrite app_nil_r. reflexivity. Qed.

Lemma push_back_sys_last : forall pre a o, asys a <> [] ->
  push_back_sys (pre ++ [a]) o = pre ++ [mkannot (asys a ++ [o]) (aline a)].
Proof.
  induction pre as [|h t IH]; intros a o Ha; simpl; [reflexivity|].
  rewrite IH by assumption. destruct (t ++ [a]) eqn:E; [destruct t; discriminate|reflexivity].
Qed.

Lemma annot_events_push : forall a o, asys a <> [] ->
  annot_events (mkannot (asys a ++ [o]) (aline a)) = annot_events a ++ [Ev (ToOne o) (aline a)].
Proof.
  intros a o Ha. unfold annot_events. simpl. destruct (asys a) as [|x r] eqn:E; [congruence|].
  simpl. rewrite map_app. reflexivity.
Qed.

(* the calls after the first SingleAddNGram of a line all hit the remembered pointer *)
Lemma add_calls_more : forall cs b i l pre a,
  forallb is_one cs = true -> bout b = pre ++ [a] -> asys a <> [] -> aline a = lid l -> blast b = Some (i, llen l) ->
  exists b', add_calls b i l cs = Some b' /\ same_hdr b b' /\ blast b' = Some (i, llen l) /\
             flush_events b' = flush_events b ++ map (fun c => Ev c (lid l)) cs.
Proof.
  induction cs as [|c cs IH]; intros b i l pre a Hall Hb Ha Hl Hlast; simpl.
  - exists b. unfold same_hdr. rewrite app_nil_r. auto.
  - simpl in Hall. apply andb_true_iff in Hall. destruct Hall as [Hc Hall]. destruct c as [|o]; [discriminate|].
    unfold add_call. rewrite Hlast. unfold pair_eqb. simpl. rewrite !Nat.eqb_refl. simpl.
    destruct (bout b) as [|a0 l0] eqn:Eb; [destruct pre; discriminate|]. rewrite Hb.
    rewrite push_back_sys_last by assumption.
    edestruct (IH (mkbatch (bid b) (bseq b) (blines b) (pre ++ [mkannot (asys a ++ [o]) (aline a)]) (Some (i, llen l))) i l pre
                  (mkannot (asys a ++ [o]) (aline a)) Hall eq_refl) as (b' & Hb' & Hh & Hl' & Hf).
    { simpl. destruct (asys a); discriminate. } { exact Hl. } { reflexivity. }
    exists b'. split; [exact Hb'|]. split; [exact Hh|]. split; [exact Hl'|].
    rewrite Hf. unfold flush_events. simpl. rewrite Eb, Hb, !flush_events_app, annot_events_push by assumption.
    rewrite Hl, <- !app_assoc. reflexivity.
Qed.

Lemma add_calls_line : forall b i l, wf_line l -> slot_lt b i ->
  exists b', add_calls b i l (lcalls l) = Some b' /\ same_hdr b b' /\ slot_lt b' (S i) /\
             flush_events b' = flush_events b ++ line_events l.
Proof.
  intros b i l Hwf Hlt. unfold line_events. destruct Hwf as [Hall|Hone].
  - rewrite Hall. simpl. eexists. split; [reflexivity|]. split; [unfold same_hdr; simpl; auto|]. split.
    + unfold slot_lt in *. simpl. destruct (blast b); [lia|exact I].
    + unfold flush_events. simpl. rewrite flush_events_app. reflexivity.
  - destruct (lcalls l) as [|c cs] eqn:E.
    + simpl. exists b. split; [reflexivity|]. split; [unfold same_hdr; auto|]. split.
      * unfold slot_lt in *. destruct (blast b); [lia|exact I].
      * rewrite app_nil_r. reflexivity.
    + simpl in Hone. apply andb_true_iff in Hone. destruct Hone as [Hc Hcs]. destruct c as [|o]; [discriminate|].
      cbn [add_calls]. unfold add_call.
      assert (Hne : match blast b with Some p => pair_eqb p (i, llen l) | None => false end = false).
      { unfold slot_lt in Hlt. destruct (blast b) as [p|]; [|reflexivity]. unfold pair_eqb. simpl.
        destruct (fst p =? i) eqn:F; [apply Nat.eqb_eq in F; lia|reflexivity]. }
      rewrite Hne.
      edestruct (add_calls_more cs (mkbatch (bid b) (bseq b) (blines b) (bout b ++ [mkannot [o] (lid l)]) (Some (i, llen l))) i l
                   (bout b) (mkannot [o] (lid l)) Hcs eq_refl) as (b' & Hb' & Hh & Hl' & Hf); try reflexivity.
      { simpl. discriminate. }
      exists b'. split; [exact Hb'|]. split; [exact Hh|]. split.
      * unfold slot_lt. rewrite Hl'. simpl. lia.
      * rewrite Hf. unfold flush_events at 1. simpl. rewrite flush_events_app. unfold annot_events. simpl.
        unfold flush_events. rewrite <- app_assoc. reflexivity.
Qed.

Lemma call_filter_events : forall ls b i, Forall wf_line ls -> slot_lt b i ->
  exists b', call_filter b i ls = Some b' /\ same_hdr b b' /\ flush_events b' = flush_events b ++ flat_map line_events ls.
Proof.
  induction ls as [|l ls IH]; intros b i Hwf Hlt; simpl.
  - exists b. unfold same_hdr. rewrite app_nil_r. auto.
  - inversion Hwf as [|? ? Hl Hls]; subst.
    destruct (add_calls_line b i l Hl Hlt) as (b1 & H1 & (Ha & Hb & Hc) & Hlt1 & Hf1). rewrite H1.
    destruct (IH b1 (S i) Hls Hlt1) as (b2 & H2 & (Ha2 & Hb2 & Hc2) & Hf2).
    exists b2. split; [exact H2|]. split; [unfold same_hdr; repeat split; congruence|].
    rewrite Hf2, Hf1, <- app_assoc. reflexivity.
Qed.

(* what a FilterWorker does to a clean batch *)
Lemma filter_clean_batch : forall b, clean b -> Forall wf_line (blines b) ->
  exists b', call_filter b 0 (blines b) = Some b' /\ same_hdr b b' /\ flush_events b' = flat_map line_events (blines b).
Proof.
  intros b [Ho Hl] Hwf. destruct (call_filter_events (blines b) b 0 Hwf) as (b' & H1 & H2 & H3).
  { unfold slot_lt. rewrite Hl. exact I. }
  exists b'. split; [exact H1|]. split; [exact H2|]. rewrite H3. unfold flush_events. rewrite Ho. reflexivity.
Qed.

(* ------------------------------------------------------------------------------------------- *)
(* Part B.  The repaired protocol, all inputs, all batch sizes, all numbers of batches, all schedules.               *)
Fixpoint present_seqs (bs : nat) (ord : list (option batch)) : list nat :=
  match ord with
  | [] => []
  | Some _ :: t => bs :: present_seqs (S bs) t
  | None :: t => present_seqs (S bs) t
  end.

Lemma present_in : forall ord bs n, In n (present_seqs bs ord) -> exists i y, n = bs + i /\ nth_error ord i = Some (Some y).
Proof.
  induction ord as [|[y|] t IH]; intros bs n H; simpl in H; [contradiction| |].
  - destruct H as [<-|H]; [exists 0, y; split; [lia|reflexivity]|].
    destruct (IH _ _ H) as (i & z & -> & Hn). exists (S i), z. split; [lia|exact Hn].
  - destruct (IH _ _ H) as (i & z & -> & Hn). exists (S i), z. split; [lia|exact Hn].
Qed.
Lemma in_present : forall ord bs i y, nth_error ord i = Some (Some y) -> In (bs + i) (present_seqs bs ord).
Proof.
  induction ord as [|[z|] t IH]; intros bs i y H; destruct i; simpl in *; try discriminate.
  - left. lia.
  - right. replace (bs + S i) with (S bs + i) by lia. eapply IH; eassumption.
  - replace (bs + S i) with (S bs + i) by lia. eapply IH; eassumption.
Qed.

Lemma put_present : forall ord pos bs x, (nth_error ord pos = None \/ nth_error ord pos = Some None) ->
  Permutation (present_seqs bs (put ord pos x)) ((bs + pos) :: present_seqs bs ord).
Proof.
  induction ord as [|h t IH]; intros pos bs x H.
  - clear H. revert bs. induction pos as [|p IHp]; intros bs; simpl.
    + rewrite Nat.add_0_r. apply Permutation_refl.
    + replace (bs + S p) with (S bs + p) by lia. apply (IHp (S bs)).
  - destruct pos as [|p]; simpl in *.
    + destruct H as [H|H]; [discriminate|]. injection H as ->. simpl. rewrite Nat.add_0_r. apply Permutation_refl.
    + replace (bs + S p) with (S bs + p) by lia. destruct h as [y|]; simpl.
      * eapply perm_trans; [apply perm_skip, (IH p (S bs) x H)|]. apply perm_swap.
      * apply (IH p (S bs) x H).
Qed.
Lemma put_nth_same : forall A (ord : list (option A)) pos x, nth_error (put ord pos x) pos = Some (Some x).
Proof.
  intros A ord pos. revert ord. induction pos as [|p IH]; intros [|h t] x; simpl; try reflexivity; apply IH.
Qed.
Lemma put_nth_other : forall A (ord : list (option A)) pos x i y, i <> pos ->
  nth_error (put ord pos x) i = Some (Some y) -> nth_error ord i = Some (Some y).
Proof.
  intros A ord pos. revert ord. induction pos as [|p IH]; intros [|h t] x i y Hne H; destruct i; simpl in *; try congruence.
  - destruct i; discriminate.
  - apply (IH [] x i y) in H; [destruct i; discriminate|congruence].
  - apply (IH t x i y); congruence.
Qed.

Lemma remove_nth_perm : forall A (l : list A) i x, nth_error l i = Some x -> Permutation (x :: remove_nth l i) l.
Proof.
  induction l as [|h t IH]; intros [|i] x H; simpl in *; try discriminate.
  - injection H as ->. apply Permutation_refl.
  - eapply perm_trans; [apply perm_swap|]. apply perm_skip. apply IH. exact H.
Qed.
Lemma remove_nth_Forall : forall A (P : A -> Prop) (l : list A) i, Forall P l -> Forall P (remove_nth l i).
Proof.
  induction l as [|h t IH]; intros [|i] H; simpl; auto; inversion H; subst; auto.
Qed.
Lemma remove_nth_length : forall A (l : list A) i x, nth_error l i = Some x -> S (length (remove_nth l i)) = length l.
Proof.
  induction l as [|h t IH]; intros [|i] x H; simpl in *; try discriminate; auto. f_equal. eapply IH; eassumption.
Qed.

Definition ev_lines (ls : list line) : list event := flat_map line_events ls.
Lemma ev_lines_app : forall a b, ev_lines (a ++ b) = ev_lines a ++ ev_lines b.
Proof. intros. unfold ev_lines. apply flat_map_app. Qed.
Lemma sequential_app : forall a b, sequential (a ++ b) = sequential a ++ sequential b.
Proof. intros. unfold sequential. apply flat_map_app. Qed.

Definition pending (s : st) : list line :=
  match pc s with
  | RTok | RDrain | RDone => match local s with top :: _ => blines top | [] => [] end
  | _ => []
  end.
Definition tail_mark (p : rpc) : list event := match p with RMoveF true | RWait true => [Mark] | _ => [] end.
Definition front_none (ord : list (option batch)) : Prop := match ord with Some _ :: _ => False | _ => True end.

Section Repaired.
Variable Q B : nat.
Hypothesis HQ : 1 <= Q.
Hypothesis HB : 1 <= B.
Let cfg := mkconfig Q B false true.
Variable toks : list token.
Hypothesis Hwf : Forall wf_token toks.
Hypothesis Hend : forall l, last toks EndSection <> Line l.   (* the caller ends with a Flush (EndLength, or the raw format's final Flush) *)

(* everything except "the front of the reorder deque is empty", which OutputWorker::operator() re-establishes by draining *)
Record PInv (subm : list (list line)) (consumed : list token) (s : st) : Prop := {
  G0 : crashed s = false;
  G1 : toks = consumed ++ input s;
  G3 : length (local s) + length (home s) + length (bag s) + length (present_seqs (base s) (ordering s)) = Q;
  G4 : Forall clean (local s) /\ Forall clean (home s) /\ Forall clean (bag s);
  G5 : Forall (fun b => bseq b < length subm /\ blines b = nth (bseq b) subm []) (bag s);
  G6 : forall i b, nth_error (ordering s) i = Some (Some b) ->
       base s + i < length subm /\ flush_events b = ev_lines (nth (base s + i) subm []);
  G8 : Permutation (map bseq (bag s) ++ present_seqs (base s) (ordering s)) (seq (base s) (length subm - base s)) /\ base s <= length subm;
  G9 : match pc s with
       | RTok => exists top lower, local s = top :: lower /\ bseq top = length subm /\ seqn s = S (length subm) /\ length (blines top) < B /\
                                   (input s = [] -> blines top = [] /\ base s = length subm)
       | RMoveA => local s = [] /\ seqn s = length subm /\ input s <> []
       | RMoveF _ => local s = [] /\ seqn s = length subm
       | RWait _ => seqn s = length subm
       | RDrain | RDone => input s = [] /\ pending s = [] /\ base s = length subm
       end;
  G10 : out s ++ ev_lines (concat (skipn (base s) subm)) ++ ev_lines (pending s) ++ tail_mark (pc s) = sequential consumed;
  G11 : Forall wf_line (concat subm) /\ Forall wf_line (pending s);
  G12 : forall l, last (input s) EndSection <> Line l
}.
Definition Inv (s : st) : Prop := exists subm consumed, PInv subm consumed s /\ front_none (ordering s).


Lemma skipn_nth : forall A (l : list A) n d, n < length l -> skipn n l = nth n l d :: skipn (S n) l.
Proof. induction l as [|h t IH]; intros [|n] d H; simpl in *; try lia; auto. apply IH. lia. Qed.
Lemma Forall_concat_nth : forall A (P : A -> Prop) (l : list (list A)) n, Forall P (concat l) -> Forall P (nth n l []).
Proof.
  induction l as [|h t IH]; intros [|n] H; simpl in *; auto.
  - apply Forall_app in H. tauto.
  - apply Forall_app in H. apply IH. tauto.
Qed.

Ltac fields := cbn [crashed input local home bag ordering base out pc seqn].
Ltac pend := cbn [pending pc local tail_mark crashed input home bag ordering base out seqn].
Ltac fields_in H := cbn [crashed input local home bag ordering base out pc seqn] in H.

Definition with_out (s : st) (ord : list (option batch)) (bs : nat) (o : list event) (hm : list batch) : st :=
  mkst (input s) (seqn s) (local s) hm (bag s) ord bs o (pc s) (crashed s).

Lemma drain_inv : forall ord s subm consumed, PInv subm consumed s -> ordering s = ord ->
  let '(ord', bs, o, hm) := drain cfg ord (base s) (out s) (home s) in
  PInv subm consumed (with_out s ord' bs o hm) /\ front_none ord'.
Proof.
  induction ord as [|[b|] t IH]; intros s subm consumed HP Ho; simpl.
  - split; [|exact I]. destruct s; simpl in *; subst; exact HP.
  - (* front present: flush it, hand the batch back, advance base_sequence_ *)
    set (s1 := with_out s t (S (base s)) (out s ++ flush_events b) (home s ++ [flushed cfg b])).
    assert (H1 : PInv subm consumed s1).
    { destruct HP as [P0 P1 P3 P4 P5 P6 P8 P9 P10 P11 P12]. rewrite Ho in *.
      destruct (P6 0 b eq_refl) as [Hlt Hfl]. rewrite Nat.add_0_r in Hlt, Hfl.
      unfold s1, with_out. constructor; fields; auto.
      - simpl in P3. rewrite app_length. simpl. lia.
      - destruct P4 as (A & Bh & C). repeat split; auto. apply Forall_app. split; [exact Bh|].
        constructor; [|constructor]. split; reflexivity.
      - intros i b' Hn. destruct (P6 (S i) b' Hn) as [X Y]. replace (S (base s) + i) with (base s + S i) by lia. auto.
      - destruct P8 as [Pp Ple]. simpl in Pp. split; [|lia].
        replace (length subm - base s) with (S (length subm - S (base s))) in Pp by lia. simpl in Pp.
        apply Permutation_sym in Pp. apply Permutation_cons_app_inv in Pp. apply Permutation_sym. exact Pp.
      - destruct (pc s); auto.
        + destruct P9 as (top & lower & E1 & E2 & E3 & E4 & E5). exists top, lower. repeat split; auto; destruct (E5 H); auto. lia.
        + destruct P9 as (E1 & E2 & E3). lia.
        + destruct P9 as (E1 & E2 & E3). lia.
      - unfold pending in *. fields. rewrite <- P10. rewrite (skipn_nth _ subm (base s) []) by exact Hlt.
        cbn [concat]. rewrite ev_lines_app, Hfl, <- !app_assoc. reflexivity. }
    specialize (IH s1 subm consumed H1 eq_refl). unfold s1, with_out in IH. fields_in IH. unfold with_out.
    destruct (drain cfg t (S (base s)) (out s ++ flush_events b) (home s ++ [flushed cfg b])) as [[[ord' bs] o] hm].
    exact IH.
  - split; [|exact I]. destruct s; simpl in *; subst; exact HP.
Qed.


Lemma arrive_inv : forall s i s', Inv s -> arrive cfg s i = Some s' -> Inv s'.
Proof.
  intros s i s' (subm & consumed & HP & Hfront) Ha. unfold arrive in Ha.
  destruct (nth_error (bag s) i) as [b|] eqn:Hn; [|discriminate].
  pose proof HP as [P0 P1 P3 P4 P5 P6 P8 P9 P10 P11 P12].
  pose proof (remove_nth_perm _ _ _ _ Hn) as Hperm.
  assert (Hin : In b (bag s)) by (eapply nth_error_In; eassumption).
  destruct P4 as (C1 & C2 & C3).
  assert (Hcl : clean b) by (rewrite Forall_forall in C3; auto).
  assert (Hb5 : bseq b < length subm /\ blines b = nth (bseq b) subm []) by (rewrite Forall_forall in P5; auto).
  destruct Hb5 as [Hlt Hlines].
  assert (Hwl : Forall wf_line (blines b)) by (rewrite Hlines; apply Forall_concat_nth; apply P11).
  destruct (filter_clean_batch b Hcl Hwl) as (b' & Hcf & (Hid & Hseq & Hbl) & Hfl).
  rewrite Hcf in Ha.
  destruct P8 as [Pp Ple].
  (* the sequence number of an in-flight batch is at least base_sequence_, and its position in the deque is free *)
  assert (Hge : base s <= bseq b).
  { assert (In (bseq b) (seq (base s) (length subm - base s))).
    { eapply Permutation_in; [exact Pp|]. apply in_or_app. left. apply in_map. exact Hin. }
    apply in_seq in H. lia. }
  assert (Hltb : (bseq b' <? base s) = false) by (apply Nat.ltb_ge; lia).
  rewrite Hltb in Ha.
  set (pos := bseq b' - base s) in *.
  assert (Hpos : base s + pos = bseq b) by (unfold pos; lia).
  assert (Hfree : nth_error (ordering s) pos = None \/ nth_error (ordering s) pos = Some None).
  { destruct (nth_error (ordering s) pos) as [[y|]|] eqn:E; auto. exfalso.
    pose proof (in_present _ (base s) _ _ E) as Hi. rewrite Hpos in Hi.
    assert (Hnd : NoDup (map bseq (bag s) ++ present_seqs (base s) (ordering s))).
    { eapply Permutation_NoDup; [apply Permutation_sym; exact Pp|apply seq_NoDup]. }
    assert (Hp2 : Permutation (map bseq (bag s) ++ present_seqs (base s) (ordering s))
                              (bseq b :: map bseq (remove_nth (bag s) i) ++ present_seqs (base s) (ordering s))).
    { change (bseq b :: map bseq (remove_nth (bag s) i) ++ present_seqs (base s) (ordering s))
        with (map bseq (b :: remove_nth (bag s) i) ++ present_seqs (base s) (ordering s)).
      apply Permutation_app_tail. apply Permutation_map. apply Permutation_sym. exact Hperm. }
    eapply Permutation_NoDup in Hnd; [|exact Hp2]. inversion Hnd as [|? ? Hnotin _]; subst.
    apply Hnotin. apply in_or_app. right. exact Hi. }
  set (s2 := mkst (input s) (seqn s) (local s) (home s) (remove_nth (bag s) i) (put (ordering s) pos b') (base s) (out s) (pc s) (crashed s)).
  assert (H2 : PInv subm consumed s2).
  { unfold s2. constructor; fields; auto.
    - rewrite (Permutation_length (put_present _ pos (base s) b' Hfree)). simpl.
      pose proof (remove_nth_length _ _ _ _ Hn). lia.
    - repeat split; auto. apply remove_nth_Forall. exact C3.
    - apply remove_nth_Forall. exact P5.
    - intros j y Hj. destruct (Nat.eq_dec j pos) as [->|Hne].
      + rewrite put_nth_same in Hj. injection Hj as <-. rewrite Hpos. split; [exact Hlt|]. rewrite Hfl, Hlines. reflexivity.
      + apply put_nth_other in Hj; [|exact Hne]. apply P6. exact Hj.
    - split; [|exact Ple].
      eapply perm_trans; [apply Permutation_app_head; apply put_present; exact Hfree|].
      rewrite Hpos. eapply perm_trans; [apply Permutation_sym; apply Permutation_middle|].
      eapply perm_trans; [|exact Pp].
      change (bseq b :: map bseq (remove_nth (bag s) i) ++ present_seqs (base s) (ordering s))
        with (map bseq (b :: remove_nth (bag s) i) ++ present_seqs (base s) (ordering s)).
      apply Permutation_app_tail. apply Permutation_map. exact Hperm. }
  pose proof (drain_inv _ s2 subm consumed H2 eq_refl) as Hd. unfold s2 in Hd. fields_in Hd.
  destruct (drain cfg (put (ordering s) pos b') (base s) (out s) (home s)) as [[[ord' bs] o] hm].
  unfold with_out in Hd. fields_in Hd.
  injection Ha as <-. destruct Hd as [Hd1 Hd2]. exists subm, consumed. split; [exact Hd1|exact Hd2].
Qed.

Lemma skipn_app_le : forall A (l r : list A) n, n <= length l -> skipn n (l ++ r) = skipn n l ++ r.
Proof. induction l as [|h t IH]; intros r [|n] H; simpl in *; try lia; auto. apply IH. lia. Qed.
Lemma last_cons_ne : forall A (x : A) l d, l <> [] -> last (x :: l) d = last l d.
Proof. intros A x [|y l] d H; [congruence|reflexivity]. Qed.

(* the three bookkeeping facts that change when a batch with the next sequence number is submitted *)
Lemma submit_facts : forall subm consumed s x top',
  PInv subm consumed s -> bseq top' = length subm -> blines top' = x ->
  Forall (fun b => bseq b < length (subm ++ [x]) /\ blines b = nth (bseq b) (subm ++ [x]) []) (bag s ++ [top']) /\
  (forall i b, nth_error (ordering s) i = Some (Some b) ->
     base s + i < length (subm ++ [x]) /\ flush_events b = ev_lines (nth (base s + i) (subm ++ [x]) [])) /\
  (Permutation (map bseq (bag s ++ [top']) ++ present_seqs (base s) (ordering s))
               (seq (base s) (length (subm ++ [x]) - base s)) /\ base s <= length (subm ++ [x])) /\
  ev_lines (concat (skipn (base s) (subm ++ [x]))) = ev_lines (concat (skipn (base s) subm)) ++ ev_lines x.
Proof.
  intros subm consumed s x top' [P0 P1 P3 P4 P5 P6 P8 P9 P10 P11 P12] Hs Hx.
  destruct P8 as [Pp Ple]. rewrite app_length. simpl. repeat split.
  - apply Forall_app. split.
    + eapply Forall_impl; [|exact P5]. intros b [Hb1 Hb2]. split; [lia|]. rewrite app_nth1 by exact Hb1. exact Hb2.
    + constructor; [|constructor]. rewrite Hs. split; [lia|]. rewrite app_nth2 by lia. rewrite Nat.sub_diag. simpl. exact Hx.
  - destruct (P6 i b H). lia.
  - destruct (P6 i b H) as [Hl Hf]. rewrite app_nth1 by exact Hl. exact Hf.
  - replace (length subm + 1 - base s) with (S (length subm - base s)) by lia. rewrite seq_S.
    replace (base s + (length subm - base s)) with (length subm) by lia.
    rewrite map_app. simpl. rewrite Hs. rewrite <- app_assoc.
    eapply perm_trans; [apply Permutation_app_head; apply Permutation_app_comm|].
    rewrite app_assoc. apply Permutation_app_tail. exact Pp.
  - lia.
  - rewrite skipn_app_le by exact Ple. rewrite concat_app, ev_lines_app. simpl. rewrite app_nil_r. reflexivity.
Qed.

Lemma wf_of_token : forall consumed l rest, toks = consumed ++ Line l :: rest -> wf_line l.
Proof.
  intros consumed l rest E. pose proof Hwf as H. rewrite E in H. apply Forall_app in H. destruct H as [_ H].
  inversion H; subst. assumption.
Qed.

Lemma clean_fill : forall b n, clean b -> clean (fill b n).
Proof. intros b n [H1 H2]. split; assumption. Qed.
Lemma clean_add_line : forall b l, clean b -> clean (add_line b l).
Proof. intros b l [H1 H2]. split; assumption. Qed.

Lemma reader_inv : forall s s', Inv s -> reader_step cfg s = Some s' -> Inv s'.
Proof.
  intros s s' (subm & consumed & HP & Hfront) Hr. unfold reader_step in Hr.
  pose proof HP as [P0 P1 P3 P4 P5 P6 P8 P9 P10 P11 P12].
  destruct P4 as (C1 & C2 & C3). destruct P11 as [W1 W2].
  destruct (pc s) eqn:Hpc.
  - (* RTok *)
    destruct P9 as (top & lower & El & Eseq & Esn & Elen & Eend). rewrite El in *.
    assert (Hpend : pending s = blines top) by (unfold pending; rewrite Hpc, El; reflexivity).
    inversion C1 as [|? ? Ctop Clower]; subst.
    destruct (input s) as [|t rest] eqn:Ein.
    + (* end of input: destructor *)
      injection Hr as <-. destruct (Eend eq_refl) as [Eb Ebase]. rewrite Hpend in P10, W2. cbn [tail_mark] in P10.
      exists subm, consumed. split; [|exact Hfront]. unfold set_reader. constructor; pend; auto.
    + destruct t as [l| |].
      * (* a line *)
        assert (Hwl : wf_line l) by (eapply wf_of_token; rewrite P1; reflexivity).
        assert (Hrest : rest <> []) by (intros ->; apply (P12 l); reflexivity).
        assert (Hlast : forall l0, last rest EndSection <> Line l0).
        { intros l0. rewrite <- (last_cons_ne _ (Line l) rest EndSection Hrest). apply P12. }
        assert (Hcons : toks = (consumed ++ [Line l]) ++ rest) by (rewrite <- app_assoc; exact P1).
        assert (Hseq' : sequential (consumed ++ [Line l]) = sequential consumed ++ line_events l).
        { rewrite sequential_app. simpl. rewrite app_nil_r. reflexivity. }
        rewrite Hpend in P10, W2. cbn [tail_mark] in P10. rewrite app_nil_r in P10.
        destruct (length (blines (add_line top l)) =? bsize cfg) eqn:Efull.
        -- (* the batch is full: submit it *)
           destruct (submit_facts subm consumed s (blines (add_line top l)) (add_line top l) HP Eseq eq_refl) as (F5 & F6 & F8 & F10).
           assert (Wx : Forall wf_line (concat (subm ++ [blines (add_line top l)]))).
           { rewrite concat_app. apply Forall_app. split; [exact W1|]. simpl. rewrite app_nil_r. apply Forall_app. split; [exact W2|]. auto. }
           assert (Hev : ev_lines (blines (add_line top l)) = ev_lines (blines top) ++ line_events l).
           { simpl. rewrite ev_lines_app. unfold ev_lines at 2. simpl. rewrite app_nil_r. reflexivity. }
           destruct lower as [|t2 l2].
           ++ injection Hr as <-. exists (subm ++ [blines (add_line top l)]), (consumed ++ [Line l]).
              split; [|exact Hfront]. unfold set_reader. constructor; fields; auto.
              ** rewrite app_length. simpl in *. lia.
              ** repeat split; auto. apply Forall_app. split; [exact C3|]. constructor; [|constructor]. apply clean_add_line. exact Ctop.
              ** repeat split; auto. rewrite app_length. simpl. lia.
              ** pend. change (ev_lines []) with (@nil event). rewrite F10, Hev, Hseq', <- P10. rewrite !app_nil_r, <- !app_assoc. reflexivity.
              ** split; [exact Wx|]. pend. constructor.
           ++ injection Hr as <-. exists (subm ++ [blines (add_line top l)]), (consumed ++ [Line l]).
              split; [|exact Hfront]. unfold set_reader. constructor; fields; auto.
              ** rewrite app_length. simpl in *. lia.
              ** inversion Clower; subst. repeat split; auto;
                   try (constructor; [apply clean_fill; assumption|assumption]);
                   try (apply Forall_app; split; [exact C3|]; constructor; [|constructor]; apply clean_add_line; exact Ctop).
              ** exists (fill t2 (seqn s)), l2. rewrite app_length. simpl. repeat split; auto; try lia; intros; congruence.
              ** pend. change (ev_lines (blines (fill t2 (seqn s)))) with (@nil event). rewrite F10, Hev, Hseq', <- P10. rewrite !app_nil_r, <- !app_assoc. reflexivity.
              ** split; [exact Wx|]. pend. constructor.
        -- (* room left in the batch *)
           injection Hr as <-. exists subm, (consumed ++ [Line l]).
           split; [|exact Hfront]. unfold set_reader. constructor; fields; auto.
           ** exists (add_line top l), lower. simpl. repeat split; auto; try (intros; congruence).
              apply Nat.eqb_neq in Efull. simpl in Efull. rewrite app_length in *. simpl in *. lia.
           ** pend. cbn [blines add_line]. rewrite ev_lines_app, Hseq', <- P10. unfold ev_lines at 3. simpl.
              rewrite !app_nil_r, <- !app_assoc. reflexivity.
           ** split; [exact W1|]. pend. cbn [blines add_line]. apply Forall_app. split; [exact W2|]. auto.
      * (* EndSection: Flush, then the section mark *)
        simpl in Hr.
        assert (Hcons : toks = (consumed ++ [EndSection]) ++ rest) by (rewrite <- app_assoc; exact P1).
        assert (Hlast : forall l0, last rest EndSection <> Line l0).
        { intros l0. destruct rest as [|r0 rr]; [simpl; discriminate|]. rewrite <- (last_cons_ne _ EndSection (r0 :: rr) EndSection) by discriminate. apply P12. }
        assert (Hseq' : sequential (consumed ++ [EndSection]) = sequential consumed ++ [Mark]).
        { rewrite sequential_app. reflexivity. }
        rewrite Hpend in P10, W2. cbn [tail_mark] in P10. rewrite app_nil_r in P10.
        destruct (submit_facts subm consumed s (blines top) top HP Eseq eq_refl) as (F5 & F6 & F8 & F10).
        assert (Wx : Forall wf_line (concat (subm ++ [blines top]))).
        { rewrite concat_app. apply Forall_app. split; [exact W1|]. simpl. rewrite app_nil_r. exact W2. }
        destruct lower as [|t2 l2]; injection Hr as <-; exists (subm ++ [blines top]), (consumed ++ [EndSection]);
          (split; [|exact Hfront]); unfold set_reader; constructor; fields; auto.
        -- rewrite app_length. simpl in *. lia.
        -- repeat split; auto. apply Forall_app. split; [exact C3|]. constructor; [exact Ctop|constructor].
        -- split; auto. rewrite app_length. simpl. lia.
        -- unfold pending. fields. rewrite F10, Hseq', <- P10. simpl. rewrite <- !app_assoc. reflexivity.
        -- split; [exact Wx|]. pend. constructor.
        -- rewrite app_length. simpl in *. lia.
        -- repeat split; auto. apply Forall_app. split; [exact C3|]. constructor; [exact Ctop|constructor].
        -- rewrite app_length. simpl. lia.
        -- unfold pending. fields. rewrite F10, Hseq', <- P10. simpl. rewrite <- !app_assoc. reflexivity.
        -- split; [exact Wx|]. pend. constructor.
      * (* FlushOnly *)
        simpl in Hr.
        assert (Hcons : toks = (consumed ++ [FlushOnly]) ++ rest) by (rewrite <- app_assoc; exact P1).
        assert (Hlast : forall l0, last rest EndSection <> Line l0).
        { intros l0. destruct rest as [|r0 rr]; [simpl; discriminate|]. rewrite <- (last_cons_ne _ FlushOnly (r0 :: rr) EndSection) by discriminate. apply P12. }
        assert (Hseq' : sequential (consumed ++ [FlushOnly]) = sequential consumed).
        { rewrite sequential_app. simpl. rewrite app_nil_r. reflexivity. }
        rewrite Hpend in P10, W2. cbn [tail_mark] in P10. rewrite app_nil_r in P10.
        destruct (submit_facts subm consumed s (blines top) top HP Eseq eq_refl) as (F5 & F6 & F8 & F10).
        assert (Wx : Forall wf_line (concat (subm ++ [blines top]))).
        { rewrite concat_app. apply Forall_app. split; [exact W1|]. simpl. rewrite app_nil_r. exact W2. }
        destruct lower as [|t2 l2]; injection Hr as <-; exists (subm ++ [blines top]), (consumed ++ [FlushOnly]);
          (split; [|exact Hfront]); unfold set_reader; constructor; fields; auto.
        -- rewrite app_length. simpl in *. lia.
        -- repeat split; auto. apply Forall_app. split; [exact C3|]. constructor; [exact Ctop|constructor].
        -- split; auto. rewrite app_length. simpl. lia.
        -- unfold pending. fields. rewrite F10, Hseq', <- P10. simpl. rewrite !app_nil_r. reflexivity.
        -- split; [exact Wx|]. pend. constructor.
        -- rewrite app_length. simpl in *. lia.
        -- repeat split; auto. apply Forall_app. split; [exact C3|]. constructor; [exact Ctop|constructor].
        -- rewrite app_length. simpl. lia.
        -- unfold pending. fields. rewrite F10, Hseq', <- P10. simpl. rewrite !app_nil_r. reflexivity.
        -- split; [exact Wx|]. pend. constructor.
  - (* RMoveA *)
    destruct P9 as (El & Esn & Ein). destruct (home s) as [|h hm] eqn:Eh; [discriminate|]. rewrite El in Hr. simpl in Hr.
    injection Hr as <-. inversion C2; subst.
    assert (Hpend : pending s = []) by (unfold pending; rewrite Hpc; reflexivity).
    rewrite Hpend in P10, W2. cbn [tail_mark] in P10.
    exists subm, consumed. split; [|exact Hfront]. unfold set_reader. constructor; fields; auto;
      try solve [rewrite El in P3; simpl in *; lia];
      try solve [exists (fill h (seqn s)), []; simpl; repeat split; auto; try lia; intros; congruence];
      try solve [pend; exact P10];
      try solve [split; [exact W1|]; pend; constructor].
  - (* RMoveF *)
    destruct P9 as (El & Esn). destruct (home s) as [|h hm] eqn:Eh; [discriminate|].
    injection Hr as <-. inversion C2; subst.
    assert (Hpend : pending s = []) by (unfold pending; rewrite Hpc; reflexivity).
    rewrite Hpend in P10, W2.
    exists subm, consumed. split; [|exact Hfront]. unfold set_reader. constructor; fields; auto;
      try solve [rewrite El in *; simpl in *; lia];
      try solve [pend; exact P10];
      try solve [split; [exact W1|]; pend; constructor].
  - (* RWait *)
    assert (Hpend : pending s = []) by (unfold pending; rewrite Hpc; reflexivity).
    rewrite Hpend in P10, W2.
    destruct (length (local s) <? nbatch cfg) eqn:Elt.
    + destruct (home s) as [|h hm] eqn:Eh; [discriminate|].
      injection Hr as <-. inversion C2; subst.
      exists subm, consumed. split; [|exact Hfront]. unfold set_reader. constructor; fields; auto;
        try solve [simpl in *; lia];
        try solve [pend; exact P10];
        try solve [split; [exact W1|]; pend; constructor].
    + (* every batch is back: NewInput, then (EndLength) the section mark *)
      apply Nat.ltb_ge in Elt. simpl in Elt.
      assert (Hh : home s = []) by (destruct (home s); [reflexivity|simpl in P3; lia]).
      assert (Hb : bag s = []) by (destruct (bag s); [reflexivity|simpl in P3; lia]).
      assert (Hp : present_seqs (base s) (ordering s) = []) by (destruct (present_seqs (base s) (ordering s)); [reflexivity|simpl in P3; lia]).
      destruct P8 as [Pp Ple]. rewrite Hb, Hp in Pp. simpl in Pp.
      assert (Hbase : base s = length subm).
      { apply Permutation_length in Pp. rewrite seq_length in Pp. simpl in Pp. lia. }
      destruct (local s) as [|t2 l2] eqn:El; [simpl in Elt; lia|]. simpl in Hr. injection Hr as <-.
      inversion C1; subst.
      rewrite Hbase, skipn_all in P10. simpl in P10.
      exists subm, consumed. split; [|exact Hfront]. unfold set_reader. constructor; fields; auto;
        try solve [repeat split; auto; constructor; [apply clean_fill; assumption|assumption]];
        try solve [rewrite Hb, Hp; simpl; split; [exact Pp|lia]];
        try solve [exists (fill t2 (seqn s)), l2; simpl; repeat split; auto; lia];
        try solve [split; [exact W1|]; pend; constructor].
      pend. change (ev_lines (blines (fill t2 (seqn s)))) with (@nil event). rewrite Hbase, skipn_all. simpl. rewrite app_nil_r.
      destruct mark; simpl in *; rewrite ?app_nil_r in *; exact P10.
  - (* RDrain *)
    destruct (bag s) eqn:Eb; [|discriminate]. injection Hr as <-.
    assert (Hpend : pending {| input := input s; seqn := seqn s; local := local s; home := home s; bag := []; ordering := ordering s;
                               base := base s; out := out s; pc := RDone; crashed := crashed s |} = pending s).
    { unfold pending. fields. rewrite Hpc. reflexivity. }
    exists subm, consumed. split; [|exact Hfront]. unfold set_reader. constructor; fields; auto;
      try solve [rewrite Eb in P3; exact P3];
      try solve [rewrite Hpend; auto].
  - discriminate.
Qed.

Lemma step_inv : forall s t s', Inv s -> step cfg s t = Some s' -> Inv s'.
Proof.
  intros s t s' HI Hs. unfold step in Hs. destruct (crashed s); [discriminate|].
  destruct t; [eapply reader_inv|eapply arrive_inv]; eassumption.
Qed.

Lemma fresh_clean : forall n, Forall clean (fresh n).
Proof. induction n; simpl; constructor; auto. split; reflexivity. Qed.
Lemma fresh_length : forall n, length (fresh n) = n.
Proof. induction n; simpl; auto. Qed.

Lemma init_inv : Inv (init cfg toks).
Proof.
  unfold init. simpl. destruct Q as [|q] eqn:EQ; [lia|]. simpl.
  exists [], []. split; [|exact I]. constructor; fields; simpl; auto;
    try solve [rewrite fresh_length; lia];
    try solve [repeat split; auto; constructor; [split; reflexivity|apply fresh_clean]];
    try solve [intros [|i] b H; discriminate];
    try solve [exists (fill (mkbatch q 0 [] [] None) 0), (fresh q); simpl; repeat split; auto; lia];
    try solve [split; constructor].
Qed.

Lemma run_none : forall sched, fold_left (fun o t => match o with Some x => step cfg x t | None => None end) sched None = None.
Proof. induction sched; simpl; auto. Qed.

Lemma reach_inv : forall sched s s', Inv s -> run cfg sched s = Some s' -> Inv s'.
Proof.
  induction sched as [|t sched IH]; intros s s' HI Hr; unfold run in Hr; simpl in Hr.
  - injection Hr as <-. exact HI.
  - destruct (step cfg s t) as [s1|] eqn:E; [|rewrite run_none in Hr; discriminate].
    apply (IH s1); [eapply step_inv; eassumption|exact Hr].
Qed.

Definition reachable (s : st) : Prop := exists sched, run cfg sched (init cfg toks) = Some s.
Lemma reachable_inv : forall s, reachable s -> Inv s.
Proof. intros s [sched H]. eapply reach_inv; [apply init_inv|exact H]. Qed.

(* --- the claimed clauses --- *)
Lemma never_crashes : forall s, reachable s -> crashed s = false.
Proof. intros s H. destruct (reachable_inv s H) as (subm & consumed & HP & _). apply HP. Qed.

(* at every moment what has been written is a prefix of what the sequential filter writes *)
Lemma output_prefix : forall s, reachable s -> exists rest, out s ++ rest = sequential toks.
Proof.
  intros s H. destruct (reachable_inv s H) as (subm & consumed & HP & _).
  destruct HP as [P0 P1 P3 P4 P5 P6 P8 P9 P10 P11 P12].
  rewrite P1, sequential_app, <- P10. rewrite <- !app_assoc. eexists. reflexivity.
Qed.

(* a finished run has written exactly what the sequential filter writes *)
Lemma output_equals_sequential : forall s, reachable s -> done s = true -> out s = sequential toks.
Proof.
  intros s H Hd. destruct (reachable_inv s H) as (subm & consumed & HP & _).
  destruct HP as [P0 P1 P3 P4 P5 P6 P8 P9 P10 P11 P12].
  unfold done in Hd. destruct (pc s) eqn:Hpc; try discriminate.
  destruct P9 as (Ein & Epend & Ebase). rewrite Ein, app_nil_r in P1. subst consumed.
  rewrite Epend, Ebase, skipn_all in P10. simpl in P10. rewrite !app_nil_r in P10. exact P10.
Qed.

(* submitted sequence numbers are dense: the numbers in flight (submitted, not yet flushed) are exactly
   base_sequence_ .. nsub-1, each once; in particular the number the OutputWorker waits for is in flight or arrived *)
Lemma dense_sequence : forall s, reachable s ->
  exists nsub, base s <= nsub /\
               Permutation (map bseq (bag s) ++ present_seqs (base s) (ordering s)) (seq (base s) (nsub - base s)).
Proof.
  intros s H. destruct (reachable_inv s H) as (subm & consumed & HP & _).
  destruct HP as [P0 P1 P3 P4 P5 P6 P8 P9 P10 P11 P12]. exists (length subm). destruct P8 as [Pp Ple]. auto.
Qed.


(* --- no deadlock --- *)
Lemma arrive_some : forall s i b, nth_error (bag s) i = Some b -> exists s', arrive cfg s i = Some s'.
Proof.
  intros s i b H. unfold arrive. rewrite H. destruct (call_filter b 0 (blines b)); [|eauto].
  destruct (bseq b0 <? base s); [eauto|].
  destruct (drain cfg (put (ordering s) (bseq b0 - base s) b0) (base s) (out s) (home s)) as [[[? ?] ?] ?]. eauto.
Qed.

Lemma starved_impossible : forall s subm consumed, PInv subm consumed s -> front_none (ordering s) ->
  bag s = [] -> home s = [] -> length (local s) < Q -> False.
Proof.
  intros s subm consumed [P0 P1 P3 P4 P5 P6 P8 P9 P10 P11 P12] Hf Hb Hh Hl.
  rewrite Hb, Hh in P3. simpl in P3. destruct P8 as [Pp Ple]. rewrite Hb in Pp. simpl in Pp.
  assert (Hn : length (present_seqs (base s) (ordering s)) = length subm - base s).
  { rewrite (Permutation_length Pp). apply seq_length. }
  assert (Hin : In (base s) (present_seqs (base s) (ordering s))).
  { eapply Permutation_in; [apply Permutation_sym; exact Pp|]. apply in_seq. lia. }
  destruct (present_in _ _ _ Hin) as (i & y & Hi & Hy). assert (i = 0) by lia. subst i.
  unfold front_none in Hf. destruct (ordering s) as [|[z|] r]; simpl in Hy; try discriminate. exact Hf.
Qed.

Lemma no_deadlock : forall s, reachable s -> done s = false -> exists t s', step cfg s t = Some s'.
Proof.
  intros s H Hd. pose proof (never_crashes s H) as Hc.
  destruct (reachable_inv s H) as (subm & consumed & HP & Hfront).
  pose proof HP as [P0 P1 P3 P4 P5 P6 P8 P9 P10 P11 P12].
  unfold step. rewrite Hc.
  assert (Harr : bag s <> [] -> exists t s', (if false then None else match t with Rd => reader_step cfg s | Arr i => arrive cfg s i end) = Some s').
  { intros Hb. destruct (bag s) as [|b r] eqn:Eb; [congruence|].
    destruct (arrive_some s 0 b) as [s' Hs']; [rewrite Eb; reflexivity|]. exists (Arr 0), s'. exact Hs'. }
  assert (Hstarve : bag s = [] -> home s = [] -> length (local s) < Q -> False) by (eapply starved_impossible; eassumption).
  unfold reader_step in *. unfold done in Hd. rewrite Hc in Hd. simpl in Hd.
  destruct (pc s) eqn:Hpc.
  - destruct P9 as (top & lower & El & _). exists Rd. simpl. rewrite El.
    destruct (input s) as [|[l| |] rest]; [eauto| | |].
    + destruct lower as [|t2 l2]; simpl; destruct (length (blines top ++ [l]) =? B); eauto.
    + destruct lower; eauto.
    + destruct lower; eauto.
  - destruct P9 as (El & _). destruct (home s) as [|h hm] eqn:Eh.
    + destruct (bag s) eqn:Eb; [exfalso; apply Hstarve; auto; rewrite El; simpl; lia|]. apply Harr. discriminate.
    + exists Rd. simpl. destruct (new_input (h :: local s) (seqn s)). eauto.
  - destruct P9 as (El & _). destruct (home s) as [|h hm] eqn:Eh.
    + destruct (bag s) eqn:Eb; [exfalso; apply Hstarve; auto; rewrite El; simpl; lia|]. apply Harr. discriminate.
    + exists Rd. simpl. eauto.
  - destruct (length (local s) <? nbatch cfg) eqn:Elt.
    + apply Nat.ltb_lt in Elt. simpl in Elt. destruct (home s) as [|h hm] eqn:Eh.
      * destruct (bag s) eqn:Eb; [exfalso; apply Hstarve; auto|]. apply Harr. discriminate.
      * exists Rd. simpl. eauto.
    + exists Rd. simpl. destruct (new_input (local s) (seqn s)). eauto.
  - destruct (bag s) eqn:Eb; [exists Rd; simpl; eauto|]. apply Harr. discriminate.
  - discriminate.
Qed.

(* --- termination: a measure that every step decreases --- *)
Definition pc_weight (p : rpc) : nat :=
  match p with RMoveF _ => 4 | RWait _ => 3 | RMoveA => 3 | RTok => 2 | RDrain => 1 | RDone => 0 end.
Definition measure (s : st) : nat :=
  8 * length (input s) + 3 * length (bag s) + 2 * length (present_seqs (base s) (ordering s)) + length (home s) + pc_weight (pc s).

Lemma drain_counts : forall ord bs o hm,
  let '(ord', bs', o', hm') := drain cfg ord bs o hm in
  length hm' + 2 * length (present_seqs bs' ord') <= length hm + 2 * length (present_seqs bs ord).
Proof.
  induction ord as [|[b|] t IH]; intros bs o hm; simpl; try lia.
  specialize (IH (S bs) (o ++ flush_events b) (hm ++ [flushed cfg b])).
  destruct (drain cfg t (S bs) (o ++ flush_events b) (hm ++ [flushed cfg b])) as [[[ord' bs'] o'] hm'].
  rewrite app_length in IH. simpl in IH. lia.
Qed.

Lemma progress_measure : forall s t s', Inv s -> step cfg s t = Some s' -> measure s' < measure s.
Proof.
  intros s t s' (subm & consumed & HP & Hfront) Hs. unfold step in Hs.
  pose proof HP as [P0 P1 P3 P4 P5 P6 P8 P9 P10 P11 P12]. rewrite P0 in Hs. unfold measure.
  destruct t as [|i].
  - unfold reader_step in Hs. destruct (pc s) eqn:Hpc.
    + destruct P9 as (top & lower & El & _). rewrite El in Hs.
      destruct (input s) as [|[l| |] rest] eqn:Ein.
      * injection Hs as <-. simpl. lia.
      * destruct (length (blines (add_line top l)) =? bsize cfg).
        -- destruct lower as [|t2 l2]; injection Hs as <-; simpl; rewrite app_length; simpl; lia.
        -- injection Hs as <-. simpl. lia.
      * simpl in Hs. destruct lower as [|t2 l2]; injection Hs as <-; simpl; rewrite app_length; simpl; lia.
      * simpl in Hs. destruct lower as [|t2 l2]; injection Hs as <-; simpl; rewrite app_length; simpl; lia.
    + destruct (home s) as [|h hm] eqn:Eh; [discriminate|]. destruct (new_input (h :: local s) (seqn s)) eqn:En.
      injection Hs as <-. simpl. lia.
    + destruct (home s) as [|h hm] eqn:Eh; [discriminate|]. injection Hs as <-. simpl. lia.
    + destruct (length (local s) <? nbatch cfg).
      * destruct (home s) as [|h hm] eqn:Eh; [discriminate|]. injection Hs as <-. simpl. lia.
      * destruct (new_input (local s) (seqn s)) eqn:En. injection Hs as <-. simpl. lia.
    + destruct (bag s) eqn:Eb; [|discriminate]. injection Hs as <-. simpl. lia.
    + discriminate.
  - unfold arrive in Hs. destruct (nth_error (bag s) i) as [b|] eqn:Hn; [|discriminate].
    pose proof (remove_nth_length _ _ _ _ Hn) as Hlen.
    destruct (call_filter b 0 (blines b)) as [b'|] eqn:Hcf; [|injection Hs as <-; simpl; lia].
    destruct (bseq b' <? base s) eqn:Hlt; [injection Hs as <-; simpl; lia|].
    (* the position is free (as in arrive_inv), so exactly one more position is present before draining *)
    assert (Hin : In b (bag s)) by (eapply nth_error_In; eassumption).
    destruct P4 as (C1 & C2 & C3). destruct P8 as [Pp Ple].
    assert (Hcl : clean b) by (rewrite Forall_forall in C3; auto).
    assert (Hb5 : bseq b < length subm /\ blines b = nth (bseq b) subm []) by (rewrite Forall_forall in P5; auto).
    assert (Hwl : Forall wf_line (blines b)) by (destruct Hb5 as [_ ->]; apply Forall_concat_nth; apply P11).
    destruct (filter_clean_batch b Hcl Hwl) as (b2 & Hcf2 & (_ & Hseq & _) & _). rewrite Hcf in Hcf2. injection Hcf2 as <-.
    apply Nat.ltb_ge in Hlt.
    set (pos := bseq b' - base s) in *.
    assert (Hpos : base s + pos = bseq b) by (unfold pos; lia).
    assert (Hfree : nth_error (ordering s) pos = None \/ nth_error (ordering s) pos = Some None).
    { destruct (nth_error (ordering s) pos) as [[y|]|] eqn:E; auto. exfalso.
      pose proof (in_present _ (base s) _ _ E) as Hi. rewrite Hpos in Hi.
      assert (Hnd : NoDup (map bseq (bag s) ++ present_seqs (base s) (ordering s))).
      { eapply Permutation_NoDup; [apply Permutation_sym; exact Pp|apply seq_NoDup]. }
      assert (Hp2 : Permutation (map bseq (bag s) ++ present_seqs (base s) (ordering s))
                                (bseq b :: map bseq (remove_nth (bag s) i) ++ present_seqs (base s) (ordering s))).
      { change (bseq b :: map bseq (remove_nth (bag s) i) ++ present_seqs (base s) (ordering s))
          with (map bseq (b :: remove_nth (bag s) i) ++ present_seqs (base s) (ordering s)).
        apply Permutation_app_tail. apply Permutation_map. apply Permutation_sym. apply remove_nth_perm. exact Hn. }
      eapply Permutation_NoDup in Hnd; [|exact Hp2]. inversion Hnd as [|? ? Hnotin _]; subst.
      apply Hnotin. apply in_or_app. right. exact Hi. }
    pose proof (Permutation_length (put_present _ pos (base s) b' Hfree)) as Hput. simpl in Hput.
    pose proof (drain_counts (put (ordering s) pos b') (base s) (out s) (home s)) as Hd.
    destruct (drain cfg (put (ordering s) pos b') (base s) (out s) (home s)) as [[[ord' bs'] o'] hm'].
    injection Hs as <-. simpl. lia.
Qed.

Lemma schedules_bounded : forall sched s s', Inv s -> run cfg sched s = Some s' -> length sched + measure s' <= measure s.
Proof.
  induction sched as [|t sched IH]; intros s s' HI Hr; unfold run in Hr; simpl in Hr.
  - injection Hr as <-. simpl. lia.
  - destruct (step cfg s t) as [s1|] eqn:E; [|rewrite run_none in Hr; discriminate].
    pose proof (progress_measure _ _ _ HI E). pose proof (IH s1 s' (step_inv _ _ _ HI E) Hr). simpl. lia.
Qed.

Lemma terminates : forall sched s, run cfg sched (init cfg toks) = Some s -> length sched <= 8 * length toks + 2.
Proof.
  intros sched s H. pose proof (schedules_bounded _ _ _ init_inv H) as Hb.
  assert (measure (init cfg toks) = 8 * length toks + 2).
  { unfold init, measure. destruct (new_input (fresh (nbatch cfg)) 0). simpl. lia. }
  lia.
Qed.
End Repaired.

(* the hypotheses of the positive theorems are satisfiable: a complete interleaved run of the repaired protocol,
   2 threads (4 batches), batch size 1, two sections, batches recycled, arrivals out of order *)
Definition ex_tokens : list token :=
  [Line (ln 1 6 [ToOne 0]); Line (ln 2 6 [ToOne 0; ToOne 1]); Line (ln 3 6 [ToAll]); EndSection; Line (ln 4 6 [ToOne 1]); EndSection].
Example repaired_run_example :
  Forall wf_token ex_tokens /\ (forall l, last ex_tokens EndSection <> Line l) /\
  exists s, run (mkconfig 4 1 false true) [Rd; Rd; Rd; Arr 2; Arr 1; Rd; Arr 0; Rd; Rd; Rd; Arr 0; Rd; Rd; Rd; Rd; Arr 1; Arr 0; Rd; Rd; Rd; Rd; Rd]
                (init (mkconfig 4 1 false true) ex_tokens) = Some s /\ done s = true /\ out s = sequential ex_tokens.
Proof.
  split; [repeat (apply Forall_cons; [unfold wf_token, wf_line; simpl; first [left; reflexivity | right; reflexivity | exact I]|]); apply Forall_nil|].
  split; [intros l; simpl; discriminate|].
  eexists. split; [vm_compute; reflexivity|]. split; reflexivity.
Qed.
