(* C12 -- proofs about the filter protocol model (FilterModel.v). *)
From Coq Require Import List Arith Lia Bool Permutation.
From Kenlm Require Import C12.FilterModel.
Import ListNotations.

(* ------------------------------------------------------------------------------------------- *)
(* The protocol as it stood before the repairs: three witnesses.                                 *)
Definition unrepaired (threads b : nat) : config := mkconfig (2 * threads) b true false.
Definition repaired (threads b : nat) : config := mkconfig (2 * threads) b false true.
Definition ln (id len : nat) (cs : list call) : line := mkline id len cs.

(* F2: the raw format never called Flush: the last partial batch is never submitted. *)
Definition f2_tokens : list token := [Line (ln 1 3 [ToAll]); Line (ln 2 3 [ToAll]); Line (ln 3 3 [ToAll])].
Lemma count_format_drops_tail :
  exists s, run (unrepaired 2 5) [Rd; Rd; Rd; Rd; Rd] (init (unrepaired 2 5) f2_tokens) = Some s /\
            done s = true /\ out s = [] /\ sequential f2_tokens = [Ev ToAll 1; Ev ToAll 2; Ev ToAll 3].
Proof. eexists. split; [vm_compute; reflexivity|]. repeat split. Qed.

(* F3: a section whose size is a multiple of the batch size leaves an empty pending batch; Flush skips it but NewInput
   has already consumed its sequence number; the OutputWorker waits for that number for ever. *)
Definition f3_tokens : list token := [Line (ln 1 6 [ToOne 0]); EndSection; Line (ln 2 6 [ToAll]); EndSection].
Definition f3_sched : list tid := [Rd; Rd; Arr 0; Rd; Rd; Rd; Rd; Arr 0].
Lemma sequence_gap_deadlock :
  exists s, run (unrepaired 2 1) f3_sched (init (unrepaired 2 1) f3_tokens) = Some s /\
            (forall t, step (unrepaired 2 1) s t = None) /\ done s = false /\ crashed s = false /\
            out s = [Ev (ToOne 0) 1; Mark] /\ base s = 1 /\ map (option_map bseq) (ordering s) = [None; Some 2].
Proof.
  eexists. split; [vm_compute; reflexivity|]. split; [|repeat split].
  intros [|i]; [vm_compute; reflexivity|]. destruct i; reflexivity.
Qed.

(* F4: last_ survives Flush; a recycled batch whose first SingleAddNGram is for a line in the same slot with the same
   length matches the stale pointer and writes through annotated_.back() of an empty vector. *)
Definition f4_tokens : list token :=
  [Line (ln 1 6 [ToOne 0]); Line (ln 2 6 [ToOne 0]); Line (ln 3 6 [ToOne 0]); Line (ln 4 6 [ToOne 0]); Line (ln 5 6 [ToOne 0]); EndSection].
Definition f4_sched : list tid := [Rd; Rd; Rd; Rd; Arr 0; Rd; Rd; Arr 3].
Lemma stale_last_pointer :
  exists s, run (unrepaired 2 1) f4_sched (init (unrepaired 2 1) f4_tokens) = Some s /\ crashed s = true.
Proof. eexists. split; [vm_compute; reflexivity|]. reflexivity. Qed.
(* the same inputs and schedules are harmless in the repaired protocol *)
Lemma witnesses_repaired :
  (exists s, run (repaired 2 5) [Rd; Rd; Rd; Rd; Arr 0; Rd; Rd; Rd; Rd] (init (repaired 2 5) (f2_tokens ++ [FlushOnly])) = Some s /\
             done s = true /\ out s = sequential (f2_tokens ++ [FlushOnly])) /\
  (exists s, run (repaired 2 1) f4_sched (init (repaired 2 1) f4_tokens) = Some s /\ crashed s = false).
Proof. split; eexists; (split; [vm_compute; reflexivity|]); repeat split. Qed.
