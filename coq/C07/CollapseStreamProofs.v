(* C07/CollapseStreamProofs.v -- CollapseStream: whatever the block boundaries, what goes down the chain is (as a multiset)
   exactly the entries without <s> in position 1, each marked according to its own count / words. *)
From Coq Require Import List NArith Bool Arith Lia Sorting.Permutation.
From Kenlm Require Import C07.CountModel C07.CollapseStreamModel.
Import ListNotations.
Local Open Scope N_scope.

Section CollapseProofs.
  Variable threshold : N.
  Variable prune_word : N -> bool.
  Notation mark := (mark threshold prune_word).
  Definition keep (e : ent) : bool := negb (bos2 e).

  Lemma strip_bos_spec : forall rl, exists p, rl = p ++ strip_bos rl /\ forallb bos2 p = true /\
    (strip_bos rl = [] \/ exists y s, strip_bos rl = y :: s /\ bos2 y = false).
  Proof.
    induction rl as [|y r [p [H1 [H2 H3]]]]; simpl.
    - exists []. repeat split; auto.
    - destruct (bos2 y) eqn:E.
      + exists (y :: p). simpl. rewrite E, H2. repeat split; [f_equal; exact H1|exact H3].
      + exists []. repeat split. right. exists y, r. split; [reflexivity|exact E].
  Qed.

  Lemma filter_all_bos : forall p, forallb bos2 p = true -> filter keep p = [].
  Proof.
    induction p as [|x r IH]; simpl; intro H; [reflexivity|]. apply andb_prop in H. destruct H as [H1 H2].
    unfold keep at 1. rewrite H1. simpl. apply IH. exact H2.
  Qed.

  Lemma pop_last_some : forall r y r', pop_last_nonbos r = Some (y, r') ->
    bos2 y = false /\ (length r' < length r)%nat /\ Permutation (filter keep r) (y :: filter keep r').
  Proof.
    intros r y r' H. unfold pop_last_nonbos in H. destruct (strip_bos_spec (rev r)) as [p [H1 [H2 H3]]].
    destruct (strip_bos (rev r)) as [|y0 s] eqn:E; [discriminate|]. inversion H; subst y0 r'; clear H.
    destruct H3 as [H3|[y1 [s1 [H3 H4]]]]; [discriminate|]. inversion H3; subst y1 s1; clear H3.
    assert (Hr : r = rev s ++ y :: rev p).
    { rewrite <- (rev_involutive r), H1, rev_app_distr. simpl. rewrite <- app_assoc. reflexivity. }
    split; [exact H4|]. split.
    - rewrite Hr, app_length. simpl. lia.
    - rewrite Hr, filter_app. simpl. unfold keep at 2. rewrite H4. simpl.
      rewrite (filter_all_bos (rev p)) by (rewrite forallb_forall in *; intros x Hx; apply H2; apply in_rev; exact Hx).
      apply Permutation_sym. apply Permutation_cons_append.
  Qed.

  Lemma pop_last_none : forall r, pop_last_nonbos r = None -> filter keep r = [].
  Proof.
    intros r H. unfold pop_last_nonbos in H. destruct (strip_bos_spec (rev r)) as [p [H1 [H2 _]]].
    destruct (strip_bos (rev r)) eqn:E; [|discriminate]. rewrite app_nil_r in H1.
    apply filter_all_bos. rewrite forallb_forall in *. intros x Hx. apply H2. rewrite <- H1. apply in_rev in Hx. exact Hx.
  Qed.

  Lemma collapse_fuel_perm : forall fuel l, (length l <= fuel)%nat ->
    Permutation (collapse_fuel threshold prune_word fuel l) (map mark (filter keep l)).
  Proof.
    induction fuel as [|f IH]; intros l Hl.
    - destruct l; [constructor|simpl in Hl; lia].
    - destruct l as [|x r]; [constructor|]. simpl in Hl. simpl. unfold keep at 1.
      destruct (bos2 x) eqn:E; simpl.
      + destruct (pop_last_nonbos r) as [[y r']|] eqn:Ep.
        * destruct (pop_last_some _ _ _ Ep) as [_ [Hlen Hp]].
          eapply Permutation_trans; [|apply Permutation_map; apply Permutation_sym; exact Hp].
          simpl. constructor. apply IH. lia.
        * rewrite (pop_last_none _ Ep). constructor.
      + constructor. apply IH. lia.
  Qed.

  Theorem collapse_block_perm : forall l,
    Permutation (collapse_block threshold prune_word l) (map mark (filter keep l)).
  Proof. intro l. apply collapse_fuel_perm. apply Nat.le_refl. Qed.

  (* block boundaries are irrelevant: any split of the stream into blocks passes on the same multiset *)
  Theorem collapse_blocks_perm : forall blocks,
    Permutation (concat (map (collapse_block threshold prune_word) blocks)) (map mark (filter keep (concat blocks))).
  Proof.
    induction blocks as [|b r IH]; simpl; [constructor|].
    rewrite filter_app, map_app. apply Permutation_app; [apply collapse_block_perm|exact IH].
  Qed.

  Theorem collapse_seen_concat : forall blocks,
    concat (map (collapse_seen threshold prune_word) blocks) = map mark (concat blocks).
  Proof. induction blocks as [|b r IH]; simpl; [reflexivity|]. rewrite map_app, IH. reflexivity. Qed.
End CollapseProofs.

(* exercised paths: <s> entries in front are replaced from the back, trailing ones are cut, an all-<s> block becomes empty,
   the copied entry is marked although the stream has not visited it yet *)
Definition E (a b c cnt : N) : ent := {| e_words := [a; b; c]; e_count := cnt; e_marked := false |}.
Example collapse_example :
  collapse_block 1 (fun _ => false) [E 1 1 5 2; E 3 4 5 7; E 1 1 6 1; E 8 9 6 1; E 1 1 7 3] =
  [{| e_words := [8; 9; 6]; e_count := 1; e_marked := true |}; E 3 4 5 7].
Proof. vm_compute. reflexivity. Qed.
Example collapse_all_bos : collapse_block 1 (fun _ => false) [E 1 1 5 2; E 1 1 6 2; E 1 1 7 2] = [].
Proof. vm_compute. reflexivity. Qed.
