(* C07/CountProofs.v -- CorpusCount's Writer: whatever the block capacity, the per-n-gram totals over all blocks are
   the true counts, every block is duplicate-free and within capacity. *)
From Coq Require Import List NArith Bool Arith Lia.
From Kenlm Require Import C07.CountModel.
Import ListNotations.
Local Open Scope N_scope.

Definition gram_eq_dec : forall a b : gram, {a = b} + {a <> b} := list_eq_dec N.eq_dec.

Lemma gram_eqb_eq : forall a b, gram_eqb a b = true <-> a = b.
Proof.
  induction a as [|x r IH]; destruct b as [|y s]; simpl; split; intro H; try reflexivity; try discriminate.
  - apply andb_prop in H. destruct H as [H1 H2]. apply N.eqb_eq in H1. apply IH in H2. congruence.
  - inversion H; subst. rewrite N.eqb_refl. simpl. apply IH. reflexivity.
Qed.

(* total count recorded for g in a list of records *)
Fixpoint gcount (g : gram) (l : list (gram * N)) : N :=
  match l with
  | [] => 0
  | (h, c) :: r => (if gram_eq_dec h g then c else 0) + gcount g r
  end.

Definition occ (g : gram) (gs : list gram) : N := N.of_nat (count_occ gram_eq_dec gs g).
Definition one_if (g g' : gram) (c : N) : N := if gram_eq_dec g g' then c else 0.

Lemma gcount_app : forall g a b, gcount g (a ++ b) = gcount g a + gcount g b.
Proof. induction a as [|[h c] r IH]; intro b; simpl; [reflexivity|]. rewrite IH. lia. Qed.

Lemma gcount_rev : forall g l, gcount g (rev l) = gcount g l.
Proof. induction l as [|[h c] r IH]; simpl; [reflexivity|]. rewrite gcount_app, IH. simpl. lia. Qed.

Lemma occ_snoc : forall g gs g', occ g' (gs ++ [g]) = occ g' gs + one_if g g' 1.
Proof.
  intros g gs g'. unfold occ, one_if. rewrite count_occ_app. simpl.
  destruct (gram_eq_dec g g'); lia.
Qed.

Lemma existsb_gram : forall g t, existsb (gram_eqb g) t = true <-> In g t.
Proof.
  intros g t. rewrite existsb_exists. split.
  - intros [x [H1 H2]]. apply gram_eqb_eq in H2. subst. exact H1.
  - intro H. exists g. split; [exact H|apply gram_eqb_eq; reflexivity].
Qed.

Lemma bump_keys : forall g cur, map fst (bump g cur) = map fst cur.
Proof.
  induction cur as [|[h c] r IH]; simpl; [reflexivity|].
  destruct (gram_eqb h g); simpl; [reflexivity|]. rewrite IH. reflexivity.
Qed.

Lemma bump_count : forall g cur g', In g (map fst cur) -> gcount g' (bump g cur) = gcount g' cur + one_if g g' 1.
Proof.
  induction cur as [|[h c] r IH]; simpl; intros g' Hin; [contradiction|].
  destruct (gram_eqb h g) eqn:E.
  - apply gram_eqb_eq in E. subst h. simpl. unfold one_if. destruct (gram_eq_dec g g'); lia.
  - simpl. rewrite IH; [lia|]. destruct Hin as [Hin|Hin]; [|exact Hin].
    subst h. assert (gram_eqb g g = true) by (apply gram_eqb_eq; reflexivity). congruence.
Qed.

Definition special (g : gram) : Prop := g = [kUNK] \/ g = [kBOS].
Definition all_recs (st : wstate) : list (gram * N) := concat (ws_done st) ++ ws_cur st.
Definition block_ok (cap : nat) (b : list (gram * N)) : Prop := NoDup (map fst b) /\ (length b <= cap)%nat.

Section WriterProofs.
  Variable order : nat.
  Variable cap : nat.
  Hypothesis cap_pos : (1 <= cap)%nat.

  Record inv (st : wstate) (gs : list gram) : Prop := {
    inv_count : forall g, gcount g (all_recs st) = occ g gs;
    inv_nodup : NoDup (map fst (ws_cur st));
    inv_table_sub : forall g, In g (ws_table st) -> In g (map fst (ws_cur st));
    inv_table_sup : forall g, In g (map fst (ws_cur st)) -> In g (ws_table st) \/ special g;
    inv_room : (length (ws_cur st) < cap)%nat;
    inv_done : Forall (block_ok cap) (ws_done st)
  }.

  (* a completed record goes to the next slot or closes the block *)
  Lemma push_inv : forall st gs g c in_table ctx',
    inv st gs -> ~ In g (map fst (ws_cur st)) -> (in_table = true \/ special g) ->
    (forall g', gcount g' (all_recs (push cap st g c in_table ctx')) = gcount g' (all_recs st) + one_if g g' c) /\
    ws_ctx (push cap st g c in_table ctx') = ctx' /\
    (forall gs', (forall g', occ g' gs' = occ g' gs + one_if g g' c) -> inv (push cap st g c in_table ctx') gs').
  Proof.
    intros st gs g c in_table ctx' [Hc Hn Hsub Hsup Hroom Hdone] Hnot Hin. unfold push.
    destruct (Nat.eqb (length ((g, c) :: ws_cur st)) cap) eqn:E.
    - apply Nat.eqb_eq in E.
      assert (Hcount : forall g', gcount g' (all_recs {| ws_done := ws_done st ++ [rev ((g, c) :: ws_cur st)]; ws_cur := []; ws_table := []; ws_ctx := ctx' |})
                               = gcount g' (all_recs st) + one_if g g' c).
      { intro g'. unfold all_recs. simpl ws_done. simpl ws_cur. rewrite concat_app. simpl concat.
        rewrite !app_nil_r. rewrite !gcount_app. change (rev (ws_cur st) ++ [(g, c)]) with (rev ((g, c) :: ws_cur st)).
        rewrite gcount_rev. simpl. unfold one_if. lia. }
      split; [exact Hcount|]. split; [reflexivity|]. intros gs' Hocc. constructor; simpl.
      + intro g'. rewrite Hcount, Hc, Hocc. reflexivity.
      + constructor.
      + intros ? [].
      + intros ? [].
      + lia.
      + apply Forall_app. split; [exact Hdone|]. constructor; [|constructor]. split.
        * change (rev (ws_cur st) ++ [(g, c)]) with (rev ((g, c) :: ws_cur st)). rewrite map_rev.
          apply NoDup_rev. simpl. constructor; assumption.
        * change (rev (ws_cur st) ++ [(g, c)]) with (rev ((g, c) :: ws_cur st)). rewrite rev_length. lia.
    - apply Nat.eqb_neq in E.
      assert (Hcount : forall g', gcount g' (all_recs {| ws_done := ws_done st; ws_cur := (g, c) :: ws_cur st;
                                     ws_table := if in_table then g :: ws_table st else ws_table st; ws_ctx := ctx' |})
                               = gcount g' (all_recs st) + one_if g g' c).
      { intro g'. unfold all_recs. simpl ws_done. simpl ws_cur. rewrite !gcount_app. simpl. unfold one_if. lia. }
      split; [exact Hcount|]. split; [reflexivity|]. intros gs' Hocc. constructor; simpl.
      + intro g'. rewrite Hcount, Hc, Hocc. reflexivity.
      + constructor; assumption.
      + intros g' H. destruct in_table; [destruct H as [H|H]; [left; exact H|right; apply Hsub; exact H]|right; apply Hsub; exact H].
      + intros g' [H|H].
        * subst g'. destruct Hin as [Hin|Hin]; [subst in_table; left; left; reflexivity|right; exact Hin].
        * destruct (Hsup g' H) as [H'|H']; [left; destruct in_table; [right|]; exact H'|right; exact H'].
      + simpl in E. lia.
      + exact Hdone.
  Qed.

  Lemma last_not_special : forall ctx w, w <> kUNK -> w <> kBOS -> ~ special (ctx ++ [w]).
  Proof.
    intros ctx w H0 H1 [H|H]; apply (f_equal (@rev N)) in H; rewrite rev_app_distr in H; simpl in H; inversion H; congruence.
  Qed.

  Lemma append_word_inv : forall st gs w, inv st gs -> w <> kUNK -> w <> kBOS ->
    inv (append_word cap st w) (gs ++ [ws_ctx st ++ [w]]) /\ ws_ctx (append_word cap st w) = tl (ws_ctx st ++ [w]).
  Proof.
    intros st gs w Hinv H0 H1. unfold append_word. set (g := ws_ctx st ++ [w]).
    destruct (existsb (gram_eqb g) (ws_table st)) eqn:E.
    - apply existsb_gram in E. destruct Hinv as [Hc Hn Hsub Hsup Hroom Hdone].
      split; [|reflexivity]. constructor; simpl.
      + intro g'. unfold all_recs. simpl. rewrite gcount_app, bump_count by (apply Hsub; exact E).
        rewrite occ_snoc, <- Hc. unfold all_recs. rewrite gcount_app. lia.
      + rewrite bump_keys. exact Hn.
      + intros g' H. rewrite bump_keys. apply Hsub. exact H.
      + intros g' H. rewrite bump_keys in H. apply Hsup. exact H.
      + assert (length (bump g (ws_cur st)) = length (ws_cur st)) as ->; [|exact Hroom].
        rewrite <- (map_length fst (bump g (ws_cur st))), bump_keys, map_length. reflexivity.
      + exact Hdone.
    - assert (Hnot : ~ In g (map fst (ws_cur st))).
      { intro Hin. destruct (inv_table_sup _ _ Hinv g Hin) as [H|H].
        - apply existsb_gram in H. congruence.
        - revert H. apply last_not_special; assumption. }
      destruct (push_inv st gs g 1 true (tl g) Hinv Hnot (or_introl eq_refl)) as [_ [Hctx Hpush]].
      split; [|exact Hctx]. apply Hpush. intro g'. apply occ_snoc.
  Qed.

  Lemma append_words_inv : forall ws st gs, inv st gs -> (forall w, In w ws -> w <> kUNK /\ w <> kBOS) ->
    inv (fold_left (append_word cap) ws st) (gs ++ grams_from (ws_ctx st) ws).
  Proof.
    induction ws as [|w r IH]; intros st gs Hinv Hw; simpl.
    - rewrite app_nil_r. exact Hinv.
    - destruct (Hw w (or_introl eq_refl)) as [H0 H1].
      destruct (append_word_inv st gs w Hinv H0 H1) as [Hinv' Hctx].
      specialize (IH _ _ Hinv' (fun x Hx => Hw x (or_intror Hx))). rewrite Hctx in IH.
      rewrite <- app_assoc in IH. exact IH.
  Qed.

  Lemma start_sentence_inv : forall st gs, inv st gs -> inv (start_sentence order st) gs.
  Proof. intros st gs [Hc Hn Hsub Hsup Hroom Hdone]. constructor; simpl; assumption. Qed.

  Definition clean (ss : list (list N)) : Prop := forall s w, In s ss -> In w s -> w <> kUNK /\ w <> kBOS.

  Lemma append_sentence_inv : forall st gs s, inv st gs -> (forall w, In w s -> w <> kUNK /\ w <> kBOS) ->
    inv (append_sentence order cap st s) (gs ++ sentence_grams order s).
  Proof.
    intros st gs s Hinv Hs. unfold append_sentence, sentence_grams.
    apply (append_words_inv (s ++ [kEOS]) (start_sentence order st) gs (start_sentence_inv _ _ Hinv)).
    intros w Hw. apply in_app_or in Hw. destruct Hw as [Hw|[Hw|[]]]; [apply Hs; exact Hw|].
    subst w. split; discriminate.
  Qed.

  Lemma sentences_inv : forall ss st gs, inv st gs -> clean ss ->
    inv (fold_left (append_sentence order cap) ss st) (gs ++ corpus_grams order ss).
  Proof.
    induction ss as [|s r IH]; intros st gs Hinv Hc; simpl.
    - rewrite app_nil_r. exact Hinv.
    - unfold corpus_grams. simpl. rewrite app_assoc. apply IH.
      + apply append_sentence_inv; [exact Hinv|]. intros w Hw. apply (Hc s w (or_introl eq_refl) Hw).
      + intros s' w Hs' Hw. apply (Hc s' w (or_intror Hs') Hw).
  Qed.

  Lemma empty_inv : inv {| ws_done := []; ws_cur := []; ws_table := []; ws_ctx := [] |} [].
  Proof. constructor; simpl; try (intros ? []); try constructor; try lia. Qed.

  Lemma init_inv : inv (ws_init order cap) [].
  Proof.
    unfold ws_init. destruct (Nat.eqb order 1); [|exact empty_inv]. unfold add_unigram_word.
    assert (Hocc : forall g g' : gram, occ g' [] = occ g' [] + one_if g g' 0) by (intros; unfold one_if; destruct (gram_eq_dec g g'); lia).
    set (st0 := {| ws_done := []; ws_cur := []; ws_table := []; ws_ctx := [] |}).
    destruct (push_inv st0 [] [kUNK] 0 false (ws_ctx st0) empty_inv (fun H => H) (or_intror (or_introl eq_refl))) as [_ [_ H1]].
    specialize (H1 [] (Hocc [kUNK])).
    set (st1 := push cap st0 [kUNK] 0 false (ws_ctx st0)) in *.
    assert (Hnot : ~ In [kBOS] (map fst (ws_cur st1))).
    { unfold st1, push, st0. simpl. clear. destruct cap as [|[|c]]; simpl; intro H;
        [destruct H as [H|[]]; discriminate|exact H|destruct H as [H|[]]; discriminate]. }
    destruct (push_inv st1 [] [kBOS] 0 false (ws_ctx st1) H1 Hnot (or_intror (or_intror eq_refl))) as [_ [_ H2]].
    exact (H2 [] (Hocc [kBOS])).
  Qed.

  Theorem count_corpus_spec : forall ss, clean ss ->
    (forall g, gcount g (concat (count_corpus order cap ss)) = occ g (corpus_grams order ss)) /\
    Forall (block_ok cap) (count_corpus order cap ss).
  Proof.
    intros ss Hc. unfold count_corpus, ws_finish.
    destruct (sentences_inv ss (ws_init order cap) [] init_inv Hc) as [Hcount Hn _ _ Hroom Hdone]. simpl in Hcount.
    set (st := fold_left (append_sentence order cap) ss (ws_init order cap)) in *.
    split.
    - intro g. rewrite concat_app. simpl. rewrite app_nil_r, gcount_app, gcount_rev. rewrite <- Hcount.
      unfold all_recs. rewrite gcount_app. reflexivity.
    - apply Forall_app. split; [exact Hdone|]. constructor; [|constructor]. split.
      + rewrite map_rev. apply NoDup_rev. exact Hn.
      + rewrite rev_length. lia.
  Qed.
End WriterProofs.

(* satisfiability / exercised paths *)
Example count_example :
  count_corpus 2 3 [[3; 3; 3; 3]; [3; 4]] =
  [[([1; 3], 1); ([3; 3], 3); ([3; 2], 1)]; [([1; 3], 1); ([3; 4], 1); ([4; 2], 1)]; []].
Proof. vm_compute. reflexivity. Qed.
Example count_example_unigram : count_corpus 1 2 [[3; 3]] = [[([0], 0); ([1], 0)]; [([3], 2); ([2], 1)]; []].
Proof. vm_compute. reflexivity. Qed.
