(* Extraction of the C07 executable model (ExtrOcamlBasic only; N/positive/nat stay inductive types). *)
From Coq Require Import NArith ZArith List Extraction ExtrOcamlBasic.
From Kenlm Require Import C07.CountModel C07.CollapseStreamModel.
Extraction Language OCaml.
Extraction "extracted/c07_model.ml" count_corpus corpus_grams collapse_block mark Z.of_N Z.to_N N.of_nat N.to_nat.
