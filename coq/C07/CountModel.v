(* C07/CountModel.v -- executable model of lm/builder/corpus_count.cc (class Writer and the token loop of
   CorpusCount::RunWithVocab), no proofs.

     Writer::Writer        ws_init          (order 1: AddUnigramWord(<unk>), AddUnigramWord(<s>) with count 0, not in the dedupe table)
     Writer::StartSentence start_sentence   (context := order-1 copies of <s>)
     Writer::Append        append_word      (dedupe table lookup; found: ++count, shift; new: count := 1, next slot;
                                             block full: context carried over in buffer_, dedupe_.Clear(), next block)
     Writer::~Writer       ws_finish        (the current block is passed on with its valid size, possibly empty)
     RunWithVocab loop     count_corpus     (per line: StartSentence, Append every word, Append(</s>))
   A block is the list of (n-gram, count) records in memory order.  Vocabulary ids: <unk> = 0, <s> = 1, </s> = 2, words >= 3
   (special words are skipped before Append, CorpusCount::RunWithVocab). *)
From Coq Require Import List NArith Bool Arith.
Import ListNotations.
Local Open Scope N_scope.

Definition gram := list N.
Definition kUNK : N := 0.
Definition kBOS : N := 1.
Definition kEOS : N := 2.

Fixpoint gram_eqb (a b : gram) : bool :=
  match a, b with
  | [], [] => true
  | x :: r, y :: s => (x =? y) && gram_eqb r s
  | _, _ => false
  end.

Record wstate := {
  ws_done : list (list (gram * N));   (* blocks already passed down the chain, oldest first *)
  ws_cur : list (gram * N);           (* records of the current block, NEWEST FIRST *)
  ws_table : list gram;               (* keys in dedupe_ (cleared at every block boundary) *)
  ws_ctx : list N                     (* the order-1 words at gram_.begin() *)
}.

Section Writer.
  Variable order : nat.               (* >= 1 *)
  Variable cap : nat.                 (* entries per block = BlockSize / EntrySize, >= 1 *)

  (* ++count of the record whose key is g *)
  Fixpoint bump (g : gram) (cur : list (gram * N)) : list (gram * N) :=
    match cur with
    | [] => []
    | (h, c) :: r => if gram_eqb h g then (h, c + 1) :: r else (h, c) :: bump g r
    end.

  (* a record has been completed in the current slot; move to the next slot, or to the next block.
     clear = whether the dedupe table is cleared at a block boundary (Append: yes; AddUnigramWord: it is empty anyway) *)
  Definition push (st : wstate) (g : gram) (c : N) (in_table : bool) (ctx' : list N) : wstate :=
    let cur := (g, c) :: ws_cur st in
    if Nat.eqb (length cur) cap
    then {| ws_done := ws_done st ++ [rev cur]; ws_cur := []; ws_table := []; ws_ctx := ctx' |}
    else {| ws_done := ws_done st; ws_cur := cur; ws_table := if in_table then g :: ws_table st else ws_table st; ws_ctx := ctx' |}.

  Definition add_unigram_word (st : wstate) (w : N) : wstate := push st [w] 0 false (ws_ctx st).

  Definition ws_init : wstate :=
    let st0 := {| ws_done := []; ws_cur := []; ws_table := []; ws_ctx := [] |} in
    if Nat.eqb order 1 then add_unigram_word (add_unigram_word st0 kUNK) kBOS else st0.

  Definition start_sentence (st : wstate) : wstate :=
    {| ws_done := ws_done st; ws_cur := ws_cur st; ws_table := ws_table st; ws_ctx := repeat kBOS (order - 1) |}.

  Definition append_word (st : wstate) (w : N) : wstate :=
    let g := ws_ctx st ++ [w] in
    if existsb (gram_eqb g) (ws_table st)
    then {| ws_done := ws_done st; ws_cur := bump g (ws_cur st); ws_table := ws_table st; ws_ctx := tl g |}
    else push st g 1 true (tl g).

  Definition append_sentence (st : wstate) (s : list N) : wstate :=
    fold_left append_word (s ++ [kEOS]) (start_sentence st).

  Definition ws_finish (st : wstate) : list (list (gram * N)) := ws_done st ++ [rev (ws_cur st)].

  Definition count_corpus (sentences : list (list N)) : list (list (gram * N)) :=
    ws_finish (fold_left append_sentence sentences ws_init).
End Writer.

(* ---- the specification: the n-grams of the padded corpus, one per token ---------------------------------------------- *)
Fixpoint grams_from (ctx : list N) (ws : list N) : list gram :=
  match ws with
  | [] => []
  | w :: r => let g := ctx ++ [w] in g :: grams_from (tl g) r
  end.
Definition sentence_grams (order : nat) (s : list N) : list gram := grams_from (repeat kBOS (order - 1)) (s ++ [kEOS]).
Definition corpus_grams (order : nat) (sentences : list (list N)) : list gram := flat_map (sentence_grams order) sentences.
