(* C07/CollapseStreamModel.v -- executable model of class CollapseStream (lm/builder/adjust_counts.cc): what one chain
   block of highest-order n-grams looks like when it is passed on to the next stage.  No proofs.

   The stream visits every entry of the block in order (that is what AdjustCounts reads; each entry is marked for pruning
   when it is first visited).  On the way out (operator++) an entry with <s> in position 1 that still has a non-<s> entry
   behind it is overwritten by the LAST entry of the block that has no <s> in position 1 (copy_from_), copy_from_ moves
   back to the previous such entry (UpdateCopyFrom), and the copy -- which has not been visited yet -- is marked at once.
   At the end of the block everything behind copy_from_ is cut off (SetValidSize).  Functionally:
       x :: r, x without <s>  ->  mark x :: collapse r
       x :: r, x with <s>     ->  r = r' ++ [y] ++ (entries with <s> only):  mark y :: collapse r'      (nothing left: end) *)
From Coq Require Import List NArith Bool Arith.
From Kenlm Require Import C07.CountModel.
Import ListNotations.
Local Open Scope N_scope.

Record ent := { e_words : list N; e_count : N; e_marked : bool }.

(* current_.begin()[1] == kBOS *)
Definition bos2 (e : ent) : bool := nth 1 (e_words e) 0 =? kBOS.

Section Collapse.
  Variable threshold : N.                 (* prune_thresholds_.back() *)
  Variable prune_word : N -> bool.        (* prune_words_ (empty vector = nothing) *)

  (* "Mark highest order n-grams for later pruning" *)
  Definition mark (e : ent) : ent :=
    if (e_count e <=? threshold) || existsb prune_word (e_words e)
    then {| e_words := e_words e; e_count := e_count e; e_marked := true |} else e.

  (* on the reversed rest of the block: UpdateCopyFrom walks back over entries with <s> in position 1 *)
  Fixpoint strip_bos (rl : list ent) : list ent :=
    match rl with [] => [] | y :: r => if bos2 y then strip_bos r else rl end.
  Definition pop_last_nonbos (r : list ent) : option (ent * list ent) :=
    match strip_bos (rev r) with [] => None | y :: r' => Some (y, rev r') end.

  Fixpoint collapse_fuel (fuel : nat) (l : list ent) : list ent :=
    match fuel with
    | O => []
    | S f =>
        match l with
        | [] => []
        | x :: r =>
            if bos2 x
            then match pop_last_nonbos r with
                 | None => []
                 | Some (y, r') => mark y :: collapse_fuel f r'
                 end
            else mark x :: collapse_fuel f r
        end
    end.
  (* the block as it leaves CollapseStream; fuel = number of entries (shown sufficient: the result is complete) *)
  Definition collapse_block (l : list ent) : list ent := collapse_fuel (length l) l.
  (* what AdjustCounts reads *)
  Definition collapse_seen (l : list ent) : list ent := map mark l.
End Collapse.
