(* C07 -- Estimation result is independent of memory budget, block sizes and scheduling.
   The property theorems and nothing else (proofs: C07/CountProofs.v, C07/CanonicalProofs.v, and the C16 development).

   Model: C07/CountModel.v (lm/builder/corpus_count.cc Writer + token loop) and C16/SortModel.v (util/stream/sort.hh).
     count_corpus order cap ss   the blocks CorpusCount passes down a chain whose blocks hold `cap` records
     corpus_grams order ss       the specification: one n-gram per token of the <s>-padded, </s>-terminated sentences
     gcount g recs               total count recorded for n-gram g in a list of records;  occ g gs = occurrences of g in gs
     clean ss                    no sentence contains the ids of <unk> or <s> (CorpusCount skips special words) *)
From Coq Require Import List NArith.
From Kenlm Require Import C07.CountModel C07.CountProofs.
Import ListNotations.
Local Open Scope N_scope.

(* For EVERY block capacity cap >= 1 (i.e. every -S / --block_count / --minimum_block the chain arithmetic can produce):
   the per-n-gram total over all blocks is the true count -- the context carried across a block boundary and the
   dedupe table reset lose and duplicate nothing -- and every block is duplicate-free and within capacity. *)
Theorem C07_corpus_count_block_irrelevant : forall order cap, (1 <= cap)%nat -> forall ss, clean ss ->
  (forall g, gcount g (concat (count_corpus order cap ss)) = occ g (corpus_grams order ss)) /\
  Forall (fun b => NoDup (map fst b) /\ (length b <= cap)%nat) (count_corpus order cap ss).
Proof. exact count_corpus_spec. Qed.

(* hence any two capacities give the same totals *)
Theorem C07_corpus_count_same_totals : forall order cap1 cap2 ss, (1 <= cap1)%nat -> (1 <= cap2)%nat -> clean ss ->
  forall g, gcount g (concat (count_corpus order cap1 ss)) = gcount g (concat (count_corpus order cap2 ss)).
Proof.
  intros order cap1 cap2 ss H1 H2 Hc g.
  rewrite (proj1 (count_corpus_spec order cap1 H1 ss Hc) g), (proj1 (count_corpus_spec order cap2 H2 ss Hc) g). reflexivity.
Qed.
