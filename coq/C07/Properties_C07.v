(* C07 -- Estimation result is independent of memory budget, block sizes and scheduling.
   The property theorems and nothing else (proofs: C07/CountProofs.v, C07/CanonicalProofs.v, and the C16 development).

   Model: C07/CountModel.v (lm/builder/corpus_count.cc Writer + token loop) and C16/SortModel.v (util/stream/sort.hh).
     count_corpus order cap ss   the blocks CorpusCount passes down a chain whose blocks hold `cap` records
     corpus_grams order ss       the specification: one n-gram per token of the <s>-padded, </s>-terminated sentences
     gcount g recs               total count recorded for n-gram g in a list of records;  occ g gs = occurrences of g in gs
     clean ss                    no sentence contains the ids of <unk> or <s> (CorpusCount skips special words) *)
From Coq Require Import List NArith.
From Kenlm Require Import C07.CountModel C07.CountProofs C07.CanonicalProofs C07.CollapseStreamModel C07.CollapseStreamProofs.
From Coq Require Import Sorting.Permutation.
From Kenlm Require Import C16.SortModel C16.MainProofs.
Import ListNotations.
Local Open Scope N_scope.

(* For EVERY block capacity cap >= 1 (i.e. every -S / --block_count / --minimum_block the chain arithmetic can produce):
   the per-n-gram total over all blocks is the true count -- the context carried across a block boundary and the
   dedupe table reset lose and duplicate nothing -- and every block is duplicate-free and within capacity. *)
Theorem C07_corpus_count_block_irrelevant : forall order cap, (1 <= cap)%nat -> forall ss, clean ss ->
  (forall g, gcount g (concat (count_corpus order cap ss)) = occ g (corpus_grams order ss)) /\
  Forall (fun b => NoDup (map fst b) /\ (length b <= cap)%nat) (count_corpus order cap ss).
Proof. exact count_corpus_spec. Qed.

(* hence any two capacities give the same totals *)
Theorem C07_corpus_count_same_totals : forall order cap1 cap2 ss, (1 <= cap1)%nat -> (1 <= cap2)%nat -> clean ss ->
  forall g, gcount g (concat (count_corpus order cap1 ss)) = gcount g (concat (count_corpus order cap2 ss)).
Proof.
  intros order cap1 cap2 ss H1 H2 Hc g.
  rewrite (proj1 (count_corpus_spec order cap1 H1 ss Hc) g), (proj1 (count_corpus_spec order cap2 H2 ss Hc) g). reflexivity.
Qed.

(* The set of n-grams CorpusCount emits, the length of every record and the bound on every count do not mention the
   capacity either (specials = the two count-0 unigrams <unk>, <s> added for order 1). *)
Theorem C07_corpus_count_shape : forall order cap, (1 <= order)%nat -> (1 <= cap)%nat -> forall ss, clean ss ->
  (forall g, In g (map fst (concat (count_corpus order cap ss))) <-> (occ g (corpus_grams order ss) <> 0 \/ In g (specials order))) /\
  (forall r, In r (concat (count_corpus order cap ss)) -> length (fst r) = order /\ snd r <= N.of_nat (length (corpus_grams order ss))).
Proof. exact count_corpus_shape. Qed.

(* lmplz's first stage, CorpusCount >> Sort<SuffixOrder, CombineCounts>, end to end over the two models: for ANY two
   capacities of the counting chain, ANY two accepted sort configurations (buffer_size, total_memory), lazy-memory
   values, modes (Output / Merge-then-Output / StealCompleted) and ANY way the unstable block sort arranges equal
   records, the record sequence handed to the next stage is THE SAME: it is the unique strictly SuffixOrder-increasing
   list carrying the true count of every n-gram (corollary of C16_combiner_dupfree + uniqueness of strictly increasing
   lists + C07_corpus_count_block_irrelevant).  The corpus has fewer than 2^64 tokens. *)
Theorem C07_sort_canonical :
  forall (order : nat) (ss : list (list N)) (es : N),
  (1 <= order)%nat -> clean ss -> N.of_nat (length (corpus_grams order ss)) < 2 ^ 64 ->
  forall cap1 m1 c1 b1 lazy1 runs1 out1 tr1 r1 cap2 m2 c2 b2 lazy2 runs2 out2 tr2 r2,
  (1 <= cap1)%nat -> (1 <= cap2)%nat ->
  sort_ctor es c1 = CtorOk b1 -> sort_ctor es c2 = CtorOk b2 ->
  block_sorted (rec_lt (suffix_lt order)) (count_corpus order cap1 ss) runs1 ->
  block_sorted (rec_lt (suffix_lt order)) (count_corpus order cap2 ss) runs2 ->
  sort_dispatch (rec_lt (suffix_lt order)) (combine_counts order) es m1 b1 (cfg_total c1) lazy1 runs1 = (SortOk out1 tr1, r1) ->
  sort_dispatch (rec_lt (suffix_lt order)) (combine_counts order) es m2 b2 (cfg_total c2) lazy2 runs2 = (SortOk out2 tr2, r2) ->
  out1 = out2.
Proof. exact sort_canonical. Qed.

(* CollapseStream (adjust_counts.cc), the stage that reads the sorted highest-order counts block by block, deletes the
   entries with <s> in position 1 by moving entries up from the back of the same block, and marks entries for pruning
   (count <= threshold, or a pruned word): for EVERY split of the stream into chain blocks
     - what goes down the chain is, as a multiset, exactly the entries without <s> in position 1, each marked according to
       its own count and words (in particular an entry that was moved before the stream visited it is marked too), and
     - what AdjustCounts reads is every entry, in order, marked the same way.
   Neither right-hand side mentions the blocks. *)
Theorem C07_collapse_block_irrelevant : forall threshold prune_word blocks,
  Permutation (concat (map (collapse_block threshold prune_word) blocks))
              (map (mark threshold prune_word) (filter keep (concat blocks))) /\
  concat (map (collapse_seen threshold prune_word) blocks) = map (mark threshold prune_word) (concat blocks).
Proof. intros. split; [apply collapse_blocks_perm|apply collapse_seen_concat]. Qed.
