(* C07/CanonicalProofs.v -- (1) the key set and the shape of CorpusCount's records do not depend on the block capacity;
   (2) therefore (C16: the CombineCounts sort is canonical) what the first sort of lmplz hands to AdjustCounts is the same
   record sequence for every capacity of the counting chain and every accepted sort configuration. *)
From Coq Require Import List NArith Bool Arith Lia Sorting.Sorted Sorting.Permutation.
From Kenlm Require Import C07.CountModel C07.CountProofs.
From Kenlm Require Import C16.SortModel C16.MergeProofs C16.CombineProofs C16.OrderProofs C16.MainProofs.
Import ListNotations.
Local Open Scope N_scope.

Lemma in_gcount_le : forall g c l, In (g, c) l -> c <= gcount g l.
Proof.
  induction l as [|[h d] r IH]; simpl; intro H; [contradiction|]. destruct H as [H|H].
  - inversion H; subst. destruct (gram_eq_dec g g); [lia|contradiction].
  - specialize (IH H). lia.
Qed.

Lemma occ_le_length : forall g gs, occ g gs <= N.of_nat (length gs).
Proof.
  intros g gs. unfold occ. induction gs as [|h r IH]; simpl; [lia|]. destruct (gram_eq_dec h g); lia.
Qed.

Section Shape.
  Variable order : nat.
  Variable cap : nat.
  Hypothesis order_pos : (1 <= order)%nat.
  Hypothesis cap_pos : (1 <= cap)%nat.

  (* the special unigrams CorpusCount adds for order 1 *)
  Definition specials : list gram := if Nat.eqb order 1 then [[kUNK]; [kBOS]] else [].

  Record inv2 (st : wstate) (gs : list gram) : Prop := {
    i2_keys : forall g, In g (map fst (all_recs st)) <-> (occ g gs <> 0 \/ In g specials);
    i2_len : forall r, In r (all_recs st) -> length (fst r) = order
  }.

  Lemma all_recs_push : forall st g c t ctx' r,
    In r (all_recs (push cap st g c t ctx')) <-> r = (g, c) \/ In r (all_recs st).
  Proof.
    intros st g c t ctx' r. unfold push, all_recs.
    destruct (Nat.eqb (length ((g, c) :: ws_cur st)) cap); simpl ws_done; simpl ws_cur.
    - rewrite concat_app. simpl concat. rewrite !app_nil_r, !in_app_iff.
      change (rev (ws_cur st) ++ [(g, c)]) with (rev ((g, c) :: ws_cur st)). rewrite <- in_rev. simpl. intuition.
    - rewrite !in_app_iff. simpl. intuition.
  Qed.

  Lemma push_ctx : forall st g c t ctx', ws_ctx (push cap st g c t ctx') = ctx'.
  Proof. intros. unfold push. destruct (Nat.eqb (length ((g, c) :: ws_cur st)) cap); reflexivity. Qed.

  Lemma keys_push : forall st g c t ctx' g',
    In g' (map fst (all_recs (push cap st g c t ctx'))) <-> g' = g \/ In g' (map fst (all_recs st)).
  Proof.
    intros. rewrite !in_map_iff. split.
    - intros [r [H1 H2]]. apply all_recs_push in H2. destruct H2 as [H2|H2]; [subst r; left; symmetry; exact H1|right; exists r; auto].
    - intros [H|[r [H1 H2]]].
      + exists (g, c). split; [symmetry; exact H|apply all_recs_push; left; reflexivity].
      + exists r. split; [exact H1|apply all_recs_push; right; exact H2].
  Qed.

  Lemma occ_snoc_nz : forall g gs g', occ g' (gs ++ [g]) <> 0 <-> (g' = g \/ occ g' gs <> 0).
  Proof.
    intros g gs g'. rewrite occ_snoc. unfold one_if. destruct (gram_eq_dec g g') as [E|E].
    - subst. split; [intros _; left; reflexivity|intros _; lia].
    - split; [intro H; right; lia|intros [H|H]; [congruence|lia]].
  Qed.

  Lemma bump_recs_keys : forall st g,
    map fst (all_recs {| ws_done := ws_done st; ws_cur := bump g (ws_cur st); ws_table := ws_table st; ws_ctx := tl g |}) = map fst (all_recs st).
  Proof. intros. unfold all_recs. simpl. rewrite !map_app, bump_keys. reflexivity. Qed.

  Lemma append_word_inv2 : forall st gs w, inv cap st gs -> inv2 st gs -> length (ws_ctx st) = (order - 1)%nat ->
    inv2 (append_word cap st w) (gs ++ [ws_ctx st ++ [w]]) /\ length (ws_ctx (append_word cap st w)) = (order - 1)%nat.
  Proof.
    intros st gs w Hinv [Hk Hl] Hctx. unfold append_word. set (g := ws_ctx st ++ [w]).
    assert (Hg : length g = order) by (unfold g; rewrite app_length; simpl; lia).
    assert (Htl : length (tl g) = (order - 1)%nat) by (destruct g; simpl in *; lia).
    destruct (existsb (gram_eqb g) (ws_table st)) eqn:E.
    - split; [|exact Htl]. apply existsb_gram in E.
      assert (Hin : In g (map fst (all_recs st))).
      { unfold all_recs. rewrite map_app, in_app_iff. right. apply (inv_table_sub _ _ _ Hinv). exact E. }
      constructor.
      + intro g'. rewrite bump_recs_keys, occ_snoc_nz, Hk. split; [tauto|].
        intros [[H|H]|H]; [subst g'; apply Hk; exact Hin|left; exact H|right; exact H].
      + intros r Hr. assert (Hr' : In (fst r) (map fst (all_recs st))).
        { rewrite <- (bump_recs_keys st g). apply in_map. exact Hr. }
        apply in_map_iff in Hr'. destruct Hr' as [r' [H1 H2]]. rewrite <- H1. apply Hl. exact H2.
    - split.
      + constructor.
        * intro g'. rewrite keys_push, occ_snoc_nz, Hk. tauto.
        * intros r Hr. apply all_recs_push in Hr. destruct Hr as [Hr|Hr]; [subst r; exact Hg|apply Hl; exact Hr].
      + rewrite push_ctx. exact Htl.
  Qed.

  Lemma append_words_inv2 : forall ws st gs, inv cap st gs -> inv2 st gs -> length (ws_ctx st) = (order - 1)%nat ->
    (forall w, In w ws -> w <> kUNK /\ w <> kBOS) ->
    inv2 (fold_left (append_word cap) ws st) (gs ++ grams_from (ws_ctx st) ws).
  Proof.
    induction ws as [|w r IH]; intros st gs Hinv H2 Hctx Hw; simpl.
    - rewrite app_nil_r. exact H2.
    - destruct (Hw w (or_introl eq_refl)) as [H0 H1].
      destruct (append_word_inv cap cap_pos st gs w Hinv H0 H1) as [Hinv' Hc].
      destruct (append_word_inv2 st gs w Hinv H2 Hctx) as [H2' Hctx'].
      specialize (IH _ _ Hinv' H2' Hctx' (fun x Hx => Hw x (or_intror Hx))). rewrite Hc in IH.
      rewrite <- app_assoc in IH. exact IH.
  Qed.

  Lemma sentences_inv2 : forall ss st gs, inv cap st gs -> inv2 st gs -> clean ss ->
    inv2 (fold_left (append_sentence order cap) ss st) (gs ++ corpus_grams order ss).
  Proof.
    induction ss as [|s r IH]; intros st gs Hinv H2 Hc; simpl.
    - rewrite app_nil_r. exact H2.
    - unfold corpus_grams. simpl. rewrite app_assoc.
      assert (Hs : forall w, In w (s ++ [kEOS]) -> w <> kUNK /\ w <> kBOS).
      { intros w Hw. apply in_app_or in Hw. destruct Hw as [Hw|[Hw|[]]]; [apply (Hc s w (or_introl eq_refl) Hw)|subst w; split; discriminate]. }
      apply IH.
      + apply append_sentence_inv; [exact cap_pos|exact Hinv|]. intros w Hw. apply (Hc s w (or_introl eq_refl) Hw).
      + unfold append_sentence, sentence_grams.
        apply (append_words_inv2 (s ++ [kEOS]) (start_sentence order st) gs (start_sentence_inv order cap _ _ Hinv)).
        * destruct H2 as [Hk Hl]. constructor; assumption.
        * simpl. apply repeat_length.
        * exact Hs.
      + intros s' w Hs' Hw. apply (Hc s' w (or_intror Hs') Hw).
  Qed.

  Lemma init_inv2 : inv2 (ws_init order cap) [].
  Proof.
    unfold ws_init, add_unigram_word. destruct (Nat.eqb order 1) eqn:E.
    - assert (E1 : order = 1%nat) by (apply Nat.eqb_eq; exact E). constructor.
      + intro g. unfold specials. rewrite E. rewrite !keys_push. unfold all_recs. simpl. unfold occ. simpl.
        split; [intros [H|[H|[]]]; right; [right; left|left]; symmetry; exact H|].
        intros [H|[H|[H|[]]]]; [contradiction|right; left; symmetry; exact H|left; symmetry; exact H].
      + intros r Hr. apply all_recs_push in Hr. destruct Hr as [Hr|Hr]; [subst r; simpl; lia|].
        apply all_recs_push in Hr. destruct Hr as [Hr|Hr]; [subst r; simpl; lia|]. unfold all_recs in Hr. simpl in Hr. contradiction.
    - constructor; unfold all_recs; simpl.
      + intro g. unfold specials. rewrite E. unfold occ. simpl. split; [intros []|intros [H|[]]; contradiction].
      + intros r [].
  Qed.

  Lemma final_recs : forall st r, In r (concat (ws_finish st)) <-> In r (all_recs st).
  Proof.
    intros st r. unfold ws_finish, all_recs. rewrite concat_app. simpl. rewrite app_nil_r, !in_app_iff, <- in_rev. tauto.
  Qed.

  (* key set and record shape of everything CorpusCount emits -- no capacity on the right-hand sides *)
  Theorem count_corpus_shape : forall ss, clean ss ->
    (forall g, In g (map fst (concat (count_corpus order cap ss))) <-> (occ g (corpus_grams order ss) <> 0 \/ In g specials)) /\
    (forall r, In r (concat (count_corpus order cap ss)) -> length (fst r) = order /\ snd r <= N.of_nat (length (corpus_grams order ss))).
  Proof.
    intros ss Hc. unfold count_corpus.
    assert (H1 := sentences_inv order cap cap_pos ss (ws_init order cap) [] (init_inv order cap cap_pos) Hc).
    assert (H2 := sentences_inv2 ss (ws_init order cap) [] (init_inv order cap cap_pos) init_inv2 Hc).
    simpl in H1, H2. set (st := fold_left (append_sentence order cap) ss (ws_init order cap)) in *.
    split.
    - intro g. rewrite <- (i2_keys _ _ H2 g). rewrite !in_map_iff. split; intros [r [Hr1 Hr2]]; exists r; (split; [exact Hr1|]); apply final_recs; exact Hr2.
    - intros r Hr. apply final_recs in Hr. split; [apply (i2_len _ _ H2); exact Hr|].
      destruct r as [g c]. simpl. eapply N.le_trans; [apply (in_gcount_le g c); exact Hr|].
      rewrite (inv_count _ _ _ H1 g). apply occ_le_length.
  Qed.
End Shape.

(* ---- records of the right shape: key_n is the n-gram itself -------------------------------------------------------------- *)
Definition wf (n : nat) (a : rec) : Prop := length (fst a) = n /\ snd a < 2 ^ 64.

Lemma key_n_wf : forall n (a : rec), length (fst a) = n -> key_n n a = fst a.
Proof.
  intros n a H. unfold key_n. apply (nth_ext _ _ 0 0).
  - rewrite map_length, seq_length. symmetry. exact H.
  - intros i Hi. rewrite map_length, seq_length in Hi.
    rewrite (nth_indep _ 0 (nth 0 (fst a) 0)) by (rewrite map_length, seq_length; exact Hi).
    change (nth 0 (fst a) 0) with ((fun j => nth j (fst a) 0) 0%nat). rewrite map_nth. rewrite seq_nth by exact Hi. reflexivity.
Qed.

Lemma wf_combine : forall n a b c, wf n a -> wf n b -> combine_counts n a b = Some c -> wf n c.
Proof.
  intros n a b c [Ha _] _ H. unfold combine_counts in H. destruct (words_eqb n (fst a) (fst b)); [|discriminate].
  injection H as Hc. rewrite <- Hc. split; simpl; [exact Ha|]. apply N.mod_lt. discriminate.
Qed.

Lemma wf_det : forall n a b, wf n a -> wf n b -> key_n n a = key_n n b -> snd a = snd b -> a = b.
Proof.
  intros n [ka ca] [kb cb] [Ha _] [Hb _] Hk Hc. simpl in *.
  rewrite (key_n_wf n (ka, ca) Ha), (key_n_wf n (kb, cb) Hb) in Hk. simpl in Hk. congruence.
Qed.

Lemma total_gcount : forall n k l, Forall (wf n) l -> total (key_n n) (list_eq_dec N.eq_dec) snd k l = gcount k l.
Proof.
  intros n k. induction l as [|[g c] r IH]; intro H; simpl; [reflexivity|].
  inversion H as [|? ? Ha Hr]; subst. rewrite (IH Hr). destruct Ha as [Ha _].
  rewrite (key_n_wf n (g, c) Ha). simpl. unfold gram_eq_dec. reflexivity.
Qed.

Lemma keys_wf : forall n l, Forall (wf n) l -> map (key_n n) l = map fst l.
Proof.
  intros n. induction l as [|a r IH]; intro H; simpl; [reflexivity|]. inversion H as [|? ? Ha Hr]; subst.
  rewrite (IH Hr), (key_n_wf n a (proj1 Ha)). reflexivity.
Qed.

(* ---- the statement -------------------------------------------------------------------------------------------------------- *)
Theorem sort_canonical :
  forall (order : nat) (ss : list (list N)) (es : N),
  (1 <= order)%nat -> clean ss -> N.of_nat (length (corpus_grams order ss)) < 2 ^ 64 ->
  forall cap1 m1 c1 b1 lazy1 runs1 out1 tr1 r1 cap2 m2 c2 b2 lazy2 runs2 out2 tr2 r2,
  (1 <= cap1)%nat -> (1 <= cap2)%nat ->
  sort_ctor es c1 = CtorOk b1 -> sort_ctor es c2 = CtorOk b2 ->
  block_sorted (rec_lt (suffix_lt order)) (count_corpus order cap1 ss) runs1 ->
  block_sorted (rec_lt (suffix_lt order)) (count_corpus order cap2 ss) runs2 ->
  sort_dispatch (rec_lt (suffix_lt order)) (combine_counts order) es m1 b1 (cfg_total c1) lazy1 runs1 = (SortOk out1 tr1, r1) ->
  sort_dispatch (rec_lt (suffix_lt order)) (combine_counts order) es m2 b2 (cfg_total c2) lazy2 runs2 = (SortOk out2 tr2, r2) ->
  out1 = out2.
Proof.
  intros order ss es Ho Hc Hlen cap1 m1 c1 b1 lazy1 runs1 out1 tr1 r1 cap2 m2 c2 b2 lazy2 runs2 out2 tr2 r2
         Hcap1 Hcap2 Hc1 Hc2 Hb1 Hb2 E1 E2.
  set (B1 := count_corpus order cap1 ss) in *. set (B2 := count_corpus order cap2 ss) in *.
  destruct (count_corpus_spec order cap1 Hcap1 ss Hc) as [Hcount1 Hok1].
  destruct (count_corpus_spec order cap2 Hcap2 ss Hc) as [Hcount2 Hok2].
  destruct (count_corpus_shape order cap1 Ho Hcap1 ss Hc) as [Hkeys1 Hshape1].
  destruct (count_corpus_shape order cap2 Ho Hcap2 ss Hc) as [Hkeys2 Hshape2].
  fold B1 in Hcount1, Hok1, Hkeys1, Hshape1. fold B2 in Hcount2, Hok2, Hkeys2, Hshape2.
  assert (Hwf1 : Forall (wf order) (concat B1)).
  { rewrite Forall_forall. intros r Hr. destruct (Hshape1 r Hr) as [H1 H2]. split; [exact H1|eapply N.le_lt_trans; [exact H2|exact Hlen]]. }
  assert (Hwf2 : Forall (wf order) (concat B2)).
  { rewrite Forall_forall. intros r Hr. destruct (Hshape2 r Hr) as [H1 H2]. split; [exact H1|eapply N.le_lt_trans; [exact H2|exact Hlen]]. }
  assert (Hsplit : forall B : list (list rec), Forall (wf order) (concat B) -> Forall (Forall (wf order)) B).
  { intros B H. rewrite Forall_forall in *. intros blk Hblk. rewrite Forall_forall. intros r Hr. apply H.
    apply in_concat. exists blk. split; assumption. }
  assert (Hnodup : forall (B : list (list rec)) cap, Forall (wf order) (concat B) -> Forall (block_ok cap) B ->
                   Forall (fun blk => NoDup (map (key_n order) blk)) B).
  { intros B cap Hw Hok. specialize (Hsplit B Hw). rewrite Forall_forall in *. intros blk Hblk.
    rewrite (keys_wf order blk (Hsplit blk Hblk)). apply (Hok blk Hblk). }
  apply (combiner_canonical (rec_lt (suffix_lt order)) (combine_counts order) es (key_n order) (list_eq_dec N.eq_dec) snd (2 ^ 64)
           ltac:(discriminate) (ng_lt_asym (suffix_idx order)) (ng_le_trans (suffix_idx order))
           (ng_combine_spec order) (ng_lt_key order (suffix_idx order) (suffix_covers order))
           (ng_combine_fires order) (ng_equiv_key order (suffix_idx order) (suffix_covers order))
           (wf order) (wf_combine order) (fun a H => proj2 H) (wf_det order)
           m1 c1 b1 lazy1 B1 runs1 out1 tr1 r1 m2 c2 b2 lazy2 B2 runs2 out2 tr2 r2 Hc1 Hc2 Hb1 Hb2
           (Hnodup B1 cap1 Hwf1 Hok1) (Hnodup B2 cap2 Hwf2 Hok2) (Hsplit B1 Hwf1) (Hsplit B2 Hwf2)); try assumption.
  - intro k.
    assert (T1 := total_gcount order k (concat B1) Hwf1). assert (T2 := total_gcount order k (concat B2) Hwf2).
    exact (eq_trans (f_equal (fun x => x mod 2 ^ 64) T1)
             (eq_trans (f_equal (fun x => x mod 2 ^ 64) (eq_trans (Hcount1 k) (eq_sym (Hcount2 k))))
                       (f_equal (fun x => x mod 2 ^ 64) (eq_sym T2)))).
  - intro k.
    assert (K1 := keys_wf order (concat B1) Hwf1). assert (K2 := keys_wf order (concat B2) Hwf2).
    split; intro H.
    + apply (eq_ind_r (fun l => In k l) (proj2 (Hkeys2 k) (proj1 (Hkeys1 k) (eq_ind _ (fun l => In k l) H _ K1))) K2).
    + apply (eq_ind_r (fun l => In k l) (proj2 (Hkeys1 k) (proj1 (Hkeys2 k) (eq_ind _ (fun l => In k l) H _ K2))) K1).
Qed.
