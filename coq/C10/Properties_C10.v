(* C10 -- the property theorems and nothing else.  Each is closed by `exact <lemma>`; vlib runs
   Print Assumptions on every one of them on every check run.
   parse_arpa st file : res model   is the byte-level model of constructing a model of structure st (Probing | Trie)
   from ARPA text (ArpaModel.v); its error classes are the exception classes the driver observes. *)
From Coq Require Import List NArith ZArith Bool.
From Kenlm Require Import Gen.Spaces C10.ArpaModel C10.ArpaProofs C10.TrieArrays.
Import ListNotations.
Local Open Scope N_scope.

(* the loader model terminates on every byte string: fuel is never exhausted (no hang) *)
Theorem C10_parse_terminates : forall st file, parse_arpa st file <> Err OutOfFuel.
Proof. exact parse_arpa_terminates. Qed.

(* accept => the parsed structure satisfies what the query code relies on: order in [2, KENLM_MAX_ORDER], per-order entry
   counts equal to the header, every n-gram has exactly n words, each of them in the vocabulary (or literally <unk>),
   no positive probability (a literal NaN is read as a NaN and accepted, as the code does), finite back-offs, none but zero on the highest order, <s> and </s> present *)
Theorem C10_accept_implies_wellformed : forall st file m, parse_arpa st file = Ok m -> wellformed m.
Proof. exact parse_arpa_wellformed. Qed.

(* a trie load succeeds only if the context of every n-gram (n >= 3) is itself an (n-1)-gram of the file *)
Theorem C10_trie_accept_implies_contexts : forall file m, parse_arpa Trie file = Ok m -> trie_contexts 2 (m_sections m) = true.
Proof. exact trie_accept_contexts. Qed.

(* a probing load succeeds only if every hash table keeps at least one empty bucket (entries < buckets), blanks included:
   the linear probes of the query code terminate (C20) *)
Theorem C10_probing_accept_implies_tables_not_full : forall file m, parse_arpa Probing file = Ok m ->
  tables_ok (map buckets (tl (m_counts m))) (m_tables m).
Proof. exact probing_tables_never_full. Qed.

(* malformed classes map to an error, never to a value *)
Theorem C10_reject_classes :
  (* the empty file *)
  (forall st, parse_arpa st [] = Err EndOfFile) /\
  (* the first line that is neither blank nor a # comment is not \data\ (deleted / corrupted \data\, stray leading bytes) *)
  (forall st file l rest, skip_blank_lines (S (length file)) true file = Ok (l, rest) -> beq l s_data = false ->
                          parse_arpa_text st file = Err Format) /\
  (* fewer than two or more than KENLM_MAX_ORDER count lines *)
  (forall st file counts r, read_arpa_counts file = Ok (counts, r) -> (KENLM_MAX_ORDER < length counts \/ length counts < 2)%nat ->
                            parse_arpa_text st file = Err Format) /\
  (* a section header (deleted, duplicated, reordered section) or the end marker is not where it is expected *)
  (forall n cur l rest, skip_blank_lines (S (length cur)) false cur = Ok (l, rest) -> beq l (92 :: decimal n ++ s_grams_colon) = false ->
                        read_ngram_header n cur = Err Format) /\
  (forall cur l rest, skip_blank_lines (S (length cur)) false cur = Ok (l, rest) -> beq l s_end = false -> read_end cur = Err Format) /\
  (* truncation: only white space is left where a header or \end\ must come *)
  (forall fuel b cur, (forall c, In c cur -> c_isspace c = true) -> (length cur < fuel)%nat -> skip_blank_lines fuel b cur = Err EndOfFile) /\
  (* broken numbers: whatever error the number reader raises is the entry's error; positive log probabilities; a missing tab *)
  (forall n longest words cur e, read_float cur = Err e -> read_ngram n longest words cur = Err e) /\
  (forall n longest words cur v r, read_float cur = Ok (v, r) -> is_positive v = true -> read_ngram n longest words cur = Err Format) /\
  (forall cur v r, read_float cur = Ok (v, r) -> is_positive v = true -> read_1gram cur = Err Format) /\
  (forall cur v r c r1, read_float cur = Ok (v, r) -> is_positive v = false -> get r = Ok (c, r1) -> c <> 9 -> read_1gram cur = Err Format) /\
  (* back-offs: infinite, or non-zero on the highest order *)
  (forall cur r v r1, get cur = Ok (9, r) -> read_float r = Ok (v, r1) -> is_nan_or_inf v = true -> read_backoff_middle cur = Err Format) /\
  (forall cur r v r1, get cur = Ok (9, r) -> read_float r = Ok (v, r1) -> is_zero v = false -> read_backoff_longest cur = Err Format) /\
  (* unknown words *)
  (forall k words cur ids ws w r, read_delimited kARPASpaces cur = Ok (w, r) -> index words w = 0 -> is_unk w = false ->
                                  read_words (S k) words cur ids ws = Err Format).
Proof.
  exact (conj reject_empty_file (conj reject_wrong_first_line (conj reject_order_out_of_range (conj reject_wrong_section_header
        (conj reject_missing_end (conj reject_end_of_input_before_end_marker (conj reject_bad_number_propagates
        (conj reject_positive_probability (conj reject_positive_unigram_probability (conj reject_missing_tab_after_probability
        (conj reject_infinite_backoff (conj reject_nonzero_backoff_on_longest reject_unknown_word)))))))))))).
Qed.

(* file level: an accepted file contains the bytes \end\ ... *)
Theorem C10_accept_implies_end_marker : forall st file m, parse_arpa_text st file = Ok m -> contains s_end file.
Proof. exact accepted_text_contains_end. Qed.

(* ... so every file without them, in particular every truncation firstn k file that cuts before or inside the end marker
   (Example truncation_hypothesis_satisfiable), maps to an error, whatever else it holds *)
Theorem C10_reject_truncated : forall st file k, ~ contains s_end (firstn k file) -> forall m, parse_arpa st (firstn k file) <> Ok m.
Proof. exact reject_truncated. Qed.

Theorem C10_reject_without_end_marker : forall st file, ~ contains s_end file -> forall m, parse_arpa st file <> Ok m.
Proof. exact reject_without_end_marker. Qed.

(* binary files: truncated header, another model type / an unknown type, another search version, order outside
   [2, KENLM_MAX_ORDER] (F: order 0 crashed before commit aad35aa), a probing multiplier that is not >= 1 (F: NaN divided by
   zero before commit 1a90c03) are rejected before any size is computed *)
Theorem C10_binary_reject_classes :
  (forall file req en, (length file < 108)%nat -> check_binary_header file req en = BinReject EndOfFile) /\
  (forall file t en, hdr_type file <> t -> exists e, check_binary_header file (Some t) en = BinReject e) /\
  (forall file en, 6 <= hdr_type file -> exists e, check_binary_header file None en = BinReject e) /\
  (forall file req en, hdr_search_version file <> search_version (hdr_type file) -> exists e, check_binary_header file req en = BinReject e) /\
  (forall file req en, (hdr_order file < 2 \/ 6 < hdr_order file) -> exists e, check_binary_header file req en = BinReject e) /\
  (forall file req en, multiplier_rejected (hdr_multiplier file) = true -> exists e, check_binary_header file req en = BinReject e) /\
  multiplier_rejected 2143289344 = true.
Proof.
  exact (conj binary_reject_short_header (conj binary_reject_wrong_type (conj binary_reject_unknown_type (conj binary_reject_search_version
        (conj binary_reject_order_out_of_range (conj binary_reject_bad_multiplier multiplier_nan_rejected)))))).
Qed.

(* BinaryFormat::LoadBinary maps [0, header + size) over the file.  The size test accepts only if every mapped byte lies inside
   the file, and rejects every file that is short by as little as one byte, the header's bytes included (seeded/C10-5). *)
Theorem C10_binary_accept_implies_mapping_inside_file : forall file_size order size,
  check_binary_size file_size order size = BinUndecided ->
  forall offset, offset < total_header_size order + size -> offset < file_size.
Proof. exact binary_size_accept_inside. Qed.

Theorem C10_binary_reject_short_image : forall file_size order size,
  file_size < total_header_size order + size -> check_binary_size file_size order size = BinReject Format.
Proof. exact binary_size_reject_truncated. Qed.

(* array model of the trie (TrieArrays.v).  Under the invariant trie_ok (as many pointers as records plus an end pointer;
   child ranges monotone and ending inside the array below) a query with in-vocabulary word ids touches only in-range
   indices of every array ... *)
Theorem C10_queries_in_bounds_under_invariant : forall t vocab ngram, trie_ok t vocab ->
  (forall w, In w ngram -> (N.to_nat w < vocab)%nat) -> Forall in_bounds (query t ngram).
Proof. exact queries_in_bounds. Qed.

(* ... the depth-first writer (one record per n-gram or blank, next = size of the level below at that moment, end pointers
   set at the end: WriteEntries + FinishedLoading) establishes it for every tree of n-grams and every order >= 2 ... *)
Theorem C10_writer_establishes_storage_invariant : forall fuel roots k, exists u M more,
  build fuel roots (S k) = u :: M :: more /\
  trie_ok {| t_unigram_next := lv_next u; t_levels := M :: more |} (length (lv_words u)).
Proof. exact build_trie_ok. Qed.

(* ... hence every in-vocabulary query on arrays the writer produced stays in bounds.
   The array model is not part of the differential tie (no hook dumps the C++ arrays): on the C++ side this clause is observed
   by querying every loaded mutant under ASan. *)
Theorem C10_queries_in_bounds : forall fuel roots k u M more ngram,
  build fuel roots (S k) = u :: M :: more ->
  (forall w, In w ngram -> (N.to_nat w < length (lv_words u))%nat) ->
  Forall in_bounds (query {| t_unigram_next := lv_next u; t_levels := M :: more |} ngram).
Proof. exact built_queries_in_bounds. Qed.
