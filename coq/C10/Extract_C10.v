(* Extraction of the C10 executable model (ExtrOcamlBasic only; N/Z/positive/nat stay inductive types). *)
From Coq Require Import NArith ZArith List Extraction ExtrOcamlBasic.
From Kenlm Require Import Gen.Spaces C10.ArpaModel.
Extraction Language OCaml.
Extraction "extracted/c10_model.ml"
  parse_arpa parse_arpa_text is_binary_file check_binary_header check_binary_size total_header_size string_to_float read_float read_arpa_counts
  Z.of_N Z.to_N.   (* Z is needed by the shared driver glue (ocaml/zio.ml.inc) *)
