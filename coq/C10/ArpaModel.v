(* C10 -- executable byte-level model of the ARPA loader's accept / reject behaviour.  No proofs in this file.

   lm/read_arpa.cc      ReadARPACounts, ReadNGramHeader, ReadBackoff (both overloads), ReadEnd
   lm/read_arpa.hh      Read1Gram, Read1Grams, ReadNGram
   util/file_piece.*    ReadLine, get, SkipSpaces, ReadDelimited, ReadFloat (ReadNumber<float> + ParseNumber)
   util/double-conversion/string-to-double.cc   StringToIeee with ALLOW_TRAILING_JUNK | ALLOW_LEADING_SPACES, "inf", "NaN"
   lm/model.cc          IsBinaryFormat dispatch, CheckCounts, order checks, InitializeFromARPA
   lm/vocab.*           Insert (<unk>/<UNK> -> 0), CheckSpecials with the default Config
   lm/search_hashed.cc  ReadNGrams: store.Insert, FindLower (blank insertion), ActivateLowerMiddle, table capacity
   lm/search_trie.cc    the "context must appear" check after the trie has been written

   The file is a byte string read front to back (a regular file smaller than FilePiece's first mapping: at_end_ holds
   after the first Shift).  Configuration = lm::ngram::Config defaults (probing_multiplier 1.5, positive log
   probability and missing <s> / </s> throw, missing <unk> does not).  Word identity is string identity (the 64-bit
   MurmurHash is taken to be injective on the words of the file, and never 0).                                        *)
From Coq Require Import List NArith ZArith Bool.
From Kenlm Require Import Gen.Spaces.
Import ListNotations.
Local Open Scope N_scope.

(* byte-string constants of lm/read_arpa.cc and lm/binary_format.cc (written by a script from the C literals;
   sanity_reference was compared with the first 88 bytes of a binary file produced by the code) *)
Definition s_data : list N := [92; 100; 97; 116; 97; 92].   (* b'\\data\\' *)
Definition s_end : list N := [92; 101; 110; 100; 92].   (* b'\\end\\' *)
Definition s_ngram_sp : list N := [110; 103; 114; 97; 109; 32].   (* b'ngram ' *)
Definition s_grams_colon : list N := [45; 103; 114; 97; 109; 115; 58].   (* b'-grams:' *)
Definition s_unk : list N := [60; 117; 110; 107; 62].   (* b'<unk>' *)
Definition s_UNK : list N := [60; 85; 78; 75; 62].   (* b'<UNK>' *)
Definition s_bos : list N := [60; 115; 62].   (* b'<s>' *)
Definition s_eos : list N := [60; 47; 115; 62].   (* b'</s>' *)
Definition s_inf : list N := [105; 110; 102].   (* b'inf' *)
Definition s_NaN : list N := [78; 97; 78].   (* b'NaN' *)
Definition s_nan : list N := [110; 97; 110].   (* b'nan' *)
Definition magic_incomplete : list N := [109; 109; 97; 112; 32; 108; 109; 32; 104; 116; 116; 112; 58; 47; 47; 107; 104; 101; 97; 102; 105; 101; 108; 100; 46; 99; 111; 109; 47; 99; 111; 100; 101; 32; 105; 110; 99; 111; 109; 112; 108; 101; 116; 101; 10].   (* b'mmap lm http://kheafield.com/code incomplete\n' *)
Definition magic_before_version : list N := [109; 109; 97; 112; 32; 108; 109; 32; 104; 116; 116; 112; 58; 47; 47; 107; 104; 101; 97; 102; 105; 101; 108; 100; 46; 99; 111; 109; 47; 99; 111; 100; 101; 32; 102; 111; 114; 109; 97; 116; 32; 118; 101; 114; 115; 105; 111; 110].   (* b'mmap lm http://kheafield.com/code format version' *)
Definition sanity_reference : list N := [109; 109; 97; 112; 32; 108; 109; 32; 104; 116; 116; 112; 58; 47; 47; 107; 104; 101; 97; 102; 105; 101; 108; 100; 46; 99; 111; 109; 47; 99; 111; 100; 101; 32; 102; 111; 114; 109; 97; 116; 32; 118; 101; 114; 115; 105; 111; 110; 32; 53; 10; 0; 0; 0; 0; 0; 0; 0; 0; 0; 0; 0; 128; 63; 0; 0; 0; 191; 1; 0; 0; 0; 255; 255; 255; 255; 0; 0; 0; 0; 1; 0; 0; 0; 0; 0; 0; 0].   (* 'Sanity header' *)

(* ---- results ------------------------------------------------------------------------------------------------- *)
(* exception classes as the driver reports them; OutOfFuel is the model's own distinct "did not terminate" answer;
   Unmodelled = the input is taken over by code this model does not cover (decompression, the binary loader) *)
Inductive err := EndOfFile | ParseNumber | Format | SpecialWord | ProbingSize | OutOfFuel | Unmodelled.
Inductive res (A : Type) := Ok (a : A) | Err (e : err).
Arguments Ok {A} a.
Arguments Err {A} e.
Definition bind {A B : Type} (r : res A) (f : A -> res B) : res B := match r with Ok a => f a | Err e => Err e end.
Notation "'do' x <- a ; b" := (bind a (fun x => b)) (at level 200, x pattern, a at level 100, b at level 200).

(* ---- bytes ------------------------------------------------------------------------------------------------------ *)
(* the byte values a regenerated table marks, computed once (tokens can be megabytes long: no unary table walk per byte);
   ArpaProofs.table_codes_agree: the same function as the table lookup nth (N.to_nat b) table false *)
Fixpoint codes_of (t : list bool) (i : N) : list N :=
  match t with [] => [] | true :: r => i :: codes_of r (i + 1) | false :: r => codes_of r (i + 1) end.
Definition kSpaces_codes : list N := codes_of kSpaces_table 0.
Definition kARPASpaces_codes : list N := codes_of kARPASpaces_table 0.
Definition kSpaces (b : N) : bool := existsb (N.eqb b) kSpaces_codes.
Definition kARPASpaces (b : N) : bool := existsb (N.eqb b) kARPASpaces_codes.
(* isspace in the C locale; also double-conversion's isWhitespace below 128 *)
Definition c_isspace (b : N) : bool := (9 <=? b) && (b <=? 13) || (b =? 32).
Definition is_digit (b : N) : bool := (48 <=? b) && (b <=? 57).

Fixpoint beq (a b : list N) : bool :=
  match a, b with
  | [], [] => true
  | x :: a', y :: b' => (x =? y) && beq a' b'
  | _, _ => false
  end.
Fixpoint starts_with (p s : list N) : bool :=
  match p, s with
  | [], _ => true
  | x :: p', y :: s' => (x =? y) && starts_with p' s'
  | _, [] => false
  end.
Fixpoint cut_nul (s : list N) : list N := match s with [] => [] | c :: r => if c =? 0 then [] else c :: cut_nul r end.
Fixpoint skip_while (f : N -> bool) (s : list N) : list N :=
  match s with [] => [] | c :: r => if f c then skip_while f r else s end.
Fixpoint take_while (f : N -> bool) (s : list N) : list N :=
  match s with [] => [] | c :: r => if f c then c :: take_while f r else [] end.

(* ---- util::FilePiece ---------------------------------------------------------------------------------------------- *)
Definition cursor := list N.

(* bytes before the first '\n'; Some rest after it, None when the file ends first *)
Fixpoint take_line (s : list N) : list N * option (list N) :=
  match s with
  | [] => ([], None)
  | c :: r => if c =? 10 then ([], Some r) else let '(l, a) := take_line r in (c :: l, a)
  end.
(* one trailing carriage return is dropped (linear: lines can be megabytes long) *)
Fixpoint strip_cr (l : list N) : list N :=
  match l with
  | [] => []
  | c :: r => match r with [] => if c =? 13 then [] else [c] | _ :: _ => c :: strip_cr r end
  end.

(* ReadLine('\n', strip_cr = true) *)
Definition read_line (cur : cursor) : res (list N * cursor) :=
  match cur with
  | [] => Err EndOfFile
  | _ => match take_line cur with
         | (l, Some rest) => Ok (strip_cr l, rest)
         | (l, None) => Ok (l, [])            (* Consume(position_end_): the carriage return stays *)
         end
  end.

Definition get (cur : cursor) : res (N * cursor) :=
  match cur with [] => Err EndOfFile | c :: r => Ok (c, r) end.

(* SkipSpaces(delim): running into the end of the file calls Shift(), which throws *)
Definition skip_spaces (delim : N -> bool) (cur : cursor) : res cursor :=
  match skip_while delim cur with [] => Err EndOfFile | r => Ok r end.

(* ReadDelimited(delim) *)
Definition read_delimited (delim : N -> bool) (cur : cursor) : res (list N * cursor) :=
  do r <- skip_spaces delim cur;
  Ok (take_while (fun c => negb (delim c)) r, skip_while (fun c => negb (delim c)) r).

(* ---- double-conversion StringToFloat ----------------------------------------------------------------------------- *)
Inductive fval := FZero (neg : bool) | FFin (neg : bool) | FInf (neg : bool) | FNaN.

Definition digit_val (c : N) : Z := Z.of_N c - 48.
Definition kMaxSignificantDigits : nat := 772.

(* integer digits: up to 772 go to the buffer (as a number), later ones only move the exponent.
   state: (mantissa, significant count, insignificant count, nonzero digit dropped) *)
Fixpoint int_digits (s : list N) (m : Z) (sig : nat) (insig : Z) (dropped : bool) : Z * nat * Z * bool * list N :=
  match s with
  | c :: r => if is_digit c
              then if Nat.ltb sig kMaxSignificantDigits
                   then int_digits r (m * 10 + digit_val c) (S sig) insig dropped
                   else int_digits r m sig (insig + 1) (dropped || negb (c =? 48))
              else (m, sig, insig, dropped, s)
  | [] => (m, sig, insig, dropped, s)
  end.
(* fraction digits: significant ones lower the exponent *)
Fixpoint frac_digits (s : list N) (m : Z) (sig : nat) (e : Z) (dropped : bool) : Z * nat * Z * bool * list N :=
  match s with
  | c :: r => if is_digit c
              then if Nat.ltb sig kMaxSignificantDigits
                   then frac_digits r (m * 10 + digit_val c) (S sig) (e - 1) dropped
                   else frac_digits r m sig e (dropped || negb (c =? 48))
              else (m, sig, e, dropped, s)
  | [] => (m, sig, e, dropped, s)
  end.
(* leading zeros of a fraction whose integer part is absent or zero: each moves the exponent *)
Fixpoint frac_zeros (s : list N) (e : Z) : Z * list N :=
  match s with
  | c :: r => if c =? 48 then frac_zeros r (e - 1) else (e, s)
  | [] => (e, s)
  end.
Definition max_exponent : Z := 1073741823.        (* INT_MAX / 2 *)
Fixpoint exp_digits (s : list N) (num : Z) : Z * list N :=
  match s with
  | c :: r => if is_digit c then exp_digits r (Z.min max_exponent (num * 10 + digit_val c)) else (num, s)
  | [] => (num, s)
  end.

(* float32 classification of mant * 10^e (mant >= 0), round to nearest even:
   zero iff value <= 2^-150; infinite iff value >= 2^128 - 2^103.  The guards keep the powers small. *)
(* an estimate of the number of decimal digits of m > 0: 10^(dec_digits m - 2) <= m < 10^(dec_digits m + 1) *)
Definition dec_digits (m : Z) : Z := (Z.log2 m * 30103 / 100000 + 1)%Z.
Definition classify (neg : bool) (m e : Z) : fval :=
  if (m =? 0)%Z then FZero neg
  else
    let nd := dec_digits m in      (* 10^(nd-2) <= m < 10^(nd+1) is all that is used *)
    if (nd + 1 + e <=? -46)%Z then FZero neg
    else if (41 <=? nd - 2 + e)%Z then FInf neg
    else
      let inf_threshold := ((2 ^ 25 - 1) * 2 ^ 103)%Z in
      let ge_inf := if (0 <=? e)%Z then (inf_threshold <=? m * 10 ^ e)%Z else (inf_threshold * 10 ^ (- e) <=? m)%Z in
      if ge_inf then FInf neg
      else
        let pos := if (0 <=? e)%Z then true else (10 ^ (- e) <? m * 2 ^ 150)%Z in
        if pos then FFin neg else FZero neg.

(* the part after sign / inf / NaN handling; returns None for junk *)
Definition number_body (neg : bool) (s : list N) : option (fval * list N) :=
  match s with
  | [] => None
  | c0 :: _ =>
    (* leading zeros of the integer part *)
    let leading_zero := c0 =? 48 in
    let s1 := if leading_zero then skip_while (fun c => c =? 48) s else s in
    match (if leading_zero then s1 else s) with
    | [] => Some (FZero neg, [])              (* only zeros: SignedZero *)
    | _ =>
      let '(m, sig, insig, dropped, s2) := int_digits s1 0%Z O 0%Z false in
      let finish (m : Z) (e : Z) (dropped : bool) (rest : list N) :=
        let e := (e + insig)%Z in
        let '(m, e) := if dropped then ((m * 10 + 1)%Z, (e - 1)%Z) else (m, e) in
        Some (classify neg m e, rest) in
      match s2 with
      | [] => finish m 0%Z dropped []
      | c2 :: r2 =>
        (* optional fraction *)
        let after_fraction :=
          if c2 =? 46 then
            match r2 with
            | [] => if (Nat.eqb sig O) && negb leading_zero then None else Some (inl (finish m 0%Z dropped []))
            | _ =>
              let '(e0, r3) := if Nat.eqb sig O then frac_zeros r2 0%Z else (0%Z, r2) in
              match (if Nat.eqb sig O then r3 else r2) with
              | [] => Some (inl (Some (FZero neg, [])))       (* [+-]0*.0* up to the end: SignedZero *)
              | _ =>
                let '(m', sig', e', dropped', r4) := frac_digits r3 m sig e0 dropped in
                Some (inr (m', sig', e', dropped', r4))
              end
            end
          else Some (inr (m, sig, 0%Z, dropped, s2)) in
        match after_fraction with
        | None => None
        | Some (inl answer) => answer
        | Some (inr (m', sig', e', dropped', r4)) =>
          if negb leading_zero && (e' =? 0)%Z && Nat.eqb sig' O then None      (* no digits at all *)
          else
            match r4 with
            | [] => finish m' e' dropped' []
            | c4 :: r5 =>
              if (c4 =? 101) || (c4 =? 69) then
                (* exponent; anything that is not sign? digit+ leaves the 'e' as trailing junk *)
                let '(esign, r6) := match r5 with
                                    | c5 :: r6 => if c5 =? 43 then (1%Z, r6) else if c5 =? 45 then ((-1)%Z, r6) else (1%Z, r5)
                                    | [] => (1%Z, r5)
                                    end in
                match r6 with
                | c6 :: _ => if is_digit c6
                             then let '(num, r7) := exp_digits r6 0%Z in finish m' (e' + esign * num)%Z dropped' r7
                             else finish m' e' dropped' r4
                | [] => finish m' e' dropped' r4
                end
              else finish m' e' dropped' r4
            end
        end
      end
    end
  end.

(* StringToIeee on a non-empty input that does not start with white space; None = junk_string_value_ (NaN) *)
Definition string_to_float (s : list N) : option (fval * list N) :=
  match s with
  | [] => None
  | c :: r =>
    let '(neg, signed, s1) := if c =? 43 then (false, true, r) else if c =? 45 then (true, true, r) else (false, false, s) in
    match s1 with
    | [] => None
    | c1 :: _ =>
      if signed && c_isspace c1 then None
      else if c1 =? 105 then (if starts_with s_inf s1 then Some (FInf neg, skipn 3 s1) else None)
      else if c1 =? 78 then (if starts_with s_NaN s1 then Some (FNaN, skipn 3 s1) else None)
      else number_body neg s1
    end
  end.

(* ParseNumber returns str.data() + processed_characters_count: the cursor advances by the number of bytes the
   converter consumed *)
Definition advance (r rest : list N) : cursor := skipn (length r - length rest) r.
Definition consumed (r rest : list N) : list N := firstn (length r - length rest) r.
(* ReadNumber<float> + ParseNumber (util/file_piece.cc since 5d32436): a NaN result is an error unless the characters the
   converter consumed are exactly "NaN" (so "NaN" is read as a NaN; "-NaN", "+NaN", "nan" and every junk token -- zero
   characters consumed -- raise ParseNumberException) *)
Definition read_float (cur : cursor) : res (fval * cursor) :=
  do r <- skip_spaces kSpaces cur;
  match string_to_float r with
  | Some (FNaN, rest) => if beq (consumed r rest) s_NaN then Ok (FNaN, advance r rest) else Err ParseNumber
  | Some (v, rest) => Ok (v, advance r rest)
  | None => Err ParseNumber
  end.

Definition is_positive (v : fval) : bool := match v with FFin false | FInf false => true | _ => false end.
Definition is_zero (v : fval) : bool := match v with FZero _ => true | _ => false end.
Definition is_nan_or_inf (v : fval) : bool := match v with FNaN | FInf _ => true | _ => false end.

(* ---- lm/read_arpa.cc ------------------------------------------------------------------------------------------------ *)
Definition entirely_whitespace (l : list N) : bool := forallb c_isspace l.

(* loops over the input carry fuel = S (length of the input); Properties_C10 proves it is never exhausted *)
Fixpoint skip_blank_lines (fuel : nat) (also_comments : bool) (cur : cursor) : res (list N * cursor) :=
  match fuel with
  | O => Err OutOfFuel
  | S f => do (l, rest) <- read_line cur;
           if entirely_whitespace l || (also_comments && starts_with [35] l) then skip_blank_lines f also_comments rest
           else Ok (l, rest)
  end.

(* strtol(.., 10) on a C string: white space, sign, digits; None = no conversion.  Value saturates to long. *)
Fixpoint dec_value (s : list N) (acc : Z) : Z * list N :=
  match s with
  | c :: r => if is_digit c then dec_value r (acc * 10 + digit_val c) else (acc, s)
  | [] => (acc, s)
  end.
Definition strtol10 (s : list N) : option (Z * list N) :=
  let s1 := skip_while c_isspace s in
  let '(neg, s2) := match s1 with
                    | c :: r => if c =? 43 then (false, r) else if c =? 45 then (true, r) else (false, s1)
                    | [] => (false, s1)
                    end in
  match s2 with
  | c :: _ => if is_digit c
              then let '(v, rest) := dec_value s2 0%Z in
                   let v := if neg then Z.max (- v) (- 2 ^ 63) else Z.min v (2 ^ 63 - 1) in
                   Some (v, rest)
              else None
  | [] => None
  end.
(* std::stringstream >> uint64_t (libstdc++ num_get, classic locale): a sign is accepted, '-' negates modulo 2^64,
   overflow sets failbit *)
Definition read_count (s : list N) : option N :=
  let s1 := skip_while c_isspace s in
  let '(neg, s2) := match s1 with
                    | c :: r => if c =? 43 then (false, r) else if c =? 45 then (true, r) else (false, s1)
                    | [] => (false, s1)
                    end in
  match s2 with
  | c :: _ => if is_digit c
              then let '(v, _) := dec_value s2 0%Z in
                   if (2 ^ 64 <=? v)%Z then None
                   else Some (Z.to_N (if neg then (2 ^ 64 - v) mod 2 ^ 64 else v)%Z)
              else None
  | [] => None
  end.

(* one count line; number = counts read so far (newest first) *)
Definition count_line (line : list N) (have : N) : res N :=
  if negb (starts_with s_ngram_sp line) then Err Format
  else
    let remaining := cut_nul (skipn 6 line) in
    match strtol10 remaining with
    | None => Err Format
    | Some (v, rest) =>
      let length32 := (v mod 2 ^ 32)%Z in
      if negb (((length32 - 1) mod 2 ^ 32)%Z =? Z.of_N have)%Z then Err Format
      else match rest with
           | c :: after => if c =? 61 then match read_count after with Some n => Ok n | None => Err Format end
                           else Err Format
           | [] => Err Format
           end
    end.

Fixpoint count_lines (fuel : nat) (cur : cursor) (acc : list N) : res (list N * cursor) :=
  match fuel with
  | O => Err OutOfFuel
  | S f => do (l, rest) <- read_line cur;
           if entirely_whitespace l then Ok (rev acc, rest)
           else do n <- count_line l (N.of_nat (length acc)); count_lines f rest (n :: acc)
  end.

Definition read_arpa_counts (cur : cursor) : res (list N * cursor) :=
  do (l, rest) <- skip_blank_lines (S (length cur)) true cur;
  if negb (beq l s_data) then Err Format
  else count_lines (S (length rest)) rest [].

(* decimal text of a small number, as operator<< prints it *)
Definition decimal (n : nat) : list N :=
  (fix go (fuel : nat) (n : N) (acc : list N) : list N :=
     match fuel with
     | O => acc
     | S f => let acc := (48 + n mod 10) :: acc in if n / 10 =? 0 then acc else go f (n / 10) acc
     end) 20%nat (N.of_nat n) [].

Definition read_ngram_header (n : nat) (cur : cursor) : res cursor :=
  do (l, rest) <- skip_blank_lines (S (length cur)) false cur;
  if beq l (92 :: decimal n ++ s_grams_colon) then Ok rest else Err Format.

(* ConsumeNewline *)
Definition consume_newline (cur : cursor) : res cursor :=
  do (c, r) <- get cur; if c =? 10 then Ok r else Err Format.

(* ReadBackoff(FilePiece&, float&): middle orders and unigrams.  Returns the backoff class (FZero true = "no extension") *)
Definition read_backoff_middle (cur : cursor) : res (fval * cursor) :=
  do (c, r) <- get cur;
  if c =? 9 then
    do (v, r1) <- read_float r;
    if is_nan_or_inf v then Err Format
    else do (c2, r2) <- get r1;
         if c2 =? 13 then do r3 <- consume_newline r2; Ok (v, r3)
         else if c2 =? 10 then Ok (v, r2)
         else Err Format
  else if c =? 13 then do r1 <- consume_newline r; Ok (FZero true, r1)
  else if c =? 10 then Ok (FZero true, r)
  else Err Format.

(* ReadBackoff(FilePiece&, Prob&): the highest order.  A zero may be given; the line end stays for the next read. *)
Definition read_backoff_longest (cur : cursor) : res cursor :=
  do (c, r) <- get cur;
  if c =? 9 then do (v, r1) <- read_float r; if is_zero v then Ok r1 else Err Format
  else if c =? 13 then consume_newline r
  else if c =? 10 then Ok r
  else Err Format.

(* ---- vocabulary ------------------------------------------------------------------------------------------------------- *)
Definition is_unk (w : list N) : bool := beq w s_unk || beq w s_UNK.
(* words in insertion order, <unk>/<UNK> excluded; id = 1 + position of the first occurrence, 0 = not found *)
Fixpoint index_from (words : list (list N)) (w : list N) (i : N) : N :=
  match words with
  | [] => 0
  | x :: r => if beq x w then i else index_from r w (i + 1)
  end.
Definition index (words : list (list N)) (w : list N) : N := if is_unk w then 0 else index_from words w 1.

Record entry := { e_prob : fval; e_ids : list N; e_words : list (list N); e_backoff : fval }.

(* Read1Gram *)
Definition read_1gram (cur : cursor) : res (list N * fval * fval * cursor) :=
  do (p, r) <- read_float cur;
  if is_positive p then Err Format
  else do (c, r1) <- get r;
       if negb (c =? 9) then Err Format
       else do (w, r2) <- read_delimited kARPASpaces r1;
            do (b, r3) <- read_backoff_middle r2;
            Ok (w, p, b, r3).

Fixpoint read_words (n : nat) (words : list (list N)) (cur : cursor) (ids : list N) (ws : list (list N))
  : res (list N * list (list N) * cursor) :=
  match n with
  | O => Ok (rev ids, rev ws, cur)
  | S k => do (w, r) <- read_delimited kARPASpaces cur;
           let id := index words w in
           if (id =? 0) && negb (is_unk w) then Err Format
           else read_words k words r (id :: ids) (w :: ws)
  end.

(* ReadNGram *)
Definition read_ngram (n : nat) (longest : bool) (words : list (list N)) (cur : cursor) : res (entry * cursor) :=
  do (p, r) <- read_float cur;
  if is_positive p then Err Format
  else do (ids, ws, r1) <- read_words n words r [] [];
       if longest then do r2 <- read_backoff_longest r1; Ok ({| e_prob := p; e_ids := ids; e_words := ws; e_backoff := FZero true |}, r2)
       else do (b, r2) <- read_backoff_middle r1; Ok ({| e_prob := p; e_ids := ids; e_words := ws; e_backoff := b |}, r2).

(* ---- the probing loader's per-entry work -------------------------------------------------------------------------------- *)
(* tables for orders 2..N: keys (word-id lists, real and blank entries alike, duplicates kept: entries_ = length) *)
Definition table := list (list N).
Fixpoint mem_key (k : list N) (t : table) : bool := match t with [] => false | x :: r => beq x k || mem_key k r end.
(* buckets = max(entries + 1, uint64(1.5f * float(entries)))  (DivMod::RoundBuckets is the identity) *)
Definition buckets (entries : N) : N := N.max (entries + 1) (entries + entries / 2).
(* Insert / the inserting branch of FindOrInsert: UTIL_THROW_IF(++entries_ >= buckets_) *)
Definition insert_key (k : list N) (cap : N) (t : table) : res table :=
  if cap <=? N.of_nat (length t) + 1 then Err ProbingSize else Ok (k :: t).

Fixpoint nth_table (ts : list table) (i : nat) : table := nth i ts [].
Fixpoint set_table (ts : list table) (i : nat) (t : table) : list table :=
  match ts, i with
  | [], _ => []
  | _ :: r, O => t :: r
  | x :: r, S j => x :: set_table r j t
  end.

(* FindLower: from the suffix of length n-1 down to length 2; tables are indexed by order - 2 *)
Fixpoint find_lower (k : nat) (ids : list N) (caps : list N) (ts : list table) : res (list table) :=
  match k with
  | O | S O => Ok ts
  | S k' =>
    let key := skipn (length ids - k) ids in
    let t := nth_table ts (k - 2) in
    if mem_key key t then Ok ts
    else do t' <- insert_key key (nth (k - 2) caps 0) t; find_lower k' ids caps (set_table ts (k - 2) t')
  end.

Definition probing_entry (n : nat) (ids : list N) (caps : list N) (ts : list table) : res (list table) :=
  do t' <- insert_key ids (nth (n - 2) caps 0) (nth_table ts (n - 2));
  let ts1 := set_table ts (n - 2) t' in
  do ts2 <- find_lower (n - 1) ids caps ts1;
  if Nat.leb 3 n then
    (* ActivateLowerMiddle: the context w1..w(n-1) must be found in the (n-1)-gram table *)
    if mem_key (firstn (n - 1) ids) (nth_table ts2 (n - 3)) then Ok ts2 else Err Format
  else Ok ts2.

(* ---- sections ------------------------------------------------------------------------------------------------------------- *)
Inductive structure := Probing | Trie.

Fixpoint read_1grams (fuel : nat) (count : N) (cur : cursor) (words : list (list N)) (saw_unk : bool) (acc : list entry)
  : res (list (list N) * bool * list entry * cursor) :=
  if count =? 0 then Ok (rev words, saw_unk, rev acc, cur)
  else match fuel with
       | O => Err OutOfFuel
       | S f => do (w, p, b, r) <- read_1gram cur;
                let e := {| e_prob := p; e_ids := []; e_words := [w]; e_backoff := b |} in
                if is_unk w then read_1grams f (count - 1) r words true (e :: acc)
                else read_1grams f (count - 1) r (w :: words) saw_unk (e :: acc)
       end.

Fixpoint read_ngrams (fuel : nat) (st : structure) (n : nat) (longest : bool) (count : N) (words : list (list N)) (caps : list N)
    (cur : cursor) (ts : list table) (acc : list entry) : res (list entry * list table * cursor) :=
  if count =? 0 then Ok (rev acc, ts, cur)
  else match fuel with
       | O => Err OutOfFuel
       | S f => do (e, r) <- read_ngram n longest words cur;
                do ts' <- match st with Probing => probing_entry n (e_ids e) caps ts | Trie => Ok ts end;
                read_ngrams f st n longest (count - 1) words caps r ts' (e :: acc)
       end.

(* orders 2..N; counts_rest = the counts of the orders still to read *)
Fixpoint read_sections (st : structure) (n : nat) (counts_rest : list N) (words : list (list N)) (caps : list N)
    (cur : cursor) (ts : list table) (acc : list (list entry)) : res (list (list entry) * list table * cursor) :=
  match counts_rest with
  | [] => Ok (rev acc, ts, cur)
  | c :: more =>
    do r <- read_ngram_header n cur;
    do (es, ts', r') <- read_ngrams (S (length r)) st n (match more with [] => true | _ => false end) c words caps r ts [];
    read_sections st (S n) more words caps r' ts' (es :: acc)
  end.

(* ReadEnd *)
Fixpoint only_blank_lines (fuel : nat) (cur : cursor) : res unit :=
  match fuel with
  | O => Err OutOfFuel
  | S f => match read_line cur with
           | Err _ => Ok tt                               (* EndOfFileException is caught: done *)
           | Ok (l, rest) => if entirely_whitespace l then only_blank_lines f rest else Err Format
           end
  end.
Definition read_end (cur : cursor) : res unit :=
  do (l, rest) <- skip_blank_lines (S (length cur)) false cur;
  if beq l s_end then only_blank_lines (S (length rest)) rest else Err Format.

(* search_trie.cc: every n-gram (n >= 3) needs its context as a real (n-1)-gram *)
Definition contexts_present (lower upper : list entry) (n : nat) : bool :=
  forallb (fun e => existsb (fun l => beq (e_ids l) (firstn (n - 1) (e_ids e))) lower) upper.
Fixpoint trie_contexts (n : nat) (sections : list (list entry)) : bool :=
  match sections with
  | lower :: ((upper :: _) as rest) => contexts_present lower upper (S n) && trie_contexts (S n) rest
  | _ => true
  end.

Record model := { m_counts : list N; m_words : list (list N); m_saw_unk : bool; m_unigrams : list entry;
                  m_sections : list (list entry); m_tables : list table }.

Definition KENLM_MAX_ORDER : nat := 6.

(* InitializeFromARPA for one data structure *)
Definition parse_arpa_text (st : structure) (file : list N) : res model :=
  do (counts, r0) <- read_arpa_counts file;
  if Nat.ltb KENLM_MAX_ORDER (length counts) then Err Format
  else if Nat.ltb (length counts) 2 then Err Format
  else if hd 0 counts =? 0 then Err Format           (* CheckCounts since eada1ab: there is always <unk> *)
  else
    do r1 <- read_ngram_header 1 r0;
    do (words, saw_unk, unigrams, r2) <- read_1grams (S (length r1)) (hd 0 counts) r1 [] false [];
    (* CheckSpecials with the default Config: a missing <unk> is tolerated, <s> and </s> are not *)
    if index words s_bos =? 0 then Err SpecialWord
    else if index words s_eos =? 0 then Err SpecialWord
    else
      let caps := map buckets (tl counts) in
      do (sections, ts, r3) <- read_sections st 2 (tl counts) words caps r2 (map (fun _ => []) (tl counts)) [];
      do _ <- read_end r3;
      match st with
      | Probing => Ok {| m_counts := counts; m_words := words; m_saw_unk := saw_unk; m_unigrams := unigrams; m_sections := sections; m_tables := ts |}
      | Trie => if trie_contexts 2 sections
                then Ok {| m_counts := counts; m_words := words; m_saw_unk := saw_unk; m_unigrams := unigrams; m_sections := sections; m_tables := ts |}
                else Err Format
      end.

(* ---- which loader sees the file (util::FilePiece::Initialize, lm::ngram::IsBinaryFormat) ---------------------------------- *)
Definition compressed_magic (file : list N) : bool :=
  Nat.leb 6 (length file) &&
  (starts_with [31; 139] file || starts_with [66; 90; 104] file || starts_with [253; 55; 122; 88; 90; 0] file).

(* IsBinaryFormat: more than sizeof(Sanity) bytes and the reference block in front *)
Definition is_binary_file (file : list N) : bool := Nat.ltb 88 (length file) && starts_with sanity_reference file.

Definition parse_arpa (st : structure) (file : list N) : res model :=
  if is_binary_file file then Err Unmodelled            (* a binary file: see check_binary_header *)
  else if Nat.ltb 88 (length file) && starts_with magic_incomplete file then Err Format
  else if Nat.ltb 88 (length file) && starts_with magic_before_version file then Err Format
  else if compressed_magic file then Err Unmodelled
  else parse_arpa_text st file.

(* ---- binary header checks (lm/binary_format.cc ReadHeader, MatchCheck; lm/model.cc CheckCounts) ---------------------------- *)
(* what the header decides before any size is computed; Undecided = the outcome depends on the layout sizes (C04's subject) *)
Inductive bin_verdict := BinReject (e : err) | BinUndecided.
Definition le64 (b : list N) : N :=
  nth 0 b 0 + 256 * (nth 1 b 0 + 256 * (nth 2 b 0 + 256 * (nth 3 b 0 + 256 * (nth 4 b 0 + 256 * (nth 5 b 0 + 256 * (nth 6 b 0 + 256 * nth 7 b 0)))))).
Definition le32 (b : list N) : N := nth 0 b 0 + 256 * nth 1 b 0 + 65536 * nth 2 b 0 + 16777216 * nth 3 b 0.
(* ReadHeader: !(probing_multiplier >= 1.0) on the float32 bit pattern; a NaN is rejected too *)
Definition multiplier_rejected (bits : N) : bool :=
  let sign := 2147483648 <=? bits in
  let mag := bits mod 2147483648 in
  if 2139095040 <? mag then true                           (* NaN *)
  else if sign then true                                   (* negative, and -0.0 *)
  else mag <? 1065353216.
Definition search_version (model_type : N) : N := if model_type <? 2 then 0 else 1.

(* file = the whole binary file (it starts with the 88-byte Sanity block); requested = the class's kModelType,
   None for LoadVirtual; want_vocab = the caller passed an EnumerateVocab *)
Definition check_binary_header (file : list N) (requested : option N) (want_vocab : bool) : bin_verdict :=
  let fixed := firstn 20 (skipn 88 file) in
  if Nat.ltb (length fixed) 20 then BinReject EndOfFile
  else
    let order := nth 0 fixed 0 in
    let mult := le32 (skipn 4 fixed) in
    let mtype := le32 (skipn 8 fixed) in
    let has_vocab := nth 12 fixed 0 in
    let sversion := le32 (skipn 16 fixed) in
    if multiplier_rejected mult then BinReject Format
    else if Nat.ltb (length (skipn 108 file)) (8 * N.to_nat order) then BinReject EndOfFile
    else
      let wanted := match requested with Some t => t | None => mtype end in
      if negb (mtype =? wanted) then BinReject Format
      else if 6 <=? mtype then BinReject Format             (* LoadVirtual: "Confused by model type" *)
      else if negb (sversion =? search_version mtype) then BinReject Format
      else if 6 <? order then BinReject Format
      else if order <? 2 then BinReject Format
      else if le64 (skipn 108 file) =? 0 then BinReject Format       (* CheckCounts: a header that claims zero unigrams *)
      else if want_vocab && (has_vocab =? 0) then BinUndecided       (* rejected, but only after UpdateConfigFromBinary read the layout *)
      else BinUndecided.

(* ---- BinaryFormat::LoadBinary: the size test that stands between a short file and mmap ------------------------------------- *)
(* TotalHeaderSize(order) = ALIGN8(sizeof(Sanity) + sizeof(FixedWidthParameters) + 8 * order) *)
Definition total_header_size (order : N) : N := (88 + 20 + 8 * order + 7) / 8 * 8.
(* size = VocabularyT::Size + Search::Size, the bytes of the memory image after the header (computed by the layout code,
   C04's subject; here a parameter).  The file is mapped over [0, header + size). *)
Definition check_binary_size (file_size order size : N) : bin_verdict :=
  if file_size <? total_header_size order + size then BinReject Format else BinUndecided.
