(* C10 -- lemmas about ArpaModel.v: the parser never runs out of fuel, what acceptance implies, what is rejected. *)
From Coq Require Import List NArith ZArith Bool Lia Arith.
From Kenlm Require Import Gen.Spaces C10.ArpaModel.
Import ListNotations.
Local Open Scope N_scope.

(* ---- the delimiter predicates are the regenerated tables ------------------------------------------------------------- *)
Lemma codes_of_spec : forall t i b, existsb (N.eqb b) (codes_of t i) = (i <=? b) && nth (N.to_nat (b - i)) t false.
Proof.
  induction t as [|x r IH]; intros i b; simpl.
  - destruct (N.to_nat (b - i)); rewrite andb_false_r; reflexivity.
  - assert (E : existsb (N.eqb b) (codes_of r (i + 1)) = (i + 1 <=? b) && nth (N.to_nat (b - (i + 1))) r false) by apply IH.
    destruct (N.eqb_spec b i) as [Hb|Hb].
    + subst b. rewrite N.sub_diag. simpl. rewrite N.leb_refl. simpl.
      destruct x; simpl; [rewrite N.eqb_refl; reflexivity|].
      rewrite E. replace (i + 1 <=? i) with false by (symmetry; apply N.leb_gt; lia). reflexivity.
    + destruct (N.leb_spec i b) as [L|L].
      * assert (L1 : i + 1 <= b) by lia. replace (N.to_nat (b - i)) with (S (N.to_nat (b - (i + 1)))) by lia.
        simpl. apply N.leb_le in L1. destruct x; simpl; rewrite ?E, ?L1; simpl; try reflexivity.
        apply N.eqb_neq in Hb. rewrite Hb. reflexivity.
      * simpl. destruct x; simpl; rewrite ?E; replace (i + 1 <=? b) with false by (symmetry; apply N.leb_gt; lia); simpl; try reflexivity.
        apply N.eqb_neq in Hb. rewrite Hb. reflexivity.
Qed.

Lemma table_codes_agree : forall b, kSpaces b = nth (N.to_nat b) kSpaces_table false /\ kARPASpaces b = nth (N.to_nat b) kARPASpaces_table false.
Proof.
  intros b. unfold kSpaces, kARPASpaces, kSpaces_codes, kARPASpaces_codes. rewrite !codes_of_spec. rewrite N.sub_0_r.
  replace (0 <=? b) with true by (symmetry; apply N.leb_le; lia). split; reflexivity.
Qed.

(* ---- monad plumbing --------------------------------------------------------------------------------------------- *)
Lemma bind_ok : forall {A B} (a : res A) (f : A -> res B) y, bind a f = Ok y -> exists x, a = Ok x /\ f x = Ok y.
Proof. intros A B [x|e] f y H; simpl in H; [eauto|discriminate]. Qed.
Lemma bind_err : forall {A B} (a : res A) (f : A -> res B) e, bind a f = Err e -> a = Err e \/ exists x, a = Ok x /\ f x = Err e.
Proof. intros A B [x|e'] f e H; simpl in H; [right; eauto|left; inversion H; reflexivity]. Qed.

Ltac inv H := inversion H; subst; clear H.
(* split a hypothesis  (do x <- a; b) = Ok y *)
Ltac bind_ok H := let x := fresh "x" in let Ha := fresh "Ha" in apply bind_ok in H; destruct H as [x [Ha H]].

(* ---- lengths: what every primitive leaves is no longer than what it got ------------------------------------------- *)
Lemma skip_while_length : forall f s, (length (skip_while f s) <= length s)%nat.
Proof. induction s as [|c r IH]; simpl; [lia|]. destruct (f c); simpl; lia. Qed.

Lemma skip_while_app : forall f s, exists a, s = a ++ skip_while f s.
Proof.
  induction s as [|c r [a IH]]; [exists []; reflexivity|]. simpl. destruct (f c).
  - exists (c :: a). simpl. f_equal. exact IH.
  - exists []. reflexivity.
Qed.

Lemma take_line_length : forall s l r, take_line s = (l, Some r) -> (length r < length s)%nat.
Proof.
  induction s as [|c s IH]; intros l r H; simpl in H; [discriminate|].
  destruct (c =? 10).
  - inv H. simpl. lia.
  - destruct (take_line s) as [l' a] eqn:E. inv H. specialize (IH _ _ eq_refl). simpl. lia.
Qed.

Lemma read_line_shorter : forall cur l rest, read_line cur = Ok (l, rest) -> (length rest < length cur)%nat.
Proof.
  intros cur l rest H. unfold read_line in H. destruct cur as [|c s]; [discriminate|].
  destruct (take_line (c :: s)) as [l' [r|]] eqn:E; inv H.
  - eapply take_line_length; eauto.
  - simpl. lia.
Qed.

Lemma get_shorter : forall cur c r, get cur = Ok (c, r) -> (length r < length cur)%nat.
Proof. intros [|x s] c r H; simpl in H; [discriminate|]. inv H. simpl. lia. Qed.

Lemma skip_spaces_le : forall d cur r, skip_spaces d cur = Ok r -> (length r <= length cur)%nat /\ r <> [].
Proof.
  intros d cur r H. unfold skip_spaces in H. pose proof (skip_while_length d cur) as L.
  destruct (skip_while d cur) eqn:E; [discriminate|]. inv H. split; [exact L|discriminate].
Qed.

Lemma take_skip_length : forall f s, (length (take_while f s) + length (skip_while f s) = length s)%nat.
Proof. induction s as [|c r IH]; simpl; [reflexivity|]. destruct (f c); simpl; lia. Qed.

Lemma read_delimited_shorter : forall d cur w r, read_delimited d cur = Ok (w, r) -> (length r < length cur)%nat /\ w <> [].
Proof.
  intros d cur w r H. unfold read_delimited in H. bind_ok H. inv H.
  unfold skip_spaces in Ha. pose proof (skip_while_length d cur) as L.
  destruct (skip_while d cur) as [|c s] eqn:E; [discriminate|]. inv Ha.
  (* the first byte after the skipped spaces is not a delimiter *)
  assert (Hc : d c = false).
  { clear - E. induction cur as [|y t IH]; simpl in E; [discriminate|]. destruct (d y) eqn:D; [apply IH; exact E|]. inv E. exact D. }
  simpl. rewrite Hc. simpl. split; [|discriminate].
  pose proof (skip_while_length (fun c0 => negb (d c0)) s). simpl in L. lia.
Qed.

(* the number lexer *)
Lemma int_digits_le : forall s m sig insig dr m' sig' insig' dr' r,
  int_digits s m sig insig dr = (m', sig', insig', dr', r) -> (length r <= length s)%nat.
Proof.
  induction s as [|c s IH]; intros m sig insig dr m' sig' insig' dr' r H; simpl in H; [inv H; lia|].
  destruct (is_digit c); [|inv H; simpl; lia].
  destruct (Nat.ltb sig kMaxSignificantDigits); apply IH in H; simpl; lia.
Qed.
Lemma frac_digits_le : forall s m sig e dr m' sig' e' dr' r,
  frac_digits s m sig e dr = (m', sig', e', dr', r) -> (length r <= length s)%nat.
Proof.
  induction s as [|c s IH]; intros m sig e dr m' sig' e' dr' r H; simpl in H; [inv H; lia|].
  destruct (is_digit c); [|inv H; simpl; lia].
  destruct (Nat.ltb sig kMaxSignificantDigits); apply IH in H; simpl; lia.
Qed.
Lemma frac_zeros_le : forall s e e' r, frac_zeros s e = (e', r) -> (length r <= length s)%nat.
Proof.
  induction s as [|c s IH]; intros e e' r H; simpl in H; [inv H; lia|].
  destruct (c =? 48); [apply IH in H; simpl; lia|inv H; simpl; lia].
Qed.
Lemma exp_digits_le : forall s n n' r, exp_digits s n = (n', r) -> (length r <= length s)%nat.
Proof.
  induction s as [|c s IH]; intros n n' r H; simpl in H; [inv H; lia|].
  destruct (is_digit c); [apply IH in H; simpl; lia|inv H; simpl; lia].
Qed.

Ltac break_match H :=
  match type of H with
  | context [match ?x with _ => _ end] => destruct x eqn:?
  end.

Ltac length_facts :=
  repeat match goal with
  | H : int_digits _ _ _ _ _ = _ |- _ => apply int_digits_le in H
  | H : frac_digits _ _ _ _ _ = _ |- _ => apply frac_digits_le in H
  | H : frac_zeros _ _ = _ |- _ => apply frac_zeros_le in H
  | H : exp_digits _ _ = _ |- _ => apply exp_digits_le in H
  end.

Ltac break_any :=
  match goal with
  | H : context [match ?x with _ => _ end] |- _ => destruct x eqn:?; try discriminate
  end.
Ltac inv_pairs :=
  repeat match goal with
  | H' : (_, _) = (_, _) |- _ => inv H'
  | H' : Some _ = Some _ |- _ => inv H'
  | H' : inl _ = inl _ |- _ => inv H'
  | H' : inr _ = inr _ |- _ => inv H'
  | H' : inl _ = inr _ |- _ => discriminate H'
  | H' : inr _ = inl _ |- _ => discriminate H'
  end.

Lemma number_body_le : forall neg s v rest, number_body neg s = Some (v, rest) -> (length rest <= length s)%nat.
Proof.
  intros neg s v rest H. unfold number_body in H. cbv beta zeta in H.
  destruct s as [|c0 s0]; [discriminate|].
  pose proof (skip_while_length (fun c => c =? 48) (c0 :: s0)) as Z0.
  repeat (break_any; inv_pairs); inv_pairs; length_facts; simpl in *; try lia.
Qed.

Lemma skipn_length_le : forall {A} n (l : list A), (length (skipn n l) <= length l)%nat.
Proof. intros A n l. rewrite skipn_length. lia. Qed.

Lemma string_to_float_le : forall s v rest, string_to_float s = Some (v, rest) -> (length rest <= length s)%nat.
Proof.
  intros s v rest H. unfold string_to_float in H.
  destruct s as [|c r]; [discriminate|].
  repeat (break_any; inv_pairs); inv_pairs;
    repeat match goal with H' : number_body _ _ = Some _ |- _ => apply number_body_le in H' end;
    repeat match goal with |- context [skipn ?n ?l] => pose proof (skipn_length_le n l); generalize dependent (skipn n l); intros end;
    simpl in *; try lia.
  all: match goal with |- context [match ?l with _ => _ end] => destruct l as [|? [|? ?]] end; simpl; lia.
Qed.

Lemma advance_le : forall r rest, (length (advance r rest) <= length r)%nat.
Proof. intros r rest. unfold advance. apply skipn_length_le. Qed.

Lemma read_float_le : forall cur v rest, read_float cur = Ok (v, rest) -> (length rest <= length cur)%nat.
Proof.
  intros cur v rest H. unfold read_float in H. bind_ok H. apply skip_spaces_le in Ha. destruct Ha as [L _].
  destruct (string_to_float x) as [[v' r']|] eqn:E.
  - pose proof (advance_le x r'). destruct v'; try (inv H; lia).
    destruct (beq (consumed x r') s_NaN); [inv H; lia|discriminate].
  - discriminate.
Qed.

Lemma consume_newline_shorter : forall cur r, consume_newline cur = Ok r -> (length r < length cur)%nat.
Proof.
  intros cur r H. unfold consume_newline in H. bind_ok H. destruct x as [c r']. apply get_shorter in Ha.
  destruct (c =? 10); [inv H; lia|discriminate].
Qed.

Lemma read_backoff_middle_shorter : forall cur v r, read_backoff_middle cur = Ok (v, r) -> (length r < length cur)%nat.
Proof.
  intros cur v r H. unfold read_backoff_middle in H. bind_ok H. destruct x as [c r0]. apply get_shorter in Ha.
  destruct (c =? 9).
  - bind_ok H. destruct x as [v1 r1]. apply read_float_le in Ha0. destruct (is_nan_or_inf v1); [discriminate|].
    bind_ok H. destruct x as [c2 r2]. apply get_shorter in Ha1. destruct (c2 =? 13).
    + bind_ok H. apply consume_newline_shorter in Ha2. inv H. lia.
    + destruct (c2 =? 10); [inv H; lia|discriminate].
  - destruct (c =? 13).
    + bind_ok H. apply consume_newline_shorter in Ha0. inv H. lia.
    + destruct (c =? 10); [inv H; lia|discriminate].
Qed.

Lemma read_backoff_longest_shorter : forall cur r, read_backoff_longest cur = Ok r -> (length r < length cur)%nat.
Proof.
  intros cur r H. unfold read_backoff_longest in H. bind_ok H. destruct x as [c r0]. apply get_shorter in Ha.
  destruct (c =? 9).
  - bind_ok H. destruct x as [v1 r1]. apply read_float_le in Ha0. destruct (is_zero v1); [inv H; lia|discriminate].
  - destruct (c =? 13).
    + apply consume_newline_shorter in H. lia.
    + destruct (c =? 10); [inv H; lia|discriminate].
Qed.

Lemma read_1gram_shorter : forall cur w p b r, read_1gram cur = Ok (w, p, b, r) -> (length r < length cur)%nat.
Proof.
  intros cur w p b r H. unfold read_1gram in H. bind_ok H. destruct x as [p0 r0]. apply read_float_le in Ha.
  destruct (is_positive p0); [discriminate|]. bind_ok H. destruct x as [c r1]. apply get_shorter in Ha0.
  destruct (negb (c =? 9)); [discriminate|]. bind_ok H. destruct x as [w0 r2]. apply read_delimited_shorter in Ha1.
  bind_ok H. destruct x as [b0 r3]. apply read_backoff_middle_shorter in Ha2. inv H. lia.
Qed.

Lemma read_words_le : forall n words cur ids ws ids' ws' r,
  read_words n words cur ids ws = Ok (ids', ws', r) -> (length r <= length cur)%nat.
Proof.
  induction n as [|k IH]; intros words cur ids ws ids' ws' r H; simpl in H; [inv H; lia|].
  bind_ok H. destruct x as [w r0]. apply read_delimited_shorter in Ha.
  destruct ((index words w =? 0) && negb (is_unk w)); [discriminate|]. apply IH in H. lia.
Qed.

Lemma read_ngram_shorter : forall n longest words cur e r, read_ngram n longest words cur = Ok (e, r) -> (length r < length cur)%nat.
Proof.
  intros n longest words cur e r H. unfold read_ngram in H. bind_ok H. destruct x as [p0 r0]. apply read_float_le in Ha.
  destruct (is_positive p0); [discriminate|]. bind_ok H. destruct x as [[ids ws] r1]. apply read_words_le in Ha0.
  destruct longest.
  - bind_ok H. apply read_backoff_longest_shorter in Ha1. inv H. lia.
  - bind_ok H. destruct x as [b r2]. apply read_backoff_middle_shorter in Ha1. inv H. lia.
Qed.

(* ---- the parser never answers OutOfFuel ----------------------------------------------------------------------------- *)
Definition no_oof {A} (r : res A) : Prop := r <> Err OutOfFuel.

Lemma bind_no_oof : forall {A B} (a : res A) (f : A -> res B),
  no_oof a -> (forall x, a = Ok x -> no_oof (f x)) -> no_oof (bind a f).
Proof. intros A B [x|e] f Ha Hf; simpl; [apply Hf; reflexivity|intro X; apply Ha; inversion X; reflexivity]. Qed.

Lemma read_line_no_oof : forall cur, no_oof (read_line cur).
Proof. intros cur. unfold read_line, no_oof. destruct cur; [discriminate|]. destruct (take_line (n :: cur)) as [l [r|]]; discriminate. Qed.
Lemma get_no_oof : forall cur, no_oof (get cur).
Proof. intros [|c r]; unfold no_oof; simpl; discriminate. Qed.
Lemma skip_spaces_no_oof : forall d cur, no_oof (skip_spaces d cur).
Proof. intros d cur. unfold skip_spaces, no_oof. destruct (skip_while d cur); discriminate. Qed.
Lemma read_delimited_no_oof : forall d cur, no_oof (read_delimited d cur).
Proof. intros d cur. unfold read_delimited. apply bind_no_oof; [apply skip_spaces_no_oof|]. intros x _. unfold no_oof. discriminate. Qed.
Lemma read_float_no_oof : forall cur, no_oof (read_float cur).
Proof.
  intros cur. unfold read_float. apply bind_no_oof; [apply skip_spaces_no_oof|]. intros x _. unfold no_oof.
  destruct (string_to_float x) as [[v r]|].
  - destruct v; try discriminate. destruct (beq (consumed x r) s_NaN); discriminate.
  - discriminate.
Qed.
Lemma consume_newline_no_oof : forall cur, no_oof (consume_newline cur).
Proof.
  intros cur. unfold consume_newline. apply bind_no_oof; [apply get_no_oof|]. intros [c r] _. unfold no_oof. destruct (c =? 10); discriminate.
Qed.

Ltac oof_step :=
  first [ apply consume_newline_no_oof
        | apply bind_no_oof; [first [apply get_no_oof | apply read_float_no_oof | apply read_line_no_oof | apply consume_newline_no_oof
                                     | apply read_delimited_no_oof | apply skip_spaces_no_oof | assumption ] | intros ? ? ]
        | apply consume_newline_no_oof
        | (unfold no_oof; discriminate) ].

Lemma read_backoff_middle_no_oof : forall cur, no_oof (read_backoff_middle cur).
Proof.
  intros cur. unfold read_backoff_middle. oof_step. destruct x as [c r]. destruct (c =? 9).
  - oof_step. destruct x as [v r1]. destruct (is_nan_or_inf v); [oof_step|]. oof_step. destruct x as [c2 r2].
    destruct (c2 =? 13); [oof_step; oof_step|]. destruct (c2 =? 10); oof_step.
  - destruct (c =? 13); [oof_step; oof_step|]. destruct (c =? 10); oof_step.
Qed.
Lemma read_backoff_longest_no_oof : forall cur, no_oof (read_backoff_longest cur).
Proof.
  intros cur. unfold read_backoff_longest. oof_step. destruct x as [c r]. destruct (c =? 9).
  - oof_step. destruct x as [v r1]. destruct (is_zero v); oof_step.
  - destruct (c =? 13); [oof_step|]. destruct (c =? 10); oof_step.
Qed.
Lemma read_1gram_no_oof : forall cur, no_oof (read_1gram cur).
Proof.
  intros cur. unfold read_1gram. oof_step. destruct x as [p r]. destruct (is_positive p); [oof_step|].
  oof_step. destruct x as [c r1]. destruct (negb (c =? 9)); [oof_step|]. oof_step. destruct x as [w r2].
  apply bind_no_oof; [apply read_backoff_middle_no_oof|]. intros [b r3] _. oof_step.
Qed.
Lemma read_words_no_oof : forall n words cur ids ws, no_oof (read_words n words cur ids ws).
Proof.
  induction n as [|k IH]; intros words cur ids ws; simpl; [oof_step|].
  oof_step. destruct x as [w r]. destruct ((index words w =? 0) && negb (is_unk w)); [oof_step|apply IH].
Qed.
Lemma read_ngram_no_oof : forall n longest words cur, no_oof (read_ngram n longest words cur).
Proof.
  intros n longest words cur. unfold read_ngram. oof_step. destruct x as [p r]. destruct (is_positive p); [oof_step|].
  apply bind_no_oof; [apply read_words_no_oof|]. intros [[ids ws] r1] _. destruct longest.
  - apply bind_no_oof; [apply read_backoff_longest_no_oof|]. intros r2 _. oof_step.
  - apply bind_no_oof; [apply read_backoff_middle_no_oof|]. intros [b r2] _. oof_step.
Qed.

Lemma skip_blank_lines_no_oof : forall fuel b cur, (length cur < fuel)%nat -> no_oof (skip_blank_lines fuel b cur).
Proof.
  induction fuel as [|f IH]; intros b cur Hf; [lia|]. simpl. oof_step. destruct x as [l rest].
  apply read_line_shorter in H.
  match goal with |- context [if ?c then _ else _] => destruct c end; [apply IH; lia|oof_step].
Qed.

Lemma count_line_no_oof : forall l have, no_oof (count_line l have).
Proof.
  intros l have. unfold count_line, no_oof. destruct (negb (starts_with s_ngram_sp l)); [discriminate|].
  destruct (strtol10 (cut_nul (skipn 6 l))) as [[v rest]|]; [|discriminate].
  destruct (negb (((v mod 2 ^ 32 - 1) mod 2 ^ 32 =? Z.of_N have)%Z)); [discriminate|].
  destruct rest as [|c after]; [discriminate|]. destruct (c =? 61); [|discriminate]. destruct (read_count after); discriminate.
Qed.

Lemma count_lines_no_oof : forall fuel cur acc, (length cur < fuel)%nat -> no_oof (count_lines fuel cur acc).
Proof.
  induction fuel as [|f IH]; intros cur acc Hf; [lia|]. simpl. oof_step. destruct x as [l rest].
  apply read_line_shorter in H. destruct (entirely_whitespace l); [oof_step|].
  apply bind_no_oof; [apply count_line_no_oof|]. intros n _. apply IH. lia.
Qed.

Lemma skip_blank_lines_shorter : forall fuel b cur l rest, skip_blank_lines fuel b cur = Ok (l, rest) -> (length rest < length cur)%nat.
Proof.
  induction fuel as [|f IH]; intros b cur l rest H; simpl in H; [discriminate|].
  bind_ok H. destruct x as [l0 r0]. apply read_line_shorter in Ha.
  match type of H with context [if ?c then _ else _] => destruct c end; [apply IH in H; lia|inv H; lia].
Qed.

Lemma read_arpa_counts_no_oof : forall cur, no_oof (read_arpa_counts cur).
Proof.
  intros cur. unfold read_arpa_counts. apply bind_no_oof; [apply skip_blank_lines_no_oof; lia|].
  intros [l rest] _. destruct (negb (beq l s_data)); [oof_step|]. apply count_lines_no_oof. lia.
Qed.

Lemma read_ngram_header_no_oof : forall n cur, no_oof (read_ngram_header n cur).
Proof.
  intros n cur. unfold read_ngram_header. apply bind_no_oof; [apply skip_blank_lines_no_oof; lia|].
  intros [l rest] _. destruct (beq l (92 :: decimal n ++ s_grams_colon)); oof_step.
Qed.
Lemma read_ngram_header_shorter : forall n cur r, read_ngram_header n cur = Ok r -> (length r < length cur)%nat.
Proof.
  intros n cur r H. unfold read_ngram_header in H. bind_ok H. destruct x as [l rest]. apply skip_blank_lines_shorter in Ha.
  destruct (beq l (92 :: decimal n ++ s_grams_colon)); [inv H; lia|discriminate].
Qed.

Lemma read_1grams_no_oof : forall fuel count cur words su acc, (length cur < fuel)%nat -> no_oof (read_1grams fuel count cur words su acc).
Proof.
  induction fuel as [|f IH]; intros count cur words su acc Hf; [lia|]. simpl.
  destruct (count =? 0); [oof_step|].
  apply bind_no_oof; [apply read_1gram_no_oof|]. intros [[[w p] b] r] H. apply read_1gram_shorter in H.
  destruct (is_unk w); apply IH; lia.
Qed.

Lemma insert_key_no_oof : forall k cap t, no_oof (insert_key k cap t).
Proof. intros k cap t. unfold insert_key, no_oof. destruct (cap <=? N.of_nat (length t) + 1); discriminate. Qed.

Lemma find_lower_no_oof : forall k ids caps ts, no_oof (find_lower k ids caps ts).
Proof.
  induction k as [|k IH]; intros ids caps ts; simpl; [oof_step|].
  destruct k as [|k']; [oof_step|].
  match goal with |- context [if ?c then _ else _] => destruct c end; [oof_step|].
  apply bind_no_oof; [apply insert_key_no_oof|]. intros t' _. apply IH.
Qed.

Lemma probing_entry_no_oof : forall n ids caps ts, no_oof (probing_entry n ids caps ts).
Proof.
  intros n ids caps ts. unfold probing_entry. apply bind_no_oof; [apply insert_key_no_oof|]. intros t' _.
  apply bind_no_oof; [apply find_lower_no_oof|]. intros ts2 _.
  destruct (Nat.leb 3 n); [|oof_step]. destruct (mem_key (firstn (n - 1) ids) (nth_table ts2 (n - 3))); oof_step.
Qed.

Lemma read_ngrams_no_oof : forall fuel st n longest count words caps cur ts acc, (length cur < fuel)%nat ->
  no_oof (read_ngrams fuel st n longest count words caps cur ts acc).
Proof.
  induction fuel as [|f IH]; intros st n longest count words caps cur ts acc Hf; [lia|]. simpl.
  destruct (count =? 0); [oof_step|].
  apply bind_no_oof; [apply read_ngram_no_oof|]. intros [e r] H. apply read_ngram_shorter in H.
  apply bind_no_oof; [destruct st; [apply probing_entry_no_oof|oof_step]|]. intros ts' _. apply IH. lia.
Qed.

Lemma read_sections_no_oof : forall counts st n words caps cur ts acc, no_oof (read_sections st n counts words caps cur ts acc).
Proof.
  induction counts as [|c more IH]; intros st n words caps cur ts acc; cbn [read_sections]; [oof_step|].
  apply bind_no_oof; [apply read_ngram_header_no_oof|]. intros r _.
  apply bind_no_oof; [apply read_ngrams_no_oof; lia|]. intros [[es ts'] r'] _. apply IH.
Qed.

Lemma only_blank_lines_no_oof : forall fuel cur, (length cur < fuel)%nat -> no_oof (only_blank_lines fuel cur).
Proof.
  induction fuel as [|f IH]; intros cur Hf; [lia|]. simpl. destruct (read_line cur) as [[l rest]|e] eqn:E; [|oof_step].
  apply read_line_shorter in E. destruct (entirely_whitespace l); [apply IH; lia|oof_step].
Qed.

Lemma read_end_no_oof : forall cur, no_oof (read_end cur).
Proof.
  intros cur. unfold read_end. apply bind_no_oof; [apply skip_blank_lines_no_oof; lia|].
  intros [l rest] _. destruct (beq l s_end); [apply only_blank_lines_no_oof; lia|oof_step].
Qed.

Lemma parse_arpa_text_no_oof : forall st file, no_oof (parse_arpa_text st file).
Proof.
  intros st file. unfold parse_arpa_text. apply bind_no_oof; [apply read_arpa_counts_no_oof|]. intros [counts r0] _.
  destruct (Nat.ltb KENLM_MAX_ORDER (length counts)); [oof_step|]. destruct (Nat.ltb (length counts) 2); [oof_step|]. destruct (hd 0 counts =? 0); [oof_step|].
  apply bind_no_oof; [apply read_ngram_header_no_oof|]. intros r1 _.
  apply bind_no_oof; [apply read_1grams_no_oof; lia|]. intros [[[words su] unigrams] r2] _.
  destruct (index words s_bos =? 0); [oof_step|]. destruct (index words s_eos =? 0); [oof_step|].
  apply bind_no_oof; [apply read_sections_no_oof|]. intros [[sections ts] r3] _.
  apply bind_no_oof; [apply read_end_no_oof|]. intros _ _.
  destruct st; [oof_step|]. destruct (trie_contexts 2 sections); oof_step.
Qed.

Lemma parse_arpa_terminates : forall st file, parse_arpa st file <> Err OutOfFuel.
Proof.
  intros st file. unfold parse_arpa.
  destruct (is_binary_file file); [discriminate|].
  destruct (Nat.ltb 88 (length file) && starts_with magic_incomplete file); [discriminate|].
  destruct (Nat.ltb 88 (length file) && starts_with magic_before_version file); [discriminate|].
  destruct (compressed_magic file); [discriminate|]. apply parse_arpa_text_no_oof.
Qed.

(* ---- what acceptance implies ---------------------------------------------------------------------------------------------- *)
(* an n-gram entry as the query code relies on it *)
Definition entry_ok (words : list (list N)) (n : nat) (longest : bool) (e : entry) : Prop :=
  length (e_ids e) = n /\ length (e_words e) = n /\ e_ids e = map (index words) (e_words e) /\
  (forall w, In w (e_words e) -> index words w = 0 -> is_unk w = true) /\
  is_positive (e_prob e) = false /\ is_nan_or_inf (e_backoff e) = false /\
  (longest = true -> e_backoff e = FZero true).

Definition unigram_ok (e : entry) : Prop :=
  length (e_words e) = 1%nat /\ is_positive (e_prob e) = false /\ is_nan_or_inf (e_backoff e) = false.

Fixpoint sections_ok (words : list (list N)) (n : nat) (counts : list N) (secs : list (list entry)) : Prop :=
  match counts, secs with
  | [], [] => True
  | c :: cs, es :: ss => N.of_nat (length es) = c /\ Forall (entry_ok words n (match cs with [] => true | _ => false end)) es /\
                         sections_ok words (S n) cs ss
  | _, _ => False
  end.

Record wellformed (m : model) : Prop := {
  wf_order : (2 <= length (m_counts m) <= KENLM_MAX_ORDER)%nat;
  wf_unigram_count : N.of_nat (length (m_unigrams m)) = hd 0 (m_counts m);
  wf_unigrams : Forall unigram_ok (m_unigrams m);
  wf_sections : sections_ok (m_words m) 2 (tl (m_counts m)) (m_sections m);
  wf_bos : index (m_words m) s_bos <> 0;
  wf_eos : index (m_words m) s_eos <> 0
}.

Lemma read_backoff_middle_finite : forall cur v r, read_backoff_middle cur = Ok (v, r) -> is_nan_or_inf v = false.
Proof.
  intros cur v r H. unfold read_backoff_middle in H. bind_ok H. destruct x as [c r0].
  destruct (c =? 9).
  - bind_ok H. destruct x as [v1 r1]. destruct (is_nan_or_inf v1) eqn:E; [discriminate|].
    bind_ok H. destruct x as [c2 r2]. destruct (c2 =? 13).
    + bind_ok H. inv H. exact E.
    + destruct (c2 =? 10); [inv H; exact E|discriminate].
  - destruct (c =? 13).
    + bind_ok H. inv H. reflexivity.
    + destruct (c =? 10); [inv H; reflexivity|discriminate].
Qed.

Lemma read_1gram_ok : forall cur w p b r, read_1gram cur = Ok (w, p, b, r) -> is_positive p = false /\ is_nan_or_inf b = false.
Proof.
  intros cur w p b r H. unfold read_1gram in H. bind_ok H. destruct x as [p0 r0].
  destruct (is_positive p0) eqn:P; [discriminate|]. bind_ok H. destruct x as [c r1].
  destruct (negb (c =? 9)); [discriminate|]. bind_ok H. destruct x as [w0 r2].
  bind_ok H. destruct x as [b0 r3]. apply read_backoff_middle_finite in Ha2. inv H. split; assumption.
Qed.

Lemma read_1grams_ok : forall fuel count cur words su acc words' su' us r,
  read_1grams fuel count cur words su acc = Ok (words', su', us, r) -> Forall unigram_ok acc ->
  N.of_nat (length us) = N.of_nat (length acc) + count /\ Forall unigram_ok us.
Proof.
  induction fuel as [|f IH]; intros count cur words su acc words' su' us r H Hacc; simpl in H.
  - destruct (count =? 0) eqn:C; [|discriminate]. inv H. apply N.eqb_eq in C. subst. rewrite rev_length. split; [lia|].
    apply Forall_rev. exact Hacc.
  - destruct (count =? 0) eqn:C.
    + inv H. apply N.eqb_eq in C. subst. rewrite rev_length. split; [lia|]. apply Forall_rev. exact Hacc.
    + apply N.eqb_neq in C. bind_ok H. destruct x as [[[w p] b] r0]. apply read_1gram_ok in Ha. destruct Ha as [P B].
      assert (Hn : Forall unigram_ok ({| e_prob := p; e_ids := []; e_words := [w]; e_backoff := b |} :: acc)).
      { constructor; [|exact Hacc]. repeat split; assumption. }
      destruct (is_unk w); apply IH in H; try exact Hn; destruct H as [L F]; (split; [cbn [length] in L; rewrite Nat2N.inj_succ in L; lia|exact F]).
Qed.

Lemma read_words_ok : forall n words cur ids ws ids' ws' r,
  read_words n words cur ids ws = Ok (ids', ws', r) ->
  exists new, ids' = rev ids ++ map (index words) new /\ ws' = rev ws ++ new /\ length new = n /\
              (forall w, In w new -> index words w = 0 -> is_unk w = true).
Proof.
  induction n as [|k IH]; intros words cur ids ws ids' ws' r H; simpl in H.
  - inv H. exists []. simpl. rewrite !app_nil_r. repeat split; auto; intros w [].
  - bind_ok H. destruct x as [w r0]. destruct ((index words w =? 0) && negb (is_unk w)) eqn:E; [discriminate|].
    apply IH in H. destruct H as [new [A [B [C D]]]]. exists (w :: new). simpl in A, B. rewrite <- app_assoc in A, B.
    repeat split; auto; [simpl; lia|]. intros w' [X|X] Z.
    + subst w'. apply andb_false_iff in E. destruct E as [E|E].
      * apply N.eqb_neq in E. contradiction.
      * apply negb_false_iff in E. exact E.
    + apply D; assumption.
Qed.

Lemma read_backoff_longest_is_zero : True. Proof. exact I. Qed.

Lemma read_ngram_ok : forall n longest words cur e r, read_ngram n longest words cur = Ok (e, r) -> entry_ok words n longest e.
Proof.
  intros n longest words cur e r H. unfold read_ngram in H. bind_ok H. destruct x as [p0 r0].
  destruct (is_positive p0) eqn:P; [discriminate|]. bind_ok H. destruct x as [[ids ws] r1].
  apply read_words_ok in Ha0. destruct Ha0 as [new [A [B [C D]]]]. simpl in A, B. subst ids ws.
  destruct longest.
  - bind_ok H. inv H. unfold entry_ok. simpl. rewrite map_length. repeat split; auto.
  - bind_ok H. destruct x as [b r2]. apply read_backoff_middle_finite in Ha0. inv H. unfold entry_ok. simpl. rewrite map_length.
    repeat split; auto. discriminate.
Qed.

Lemma read_ngrams_ok : forall fuel st n longest count words caps cur ts acc es ts' r,
  read_ngrams fuel st n longest count words caps cur ts acc = Ok (es, ts', r) -> Forall (entry_ok words n longest) acc ->
  N.of_nat (length es) = N.of_nat (length acc) + count /\ Forall (entry_ok words n longest) es.
Proof.
  induction fuel as [|f IH]; intros st n longest count words caps cur ts acc es ts' r H Hacc; simpl in H.
  - destruct (count =? 0) eqn:C; [|discriminate]. inv H. apply N.eqb_eq in C. subst. rewrite rev_length. split; [lia|apply Forall_rev; exact Hacc].
  - destruct (count =? 0) eqn:C.
    + inv H. apply N.eqb_eq in C. subst. rewrite rev_length. split; [lia|apply Forall_rev; exact Hacc].
    + apply N.eqb_neq in C. bind_ok H. destruct x as [e r0]. apply read_ngram_ok in Ha. bind_ok H.
      apply IH in H; [|constructor; assumption]. destruct H as [L F]. split; [cbn [length] in L; rewrite Nat2N.inj_succ in L; lia|exact F].
Qed.

Lemma read_sections_ok : forall counts st n words caps cur ts acc secs ts' r,
  read_sections st n counts words caps cur ts acc = Ok (secs, ts', r) ->
  exists new, secs = rev acc ++ new /\ sections_ok words n counts new.
Proof.
  induction counts as [|c more IH]; intros st n words caps cur ts acc secs ts' r H; cbn [read_sections] in H.
  - inv H. exists []. rewrite app_nil_r. split; [reflexivity|exact I].
  - bind_ok H. bind_ok H. destruct x0 as [[es ts1] r1]. apply read_ngrams_ok in Ha0; [|constructor].
    destruct Ha0 as [L F]. apply IH in H. destruct H as [new [A B]]. exists (es :: new). split.
    + rewrite A. simpl. rewrite <- app_assoc. reflexivity.
    + simpl. repeat split; [simpl in L; lia|exact F|exact B].
Qed.

Lemma parse_arpa_text_wellformed : forall st file m, parse_arpa_text st file = Ok m -> wellformed m.
Proof.
  intros st file m H. unfold parse_arpa_text in H. bind_ok H. destruct x as [counts r0].
  destruct (Nat.ltb KENLM_MAX_ORDER (length counts)) eqn:O1; [discriminate|].
  destruct (Nat.ltb (length counts) 2) eqn:O2; [discriminate|]. destruct (hd 0 counts =? 0); [discriminate|].
  apply Nat.ltb_ge in O1. apply Nat.ltb_ge in O2.
  bind_ok H. bind_ok H. destruct x0 as [[[words su] unigrams] r2]. apply read_1grams_ok in Ha1; [|constructor]. destruct Ha1 as [L1 F1].
  destruct (index words s_bos =? 0) eqn:B; [discriminate|]. destruct (index words s_eos =? 0) eqn:E; [discriminate|].
  apply N.eqb_neq in B. apply N.eqb_neq in E.
  bind_ok H. destruct x0 as [[sections ts] r3]. apply read_sections_ok in Ha1. destruct Ha1 as [new [A S]]. simpl in A. subst new.
  bind_ok H.
  assert (W : wellformed {| m_counts := counts; m_words := words; m_saw_unk := su; m_unigrams := unigrams; m_sections := sections; m_tables := ts |}).
  { constructor; simpl; auto. }
  destruct st; [inv H; exact W|]. destruct (trie_contexts 2 sections); [inv H; exact W|discriminate].
Qed.

Lemma parse_arpa_wellformed : forall st file m, parse_arpa st file = Ok m -> wellformed m.
Proof.
  intros st file m H. unfold parse_arpa in H.
  destruct (is_binary_file file); [discriminate|].
  destruct (Nat.ltb 88 (length file) && starts_with magic_incomplete file); [discriminate|].
  destruct (Nat.ltb 88 (length file) && starts_with magic_before_version file); [discriminate|].
  destruct (compressed_magic file); [discriminate|]. eapply parse_arpa_text_wellformed; eauto.
Qed.

Lemma trie_accept_contexts : forall file m, parse_arpa Trie file = Ok m -> trie_contexts 2 (m_sections m) = true.
Proof.
  intros file m H. unfold parse_arpa in H.
  destruct (is_binary_file file); [discriminate|].
  destruct (Nat.ltb 88 (length file) && starts_with magic_incomplete file); [discriminate|].
  destruct (Nat.ltb 88 (length file) && starts_with magic_before_version file); [discriminate|].
  destruct (compressed_magic file); [discriminate|].
  unfold parse_arpa_text in H. bind_ok H. destruct x as [counts r0].
  destruct (Nat.ltb KENLM_MAX_ORDER (length counts)); [discriminate|]. destruct (Nat.ltb (length counts) 2); [discriminate|]. destruct (hd 0 counts =? 0); [discriminate|].
  bind_ok H. bind_ok H. destruct x0 as [[[words su] unigrams] r2].
  destruct (index words s_bos =? 0); [discriminate|]. destruct (index words s_eos =? 0); [discriminate|].
  bind_ok H. destruct x0 as [[sections ts] r3]. bind_ok H.
  destruct (trie_contexts 2 sections) eqn:T; [inv H; exact T|discriminate].
Qed.

(* ---- probing tables never fill up ------------------------------------------------------------------------------------------- *)
Definition tables_ok (caps : list N) (ts : list table) : Prop := Forall2 (fun cap t => N.of_nat (length t) < cap) caps ts.

Lemma set_table_ok : forall caps ts i t', tables_ok caps ts ->
  ((i < length ts)%nat -> N.of_nat (length t') < nth i caps 0) -> tables_ok caps (set_table ts i t').
Proof.
  intros caps ts i t' H. revert i. induction H as [|cap t caps ts Hc Hr IH]; intros i Hi; simpl; [constructor|].
  destruct i as [|j].
  - constructor; [apply Hi; simpl; lia|exact Hr].
  - constructor; [exact Hc|]. apply IH. intros L. apply Hi. simpl. lia.
Qed.

Lemma insert_key_lt : forall k cap t t', insert_key k cap t = Ok t' -> N.of_nat (length t') < cap.
Proof.
  intros k cap t t' H. unfold insert_key in H. destruct (cap <=? N.of_nat (length t) + 1) eqn:E; [discriminate|]. inv H.
  apply N.leb_gt in E. cbn [length]. rewrite Nat2N.inj_succ. lia.
Qed.

Lemma tables_ok_length : forall caps ts, tables_ok caps ts -> length caps = length ts.
Proof. intros caps ts H. induction H; simpl; congruence. Qed.

Lemma nth_table_nth : forall ts i, nth_table ts i = nth i ts [].
Proof. intros ts i. destruct ts; reflexivity. Qed.

Lemma find_lower_ok : forall k ids caps ts ts', tables_ok caps ts -> find_lower k ids caps ts = Ok ts' -> tables_ok caps ts'.
Proof.
  induction k as [|k IH]; intros ids caps ts ts' T H; simpl in H; [inv H; exact T|].
  destruct k as [|k']; [inv H; exact T|].
  match type of H with context [if ?c then _ else _] => destruct c end; [inv H; exact T|].
  bind_ok H. apply insert_key_lt in Ha. eapply IH; [|exact H]. apply set_table_ok; [exact T|]. intros _. exact Ha.
Qed.

Lemma probing_entry_ok : forall n ids caps ts ts', tables_ok caps ts -> probing_entry n ids caps ts = Ok ts' -> tables_ok caps ts'.
Proof.
  intros n ids caps ts ts' T H. unfold probing_entry in H. bind_ok H. apply insert_key_lt in Ha. bind_ok H.
  apply find_lower_ok in Ha0; [|apply set_table_ok; [exact T|intros _; exact Ha]].
  destruct (Nat.leb 3 n); [|inv H; exact Ha0].
  match type of H with context [if ?c then _ else _] => destruct c end; [inv H; exact Ha0|discriminate].
Qed.

Lemma read_ngrams_tables_ok : forall fuel st n longest count words caps cur ts acc es ts' r,
  tables_ok caps ts -> read_ngrams fuel st n longest count words caps cur ts acc = Ok (es, ts', r) -> tables_ok caps ts'.
Proof.
  induction fuel as [|f IH]; intros st n longest count words caps cur ts acc es ts' r T H; simpl in H.
  - destruct (count =? 0); [inv H; exact T|discriminate].
  - destruct (count =? 0); [inv H; exact T|]. bind_ok H. destruct x as [e r0]. bind_ok H.
    eapply IH; [|exact H]. destruct st; [eapply probing_entry_ok; eauto|inv Ha0; exact T].
Qed.

Lemma read_sections_tables_ok : forall counts st n words caps cur ts acc secs ts' r,
  tables_ok caps ts -> read_sections st n counts words caps cur ts acc = Ok (secs, ts', r) -> tables_ok caps ts'.
Proof.
  induction counts as [|c more IH]; intros st n words caps cur ts acc secs ts' r T H; cbn [read_sections] in H; [inv H; exact T|].
  bind_ok H. bind_ok H. destruct x0 as [[es ts1] r1]. apply read_ngrams_tables_ok in Ha0; [|exact T]. eapply IH; eauto.
Qed.

Lemma buckets_pos : forall e, 0 < buckets e.
Proof. intros e. unfold buckets. lia. Qed.

Lemma initial_tables_ok : forall cs, tables_ok (map buckets cs) (map (fun _ => []) cs).
Proof. induction cs as [|c cs IH]; simpl; constructor; [simpl; apply buckets_pos|exact IH]. Qed.

Lemma probing_tables_never_full : forall file m, parse_arpa Probing file = Ok m ->
  tables_ok (map buckets (tl (m_counts m))) (m_tables m).
Proof.
  intros file m H. unfold parse_arpa in H.
  destruct (is_binary_file file); [discriminate|].
  destruct (Nat.ltb 88 (length file) && starts_with magic_incomplete file); [discriminate|].
  destruct (Nat.ltb 88 (length file) && starts_with magic_before_version file); [discriminate|].
  destruct (compressed_magic file); [discriminate|].
  unfold parse_arpa_text in H. bind_ok H. destruct x as [counts r0].
  destruct (Nat.ltb KENLM_MAX_ORDER (length counts)); [discriminate|]. destruct (Nat.ltb (length counts) 2); [discriminate|]. destruct (hd 0 counts =? 0); [discriminate|].
  bind_ok H. bind_ok H. destruct x0 as [[[words su] unigrams] r2].
  destruct (index words s_bos =? 0); [discriminate|]. destruct (index words s_eos =? 0); [discriminate|].
  bind_ok H. destruct x0 as [[sections ts] r3]. bind_ok H. inv H. simpl.
  eapply read_sections_tables_ok; [|exact Ha2]. apply initial_tables_ok.
Qed.

(* ---- rejection classes ------------------------------------------------------------------------------------------------------ *)
Lemma reject_empty_file : forall st, parse_arpa st [] = Err EndOfFile.
Proof. intros []; reflexivity. Qed.

Lemma reject_wrong_first_line : forall st file l rest,
  skip_blank_lines (S (length file)) true file = Ok (l, rest) -> beq l s_data = false -> parse_arpa_text st file = Err Format.
Proof. intros st file l rest H B. unfold parse_arpa_text, read_arpa_counts. rewrite H. simpl. rewrite B. reflexivity. Qed.

Lemma reject_order_out_of_range : forall st file counts r,
  read_arpa_counts file = Ok (counts, r) -> (KENLM_MAX_ORDER < length counts \/ length counts < 2)%nat ->
  parse_arpa_text st file = Err Format.
Proof.
  intros st file counts r H O. unfold parse_arpa_text. rewrite H. simpl.
  destruct (Nat.ltb KENLM_MAX_ORDER (length counts)) eqn:A; [reflexivity|]. destruct (Nat.ltb (length counts) 2) eqn:B; [reflexivity|].
  apply Nat.ltb_ge in A. apply Nat.ltb_ge in B. lia.
Qed.

Lemma reject_truncated_before_counts_end : forall st file, (forall l rest, read_line file <> Ok (l, rest)) -> parse_arpa_text st file = Err EndOfFile.
Proof.
  intros st file H. unfold parse_arpa_text, read_arpa_counts. simpl. unfold read_line in *. destruct file as [|c s]; [reflexivity|].
  exfalso. destruct (take_line (c :: s)) as [l [r|]]; eapply H; reflexivity.
Qed.

Lemma reject_positive_probability : forall n longest words cur v r,
  read_float cur = Ok (v, r) -> is_positive v = true -> read_ngram n longest words cur = Err Format.
Proof. intros n longest words cur v r H P. unfold read_ngram. rewrite H. simpl. rewrite P. reflexivity. Qed.

Lemma reject_positive_unigram_probability : forall cur v r,
  read_float cur = Ok (v, r) -> is_positive v = true -> read_1gram cur = Err Format.
Proof. intros cur v r H P. unfold read_1gram. rewrite H. simpl. rewrite P. reflexivity. Qed.

Lemma reject_bad_number_propagates : forall n longest words cur e, read_float cur = Err e -> read_ngram n longest words cur = Err e.
Proof. intros n longest words cur e H. unfold read_ngram. rewrite H. reflexivity. Qed.

Lemma reject_unknown_word : forall k words cur ids ws w r,
  read_delimited kARPASpaces cur = Ok (w, r) -> index words w = 0 -> is_unk w = false ->
  read_words (S k) words cur ids ws = Err Format.
Proof. intros k words cur ids ws w r H I U. simpl. rewrite H. simpl. rewrite I, U. reflexivity. Qed.

Lemma reject_missing_tab_after_probability : forall cur v r c r1,
  read_float cur = Ok (v, r) -> is_positive v = false -> get r = Ok (c, r1) -> c <> 9 -> read_1gram cur = Err Format.
Proof.
  intros cur v r c r1 H P G C. unfold read_1gram. rewrite H. simpl. rewrite P, G. simpl.
  apply N.eqb_neq in C. rewrite C. reflexivity.
Qed.

Lemma reject_nonzero_backoff_on_longest : forall cur r v r1,
  get cur = Ok (9, r) -> read_float r = Ok (v, r1) -> is_zero v = false -> read_backoff_longest cur = Err Format.
Proof. intros cur r v r1 G F Z. unfold read_backoff_longest. rewrite G. simpl. rewrite F. simpl. rewrite Z. reflexivity. Qed.

Lemma reject_infinite_backoff : forall cur r v r1,
  get cur = Ok (9, r) -> read_float r = Ok (v, r1) -> is_nan_or_inf v = true -> read_backoff_middle cur = Err Format.
Proof. intros cur r v r1 G F Z. unfold read_backoff_middle. rewrite G. simpl. rewrite F. simpl. rewrite Z. reflexivity. Qed.

Lemma reject_wrong_section_header : forall n cur l rest,
  skip_blank_lines (S (length cur)) false cur = Ok (l, rest) -> beq l (92 :: decimal n ++ s_grams_colon) = false ->
  read_ngram_header n cur = Err Format.
Proof. intros n cur l rest H B. unfold read_ngram_header. rewrite H. simpl. rewrite B. reflexivity. Qed.

Lemma reject_missing_end : forall cur l rest,
  skip_blank_lines (S (length cur)) false cur = Ok (l, rest) -> beq l s_end = false -> read_end cur = Err Format.
Proof. intros cur l rest H B. unfold read_end. rewrite H. simpl. rewrite B. reflexivity. Qed.

Lemma take_line_in : forall s l a, take_line s = (l, a) ->
  (forall x, In x l -> In x s) /\ (forall r, a = Some r -> forall x, In x r -> In x s).
Proof.
  induction s as [|y t IH]; intros l a E; simpl in E.
  - inv E. split; [intros x []|intros r R; discriminate].
  - destruct (y =? 10).
    + inv E. split; [intros x []|]. intros r R x X. inv R. right. exact X.
    + destruct (take_line t) as [l' a'] eqn:E'. inv E. destruct (IH _ _ eq_refl) as [A B]. split.
      * intros x [X|X]; [left; exact X|right; apply A; exact X].
      * intros r R x X. right. eapply B; eauto.
Qed.

Lemma strip_cr_prefix : forall l, exists t, l = strip_cr l ++ t.
Proof.
  induction l as [|c r [t IH]]; [exists []; reflexivity|]. cbn [strip_cr]. destruct r as [|d r'].
  - destruct (c =? 13); [exists [c]|exists []]; reflexivity.
  - exists t. rewrite IH at 1. reflexivity.
Qed.

Lemma strip_cr_in : forall l x, In x (strip_cr l) -> In x l.
Proof.
  intros l x X. destruct (strip_cr_prefix l) as [t T]. rewrite T. apply in_or_app. left. exact X.
Qed.

(* nothing but white space is left where a section header or the end marker is expected: EndOfFileException *)
Lemma reject_end_of_input_before_end_marker : forall fuel b cur, (forall c, In c cur -> c_isspace c = true) -> (length cur < fuel)%nat ->
  skip_blank_lines fuel b cur = Err EndOfFile.
Proof.
  induction fuel as [|f IH]; intros b cur W L; [lia|]. cbn [skip_blank_lines]. destruct cur as [|c s]; [reflexivity|].
  unfold read_line. destruct (take_line (c :: s)) as [l [r|]] eqn:E; cbn [bind].
  - destruct (take_line_in _ _ _ E) as [A B].
    assert (Wl : entirely_whitespace (strip_cr l) = true).
    { apply forallb_forall. intros x X. apply W. apply A. apply strip_cr_in. exact X. }
    rewrite Wl. cbn [orb]. apply IH; [intros x X; apply W; eapply B; eauto|]. apply take_line_length in E. simpl in *. lia.
  - destruct (take_line_in _ _ _ E) as [A _].
    assert (Wl : entirely_whitespace l = true).
    { apply forallb_forall. intros x X. apply W. apply A. exact X. }
    rewrite Wl. cbn [orb]. destruct f; [simpl in L; lia|reflexivity].
Qed.

(* binary header *)
Definition hdr_fixed (file : list N) := firstn 20 (skipn 88 file).
Definition hdr_order (file : list N) := nth 0 (hdr_fixed file) 0.
Definition hdr_multiplier (file : list N) := le32 (skipn 4 (hdr_fixed file)).
Definition hdr_type (file : list N) := le32 (skipn 8 (hdr_fixed file)).
Definition hdr_search_version (file : list N) := le32 (skipn 16 (hdr_fixed file)).

Lemma binary_reject_short_header : forall file req en, (length file < 108)%nat -> check_binary_header file req en = BinReject EndOfFile.
Proof.
  intros file req en H. unfold check_binary_header.
  assert (L : (length (firstn 20 (skipn 88 file)) < 20)%nat) by (rewrite firstn_length, skipn_length; lia).
  apply Nat.ltb_lt in L. rewrite L. reflexivity.
Qed.

Ltac destruct_ifs := repeat match goal with |- context [if ?c then _ else _] => destruct c eqn:?; eauto end.

Lemma binary_reject_wrong_type : forall file t en, hdr_type file <> t -> exists e, check_binary_header file (Some t) en = BinReject e.
Proof.
  intros file t en H. unfold check_binary_header. fold (hdr_fixed file). fold (hdr_type file).
  destruct (Nat.ltb (length (hdr_fixed file)) 20); eauto. destruct (multiplier_rejected _); eauto.
  destruct (Nat.ltb _ _); eauto. apply N.eqb_neq in H. rewrite H. simpl. eauto.
Qed.

Lemma binary_reject_unknown_type : forall file en, 6 <= hdr_type file -> exists e, check_binary_header file None en = BinReject e.
Proof.
  intros file en H. unfold check_binary_header. fold (hdr_fixed file). fold (hdr_type file).
  destruct (Nat.ltb (length (hdr_fixed file)) 20); eauto. destruct (multiplier_rejected _); eauto.
  destruct (Nat.ltb _ _); eauto. rewrite N.eqb_refl. simpl. apply N.leb_le in H. rewrite H. eauto.
Qed.

Lemma binary_reject_bad_multiplier : forall file req en, multiplier_rejected (hdr_multiplier file) = true ->
  exists e, check_binary_header file req en = BinReject e.
Proof.
  intros file req en H. unfold check_binary_header. fold (hdr_fixed file). fold (hdr_multiplier file).
  destruct (Nat.ltb (length (hdr_fixed file)) 20); eauto. rewrite H. eauto.
Qed.

Lemma multiplier_nan_rejected : multiplier_rejected 2143289344 = true.      (* 0x7fc00000 *)
Proof. reflexivity. Qed.

Lemma binary_reject_order_out_of_range : forall file req en, (hdr_order file < 2 \/ 6 < hdr_order file) ->
  exists e, check_binary_header file req en = BinReject e.
Proof.
  intros file req en H. unfold check_binary_header. fold (hdr_fixed file). fold (hdr_order file).
  destruct_ifs.
  - apply N.ltb_ge in Heqb5. apply N.ltb_ge in Heqb6. lia.
  - apply N.ltb_ge in Heqb5. apply N.ltb_ge in Heqb6. lia.
Qed.

Lemma binary_reject_search_version : forall file req en, hdr_search_version file <> search_version (hdr_type file) ->
  exists e, check_binary_header file req en = BinReject e.
Proof.
  intros file req en H. unfold check_binary_header. fold (hdr_fixed file). fold (hdr_type file). fold (hdr_search_version file).
  apply N.eqb_neq in H. destruct_ifs; rewrite H in *; simpl in *; discriminate.
Qed.

(* ---- every cursor handed on is a suffix of the file; an accepted file contains the end marker ------------------------------ *)
Definition suffix (r s : list N) : Prop := exists a, s = a ++ r.
Definition contains (p s : list N) : Prop := exists a b, s = a ++ p ++ b.

Lemma suffix_refl : forall s, suffix s s.
Proof. intros s. exists []. reflexivity. Qed.
Lemma suffix_trans : forall a b c, suffix a b -> suffix b c -> suffix a c.
Proof. intros a b c [x X] [y Y]. exists (y ++ x). subst. rewrite app_assoc. reflexivity. Qed.
Lemma suffix_cons : forall c s, suffix s (c :: s).
Proof. intros c s. exists [c]. reflexivity. Qed.
Lemma contains_suffix : forall p r s, suffix r s -> contains p r -> contains p s.
Proof. intros p r s [x X] [a [b B]]. exists (x ++ a), b. subst. rewrite app_assoc. reflexivity. Qed.
Lemma suffix_skip_while : forall f s, suffix (skip_while f s) s.
Proof. intros f s. destruct (skip_while_app f s) as [a A]. exists a. exact A. Qed.
Lemma suffix_skipn : forall n (s : list N), suffix (skipn n s) s.
Proof. intros n s. exists (firstn n s). symmetry. apply firstn_skipn. Qed.

Lemma take_line_split : forall s l a, take_line s = (l, a) -> s = l ++ match a with Some r => 10 :: r | None => [] end.
Proof.
  induction s as [|c s IH]; intros l a H; simpl in H; [inv H; reflexivity|].
  destruct (N.eqb_spec c 10).
  - inv H. reflexivity.
  - destruct (take_line s) as [l' a'] eqn:E. inv H. simpl. f_equal. apply IH. reflexivity.
Qed.

(* a line that was read sits in the input, and what follows it is a suffix *)
Lemma read_line_split : forall cur l rest, read_line cur = Ok (l, rest) -> suffix rest cur /\ exists b, cur = l ++ b.
Proof.
  intros cur l rest H. unfold read_line in H. destruct cur as [|c s]; [discriminate|].
  destruct (take_line (c :: s)) as [l' [r|]] eqn:E; inv H; apply take_line_split in E.
  - split; [exists (l' ++ [10]); rewrite E, <- app_assoc; reflexivity|].
    destruct (strip_cr_prefix l') as [t T]. exists (t ++ 10 :: rest). rewrite E. rewrite T at 1. rewrite <- app_assoc. reflexivity.
  - split; [exists (c :: s); rewrite app_nil_r; reflexivity|]. exists []. exact E.
Qed.

Lemma get_suffix : forall cur c r, get cur = Ok (c, r) -> suffix r cur.
Proof. intros [|x s] c r H; simpl in H; [discriminate|]. inv H. apply suffix_cons. Qed.
Lemma skip_spaces_suffix : forall d cur r, skip_spaces d cur = Ok r -> suffix r cur.
Proof. intros d cur r H. unfold skip_spaces in H. destruct (skip_while d cur) eqn:E; [discriminate|]. inv H. rewrite <- E. apply suffix_skip_while. Qed.
Lemma read_delimited_suffix : forall d cur w r, read_delimited d cur = Ok (w, r) -> suffix r cur.
Proof.
  intros d cur w r H. unfold read_delimited in H. bind_ok H. inv H. apply skip_spaces_suffix in Ha.
  eapply suffix_trans; [apply suffix_skip_while|exact Ha].
Qed.
Lemma read_float_suffix : forall cur v r, read_float cur = Ok (v, r) -> suffix r cur.
Proof.
  intros cur v r H. unfold read_float in H. bind_ok H. apply skip_spaces_suffix in Ha.
  destruct (string_to_float x) as [[v' r']|].
  - assert (S : suffix (advance x r') x) by apply suffix_skipn.
    destruct v'; try (inv H; eapply suffix_trans; [exact S|exact Ha]).
    destruct (beq (consumed x r') s_NaN); [inv H; eapply suffix_trans; [exact S|exact Ha]|discriminate].
  - discriminate.
Qed.
Lemma consume_newline_suffix : forall cur r, consume_newline cur = Ok r -> suffix r cur.
Proof. intros cur r H. unfold consume_newline in H. bind_ok H. destruct x as [c r']. apply get_suffix in Ha. destruct (c =? 10); [inv H; exact Ha|discriminate]. Qed.

Ltac sfx := eauto using suffix_refl, suffix_trans, suffix_cons.

Lemma read_backoff_middle_suffix : forall cur v r, read_backoff_middle cur = Ok (v, r) -> suffix r cur.
Proof.
  intros cur v r H. unfold read_backoff_middle in H. bind_ok H. destruct x as [c r0]. apply get_suffix in Ha.
  destruct (c =? 9).
  - bind_ok H. destruct x as [v1 r1]. apply read_float_suffix in Ha0. destruct (is_nan_or_inf v1); [discriminate|].
    bind_ok H. destruct x as [c2 r2]. apply get_suffix in Ha1. destruct (c2 =? 13).
    + bind_ok H. apply consume_newline_suffix in Ha2. inv H. sfx.
    + destruct (c2 =? 10); [inv H; sfx|discriminate].
  - destruct (c =? 13).
    + bind_ok H. apply consume_newline_suffix in Ha0. inv H. sfx.
    + destruct (c =? 10); [inv H; sfx|discriminate].
Qed.
Lemma read_backoff_longest_suffix : forall cur r, read_backoff_longest cur = Ok r -> suffix r cur.
Proof.
  intros cur r H. unfold read_backoff_longest in H. bind_ok H. destruct x as [c r0]. apply get_suffix in Ha.
  destruct (c =? 9).
  - bind_ok H. destruct x as [v1 r1]. apply read_float_suffix in Ha0. destruct (is_zero v1); [inv H; sfx|discriminate].
  - destruct (c =? 13).
    + apply consume_newline_suffix in H. sfx.
    + destruct (c =? 10); [inv H; sfx|discriminate].
Qed.
Lemma read_1gram_suffix : forall cur w p b r, read_1gram cur = Ok (w, p, b, r) -> suffix r cur.
Proof.
  intros cur w p b r H. unfold read_1gram in H. bind_ok H. destruct x as [p0 r0]. apply read_float_suffix in Ha.
  destruct (is_positive p0); [discriminate|]. bind_ok H. destruct x as [c r1]. apply get_suffix in Ha0.
  destruct (negb (c =? 9)); [discriminate|]. bind_ok H. destruct x as [w0 r2]. apply read_delimited_suffix in Ha1.
  bind_ok H. destruct x as [b0 r3]. apply read_backoff_middle_suffix in Ha2. inv H. sfx.
Qed.
Lemma read_words_suffix : forall n words cur ids ws ids' ws' r, read_words n words cur ids ws = Ok (ids', ws', r) -> suffix r cur.
Proof.
  induction n as [|k IH]; intros words cur ids ws ids' ws' r H; simpl in H; [inv H; sfx|].
  bind_ok H. destruct x as [w r0]. apply read_delimited_suffix in Ha.
  destruct ((index words w =? 0) && negb (is_unk w)); [discriminate|]. apply IH in H. sfx.
Qed.
Lemma read_ngram_suffix : forall n longest words cur e r, read_ngram n longest words cur = Ok (e, r) -> suffix r cur.
Proof.
  intros n longest words cur e r H. unfold read_ngram in H. bind_ok H. destruct x as [p0 r0]. apply read_float_suffix in Ha.
  destruct (is_positive p0); [discriminate|]. bind_ok H. destruct x as [[ids ws] r1]. apply read_words_suffix in Ha0.
  destruct longest.
  - bind_ok H. apply read_backoff_longest_suffix in Ha1. inv H. sfx.
  - bind_ok H. destruct x as [b r2]. apply read_backoff_middle_suffix in Ha1. inv H. sfx.
Qed.

(* the line a blank-skipping loop stops at occurs in the input *)
Lemma skip_blank_lines_split : forall fuel b cur l rest, skip_blank_lines fuel b cur = Ok (l, rest) -> suffix rest cur /\ contains l cur.
Proof.
  induction fuel as [|f IH]; intros b cur l rest H; cbn [skip_blank_lines] in H; [discriminate|].
  bind_ok H. destruct x as [l0 r0]. apply read_line_split in Ha. destruct Ha as [S [t T]].
  match type of H with context [if ?c then _ else _] => destruct c end.
  - apply IH in H. destruct H as [S' C']. split; [sfx|eapply contains_suffix; eauto].
  - inversion H; subst l0 r0; clear H. split; [exact S|]. exists [], t. exact T.
Qed.

Lemma count_lines_suffix : forall fuel cur acc counts r, count_lines fuel cur acc = Ok (counts, r) -> suffix r cur.
Proof.
  induction fuel as [|f IH]; intros cur acc counts r H; cbn [count_lines] in H; [discriminate|].
  bind_ok H. destruct x as [l rest]. apply read_line_split in Ha. destruct Ha as [S _].
  destruct (entirely_whitespace l); [inv H; exact S|]. bind_ok H. apply IH in H. sfx.
Qed.
Lemma read_arpa_counts_suffix : forall cur counts r, read_arpa_counts cur = Ok (counts, r) -> suffix r cur.
Proof.
  intros cur counts r H. unfold read_arpa_counts in H. bind_ok H. destruct x as [l rest]. apply skip_blank_lines_split in Ha. destruct Ha as [S _].
  destruct (negb (beq l s_data)); [discriminate|]. apply count_lines_suffix in H. sfx.
Qed.
Lemma read_ngram_header_suffix : forall n cur r, read_ngram_header n cur = Ok r -> suffix r cur.
Proof.
  intros n cur r H. unfold read_ngram_header in H. bind_ok H. destruct x as [l rest]. apply skip_blank_lines_split in Ha. destruct Ha as [S _].
  destruct (beq l (92 :: decimal n ++ s_grams_colon)); [inv H; exact S|discriminate].
Qed.
Lemma read_1grams_suffix : forall fuel count cur words su acc words' su' us r,
  read_1grams fuel count cur words su acc = Ok (words', su', us, r) -> suffix r cur.
Proof.
  induction fuel as [|f IH]; intros count cur words su acc words' su' us r H; cbn [read_1grams] in H.
  - destruct (count =? 0); [inv H; sfx|discriminate].
  - destruct (count =? 0); [inv H; sfx|]. bind_ok H. destruct x as [[[w p] b] r0]. apply read_1gram_suffix in Ha.
    destruct (is_unk w); apply IH in H; sfx.
Qed.
Lemma read_ngrams_suffix : forall fuel st n longest count words caps cur ts acc es ts' r,
  read_ngrams fuel st n longest count words caps cur ts acc = Ok (es, ts', r) -> suffix r cur.
Proof.
  induction fuel as [|f IH]; intros st n longest count words caps cur ts acc es ts' r H; cbn [read_ngrams] in H.
  - destruct (count =? 0); [inv H; sfx|discriminate].
  - destruct (count =? 0); [inv H; sfx|]. bind_ok H. destruct x as [e r0]. apply read_ngram_suffix in Ha. bind_ok H.
    apply IH in H. sfx.
Qed.
Lemma read_sections_suffix : forall counts st n words caps cur ts acc secs ts' r,
  read_sections st n counts words caps cur ts acc = Ok (secs, ts', r) -> suffix r cur.
Proof.
  induction counts as [|c more IH]; intros st n words caps cur ts acc secs ts' r H; cbn [read_sections] in H; [inv H; sfx|].
  bind_ok H. apply read_ngram_header_suffix in Ha. bind_ok H. destruct x0 as [[es ts1] r1]. apply read_ngrams_suffix in Ha0.
  apply IH in H. sfx.
Qed.

Lemma beq_eq : forall a b, beq a b = true -> a = b.
Proof.
  induction a as [|x a IH]; intros [|y b] H; simpl in H; try discriminate; [reflexivity|].
  apply andb_prop in H. destruct H as [H1 H2]. apply N.eqb_eq in H1. subst. f_equal. apply IH. exact H2.
Qed.

Lemma read_end_contains : forall cur, read_end cur = Ok tt -> contains s_end cur.
Proof.
  intros cur H. unfold read_end in H. bind_ok H. destruct x as [l rest]. apply skip_blank_lines_split in Ha. destruct Ha as [_ C].
  destruct (beq l s_end) eqn:B; [|discriminate]. apply beq_eq in B. subst l. exact C.
Qed.

Lemma accepted_text_contains_end : forall st file m, parse_arpa_text st file = Ok m -> contains s_end file.
Proof.
  intros st file m H. unfold parse_arpa_text in H. bind_ok H. destruct x as [counts r0]. apply read_arpa_counts_suffix in Ha.
  destruct (Nat.ltb KENLM_MAX_ORDER (length counts)); [discriminate|]. destruct (Nat.ltb (length counts) 2); [discriminate|]. destruct (hd 0 counts =? 0); [discriminate|].
  bind_ok H. apply read_ngram_header_suffix in Ha0. bind_ok H. destruct x0 as [[[words su] unigrams] r2]. apply read_1grams_suffix in Ha1.
  destruct (index words s_bos =? 0); [discriminate|]. destruct (index words s_eos =? 0); [discriminate|].
  bind_ok H. destruct x0 as [[sections ts] r3]. apply read_sections_suffix in Ha2.
  bind_ok H. destruct x0. apply read_end_contains in Ha3.
  eapply contains_suffix; [|exact Ha3]. sfx.
Qed.

(* a file in which the bytes \end\ do not occur -- in particular every truncation that cuts before or inside the end marker
   of a file that has only that one -- is rejected *)
Lemma reject_without_end_marker : forall st file, ~ contains s_end file -> forall m, parse_arpa st file <> Ok m.
Proof.
  intros st file N m H. apply N. unfold parse_arpa in H.
  destruct (is_binary_file file); [discriminate|].
  destruct (Nat.ltb 88 (length file) && starts_with magic_incomplete file); [discriminate|].
  destruct (Nat.ltb 88 (length file) && starts_with magic_before_version file); [discriminate|].
  destruct (compressed_magic file); [discriminate|]. eapply accepted_text_contains_end; eauto.
Qed.

(* the truncation statement proper: cut an accepted file anywhere before its (first and only needed) end marker is complete *)
Lemma reject_truncated : forall st file k, ~ contains s_end (firstn k file) -> forall m, parse_arpa st (firstn k file) <> Ok m.
Proof. intros st file k N. apply reject_without_end_marker. exact N. Qed.

(* a decision procedure for `contains`, to evaluate the hypothesis on concrete files *)
Fixpoint containsb (p s : list N) : bool :=
  starts_with p s || match s with [] => false | _ :: r => containsb p r end.

Lemma starts_with_app : forall p b, starts_with p (p ++ b) = true.
Proof. induction p as [|x p IH]; intros b; simpl; [reflexivity|]. rewrite N.eqb_refl. simpl. apply IH. Qed.

Lemma containsb_complete : forall p s, contains p s -> containsb p s = true.
Proof.
  intros p s [a [b H]]. subst s. induction a as [|x a IH]; simpl.
  - pose proof (starts_with_app p b) as S. unfold containsb. destruct (p ++ b); rewrite S; reflexivity.
  - rewrite IH. apply orb_true_r.
Qed.

Example truncation_hypothesis_satisfiable :
  contains s_end (s_data ++ [10] ++ s_end ++ [10]) /\ ~ contains s_end (firstn 11 (s_data ++ [10] ++ s_end ++ [10])).
Proof.
  split.
  - exists (s_data ++ [10]), [10]. rewrite <- !app_assoc. reflexivity.
  - intros C. apply containsb_complete in C. vm_compute in C. discriminate.
Qed.

(* ---- LoadBinary ---------------------------------------------------------------------------------------------------------------- *)
Lemma binary_size_accept_inside : forall file_size order size,
  check_binary_size file_size order size = BinUndecided ->
  forall offset, offset < total_header_size order + size -> offset < file_size.
Proof.
  intros fs o sz H off L. unfold check_binary_size in H.
  destruct (fs <? total_header_size o + sz) eqn:E; [discriminate|]. apply N.ltb_ge in E. lia.
Qed.

Lemma binary_size_reject_truncated : forall file_size order size,
  file_size < total_header_size order + size -> check_binary_size file_size order size = BinReject Format.
Proof. intros fs o sz H. unfold check_binary_size. apply N.ltb_lt in H. rewrite H. reflexivity. Qed.

(* the header counts too: a file that misses no more than the header's worth of bytes is still rejected *)
Lemma binary_size_header_counts : forall order size t, 0 < t -> t <= total_header_size order ->
  check_binary_size (total_header_size order + size - t) order size = BinReject Format.
Proof. intros o sz t T1 T2. apply binary_size_reject_truncated. lia. Qed.

Example header_size_trigram : total_header_size 3 = 136.
Proof. reflexivity. Qed.
