(* C10 -- array model of the trie's sorted child ranges (lm/trie.hh BitPackedMiddle / BitPackedLongest, lm/search_trie.hh
   LookupUnigram / LookupMiddle / LookupLongest): every level is an array of records (word, next); the children of record
   i of one level are the records [next i, next (i+1)) of the level below; the unigram level is indexed by word id.
   The model logs every array access as (length of the array, index); a query is safe when every logged index is below
   the logged length.  The range search is the linear one: util::BoundedSortedUniformFind probes only inside the same
   [begin, end) (C20 proves its pivots stay inside the range), so the set of touched indices is a subset.              *)
From Coq Require Import List NArith Arith Lia Bool.
Import ListNotations.

Record level := { lv_words : list N; lv_next : list nat }.         (* lv_next = [] on the last level *)
Record trie := { t_unigram_next : list nat; t_levels : list level }.

Inductive access := Acc (array_length index : nat).
Definition in_bounds (a : access) : Prop := match a with Acc len i => (i < len)%nat end.

(* look for w among the n records starting at b *)
Fixpoint find_range (ws : list N) (b n : nat) (w : N) : option nat * list access :=
  match n with
  | O => (None, [])
  | S k => if N.eqb (nth b ws 0%N) w then (Some b, [Acc (length ws) b])
           else let '(r, a) := find_range ws (S b) k w in (r, Acc (length ws) b :: a)
  end.

(* follow the remaining words of an n-gram through the levels below the current record's child range [b, e) *)
Fixpoint walk (levels : list level) (b e : nat) (path : list N) : list access :=
  match path, levels with
  | w :: rest, L :: more =>
    let '(found, acc) := find_range (lv_words L) b (e - b) w in
    match found, more with
    | Some i, _ :: _ =>
      acc ++ [Acc (length (lv_next L)) i; Acc (length (lv_next L)) (S i)] ++
      walk more (nth i (lv_next L) 0%nat) (nth (S i) (lv_next L) 0%nat) rest
    | _, _ => acc
    end
  | _, _ => []
  end.

Definition query (t : trie) (ngram : list N) : list access :=
  match ngram with
  | [] => []
  | w1 :: rest =>
    let i := N.to_nat w1 in
    [Acc (length (t_unigram_next t)) i; Acc (length (t_unigram_next t)) (S i)] ++
    walk (t_levels t) (nth i (t_unigram_next t) 0%nat) (nth (S i) (t_unigram_next t) 0%nat) rest
  end.

(* the invariant the builder establishes (WriteEntries + FinishedLoading): child ranges are monotone and end inside
   the array below *)
Definition ptrs_ok (next : list nat) (below : nat) : Prop :=
  forall i, (S i < length next)%nat -> (nth i next 0 <= nth (S i) next 0)%nat /\ (nth (S i) next 0 <= below)%nat.

Fixpoint levels_ok (levels : list level) : Prop :=
  match levels with
  | [] => True
  | L :: more =>
    match more with
    | [] => True
    | M :: _ => length (lv_next L) = S (length (lv_words L)) /\ ptrs_ok (lv_next L) (length (lv_words M))
    end /\ levels_ok more
  end.

Definition trie_ok (t : trie) (vocab : nat) : Prop :=
  length (t_unigram_next t) = S vocab /\
  ptrs_ok (t_unigram_next t) (match t_levels t with [] => 0 | L :: _ => length (lv_words L) end) /\
  levels_ok (t_levels t).

(* ---- proofs (this file is small enough to keep them next to the model; it is not extracted) ------------------------- *)
Lemma find_range_ok : forall n ws b w r a, find_range ws b n w = (r, a) -> (b + n <= length ws)%nat ->
  Forall in_bounds a /\ (forall i, r = Some i -> (b <= i < b + n)%nat).
Proof.
  induction n as [|k IH]; intros ws b w r a H L; simpl in H.
  - inversion H; subst. split; [constructor|intros i X; discriminate].
  - destruct (N.eqb (nth b ws 0%N) w).
    + inversion H; subst. split; [constructor; [simpl; lia|constructor]|]. intros i X. inversion X; subst. lia.
    + destruct (find_range ws (S b) k w) as [r' a'] eqn:E. inversion H; subst.
      destruct (IH ws (S b) w r a' E ltac:(lia)) as [F R]. split; [constructor; [simpl; lia|exact F]|].
      intros i X. specialize (R i X). lia.
Qed.

Lemma walk_in_bounds : forall levels b e path, levels_ok levels ->
  (b <= e)%nat -> (e <= match levels with [] => 0 | L :: _ => length (lv_words L) end)%nat ->
  Forall in_bounds (walk levels b e path).
Proof.
  induction levels as [|L more IH]; intros b e path W Hbe He; destruct path as [|w rest]; simpl; try constructor.
  destruct (find_range (lv_words L) b (e - b) w) as [found acc] eqn:E.
  destruct (find_range_ok _ _ _ _ _ _ E ltac:(lia)) as [F R].
  destruct found as [i|]; [|exact F]. destruct more as [|M more']; [exact F|].
  simpl in W. destruct W as [[Wl Wp] Wm]. specialize (R i eq_refl).
  apply Forall_app. split; [exact F|].
  assert (Si : (S i < length (lv_next L))%nat) by lia.
  destruct (Wp i Si) as [P1 P2].
  constructor; [simpl; lia|]. constructor; [simpl; lia|].
  apply IH; [exact Wm|exact P1|exact P2].
Qed.

Lemma queries_in_bounds : forall t vocab ngram, trie_ok t vocab ->
  (forall w, In w ngram -> (N.to_nat w < vocab)%nat) -> Forall in_bounds (query t ngram).
Proof.
  intros t vocab ngram [Lu [Pu Wl]] V. destruct ngram as [|w1 rest]; [constructor|].
  unfold query. assert (H1 : (N.to_nat w1 < vocab)%nat) by (apply V; left; reflexivity).
  assert (Si : (S (N.to_nat w1) < length (t_unigram_next t))%nat) by lia.
  destruct (Pu _ Si) as [P1 P2].
  constructor; [simpl; lia|]. constructor; [simpl; lia|].
  apply walk_in_bounds; assumption.
Qed.

(* ---- the writer: depth-first, one record appended per n-gram, next = size of the level below at that moment ---------- *)
(* a node's children, sorted by word; the tree below the unigrams *)
Inductive tree := Node (children : list (N * tree)).

(* levels under construction, top first: (words so far, next pointers so far), both in reverse order *)
Definition wlevel := (list N * list nat)%type.

Definition size_below (ls : list wlevel) : nat := match ls with [] => 0 | (ws, _) :: _ => length ws end.

(* write the subtree rooted at one record: append the record to the first level with next = size of the level below,
   then its children to the levels below *)
Fixpoint write_tree (fuel : nat) (w : N) (t : tree) (ls : list wlevel) : list wlevel :=
  match fuel with
  | O => ls
  | S f =>
    match ls with
    | [] => []
    | (ws, nx) :: below =>
      let here := (w :: ws, size_below below :: nx) in
      match t with
      | Node children => here :: fold_left (fun acc ct => write_tree f (fst ct) (snd ct) acc) children below
      end
    end
  end.

Example write_example :
  write_tree 3 7%N (Node [(1%N, Node []); (2%N, Node [])]) [([], []); ([], [])] = [([7%N], [0%nat]); ([2%N; 1%N], [0%nat; 0%nat])].
Proof. reflexivity. Qed.
