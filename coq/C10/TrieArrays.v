(* C10 -- array model of the trie's sorted child ranges (lm/trie.hh BitPackedMiddle / BitPackedLongest, lm/search_trie.hh
   LookupUnigram / LookupMiddle / LookupLongest): every level is an array of records (word, next); the children of record
   i of one level are the records [next i, next (i+1)) of the level below; the unigram level is indexed by word id.
   The model logs every array access as (length of the array, index); a query is safe when every logged index is below
   the logged length.  The range search is the linear one: util::BoundedSortedUniformFind probes only inside the same
   [begin, end) (C20 proves its pivots stay inside the range), so the set of touched indices is a subset.              *)
From Coq Require Import List NArith Arith Lia Bool.
Import ListNotations.

Record level := { lv_words : list N; lv_next : list nat }.         (* lv_next = [] on the last level *)
Record trie := { t_unigram_next : list nat; t_levels : list level }.

Inductive access := Acc (array_length index : nat).
Definition in_bounds (a : access) : Prop := match a with Acc len i => (i < len)%nat end.

(* look for w among the n records starting at b *)
Fixpoint find_range (ws : list N) (b n : nat) (w : N) : option nat * list access :=
  match n with
  | O => (None, [])
  | S k => if N.eqb (nth b ws 0%N) w then (Some b, [Acc (length ws) b])
           else let '(r, a) := find_range ws (S b) k w in (r, Acc (length ws) b :: a)
  end.

(* follow the remaining words of an n-gram through the levels below the current record's child range [b, e) *)
Fixpoint walk (levels : list level) (b e : nat) (path : list N) : list access :=
  match path, levels with
  | w :: rest, L :: more =>
    let '(found, acc) := find_range (lv_words L) b (e - b) w in
    match found, more with
    | Some i, _ :: _ =>
      acc ++ [Acc (length (lv_next L)) i; Acc (length (lv_next L)) (S i)] ++
      walk more (nth i (lv_next L) 0%nat) (nth (S i) (lv_next L) 0%nat) rest
    | _, _ => acc
    end
  | _, _ => []
  end.

Definition query (t : trie) (ngram : list N) : list access :=
  match ngram with
  | [] => []
  | w1 :: rest =>
    let i := N.to_nat w1 in
    [Acc (length (t_unigram_next t)) i; Acc (length (t_unigram_next t)) (S i)] ++
    walk (t_levels t) (nth i (t_unigram_next t) 0%nat) (nth (S i) (t_unigram_next t) 0%nat) rest
  end.

(* the invariant the builder establishes (WriteEntries + FinishedLoading): child ranges are monotone and end inside
   the array below *)
Definition ptrs_ok (next : list nat) (below : nat) : Prop :=
  forall i, (S i < length next)%nat -> (nth i next 0 <= nth (S i) next 0)%nat /\ (nth (S i) next 0 <= below)%nat.

Fixpoint levels_ok (levels : list level) : Prop :=
  match levels with
  | [] => True
  | L :: more =>
    match more with
    | [] => True
    | M :: _ => length (lv_next L) = S (length (lv_words L)) /\ ptrs_ok (lv_next L) (length (lv_words M))
    end /\ levels_ok more
  end.

Definition trie_ok (t : trie) (vocab : nat) : Prop :=
  length (t_unigram_next t) = S vocab /\
  ptrs_ok (t_unigram_next t) (match t_levels t with [] => 0 | L :: _ => length (lv_words L) end) /\
  levels_ok (t_levels t).

(* ---- proofs (this file is small enough to keep them next to the model; it is not extracted) ------------------------- *)
Lemma find_range_ok : forall n ws b w r a, find_range ws b n w = (r, a) -> (b + n <= length ws)%nat ->
  Forall in_bounds a /\ (forall i, r = Some i -> (b <= i < b + n)%nat).
Proof.
  induction n as [|k IH]; intros ws b w r a H L; simpl in H.
  - inversion H; subst. split; [constructor|intros i X; discriminate].
  - destruct (N.eqb (nth b ws 0%N) w).
    + inversion H; subst. split; [constructor; [simpl; lia|constructor]|]. intros i X. inversion X; subst. lia.
    + destruct (find_range ws (S b) k w) as [r' a'] eqn:E. inversion H; subst.
      destruct (IH ws (S b) w r a' E ltac:(lia)) as [F R]. split; [constructor; [simpl; lia|exact F]|].
      intros i X. specialize (R i X). lia.
Qed.

Lemma walk_in_bounds : forall levels b e path, levels_ok levels ->
  (b <= e)%nat -> (e <= match levels with [] => 0 | L :: _ => length (lv_words L) end)%nat ->
  Forall in_bounds (walk levels b e path).
Proof.
  induction levels as [|L more IH]; intros b e path W Hbe He; destruct path as [|w rest]; simpl; try constructor.
  destruct (find_range (lv_words L) b (e - b) w) as [found acc] eqn:E.
  destruct (find_range_ok _ _ _ _ _ _ E ltac:(lia)) as [F R].
  destruct found as [i|]; [|exact F]. destruct more as [|M more']; [exact F|].
  simpl in W. destruct W as [[Wl Wp] Wm]. specialize (R i eq_refl).
  apply Forall_app. split; [exact F|].
  assert (Si : (S i < length (lv_next L))%nat) by lia.
  destruct (Wp i Si) as [P1 P2].
  constructor; [simpl; lia|]. constructor; [simpl; lia|].
  apply IH; [exact Wm|exact P1|exact P2].
Qed.

Lemma queries_in_bounds : forall t vocab ngram, trie_ok t vocab ->
  (forall w, In w ngram -> (N.to_nat w < vocab)%nat) -> Forall in_bounds (query t ngram).
Proof.
  intros t vocab ngram [Lu [Pu Wl]] V. destruct ngram as [|w1 rest]; [constructor|].
  unfold query. assert (H1 : (N.to_nat w1 < vocab)%nat) by (apply V; left; reflexivity).
  assert (Si : (S (N.to_nat w1) < length (t_unigram_next t))%nat) by lia.
  destruct (Pu _ Si) as [P1 P2].
  constructor; [simpl; lia|]. constructor; [simpl; lia|].
  apply walk_in_bounds; assumption.
Qed.

(* ---- the writer: depth-first, one record appended per n-gram, next = size of the level below at that moment ---------- *)
(* a node's children, sorted by word; the tree below the unigrams *)
Inductive tree := Node (children : list (N * tree)).

(* levels under construction, top first: (words so far, next pointers so far), both in reverse order *)
Definition wlevel := (list N * list nat)%type.

Definition size_below (ls : list wlevel) : nat := match ls with [] => 0 | (ws, _) :: _ => length ws end.

(* write the subtree rooted at one record: append the record to the first level with next = size of the level below,
   then its children to the levels below *)
Fixpoint write_tree (fuel : nat) (w : N) (t : tree) (ls : list wlevel) : list wlevel :=
  match fuel with
  | O => ls
  | S f =>
    match ls with
    | [] => []
    | (ws, nx) :: below =>
      let here := (w :: ws, size_below below :: nx) in
      match t with
      | Node children => here :: fold_left (fun acc ct => write_tree f (fst ct) (snd ct) acc) children below
      end
    end
  end.

Example write_example :
  write_tree 3 7%N (Node [(1%N, Node []); (2%N, Node [])]) [([], []); ([], [])] = [([7%N], [0%nat]); ([2%N; 1%N], [0%nat; 0%nat])].
Proof. reflexivity. Qed.

(* all unigrams in id order, each followed by its subtree *)
Definition write_all (fuel : nat) (roots : list (N * tree)) (ls : list wlevel) : list wlevel :=
  fold_left (fun acc ct => write_tree fuel (fst ct) (snd ct) acc) roots ls.

(* FinishedLoading: the end pointer of every level is the final size of the level below *)
Fixpoint finish_levels (ls : list wlevel) : list level :=
  match ls with
  | [] => []
  | (ws, nx) :: below => {| lv_words := rev ws; lv_next := rev (size_below below :: nx) |} :: finish_levels below
  end.

(* invariant of the levels under construction: as many pointers as records; pointers (newest first) never increase
   towards the past and the newest is at most the current size of the level below *)
Fixpoint desc_bound (nx : list nat) (bound : nat) : Prop :=
  match nx with [] => True | x :: r => (x <= bound)%nat /\ desc_bound r x end.
Fixpoint winv (ls : list wlevel) : Prop :=
  match ls with
  | [] => True
  | (ws, nx) :: below => length nx = length ws /\ desc_bound nx (size_below below) /\ winv below
  end.
(* sizes only grow, the number of levels is kept *)
Fixpoint grows (a b : list wlevel) : Prop :=
  match a, b with
  | [], [] => True
  | (wa, _) :: ra, (wb, _) :: rb => (length wa <= length wb)%nat /\ grows ra rb
  | _, _ => False
  end.

Lemma grows_refl : forall a, grows a a.
Proof. induction a as [|[w n] r IH]; simpl; auto. Qed.
Lemma grows_trans : forall a b c, grows a b -> grows b c -> grows a c.
Proof.
  induction a as [|[wa na] ra IH]; intros [|[wb nb] rb] [|[wc nc] rc] H1 H2; simpl in *; try tauto.
  destruct H1, H2. split; [lia|eauto].
Qed.
Lemma grows_size_below : forall a b, grows a b -> (size_below a <= size_below b)%nat.
Proof. intros [|[wa na] ra] [|[wb nb] rb] H; simpl in *; try tauto; lia. Qed.

Lemma desc_bound_weaken : forall nx b b', desc_bound nx b -> (b <= b')%nat -> desc_bound nx b'.
Proof. intros [|x r] b b' H L; simpl in *; [exact I|]. destruct H. split; [lia|assumption]. Qed.

Lemma write_tree_inv : forall fuel w t ls, winv ls -> winv (write_tree fuel w t ls) /\ grows ls (write_tree fuel w t ls).
Proof.
  induction fuel as [|f IH]; intros w t ls W; simpl; [split; [exact W|apply grows_refl]|].
  destruct ls as [|[ws nx] below]; [split; exact I|]. destruct t as [children].
  simpl in W. destruct W as [Wl [Wd Wb]].
  (* the children, one after the other, into the levels below *)
  assert (F : forall cs acc, winv acc ->
              winv (fold_left (fun acc ct => write_tree f (fst ct) (snd ct) acc) cs acc) /\
              grows acc (fold_left (fun acc ct => write_tree f (fst ct) (snd ct) acc) cs acc)).
  { induction cs as [|[cw ct] cs IHc]; intros acc Wa; simpl; [split; [exact Wa|apply grows_refl]|].
    destruct (IH cw ct acc Wa) as [W1 G1]. destruct (IHc _ W1) as [W2 G2]. split; [exact W2|eapply grows_trans; eauto]. }
  destruct (F children below Wb) as [Wb' Gb]. split.
  - simpl. split; [simpl; lia|]. split; [|exact Wb']. simpl. split; [apply grows_size_below; exact Gb|].
    exact Wd.
  - simpl. split; [simpl; lia|exact Gb].
Qed.

Lemma write_all_inv : forall fuel roots ls, winv ls -> winv (write_all fuel roots ls).
Proof.
  intros fuel roots. unfold write_all. induction roots as [|[w t] r IH]; intros ls W; simpl; [exact W|].
  apply IH. apply write_tree_inv. exact W.
Qed.

(* from the invariant to the query-side invariant *)
Lemma desc_bound_all_le : forall nx b, desc_bound nx b -> forall j, (j < length nx)%nat -> (nth j nx 0 <= b)%nat.
Proof.
  induction nx as [|x r IH]; intros b H j L; simpl in *; [lia|]. destruct H as [H1 H2].
  destruct j as [|j]; [exact H1|]. specialize (IH x H2 j ltac:(lia)). lia.
Qed.
Lemma desc_bound_step : forall nx b, desc_bound nx b -> forall j, (S j < length nx)%nat -> (nth (S j) nx 0 <= nth j nx 0)%nat.
Proof.
  induction nx as [|x r IH]; intros b H j L; simpl in *; [lia|]. destruct H as [H1 H2].
  destruct j as [|j].
  - destruct r as [|y r']; simpl in *; [lia|]. destruct H2. assumption.
  - apply (IH x H2 j). lia.
Qed.

Lemma ptrs_ok_rev : forall nx b, desc_bound nx b -> ptrs_ok (rev (b :: nx)) b.
Proof.
  intros nx b H i L. rewrite rev_length in L. simpl in L.
  assert (D : desc_bound (b :: nx) b) by (simpl; split; [lia|exact H]).
  rewrite !rev_nth by (simpl; lia). simpl length.
  replace (S (length nx) - S i)%nat with (length nx - i)%nat by lia.
  replace (S (length nx) - S (S i))%nat with (length nx - S i)%nat by lia.
  split.
  - pose proof (desc_bound_step (b :: nx) b D (length nx - S i)%nat ltac:(simpl; lia)) as S1.
    replace (S (length nx - S i)) with (length nx - i)%nat in S1 by lia. exact S1.
  - apply (desc_bound_all_le (b :: nx) b D). simpl. lia.
Qed.

Lemma finish_levels_ok : forall ls, winv ls -> levels_ok (finish_levels ls).
Proof.
  induction ls as [|[ws nx] below IH]; intros W; simpl; [exact I|].
  simpl in W. destruct W as [Wl [Wd Wb]]. split; [|apply IH; exact Wb].
  destruct below as [|[ws' nx'] below']; simpl; [exact I|]. split.
  - rewrite app_length, !rev_length. simpl. lia.
  - rewrite rev_length. apply (ptrs_ok_rev nx (length ws')). exact Wd.
Qed.

(* the writer's output, started from empty levels, satisfies the invariant the queries need *)
Definition build (fuel : nat) (roots : list (N * tree)) (orders_below_unigram : nat) : list level :=
  finish_levels (write_all fuel roots (repeat ([], []) (S orders_below_unigram))).

Lemma winv_empty : forall n, winv (repeat ([], []) n).
Proof. induction n as [|n IH]; simpl; [exact I|]. split; [reflexivity|]. split; [exact I|exact IH]. Qed.

Lemma build_levels_ok : forall fuel roots k, levels_ok (build fuel roots k).
Proof. intros fuel roots k. unfold build. apply finish_levels_ok. apply write_all_inv. apply winv_empty. Qed.

(* the first level written plays the unigram array (word = id, next = begin of its bigrams); the others are t_levels *)
Lemma trie_of_levels_ok : forall u M more, levels_ok (u :: M :: more) ->
  trie_ok {| t_unigram_next := lv_next u; t_levels := M :: more |} (length (lv_words u)).
Proof. intros u M more [[L P] R]. unfold trie_ok. simpl. auto. Qed.

Lemma grows_length : forall a b, grows a b -> length a = length b.
Proof. induction a as [|[wa na] ra IH]; intros [|[wb nb] rb] H; simpl in *; try tauto. destruct H. f_equal. auto. Qed.

Lemma write_all_grows : forall fuel roots ls, winv ls -> grows ls (write_all fuel roots ls).
Proof.
  intros fuel roots. unfold write_all. induction roots as [|[w t] r IH]; intros ls W; simpl; [apply grows_refl|].
  destruct (write_tree_inv fuel w t ls W) as [W1 G1]. eapply grows_trans; [exact G1|]. apply IH. exact W1.
Qed.

Lemma finish_levels_length : forall ls, length (finish_levels ls) = length ls.
Proof. induction ls as [|[ws nx] below IH]; simpl; congruence. Qed.

Lemma build_length : forall fuel roots k, length (build fuel roots k) = S k.
Proof.
  intros fuel roots k. unfold build. rewrite finish_levels_length.
  rewrite <- (grows_length _ _ (write_all_grows fuel roots _ (winv_empty (S k)))). apply repeat_length.
Qed.

(* for a model of order >= 2 the writer's arrays satisfy the invariant the queries need *)
Lemma build_trie_ok : forall fuel roots k, exists u M more,
  build fuel roots (S k) = u :: M :: more /\
  trie_ok {| t_unigram_next := lv_next u; t_levels := M :: more |} (length (lv_words u)).
Proof.
  intros fuel roots k. pose proof (build_length fuel roots (S k)) as L. pose proof (build_levels_ok fuel roots (S k)) as W.
  destruct (build fuel roots (S k)) as [|u [|M more]]; simpl in L; try lia.
  exists u, M, more. split; [reflexivity|]. apply trie_of_levels_ok. exact W.
Qed.

(* hence every in-vocabulary query on the arrays the writer produced stays in bounds *)
Lemma built_queries_in_bounds : forall fuel roots k u M more ngram,
  build fuel roots (S k) = u :: M :: more ->
  (forall w, In w ngram -> (N.to_nat w < length (lv_words u))%nat) ->
  Forall in_bounds (query {| t_unigram_next := lv_next u; t_levels := M :: more |} ngram).
Proof.
  intros fuel roots k u M more ngram E V. destruct (build_trie_ok fuel roots k) as [u' [M' [more' [E' T]]]].
  rewrite E in E'. inversion E'; subst. eapply queries_in_bounds; eauto.
Qed.

Example build_example :
  build 3 [(0%N, Node []); (1%N, Node [(2%N, Node [(1%N, Node [])]); (3%N, Node [])]); (2%N, Node [(1%N, Node [])])] 2 =
  [ {| lv_words := [0%N; 1%N; 2%N]; lv_next := [0; 0; 2; 3]%nat |};
    {| lv_words := [2%N; 3%N; 1%N]; lv_next := [0; 1; 1; 1]%nat |};
    {| lv_words := [1%N]; lv_next := [0; 0]%nat |} ].
Proof. reflexivity. Qed.
