(* C15 -- executable model of the system-call retry loops of util/file.cc, of util::FileStream
   (util/file_stream.hh) and of a tool run built from them.  NO PROOFS in this file.

   A system call is answered by an *outcome oracle*: a `list outcome` passed as an argument (never an
   axiom).  Every call consumes exactly one entry, so all loops are structural recursions on the oracle;
   an exhausted oracle is the distinct status `NoOracle` (the "out of fuel" of this model), which the
   theorems exclude under the stated length bound.

   Kernel model.  For a request of `count` bytes the answer `Done n` transfers `min n count` bytes
   (for a read additionally bounded by what the file still holds); `Eintr` is "-1, errno = EINTR";
   `Fail e` is "-1, errno = e".  The LD_PRELOAD shim (harness/shim/io_shim.c) answers the real calls of
   the real functions from the same list. *)
From Coq Require Import List Arith Bool.
Import ListNotations.

Inductive outcome := Done (n : nat) | Eintr | Fail (errno : nat).

(* which exception class leaves the function: FDException/ErrnoException (carrying errno), EndOfFileException, or
   -- for a write(2) that returned 0 -- an FDException whose errno is whatever errno held before (WriteOrThrow sets
   errno = 0 once per chunk, so it is 0, or EINTR when an interrupted attempt preceded: the number is stale) *)
Inductive exn_kind := EFd (errno : nat) | EEof | EZero.

Inductive status := Ok | Throw (x : exn_kind) | NoOracle.

Definition is_eintr (x : outcome) : bool := match x with Eintr => true | _ => false end.
(* the oracle with every interrupted call removed *)
Definition strip (o : list outcome) : list outcome := filter (fun x => negb (is_eintr x)) o.
Definition count_eintr (o : list outcome) : nat := length (filter is_eintr o).

Section Bytes.
  Context {A : Type}.
  Variable zero : A.          (* the byte a hole / an extension of a file reads as *)

  (* ------------------------------------------------------------------------------------------
     util::WriteOrThrow(int fd, const void *data, size_t size)            util/file.cc:210-232
       while (size) { errno = 0; do { ret = write(fd, data, size); } while (ret == -1 && errno == EINTR);
                      UTIL_THROW_IF_ARG(ret < 1, FDException, ...); data += ret; size -= ret; }
     result: (bytes accepted by the kernel, in order; unconsumed oracle; status) *)
  Fixpoint write_loop (o : list outcome) (data : list A) {struct o} : list A * list outcome * status :=
    match data with
    | [] => ([], o, Ok)
    | _ :: _ =>
      match o with
      | [] => ([], [], NoOracle)
      | Eintr :: o' => write_loop o' data
      | Fail e :: o' => ([], o', Throw (EFd e))
      | Done n :: o' =>
        match Nat.min n (length data) with
        | O => ([], o', Throw EZero)                 (* ret == 0: "ret < 1" throws *)
        | S _ as k =>
          let '(w, r, s) := write_loop o' (skipn k data) in (firstn k data ++ w, r, s)
        end
      end
    end.

  (* ------------------------------------------------------------------------------------------
     util::PartialRead                                                    util/file.cc:164-186
       do { ret = read(fd, to, amount); } while (ret == -1 && errno == EINTR);
       UTIL_THROW_IF_ARG(ret < 0, FDException, ...); return ret;
     src = the bytes of the file from the current position on.
     result: (bytes delivered, rest of the file, unconsumed oracle, status) *)
  Fixpoint partial_read (o : list outcome) (src : list A) (amount : nat) : list A * list A * list outcome * status :=
    match o with
    | [] => ([], src, [], NoOracle)
    | Eintr :: o' => partial_read o' src amount
    | Fail e :: o' => ([], src, o', Throw (EFd e))
    | Done n :: o' => let k := Nat.min n (Nat.min amount (length src)) in (firstn k src, skipn k src, o', Ok)
    end.

  (* util::ReadOrThrow (eof_throws = true)                                 util/file.cc:188-196
       while (amount) { ret = PartialRead(fd, to, amount); UTIL_THROW_IF(ret == 0, EndOfFileException, ...); amount -= ret; to += ret; }
     util::ReadOrEOF (eof_throws = false)                                  util/file.cc:198-208
       while (remaining) { ret = PartialRead(...); if (!ret) return amount - remaining; remaining -= ret; to += ret; } *)
  Fixpoint read_loop (eof_throws : bool) (o : list outcome) (src : list A) (amount : nat) {struct o}
      : list A * list A * list outcome * status :=
    match amount with
    | O => ([], src, o, Ok)
    | S _ =>
      match o with
      | [] => ([], src, [], NoOracle)
      | Eintr :: o' => read_loop eof_throws o' src amount
      | Fail e :: o' => ([], src, o', Throw (EFd e))
      | Done n :: o' =>
        match Nat.min n (Nat.min amount (length src)) with
        | O => ([], src, o', if eof_throws then Throw EEof else Ok)
        | S _ as k =>
          let '(g, s', r, st) := read_loop eof_throws o' (skipn k src) (amount - k) in (firstn k src ++ g, s', r, st)
        end
      end
    end.

  Definition read_or_throw := read_loop true.
  Definition read_or_eof := read_loop false.

  (* util::ReadFactory (util/read_compressed.cc): the first kMagicSize bytes of the input are fetched with
     ReadOrEOF -- NOT with a single read -- and handed to DetectMagic, which decides gzip / bzip2 / xz / plain.
     result: (header bytes the decision is taken on, rest of the input, oracle, status) *)
  Definition magic_size : nat := 6.
  Definition sniff_magic (o : list outcome) (src : list A) := read_or_eof o src magic_size.

  (* ------------------------------------------------------------------------------------------
     util::ErsatzPRead(fd, to, size, off)                                  util/file.cc:239-272
       while (size) { errno = 0; ret = pread(fd, to, size, off);
         if (ret <= 0) { if (ret == -1 && errno == EINTR) continue;
                         UTIL_THROW_IF(ret == 0, EndOfFileException, ...); UTIL_THROW_ARG(FDException, ...); }
         size -= ret; off += ret; to += ret; }
     f = the whole file.  result: (bytes delivered, unconsumed oracle, status) *)
  Fixpoint pread_loop (o : list outcome) (f : list A) (size off : nat) {struct o} : list A * list outcome * status :=
    match size with
    | O => ([], o, Ok)
    | S _ =>
      match o with
      | [] => ([], [], NoOracle)
      | Eintr :: o' => pread_loop o' f size off
      | Fail e :: o' => ([], o', Throw (EFd e))
      | Done n :: o' =>
        match Nat.min n (Nat.min size (length f - off)) with
        | O => ([], o', Throw EEof)
        | S _ as k =>
          let '(g, r, st) := pread_loop o' f (size - k) (off + k) in (firstn k (skipn off f) ++ g, r, st)
        end
      end
    end.

  (* the file after `bs` has been stored at offset `off` (a store beyond the end zero-fills the gap) *)
  Definition overwrite (f : list A) (off : nat) (bs : list A) : list A :=
    firstn off (f ++ repeat zero (off - length f)) ++ bs ++ skipn (off + length bs) f.

  (* util::ErsatzPWrite(fd, from, size, off)                               util/file.cc:274-307
     same shape; ret == 0 throws EndOfFileException.  result: (file afterwards, bytes transferred, oracle, status) *)
  Fixpoint pwrite_loop (o : list outcome) (f : list A) (data : list A) (off : nat) {struct o}
      : list A * nat * list outcome * status :=
    match data with
    | [] => (f, 0, o, Ok)
    | _ :: _ =>
      match o with
      | [] => (f, 0, [], NoOracle)
      | Eintr :: o' => pwrite_loop o' f data off
      | Fail e :: o' => (f, 0, o', Throw (EFd e))
      | Done n :: o' =>
        match Nat.min n (length data) with
        | O => (f, 0, o', Throw EEof)
        | S _ as k =>
          let '(f', m, r, st) := pwrite_loop o' (overwrite f off (firstn k data)) (skipn k data) (off + k) in (f', k + m, r, st)
        end
      end
    end.

  (* util::FSyncOrThrow / util::ResizeOrThrow / util::SyncOrThrow: ONE call, any -1 throws (EINTR included: no retry) *)
  Definition eintr_errno := 4.
  Definition single_call (o : list outcome) : list outcome * status :=
    match o with
    | [] => ([], NoOracle)
    | Done _ :: o' => (o', Ok)
    | Eintr :: o' => (o', Throw (EFd eintr_errno))
    | Fail e :: o' => (o', Throw (EFd e))
    end.

  (* ------------------------------------------------------------------------------------------
     util::FileStream                                                     util/file_stream.hh
     state: the buffered bytes; `cap` = max(buffer_size, kToStringMaxBytes); `out` = bytes the kernel
     accepted on fd_ so far. *)
  Inductive fs_op :=
  | FWrite (data : list A)                 (* FileStream::write(data, length) *)
  | FFmt (reserve : nat) (data : list A)   (* operator<<(number): Ensure(kBytes) then AdvanceTo(end of text); |data| <= reserve *)
  | FFlush.                                (* flush() / SetFD / seekp *)

  Definition fs_data (op : fs_op) : list A :=
    match op with FWrite d => d | FFmt _ d => d | FFlush => [] end.

  (* flush(): if (current_ != buf_) { WriteOrThrow(fd_, buf_, current_ - buf_); current_ = buf_; }
     result (buffer, appended to out, oracle, status) *)
  Definition fs_flush (o : list outcome) (buf : list A) : list A * list A * list outcome * status :=
    match buf with
    | [] => ([], [], o, Ok)
    | _ => let '(w, r, s) := write_loop o buf in
           match s with Ok => ([], w, r, Ok) | _ => (buf, w, r, s) end
    end.

  Definition fs_step (cap : nat) (o : list outcome) (buf : list A) (op : fs_op) : list A * list A * list outcome * status :=
    match op with
    | FFlush => fs_flush o buf
    | FWrite d =>
      if length buf + length d <=? cap then (buf ++ d, [], o, Ok)
      else
        let '(buf1, w1, o1, s1) := fs_flush o buf in
        match s1 with
        | Ok => if length buf1 + length d <=? cap then (buf1 ++ d, w1, o1, Ok)
                else let '(w2, o2, s2) := write_loop o1 d in (buf1, w1 ++ w2, o2, s2)
        | _ => (buf1, w1, o1, s1)
        end
    | FFmt reserve d =>
      if cap <? length buf + reserve then
        let '(buf1, w1, o1, s1) := fs_flush o buf in
        match s1 with Ok => (buf1 ++ d, w1, o1, Ok) | _ => (buf1, w1, o1, s1) end
      else (buf ++ d, [], o, Ok)
    end.

  (* the operations of a stream's life, up to the first one that throws.  result (buffer, out, oracle, status) *)
  Fixpoint fs_ops (cap : nat) (o : list outcome) (buf : list A) (ops : list fs_op) : list A * list A * list outcome * status :=
    match ops with
    | [] => (buf, [], o, Ok)
    | op :: rest =>
      let '(buf1, w1, o1, s1) := fs_step cap o buf op in
      match s1 with
      | Ok => let '(buf2, w2, o2, s2) := fs_ops cap o1 buf1 rest in (buf2, w1 ++ w2, o2, s2)
      | _ => (buf1, w1, o1, s1)
      end
    end.

  (* ... then ~FileStream() { flush(); } runs, at the end of the scope or while the exception of a failed
     operation unwinds the stack.  The destructor is noexcept: if its flush throws, std::terminate aborts
     the process.  (After a failed flush the buffer still holds everything, so the retry from the
     destructor can write bytes a second time; the run is then already a failure.) *)
  Inductive fs_status := FsOk | FsThrow (x : exn_kind) | FsAbort | FsNoOracle.

  Definition fs_run (cap : nat) (o : list outcome) (buf : list A) (ops : list fs_op) : list A * list outcome * fs_status :=
    let '(buf1, w1, o1, s1) := fs_ops cap o buf ops in
    match s1 with
    | NoOracle => (w1, o1, FsNoOracle)
    | _ =>
      let '(_, w2, o2, s2) := fs_flush o1 buf1 in
      (w1 ++ w2, o2,
       match s2 with
       | NoOracle => FsNoOracle
       | Throw _ => FsAbort
       | Ok => match s1 with Ok => FsOk | Throw x => FsThrow x | NoOracle => FsNoOracle end
       end)
    end.

  (* ------------------------------------------------------------------------------------------
     A tool run.  A tool is a deterministic program over the util primitives: what it does next may depend
     on everything it has read so far (continuations).  Files are addressed by small numbers; the
     file system is an association list.  An exception ends the run with a non-zero status (lmplz, filter,
     interpolate: uncaught exception or abort in a worker thread; build_binary: catch, message, return 1). *)
  Inductive prog :=
  | Halt                                                         (* return 0 *)
  | PWriteSeq (fd : nat) (data : list A) (k : prog)              (* WriteOrThrow at the file position = end of file *)
  | PPWrite (fd : nat) (off : nat) (data : list A) (k : prog)    (* ErsatzPWrite *)
  | PRead (fd : nat) (off : nat) (amount : nat) (k : list A -> prog)      (* ReadOrThrow / ErsatzPRead: exactly amount bytes *)
  | PReadEOF (fd : nat) (off : nat) (amount : nat) (k : list A -> prog)   (* ReadOrEOF: up to amount bytes *)
  | PResize (fd : nat) (n : nat) (k : prog)                      (* ResizeOrThrow *)
  | PSync (fd : nat) (k : prog).                                 (* FSyncOrThrow / SyncOrThrow *)

  Definition fsys := list (nat * list A).
  Fixpoint get (fs : fsys) (fd : nat) : list A :=
    match fs with [] => [] | (k, v) :: r => if Nat.eqb k fd then v else get r fd end.
  Fixpoint set (fs : fsys) (fd : nat) (v : list A) : fsys :=
    match fs with
    | [] => [(fd, v)]
    | (k, x) :: r => if Nat.eqb k fd then (k, v) :: r else (k, x) :: set r fd v
    end.
  Definition resize (f : list A) (n : nat) : list A := firstn n (f ++ repeat zero (n - length f)).

  Inductive exit := Exit0 | ExitFail (x : exn_kind) | ExitNoOracle.

  (* run under an oracle; fuel bounds the number of program steps (each step is one primitive) *)
  Fixpoint run (p : prog) (o : list outcome) (fs : fsys) : fsys * exit :=
    match p with
    | Halt => (fs, Exit0)
    | PWriteSeq fd d k =>
      let '(w, r, s) := write_loop o d in
      let fs' := set fs fd (get fs fd ++ w) in
      match s with Ok => run k r fs' | Throw x => (fs', ExitFail x) | NoOracle => (fs', ExitNoOracle) end
    | PPWrite fd off d k =>
      let '(f', _, r, s) := pwrite_loop o (get fs fd) d off in
      let fs' := set fs fd f' in
      match s with Ok => run k r fs' | Throw x => (fs', ExitFail x) | NoOracle => (fs', ExitNoOracle) end
    | PRead fd off n k =>
      let '(g, r, s) := pread_loop o (get fs fd) n off in
      match s with Ok => run (k g) r fs | Throw x => (fs, ExitFail x) | NoOracle => (fs, ExitNoOracle) end
    | PReadEOF fd off n k =>
      let '(g, _, r, s) := read_or_eof o (skipn off (get fs fd)) n in
      match s with Ok => run (k g) r fs | Throw x => (fs, ExitFail x) | NoOracle => (fs, ExitNoOracle) end
    | PResize fd n k =>
      let '(r, s) := single_call o in
      match s with Ok => run k r (set fs fd (resize (get fs fd) n)) | Throw x => (fs, ExitFail x) | NoOracle => (fs, ExitNoOracle) end
    | PSync fd k =>
      let '(r, s) := single_call o in
      match s with Ok => run k r fs | Throw x => (fs, ExitFail x) | NoOracle => (fs, ExitNoOracle) end
    end.

  (* the fault-free run: every call transfers everything that was asked for *)
  Fixpoint ideal (p : prog) (fs : fsys) : fsys :=
    match p with
    | Halt => fs
    | PWriteSeq fd d k => ideal k (set fs fd (get fs fd ++ d))
    | PPWrite fd off d k => ideal k (set fs fd (match d with [] => get fs fd | _ => overwrite (get fs fd) off d end))
    | PRead fd off n k => ideal (k (firstn n (skipn off (get fs fd)))) fs
    | PReadEOF fd off n k => ideal (k (firstn n (skipn off (get fs fd)))) fs
    | PResize fd n k => ideal k (set fs fd (resize (get fs fd) n))
    | PSync fd k => ideal k fs
    end.
End Bytes.
