(* C15 -- the property theorems and nothing else (each closed by `exact <lemma>`).
   All statements hold for EVERY outcome oracle `o` (the environment's choice of which call is
   interrupted, transfers how much, or fails) and every data / file content over any byte type A. *)
From Coq Require Import List Arith.
From Kenlm Require Import C15.IoModel C15.IoProofs.
Import ListNotations.

(* util::WriteOrThrow: what the kernel accepted is always a prefix of the data (never anything else,
   never reordered); the function returns normally exactly when that prefix is all of the data; otherwise
   strictly less was written and the status is an exception (or the oracle ran out). *)
Theorem C15_write_all_or_throw : forall (A : Type) o (data : list A) w r s,
  write_loop o data = (w, r, s) ->
  w = firstn (length w) data /\ (s = Ok <-> w = data) /\ (s <> Ok -> length w < length data).
Proof.
  intros A o data w r s H. destruct (write_loop_spec _ _ _ _ _ H) as (P1 & _ & P3 & _).
  split; [exact P1|]. split; [exact (write_ok_iff _ _ _ _ _ H)|exact P3].
Qed.

(* a failing call (any errno) or a call that transfers nothing throws at once *)
Theorem C15_write_fail_throws : forall (A : Type) (data : list A) e o, data <> [] ->
  write_loop (Fail e :: o) data = ([], o, Throw (EFd e)).
Proof. exact (@write_fail_throws). Qed.

Theorem C15_write_zero_throws : forall (A : Type) (data : list A) o, data <> [] ->
  write_loop (Done 0 :: o) data = ([], o, Throw EZero).
Proof. exact (@write_zero_throws). Qed.

(* interrupted calls never change the result: same bytes, same status with every Eintr removed *)
Theorem C15_write_eintr_invariant : forall (A : Type) o (data : list A) w r s,
  write_loop o data = (w, r, s) -> write_loop (strip o) data = (w, strip r, s).
Proof. exact (@write_strip). Qed.

(* termination with fuel |data| + #Eintr: an oracle holding |data| answers that are not Eintr is never
   exhausted, and the number of calls made is at most |data| + the interrupted ones among them *)
Theorem C15_write_terminates : forall (A : Type) o (data : list A) w r s,
  write_loop o data = (w, r, s) ->
  (length data <= length (strip o) -> s <> NoOracle) /\
  exists used, o = used ++ r /\ length used <= length data + count_eintr used.
Proof.
  intros A o data w r s H. split; [exact (write_fuel _ _ _ _ _ H)|exact (write_calls _ _ _ _ _ H)].
Qed.

(* a kernel that always makes progress gets everything written *)
Theorem C15_write_fault_free : forall (A : Type) o (data : list A),
  Forall (fun x => exists n, x = Done (S n)) o -> length data <= length o ->
  exists r, write_loop o data = (data, r, Ok).
Proof. exact (@write_ideal). Qed.

(* util::ReadOrThrow (e = true) / util::ReadOrEOF (e = false): the bytes delivered are a prefix of the
   file; ReadOrThrow returns normally only with exactly `amount` bytes; when the kernel reports end of file
   only at the end of the file, a normal return of either delivers exactly firstn amount of the file;
   an exception means strictly fewer than `amount` bytes were delivered *)
Theorem C15_read_exact_or_eof : forall (A : Type) e o (src : list A) amount g s' r st,
  read_loop e o src amount = (g, s', r, st) ->
  src = g ++ s' /\ length g <= amount /\
  (st = Ok -> e = true -> length g = amount) /\
  (st = Ok -> no_false_eof o -> g = firstn amount src) /\
  (st <> Ok -> length g < amount).
Proof.
  intros A e o src amount g s' r st H.
  destruct (read_loop_spec _ _ _ _ _ _ _ _ H) as (P1 & P2 & P3 & P4 & P5 & _). auto.
Qed.

(* the bytes on which the compression format of an input is decided do not depend on how the kernel slices the
   input (a first read of 1 byte on a pipe, interruptions): always the first kMagicSize bytes, or all of a shorter input *)
Theorem C15_magic_sniff_transparent : forall (A : Type) o (src : list A) g s' r,
  sniff_magic o src = (g, s', r, Ok) -> no_false_eof o -> g = firstn magic_size src.
Proof.
  intros A o src g s' r H Hnf. unfold sniff_magic, read_or_eof in H.
  destruct (read_loop_spec _ _ _ _ _ _ _ _ H) as (_ & _ & _ & P4 & _). auto.
Qed.

Theorem C15_read_eintr_invariant : forall (A : Type) e o (src : list A) amount g s' r st,
  read_loop e o src amount = (g, s', r, st) -> read_loop e (strip o) src amount = (g, s', strip r, st).
Proof. exact (@read_strip). Qed.

Theorem C15_read_terminates : forall (A : Type) e o (src : list A) amount g s' r st,
  read_loop e o src amount = (g, s', r, st) -> amount <= length (strip o) -> st <> NoOracle.
Proof. exact (@read_fuel). Qed.

(* the loop of ReadOrThrow/ReadOrEOF is a loop around PartialRead *)
Theorem C15_read_loop_is_partial_read_loop : forall (A : Type) e o (src : list A) amount,
  read_loop e o src (S amount) =
  let '(g0, s0, r0, st0) := partial_read o src (S amount) in
  match st0 with
  | Ok => match length g0 with
          | O => ([], src, r0, if e then Throw EEof else Ok)
          | S _ => let '(g, s', r, st) := read_loop e r0 s0 (S amount - length g0) in (g0 ++ g, s', r, st)
          end
  | _ => ([], src, r0, st0)
  end.
Proof. exact (@read_loop_unfold). Qed.

(* util::ErsatzPRead(size, off) is ReadOrThrow on the file from offset off (offset bookkeeping is right) *)
Theorem C15_pread_is_read_at_offset : forall (A : Type) o (f : list A) size off,
  pread_loop o f size off = let '(g, _, r, st) := read_loop true o (skipn off f) size in (g, r, st).
Proof. exact (@pread_is_read). Qed.

(* util::ErsatzPWrite: m bytes were transferred, the file is the old file with exactly the first m bytes of
   the data stored at off; normal return iff m = |data| *)
Theorem C15_pwrite_all_or_throw : forall (A : Type) (zero : A) o (f : list A) data off f' m r st,
  pwrite_loop zero o f data off = (f', m, r, st) ->
  m <= length data /\ (m = 0 -> f' = f) /\ (0 < m -> f' = overwrite zero f off (firstn m data)) /\
  (st = Ok <-> m = length data).
Proof.
  intros A zero o f data off f' m r st H.
  destruct (pwrite_loop_spec _ _ _ _ _ _ _ _ _ H) as (P1 & P2 & P3 & P4 & _). auto.
Qed.

(* ... and a store changes no byte outside [off, off + |bs|) *)
Theorem C15_overwrite_frame : forall (A : Type) (zero : A) (f : list A) off bs i,
  nth i (overwrite zero f off bs) zero =
  if i <? off then nth i f zero else if i <? off + length bs then nth (i - off) bs zero else nth i f zero.
Proof. exact (@overwrite_nth). Qed.

Theorem C15_pwrite_eintr_invariant : forall (A : Type) (zero : A) o (f : list A) data off f' m r st,
  pwrite_loop zero o f data off = (f', m, r, st) -> pwrite_loop zero (strip o) f data off = (f', m, strip r, st).
Proof. exact (@pwrite_strip). Qed.

(* util::FileStream, any capacity, any sequence of write / operator<< / flush: up to the first operation
   that throws, the bytes handed to write(2) are a prefix of the concatenation of the arguments, and together
   with the buffered bytes they are all of it when nothing threw *)
Theorem C15_filestream_ops_prefix : forall (A : Type) cap ops o (buf buf' : list A) w r s,
  fs_ops cap o buf ops = (buf', w, r, s) ->
  (s = Ok -> w ++ buf' = buf ++ concat (map fs_data ops)) /\
  (exists rest, buf ++ concat (map fs_data ops) = w ++ rest).
Proof. exact (@fs_ops_spec). Qed.

(* ... and over the stream's whole life including the destructor's flush: success means the kernel got exactly
   the concatenation of the arguments *)
Theorem C15_filestream_refines_concat : forall (A : Type) cap ops o (buf : list A) w r s,
  fs_run cap o buf ops = (w, r, s) -> s = FsOk -> w = buf ++ concat (map fs_data ops).
Proof. exact (@fs_run_spec). Qed.

(* the stream's buffer never holds more than its capacity (Ensure's assert, write's memcpy), provided every
   formatted item fits the space it reserves and the reservation fits the buffer (kToStringMaxBytes <= cap) *)
Theorem C15_filestream_buffer_bounded : forall (A : Type) cap pre o (buf : list A) bufk ok,
  Forall (fs_wf cap) pre -> length buf <= cap ->
  fs_reach cap o buf pre = Some (bufk, ok) -> length bufk <= cap.
Proof. exact (@fs_buffer_bounded). Qed.

(* tool level: for every program over the primitives and every oracle in which the kernel reports end of
   file only at the end of a file: exit status 0 implies the file system equals that of the fault-free run *)
Theorem C15_success_implies_complete : forall (A : Type) (zero : A) (p : prog) o (fs fs' : fsys),
  no_false_eof o -> run zero p o fs = (fs', Exit0) -> fs' = ideal zero p fs.
Proof. exact (@run_success_complete). Qed.
