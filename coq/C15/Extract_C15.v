(* Extraction of the C15 executable model (ExtrOcamlBasic only). coqc runs with cwd = /verif/coq. *)
From Coq Require Import List Extraction ExtrOcamlBasic.
From Kenlm Require Import C15.IoModel.
Extraction Language OCaml.
Extraction "extracted/c15_model.ml"
  write_loop partial_read read_loop read_or_throw read_or_eof sniff_magic magic_size pread_loop pwrite_loop single_call overwrite
  fs_step fs_ops fs_run strip.
