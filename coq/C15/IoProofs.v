(* C15 -- lemmas about the retry loops, FileStream and tool runs of IoModel.v *)
From Coq Require Import List Arith Bool Lia.
From Kenlm Require Import C15.IoModel.
Import ListNotations.

Ltac inv H := inversion H; subst; clear H.
Ltac fin := simpl; auto; try lia; try congruence; try discriminate.
Ltac ex u := exists u; repeat split; unfold strip; simpl; auto; try lia; try congruence; try discriminate.
Ltac split4 := split; [|split; [|split]].
Ltac close u := repeat split; try solve [fin]; try solve [ex u].

Lemma strip_app : forall a b, strip (a ++ b) = strip a ++ strip b.
Proof. intros. unfold strip. apply filter_app. Qed.

Lemma count_eintr_app : forall a b, count_eintr (a ++ b) = count_eintr a + count_eintr b.
Proof. intros. unfold count_eintr. rewrite filter_app, app_length. reflexivity. Qed.

Lemma strip_count : forall o, length o = length (strip o) + count_eintr o.
Proof.
  induction o as [|x o IH]; [reflexivity|]. unfold strip, count_eintr in *. simpl.
  destruct x; simpl; lia.
Qed.

Section Bytes.
  Context {A : Type}.
  Variable zero : A.

  Lemma firstn_plus : forall (l : list A) k n, k <= length l ->
    firstn (k + n) l = firstn k l ++ firstn n (skipn k l).
  Proof.
    intros l k n H. rewrite <- (firstn_skipn k l) at 1.
    rewrite firstn_app, firstn_length_le by lia.
    rewrite firstn_all2 by (rewrite firstn_length_le; lia).
    replace (k + n - k) with n by lia. reflexivity.
  Qed.

  Lemma skipn_skipn : forall (l : list A) x y, skipn x (skipn y l) = skipn (y + x) l.
  Proof.
    intros l x y. revert l. induction y as [|y IH]; intro l; [reflexivity|].
    destruct l; simpl; [destruct x; reflexivity|apply IH].
  Qed.

  Lemma nth_firstn_lt : forall (l : list A) n i d, i < n -> nth i (firstn n l) d = nth i l d.
  Proof.
    intros l n. revert l. induction n as [|n IH]; intros l i d H; [lia|].
    destruct l; [destruct i; reflexivity|]. destruct i; [reflexivity|]. simpl. apply IH. lia.
  Qed.

  Lemma nth_skipn_add : forall (l : list A) n i d, nth i (skipn n l) d = nth (n + i) l d.
  Proof.
    intros l n. revert l. induction n as [|n IH]; intros l i d; [reflexivity|].
    destruct l; [destruct i; reflexivity|]. simpl. apply IH.
  Qed.

  (* ---------------------------------------------------------------------------------------- *)
  (* WriteOrThrow *)

  (* everything at once: the accepted bytes are a prefix of the data; the call returns normally exactly
     when that prefix is the whole data; the consumed part of the oracle is a prefix of it and contains at
     most |data| calls that were not interrupted *)
  Lemma write_loop_spec : forall o (data : list A) w r s,
    write_loop o data = (w, r, s) ->
    w = firstn (length w) data /\
    (s = Ok -> w = data) /\
    (s <> Ok -> length w < length data) /\
    exists used, o = used ++ r /\ length (strip used) <= length data /\
                 (s = Ok -> length (strip used) <= length w) /\ (s = NoOracle -> r = []).
  Proof.
    induction o as [|x o IH]; intros data w r s H.
    - destruct data; simpl in H; inv H; close (@nil outcome).
    - destruct data as [|a data].
      { simpl in H. inv H. close (@nil outcome). }
      destruct x as [n| |e].
      + cbn [write_loop] in H.
        destruct (Nat.min n (length (a :: data))) as [|k'] eqn:E.
        * inv H. close [Done n].
        * remember (S k') as k eqn:Hk0.
          destruct (write_loop o (skipn k (a :: data))) as [[w1 r1] s1] eqn:R.
          injection H as Hw Hr Hst. subst w r s.
          apply IH in R. destruct R as (P1 & P2 & P3 & used & U1 & U2 & U3 & U4).
          assert (Hk : k <= length (a :: data)) by (subst k; rewrite <- E; apply Nat.le_min_r).
          assert (Hf : length (firstn k (a :: data)) = k) by (apply firstn_length_le; exact Hk).
          assert (Hs : length (skipn k (a :: data)) = length (a :: data) - k) by apply skipn_length.
          rewrite Hs in *.
          repeat split.
          -- rewrite app_length, Hf, firstn_plus by exact Hk. f_equal. exact P1.
          -- intro Hok. rewrite (P2 Hok). apply firstn_skipn.
          -- intro Hne. specialize (P3 Hne). rewrite app_length, Hf. lia.
          -- exists (Done n :: used). change (strip (Done n :: used)) with (Done n :: strip used). repeat split.
             ++ simpl. f_equal. exact U1.
             ++ cbn [length] in *. lia.
             ++ intro Hok. specialize (U3 Hok). rewrite app_length, Hf. cbn [length] in *. lia.
             ++ exact U4.
      + cbn [write_loop] in H. apply IH in H. destruct H as (P1 & P2 & P3 & used & U1 & U2 & U3 & U4).
        repeat split; auto. exists (Eintr :: used). repeat split; auto.
        simpl. f_equal. exact U1.
      + cbn [write_loop] in H. inv H. close [Fail e].
  Qed.

  Lemma write_ok_iff : forall o (data : list A) w r s,
    write_loop o data = (w, r, s) -> (s = Ok <-> w = data).
  Proof.
    intros o data w r s H. destruct (write_loop_spec _ _ _ _ _ H) as (_ & P2 & P3 & _).
    split; [exact P2|]. intro E. destruct s; [reflexivity| |]; exfalso;
      (assert (length w < length data) by (apply P3; congruence)); subst; lia.
  Qed.

  Lemma write_loop_nil : forall o, write_loop o (@nil A) = ([], o, Ok).
  Proof. destruct o; reflexivity. Qed.

  (* interrupted calls never change the result *)
  Lemma write_strip : forall o (data : list A) w r s,
    write_loop o data = (w, r, s) -> write_loop (strip o) data = (w, strip r, s).
  Proof.
    induction o as [|x o IH]; intros data w r s H.
    - destruct data; simpl in *; inv H; reflexivity.
    - destruct data as [|a data]; [simpl in H; inv H; apply write_loop_nil|].
      destruct x as [n| |e]; unfold strip in *; cbn [filter is_eintr negb write_loop] in *.
      + destruct (Nat.min n (length (a :: data))) as [|k']; [inv H; reflexivity|].
        destruct (write_loop o (skipn (S k') (a :: data))) as [[w1 r1] s1] eqn:R. inv H.
        rewrite (IH _ _ _ _ R). reflexivity.
      + apply IH. exact H.
      + inv H. reflexivity.
  Qed.

  (* termination: an oracle with at least |data| calls that are not interrupted always suffices *)
  Lemma write_fuel : forall o (data : list A) w r s,
    write_loop o data = (w, r, s) -> length data <= length (strip o) -> s <> NoOracle.
  Proof.
    induction o as [|x o IH]; intros data w r s H Hlen.
    - destruct data; simpl in *; inv H; [congruence|lia].
    - destruct data as [|a data]; [simpl in H; inv H; congruence|].
      destruct x as [n| |e]; unfold strip in *; cbn [filter is_eintr negb write_loop length] in *.
      + destruct (Nat.min n (S (length data))) as [|k'] eqn:E; [inv H; congruence|].
        destruct (write_loop o (skipn (S k') (a :: data))) as [[w1 r1] s1] eqn:R.
        injection H as Hw Hr Hst. subst s1.
        eapply IH; [exact R|]. rewrite skipn_length. cbn [length]. lia.
      + eapply IH; eauto.
      + inv H. congruence.
  Qed.

  (* number of system calls made: at most |data| plus the interrupted ones *)
  Lemma write_calls : forall o (data : list A) w r s,
    write_loop o data = (w, r, s) ->
    exists used, o = used ++ r /\ length used <= length data + count_eintr used.
  Proof.
    intros o data w r s H. destruct (write_loop_spec _ _ _ _ _ H) as (_ & _ & _ & used & U1 & U2 & _).
    exists used. split; [exact U1|]. rewrite (strip_count used). lia.
  Qed.

  (* the first failing call throws, whatever preceded it was transferred *)
  Lemma write_fail_throws : forall (data : list A) e o, data <> [] ->
    write_loop (Fail e :: o) data = ([], o, Throw (EFd e)).
  Proof. intros [|a data] e o H; [congruence|reflexivity]. Qed.

  Lemma write_zero_throws : forall (data : list A) o, data <> [] ->
    write_loop (Done 0 :: o) data = ([], o, Throw EZero).
  Proof. intros [|a data] o H; [congruence|reflexivity]. Qed.

  (* a fault-free kernel (every call transfers at least one byte) writes everything *)
  Lemma write_ideal : forall o (data : list A),
    Forall (fun x => exists n, x = Done (S n)) o -> length data <= length o ->
    exists r, write_loop o data = (data, r, Ok).
  Proof.
    induction o as [|x o IH]; intros data Hall Hlen.
    - destruct data; simpl in *; [eexists; reflexivity|lia].
    - destruct data as [|a data]; [eexists; reflexivity|].
      inv Hall. destruct H1 as [n ->]. cbn [write_loop].
      destruct (Nat.min (S n) (length (a :: data))) as [|k'] eqn:E; [simpl in E; lia|].
      assert (Hk : S k' <= length (a :: data)) by (rewrite <- E; apply Nat.le_min_r).
      destruct (IH (skipn (S k') (a :: data)) H2) as [r Hr].
      { rewrite skipn_length. simpl in *. lia. }
      rewrite Hr. exists r. rewrite firstn_skipn. reflexivity.
  Qed.

  (* ---------------------------------------------------------------------------------------- *)
  (* PartialRead / ReadOrThrow / ReadOrEOF *)

  Definition no_false_eof (o : list outcome) : Prop := Forall (fun x => x <> Done 0) o.

  Lemma read_loop_spec : forall e o (src : list A) amount g s' r st,
    read_loop e o src amount = (g, s', r, st) ->
    src = g ++ s' /\ length g <= amount /\
    (st = Ok -> e = true -> length g = amount) /\
    (st = Ok -> no_false_eof o -> g = firstn amount src) /\
    (st <> Ok -> length g < amount) /\
    exists used, o = used ++ r /\ length (strip used) <= amount.
  Proof.
    induction o as [|x o IH]; intros src amount g s' r st H.
    - destruct amount; simpl in H; inv H.
      + repeat split; auto; try congruence. exists []. simpl. split; auto.
      + repeat split; auto; try congruence; simpl; try lia. exists []. simpl. split; auto. lia.
    - destruct amount as [|am].
      { simpl in H. inv H. repeat split; auto; try congruence. exists []. simpl. auto. }
      destruct x as [n| |er].
      + cbn [read_loop] in H.
        destruct (Nat.min n (Nat.min (S am) (length src))) as [|k'] eqn:E.
        * injection H as Hg Hs' Hr Hst. subst g s' r st. repeat split; auto; simpl; try lia.
          -- intros Hok He. subst e. discriminate.
          -- intros _ Hnf. inv Hnf.
             assert (Hn : n <> 0) by (intro; subst; congruence).
             assert (Hz : length src = 0) by lia. apply length_zero_iff_nil in Hz. subst. reflexivity.
          -- exists [Done n]. simpl. split; auto. unfold strip. simpl. lia.
        * remember (S k') as k eqn:Hk0.
          destruct (read_loop e o (skipn k src) (S am - k)) as [[[g1 s1] r1] st1] eqn:R.
          injection H as Hg Hs' Hr Hst. subst g s' r st.
          apply IH in R. destruct R as (P1 & P2 & P3 & P4 & P5 & used & U1 & U2).
          assert (Hk : k <= S am /\ k <= length src) by (subst k; rewrite <- E; lia).
          assert (Hf : length (firstn k src) = k) by (apply firstn_length_le; lia).
          repeat split.
          -- rewrite <- app_assoc, <- P1. symmetry. apply firstn_skipn.
          -- rewrite app_length, Hf. lia.
          -- intros Hok He. rewrite app_length, Hf, (P3 Hok He). lia.
          -- intros Hok Hnf. assert (Hnf' : no_false_eof o) by (inversion Hnf; assumption).
             rewrite (P4 Hok Hnf'). replace (S am) with (k + (S am - k)) at 2 by lia.
             rewrite firstn_plus by lia. reflexivity.
          -- intro Hne. specialize (P5 Hne). rewrite app_length, Hf. lia.
          -- exists (Done n :: used). simpl. split; [f_equal; exact U1|]. unfold strip in *. simpl. subst k. lia.
      + cbn [read_loop] in H. apply IH in H. destruct H as (P1 & P2 & P3 & P4 & P5 & used & U1 & U2).
        repeat split; auto.
        * intros Hok Hnf. inv Hnf. auto.
        * exists (Eintr :: used). simpl. split; [f_equal; exact U1|exact U2].
      + cbn [read_loop] in H. inv H. repeat split; auto; simpl; try lia; try congruence.
        exists [Fail er]. simpl. split; auto. unfold strip. simpl. lia.
  Qed.

  Lemma read_loop_zero : forall e o (src : list A), read_loop e o src 0 = ([], src, o, Ok).
  Proof. destruct o; reflexivity. Qed.

  Lemma read_strip : forall e o (src : list A) amount g s' r st,
    read_loop e o src amount = (g, s', r, st) -> read_loop e (strip o) src amount = (g, s', strip r, st).
  Proof.
    induction o as [|x o IH]; intros src amount g s' r st H.
    - destruct amount; simpl in *; inv H; reflexivity.
    - destruct amount as [|am]; [simpl in H; inv H; apply read_loop_zero|].
      destruct x as [n| |er]; unfold strip in *; cbn [filter is_eintr negb read_loop] in *.
      + destruct (Nat.min n (Nat.min (S am) (length src))) as [|k']; [inv H; reflexivity|].
        destruct (read_loop e o (skipn (S k') src) (S am - S k')) as [[[g1 s1] r1] st1] eqn:R. inv H.
        rewrite (IH _ _ _ _ _ _ R). reflexivity.
      + apply IH. exact H.
      + inv H. reflexivity.
  Qed.

  Lemma read_fuel : forall e o (src : list A) amount g s' r st,
    read_loop e o src amount = (g, s', r, st) -> amount <= length (strip o) -> st <> NoOracle.
  Proof.
    induction o as [|x o IH]; intros src amount g s' r st H Hlen.
    - destruct amount; simpl in *; inv H; [congruence|lia].
    - destruct amount as [|am]; [simpl in *; inv H; congruence|].
      destruct x as [n| |er]; unfold strip in *; cbn [filter is_eintr negb read_loop length] in *.
      + destruct (Nat.min n (Nat.min (S am) (length src))) as [|k']; [inv H; destruct e; congruence|].
        destruct (read_loop e o (skipn (S k') src) (S am - S k')) as [[[g1 s1] r1] st1] eqn:R. inv H.
        eapply IH; eauto. lia.
      + eapply IH; eauto.
      + inv H. congruence.
  Qed.

  (* ReadOrThrow is a loop around PartialRead *)
  Lemma read_loop_unfold : forall e o (src : list A) amount,
    read_loop e o src (S amount) =
    let '(g0, s0, r0, st0) := partial_read o src (S amount) in
    match st0 with
    | Ok => match length g0 with
            | O => ([], src, r0, if e then Throw EEof else Ok)
            | S _ => let '(g, s', r, st) := read_loop e r0 s0 (S amount - length g0) in (g0 ++ g, s', r, st)
            end
    | _ => ([], src, r0, st0)
    end.
  Proof.
    induction o as [|x o IH]; intros src amount; [reflexivity|].
    destruct x as [n| |er]; cbn [read_loop partial_read].
    - cbv zeta.
      assert (Hl : length (firstn (Nat.min n (Nat.min (S amount) (length src))) src) = Nat.min n (Nat.min (S amount) (length src)))
        by (apply firstn_length_le; lia).
      rewrite Hl. destruct (Nat.min n (Nat.min (S amount) (length src))); reflexivity.
    - apply IH.
    - reflexivity.
  Qed.

  (* ---------------------------------------------------------------------------------------- *)
  (* ErsatzPRead = ReadOrThrow on the file from offset off *)
  Lemma pread_is_read : forall o (f : list A) size off,
    pread_loop o f size off =
    let '(g, _, r, st) := read_loop true o (skipn off f) size in (g, r, st).
  Proof.
    induction o as [|x o IH]; intros f size off.
    - destruct size; reflexivity.
    - destruct size as [|sz]; [reflexivity|].
      destruct x as [n| |er]; cbn [pread_loop read_loop].
      + rewrite skipn_length.
        destruct (Nat.min n (Nat.min (S sz) (length f - off))) as [|k']; [reflexivity|].
        rewrite IH. rewrite skipn_skipn.
        destruct (read_loop true o (skipn (off + S k') f) (S sz - S k')) as [[[g s1] r] st]. reflexivity.
      + apply IH.
      + reflexivity.
  Qed.

  (* ---------------------------------------------------------------------------------------- *)
  (* overwrite / ErsatzPWrite *)
  Lemma overwrite_length : forall (f : list A) off bs, length (overwrite zero f off bs) = Nat.max (length f) (off + length bs).
  Proof.
    intros. unfold overwrite. rewrite !app_length, firstn_length, app_length, repeat_length, skipn_length. lia.
  Qed.

  Lemma overwrite_app : forall (f : list A) off a b,
    overwrite zero (overwrite zero f off a) (off + length a) b = overwrite zero f off (a ++ b).
  Proof.
    intros f off a b. unfold overwrite at 1.
    set (g := overwrite zero f off a).
    assert (Hg : length g = Nat.max (length f) (off + length a)) by apply overwrite_length.
    replace (off + length a - length g) with 0 by lia. simpl. rewrite app_nil_r.
    unfold g, overwrite.
    set (P := firstn off (f ++ repeat zero (off - length f))).
    assert (HP : length P = off).
    { unfold P. rewrite firstn_length, app_length, repeat_length. lia. }
    rewrite (app_assoc P a). rewrite firstn_app.
    rewrite firstn_all2 by (rewrite app_length; lia).
    replace (off + length a - length (P ++ a)) with 0 by (rewrite app_length; lia). simpl. rewrite app_nil_r.
    rewrite skipn_app. rewrite (skipn_all2 (P ++ a)) by (rewrite app_length; lia). simpl.
    rewrite app_length, HP.
    replace (off + length a + length b - (off + length a)) with (length b) by lia.
    rewrite skipn_skipn. rewrite <- !app_assoc. rewrite app_length.
    replace (off + length a + length b) with (off + (length a + length b)) by lia. reflexivity.
  Qed.

  (* bytes outside [off, off + |bs|) keep their value (a gap beyond the old end reads as zero) *)
  Lemma overwrite_nth : forall (f : list A) off bs i,
    nth i (overwrite zero f off bs) zero =
    if i <? off then nth i f zero else if i <? off + length bs then nth (i - off) bs zero else nth i f zero.
  Proof.
    intros f off bs i. unfold overwrite.
    set (P := firstn off (f ++ repeat zero (off - length f))).
    assert (HP : length P = off).
    { unfold P. rewrite firstn_length, app_length, repeat_length. lia. }
    destruct (i <? off) eqn:E1.
    - apply Nat.ltb_lt in E1. rewrite app_nth1 by lia. unfold P. rewrite nth_firstn_lt by exact E1.
      destruct (Nat.lt_ge_cases i (length f)).
      + rewrite app_nth1 by lia. reflexivity.
      + rewrite app_nth2 by lia. rewrite nth_repeat. rewrite nth_overflow by lia. reflexivity.
    - apply Nat.ltb_ge in E1. rewrite app_nth2 by lia. rewrite HP.
      destruct (i <? off + length bs) eqn:E2.
      + apply Nat.ltb_lt in E2. rewrite app_nth1 by lia. reflexivity.
      + apply Nat.ltb_ge in E2. rewrite app_nth2 by lia. rewrite nth_skipn_add. f_equal. lia.
  Qed.

  Lemma pwrite_loop_spec : forall o (f : list A) data off f' m r st,
    pwrite_loop zero o f data off = (f', m, r, st) ->
    m <= length data /\
    (m = 0 -> f' = f) /\ (0 < m -> f' = overwrite zero f off (firstn m data)) /\
    (st = Ok <-> m = length data) /\
    exists used, o = used ++ r /\ length (strip used) <= length data.
  Proof.
    induction o as [|x o IH]; intros f data off f' m r st H.
    - destruct data; simpl in H; inv H.
      + repeat split; auto; try lia. exists []. simpl. auto.
      + repeat split; auto; simpl; try lia; try congruence. exists []. simpl. split; auto. lia.
    - destruct data as [|a data].
      { simpl in H. inv H. repeat split; auto; try lia. exists []. simpl. auto. }
      destruct x as [n| |er].
      + cbn [pwrite_loop] in H.
        destruct (Nat.min n (length (a :: data))) as [|k'] eqn:E.
        * inv H. repeat split; auto; simpl; try lia; try congruence.
          exists [Done n]. simpl. split; auto. unfold strip. simpl. lia.
        * remember (S k') as k eqn:Hk0.
          destruct (pwrite_loop zero o (overwrite zero f off (firstn k (a :: data))) (skipn k (a :: data)) (off + k))
            as [[[f1 m1] r1] st1] eqn:R.
          injection H as Hf' Hm Hr Hst. subst f' m r st.
          apply IH in R. destruct R as (P1 & P2 & P3 & P4 & used & U1 & U2).
          assert (Hk : k <= length (a :: data)) by (subst k; rewrite <- E; apply Nat.le_min_r).
          assert (Hf : length (firstn k (a :: data)) = k) by (apply firstn_length_le; exact Hk).
          assert (Hs : length (skipn k (a :: data)) = length (a :: data) - k) by apply skipn_length.
          repeat split.
          -- lia.
          -- subst k. lia.
          -- intros _. destruct (Nat.eq_dec m1 0) as [Hz|Hnz].
             ++ rewrite (P2 Hz). subst m1. rewrite Nat.add_0_r. reflexivity.
             ++ rewrite P3 by lia.
                replace (off + k) with (off + length (firstn k (a :: data))) by (rewrite Hf; reflexivity).
                rewrite overwrite_app. f_equal. rewrite firstn_plus by exact Hk. reflexivity.
          -- intro Hok. apply P4 in Hok. lia.
          -- intro Hm. apply P4. lia.
          -- exists (Done n :: used). change (strip (Done n :: used)) with (Done n :: strip used).
             split; [simpl; f_equal; exact U1|]. rewrite Hs in U2. cbn [length] in *. lia.
      + cbn [pwrite_loop] in H. apply IH in H. destruct H as (P1 & P2 & P3 & P4 & used & U1 & U2).
        repeat split; auto; try apply P4.
        exists (Eintr :: used). simpl. split; [f_equal; exact U1|exact U2].
      + cbn [pwrite_loop] in H. inv H. repeat split; auto; simpl; try lia; try congruence.
        exists [Fail er]. simpl. split; auto. unfold strip. simpl. lia.
  Qed.

  Lemma pwrite_loop_nil : forall o (f : list A) off, pwrite_loop zero o f [] off = (f, 0, o, Ok).
  Proof. destruct o; reflexivity. Qed.

  Lemma pwrite_strip : forall o (f : list A) data off f' m r st,
    pwrite_loop zero o f data off = (f', m, r, st) -> pwrite_loop zero (strip o) f data off = (f', m, strip r, st).
  Proof.
    induction o as [|x o IH]; intros f data off f' m r st H.
    - destruct data; simpl in *; inv H; reflexivity.
    - destruct data as [|a data]; [simpl in H; inv H; apply pwrite_loop_nil|].
      destruct x as [n| |er]; unfold strip in *; cbn [filter is_eintr negb pwrite_loop] in *.
      + destruct (Nat.min n (length (a :: data))) as [|k']; [inv H; reflexivity|].
        destruct (pwrite_loop zero o (overwrite zero f off (firstn (S k') (a :: data))) (skipn (S k') (a :: data)) (off + S k'))
          as [[[f1 m1] r1] st1] eqn:R. inv H.
        rewrite (IH _ _ _ _ _ _ _ R). reflexivity.
      + apply IH. exact H.
      + inv H. reflexivity.
  Qed.

  (* ---------------------------------------------------------------------------------------- *)
  (* FileStream *)
  Definition fs_wf (cap : nat) (op : fs_op (A := A)) : Prop :=
    match op with FFmt reserve d => length d <= reserve /\ reserve <= cap | _ => True end.

  Lemma fs_flush_spec : forall o (buf : list A) buf' w r s,
    fs_flush o buf = (buf', w, r, s) ->
    (s = Ok -> buf' = [] /\ w = buf) /\ (exists rest, buf = w ++ rest) /\ (exists used, o = used ++ r).
  Proof.
    intros o buf buf' w r s H. unfold fs_flush in H. destruct buf as [|a buf].
    - inv H. repeat split; auto. exists []; auto. exists []; auto.
    - destruct (write_loop o (a :: buf)) as [[w1 r1] s1] eqn:R.
      destruct (write_loop_spec _ _ _ _ _ R) as (P1 & P2 & _ & used & U1 & _).
      assert (Hp : exists rest, a :: buf = w1 ++ rest).
      { exists (skipn (length w1) (a :: buf)). rewrite P1 at 1. symmetry. apply firstn_skipn. }
      destruct s1; inv H.
      + split; [intros _; split; [reflexivity|apply P2; reflexivity]|]. split; [exact Hp|exists used; reflexivity].
      + split; [intro Hs; discriminate|]. split; [exact Hp|exists used; reflexivity].
      + split; [intro Hs; discriminate|]. split; [exact Hp|exists used; reflexivity].
  Qed.

  (* one operation: what reached the kernel plus what is buffered is the old buffer plus the argument;
     on failure what reached the kernel is still a prefix of that; the buffer never exceeds its capacity *)
  Lemma fs_step_spec : forall cap o (buf : list A) op buf' w r s,
    fs_step cap o buf op = (buf', w, r, s) ->
    (s = Ok -> w ++ buf' = buf ++ fs_data op) /\
    (exists rest, buf ++ fs_data op = w ++ rest) /\
    (s = Ok -> fs_wf cap op -> length buf <= cap -> length buf' <= cap) /\
    (exists used, o = used ++ r).
  Proof.
    intros cap o buf op buf' w r s H. destruct op as [d|reserve d|]; cbn [fs_step fs_data] in H |- *.
    - destruct (length buf + length d <=? cap) eqn:E.
      + inv H. apply Nat.leb_le in E. split4.
        * reflexivity.
        * exists (buf ++ d). reflexivity.
        * intros. rewrite app_length. lia.
        * exists []. reflexivity.
      + destruct (fs_flush o buf) as [[[buf1 w1] o1] s1] eqn:F.
        destruct (fs_flush_spec _ _ _ _ _ _ F) as (Q1 & [rest Q2] & [u1 Q3]).
        destruct s1.
        * destruct (Q1 eq_refl) as [-> ->]. cbn [length Nat.add] in H.
          destruct (length d <=? cap) eqn:E2.
          -- inv H. apply Nat.leb_le in E2. split4.
             ++ reflexivity.
             ++ eexists. reflexivity.
             ++ intros. simpl. exact E2.
             ++ exists u1. reflexivity.
          -- destruct (write_loop o1 d) as [[w2 o2] s2] eqn:R. inv H.
             destruct (write_loop_spec _ _ _ _ _ R) as (P1 & P2 & _ & u2 & U2 & _).
             split4.
             ++ intro Hs. rewrite (P2 Hs), app_nil_r. reflexivity.
             ++ exists (skipn (length w2) d). rewrite <- app_assoc. f_equal. rewrite P1 at 1. symmetry. apply firstn_skipn.
             ++ intros. simpl. lia.
             ++ exists (u1 ++ u2). rewrite <- app_assoc. f_equal. exact U2.
        * injection H as <- <- <- <-. split4; try (intros; discriminate).
          -- exists (rest ++ d). rewrite Q2, app_assoc. reflexivity.
          -- exists u1; exact Q3.
        * injection H as <- <- <- <-. split4; try (intros; discriminate).
          -- exists (rest ++ d). rewrite Q2, app_assoc. reflexivity.
          -- exists u1; exact Q3.
    - destruct (cap <? length buf + reserve) eqn:E.
      + destruct (fs_flush o buf) as [[[buf1 w1] o1] s1] eqn:F.
        destruct (fs_flush_spec _ _ _ _ _ _ F) as (Q1 & [rest Q2] & [u1 Q3]).
        destruct s1; injection H as <- <- <- <-.
        * destruct (Q1 eq_refl) as [-> ->]. split4.
          -- reflexivity.
          -- eexists. reflexivity.
          -- intros _ [W1 W2] _. simpl. lia.
          -- exists u1. exact Q3.
        * split4; try (intros; discriminate).
          -- exists (rest ++ d). rewrite Q2, app_assoc. reflexivity.
          -- exists u1; exact Q3.
        * split4; try (intros; discriminate).
          -- exists (rest ++ d). rewrite Q2, app_assoc. reflexivity.
          -- exists u1; exact Q3.
      + inv H. apply Nat.ltb_ge in E. split4.
        * reflexivity.
        * exists (buf ++ d). reflexivity.
        * intros _ [W1 W2] _. rewrite app_length. lia.
        * exists []. reflexivity.
    - destruct (fs_flush_spec _ _ _ _ _ _ H) as (Q1 & [rest Q2] & Q3). rewrite app_nil_r. split4.
      + intro Hs. destruct (Q1 Hs) as [-> ->]. apply app_nil_r.
      + exists rest. exact Q2.
      + intros Hs _ _. destruct (Q1 Hs) as [-> _]. simpl. lia.
      + exact Q3.
  Qed.

  Lemma fs_ops_spec : forall cap ops o (buf : list A) buf' w r s,
    fs_ops cap o buf ops = (buf', w, r, s) ->
    (s = Ok -> w ++ buf' = buf ++ concat (map fs_data ops)) /\
    (exists rest, buf ++ concat (map fs_data ops) = w ++ rest).
  Proof.
    induction ops as [|op ops IH]; intros o buf buf' w r s H; cbn [fs_ops map concat] in *.
    - inv H. rewrite app_nil_r. split; [reflexivity|]. exists buf'. reflexivity.
    - destruct (fs_step cap o buf op) as [[[buf1 w1] o1] s1] eqn:S.
      destruct (fs_step_spec _ _ _ _ _ _ _ _ S) as (P1 & [rest P2] & _ & _).
      destruct s1.
      + destruct (fs_ops cap o1 buf1 ops) as [[[buf2 w2] o2] s2] eqn:R. injection H as <- <- <- <-.
        destruct (IH _ _ _ _ _ _ R) as (I1 & [rest2 I2]). specialize (P1 eq_refl). split.
        * intro Hs. rewrite <- app_assoc, (I1 Hs), !app_assoc, P1. reflexivity.
        * exists rest2. rewrite app_assoc, <- P1, <- !app_assoc. f_equal. exact I2.
      + injection H as <- <- <- <-. split; [discriminate|]. exists (rest ++ concat (map fs_data ops)). rewrite app_assoc, P2, <- app_assoc. reflexivity.
      + injection H as <- <- <- <-. split; [discriminate|]. exists (rest ++ concat (map fs_data ops)). rewrite app_assoc, P2, <- app_assoc. reflexivity.
  Qed.

  (* whole life of a stream: status FsOk means every byte of every argument reached the kernel, in order, once *)
  Lemma fs_run_spec : forall cap ops o (buf : list A) w r s,
    fs_run cap o buf ops = (w, r, s) ->
    s = FsOk -> w = buf ++ concat (map fs_data ops).
  Proof.
    intros cap ops o buf w r s H Hs. unfold fs_run in H.
    destruct (fs_ops cap o buf ops) as [[[buf1 w1] o1] s1] eqn:R.
    destruct (fs_ops_spec _ _ _ _ _ _ _ _ R) as (P1 & _).
    destruct s1; try (inv H; discriminate).
    - destruct (fs_flush o1 buf1) as [[[b2 w2] o2] s2] eqn:F.
      destruct (fs_flush_spec _ _ _ _ _ _ F) as (Q1 & _).
      destruct s2; inv H; try discriminate.
      destruct (Q1 eq_refl) as [_ ->]. apply P1. reflexivity.
    - destruct (fs_flush o1 buf1) as [[[b2 w2] o2] s2] eqn:F. destruct s2; inv H; discriminate.
  Qed.

  (* the buffer never overflows (the assert in Ensure, the memcpy in write): state reached after a
     sequence of successful operations *)
  Fixpoint fs_reach (cap : nat) (o : list outcome) (b : list A) (l : list fs_op) : option (list A * list outcome) :=
    match l with
    | [] => Some (b, o)
    | x :: l' => let '(b1, _, o1, s1) := fs_step cap o b x in match s1 with Ok => fs_reach cap o1 b1 l' | _ => None end
    end.

  Lemma fs_buffer_bounded : forall cap pre o (buf : list A) bufk ok,
    Forall (fs_wf cap) pre -> length buf <= cap ->
    fs_reach cap o buf pre = Some (bufk, ok) -> length bufk <= cap.
  Proof.
    intros cap pre. induction pre as [|x pre IH]; intros o buf bufk ok Hwf Hb Hgo.
    - inv Hgo. exact Hb.
    - cbn [fs_reach] in Hgo.
      destruct (fs_step cap o buf x) as [[[b1 w1] o1] s1] eqn:S. destruct s1; try discriminate.
      inv Hwf.
      destruct (fs_step_spec _ _ _ _ _ _ _ _ S) as (_ & _ & P3 & _).
      eapply (IH o1 b1); [assumption|apply P3; auto|exact Hgo].
  Qed.

  (* ---------------------------------------------------------------------------------------- *)
  (* tool runs *)
  Lemma no_false_eof_suffix : forall used r, no_false_eof (used ++ r) -> no_false_eof r.
  Proof. intros used r H. unfold no_false_eof in *. apply Forall_app in H. tauto. Qed.

  Lemma run_success_complete : forall (p : prog) o (fs fs' : fsys),
    no_false_eof o -> run zero p o fs = (fs', Exit0) -> fs' = ideal zero p fs.
  Proof.
    induction p as [|fd d k IH|fd off d k IH|fd off n k IH|fd off n k IH|fd n k IH|fd k IH]; intros o fs fs' Hnf H; cbn [run ideal] in *.
    - inv H. reflexivity.
    - destruct (write_loop o d) as [[w r] s] eqn:W.
      destruct (write_loop_spec _ _ _ _ _ W) as (_ & P2 & _ & used & U1 & _).
      destruct s; try (inv H; fail).
      rewrite (P2 eq_refl) in H. apply IH in H; [exact H|]. subst o. eapply no_false_eof_suffix; eauto.
    - destruct (pwrite_loop zero o (get fs fd) d off) as [[[f' m] r] s] eqn:W.
      destruct (pwrite_loop_spec _ _ _ _ _ _ _ _ W) as (P1 & P2 & P3 & P4 & used & U1 & _).
      destruct s; try (inv H; fail).
      assert (Hm : m = length d) by (apply P4; reflexivity).
      assert (Hf : f' = match d with [] => get fs fd | _ => overwrite zero (get fs fd) off d end).
      { destruct d as [|a d]; [apply P2; simpl in Hm; exact Hm|].
        rewrite P3 by (simpl in Hm; lia). rewrite Hm, firstn_all. reflexivity. }
      rewrite Hf in H. apply IH in H; [exact H|]. subst o. eapply no_false_eof_suffix; eauto.
    - rewrite pread_is_read in H.
      destruct (read_loop true o (skipn off (get fs fd)) n) as [[[g s1] r] s] eqn:R.
      destruct (read_loop_spec _ _ _ _ _ _ _ _ R) as (P1 & P2 & P3 & P4 & _ & used & U1 & _).
      destruct s; try (inv H; fail).
      rewrite (P4 eq_refl Hnf) in H. apply IH in H; [exact H|]. subst o. eapply no_false_eof_suffix; eauto.
    - unfold read_or_eof in H.
      destruct (read_loop false o (skipn off (get fs fd)) n) as [[[g s1] r] s] eqn:R.
      destruct (read_loop_spec _ _ _ _ _ _ _ _ R) as (P1 & P2 & P3 & P4 & _ & used & U1 & _).
      destruct s; try (inv H; fail).
      rewrite (P4 eq_refl Hnf) in H. apply IH in H; [exact H|]. subst o. eapply no_false_eof_suffix; eauto.
    - destruct o as [|x o]; simpl in H; [inv H|]. destruct x; try (inv H; fail).
      apply IH in H; [exact H|]. inv Hnf. assumption.
    - destruct o as [|x o]; simpl in H; [inv H|]. destruct x; try (inv H; fail).
      apply IH in H; [exact H|]. inv Hnf. assumption.
  Qed.

  (* any failing primitive makes the run fail: if the oracle's first consumed answer for a write is a failure, the exit is not 0 *)
  Lemma run_write_fail : forall fd (d : list A) k e o fs, d <> [] ->
    snd (run zero (PWriteSeq fd d k) (Fail e :: o) fs) = ExitFail (EFd e).
  Proof. intros fd [|a d] k e o fs H; [congruence|reflexivity]. Qed.
End Bytes.

(* ------------------------------------------------------------------------------------------ *)
(* the hypotheses are satisfiable, and the interesting outcomes do occur *)
Example ex_write_short_then_fail :
  write_loop [Done 2; Eintr; Done 1; Fail 28] [1;2;3;4;5] = ([1;2;3], [], Throw (EFd 28)).
Proof. reflexivity. Qed.
Example ex_write_ok :
  write_loop [Eintr; Done 2; Eintr; Done 100] [1;2;3;4;5] = ([1;2;3;4;5], [], Ok).
Proof. reflexivity. Qed.
Example ex_read_eof : read_or_throw [Done 2; Done 7] [1;2;3] 5 = ([1;2;3], [], [], NoOracle).
Proof. reflexivity. Qed.
Example ex_read_eof2 : read_or_throw [Done 2; Done 7; Done 7] [1;2;3] 5 = ([1;2;3], [], [], Throw EEof).
Proof. reflexivity. Qed.
Example ex_read_or_eof : read_or_eof [Done 2; Eintr; Done 7; Done 7] [1;2;3] 5 = ([1;2;3], [], [], Ok).
Proof. reflexivity. Qed.
Example ex_fs : fs_run 4 [Done 1; Done 100; Done 100; Done 100] []
                  [FWrite [1;2;3]; FWrite [4;5]; FFmt 2 [6]; FWrite [7;8;9;10;11]; FFlush] = ([1;2;3;4;5;6;7;8;9;10;11], [], FsOk).
Proof. reflexivity. Qed.
(* a failed flush followed by the destructor's retry writes bytes twice: the run is a failure (never FsOk) *)
Example ex_fs_retry : fs_run 4 [Done 2; Fail 28; Done 100] [] [FWrite [1;2;3]; FWrite [4;5]] = ([1;2;1;2;3], [], FsThrow (EFd 28)).
Proof. reflexivity. Qed.
Example ex_fs_abort : fs_run 4 [Fail 28; Fail 5] [] [FWrite [1;2;3]; FWrite [4;5]] = ([], [], FsAbort).
Proof. reflexivity. Qed.
Example ex_run_exit0 :
  run 0 (PWriteSeq 1 [1;2;3] (PRead 1 1 2 (fun g => PPWrite 2 1 g (PSync 2 Halt)))) [Done 2; Eintr; Done 5; Done 1; Done 1; Done 9; Done 0] []
  = ([(1, [1;2;3]); (2, [0;2;3])], Exit0).
Proof. reflexivity. Qed.
