(* C03/TrieEndToEnd.v -- the table READ BACK FROM THE MEMORY OF THE TRIE satisfies the loaders' invariants whenever the table it was laid
   out from does: mem_table_TInv.  Hence every query theorem of C01/C02/C08 (stated for any table with TInv) holds for the answers
   computed from the bit-level memory -- unigram array, bit-packed middle arrays with or without pointer compression, longest array,
   searched with BoundedSortedUniformFind over the generated bit-packing routines. *)
From Coq Require Import ZArith Lia Bool List NArith FinFun.
From Kenlm Require Import LM.Defs LM.Query LM.QueryProofs C03.TrieLayout C03.TrieLayoutProofs C03.TrieMem C03.TrieMemProofs C03.TrieWalkProofs
                          C03.TrieBuiltOk C03.TrieTableProofs C03.TrieTableEnd C03.TrieImage C03.TrieDecode.
Import ListNotations.
Local Open Scope Z_scope.
Arguments Z.of_nat : simpl never.
Arguments Z.pow : simpl never.

(* ---- A. children in the forest ---------------------------------------------------------------------------------------------------- *)
Section Children.
  Variable V : Type.

  Lemma lookup_snoc : forall k (f : forest V) w, k <> [] ->
    lookup V f (k ++ [w]) = match lookup V f k with Some (_, c) => find_sib V c w | None => None end.
  Proof.
    induction k as [|w0 ks IH]; intros f w Hk; [contradiction|].
    destruct ks as [|w1 ks'].
    - cbn [app lookup]. destruct (find_sib V f w0) as [[v c]|]; [|reflexivity].
      destruct (find_sib V c w) as [[v' c']|]; reflexivity.
    - change ((w0 :: w1 :: ks') ++ [w]) with (w0 :: ((w1 :: ks') ++ [w])).
      cbn [lookup]. destruct (find_sib V f w0) as [[v c]|]; [|reflexivity].
      change ((w1 :: ks') ++ [w]) with (w1 :: (ks' ++ [w])). cbn iota.
      change (w1 :: (ks' ++ [w])) with ((w1 :: ks') ++ [w]). apply IH. discriminate.
  Qed.

  Lemma chain_has_word : forall c : forest V, 0 < flen V c <-> exists w, find_sib V c w <> None.
  Proof.
    intros c. destruct c as [|w v cc s]; cbn [flen find_sib].
    - split; [lia|intros [w H]; contradiction].
    - pose proof (flen_nonneg V s). split; [intros _; exists w; rewrite Z.eqb_refl; discriminate|lia].
  Qed.
End Children.

(* ---- C. the memory walk over the trie of a table, with the child range ------------------------------------------------------------ *)
Theorem trie_memory_is_table_full : forall (array : bool) cfg n V (t : list (list Z * pb)),
  (2 <= n)%nat -> 0 <= V < 2 ^ 32 -> 0 <= cfg ->
  table_ok pb t -> (forall w, In [w] (map fst t) <-> 0 <= w < V) ->
  Forall (fun kv => Forall (fun w => 0 <= w <= V) (fst kv) /\ pv_ok (snd kv) /\ (length (fst kv) <= n)%nat) t ->
  Z.of_nat (key_words t) < 2 ^ 57 ->
  let mem := mk_trie array cfg (built pb n (of_table pb (0, 0) t)) in
  forall k, k <> [] -> Forall (fun w => 0 <= w <= V) k ->
  match assoc pb t k with
  | None => twalk array mem k = Some None
  | Some v =>
      exists got, twalk array mem k = Some (Some got) /\
        (match k with
         | [_] => fst (fst got) = v
         | _ => fst (fst (fst got)) = norm_p (fst v) /\ (Nat.eqb (length k) n = false -> snd (fst (fst got)) = snd v)
         end) /\
        (Nat.eqb (length k) n = false -> ((snd (fst got) <? snd got) = true <-> exists w, assoc pb t (k ++ [w]) <> None))
  end.
Proof.
  intros array cfg n V t Hn HV Hcfg Hok Huni Hall Hsize mem k Hk Hkw.
  destruct (lookup_of_table pb (0, 0) t Hok) as [Hs Hl].
  destruct (of_table_dense pb (0, 0) t V Hok Huni) as [Hd Hlen].
  rewrite Z.max_r in Hlen by lia.
  destruct (of_table_facts V n t FNil Hall I ltac:(cbn; lia)) as [Hv [Hdep Hsz]]. cbn [fsize] in Hsz.
  fold (of_table pb (0, 0) t) in Hv, Hdep, Hsz.
  set (F := of_table pb (0, 0) t) in *.
  pose proof (trie_memory_is_forest_lookup array cfg n F Hn Hdep Hd ltac:(apply sorted_from_is_fsorted; exact Hs)
                ltac:(rewrite Hlen; exact Hv) ltac:(rewrite Hlen; lia) Hcfg
                ltac:(intros j; pose proof (lev_size F j); lia) k ltac:(rewrite Hlen; exact Hkw)) as H.
  pose proof (Hl k Hk) as Hlk. unfold lookupv in Hlk.
  destruct (lookup pb F k) as [[v c]|] eqn:EL; cbn [option_map fst] in Hlk; rewrite <- Hlk; [|exact H].
  destruct H as [got [G1 G2]]. exists got. split; [exact G1|].
  assert (Hchild : 0 < flen pb c <-> exists w, assoc pb t (k ++ [w]) <> None).
  { rewrite chain_has_word. split; intros [w Hw]; exists w.
    - rewrite <- (Hl (k ++ [w])) by (destruct k; discriminate). unfold lookupv. rewrite lookup_snoc, EL by exact Hk.
      destruct (find_sib pb c w) as [[x y]|]; [discriminate|contradiction].
    - rewrite <- (Hl (k ++ [w])) in Hw by (destruct k; discriminate). unfold lookupv in Hw. rewrite lookup_snoc, EL in Hw by exact Hk.
      destruct (find_sib pb c w) as [[x y]|]; [discriminate|exfalso; apply Hw; reflexivity]. }
  destruct k as [|w [|w2 ws]]; [contradiction| |].
  - destruct G2 as [A B]. split; [exact A|]. intros _. rewrite <- Hchild. rewrite Z.ltb_lt. lia.
  - destruct G2 as [A B]. split; [split; [exact A|intros Hne; destruct (B Hne) as [B1 _]; exact B1]|].
    intros Hne. destruct (B Hne) as [_ B2]. rewrite <- Hchild. rewrite Z.ltb_lt. lia.
Qed.

(* ---- D. the table of the language-model development, converted ----------------------------------------------------------------------- *)
Lemma zkey_inj : forall a b, zkey a = zkey b -> a = b.
Proof.
  induction a as [|x a IH]; destruct b as [|y b]; cbn [zkey map]; intros H; try discriminate; [reflexivity|].
  inversion H as [[H1 H2]]. f_equal; [apply N2Z.inj; exact H1|apply IH; exact H2].
Qed.

Lemma zkey_app : forall a b, zkey (a ++ b) = zkey a ++ zkey b.
Proof. intros. unfold zkey. apply map_app. Qed.

Lemma key_eqb_iff : forall a b, key_eqb a b = true <-> a = b.
Proof. intros. unfold key_eqb. destruct (list_eq_dec N.eq_dec a b); split; intros; try assumption; try reflexivity; try discriminate; contradiction. Qed.

Lemma key_eq_zkey : forall a b, key_eq (zkey a) (zkey b) = key_eqb a b.
Proof.
  intros a b. unfold key_eq, key_eqb. destruct (list_eq_dec Z.eq_dec (zkey a) (zkey b)) as [E|N1]; destruct (list_eq_dec N.eq_dec a b) as [E2|N2]; try reflexivity.
  - exfalso. apply N2. apply zkey_inj. exact E.
  - exfalso. apply N1. rewrite E2. reflexivity.
Qed.

Definition conv (pz : list key) (t : atable) : list (list Z * pb) :=
  map (fun ke => (zkey (fst ke), entry_pb (existsb (key_eqb (fst ke)) pz) (snd ke))) t.

Lemma trie_mem_conv : forall array cfg n t pz, trie_mem array cfg n t pz = mk_trie array cfg (built pb n (of_table pb (0, 0) (conv pz t))).
Proof. reflexivity. Qed.

Lemma assoc_conv : forall pz t k, assoc pb (conv pz t) (zkey k) = option_map (entry_pb (existsb (key_eqb k) pz)) (alookup t k).
Proof.
  intros pz. induction t as [|[k' e] r IH]; intros k; [reflexivity|].
  cbn [conv map assoc alookup fst snd]. rewrite key_eq_zkey. destruct (key_eqb k' k) eqn:E.
  - apply key_eqb_iff in E. subst. reflexivity.
  - apply IH.
Qed.

Lemma alookup_in : forall (t : atable) k, alookup t k <> None <-> In k (map fst t).
Proof.
  induction t as [|[k0 e0] r IH]; intros k; cbn [alookup map fst In]; [tauto|].
  destruct (key_eqb k0 k) eqn:E.
  - apply key_eqb_iff in E. subst. split; [intros _; left; reflexivity|intros _; discriminate].
  - rewrite IH. split; [intros H; right; exact H|intros [H|H]; [subst; rewrite (proj2 (key_eqb_iff k k) eq_refl) in E; discriminate|exact H]].
Qed.

Lemma conv_keys : forall pz t, map fst (conv pz t) = map zkey (map fst t).
Proof. intros. unfold conv. rewrite !map_map. reflexivity. Qed.

Lemma is_prefix_zkey : forall p k, is_prefix p (zkey k) = true -> exists k1 k2, k = k1 ++ k2 /\ p = zkey k1.
Proof.
  induction p as [|x p IH]; intros k H.
  - exists [], k. split; reflexivity.
  - destruct k as [|y k]; cbn [zkey map is_prefix] in H; [discriminate|].
    apply andb_prop in H. destruct H as [H1 H2]. apply Z.eqb_eq in H1. subst x.
    destruct (IH k H2) as [k1 [k2 [-> ->]]]. exists (y :: k1), k2. split; reflexivity.
Qed.

(* ---- E. reading the payload back ------------------------------------------------------------------------------------------------------- *)
Lemma f32_sign_range : forall z, - 2 ^ 24 < z < 2 ^ 24 -> z <> 0 ->
  (z < 0 -> 2 ^ 31 < f32_of_units z < 2 ^ 32) /\ (0 < z -> 0 < f32_of_units z < 2 ^ 31).
Proof.
  intros z Hz Hnz. unfold f32_of_units. destruct (Z.eqb_spec z 0); [contradiction|].
  set (m := Z.abs z). assert (Hm : 0 < m < 2 ^ 24) by (unfold m; lia).
  set (e := Z.log2 m). assert (He : 0 <= e < 24) by (unfold e; split; [apply Z.log2_nonneg|apply Z.log2_lt_pow2; lia]).
  replace (e <=? 23) with true by (symmetry; apply Z.leb_le; lia).
  assert (Hmant : 0 <= Z.shiftl m (23 - e) - 8388608 < 8388608).
  { rewrite Z.shiftl_mul_pow2 by lia. destruct (Z.log2_spec m ltac:(lia)) as [L1 L2]. fold e in L1, L2.
    replace (Z.succ e) with (e + 1) in L2 by lia.
    assert (P : 2 ^ e * 2 ^ (23 - e) = 8388608) by (rewrite <- Z.pow_add_r by lia; replace (e + (23 - e)) with 23 by lia; reflexivity).
    assert (P2 : 2 ^ (e + 1) = 2 * 2 ^ e) by (rewrite Z.pow_add_r by lia; lia).
    assert (0 < 2 ^ (23 - e)) by (apply Z.pow_pos_nonneg; lia). nia. }
  assert (Hexp : 121 * 8388608 <= Z.shiftl (e - 6 + 127) 23 <= 144 * 8388608).
  { rewrite Z.shiftl_mul_pow2 by lia. change (2 ^ 23) with 8388608. nia. }
  change (2 ^ 31) with 2147483648. change (2 ^ 32) with 4294967296.
  split; intros Hs.
  - replace (z <? 0) with true by (symmetry; apply Z.ltb_lt; exact Hs). lia.
  - replace (z <? 0) with false by (symmetry; apply Z.ltb_ge; lia). lia.
Qed.

Lemma sign_on_add : forall y, 0 <= y < 2 ^ 31 -> sign_on y = y + 2 ^ 31.
Proof.
  intros y Hy. unfold sign_on, Gen.BitPacking.kSignBit. change 2147483648 with (2 ^ 31).
  rewrite <- Z.lxor_lor, <- Z.add_nocarry_lxor; try reflexivity.
  - apply Z.bits_inj'. intros i Hi. rewrite Z.land_spec, Z.bits_0, Z.pow2_bits_eqb by lia.
    destruct (Z.eqb_spec 31 i) as [<-|Hne]; [|apply andb_false_r]. rewrite andb_true_r. apply (Base.Mem.small_no_high_bits y 31 31); lia.
  - apply Z.bits_inj'. intros i Hi. rewrite Z.land_spec, Z.bits_0, Z.pow2_bits_eqb by lia.
    destruct (Z.eqb_spec 31 i) as [<-|Hne]; [|apply andb_false_r]. rewrite andb_true_r. apply (Base.Mem.small_no_high_bits y 31 31); lia.
Qed.

Lemma decode_norm : forall p, - 2 ^ 24 < p <= 0 -> units_of_f32 (norm_p (f32_of_units p)) = p.
Proof.
  intros p Hp. unfold norm_p. destruct (Z.eq_dec p 0) as [->|Hnz]; [reflexivity|].
  destruct (f32_sign_range p ltac:(lia) Hnz) as [Hneg _]. specialize (Hneg ltac:(lia)).
  assert (Hmod : f32_of_units p mod 2 ^ 31 = f32_of_units p - 2 ^ 31).
  { symmetry. apply Z.mod_unique with 1; [left; change (2 ^ 32) with (2 * 2 ^ 31) in Hneg; lia|lia]. }
  rewrite Hmod, sign_on_add by (change (2 ^ 32) with (2 * 2 ^ 31) in Hneg; lia).
  replace (f32_of_units p - 2 ^ 31 + 2 ^ 31) with (f32_of_units p) by lia. apply f32_units_roundtrip. lia.
Qed.

Lemma decode_norm_zero_pattern : forall b, b = 0 \/ b = 2147483648 -> units_of_f32 (norm_p b) = 0.
Proof. intros b [->| ->]; reflexivity. Qed.

Lemma f32_not_marker : forall z, - 2 ^ 24 < z < 2 ^ 24 -> z <> 0 -> f32_of_units z <> 0 /\ f32_of_units z <> 2147483648.
Proof.
  intros z Hz Hnz. destruct (f32_sign_range z Hz Hnz) as [A B]. change (2 ^ 31) with 2147483648 in *.
  destruct (Z.lt_trichotomy z 0) as [H|[H|H]]; [specialize (A H); lia|contradiction|specialize (B H); lia].
Qed.

(* ---- F. the table read back from the memory --------------------------------------------------------------------------------------------- *)
Definition mem_table (array : bool) (cfg : Z) (n : nat) (V : Z) (t : atable) (pz : list key) : table :=
  fun k =>
    if forallb (fun w => Z.of_N w <? V) k then
      match k with
      | [] => None
      | _ :: _ =>
          match twalk array (trie_mem array cfg n t pz) (zkey k) with
          | Some (Some r) => Some (entry_of_lookup (Nat.eqb (length k) n) r)
          | _ => None
          end
      end
    else None.

Section EndToEnd.
  Variable array : bool.
  Variable cfg : Z.
  Variable n : nat.
  Variable V : Z.
  Variable t : atable.
  Variable pz : list key.
  Variable M : arpa.
  Let T : table := alookup t.

  Hypothesis Hn : (2 <= n)%nat.
  Hypothesis HV : 0 <= V < 2 ^ 32.
  Hypothesis Hcfg : 0 <= cfg.
  Hypothesis Inv : TInv n T M.
  Hypothesis Hnodup : NoDup (map fst t).
  (* every word id below V is a unigram, and only those *)
  Hypothesis Hdense : forall w, T [w] <> None <-> Z.of_N w < V.
  (* scores within the range in which float32 is exact for multiples of 1/64; proper model: stored probabilities beyond unigrams <= 0 *)
  Hypothesis Hrange : forall k e, T k = Some e -> - 2 ^ 24 < e_prob e < 2 ^ 24 /\ - 2 ^ 24 < e_bo e < 2 ^ 24.
  Hypothesis Hneg : forall k e, T k = Some e -> (2 <= length k)%nat -> e_prob e <= 0.
  (* the highest order has no back-off *)
  Hypothesis Hlongest : forall k e, T k = Some e -> length k = n -> e_bo e = 0.
  Hypothesis Hsize : Z.of_nat (n * length t) < 2 ^ 57.

  Let T' : table := mem_table array cfg n V t pz.

  Lemma prefix_present : forall k2 k1, k1 <> [] -> T (k1 ++ k2) <> None -> T k1 <> None.
  Proof.
    induction k2 as [|x k2 IH] using rev_ind; intros k1 Hk H; [rewrite app_nil_r in H; exact H|].
    apply IH; [exact Hk|]. rewrite app_assoc in H. apply (i_suffix _ _ _ Inv (k1 ++ k2) x); [destruct k1; [contradiction|discriminate]|exact H].
  Qed.

  (* every word of a stored n-gram is a unigram *)
  Lemma words_are_unigrams : forall k, T k <> None -> forall w, In w k -> T [w] <> None.
  Proof.
    induction k as [|x k IH]; intros H w Hin; [destruct Hin|].
    destruct Hin as [->|Hin].
    - apply (prefix_present k [w]); [discriminate|exact H].
    - destruct k as [|y k']; [destruct Hin|]. apply IH; [|exact Hin].
      apply (i_ctx _ _ _ Inv x (y :: k')); [discriminate|exact H].
  Qed.

  Lemma key_words_conv : (key_words (conv pz t) <= n * length t)%nat.
  Proof.
    assert (G : forall l : atable, (forall k, In k (map fst l) -> (length k <= n)%nat) -> (key_words (conv pz l) <= n * length l)%nat).
    { induction l as [|[k e] r IH]; intros H; [cbn; lia|].
      cbn [conv map key_words fold_right fst length]. fold (conv pz r). fold (key_words (conv pz r)).
      unfold zkey. rewrite map_length. specialize (IH ltac:(intros k' Hk'; apply H; right; exact Hk')).
      pose proof (H k ltac:(left; reflexivity)). lia. }
    apply G. intros k Hk. apply alookup_in in Hk. apply (i_len _ _ _ Inv k Hk).
  Qed.

  Lemma conv_table_ok : table_ok pb (conv pz t).
  Proof.
    split; [|split].
    - rewrite conv_keys. apply FinFun.Injective_map_NoDup; [intros a b; apply zkey_inj|exact Hnodup].
    - intros k' Hk'. rewrite conv_keys in Hk'. apply in_map_iff in Hk'. destruct Hk' as [k [<- Hk]].
      apply alookup_in in Hk. pose proof (i_len _ _ _ Inv k Hk) as Hl. split.
      + destruct k; [cbn in Hl; lia|discriminate].
      + unfold nonneg_key, zkey. apply Forall_forall. intros x Hx. apply in_map_iff in Hx. destruct Hx as [y [<- _]]. lia.
    - intros k' p Hk' Hp Hpp. rewrite conv_keys in *. apply in_map_iff in Hk'. destruct Hk' as [k [<- Hk]].
      unfold proper_prefix in Hpp. apply andb_prop in Hpp. destruct Hpp as [Hpre Hneq].
      destruct (is_prefix_zkey p k Hpre) as [k1 [k2 [-> ->]]].
      apply in_map. apply alookup_in. apply (prefix_present k2 k1); [destruct k1; [contradiction|discriminate]|apply alookup_in; exact Hk].
  Qed.

  Lemma conv_dense : forall w, In [w] (map fst (conv pz t)) <-> 0 <= w < V.
  Proof.
    intros w. rewrite conv_keys. split.
    - intros H. apply in_map_iff in H. destruct H as [k [E Hk]]. destruct k as [|x [|y k']]; cbn [zkey map] in E; try discriminate.
      inversion E. subst w. apply alookup_in in Hk. apply Hdense in Hk. lia.
    - intros Hw. apply in_map_iff. exists [Z.to_N w]. split; [cbn [zkey map]; rewrite Z2N.id by lia; reflexivity|].
      apply alookup_in. apply Hdense. rewrite Z2N.id by lia. lia.
  Qed.

  Lemma conv_bounds : Forall (fun kv => Forall (fun w => 0 <= w <= V) (fst kv) /\ pv_ok (snd kv) /\ (length (fst kv) <= n)%nat) (conv pz t).
  Proof.
    apply Forall_forall. intros kv Hkv. unfold conv in Hkv. apply in_map_iff in Hkv. destruct Hkv as [[k e] [<- Hin]]. cbn [fst snd].
    assert (Hk : T k <> None) by (apply alookup_in; apply in_map_iff; exists (k, e); split; [reflexivity|exact Hin]).
    split; [|split].
    - apply Forall_forall. intros x Hx. unfold zkey in Hx. apply in_map_iff in Hx. destruct Hx as [y [<- Hy]].
      pose proof (words_are_unigrams k Hk y Hy) as Hu. apply Hdense in Hu. lia.
    - (* the table may list k more than once only if NoDup fails; take the entry actually paired with k here *)
      assert (He : T k = Some e).
      { clear - Hin Hnodup. unfold T. induction t as [|[k0 e0] r IH]; [destruct Hin|].
        cbn [map fst] in Hnodup. apply NoDup_cons_iff in Hnodup. destruct Hnodup as [Hni Hnd].
        cbn [alookup]. destruct Hin as [E|Hin'].
        - inversion E. subst. rewrite (proj2 (key_eqb_iff k k) eq_refl). reflexivity.
        - destruct (key_eqb k0 k) eqn:E.
          + apply key_eqb_iff in E. subst. exfalso. apply Hni. apply in_map_iff. exists (k, e). split; [reflexivity|exact Hin'].
          + apply IH; assumption. }
      destruct (Hrange k e He) as [R1 R2]. unfold pv_ok, entry_pb. cbn [fst snd].
      split.
      + destruct (e_prob e =? 0); [destruct (existsb _ pz); change (2 ^ 32) with 4294967296; lia|apply f32_of_units_range; exact R1].
      + destruct (e_bo e =? 0); [destruct (e_ext e); change (2 ^ 32) with 4294967296; lia|apply f32_of_units_range; exact R2].
    - unfold zkey. rewrite map_length. apply (i_len _ _ _ Inv k Hk).
  Qed.

  (* what the memory answers for a key over the vocabulary *)
  Lemma mem_walk : forall k, k <> [] -> Forall (fun w => Z.of_N w < V) k ->
    match T k with
    | None => twalk array (trie_mem array cfg n t pz) (zkey k) = Some None
    | Some e =>
        exists got, twalk array (trie_mem array cfg n t pz) (zkey k) = Some (Some got) /\
          let e' := entry_of_lookup (Nat.eqb (length k) n) got in
          e_prob e' = e_prob e /\ e_bo e' = e_bo e /\
          ((length k < n)%nat -> e_ext e' = e_ext e /\ e_left e' = e_left e) /\
          (length k = n -> e_ext e' = false)
    end.
  Proof.
    intros k Hk Hw.
    pose proof (trie_memory_is_table_full array cfg n V (conv pz t) Hn HV Hcfg conv_table_ok conv_dense conv_bounds
                  ltac:(pose proof key_words_conv; lia) (zkey k) ltac:(destruct k; [contradiction|discriminate])
                  ltac:(unfold zkey; apply Forall_forall; intros x Hx; apply in_map_iff in Hx; destruct Hx as [y [<- Hy]];
                        rewrite Forall_forall in Hw; specialize (Hw y Hy); lia)) as H.
    rewrite <- trie_mem_conv in H. rewrite assoc_conv in H. fold T in H.
    destruct (T k) as [e|] eqn:ET; cbn [option_map] in H; [|exact H].
    destruct H as [got [G1 [G2 G3]]]. exists got. split; [exact G1|]. cbv zeta.
    destruct (Hrange k e ET) as [R1 R2].
    assert (Hlen : (1 <= length k <= n)%nat) by (apply (i_len _ _ _ Inv k); rewrite ET; discriminate).
    unfold zkey in G2, G3. rewrite map_length in G3.
    destruct got as [[[pb0 bb0] lo] hi]. cbn [fst snd] in G2, G3.
    set (v := entry_pb (existsb (key_eqb k) pz) e) in *.
    assert (Hpv : fst v = (if e_prob e =? 0 then (if existsb (key_eqb k) pz then 0 else 2147483648) else f32_of_units (e_prob e))) by reflexivity.
    assert (Hbv : snd v = (if e_bo e =? 0 then (if e_ext e then 0 else 2147483648) else f32_of_units (e_bo e))) by reflexivity.
    (* the probability *)
    assert (Hprob : units_of_f32 pb0 = e_prob e).
    { destruct k as [|w [|w2 ws]]; [contradiction| |]; cbn [map] in G2.
      - assert (E1 : pb0 = fst v) by (rewrite <- G2; reflexivity). rewrite E1, Hpv.
        destruct (Z.eqb_spec (e_prob e) 0) as [E0|En]; [rewrite E0; destruct (existsb _ pz); reflexivity|apply f32_units_roundtrip; exact R1].
      - destruct G2 as [E1 _]. rewrite E1, Hpv.
        pose proof (Hneg _ e ET ltac:(cbn [length]; lia)) as Hle.
        destruct (Z.eqb_spec (e_prob e) 0) as [E0|En]; [rewrite E0; apply decode_norm_zero_pattern; destruct (existsb _ pz); [left|right]; reflexivity|].
        apply decode_norm. lia. }
    destruct (Nat.eqb_spec (length k) n) as [Eln|Nln].
    - (* the longest order *)
      unfold entry_of_lookup. cbn [e_prob e_bo e_ext e_left]. split; [exact Hprob|]. split; [symmetry; apply (Hlongest k e ET Eln)|].
      split; [intros; lia|intros _; reflexivity].
    - assert (Hlt : (length k < n)%nat) by lia.
      assert (Hbo : bb0 = snd v).
      { destruct k as [|w [|w2 ws]]; [contradiction| |]; cbn [map] in G2.
        - rewrite <- G2. reflexivity.
        - destruct G2 as [_ E2]. apply E2. apply Nat.eqb_neq. cbn [length map] in *. rewrite map_length. exact Nln. }
      unfold entry_of_lookup. cbn [e_prob e_bo e_ext e_left fst snd]. split; [exact Hprob|].
      rewrite Hbo, Hbv.
      assert (Hext_consistent : e_bo e <> 0 -> e_ext e = true).
      { intros Hb. destruct (e_ext e) eqn:Ee; [reflexivity|]. destruct (i_ext _ _ _ Inv k e ET Ee) as [Hz _]. contradiction. }
      split; [|split; [|intros; lia]].
      + destruct (Z.eqb_spec (e_bo e) 0) as [E0|En]; [rewrite E0; destruct (e_ext e); reflexivity|].
        destruct (f32_not_marker (e_bo e) R2 En) as [N1 N2].
        destruct (Z.eqb_spec (f32_of_units (e_bo e)) 0); [contradiction|]. destruct (Z.eqb_spec (f32_of_units (e_bo e)) 2147483648); [contradiction|].
        cbn [orb]. apply f32_units_roundtrip. exact R2.
      + intros _. split.
        * destruct (Z.eqb_spec (e_bo e) 0) as [E0|En]; [destruct (e_ext e); reflexivity|].
          destruct (f32_not_marker (e_bo e) R2 En) as [N1 N2].
          destruct (Z.eqb_spec (f32_of_units (e_bo e)) 2147483648); [contradiction|]. cbn [negb]. symmetry. apply Hext_consistent. exact En.
        * (* the child range is non-empty exactly when something extends the n-gram to the left *)
          specialize (G3 eq_refl).
          apply Bool.eq_true_iff_eq. rewrite G3. rewrite (i_left _ _ _ Inv k e ET Hlt). split.
          -- intros [wz Hwz]. apply (proj1 (assoc_in pb _ _)) in Hwz. rewrite conv_keys in Hwz. apply in_map_iff in Hwz. destruct Hwz as [k2 [E2 Hk2]].
             assert (exists x, k2 = k ++ [x]) as [x ->].
             { assert (Hl2 : length k2 = S (length k)) by (apply (f_equal (@length Z)) in E2; unfold zkey in E2; rewrite app_length, !map_length in E2; cbn [length] in E2; lia).
               exists (last k2 0%N). rewrite (app_removelast_last 0%N) at 1 by (destruct k2; [discriminate|discriminate]).
               f_equal. apply zkey_inj. rewrite (app_removelast_last 0%N (l := k2)) in E2 by (destruct k2; discriminate).
               rewrite zkey_app in E2. apply app_inj_tail in E2. destruct E2 as [E2 _]. exact E2. }
             exists x. apply alookup_in. exact Hk2.
          -- intros [x Hx]. exists (Z.of_N x). apply (proj2 (assoc_in pb _ _)). rewrite conv_keys. replace (map Z.of_N k ++ [Z.of_N x]) with (zkey (k ++ [x])) by (rewrite zkey_app; reflexivity).
             apply in_map. apply alookup_in. exact Hx.
  Qed.

  Lemma T_nil : T [] = None.
  Proof. destruct (T []) eqn:E; [|reflexivity]. pose proof (i_len _ _ _ Inv [] ltac:(rewrite E; discriminate)) as H. cbn in H. lia. Qed.

  Lemma in_vocab : forall k, T k <> None -> forallb (fun w => Z.of_N w <? V) k = true.
  Proof.
    intros k Hk. apply forallb_forall. intros w Hw. apply Z.ltb_lt. apply Hdense. apply (words_are_unigrams k Hk w Hw).
  Qed.

  Lemma T'_spec : forall k,
    match T k with
    | None => T' k = None
    | Some e => exists e', T' k = Some e' /\ e_prob e' = e_prob e /\ e_bo e' = e_bo e /\
                           ((length k < n)%nat -> e_ext e' = e_ext e /\ e_left e' = e_left e) /\ (length k = n -> e_ext e' = false)
    end.
  Proof.
    intros k. unfold T', mem_table.
    destruct (forallb (fun w => Z.of_N w <? V) k) eqn:Eg.
    - destruct k as [|w ks]; [rewrite T_nil; reflexivity|].
      assert (Hw : Forall (fun w0 => Z.of_N w0 < V) (w :: ks)).
      { apply Forall_forall. intros x Hx. rewrite forallb_forall in Eg. apply Z.ltb_lt. apply Eg. exact Hx. }
      pose proof (mem_walk (w :: ks) ltac:(discriminate) Hw) as H.
      destruct (T (w :: ks)) as [e|]; [|rewrite H; reflexivity].
      destruct H as [got [G1 G2]]. rewrite G1. eexists. split; [reflexivity|exact G2].
    - destruct (T k) as [e|] eqn:E; [|reflexivity].
      rewrite (in_vocab k ltac:(rewrite E; discriminate)) in Eg. discriminate.
  Qed.

  Lemma T'_none_iff : forall k, T' k <> None <-> T k <> None.
  Proof.
    intros k. pose proof (T'_spec k) as H. destruct (T k) as [e|].
    - destruct H as [e' [H _]]. rewrite H. split; intros _; discriminate.
    - rewrite H. tauto.
  Qed.

  Lemma T'_some : forall k e', T' k = Some e' ->
    exists e, T k = Some e /\ e_prob e' = e_prob e /\ e_bo e' = e_bo e /\
              ((length k < n)%nat -> e_ext e' = e_ext e /\ e_left e' = e_left e) /\ (length k = n -> e_ext e' = false).
  Proof.
    intros k e' H. pose proof (T'_spec k) as S. destruct (T k) as [e|].
    - destruct S as [e2 [S1 S2]]. rewrite S1 in H. inversion H. subst e2. exists e. split; [reflexivity|exact S2].
    - rewrite S in H. discriminate.
  Qed.

  (* the table read back from the memory satisfies the loaders' invariants *)
  Theorem mem_table_TInv : TInv n T' M.
  Proof.
    constructor.
    - intros k x Hk H. apply T'_none_iff. apply T'_none_iff in H. apply (i_suffix _ _ _ Inv k x Hk H).
    - intros k e' H Hl. destruct (T'_some k e' H) as [e [ET [_ [_ [A _]]]]]. destruct (A Hl) as [_ El]. rewrite El.
      rewrite (i_left _ _ _ Inv k e ET Hl). split; intros [x Hx]; exists x; apply T'_none_iff; exact Hx.
    - intros w c e' H. destruct (T'_some (w :: c) e' H) as [e [ET [Ep _]]]. rewrite Ep. apply (i_prob _ _ _ Inv w c e ET).
    - intros k e' H. destruct (T'_some k e' H) as [e [ET [_ [Eb _]]]]. rewrite Eb. apply (i_bo _ _ _ Inv k e ET).
    - intros k H. apply (i_sub _ _ _ Inv k). destruct (T k) eqn:E; [|reflexivity]. exfalso.
      assert (T' k <> None) by (apply T'_none_iff; rewrite E; discriminate). contradiction.
    - intros k e' H Hx. destruct (T'_some k e' H) as [e [ET [_ [Eb [A B]]]]].
      assert (Hlen : (1 <= length k <= n)%nat) by (apply (i_len _ _ _ Inv k); rewrite ET; discriminate).
      destruct (Nat.eq_dec (length k) n) as [Eln|Nln].
      + split; [rewrite Eb; apply (Hlongest k e ET Eln)|].
        intros x. destruct (T' (x :: k)) eqn:E; [|reflexivity]. exfalso.
        assert (Hn' : T (x :: k) <> None) by (apply T'_none_iff; rewrite E; discriminate).
        pose proof (i_len _ _ _ Inv (x :: k) Hn') as Hl2. cbn [length] in Hl2. lia.
      + destruct (A ltac:(lia)) as [Ee _]. rewrite Ee in Hx. destruct (i_ext _ _ _ Inv k e ET Hx) as [Z0 Hnone].
        split; [rewrite Eb; exact Z0|]. intros x. destruct (T' (x :: k)) eqn:E; [|reflexivity]. exfalso.
        assert (Hn' : T (x :: k) <> None) by (apply T'_none_iff; rewrite E; discriminate). apply Hn'. apply Hnone.
    - intros w k Hk H. apply T'_none_iff. apply T'_none_iff in H. apply (i_ctx _ _ _ Inv w k Hk H).
    - intros k H. apply T'_none_iff in H. apply (i_len _ _ _ Inv k H).
  Qed.

  (* the two extra hypotheses of the chart-scoring theorems (C08) transfer as well *)
  Lemma mem_table_rest : forall k e', T' k = Some e' -> e_rest e' = e_prob e'.
  Proof.
    intros k e' H. unfold T', mem_table in H.
    destruct (forallb (fun w => Z.of_N w <? V) k); [|discriminate]. destruct k as [|w ks]; [discriminate|].
    destruct (twalk array (trie_mem array cfg n t pz) (zkey (w :: ks))) as [[r|]|]; try discriminate.
    remember (Nat.eqb (length (w :: ks)) n) as lg. injection H as <-. unfold entry_of_lookup. destruct r as [[v lo] hi]. destruct lg; reflexivity.
  Qed.

  Lemma mem_table_ext_ctx :
    (forall k e, T k = Some e -> e_ext e = true -> (2 <= length k)%nat -> exists x, T (x :: k) <> None) ->
    forall k e', T' k = Some e' -> e_ext e' = true -> (2 <= length k)%nat -> exists x, T' (x :: k) <> None.
  Proof.
    intros Hx k e' H He Hl. destruct (T'_some k e' H) as [e [ET [_ [_ [A B]]]]].
    assert (Hlen : (1 <= length k <= n)%nat) by (apply (i_len _ _ _ Inv k); rewrite ET; discriminate).
    destruct (Nat.eq_dec (length k) n) as [Eln|Nln]; [rewrite (B Eln) in He; discriminate|].
    destruct (A ltac:(lia)) as [Ee _]. rewrite Ee in He. destruct (Hx k e ET He Hl) as [x Hxx].
    exists x. apply T'_none_iff. exact Hxx.
  Qed.
End EndToEnd.
