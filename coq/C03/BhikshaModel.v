(* C03/BhikshaModel.v -- executable model of trie::ArrayBhiksha (lm/bhiksha.hh/.cc): the "next" pointers of a trie
   level, a non-decreasing sequence v_0 <= v_1 <= ... <= v_n, are stored as  (high part >> b) in a table of
   first-indices (offset array) + (low b bits) inline in the record.  No proofs here. *)
From Coq Require Import ZArith List Bool Arith.
Import ListNotations.
Local Open Scope Z_scope.

(* WriteNext(index, value), called for index = 0, 1, ..., n in order:
     encode = value >> b;  for (; write_to <= encode; ++write_to) offsets[write_to] = index;  inline = value & mask
   The offset array is built as a list (slot 0 is set to 0 by FinishedLoading); `offs` holds slots 1..write_to-1. *)
Fixpoint fill (count : nat) (index : Z) (offs : list Z) : list Z :=
  match count with O => offs | S c => fill c index (offs ++ [index]) end.

Definition write_next (b : Z) (st : list Z * list Z) (index value : Z) : list Z * list Z :=
  let '(offs, inls) := st in
  let encode := Z.shiftr value b in
  let write_to := Z.of_nat (length offs) + 1 in          (* next slot to write *)
  let offs' := if write_to <=? encode then fill (Z.to_nat (encode - write_to + 1)) index offs else offs in
  (offs', inls ++ [Z.land value (Z.ones b)]).

Fixpoint write_all_from (b : Z) (st : list Z * list Z) (index : Z) (vs : list Z) : list Z * list Z :=
  match vs with
  | [] => st
  | v :: r => write_all_from b (write_next b st index v) (index + 1) r
  end.

(* the stored structure: offsets (slot 0 = 0 prepended) and inline values *)
Definition bhiksha_write (b : Z) (vs : list Z) : list Z * list Z :=
  let '(offs, inls) := write_all_from b ([], []) 0 vs in (0 :: offs, inls).

(* std::upper_bound(begin, end, x) - begin : number of leading elements <= x in a sorted list *)
Fixpoint upper_bound (l : list Z) (x : Z) : nat :=
  match l with
  | [] => O
  | y :: r => if y <=? x then S (upper_bound r x) else O
  end.

(* ReadNext(index): begin_it = upper_bound(offsets, index) - 1; end_it scans forward while offsets[end_it] <= index + 1 *)
Definition read_next (b : Z) (st : list Z * list Z) (index : Z) : Z * Z :=
  let '(offs, inls) := st in
  let begin_it := (upper_bound offs index - 1)%nat in
  let rest := skipn (S begin_it) offs in
  let end_it := (begin_it + upper_bound rest (index + 1))%nat in
  (Z.lor (Z.shiftl (Z.of_nat begin_it) b) (nth (Z.to_nat index) inls 0),
   Z.lor (Z.shiftl (Z.of_nat end_it) b) (nth (Z.to_nat (index + 1)) inls 0)).

(* the same with the two inline values handed over (what the code does: it reads just these two from the records) *)
Definition read_next2 (b : Z) (offs : list Z) (index : Z) (inline_a inline_b : Z) : Z * Z :=
  let begin_it := (upper_bound offs index - 1)%nat in
  let rest := skipn (S begin_it) offs in
  let end_it := (begin_it + upper_bound rest (index + 1))%nat in
  (Z.lor (Z.shiftl (Z.of_nat begin_it) b) inline_a, Z.lor (Z.shiftl (Z.of_nat end_it) b) inline_b).

(* ChopBits / InlineBits (bhiksha.cc): argmin over chop in [0, min(required, configured)] of
   (max_next >> (required - chop)) * 64 - max_offset * chop, first minimum wins *)
Definition bits_req (x : Z) : Z := if x =? 0 then 0 else Z.log2 x + 1.
Fixpoint chop_search (fuel : nat) (chop limit required max_offset max_next best lowest : Z) : Z :=
  match fuel with
  | O => best
  | S f => if chop >? limit then best
           else let change := Z.shiftr max_next (required - chop) * 64 - max_offset * chop in
                if change <? lowest then chop_search f (chop + 1) limit required max_offset max_next chop change
                else chop_search f (chop + 1) limit required max_offset max_next best lowest
  end.
Definition chop_bits (max_offset max_next configured : Z) : Z :=
  let required := bits_req max_next in
  chop_search 70 0 (Z.min required configured) required max_offset max_next 0 (2 ^ 63 - 1).
Definition inline_bits (max_offset max_next configured : Z) : Z := bits_req max_next - chop_bits max_offset max_next configured.
Definition array_count (max_offset max_next configured : Z) : Z :=
  Z.shiftr max_next (inline_bits max_offset max_next configured) + 1.
