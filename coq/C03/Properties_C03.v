(* C03 -- all model data structures are observationally equivalent. *)
From Coq Require Import ZArith List Bool.
From Kenlm Require Import LM.Defs LM.Query LM.QueryProofs C20.ProbingModel C20.ProbingProofs.
Import ListNotations.
Local Open Scope Z_scope.

(* Two tables that satisfy the loaders' invariants for the SAME ARPA file give the same probability for every
   query, whatever the lookup kind -- in particular the probing and the trie structure, with or without blanks. *)
Theorem C03_equal_probabilities : forall N T1 T2 M K1 K2, (2 <= N)%nat -> TInv N T1 M -> TInv N T2 M ->
  forall ctx w, T1 [w] <> None -> T2 [w] <> None ->
  r_prob (fst (full_score_forgot N T1 K1 ctx w)) = r_prob (fst (full_score_forgot N T2 K2 ctx w)).
Proof.
  intros N T1 T2 M K1 K2 HN I1 I2 ctx w H1 H2.
  rewrite (forgot_prob N HN T1 M K1 I1 ctx w H1), (forgot_prob N HN T2 M K2 I2 ctx w H2). reflexivity.
Qed.

(* ... and along whole sentences scored with states *)
Theorem C03_equal_sentence_scores : forall N T1 T2 M, (2 <= N)%nat -> TInv N T1 M -> TInv N T2 M ->
  forall ws s1 s2 h, valid N T1 M s1 h -> valid N T2 M s2 h ->
  (forall w, In w ws -> T1 [w] <> None /\ T2 [w] <> None) ->
  fst (score_seq N T1 s1 ws) = fst (score_seq N T2 s2 ws).
Proof.
  intros N T1 T2 M HN I1 I2 ws s1 s2 h V1 V2 Hin.
  rewrite (proj1 (score_seq_spec N HN T1 M I1 ws s1 h V1 (fun w Hw => proj1 (Hin w Hw)))).
  rewrite (proj1 (score_seq_spec N HN T2 M I2 ws s2 h V2 (fun w Hw => proj2 (Hin w Hw)))). reflexivity.
Qed.

(* The probing space multiplier is irrelevant: the table behaves as the same finite map for every bucket count
   that does not overflow (corollary of C20_probing_refines_map). *)
Theorem C03_multiplier_irrelevant : forall n1 n2 ops, (0 < n1)%nat -> (0 < n2)%nat -> ops_ok [] ops ->
  ~ In RThrow (arun n1 [] ops) -> ~ In RThrow (arun n2 [] ops) ->
  run n1 (ideal_of DivMod n1) (next_of DivMod n1) (empty_table n1) ops =
  run n2 (ideal_of DivMod n2) (next_of DivMod n2) (empty_table n2) ops.
Proof.
  intros n1 n2 ops H1 H2 Hok T1 T2.
  rewrite (divmod_refines_map n1 ops H1 Hok), (divmod_refines_map n2 ops H2 Hok).
  apply arun_capacity_irrelevant; assumption.
Qed.

(* Pointer compression (trie::ArrayBhiksha) is lossless: for every non-decreasing sequence of next-pointers and
   every number of inline bits, what WriteNext stored is what ReadNext returns, so results cannot depend on the
   pointer-compression bit limit. *)
From Kenlm Require Import C03.BhikshaModel C03.BhikshaProofs.
Theorem C03_bhiksha_roundtrip : forall b vs index, 0 <= b -> sorted vs -> nonneg vs -> 0 <= index ->
  (Z.to_nat index + 1 < length vs)%nat ->
  read_next b (bhiksha_write b vs) index = (nth (Z.to_nat index) vs 0, nth (Z.to_nat (index + 1)) vs 0).
Proof. intros b vs index Hb. exact (read_after_write b Hb vs index). Qed.

(* Unconditionally for the two loader models: a well-formed file (listing <unk>) accepted by both the probing and the trie
   loader gives the same probability for every query in both structures -- whatever blanks each loader had to invent. *)
From Coq Require Import Lia.
From Kenlm Require Import LM.Load LM.LoadTrieProofs LM.LoadProbingProofs.
Theorem C03_probing_trie_equal : forall N buckets rest_max unk_prob (unigrams : list gram) (higher : list (list gram)) tp tt K1 K2,
  (2 <= N)%nat -> length higher = (N - 1)%nat ->
  (forall g, In g unigrams -> length (g_key g) = 1%nat) ->
  (forall i sec, nth_error higher i = Some sec -> forall g, In g sec -> length (g_key g) = (2 + i)%nat) ->
  (forall g w, In g (unigrams ++ concat higher) -> In w (g_key g) -> M_of (unigrams ++ concat higher) [w] <> None) ->
  load_probing buckets rest_max true unk_prob unigrams higher = Loaded tp ->
  load_trie N true unk_prob unigrams higher = Loaded tt ->
  forall ctx w, Defs.alookup tp [w] <> None -> Defs.alookup tt [w] <> None ->
  r_prob (fst (full_score_forgot N (Defs.alookup tp) K1 ctx w)) = r_prob (fst (full_score_forgot N (Defs.alookup tt) K2 ctx w)).
Proof.
  intros N buckets rm up unigrams higher tp tt K1 K2 HN Hl HU Hs Hw Hp Ht ctx w H1 H2.
  assert (Hlen : forall g, In g (unigrams ++ concat higher) -> (1 <= length (g_key g) <= N)%nat).
  { intros g Hin. apply in_app_or in Hin. destruct Hin as [Hin|Hin]; [rewrite (HU g Hin); lia|].
    apply in_concat in Hin. destruct Hin as [s [Hs' Hin]]. apply In_nth_error in Hs'. destruct Hs' as [i Hi].
    rewrite (Hs i s Hi g Hin). assert (Hi' : (i < length higher)%nat) by (apply nth_error_Some; rewrite Hi; discriminate). lia. }
  exact (C03_equal_probabilities N (Defs.alookup tp) (Defs.alookup tt) (M_of (unigrams ++ concat higher)) K1 K2 HN
           (load_probing_inv N buckets rm true up unigrams higher tp HN Hl HU Hs Hw (fun E => False_ind _ (Bool.diff_true_false E)) Hp)
           (load_trie_inv N unigrams higher up tt HN Hlen Hw Ht) ctx w H1 H2).
Qed.

(* The quantiser (lm/quantize.cc MakeBins, SeparatelyQuantize::Bins::Encode/Decode) over exact rationals.
   What holds: every code is inside the table and never collides with the two reserved back-off codes; the code written
   is the index of a NEAREST centre, so a value that is itself a centre reads back exactly.
   What the property text claims beyond that -- "lossless when no order has more distinct values than bins" -- is false of
   equal-population bins (finding F5), and one back-off bit leaves no value bin at all (finding F6): kernel-checked witnesses. *)
From Coq Require Import QArith Qabs.
From Kenlm Require Import C03.QuantModel C03.QuantProofs.
Theorem C03_quant_code_in_range : forall centers reserved x, (reserved < length centers)%nat ->
  (reserved <= QuantModel.encode centers reserved x < length centers)%nat.
Proof. exact encode_in_range. Qed.

Theorem C03_quant_encode_nearest : forall qs reserved x, sorted_q qs -> (reserved < length qs)%nat ->
  forall j, (reserved <= j < length qs)%nat ->
  (Qabs (x - nth (QuantModel.encode (map Some qs) reserved x) qs 0) <= Qabs (x - nth j qs 0))%Q.
Proof. exact encode_nearest. Qed.

Theorem C03_quant_exact_on_centres : forall qs reserved x j, sorted_q qs -> (reserved <= j < length qs)%nat ->
  (x == nth j qs 0)%Q -> (nth (QuantModel.encode (map Some qs) reserved x) qs 0 == x)%Q.
Proof. exact encode_exact_on_centres. Qed.

Theorem C03_quant_lossless_refuted :
  exists (probs : list Q) (bits : nat) (v : Q),
    In v probs /\ (distinct_count probs <= 2 ^ bits)%nat /\
    QuantModel.decode (train_prob bits probs) (encode_prob (train_prob bits probs) v) = Some (-3 # 2)%Q /\ ~ (-3 # 2 == v)%Q.
Proof. exact quant_lossless_refuted. Qed.

Theorem C03_quant_backoff_bits1_refuted :
  exists (backoffs : list Q) (b : Q), In b backoffs /\ ~ (b == 0)%Q /\
    encode_backoff_nonzero (train_backoff 1 backoffs) b = 2%nat /\ stored 1 2 = 0%nat.
Proof. exact quant_backoff_bits1_refuted. Qed.

(* For EVERY training set: MakeBins yields minus infinity for the leading empty bins and then non-decreasing finite centres
   (the last bin is never empty), so the nearest-centre argument applies to what the trainer really produces: the value read
   back from a quantised record is a finite centre nearest to the value written, for the probability table and -- among the
   value bins, never one of the two reserved zero codes, and unchanged by the truncation to `bits` bits -- for the back-off table
   whenever it has at least two bits (one bit is finding F6). *)
From Kenlm Require Import C03.QuantSorted.
Theorem C03_quant_centres_sorted : forall values bins, values <> [] -> (1 <= bins)%nat ->
  exists a qs, make_bins values bins = repeat None a ++ map Some qs /\ sorted_q qs /\ qs <> [] /\ (a + length qs = bins)%nat.
Proof. exact make_bins_shape. Qed.

Theorem C03_quant_prob_nearest : forall bits probs x, probs <> [] ->
  let t := train_prob bits probs in
  exists c, QuantModel.decode t (encode_prob t x) = Some c /\
            forall j c', nth j t None = Some c' -> (Qabs (x - c) <= Qabs (x - c'))%Q.
Proof. exact quant_prob_nearest. Qed.

Theorem C03_quant_backoff_nearest : forall bits backoffs x, backoffs <> [] -> (2 <= bits)%nat ->
  let t := train_backoff bits backoffs in
  let code := encode_backoff_nonzero t x in
  (2 <= code < 2 ^ bits)%nat /\ stored bits code = code /\
  exists c, QuantModel.decode t code = Some c /\
            forall j c', (2 <= j)%nat -> nth j t None = Some c' -> (Qabs (x - c) <= Qabs (x - c'))%Q.
Proof. exact quant_backoff_nearest. Qed.

(* ---- the trie as a data structure (lm/search_trie.cc, lm/trie.cc): the sorted-array layout is a map --------------------------
   Model C03/TrieLayout.v (tied byte for byte to the search structure of `trie` / `trie -a` binary files through C03/TrieMem.v and
   TrieImage.v, stream trie-image).  For EVERY forest of n-grams (first-child / next-sibling form; no bound on order, fan-out, size):
   the depth-first build of RecursiveInsert/WriteEntries puts the nodes of depth j into array j in left-to-right order, each with the
   number of array-(j+1) records of earlier nodes as its next pointer ... *)
From Kenlm Require Import C03.TrieLayout C03.TrieLayoutProofs.
Theorem C03_trie_build_is_level_order : forall (V : Type) (f : forest V) d ls, (d + depth V f <= length ls)%nat ->
  length (flat V d f ls) = length ls /\
  forall i, nth i (flat V d f ls) [] =
            nth i ls [] ++ (if (d <=? i)%nat then recs_of V (level_len V ls (S i)) (lev V (i - d) f) else []).
Proof. exact flat_spec. Qed.

(* ... visiting the keys one by one in pre-order (what the code literally does) is that build ... *)
Theorem C03_trie_visit_is_build : forall (V : Type) n (F : forest V), build V n (preorder V [] F) = flat V 0 F (repeat [] n).
Proof. exact build_is_flat. Qed.

(* ... and on the result the lookup of TrieSearch (index the unigram array by word id, then search sibling range after sibling
   range [next_p, next_{p+1})) returns exactly the payload of the n-gram and a child range as long as its number of children
   (so `independent_left` <=> no n-gram extends it), and fails exactly when the forest has no such n-gram. *)
Theorem C03_trie_walk_is_lookup : forall (V : Type) n (F : forest V), (depth V F <= n)%nat -> dense_from V 0 F ->
  forall k, match lookup V F k with
            | None => walk V (built V n F) k = None
            | Some (v, c) => exists lo, walk V (built V n F) k = Some (v, lo, (lo + flen V c)%Z)
            end.
Proof. exact walk_correct. Qed.

(* ---- the arrays of the trie in memory (C03/TrieMem.v over the GENERATED bit-packing routines; bytes tied to the binary files) ----
   BitPackedMiddle<DontBhiksha> with the DontQuantize payload: after any inserts and FinishedLoading on zeroed memory, Find of a
   word in a parent range with sorted words returns the record holding it -- index, probability with the sign bit forced back on,
   back-off, child range [its next pointer, the next record's) -- and reports absence exactly when no record of the range holds it. *)
From Kenlm Require Import C03.TrieMem C03.TrieMemProofs C03.BhikshaModel C03.BhikshaProofs.
Local Open Scope Z_scope.
Theorem C03_trie_middle_array : forall m, 0 <= t_base m -> 0 <= t_wb m <= 57 -> 0 <= t_nb m <= 57 ->
  forall recs next_end mem0, Forall (trec_ok m) recs -> 0 <= next_end < 2 ^ t_nb m ->
  (forall i, 8 * t_base m <= i < 8 * t_base m + (Z.of_nat (length recs) + 1) * t_tb m -> Z.testbit mem0 i = false) ->
  forall fuel word b e, 0 <= b -> b <= e -> e <= Z.of_nat (length recs) -> t_max_vocab m < 2 ^ 32 ->
  (forall i j, b <= i -> i <= j -> j < e -> tword_of recs i <= tword_of recs j) ->
  (forall i, b <= i < e -> tword_of recs i <= t_max_vocab m) -> 0 <= word <= t_max_vocab m -> e - b <= 2 ^ 32 ->
  (Z.of_nat fuel >= Z.max 1 (e - b + 1)) ->
  exists res, tmid_find m fuel (tmem' m recs next_end mem0) word b e = Some res /\
    match res with
    | Some (p, prob, bo, cb, ce) => b <= p < e /\ tword_of recs p = word /\ prob = sign_on (tprob_of recs p mod 2 ^ 31) /\
                                    bo = tbo_of recs p /\ cb = tnext_of recs next_end p /\ ce = tnext_of recs next_end (p + 1)
    | None => forall i, b <= i < e -> tword_of recs i <> word
    end.
Proof. exact tmid_refines. Qed.

(* the same for BitPackedMiddle<ArrayBhiksha>: the FULL next pointers come back although only their low bits are stored inline,
   for every non-decreasing pointer sequence and every number of inline bits *)
Theorem C03_trie_middle_array_bhiksha : forall m, 0 <= t_base m -> 0 <= t_wb m <= 57 -> 0 <= t_nb m <= 57 ->
  forall recs next_end mem0,
  Forall (fun r => 0 <= r_word _ r < 2 ^ t_wb m /\ 0 <= fst (r_val _ r) < 2 ^ 32 /\ 0 <= snd (r_val _ r) < 2 ^ 32) recs ->
  sorted (map (r_next pb) recs ++ [next_end]) -> nonneg (map (r_next pb) recs ++ [next_end]) ->
  (forall i, 8 * t_base m <= i < 8 * t_base m + (Z.of_nat (length recs) + 1) * t_tb m -> Z.testbit mem0 i = false) ->
  forall fuel word lo hi, 0 <= lo -> lo <= hi -> hi <= Z.of_nat (length recs) -> t_max_vocab m < 2 ^ 32 ->
  (forall i j, lo <= i -> i <= j -> j < hi -> tword_of recs i <= tword_of recs j) ->
  (forall i, lo <= i < hi -> tword_of recs i <= t_max_vocab m) -> 0 <= word <= t_max_vocab m -> hi - lo <= 2 ^ 32 ->
  (Z.of_nat fuel >= Z.max 1 (hi - lo + 1)) ->
  exists res, tmidA_find m fuel (tstA m recs next_end mem0) word lo hi = Some res /\
    match res with
    | Some (p, prob, bo, cb, ce) => lo <= p < hi /\ tword_of recs p = word /\ prob = sign_on (tprob_of recs p mod 2 ^ 31) /\
                                    bo = tbo_of recs p /\ cb = tnextA recs next_end p /\ ce = tnextA recs next_end (p + 1)
    | None => forall i, lo <= i < hi -> tword_of recs i <> word
    end.
Proof. exact tmidA_refines. Qed.

(* BitPackedLongest *)
Theorem C03_trie_longest_array : forall m, 0 <= l_base m -> 0 <= l_wb m <= 57 ->
  forall recs mem0, Forall (lrec_ok m) recs ->
  (forall i, 8 * l_base m <= i < 8 * l_base m + (Z.of_nat (length recs) + 1) * l_tb m -> Z.testbit mem0 i = false) ->
  forall fuel word b e, 0 <= b -> b <= e -> e <= Z.of_nat (length recs) -> l_max_vocab m < 2 ^ 32 ->
  (forall i j, b <= i -> i <= j -> j < e -> lword_of recs i <= lword_of recs j) ->
  (forall i, b <= i < e -> lword_of recs i <= l_max_vocab m) -> 0 <= word <= l_max_vocab m -> e - b <= 2 ^ 32 ->
  (Z.of_nat fuel >= Z.max 1 (e - b + 1)) ->
  exists res, tlong_find m fuel (lmem' m recs mem0) word b e = Some res /\
    match res with
    | Some (p, prob) => b <= p < e /\ lword_of recs p = word /\ prob = sign_on (lprob_of recs p mod 2 ^ 31)
    | None => forall i, b <= i < e -> lword_of recs i <> word
    end.
Proof. exact tlong_refines. Qed.

(* ---- end to end: the lookup over the MEMORY of the trie built from a forest of n-grams is the lookup in the forest ----------------
   (array = false: `trie`, array = true: `trie -a cfg`.)  F: any forest whose top level is the dense unigram list (word id = index),
   whose sibling chains are strictly increasing by word id, with ids <= the vocabulary size < 2^32, payloads 32-bit patterns and
   fewer than 2^57 n-grams per order (the code's own limits).  For every n-gram k of word ids: TrieSearch's unigram index + one
   BoundedSortedUniformFind (Pivot32) per further word over the bit-packed arrays written by Insert/FinishedLoading through the generated
   WriteInt57/WriteNonPositiveFloat31/WriteFloat32 -- with the ArrayBhiksha offset tables when array = true -- finds k exactly when the
   forest holds k, returns its probability (sign bit forced on beyond unigrams), its back-off below the highest order, and a child range
   whose length is the number of n-grams that extend k by one word (so independent_left <=> none). *)
From Kenlm Require Import C03.TrieWalkProofs C03.TrieBuiltOk.
Theorem C03_trie_memory_is_forest_lookup : forall (array : bool) cfg n (F : forest pb),
  let vocab := flen pb F in
  (2 <= n)%nat -> (depth pb F <= n)%nat -> dense_from pb 0 F -> fsorted_from (-1) F -> fvals vocab F ->
  vocab < 2 ^ 32 -> 0 <= cfg -> (forall j, Z.of_nat (length (lev pb j F)) < 2 ^ 57) ->
  forall k, Forall (fun w => 0 <= w <= vocab) k ->
  match lookup pb F k with
  | None => twalk array (mk_trie array cfg (built pb n F)) k = Some None
  | Some (v, c) =>
      exists got, twalk array (mk_trie array cfg (built pb n F)) k = Some (Some got) /\
        match k with
        | [_] => fst (fst got) = v /\ snd got - snd (fst got) = flen pb c
        | _ => fst (fst (fst got)) = norm_p (fst v) /\
               (Nat.eqb (length k) n = false -> snd (fst (fst got)) = snd v /\ snd got - snd (fst got) = flen pb c)
        end
  end.
Proof. exact trie_memory_is_forest_lookup. Qed.

(* ---- ... and from a TABLE: the forest is obtained by inserting the keys in any order (TrieLayout.of_table; siblings kept sorted).
   For every table with distinct, prefix-closed, non-empty keys over word ids 0 .. V-1 (exactly those ids are unigrams), 32-bit
   payloads, keys no longer than the order n and fewer than 2^57 key words in all: the memory walk finds an n-gram exactly when the
   table lists it and returns the table's payload (probability with the sign forced on beyond unigrams, back-off below order n).
   `trie_mem` (C03/TrieImage.v) is this construction applied to the trie table of LM/Load.v; its bytes are what the trie-image
   stream compares with the search structure of the binary files. *)
From Kenlm Require Import C03.TrieTableProofs C03.TrieTableEnd C03.TrieImage LM.Defs.
Theorem C03_trie_memory_is_table : forall (array : bool) cfg n V (t : list (list Z * pb)),
  (2 <= n)%nat -> 0 <= V < 2 ^ 32 -> 0 <= cfg ->
  table_ok pb t -> (forall w, In [w] (map fst t) <-> 0 <= w < V) ->
  Forall (fun kv => Forall (fun w => 0 <= w <= V) (fst kv) /\ pv_ok (snd kv) /\ (length (fst kv) <= n)%nat) t ->
  Z.of_nat (key_words t) < 2 ^ 57 ->
  let mem := mk_trie array cfg (built pb n (of_table pb (0, 0) t)) in
  forall k, k <> [] -> Forall (fun w => 0 <= w <= V) k ->
  match assoc pb t k with
  | None => twalk array mem k = Some None
  | Some v =>
      exists got, twalk array mem k = Some (Some got) /\
        match k with
        | [_] => fst (fst got) = v
        | _ => fst (fst (fst got)) = norm_p (fst v) /\ (Nat.eqb (length k) n = false -> snd (fst (fst got)) = snd v)
        end
  end.
Proof. exact trie_memory_is_table. Qed.

Theorem C03_trie_mem_is_that_construction : forall array cfg n (t : atable) pz,
  trie_mem array cfg n t pz =
  mk_trie array cfg (built pb n (of_table pb (0, 0) (map (fun ke => (zkey (fst ke), entry_pb (existsb (key_eqb (fst ke)) pz) (snd ke))) t))).
Proof. reflexivity. Qed.

(* the float bit patterns: entry_pb yields 32-bit patterns for every score of magnitude below 2^24 / 64 *)
Theorem C03_f32_of_units_range : forall z, - 2 ^ 24 < z < 2 ^ 24 -> 0 <= f32_of_units z < 2 ^ 32.
Proof. exact f32_of_units_range. Qed.

(* ---- the probing model in memory (C03/ProbingImage.v; bytes tied to `probing` binary files) ---------------------------------------
   A table built by inserting entries with distinct non-zero keys, fewer than the bucket count, exists (no ProbingSizeException, every
   probe loop terminates) and Find returns exactly the value inserted under a key, or absence ... *)
From Kenlm Require Import C20.ProbingModel C03.ProbingImage C03.ProbingImageProofs.
Theorem C03_probing_table_is_map : forall n ents, (0 < n)%nat ->
  (forall kv, In kv ents -> fst kv <> 0) -> NoDup (map fst ents) -> (length ents < n)%nat ->
  exists t, table_of n ents = Ok t /\
            forall k, k <> 0 -> find n (ideal_of DivMod n) (next_of DivMod n) t k = Ok (ProbingProofs.alookup ents k).
Proof. exact probing_table_is_map. Qed.

(* ... so the table of order j laid out from the model's probing table answers the lookup of an n-gram by its 64-bit hash
   (CombineWordHash chain, modelled with its wrap-around) with the model's entry, for every n-gram whose hash is not shared by a
   DIFFERENT n-gram of that order: the hash-injectivity assumption of C01-C04 appears here as an explicit, per-query hypothesis. *)
Theorem C03_probing_order_table_is_table : forall (val : entry -> Z) (t : atable) (j buckets : nat),
  let l := order_entries t j in
  let ents := map (fun ke => (hash_key (fst ke), val (snd ke))) l in
  (0 < buckets)%nat -> (length l < buckets)%nat ->
  (forall ke, In ke l -> hash_key (fst ke) <> 0) -> NoDup (map (fun ke => hash_key (fst ke)) l) ->
  exists tb, table_of buckets ents = Ok tb /\
    forall k, hash_key k <> 0 -> (forall ke, In ke l -> hash_key (fst ke) = hash_key k -> fst ke = k) ->
      find buckets (ideal_of DivMod buckets) (next_of DivMod buckets) tb (hash_key k) = Ok (option_map val (Defs.alookup l k)).
Proof. exact probing_order_table_is_table. Qed.

(* ---- the table READ BACK FROM THE MEMORY satisfies the loaders' invariants (C03/TrieEndToEnd.v, TrieDecode.v) ------------------------
   mem_table k = the entry decoded from what TrieSearch's lookup finds for k in the memory laid out from the table t: the probability
   from its float32 pattern, the back-off or its extension marker, "extends left" = the child range is not empty.  For every table t
   that satisfies TInv for an ARPA model M (what both loader models are PROVED to establish: C01_load_trie_inv, _nounk) with distinct keys,
   the word ids 0..V-1 as its unigrams, scores in the exactly representable range and non-positive beyond unigrams (a proper model),
   no back-off at the highest order and fewer than 2^57 key words: mem_table satisfies TInv for M as well.  Every theorem of C01, C02
   and C08 is stated for an arbitrary table with TInv -- so they all hold for the answers computed from the bit-level memory of a
   `trie` (array = false) or `trie -a` (array = true) model. *)
From Kenlm Require Import LM.QueryProofs C03.TrieEndToEnd.
Theorem C03_memory_table_invariants : forall (array : bool) cfg n V (t : atable) pz M,
  (2 <= n)%nat -> 0 <= V < 2 ^ 32 -> 0 <= cfg -> TInv n (alookup t) M -> NoDup (map fst t) ->
  (forall w, alookup t [w] <> None <-> Z.of_N w < V) ->
  (forall k e, alookup t k = Some e -> - 2 ^ 24 < e_prob e < 2 ^ 24 /\ - 2 ^ 24 < e_bo e < 2 ^ 24) ->
  (forall k e, alookup t k = Some e -> (2 <= length k)%nat -> e_prob e <= 0) ->
  (forall k e, alookup t k = Some e -> length k = n -> e_bo e = 0) ->
  Z.of_nat (n * length t) < 2 ^ 57 ->
  TInv n (mem_table array cfg n V t pz) M.
Proof. exact mem_table_TInv. Qed.

(* the same for the PROBING model (C03/ProbingEndToEnd.v): pmem_table = the entry decoded from the unigram array, or from what Find returns
   for the 64-bit hash of the n-gram in the linear-probing table of its order (laid out by Insert in loader order, C03/ProbingImage.v).
   Under the assumption the code makes about its hash -- it separates the n-grams over the vocabulary and none hashes to the empty key --
   and with room in every table, the decoded table satisfies TInv whenever the loaded table does. *)
From Kenlm Require Import C03.ProbingEndToEnd.
Theorem C03_probing_memory_table_invariants : forall buckets n V (t : atable) M,
  (2 <= n)%nat -> TInv n (Defs.alookup t) M -> NoDup (map fst t) ->
  (forall w, Defs.alookup t [w] <> None <-> Z.of_N w < V) ->
  (forall k e, Defs.alookup t k = Some e -> - 2 ^ 24 < e_prob e <= 0 /\ - 2 ^ 24 < e_bo e < 2 ^ 24) ->
  (forall k e, Defs.alookup t k = Some e -> length k = n -> e_bo e = 0) ->
  (forall j, (2 <= j <= n)%nat -> (length (order_entries t j) < nth (j - 2) buckets 0)%nat) ->
  (forall k, over_vocab n V k -> hash_key k <> 0) ->
  (forall k1 k2, over_vocab n V k1 -> over_vocab n V k2 -> hash_key k1 = hash_key k2 -> k1 = k2) ->
  TInv n (pmem_table buckets n V t) M.
Proof. exact pmem_table_TInv. Qed.

(* ---- observational equivalence at the memory level: the probing memory and the trie memory of the same ARPA model return the same
   probability for every history and every vocabulary word (both are the ARPA recursion: forgot_prob over the two decoded tables). *)
From Kenlm Require Import LM.Query.
Theorem C03_memory_structures_equal_probabilities :
  forall buckets (array : bool) cfg N V (tp tt : atable) pz M,
  (2 <= N)%nat -> 0 <= V < 2 ^ 32 -> 0 <= cfg ->
  (* the probing table and its memory *)
  TInv N (Defs.alookup tp) M -> NoDup (map fst tp) -> (forall w, Defs.alookup tp [w] <> None <-> Z.of_N w < V) ->
  (forall k e, Defs.alookup tp k = Some e -> - 2 ^ 24 < e_prob e <= 0 /\ - 2 ^ 24 < e_bo e < 2 ^ 24) ->
  (forall k e, Defs.alookup tp k = Some e -> length k = N -> e_bo e = 0) ->
  (forall j, (2 <= j <= N)%nat -> (length (order_entries tp j) < nth (j - 2) buckets 0)%nat) ->
  (forall k, over_vocab N V k -> hash_key k <> 0) ->
  (forall k1 k2, over_vocab N V k1 -> over_vocab N V k2 -> hash_key k1 = hash_key k2 -> k1 = k2) ->
  (* the trie table and its memory *)
  TInv N (Defs.alookup tt) M -> NoDup (map fst tt) -> (forall w, Defs.alookup tt [w] <> None <-> Z.of_N w < V) ->
  (forall k e, Defs.alookup tt k = Some e -> - 2 ^ 24 < e_prob e < 2 ^ 24 /\ - 2 ^ 24 < e_bo e < 2 ^ 24) ->
  (forall k e, Defs.alookup tt k = Some e -> (2 <= length k)%nat -> e_prob e <= 0) ->
  (forall k e, Defs.alookup tt k = Some e -> length k = N -> e_bo e = 0) ->
  Z.of_nat (N * length tt) < 2 ^ 57 ->
  forall ctx w, Z.of_N w < V ->
  r_prob (fst (full_score_forgot N (pmem_table buckets N V tp) Probing ctx w)) =
  r_prob (fst (full_score_forgot N (mem_table array cfg N V tt pz) Trie ctx w)).
Proof.
  intros buckets array cfg N V tp tt pz M HN HV Hc Ip Np Dp Rp Lp Rm Hz Hi It Nt Dt Rt Gt Lt St ctx w Hw.
  rewrite (forgot_prob N HN _ M Probing (pmem_table_TInv buckets N V tp M HN Ip Np Dp Rp Lp Rm Hz Hi) ctx w).
  - rewrite (forgot_prob N HN _ M Trie (mem_table_TInv array cfg N V tt pz M HN HV Hc It Nt Dt Rt Gt Lt St) ctx w); [reflexivity|].
    apply (T'_none_iff array cfg N V tt pz M HN HV Hc It Nt Dt Rt Gt Lt St). apply Dt. exact Hw.
  - apply (pmem_none_iff buckets N V tp M HN Ip Np Dp Rp Lp Rm Hz Hi). apply Dp. exact Hw.
Qed.

(* ---- the visiting order: the pre-order of the forest of a table lists the keys in strictly increasing lexicographic order, a key before
   its extensions -- the order of RecursiveInsert's merge of the sorted files.  With C03_trie_visit_is_build: the arrays are what visiting
   the table's keys in sorted order builds. *)
From Kenlm Require Import C03.TrieOrder.
From Coq Require Import Sorted.
Theorem C03_trie_visit_order_is_sorted : forall (V : Type) (dv : V) (t : list (list Z * V)), table_ok V t ->
  StronglySorted klt (map fst (preorder V [] (of_table V dv t))).
Proof. exact table_preorder_sorted. Qed.
