(* C03/QuantSorted.v -- what MakeBins produces, for every training set: the centres are minus infinity for the leading empty
   bins and then a non-decreasing sequence of finite values (each bin's mean lies between its smallest and largest member, an
   empty bin repeats its predecessor), and the last one is finite.  Hence Bins::Encode -- whose nearest-centre argument
   (QuantProofs.encode_nearest) needs sorted centres -- stores, for EVERY value and EVERY training set, the index of a finite
   centre nearest to the value among all finite centres; the reserved codes in front of the table are never produced. *)
From Coq Require Import QArith Qabs List ZArith Bool Arith Lia Lqa Sorted.
From Kenlm Require Import C03.QuantModel C03.QuantProofs.
Import ListNotations.

(* ---- insertion sort ---------------------------------------------------------------------------------------------- *)
Lemma qle_true : forall a b, qle a b = true <-> a <= b.
Proof. intros. unfold qle. apply Qle_bool_iff. Qed.
Lemma qle_false : forall a b, qle a b = false -> b <= a.
Proof.
  intros a b H. unfold qle in H. destruct (Qlt_le_dec b a) as [L|L]; [apply Qlt_le_weak; exact L|].
  apply Qle_bool_iff in L. congruence.
Qed.

Lemma insert_in : forall x l y, In y (insert x l) -> y = x \/ In y l.
Proof.
  intros x l. induction l as [|z r IH]; intros y H; cbn [insert] in H.
  - destruct H as [H|[]]. left. symmetry. exact H.
  - destruct (qle x z); cbn [In] in H.
    + destruct H as [H|H]; [left; symmetry; exact H|right; exact H].
    + destruct H as [H|H]; [right; left; exact H|]. destruct (IH _ H) as [E|E]; [left; exact E|right; right; exact E].
Qed.

Lemma insert_sorted : forall x l, StronglySorted Qle l -> StronglySorted Qle (insert x l).
Proof.
  intros x l H. induction H as [|z r Hr IH Hz]; cbn [insert].
  - constructor; constructor.
  - destruct (qle x z) eqn:E.
    + apply qle_true in E. constructor; [constructor; assumption|].
      constructor; [exact E|]. rewrite Forall_forall in *. intros y Hy. apply Qle_trans with z; [exact E|apply Hz; exact Hy].
    + apply qle_false in E. constructor; [exact IH|]. rewrite Forall_forall in *. intros y Hy.
      destruct (insert_in _ _ _ Hy) as [->|Hy']; [exact E|apply Hz; exact Hy'].
Qed.

Lemma sortq_sorted : forall l, StronglySorted Qle (sortq l).
Proof. induction l as [|x l IH]; cbn [sortq fold_right]; [constructor|apply insert_sorted; exact IH]. Qed.

Lemma insert_length : forall x l, length (insert x l) = S (length l).
Proof. intros x l. induction l as [|z r IH]; cbn [insert]; [reflexivity|]. destruct (qle x z); cbn [length]; [reflexivity|rewrite IH; reflexivity]. Qed.
Lemma sortq_length : forall l, length (sortq l) = length l.
Proof. induction l as [|x l IH]; cbn [sortq fold_right length]; [reflexivity|]. fold (sortq l). rewrite insert_length, IH. reflexivity. Qed.

Lemma ssorted_nth : forall l, StronglySorted Qle l -> forall i j, (i <= j < length l)%nat -> nth i l 0 <= nth j l 0.
Proof.
  intros l H. induction H as [|z r Hr IH Hz]; intros i j Hij; cbn [length] in Hij; [lia|].
  destruct i as [|i]; destruct j as [|j]; cbn [nth]; try lia.
  - apply Qle_refl.
  - rewrite Forall_forall in Hz. apply Hz. apply nth_In. lia.
  - apply IH. lia.
Qed.

(* ---- the mean of a non-empty list lies between any bounds of its members ----------------------------------------------- *)
Lemma sumq_bounds : forall l lo hi, (forall y, In y l -> lo <= y /\ y <= hi) ->
  lo * inject_Z (Z.of_nat (length l)) <= sumq l /\ sumq l <= hi * inject_Z (Z.of_nat (length l)).
Proof.
  induction l as [|y l IH]; intros lo hi H.
  - cbn. split; ring_simplify; apply Qle_refl.
  - destruct (IH lo hi (fun z Hz => H z (or_intror Hz))) as [I1 I2]. destruct (H y (or_introl eq_refl)) as [B1 B2].
    cbn [sumq fold_right length]. fold (sumq l).
    rewrite Nat2Z.inj_succ. unfold Z.succ. rewrite inject_Z_plus.
    split; ring_simplify.
    + setoid_replace (lo * inject_Z (Z.of_nat (length l)) + lo) with (lo + lo * inject_Z (Z.of_nat (length l))) by ring.
      apply Qplus_le_compat; assumption.
    + setoid_replace (hi * inject_Z (Z.of_nat (length l)) + hi) with (hi + hi * inject_Z (Z.of_nat (length l))) by ring.
      apply Qplus_le_compat; assumption.
Qed.

Lemma mean_bounds : forall l lo hi, l <> [] -> (forall y, In y l -> lo <= y /\ y <= hi) ->
  lo <= Qred (sumq l / inject_Z (Z.of_nat (length l))) /\ Qred (sumq l / inject_Z (Z.of_nat (length l))) <= hi.
Proof.
  intros l lo hi Hne H. destruct (sumq_bounds l lo hi H) as [S1 S2].
  assert (Hpos : 0 < inject_Z (Z.of_nat (length l))).
  { destruct l; [congruence|]. cbn [length]. rewrite Nat2Z.inj_succ. unfold Qlt, inject_Z. cbn. lia. }
  rewrite Qred_correct. split.
  - apply Qle_shift_div_l; assumption.
  - apply Qle_shift_div_r; [exact Hpos|]. exact S2.
Qed.

(* ---- option order: minus infinity below everything ---------------------------------------------------------------- *)
Definition ole (a b : option Q) : Prop :=
  match a, b with None, _ => True | Some _, None => False | Some x, Some y => x <= y end.
Fixpoint osorted_from (lb : option Q) (l : list (option Q)) : Prop :=
  match l with [] => True | c :: r => ole lb c /\ osorted_from c r end.

Lemma nth_firstn_lt' : forall (A : Type) (l : list A) n t d, (t < n)%nat -> nth t (firstn n l) d = nth t l d.
Proof.
  intros A l. induction l as [|x l IH]; intros n t d H; [rewrite firstn_nil; reflexivity|].
  destruct n as [|n]; [lia|]. destruct t as [|t]; cbn [firstn nth]; [reflexivity|]. apply IH. lia.
Qed.

Lemma segment_members : forall (vals : list Q) start len y, In y (firstn len (skipn start vals)) ->
  exists t, (t < len)%nat /\ (start + t < length vals)%nat /\ y = nth (start + t) vals 0.
Proof.
  intros vals start len y H. apply In_nth with (d := 0) in H. destruct H as [t [Ht Hy]].
  rewrite firstn_length, skipn_length in Ht.
  exists t. split; [lia|]. split; [lia|].
  rewrite <- Hy. rewrite nth_firstn_lt' by lia. rewrite nth_skipn_q. reflexivity.
Qed.

Lemma ole_refl : forall a, ole a a.
Proof. intros [q|]; cbn; [apply Qle_refl|exact I]. Qed.

(* ---- MakeBins: the centres come out in non-decreasing order ------------------------------------------------------------ *)
Lemma mbf_sorted : forall vals n bins, sorted_q vals -> n = length vals -> (1 <= bins)%nat ->
  forall k i start prev, (i + k = bins)%nat -> start = (n * i / bins)%nat -> (i = 0%nat -> prev = None) ->
  (forall p, prev = Some p -> forall j, (start <= j < n)%nat -> p <= nth j vals 0) ->
  osorted_from prev (make_bins_from vals n bins i k start prev).
Proof.
  intros vals n bins Hs Hn Hb. induction k as [|k IH]; intros i start prev Hik Hst Hi0 Hprev; cbn [make_bins_from osorted_from]; [exact I|].
  set (finish := (n * S i / bins)%nat).
  assert (Hsf : (start <= finish)%nat) by (subst start; unfold finish; apply Nat.div_le_mono; lia).
  assert (Hfn : (finish <= n)%nat).
  { unfold finish. apply Nat.le_trans with (n * bins / bins)%nat; [apply Nat.div_le_mono; [lia|apply Nat.mul_le_mono_l; lia]|rewrite Nat.div_mul; lia]. }
  destruct (Nat.eqb_spec finish start) as [E|E].
  - split.
    + destruct (Nat.eqb_spec i 0) as [Z|Z]; [rewrite (Hi0 Z); exact I|apply ole_refl].
    + apply IH; [lia|reflexivity|lia|].
      intros p Hp j Hj. destruct (Nat.eqb_spec i 0) as [Z|Z]; [discriminate|]. apply (Hprev p Hp j). lia.
  - set (seg := firstn (finish - start) (skipn start vals)).
    assert (Lseg : length seg = (finish - start)%nat) by (unfold seg; rewrite firstn_length, skipn_length; lia).
    assert (Nseg : seg <> []) by (intros Z; rewrite Z in Lseg; cbn in Lseg; lia).
    assert (Bseg : forall y, In y seg -> nth start vals 0 <= y /\ y <= nth (finish - 1) vals 0).
    { intros y Hy. destruct (segment_members vals start (finish - start) y Hy) as [t [T1 [T2 ->]]].
      split; apply Hs; lia. }
    destruct (mean_bounds seg _ _ Nseg Bseg) as [M1 M2]. rewrite Lseg in M1, M2.
    split.
    + destruct prev as [p|]; cbn [ole]; [|exact I].
      apply Qle_trans with (nth start vals 0); [apply (Hprev p eq_refl); lia|exact M1].
    + apply IH; [lia|reflexivity|lia|].
      intros p Hp j Hj. injection Hp as <-.
      apply Qle_trans with (nth (finish - 1) vals 0); [exact M2|apply Hs; lia].
Qed.

Lemma osorted_shape : forall O lb, osorted_from lb O ->
  exists a qs, O = repeat None a ++ map Some qs /\ StronglySorted Qle qs /\ (lb <> None -> a = 0%nat) /\
               (forall p, lb = Some p -> Forall (Qle p) qs).
Proof.
  induction O as [|c r IH]; intros lb H.
  - exists 0%nat, []. cbn. repeat split; [constructor|constructor].
  - destruct H as [H1 H2]. destruct (IH c H2) as [a' [qs' [E [HSS [A0 F]]]]].
    destruct c as [q|].
    + specialize (A0 ltac:(discriminate)). subst a'. cbn [repeat app] in E.
      exists 0%nat, (q :: qs'). cbn [repeat app map]. rewrite E. split; [reflexivity|].
      split; [constructor; [exact HSS|exact (F q eq_refl)]|]. split; [reflexivity|].
      intros p Hp. subst lb. cbn [ole] in H1. constructor; [exact H1|].
      pose proof (F q eq_refl) as Fq. rewrite Forall_forall in *. intros y Hy. apply Qle_trans with q; [exact H1|apply Fq; exact Hy].
    + destruct lb as [p|]; [cbn [ole] in H1; contradiction|].
      exists (S a'), qs'. cbn [repeat app]. rewrite E. split; [reflexivity|]. split; [exact HSS|]. split; [congruence|]. intros p Hp. discriminate.
Qed.

Lemma mbf_length : forall vals n bins k i start prev, length (make_bins_from vals n bins i k start prev) = k.
Proof. intros vals n bins. induction k as [|k IH]; intros; cbn [make_bins_from length]; [reflexivity|]. rewrite IH. reflexivity. Qed.

(* the last bin is never empty *)
Lemma mbf_last : forall vals n bins, n = length vals -> (1 <= n)%nat -> (1 <= bins)%nat ->
  forall k i start prev, (1 <= k)%nat -> (i + k = bins)%nat -> start = (n * i / bins)%nat ->
  last (make_bins_from vals n bins i k start prev) None <> None.
Proof.
  intros vals n bins Hn Hn1 Hb. induction k as [|k IH]; intros i start prev Hk Hik Hst; [lia|].
  cbn [make_bins_from]. destruct k as [|k'].
  - cbn [make_bins_from last].
    assert (Ei : S i = bins) by lia. rewrite Ei. rewrite Nat.div_mul by lia.
    assert (Hlt : (start < n)%nat).
    { subst start. apply Nat.div_lt_upper_bound; [lia|]. rewrite Nat.mul_comm. apply Nat.mul_lt_mono_pos_r; lia. }
    replace (Nat.eqb n start) with false by (symmetry; apply Nat.eqb_neq; lia). discriminate.
  - set (c := if Nat.eqb (n * S i / bins) start then if Nat.eqb i 0 then None else prev
              else Some (Qred (sumq (firstn (n * S i / bins - start) (skipn start vals)) / inject_Z (Z.of_nat (n * S i / bins - start))))).
    change (last (c :: make_bins_from vals n bins (S i) (S k') (n * S i / bins) c) None <> None).
    assert (Hne : make_bins_from vals n bins (S i) (S k') (n * S i / bins) c <> []).
    { intros Z. apply (f_equal (@length _)) in Z. rewrite mbf_length in Z. discriminate. }
    destruct (make_bins_from vals n bins (S i) (S k') (n * S i / bins) c) as [|d rest] eqn:E; [congruence|].
    change (last (c :: d :: rest) None) with (last (d :: rest) None). rewrite <- E. apply IH; [lia|lia|reflexivity].
Qed.

Theorem make_bins_shape : forall values bins, values <> [] -> (1 <= bins)%nat ->
  exists a qs, make_bins values bins = repeat None a ++ map Some qs /\ sorted_q qs /\ qs <> [] /\ (a + length qs = bins)%nat.
Proof.
  intros values bins Hv Hb. unfold make_bins.
  set (vals := sortq values).
  assert (Hs : sorted_q vals) by (unfold sorted_q; apply ssorted_nth; apply sortq_sorted).
  assert (Hn1 : (1 <= length vals)%nat) by (unfold vals; rewrite sortq_length; destruct values; [congruence|cbn; lia]).
  pose proof (mbf_sorted vals (length vals) bins Hs eq_refl Hb bins 0%nat 0%nat None ltac:(lia)
                ltac:(rewrite Nat.mul_0_r; rewrite Nat.div_0_l by lia; reflexivity) (fun _ => eq_refl) ltac:(intros p Hp; discriminate)) as HO.
  destruct (osorted_shape _ _ HO) as [a [qs [E [HSS _]]]].
  exists a, qs. split; [exact E|]. split; [unfold sorted_q; apply ssorted_nth; exact HSS|].
  pose proof (mbf_last vals (length vals) bins eq_refl Hn1 Hb bins 0%nat 0%nat None Hb ltac:(lia)
                ltac:(rewrite Nat.mul_0_r; rewrite Nat.div_0_l by lia; reflexivity)) as HL.
  pose proof (mbf_length vals (length vals) bins bins 0%nat 0%nat None) as HLen.
  rewrite E in HL, HLen. rewrite app_length, repeat_length, map_length in HLen.
  split; [|exact HLen].
  intros Z. subst qs. cbn [map] in HL. rewrite app_nil_r in HL.
  apply HL. clear. induction a as [|a IH]; [reflexivity|]. cbn [repeat]. destruct a; [reflexivity|exact IH].
Qed.

(* ---- Encode on "reserved codes, then minus infinities, then sorted finite centres" ------------------------------------- *)
Lemma lower_bound_shift : forall cs x pos d, lower_bound cs x (pos + d) = (lower_bound cs x pos + d)%nat.
Proof.
  induction cs as [|c r IH]; intros x pos d; cbn [lower_bound]; [reflexivity|].
  destruct (c_lt_x c x); [|reflexivity]. replace (S (pos + d)) with (S pos + d)%nat by lia. apply IH.
Qed.
Lemma lower_bound_nones : forall a r x pos, lower_bound (repeat None a ++ r) x pos = lower_bound r x (pos + a).
Proof.
  induction a as [|a IH]; intros r x pos; cbn [repeat app lower_bound c_lt_x]; [rewrite Nat.add_0_r; reflexivity|].
  rewrite IH. f_equal. lia.
Qed.

Lemma nth_in_somes : forall (pre : list (option Q)) a qs t, (t < length qs)%nat ->
  nth (length pre + a + t) (pre ++ repeat None a ++ map Some qs) None = nth t (map Some qs) None.
Proof.
  intros pre a qs t Ht. rewrite app_nth2 by lia. replace (length pre + a + t - length pre)%nat with (a + t)%nat by lia.
  rewrite app_nth2 by (rewrite repeat_length; lia). rewrite repeat_length. f_equal. lia.
Qed.
Lemma nth_in_nones : forall (pre : list (option Q)) a qs t, (t < a)%nat ->
  nth (length pre + t) (pre ++ repeat None a ++ map Some qs) None = None.
Proof.
  intros pre a qs t Ht. rewrite app_nth2 by lia. replace (length pre + t - length pre)%nat with t by lia.
  rewrite app_nth1 by (rewrite repeat_length; lia). apply nth_repeat.
Qed.

Lemma encode_shift : forall pre a qs x, qs <> [] ->
  encode (pre ++ repeat None a ++ map Some qs) (length pre) x = (length pre + a + encode (map Some qs) 0 x)%nat.
Proof.
  intros pre a qs x Hq. unfold encode.
  assert (Hlq : (1 <= length qs)%nat) by (destruct qs; [congruence|cbn; lia]).
  rewrite skipn_app, skipn_all, Nat.sub_diag. cbn [skipn app].
  rewrite lower_bound_nones.
  set (a0 := lower_bound (map Some qs) x 0).
  assert (EL : lower_bound (map Some qs) x (length pre + a) = (a0 + (length pre + a))%nat) by (apply (lower_bound_shift (map Some qs) x 0)).
  rewrite EL.
  destruct (lower_bound_spec (map Some qs) x 0) as [R1 _]. fold a0 in R1. rewrite map_length in R1.
  rewrite !app_length, repeat_length, map_length.
  destruct (Nat.eqb_spec a0 0) as [Z|Z].
  - rewrite Z. cbn [Nat.add]. destruct (Nat.eqb_spec (length pre + a) (length pre)) as [E|E]; [lia|].
    destruct (Nat.eqb_spec (length pre + a) (length pre + (a + length qs))) as [E2|E2]; [lia|].
    replace (length pre + a - 1)%nat with (length pre + (a - 1))%nat by lia.
    rewrite nth_in_nones by lia. lia.
  - destruct (Nat.eqb_spec (a0 + (length pre + a)) (length pre)) as [E|E]; [lia|].
    destruct (Nat.eqb_spec a0 (length qs)) as [L|L].
    + rewrite L. replace (Nat.eqb (length qs + (length pre + a)) (length pre + (a + length qs))) with true by (symmetry; apply Nat.eqb_eq; lia). lia.
    + replace (Nat.eqb (a0 + (length pre + a)) (length pre + (a + length qs))) with false by (symmetry; apply Nat.eqb_neq; lia).
      replace (a0 + (length pre + a) - 1)%nat with (length pre + a + (a0 - 1))%nat by lia.
      replace (a0 + (length pre + a))%nat with (length pre + a + a0)%nat by lia.
      rewrite !nth_in_somes by lia.
      destruct (match nth (a0 - 1) (map Some qs) None with
                | Some l => match nth a0 (map Some qs) None with Some h => qlt (x - l) (h - x) | None => false end
                | None => false end); lia.
Qed.

(* ---- the theorem: every stored code is a finite centre nearest to the value, whatever the training set ------------------ *)
Theorem quant_nearest : forall pre values bins x, values <> [] -> (1 <= bins)%nat ->
  let cs := pre ++ make_bins values bins in
  let code := encode cs (length pre) x in
  (length pre <= code < length cs)%nat /\
  exists c, decode cs code = Some c /\
    forall j c', (length pre <= j)%nat -> nth j cs None = Some c' -> Qabs (x - c) <= Qabs (x - c').
Proof.
  intros pre values bins x Hv Hb. cbn zeta.
  destruct (make_bins_shape values bins Hv Hb) as [a [qs [E [Hs [Hq Hlen]]]]]. rewrite E.
  assert (Hlq : (1 <= length qs)%nat) by (destruct qs; [congruence|cbn; lia]).
  rewrite (encode_shift pre a qs x Hq).
  pose proof (encode_in_range (map Some qs) 0 x ltac:(rewrite map_length; lia)) as [_ He]. rewrite map_length in He.
  set (e := encode (map Some qs) 0 x) in *.
  rewrite !app_length, repeat_length, map_length. split; [lia|].
  exists (nth e qs 0). split.
  - unfold decode. rewrite nth_in_somes by exact He. apply nth_map_some. exact He.
  - intros j c' Hj Hc'.
    destruct (Nat.lt_ge_cases j (length pre + a)) as [L|L].
    + replace j with (length pre + (j - length pre))%nat in Hc' by lia. rewrite nth_in_nones in Hc' by lia. discriminate.
    + destruct (Nat.lt_ge_cases j (length pre + a + length qs)) as [L2|L2].
      * replace j with (length pre + a + (j - length pre - a))%nat in Hc' by lia.
        rewrite nth_in_somes in Hc' by lia. rewrite nth_map_some in Hc' by lia. injection Hc' as <-.
        apply (encode_nearest qs 0 x Hs ltac:(lia)). lia.
      * rewrite nth_overflow in Hc' by (rewrite !app_length, repeat_length, map_length; lia). discriminate.
Qed.

(* the two tables of one order *)
Corollary quant_prob_nearest : forall bits probs x, probs <> [] ->
  let t := train_prob bits probs in
  exists c, decode t (encode_prob t x) = Some c /\ forall j c', nth j t None = Some c' -> Qabs (x - c) <= Qabs (x - c').
Proof.
  intros bits probs x Hp. cbn zeta. unfold train_prob, encode_prob.
  assert (Hb : (1 <= 2 ^ bits)%nat) by (clear; induction bits; cbn; lia).
  destruct (quant_nearest [] probs (2 ^ bits) x Hp Hb) as [_ [c [Hc Hn]]]. cbn [app length] in *.
  exists c. split; [exact Hc|]. intros j c' H. apply (Hn j c'); [lia|exact H].
Qed.

Corollary quant_backoff_nearest : forall bits backoffs x, backoffs <> [] -> (2 <= bits)%nat ->
  let t := train_backoff bits backoffs in
  let code := encode_backoff_nonzero t x in
  (2 <= code < 2 ^ bits)%nat /\ stored bits code = code /\
  exists c, decode t code = Some c /\ forall j c', (2 <= j)%nat -> nth j t None = Some c' -> Qabs (x - c) <= Qabs (x - c').
Proof.
  intros bits backoffs x Hp Hbits. cbn zeta. unfold train_backoff, encode_backoff_nonzero.
  assert (Hpow : (4 <= 2 ^ bits)%nat).
  { destruct bits as [|[|b]]; try lia. cbn [Nat.pow]. assert (1 <= 2 ^ b)%nat by (clear; induction b; cbn; lia). lia. }
  assert (Hb : (1 <= 2 ^ bits - 2)%nat) by lia.
  destruct (quant_nearest [Some 0; Some 0] backoffs (2 ^ bits - 2) x Hp Hb) as [Hr [c [Hc Hn]]].
  cbn [app length] in *.
  destruct (make_bins_shape backoffs (2 ^ bits - 2) Hp Hb) as [a [qs [E [_ [_ Hlen]]]]].
  assert (HL : length (make_bins backoffs (2 ^ bits - 2)) = (2 ^ bits - 2)%nat) by (rewrite E, app_length, repeat_length, map_length; exact Hlen).
  rewrite HL in Hr.
  split; [lia|]. split; [unfold stored; apply Nat.mod_small; lia|].
  exists c. split; [exact Hc|exact Hn].
Qed.
