(* C03/BhikshaProofs.v -- ArrayBhiksha round trip: for every non-decreasing pointer sequence and every number of
   inline bits, ReadNext(index) returns exactly (v_index, v_{index+1}). *)
From Coq Require Import ZArith List Bool Arith Lia Sorted.
From Kenlm Require Import C03.BhikshaModel.
Import ListNotations.
Local Open Scope Z_scope.

Section Bhiksha.
  Variable b : Z.
  Hypothesis Hb : 0 <= b.

  Definition enc (v : Z) : Z := Z.shiftr v b.
  Definition low (v : Z) : Z := Z.land v (Z.ones b).

  Lemma enc_low : forall v, 0 <= v -> Z.lor (Z.shiftl (enc v) b) (low v) = v.
  Proof.
    intros v Hv. unfold enc, low. apply Z.bits_inj'. intros i Hi.
    rewrite Z.lor_spec, Z.land_spec.
    destruct (Z.ltb_spec i b) as [Hlt|Hge].
    - rewrite Z.shiftl_spec_low by lia. rewrite Z.ones_spec_low by lia. rewrite andb_true_r. reflexivity.
    - rewrite Z.shiftl_spec by lia. rewrite Z.shiftr_spec by lia. rewrite Z.ones_spec_high by lia.
      rewrite andb_false_r, orb_false_r. f_equal. lia.
  Qed.

  Lemma enc_mono : forall u v, 0 <= u -> u <= v -> enc u <= enc v.
  Proof. intros. unfold enc. rewrite !Z.shiftr_div_pow2 by lia. apply Z.div_le_mono; [apply Z.pow_pos_nonneg; lia|assumption]. Qed.
  Lemma enc_nonneg : forall v, 0 <= v -> 0 <= enc v.
  Proof. intros. unfold enc. apply Z.shiftr_nonneg. assumption. Qed.

  (* number of leading elements whose high part is below e = first index with high part >= e (sorted lists) *)
  Fixpoint first_idx (vs : list Z) (e : Z) : Z :=
    match vs with
    | [] => 0
    | v :: r => if enc v <? e then 1 + first_idx r e else 0
    end.

  Definition sorted (vs : list Z) : Prop := forall i j, (i <= j < length vs)%nat -> nth i vs 0 <= nth j vs 0.
  Definition nonneg (vs : list Z) : Prop := forall v, In v vs -> 0 <= v.

  Lemma first_idx_range : forall vs e, 0 <= first_idx vs e <= Z.of_nat (length vs).
  Proof. induction vs as [|v r IH]; intros e; cbn [first_idx length]; [lia|]. destruct (enc v <? e); specialize (IH e); lia. Qed.

  Lemma sorted_tail : forall v r, sorted (v :: r) -> sorted r.
  Proof. intros v r H i j Hij. apply (H (S i) (S j)). cbn [length]. lia. Qed.
  Lemma sorted_head : forall v r x, sorted (v :: r) -> In x r -> v <= x.
  Proof.
    intros v r x H Hin. destruct (In_nth r x 0 Hin) as [k [Hk Hx]]. rewrite <- Hx.
    apply (H 0%nat (S k)). cbn [length]. lia.
  Qed.

  (* key fact: in a sorted list, element i is past the prefix counted by first_idx  <->  its high part reaches e *)
  Lemma first_idx_le : forall vs e i, sorted vs -> nonneg vs -> (i < length vs)%nat ->
    (first_idx vs e <= Z.of_nat i <-> e <= enc (nth i vs 0)).
  Proof.
    induction vs as [|v r IH]; intros e i Hs Hn Hi; [simpl in Hi; lia|].
    cbn [first_idx]. destruct (Z.ltb_spec (enc v) e) as [Hlt|Hge].
    - destruct i as [|i].
      + cbn [nth]. pose proof (first_idx_range r e). split; lia.
      + cbn [nth]. rewrite <- (IH e i (sorted_tail v r Hs) (fun x Hx => Hn x (or_intror Hx)) ltac:(simpl in Hi; lia)). lia.
    - split; [|lia]. intros _.
      assert (v <= nth i (v :: r) 0) by (apply (Hs 0%nat i); lia).
      assert (0 <= v) by (apply Hn; left; reflexivity).
      pose proof (enc_mono v (nth i (v :: r) 0) H0 H). lia.
  Qed.

  Lemma first_idx_app_ge : forall done v e, e <= enc v -> first_idx (done ++ [v]) e = first_idx done e.
  Proof.
    induction done as [|d r IH]; intros v e He; cbn [app first_idx].
    - destruct (Z.ltb_spec (enc v) e); [lia|reflexivity].
    - destruct (enc d <? e); [rewrite IH by assumption|]; reflexivity.
  Qed.

  Lemma first_idx_all_below : forall done e, (forall d, In d done -> enc d < e) -> first_idx done e = Z.of_nat (length done).
  Proof.
    induction done as [|d r IH]; intros e H; cbn [first_idx length]; [reflexivity|].
    destruct (Z.ltb_spec (enc d) e) as [_|Hge]; [|specialize (H d (or_introl eq_refl)); lia].
    rewrite IH by (intros x Hx; apply H; right; exact Hx). lia.
  Qed.

  (* ---- the writer ---------------------------------------------------------------------------- *)
  Lemma fill_spec : forall count index offs, fill count index offs = offs ++ repeat index count.
  Proof.
    induction count as [|c IH]; intros index offs; cbn [fill repeat]; [rewrite app_nil_r; reflexivity|].
    rewrite IH. rewrite <- app_assoc. reflexivity.
  Qed.

  (* slots 1..len of the offset array *)
  Definition offs_of (vs : list Z) (len : nat) : list Z := map (fun e => first_idx vs (Z.of_nat e)) (seq 1 len).

  Definition last_enc (done : list Z) : Z := match rev done with [] => 0 | v :: _ => enc v end.

  Lemma write_inv : forall vs done, sorted (done ++ vs) -> nonneg (done ++ vs) ->
    write_all_from b (offs_of done (Z.to_nat (last_enc done)), map low done) (Z.of_nat (length done)) vs =
    (offs_of (done ++ vs) (Z.to_nat (last_enc (done ++ vs))), map low (done ++ vs)).
  Proof.
    induction vs as [|v vs IH]; intros done Hs Hn.
    - rewrite app_nil_r. reflexivity.
    - cbn [write_all_from]. replace (done ++ v :: vs) with ((done ++ [v]) ++ vs) in * by (rewrite <- app_assoc; reflexivity).
      rewrite <- (IH (done ++ [v]) Hs Hn). f_equal.
      + (* one WriteNext step *)
        unfold write_next. fold (enc v). fold (low v).
        assert (Hv : 0 <= v) by (apply Hn; apply in_or_app; left; apply in_or_app; right; left; reflexivity).
        assert (Hle : last_enc done <= enc v).
        { unfold last_enc. destruct (rev done) as [|d rd] eqn:Er; [apply enc_nonneg; exact Hv|].
          assert (Hd : done = rev rd ++ [d]) by (rewrite <- (rev_involutive done), Er; reflexivity).
          assert (Hin : In d done) by (rewrite Hd; apply in_or_app; right; left; reflexivity).
          apply enc_mono; [apply Hn; apply in_or_app; left; apply in_or_app; left; exact Hin|].
          (* d precedes v in the sorted list *)
          subst done. rewrite <- !app_assoc in Hs. cbn [app] in Hs.
          specialize (Hs (length (rev rd)) (S (length (rev rd)))).
          rewrite !app_nth2 in Hs by lia. rewrite Nat.sub_diag in Hs. replace (S (length (rev rd)) - length (rev rd))%nat with 1%nat in Hs by lia.
          cbn [nth] in Hs. apply Hs. rewrite app_length. cbn [length]. lia. }
        assert (H0 : 0 <= last_enc done).
        { unfold last_enc. destruct (rev done) as [|d rd] eqn:Er; [lia|]. apply enc_nonneg.
          apply Hn. apply in_or_app; left; apply in_or_app; left.
          rewrite <- (rev_involutive done), Er. cbn [rev]. apply in_or_app; right; left; reflexivity. }
        assert (Hlast : last_enc (done ++ [v]) = enc v) by (unfold last_enc; rewrite rev_app_distr; reflexivity).
        rewrite Hlast. unfold offs_of at 1. rewrite map_length, seq_length.
        rewrite Z2Nat.id by exact H0.
        rewrite map_app. cbn [map]. f_equal.
        destruct (Z.leb_spec (last_enc done + 1) (enc v)) as [Hgrow|Hsame].
          -- rewrite fill_spec. unfold offs_of.
             replace (Z.to_nat (enc v)) with (Z.to_nat (last_enc done) + Z.to_nat (enc v - (last_enc done + 1) + 1))%nat by lia.
             rewrite seq_app, map_app. f_equal.
             ++ apply map_ext_in. intros e He. apply in_seq in He. symmetry. apply first_idx_app_ge. lia.
             ++ (* the new slots all hold the current index *)
                set (k := Z.to_nat (enc v - (last_enc done + 1) + 1)).
                assert (G : forall k a, (Z.to_nat (last_enc done) < a)%nat -> (a + k <= S (Z.to_nat (enc v)))%nat ->
                            map (fun e => first_idx (done ++ [v]) (Z.of_nat e)) (seq a k) = repeat (Z.of_nat (length done)) k).
                { clear k. induction k as [|k IHk]; intros a Ha Hk; [reflexivity|]. cbn [seq map repeat]. f_equal; [|apply IHk; lia].
                  rewrite first_idx_app_ge by lia. apply first_idx_all_below. intros d Hd.
                  (* every earlier value has high part <= last_enc done < a *)
                  assert (enc d <= last_enc done).
                  { unfold last_enc. destruct (rev done) as [|l rd] eqn:Er.
                    - rewrite <- (rev_involutive done), Er in Hd. destruct Hd.
                    - assert (Hdn : done = rev rd ++ [l]) by (rewrite <- (rev_involutive done), Er; reflexivity).
                      apply enc_mono; [apply Hn; apply in_or_app; left; apply in_or_app; left; exact Hd|].
                      destruct (In_nth done d 0 Hd) as [i [Hi Hx]]. rewrite <- Hx.
                      assert (Hl : l = nth (length done - 1) done 0).
                      { rewrite Hdn. rewrite app_length. cbn [length]. rewrite app_nth2 by lia.
                        replace (length (rev rd) + 1 - 1 - length (rev rd))%nat with 0%nat by lia. reflexivity. }
                      rewrite Hl.
                      pose proof (Hs i (length done - 1)%nat) as Hsi.
                      rewrite <- !app_assoc in Hsi. rewrite !app_nth1 in Hsi by lia. apply Hsi.
                      rewrite app_length. lia. }
                  lia. }
                unfold offs_of. rewrite map_length, seq_length. rewrite Z2Nat.id by exact H0. symmetry. apply G; lia.
          -- (* nothing new to fill *)
             assert (enc v = last_enc done) by lia. unfold offs_of. rewrite H.
             apply map_ext_in. intros e He. apply in_seq in He. symmetry. apply first_idx_app_ge. lia.
      + rewrite app_length. cbn [length]. lia.
  Qed.

  (* the offset array the writer leaves: slot e holds first_idx vs e, for e = 0 .. enc(last) *)
  Theorem write_spec : forall vs, sorted vs -> nonneg vs ->
    bhiksha_write b vs = (map (fun e => first_idx vs (Z.of_nat e)) (seq 0 (S (Z.to_nat (last_enc vs)))), map low vs).
  Proof.
    intros vs Hs Hn. unfold bhiksha_write.
    pose proof (write_inv vs [] Hs Hn) as W. cbn [app length map Z.of_nat] in W.
    change (offs_of [] (Z.to_nat (last_enc []))) with (@nil Z) in W. rewrite W.
    assert (F0 : first_idx vs (Z.of_nat 0) = 0).
    { destruct vs as [|v r]; [reflexivity|]. cbn [first_idx Z.of_nat].
      pose proof (enc_nonneg v (Hn v (or_introl eq_refl))). destruct (Z.ltb_spec (enc v) 0); [lia|reflexivity]. }
    cbn [seq map]. rewrite F0. reflexivity.
  Qed.

  Lemma skipn_seq : forall n a len, skipn n (seq a len) = seq (a + n) (len - n).
  Proof.
    induction n as [|n IH]; intros a len.
    - rewrite Nat.add_0_r, Nat.sub_0_r. reflexivity.
    - destruct len as [|len]; [reflexivity|]. cbn [seq skipn]. rewrite IH. f_equal; lia.
  Qed.

  (* ---- the reader ---------------------------------------------------------------------------- *)
  Lemma upper_bound_threshold : forall (f : nat -> Z) x len a k, (a <= k <= a + len)%nat ->
    (forall e, (a <= e < a + len)%nat -> (f e <= x <-> (e < k)%nat)) ->
    upper_bound (map f (seq a len)) x = (k - a)%nat.
  Proof.
    intros f x len. induction len as [|len IH]; intros a k Hk Hf; cbn [seq map upper_bound]; [lia|].
    destruct (Z.leb_spec (f a) x) as [Hle|Hgt].
    - assert (a < k)%nat by (apply Hf; [lia|exact Hle]).
      rewrite (IH (S a) k) by (try lia; intros e He; apply Hf; lia). lia.
    - assert (~ (a < k)%nat) by (intros Hc; apply (Hf a) in Hc; lia). lia.
  Qed.

  Theorem read_after_write : forall vs index, sorted vs -> nonneg vs -> 0 <= index -> (Z.to_nat index + 1 < length vs)%nat ->
    read_next b (bhiksha_write b vs) index = (nth (Z.to_nat index) vs 0, nth (Z.to_nat (index + 1)) vs 0).
  Proof.
    intros vs index Hs Hn Hi Hlen. rewrite (write_spec vs Hs Hn). unfold read_next.
    set (E := Z.to_nat (last_enc vs)).
    set (i := Z.to_nat index) in *.
    replace (Z.to_nat (index + 1)) with (S i) by lia.
    set (vi := nth i vs 0). set (vj := nth (S i) vs 0).
    assert (Hvi : 0 <= vi) by (apply Hn; apply nth_In; lia).
    assert (Hvj : 0 <= vj) by (apply Hn; apply nth_In; lia).
    assert (Hij : vi <= vj) by (apply (Hs i (S i)); lia).
    (* every high part is at most the last one *)
    assert (Hlast : forall j, (j < length vs)%nat -> enc (nth j vs 0) <= last_enc vs).
    { intros j Hj. unfold last_enc. destruct (rev vs) as [|l rd] eqn:Er.
      - assert (vs = []) by (rewrite <- (rev_involutive vs), Er; reflexivity). subst vs. simpl in Hj. lia.
      - assert (Hd : vs = rev rd ++ [l]) by (rewrite <- (rev_involutive vs), Er; reflexivity).
        assert (Hl : l = nth (length vs - 1) vs 0).
        { rewrite Hd at 2. rewrite Hd at 1. rewrite app_length. cbn [length]. rewrite app_nth2 by lia.
          replace (length (rev rd) + 1 - 1 - length (rev rd))%nat with 0%nat by lia. reflexivity. }
        rewrite Hl. apply enc_mono; [apply Hn; apply nth_In; exact Hj|]. apply (Hs j (length vs - 1)%nat). lia. }
    pose proof (Hlast i ltac:(lia)) as Hei. pose proof (Hlast (S i) ltac:(lia)) as Hej.
    fold vi in Hei. fold vj in Hej.
    pose proof (enc_nonneg vi Hvi) as H0i. pose proof (enc_mono vi vj Hvi Hij) as Hmono.
    assert (HE : Z.of_nat E = last_enc vs) by (unfold E; rewrite Z2Nat.id; [reflexivity|lia]).
    (* begin_it *)
    assert (UB1 : upper_bound (map (fun e => first_idx vs (Z.of_nat e)) (seq 0 (S E))) index = S (Z.to_nat (enc vi))).
    { rewrite (upper_bound_threshold _ index (S E) 0 (S (Z.to_nat (enc vi)))); [lia|lia|].
      intros e He. replace index with (Z.of_nat i) by (unfold i; lia).
      rewrite (first_idx_le vs (Z.of_nat e) i Hs Hn ltac:(lia)). fold vi. lia. }
    rewrite UB1. replace (S (Z.to_nat (enc vi)) - 1)%nat with (Z.to_nat (enc vi)) by lia.
    rewrite skipn_map, skipn_seq. cbn [Nat.add].
    assert (UB2 : upper_bound (map (fun e => first_idx vs (Z.of_nat e)) (seq (S (Z.to_nat (enc vi))) (S E - S (Z.to_nat (enc vi))))) (index + 1)
                  = (S (Z.to_nat (enc vj)) - S (Z.to_nat (enc vi)))%nat).
    { apply upper_bound_threshold; [lia|].
      intros e He. replace (index + 1) with (Z.of_nat (S i)) by (unfold i; lia).
      rewrite (first_idx_le vs (Z.of_nat e) (S i) Hs Hn ltac:(lia)). fold vj. lia. }
    rewrite UB2.
    replace (Z.to_nat (enc vi) + (S (Z.to_nat (enc vj)) - S (Z.to_nat (enc vi))))%nat with (Z.to_nat (enc vj)) by lia.
    rewrite !Z2Nat.id by (try lia; apply enc_nonneg; assumption).
    assert (NM : forall k, (k < length vs)%nat -> nth k (map low vs) 0 = low (nth k vs 0)).
    { intros k Hk. rewrite (nth_indep _ 0 (low 0)) by (rewrite map_length; exact Hk). apply map_nth. }
    rewrite (NM i) by lia. rewrite (NM (S i)) by lia.
    fold vi. fold vj. rewrite !enc_low by assumption. reflexivity.
  Qed.
End Bhiksha.

(* non-vacuity *)
Example bhiksha_example : map (read_next 3 (bhiksha_write 3 [0; 3; 3; 9; 17; 40; 41; 41; 100])) [0; 1; 2; 3; 4; 5; 6; 7]
  = [(0, 3); (3, 3); (3, 9); (9, 17); (17, 40); (40, 41); (41, 41); (41, 100)].
Proof. vm_compute. reflexivity. Qed.
