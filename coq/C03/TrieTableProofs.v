(* C03/TrieTableProofs.v -- from a table of n-grams to its forest (TrieLayout.finsert / of_table): inserting the keys of a
   prefix-closed table with distinct keys, in ANY order, yields a forest whose sibling chains are strictly sorted, whose lookup is the
   table's association (lookup_of_table), whose payloads are the table's (or the placeholder's), and whose top level is the dense
   unigram list when the unigram keys are exactly [0] .. [V-1]. *)
From Coq Require Import ZArith Lia Bool List.
From Kenlm Require Import C03.TrieLayout C03.TrieLayoutProofs.
Import ListNotations.
Local Open Scope Z_scope.

Section Table.
  Variable V : Type.
  Variable dv : V.
  Notation forest := (forest V).
  Notation finsert := (finsert V dv).

  (* siblings strictly increasing above an exclusive lower bound, recursively (children: words >= 0) *)
  Fixpoint sorted_from (lb : Z) (f : forest) : Prop :=
    match f with
    | FNil => True
    | FCons w v c s => lb < w /\ sorted_from (-1) c /\ sorted_from w s
    end.

  Lemma sorted_from_weaken : forall f lb lb', lb' <= lb -> sorted_from lb f -> sorted_from lb' f.
  Proof. destruct f as [|w v c s]; intros lb lb' H Hs; [exact I|]. cbn [sorted_from] in *. destruct Hs as [A [B C]]. repeat split; try assumption; lia. Qed.

  Lemma find_sib_below : forall f lb w, sorted_from lb f -> w <= lb -> find_sib V f w = None.
  Proof.
    induction f as [|w' v c _ s IHs]; intros lb w Hs Hw; [reflexivity|].
    cbn [sorted_from] in Hs. destruct Hs as [A [_ C]]. cbn [find_sib].
    destruct (Z.eqb_spec w' w); [lia|]. apply (IHs w'); [exact C|lia].
  Qed.

  (* one step of the insertion, unfolded *)
  Lemma finsert_cons : forall w ks v f,
    finsert (w :: ks) v f =
    match f with
    | FNil => FCons w (match ks with [] => v | _ :: _ => dv end) (finsert ks v FNil) FNil
    | FCons w' v' c s =>
        if w <? w' then FCons w (match ks with [] => v | _ :: _ => dv end) (finsert ks v FNil) f
        else if w =? w' then FCons w' (match ks with [] => v | _ :: _ => v' end) (finsert ks v c) s
        else FCons w' v' c (finsert (w :: ks) v s)
    end.
  Proof. intros. destruct f; reflexivity. Qed.

  Lemma finsert_nil : forall v f, finsert [] v f = f.
  Proof. reflexivity. Qed.

  Definition nonneg_key (k : list Z) : Prop := Forall (fun w => 0 <= w) k.

  Lemma finsert_sorted : forall k v f lb, nonneg_key k -> (match k with [] => True | w :: _ => lb < w end) ->
    sorted_from lb f -> sorted_from lb (finsert k v f).
  Proof.
    induction k as [|w ks IHk]; intros v f lb Hk Hlb Hs; [exact Hs|].
    inversion Hk as [|? ? Hw Hks]. subst.
    assert (Hsub : forall c, sorted_from (-1) c -> sorted_from (-1) (finsert ks v c)).
    { intros c Hc. apply (IHk v c (-1)); [exact Hks| |exact Hc]. destruct ks as [|w2 ks2]; [exact I|]. inversion Hks. lia. }
    induction f as [|w' v' c _ s IHs] in lb, Hlb, Hs |- *; rewrite finsert_cons.
    - cbn [sorted_from]. split; [exact Hlb|split; [apply Hsub; exact I|exact I]].
    - cbn [sorted_from] in Hs. destruct Hs as [A [B C]].
      destruct (Z.ltb_spec w w') as [Hlt|Hge].
      + cbn [sorted_from]. split; [exact Hlb|]. split; [apply Hsub; exact I|]. split; [exact Hlt|]. split; assumption.
      + destruct (Z.eqb_spec w w') as [->|Hne].
        * cbn [sorted_from]. split; [exact A|]. split; [apply Hsub; exact B|exact C].
        * cbn [sorted_from]. split; [exact A|]. split; [exact B|]. apply IHs; [lia|exact C].
  Qed.

  (* ---- what find_sib sees after an insertion ------------------------------------------------------------------------------ *)
  Lemma find_sib_finsert_same : forall w ks v f lb, sorted_from lb f ->
    find_sib V (finsert (w :: ks) v f) w =
    Some (match ks with [] => v | _ :: _ => match find_sib V f w with Some (x, _) => x | None => dv end end,
          finsert ks v (match find_sib V f w with Some (_, c) => c | None => FNil end)).
  Proof.
    intros w ks v. induction f as [|w' v' c _ s IHs]; intros lb Hs; rewrite finsert_cons.
    - cbn [find_sib]. rewrite Z.eqb_refl. reflexivity.
    - cbn [sorted_from] in Hs. destruct Hs as [A [B C]].
      destruct (Z.ltb_spec w w') as [Hlt|Hge].
      + cbn [find_sib]. rewrite Z.eqb_refl. destruct (Z.eqb_spec w' w); [lia|].
        rewrite (find_sib_below s w' w C ltac:(lia)). reflexivity.
      + destruct (Z.eqb_spec w w') as [->|Hne].
        * cbn [find_sib]. rewrite Z.eqb_refl. reflexivity.
        * cbn [find_sib]. destruct (Z.eqb_spec w' w); [lia|]. apply (IHs w'). exact C.
  Qed.

  Lemma find_sib_finsert_other : forall w ks v f w2, w2 <> w -> find_sib V (finsert (w :: ks) v f) w2 = find_sib V f w2.
  Proof.
    intros w ks v. induction f as [|w' v' c _ s IHs]; intros w2 Hne; rewrite finsert_cons.
    - cbn [find_sib]. destruct (Z.eqb_spec w w2); [congruence|reflexivity].
    - destruct (Z.ltb_spec w w') as [Hlt|Hge].
      + cbn [find_sib]. destruct (Z.eqb_spec w w2); [congruence|reflexivity].
      + destruct (Z.eqb_spec w w') as [->|Hne2].
        * cbn [find_sib]. destruct (Z.eqb_spec w' w2); [congruence|reflexivity].
        * cbn [find_sib]. destruct (Z.eqb_spec w' w2); [reflexivity|]. apply IHs. exact Hne.
  Qed.

  (* ---- lookup of values ------------------------------------------------------------------------------------------------------ *)
  Definition lookupv (f : forest) (k : list Z) : option V := option_map fst (lookup V f k).

  Fixpoint is_prefix (a b : list Z) : bool :=      (* a is a prefix of b *)
    match a, b with
    | [], _ => true
    | x :: a', y :: b' => (x =? y) && is_prefix a' b'
    | _ :: _, [] => false
    end.
  Definition key_eq (a b : list Z) : bool := if list_eq_dec Z.eq_dec a b then true else false.
  Definition proper_prefix (a b : list Z) : bool := is_prefix a b && negb (key_eq a b).

  Lemma key_eq_refl : forall a, key_eq a a = true.
  Proof. intros. unfold key_eq. destruct (list_eq_dec Z.eq_dec a a); [reflexivity|contradiction]. Qed.
  Lemma key_eq_true : forall a b, key_eq a b = true -> a = b.
  Proof. intros a b. unfold key_eq. destruct (list_eq_dec Z.eq_dec a b); [auto|discriminate]. Qed.
  Lemma key_eq_cons : forall x a y b, key_eq (x :: a) (y :: b) = (x =? y) && key_eq a b.
  Proof.
    intros. unfold key_eq. destruct (list_eq_dec Z.eq_dec (x :: a) (y :: b)) as [E|N].
    - inversion E. subst. rewrite Z.eqb_refl. destruct (list_eq_dec Z.eq_dec b b); [reflexivity|contradiction].
    - destruct (Z.eqb_spec x y) as [->|]; [|reflexivity]. destruct (list_eq_dec Z.eq_dec a b) as [->|]; [contradiction|reflexivity].
  Qed.

  (* the value found for k' after inserting (k, v) *)
  Lemma lookupv_finsert : forall k v k' f lb, k <> [] -> k' <> [] -> sorted_from lb f ->
    lookupv (finsert k v f) k' =
    if key_eq k' k then Some v
    else if proper_prefix k' k then Some (match lookupv f k' with Some x => x | None => dv end)
    else lookupv f k'.
  Proof.
    induction k as [|w ks IHk]; intros v k' f lb Hk Hk' Hs; [contradiction|].
    destruct k' as [|w2 ks2]; [contradiction|].
    unfold lookupv. cbn [lookup]. unfold proper_prefix. rewrite key_eq_cons. cbn [is_prefix].
    destruct (Z.eqb_spec w2 w) as [->|Hne]; cbn [andb].
    - rewrite (find_sib_finsert_same w ks v f lb Hs).
      assert (Hsub : sorted_from (-1) (match find_sib V f w with Some (_, c) => c | None => FNil end)).
      { clear - Hs. revert lb Hs. induction f as [|w' v' c _ s IHs]; intros lb Hs; [exact I|].
        cbn [sorted_from] in Hs. destruct Hs as [_ [B C]]. cbn [find_sib]. destruct (w' =? w); [exact B|]. apply (IHs w'). exact C. }
      destruct ks2 as [|w3 ks3].
      + (* k' = [w] *)
        destruct ks as [|w4 ks4].
        * rewrite key_eq_refl. reflexivity.
        * replace (key_eq [] (w4 :: ks4)) with false by reflexivity. cbn [negb andb option_map fst].
          destruct (find_sib V f w) as [[x c]|]; reflexivity.
      + (* k' = w :: w3 :: ks3 *)
        destruct ks as [|w4 ks4].
        * replace (key_eq (w3 :: ks3) []) with false by reflexivity. cbn [is_prefix andb]. rewrite finsert_nil.
          destruct (find_sib V f w) as [[x c]|]; reflexivity.
        * pose proof (IHk v (w3 :: ks3) (match find_sib V f w with Some (_, c) => c | None => FNil end) (-1)
                        ltac:(discriminate) ltac:(discriminate) Hsub) as IH.
          unfold lookupv, proper_prefix in IH. rewrite IH.
          destruct (find_sib V f w) as [[x c]|]; reflexivity.
    - rewrite (find_sib_finsert_other w ks v f w2 Hne). reflexivity.
  Qed.

  (* ---- a whole table --------------------------------------------------------------------------------------------------------------- *)
  Fixpoint assoc (t : list (list Z * V)) (k : list Z) : option V :=
    match t with [] => None | (k', v) :: r => if key_eq k' k then Some v else assoc r k end.
  Definition covered (t : list (list Z * V)) (k : list Z) : bool := existsb (fun kv => proper_prefix k (fst kv)) t.

  Definition table_ok (t : list (list Z * V)) : Prop :=
    NoDup (map fst t) /\ (forall k, In k (map fst t) -> k <> [] /\ nonneg_key k) /\
    (forall k p, In k (map fst t) -> p <> [] -> proper_prefix p k = true -> In p (map fst t)).

  Lemma assoc_app_new : forall t k v k', ~ In k (map fst t) ->
    assoc (t ++ [(k, v)]) k' = match assoc t k' with Some x => Some x | None => if key_eq k k' then Some v else None end.
  Proof.
    induction t as [|[k0 v0] r IH]; intros k v k' Hn; cbn [app assoc]; [reflexivity|].
    destruct (key_eq k0 k'); [reflexivity|]. apply IH. intros H. apply Hn. right. exact H.
  Qed.

  Lemma assoc_in : forall t k, assoc t k <> None <-> In k (map fst t).
  Proof.
    induction t as [|[k0 v0] r IH]; intros k; cbn [assoc map fst In]; [tauto|].
    destruct (key_eq k0 k) eqn:E.
    - apply key_eq_true in E. subst. split; [intros _; left; reflexivity|intros _; discriminate].
    - rewrite IH. split; [intros H; right; exact H|intros [H|H]; [subst; rewrite key_eq_refl in E; discriminate|exact H]].
  Qed.

  Lemma fold_finsert_inv : forall t2 t1 f lb,
    NoDup (map fst (t1 ++ t2)) -> (forall k, In k (map fst (t1 ++ t2)) -> k <> [] /\ nonneg_key k) -> lb < 0 ->
    sorted_from lb f ->
    (forall k', k' <> [] -> lookupv f k' = match assoc t1 k' with Some x => Some x | None => if covered t1 k' then Some dv else None end) ->
    let F := fold_left (fun f kv => finsert (fst kv) (snd kv) f) t2 f in
    sorted_from lb F /\
    (forall k', k' <> [] -> lookupv F k' = match assoc (t1 ++ t2) k' with Some x => Some x | None => if covered (t1 ++ t2) k' then Some dv else None end).
  Proof.
    induction t2 as [|[k v] r IH]; intros t1 f lb Hnd Hkeys Hlb Hs Hinv; cbn [fold_left].
    - rewrite app_nil_r. split; assumption.
    - assert (Ek : (t1 ++ (k, v) :: r) = ((t1 ++ [(k, v)]) ++ r)) by (rewrite <- app_assoc; reflexivity).
      rewrite Ek in *.
      assert (Hk : k <> [] /\ nonneg_key k).
      { apply Hkeys. rewrite !map_app. apply in_or_app. left. apply in_or_app. right. left. reflexivity. }
      destruct Hk as [Hkne Hknn].
      assert (Hnew : ~ In k (map fst t1)).
      { pose proof Hnd as Hnd'. rewrite !map_app in Hnd'. cbn [map fst] in Hnd'. rewrite <- app_assoc in Hnd'. cbn [app] in Hnd'.
        apply NoDup_remove_2 in Hnd'. intros H. apply Hnd'. apply in_or_app. left. exact H. }
      apply IH; try assumption.
      + cbn [fst snd]. apply finsert_sorted; [exact Hknn| |exact Hs].
        destruct k as [|w ks]; [exact I|]. inversion Hknn. lia.
      + intros k' Hk'. cbn [fst snd]. rewrite (lookupv_finsert k v k' f lb Hkne Hk' Hs), (Hinv k' Hk').
        rewrite (assoc_app_new t1 k v k' Hnew). unfold covered. rewrite existsb_app. cbn [existsb fst]. rewrite orb_false_r.
        fold (covered t1 k').
        destruct (key_eq k' k) eqn:E1.
        * apply key_eq_true in E1. subst k'. rewrite key_eq_refl.
          destruct (assoc t1 k) eqn:Ea; [exfalso; apply Hnew; apply assoc_in; rewrite Ea; discriminate|reflexivity].
        * assert (E2 : key_eq k k' = false).
          { destruct (key_eq k k') eqn:E; [apply key_eq_true in E; subst; rewrite key_eq_refl in E1; discriminate|reflexivity]. }
          rewrite E2. destruct (proper_prefix k' k) eqn:Ep.
          -- rewrite orb_true_r. destruct (assoc t1 k'); [reflexivity|]. destruct (covered t1 k'); reflexivity.
          -- rewrite orb_false_r. destruct (assoc t1 k'); reflexivity.
  Qed.

  Theorem lookup_of_table : forall t, table_ok t ->
    sorted_from (-1) (of_table V dv t) /\ forall k, k <> [] -> lookupv (of_table V dv t) k = assoc t k.
  Proof.
    intros t [Hnd [Hkeys Hpc]].
    destruct (fold_finsert_inv t [] FNil (-1) Hnd Hkeys ltac:(lia) I ltac:(intros k' Hk'; destruct k'; [contradiction|reflexivity])) as [Hs Hl].
    cbn [app] in Hl. split; [exact Hs|].
    intros k Hk. unfold of_table. rewrite (Hl k Hk).
    destruct (assoc t k) eqn:Ea; [reflexivity|].
    destruct (covered t k) eqn:Ec; [|reflexivity].
    exfalso. unfold covered in Ec. apply existsb_exists in Ec. destruct Ec as [[k2 v2] [Hin Hp]]. cbn [fst] in Hp.
    assert (Hin2 : In k2 (map fst t)) by (apply in_map_iff; exists (k2, v2); split; [reflexivity|exact Hin]).
    pose proof (Hpc k2 k Hin2 Hk Hp) as Hink. apply assoc_in in Hink. contradiction.
  Qed.

  (* ---- the unigram level is dense ---------------------------------------------------------------------------------------------------- *)
  Lemma dense_of_membership : forall f i n, sorted_from (i - 1) f ->
    (forall w, find_sib V f w <> None <-> i <= w < n) -> dense_from V i f.
  Proof.
    induction f as [|w v c _ s IHs]; intros i n Hs Hm; [exact I|].
    cbn [sorted_from] in Hs. destruct Hs as [A [_ C]]. cbn [dense_from].
    assert (Hw : i <= w < n) by (apply Hm; cbn [find_sib]; rewrite Z.eqb_refl; discriminate).
    assert (Ei : w = i).
    { destruct (Z.eq_dec w i) as [|Hne]; [assumption|]. exfalso.
      assert (Hi : find_sib V (FCons w v c s) i <> None) by (apply Hm; lia).
      cbn [find_sib] in Hi. destruct (Z.eqb_spec w i); [contradiction|].
      rewrite (find_sib_below s w i C ltac:(lia)) in Hi. contradiction. }
    subst w. split; [reflexivity|]. apply (IHs (i + 1) n); [replace (i + 1 - 1) with i by lia; exact C|].
    intros w. specialize (Hm w). cbn [find_sib] in Hm. destruct (Z.eqb_spec i w) as [->|Hne].
    - rewrite (find_sib_below s w w C ltac:(lia)). split; [contradiction|lia].
    - rewrite Hm. lia.
  Qed.

  Lemma dense_len : forall f i n, sorted_from (i - 1) f -> (forall w, find_sib V f w <> None <-> i <= w < n) ->
    flen V f = Z.max 0 (n - i).
  Proof.
    induction f as [|w v c _ s IHs]; intros i n Hs Hm.
    - cbn [flen]. assert (~ (i <= i < n)) by (intros H; apply Hm in H; apply H; reflexivity). lia.
    - pose proof (dense_of_membership _ i n Hs Hm) as Hd. cbn [dense_from] in Hd. destruct Hd as [-> _].
      cbn [sorted_from] in Hs. destruct Hs as [_ [_ C]]. cbn [flen].
      assert (Hin : i <= i < n) by (apply Hm; cbn [find_sib]; rewrite Z.eqb_refl; discriminate).
      rewrite (IHs (i + 1) n); [lia|replace (i + 1 - 1) with i by lia; exact C|].
      intros w. specialize (Hm w). cbn [find_sib] in Hm. destruct (Z.eqb_spec i w) as [->|Hne].
      + rewrite (find_sib_below s w w C ltac:(lia)). split; [contradiction|lia].
      + rewrite Hm. lia.
  Qed.

  Theorem of_table_dense : forall t n, table_ok t -> (forall w, In [w] (map fst t) <-> 0 <= w < n) ->
    dense_from V 0 (of_table V dv t) /\ flen V (of_table V dv t) = Z.max 0 n.
  Proof.
    intros t n Hok Huni. destruct (lookup_of_table t Hok) as [Hs Hl].
    assert (Hm : forall w, find_sib V (of_table V dv t) w <> None <-> 0 <= w < n).
    { intros w. rewrite <- Huni, <- assoc_in, <- (Hl [w]) by discriminate. unfold lookupv. cbn [lookup].
      destruct (find_sib V (of_table V dv t) w) as [[x c]|]; cbn [option_map]; split; intros H; try discriminate; exfalso; apply H; reflexivity. }
    split.
    - apply (dense_of_membership (of_table V dv t) 0 n); [exact Hs|exact Hm].
    - rewrite (dense_len (of_table V dv t) 0 n); [f_equal; lia|exact Hs|exact Hm].
  Qed.
End Table.
