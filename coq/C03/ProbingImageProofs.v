(* C03/ProbingImageProofs.v -- a table of the probing model (C03/ProbingImage.v table_of: the entries inserted one by one with
   util::ProbingHashTable::Insert, DivMod placement) is the finite map of its entries: when the keys are distinct and non-zero and
   fewer than the bucket count, the table is built (no ProbingSizeException, the probe loops terminate) and Find returns exactly the
   value inserted under a key, or absence; hence the lookup of an n-gram by its 64-bit hash returns the table's entry whenever no
   OTHER n-gram of that order has the same hash (the hash-injectivity assumption, stated per query instead of assumed globally). *)
From Coq Require Import ZArith Lia Bool List Arith Permutation.
From Kenlm Require Import Base.Mem LM.Defs C20.ProbingModel C20.ProbingProofs C03.TrieImage C03.ProbingImage.
Import ListNotations.
Local Open Scope Z_scope.

Section OneTable.
  Variable n : nat.
  Hypothesis Hn : (0 < n)%nat.
  Let ideal := ideal_of DivMod n.
  Let next := next_of DivMod n.

  Lemma table_of_rep : forall ents t0 m0, rep n ideal t0 m0 ->
    (forall kv, In kv ents -> fst kv <> 0) -> NoDup (map fst ents ++ map fst m0) -> (length ents + length m0 < n)%nat ->
    exists t, fold_left (fun acc kv => match acc with
                                       | Ok t => insert n ideal next t kv
                                       | other => other
                                       end) ents (Ok t0) = Ok t /\ rep n ideal t (rev ents ++ m0).
  Proof.
    induction ents as [|[k v] r IH]; intros t0 m0 R Hnz Hnd Hlen.
    - exists t0. split; [reflexivity|exact R].
    - cbn [fold_left].
      assert (Hk : k <> 0) by (apply (Hnz (k, v)); left; reflexivity).
      assert (Hfresh : alookup m0 k = None).
      { cbn [map fst app] in Hnd. apply NoDup_cons_iff in Hnd. destruct Hnd as [Hni _].
        clear - Hni. induction m0 as [|[k' v'] m IHm]; [reflexivity|]. cbn [alookup]. destruct (Z.eqb_spec k' k) as [->|Hne].
        - exfalso. apply Hni. apply in_or_app. right. left. reflexivity.
        - apply IHm. intros H. apply Hni. apply in_app_or in H. apply in_or_app. destruct H as [H|H]; [left; exact H|right; right; exact H]. }
      pose proof (insert_refines n Hn ideal ltac:(intros; apply divmod_ideal_lt; exact Hn) next ltac:(intros; apply divmod_next_is; assumption)
                    t0 m0 k v R Hk Hfresh) as Hins.
      cbn [length] in Hlen.
      destruct (Z.geb_spec (Z.of_nat (length m0) + 1) (Z.of_nat n)) as [Hfull|Hroom]; [lia|].
      destruct Hins as [t1 [E1 R1]]. rewrite E1.
      destruct (IH t1 ((k, v) :: m0) R1 ltac:(intros kv Hkv; apply Hnz; right; exact Hkv)) as [t [E R']].
      + cbn [map fst app] in Hnd |- *. apply NoDup_cons_iff in Hnd. destruct Hnd as [Hni Hnd'].
        (* move k from the front of the first list to the front of the second *)
        apply (Permutation_NoDup (Permutation_middle _ _ _)). constructor; assumption.
      + cbn [length]. lia.
      + exists t. split; [exact E|]. cbn [rev]. rewrite <- app_assoc. exact R'.
  Qed.
End OneTable.

(* association lists of (key, value) with distinct keys: order does not matter *)
Lemma alookup_app : forall a b k, alookup (a ++ b) k = match alookup a k with Some v => Some v | None => alookup b k end.
Proof. induction a as [|[k' v'] r IH]; intros b k; cbn [app alookup]; [reflexivity|]. destruct (k' =? k); [reflexivity|apply IH]. Qed.

Lemma alookup_none_notin : forall l k, ~ In k (map fst l) -> alookup l k = None.
Proof.
  induction l as [|[k' v'] r IH]; intros k H; [reflexivity|]. cbn [alookup]. destruct (Z.eqb_spec k' k) as [->|Hne].
  - exfalso. apply H. left. reflexivity.
  - apply IH. intros Hin. apply H. right. exact Hin.
Qed.

Lemma alookup_rev : forall l k, NoDup (map fst l) -> alookup (rev l) k = alookup l k.
Proof.
  induction l as [|[k' v'] r IH]; intros k Hnd; [reflexivity|].
  cbn [map fst] in Hnd. apply NoDup_cons_iff in Hnd. destruct Hnd as [Hni Hnd].
  cbn [rev]. rewrite alookup_app, IH by exact Hnd. cbn [alookup].
  destruct (Z.eqb_spec k' k) as [->|Hne].
  - rewrite (alookup_none_notin r k Hni). reflexivity.
  - destruct (alookup r k); reflexivity.
Qed.

Theorem probing_table_is_map : forall n ents, (0 < n)%nat ->
  (forall kv, In kv ents -> fst kv <> 0) -> NoDup (map fst ents) -> (length ents < n)%nat ->
  exists t, table_of n ents = Ok t /\
            forall k, k <> 0 -> find n (ideal_of DivMod n) (next_of DivMod n) t k = Ok (alookup ents k).
Proof.
  intros n ents Hn Hnz Hnd Hlen.
  destruct (table_of_rep n Hn ents {| cells := empty_cells n; entries := 0 |} [] (rep_empty n Hn (ideal_of DivMod n)) Hnz
              ltac:(cbn [map app]; rewrite app_nil_r; exact Hnd) ltac:(cbn [length]; lia)) as [t [E R]].
  exists t. split; [exact E|]. intros k Hk. rewrite app_nil_r in R.
  rewrite (find_refines n Hn (ideal_of DivMod n) ltac:(intros; apply divmod_ideal_lt; exact Hn) (next_of DivMod n)
             ltac:(intros; apply divmod_next_is; assumption) t (rev ents) k R Hk).
  rewrite alookup_rev by exact Hnd. reflexivity.
Qed.

(* ---- n-grams: the table of one order of the probing model ------------------------------------------------------------------------ *)
Lemma hashed_lookup : forall (val : entry -> Z) (l : list (key * entry)) (k : key),
  (forall ke, In ke l -> hash_key (fst ke) = hash_key k -> fst ke = k) ->
  alookup (map (fun ke => (hash_key (fst ke), val (snd ke))) l) (hash_key k) = option_map val (Defs.alookup l k).
Proof.
  intros val. induction l as [|[k' e] r IH]; intros k H; [reflexivity|].
  cbn [map alookup Defs.alookup fst snd]. unfold key_eqb. destruct (list_eq_dec N.eq_dec k' k) as [->|Hne].
  - rewrite Z.eqb_refl. reflexivity.
  - destruct (Z.eqb_spec (hash_key k') (hash_key k)) as [E|_].
    + exfalso. apply Hne. apply (H (k', e)); [left; reflexivity|exact E].
    + apply IH. intros ke Hin. apply H. right. exact Hin.
Qed.

(* the middle / longest table of order j built from the probing table of the model answers a lookup by hash with the model's entry,
   for every n-gram whose hash is not shared by a different n-gram of that order *)
Theorem probing_order_table_is_table : forall (val : entry -> Z) (t : atable) (j buckets : nat),
  let l := order_entries t j in
  let ents := map (fun ke => (hash_key (fst ke), val (snd ke))) l in
  (0 < buckets)%nat -> (length l < buckets)%nat ->
  (forall ke, In ke l -> hash_key (fst ke) <> 0) -> NoDup (map (fun ke => hash_key (fst ke)) l) ->
  exists tb, table_of buckets ents = Ok tb /\
    forall k, hash_key k <> 0 -> (forall ke, In ke l -> hash_key (fst ke) = hash_key k -> fst ke = k) ->
      find buckets (ideal_of DivMod buckets) (next_of DivMod buckets) tb (hash_key k) = Ok (option_map val (Defs.alookup l k)).
Proof.
  intros val t j buckets l ents Hb Hlen Hnz Hnd.
  destruct (probing_table_is_map buckets ents Hb) as [tb [E F]].
  - intros kv Hkv. unfold ents in Hkv. apply in_map_iff in Hkv. destruct Hkv as [ke [<- Hin]]. cbn [fst]. apply Hnz. exact Hin.
  - unfold ents. rewrite map_map. cbn [fst]. exact Hnd.
  - unfold ents. rewrite map_length. exact Hlen.
  - exists tb. split; [exact E|]. intros k Hk Hinj. rewrite (F (hash_key k) Hk). unfold ents. rewrite hashed_lookup by exact Hinj. reflexivity.
Qed.
