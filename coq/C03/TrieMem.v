(* C03/TrieMem.v -- executable model of the memory of a TrieSearch<DontQuantize, DontBhiksha | ArrayBhiksha> (lm/trie.hh,
   lm/trie.cc, lm/search_trie.cc SetupMemory / WriteEntries, lm/quantize.hh DontQuantize) over the GENERATED bit-packing routines
   (no proofs here).  The arrays are filled from the level lists of C03/TrieLayout.v; payloads are float32 bit patterns.

     Unigram            (count + 2) records { float prob; float backoff; uint64 next }
     BitPackedMiddle    per record: word (RequiredBits(max_vocab) bits), prob (31 bits, sign dropped), backoff (32 bits),
                        next (DontBhiksha: RequiredBits(max_next) bits; ArrayBhiksha: the low InlineBits bits, the rest in the
                        offset table of C03/BhikshaModel.v); one closing record that only carries the final next pointer
     BitPackedLongest   per record: word, prob (31 bits)

   Lookups: tuni_find = Unigram::Find; tmid_find / tmidA_find = BitPackedMiddle::Find (FindBitPacked = BoundedSortedUniformFind
   with Pivot32 and the sentinels 0 / max_vocab, then MiddlePointer::Prob/Backoff and Bhiksha::ReadNext); tlong_find. *)
From Coq Require Import ZArith List Bool Arith.
From Kenlm Require Import Base.Mem Gen.BitPacking Gen.SortedUniform C20.SearchModel C20.ArrayModel C03.BhikshaModel C03.TrieLayout.
Import ListNotations.
Local Open Scope Z_scope.

Definition pb := (Z * Z)%type.      (* (prob bits, backoff bits) *)

(* ---- BitPackedMiddle<DontBhiksha> with the DontQuantize payload -------------------------------------------------------- *)
Record tmid := { t_base : Z; t_wb : Z; t_nb : Z; t_max_vocab : Z }.
Definition t_tb (m : tmid) : Z := t_wb m + 63 + t_nb m.

(* Insert(word) writes the word and the next pointer; MiddlePointer::Write then writes prob and backoff through the returned address *)
Definition tmid_insert (m : tmid) (mem : Z) (i : Z) (r : rec pb) : Z :=
  let at_ := i * t_tb m in
  let mem := WriteInt57 mem (t_base m) at_ (t_wb m) (r_word _ r) in
  let mem := WriteInt57 mem (t_base m) (at_ + t_wb m + 63) (t_nb m) (r_next _ r) in
  let mem := WriteNonPositiveFloat31 mem (t_base m) (at_ + t_wb m) (fst (r_val _ r)) in
  WriteFloat32 mem (t_base m) (at_ + t_wb m + 31) (snd (r_val _ r)).

Fixpoint tmid_inserts (m : tmid) (mem : Z) (i : Z) (recs : list (rec pb)) : Z :=
  match recs with
  | [] => mem
  | r :: rest => tmid_inserts m (tmid_insert m mem i r) (i + 1) rest
  end.

Definition tmid_finish (m : tmid) (mem : Z) (n next_end : Z) : Z :=
  WriteInt57 mem (t_base m) (n * t_tb m + (t_tb m - t_nb m)) (t_nb m) next_end.

Definition tmid_key (m : tmid) (mem : Z) (i : Z) : Z := ReadInt57 mem (t_base m) (i * t_tb m) (t_wb m) (Z.ones (t_wb m)).

(* None = out of fuel; Some None = not found; Some (Some (index, prob bits, backoff bits, child begin, child end)) *)
Definition tmid_find (m : tmid) (fuel : nat) (mem : Z) (word b e : Z) : option (option (Z * Z * Z * Z * Z)) :=
  match bounded_find (tmid_key m mem) Pivot32_Calc fuel (b - 1) 0 e (t_max_vocab m) word with
  | None => None
  | Some None => Some None
  | Some (Some p) =>
      let at_ := p * t_tb m + t_wb m in
      Some (Some (p,
                  ReadNonPositiveFloat31 mem (t_base m) at_,
                  ReadFloat32 mem (t_base m) (at_ + 31),
                  ReadInt57 mem (t_base m) (at_ + 63) (t_nb m) (Z.ones (t_nb m)),
                  ReadInt57 mem (t_base m) (at_ + 63 + t_tb m) (t_nb m) (Z.ones (t_nb m))))
  end.

(* ---- BitPackedMiddle<ArrayBhiksha>: state = (memory, offset slots 1..) -------------------------------------------------- *)
Definition tmidA_insert (m : tmid) (st : Z * list Z) (i : Z) (r : rec pb) : Z * list Z :=
  let '(mem, offs) := st in
  (tmid_insert m mem i {| r_word := r_word _ r; r_val := r_val _ r; r_next := Z.land (r_next _ r) (Z.ones (t_nb m)) |},
   fst (write_next (t_nb m) (offs, []) i (r_next _ r))).

Fixpoint tmidA_inserts (m : tmid) (st : Z * list Z) (i : Z) (recs : list (rec pb)) : Z * list Z :=
  match recs with
  | [] => st
  | r :: rest => tmidA_inserts m (tmidA_insert m st i r) (i + 1) rest
  end.

Definition tmidA_finish (m : tmid) (st : Z * list Z) (n next_end : Z) : Z * list Z :=
  let '(mem, offs) := st in
  (tmid_finish m mem n (Z.land next_end (Z.ones (t_nb m))), 0 :: fst (write_next (t_nb m) (offs, []) n next_end)).

Definition tmidA_find (m : tmid) (fuel : nat) (st : Z * list Z) (word b e : Z) : option (option (Z * Z * Z * Z * Z)) :=
  let '(mem, offs) := st in
  match tmid_find m fuel mem word b e with
  | Some (Some (p, prob, bo, lowa, lowb)) =>
      let '(cb, ce) := read_next2 (t_nb m) offs p lowa lowb in      (* ArrayBhiksha::ReadNext: offset table + the two inline values *)
      Some (Some (p, prob, bo, cb, ce))
  | Some None => Some None
  | None => None
  end.

(* ---- BitPackedLongest --------------------------------------------------------------------------------------------------- *)
Record tlong := { l_base : Z; l_wb : Z; l_max_vocab : Z }.
Definition l_tb (m : tlong) : Z := l_wb m + 31.

Definition tlong_insert (m : tlong) (mem : Z) (i : Z) (r : rec pb) : Z :=
  let at_ := i * l_tb m in
  let mem := WriteInt57 mem (l_base m) at_ (l_wb m) (r_word _ r) in
  WriteNonPositiveFloat31 mem (l_base m) (at_ + l_wb m) (fst (r_val _ r)).

Fixpoint tlong_inserts (m : tlong) (mem : Z) (i : Z) (recs : list (rec pb)) : Z :=
  match recs with
  | [] => mem
  | r :: rest => tlong_inserts m (tlong_insert m mem i r) (i + 1) rest
  end.

Definition tlong_key (m : tlong) (mem : Z) (i : Z) : Z := ReadInt57 mem (l_base m) (i * l_tb m) (l_wb m) (Z.ones (l_wb m)).

Definition tlong_find (m : tlong) (fuel : nat) (mem : Z) (word b e : Z) : option (option (Z * Z)) :=
  match bounded_find (tlong_key m mem) Pivot32_Calc fuel (b - 1) 0 e (l_max_vocab m) word with
  | None => None
  | Some None => Some None
  | Some (Some p) => Some (Some (p, ReadNonPositiveFloat31 mem (l_base m) (p * l_tb m + l_wb m)))
  end.

(* ---- the whole search structure from the level lists ---------------------------------------------------------------------- *)
(* one middle array: memory, offset table ([] for DontBhiksha), parameters, number of records *)
Record midmem := { mm_par : tmid; mm_mem : Z; mm_offs : list Z; mm_count : nat }.
Record triemem := { tm_uni : list (rec pb); tm_uni_end : Z; tm_mids : list midmem; tm_long_par : tlong; tm_long : Z; tm_long_count : nat }.

(* `array` = false: DontBhiksha, next bits = RequiredBits(max_next); true: ArrayBhiksha with the configured maximum `cfg` *)
Definition mk_mid (array : bool) (cfg : Z) (vocab : Z) (recs : list (rec pb)) (max_next : Z) : midmem :=
  let n := Z.of_nat (length recs) in
  if array then
    let m := {| t_base := 0; t_wb := bits_needed vocab; t_nb := inline_bits (n + 1) max_next cfg; t_max_vocab := vocab |} in
    let st := tmidA_finish m (tmidA_inserts m (0, []) 0 recs) n max_next in
    {| mm_par := m; mm_mem := fst st; mm_offs := snd st; mm_count := length recs |}
  else
    let m := {| t_base := 0; t_wb := bits_needed vocab; t_nb := bits_needed max_next; t_max_vocab := vocab |} in
    {| mm_par := m; mm_mem := tmid_finish m (tmid_inserts m 0 0 recs) n max_next; mm_offs := []; mm_count := length recs |}.

(* levels: index 0 = unigrams ... index N-1 = longest; N >= 2 *)
Fixpoint mk_mids (array : bool) (cfg vocab : Z) (ls : list (list (rec pb))) : list midmem :=
  match ls with
  | l :: ((l' :: _) as rest) => mk_mid array cfg vocab l (Z.of_nat (length l')) :: mk_mids array cfg vocab rest
  | _ => []
  end.

Definition mk_trie (array : bool) (cfg : Z) (ls : levels pb) : triemem :=
  let uni := nth 0 ls [] in
  let vocab := Z.of_nat (length uni) in
  let longest := last ls [] in
  let lp := {| l_base := 0; l_wb := bits_needed vocab; l_max_vocab := vocab |} in
  {| tm_uni := uni; tm_uni_end := level_len pb ls 1;
     tm_mids := mk_mids array cfg vocab (tl ls);
     tm_long_par := lp; tm_long := tlong_inserts lp 0 0 longest; tm_long_count := length longest |}.

(* ---- lookups over the memory (TrieSearch::LookupUnigram / LookupMiddle / LookupLongest) ------------------------------------- *)
Definition tuni_find (t : triemem) (w : Z) : option (pb * Z * Z) :=
  if 0 <=? w then
    match nth_error (tm_uni t) (Z.to_nat w) with
    | Some r => Some (r_val _ r, r_next _ r, match nth_error (tm_uni t) (Z.to_nat (w + 1)) with Some r' => r_next _ r' | None => tm_uni_end t end)
    | None => None
    end
  else None.

Definition mm_find (array : bool) (mm : midmem) (w lo hi : Z) : option (option (Z * Z * Z * Z * Z)) :=
  let fuel := S (S (S (mm_count mm))) in
  if array then tmidA_find (mm_par mm) fuel (mm_mem mm, mm_offs mm) w lo hi
  else tmid_find (mm_par mm) fuel (mm_mem mm) w lo hi.

(* words after the first; `mids` the remaining middle arrays; returns payload and child range (longest: empty range) *)
Fixpoint twalk_from (array : bool) (t : triemem) (mids : list midmem) (lo hi : Z) (ws : list Z) (cur : pb) : option (option (pb * Z * Z)) :=
  match ws with
  | [] => Some (Some (cur, lo, hi))
  | w :: ws' =>
      match mids with
      | mm :: mids' =>
          match mm_find array mm w lo hi with
          | None => None
          | Some None => Some None
          | Some (Some (_, prob, bo, cb, ce)) => twalk_from array t mids' cb ce ws' (prob, bo)
          end
      | [] =>
          match ws' with
          | [] => match tlong_find (tm_long_par t) (S (S (S (tm_long_count t)))) (tm_long t) w lo hi with
                  | None => None
                  | Some None => Some None
                  | Some (Some (_, prob)) => Some (Some ((prob, 0), 0, 0))
                  end
          | _ :: _ => Some None
          end
      end
  end.

Definition twalk (array : bool) (t : triemem) (k : list Z) : option (option (pb * Z * Z)) :=
  match k with
  | [] => Some None
  | w :: ws => match tuni_find t w with
               | None => Some None
               | Some (v, lo, hi) => twalk_from array t (tm_mids t) lo hi ws v
               end
  end.

(* ---- the bytes of the search structure ---------------------------------------------------------------------------------------- *)
Definition le_bytes (n : nat) (v : Z) : list Z := bytes_of_Z n v.

Definition uni_bytes (t : triemem) : list Z :=
  flat_map (fun r => le_bytes 4 (fst (r_val _ r)) ++ le_bytes 4 (snd (r_val _ r)) ++ le_bytes 8 (r_next _ r)) (tm_uni t)
  ++ le_bytes 8 0 ++ le_bytes 8 (tm_uni_end t) ++ le_bytes 16 0.

(* ArrayBhiksha region at offset `off` from the (8-aligned) start of the search memory: version, configured bits, the offset
   table at AlignTo8(off) + 8, in total 8 * (1 + ArrayCount) + 7 bytes *)
Definition bhiksha_bytes (off cfg : Z) (offs : list Z) : list Z :=
  let pad := (8 - off mod 8) mod 8 in
  let size := 8 * (1 + Z.of_nat (length offs)) + 7 in
  let body := [0; Z.land cfg 255] ++ repeat 0 (Z.to_nat (pad + 8 - 2)) ++ flat_map (le_bytes 8) offs in
  body ++ repeat 0 (Z.to_nat (size - Z.of_nat (length body))).

Definition mid_bytes (array : bool) (cfg off : Z) (mm : midmem) : list Z :=
  let m := mm_par mm in
  let size := bitpacked_base_size (Z.of_nat (mm_count mm)) (t_max_vocab m) (63 + t_nb m) in
  (if array then bhiksha_bytes off cfg (mm_offs mm) else []) ++ bytes_of_Z (Z.to_nat size) (mm_mem mm).

Fixpoint mids_bytes (array : bool) (cfg off : Z) (mids : list midmem) : list Z :=
  match mids with
  | [] => []
  | mm :: rest => let b := mid_bytes array cfg off mm in b ++ mids_bytes array cfg (off + Z.of_nat (length b)) rest
  end.

Definition trie_bytes (array : bool) (cfg : Z) (t : triemem) : list Z :=
  let u := uni_bytes t in
  let ms := mids_bytes array cfg (Z.of_nat (length u)) (tm_mids t) in
  let lp := tm_long_par t in
  u ++ ms ++ bytes_of_Z (Z.to_nat (bitpacked_base_size (Z.of_nat (tm_long_count t)) (l_max_vocab lp) 31)) (tm_long t).
