(* C03/TrieDecode.v -- reading scores back from float32 bit patterns (the inverse of TrieImage.f32_of_units on the generator's range)
   and the table entry a trie lookup result stands for. *)
From Coq Require Import ZArith Lia Bool List.
From Kenlm Require Import LM.Defs C03.TrieMem C03.TrieImage.
Import ListNotations.
Local Open Scope Z_scope.

(* value * 64 of a float32 bit pattern whose value is a multiple of 1/64 (sign | 8-bit exponent | 23-bit fraction) *)
Definition units_of_f32 (bits : Z) : Z :=
  let m := bits mod 2 ^ 31 in
  if m =? 0 then 0
  else
    let e := m / 2 ^ 23 in
    let mant := m mod 2 ^ 23 + 2 ^ 23 in
    let mag := if 144 <=? e then mant * 2 ^ (e - 144) else mant / 2 ^ (144 - e) in
    if bits <? 2 ^ 31 then mag else - mag.

Lemma f32_units_roundtrip : forall z, - 2 ^ 24 < z < 2 ^ 24 -> units_of_f32 (f32_of_units z) = z.
Proof.
  intros z Hz. unfold f32_of_units. destruct (Z.eqb_spec z 0) as [->|Hnz]; [reflexivity|].
  set (m := Z.abs z). assert (Hm : 0 < m < 2 ^ 24) by (unfold m; lia).
  set (e := Z.log2 m). assert (He : 0 <= e < 24) by (unfold e; split; [apply Z.log2_nonneg|apply Z.log2_lt_pow2; lia]).
  replace (e <=? 23) with true by (symmetry; apply Z.leb_le; lia).
  destruct (Z.log2_spec m ltac:(lia)) as [L1 L2]. fold e in L1, L2. replace (Z.succ e) with (e + 1) in L2 by lia.
  assert (P : 2 ^ e * 2 ^ (23 - e) = 2 ^ 23) by (rewrite <- Z.pow_add_r by lia; f_equal; lia).
  assert (P2 : 2 ^ (e + 1) = 2 * 2 ^ e) by (rewrite Z.pow_add_r by lia; lia).
  assert (Pp : 0 < 2 ^ (23 - e)) by (apply Z.pow_pos_nonneg; lia).
  set (frac := Z.shiftl m (23 - e) - 8388608).
  assert (Hfrac : 0 <= frac < 2 ^ 23).
  { unfold frac. rewrite Z.shiftl_mul_pow2 by lia. change 8388608 with (2 ^ 23). nia. }
  assert (Hfm : frac + 2 ^ 23 = m * 2 ^ (23 - e)).
  { unfold frac. rewrite Z.shiftl_mul_pow2 by lia. change 8388608 with (2 ^ 23). lia. }
  set (be := e - 6 + 127).
  assert (Hexp : Z.shiftl be 23 = be * 2 ^ 23) by (apply Z.shiftl_mul_pow2; lia).
  set (s := if z <? 0 then 2147483648 else 0).
  assert (Hs : s = 0 \/ s = 2 ^ 31) by (unfold s; destruct (z <? 0); [right; reflexivity|left; reflexivity]).
  unfold units_of_f32.
  assert (Hlow : (s + Z.shiftl be 23 + frac) mod 2 ^ 31 = be * 2 ^ 23 + frac).
  { rewrite Hexp. assert (0 <= be * 2 ^ 23 + frac < 2 ^ 31) by (unfold be; change (2 ^ 31) with (256 * 2 ^ 23); nia).
    destruct Hs as [->| ->].
    - rewrite Z.add_0_l. apply Z.mod_small. assumption.
    - replace (2 ^ 31 + be * 2 ^ 23 + frac) with (be * 2 ^ 23 + frac + 1 * 2 ^ 31) by lia. rewrite Z.mod_add by lia. apply Z.mod_small. assumption. }
  cbv zeta. rewrite Hlow.
  assert (Hne : be * 2 ^ 23 + frac <> 0) by (unfold be; nia).
  destruct (Z.eqb_spec (be * 2 ^ 23 + frac) 0) as [E|_]; [contradiction|].
  assert (Ediv : (be * 2 ^ 23 + frac) / 2 ^ 23 = be).
  { rewrite Z.add_comm, Z.div_add by lia. rewrite Z.div_small by lia. lia. }
  assert (Emod : (be * 2 ^ 23 + frac) mod 2 ^ 23 = frac).
  { rewrite Z.add_comm, Z.mod_add by lia. apply Z.mod_small. lia. }
  rewrite Ediv, Emod, Hfm.
  assert (Hmag : (if 144 <=? be then m * 2 ^ (23 - e) * 2 ^ (be - 144) else m * 2 ^ (23 - e) / 2 ^ (144 - be)) = m).
  { destruct (Z.leb_spec 144 be) as [Hge|Hlt].
    - assert (e = 23) by (unfold be in Hge; lia). subst e. replace (be - 144) with 0 by (unfold be; lia).
      replace (23 - Z.log2 m) with 0 by lia. change (2 ^ 0) with 1. lia.
    - replace (144 - be) with (23 - e) by (unfold be; lia). apply Z.div_mul. lia. }
  rewrite Hmag.
  assert (Hbits : s + Z.shiftl be 23 + frac <? 2 ^ 31 = negb (z <? 0)).
  { rewrite Hexp. assert (0 <= be * 2 ^ 23 + frac < 2 ^ 31) by (unfold be; change (2 ^ 31) with (256 * 2 ^ 23); nia).
    unfold s. destruct (z <? 0); cbn [negb]; [apply Z.ltb_ge; change 2147483648 with (2 ^ 31); lia|apply Z.ltb_lt; lia]. }
  rewrite Hbits. unfold m. destruct (Z.ltb_spec z 0); cbn [negb]; lia.
Qed.

(* the entry a lookup result of the trie stands for: prob (sign irrelevant for a zero), back-off or extension marker, "extends left" =
   the child range is not empty; the longest order has neither back-off nor children *)
Definition entry_of_lookup (longest : bool) (r : pb * Z * Z) : entry :=
  let '(v, lo, hi) := r in
  let p := units_of_f32 (fst v) in
  if longest then {| e_prob := p; e_bo := 0; e_ext := false; e_left := false; e_rest := p |}
  else
    let marker := orb (snd v =? 0) (snd v =? 2147483648) in
    {| e_prob := p; e_bo := if marker then 0 else units_of_f32 (snd v); e_ext := negb (snd v =? 2147483648);
       e_left := lo <? hi; e_rest := p |}.
