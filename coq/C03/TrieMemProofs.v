(* C03/TrieMemProofs.v -- the bit-packed arrays of a TrieSearch<DontQuantize, *> (model: C03/TrieMem.v over the generated bit-packing
   routines) hold the level lists of C03/TrieLayout.v:
   1. the float routines are WriteInt57 / ReadInt57 on 31 / 32 bits (the sign bit of a probability is dropped and forced back on);
   2. tmid_refines / tlong_refines: after the inserts and FinishedLoading on zeroed memory, Find of a word in a sorted parent range
      returns the record holding it -- index, probability (sign forced), back-off, child range -- or reports absence exactly when
      no record of the range holds the word;
   3. tmidA_refines: the same for ArrayBhiksha, with the FULL next pointers although only their low bits are stored inline. *)
From Coq Require Import ZArith Lia Bool List.
From Kenlm Require Import Base.Mem Gen.BitPacking Gen.SortedUniform C20.BitPackingProofs C20.ArrayModel C20.ArrayProofs
                          C20.SearchModel C20.SearchProofs C20.MiddleAProofs C03.BhikshaModel C03.BhikshaProofs C03.TrieLayout C03.TrieMem.
Import ListNotations.
Local Open Scope Z_scope.
Arguments Z.ones : simpl never.
Arguments Z.testbit : simpl never.
Arguments Z.mul : simpl never.
Arguments Z.add : simpl never.
Arguments Z.sub : simpl never.
Arguments Z.pow : simpl never.
Arguments Z.land : simpl never.
Arguments Z.lor : simpl never.
Arguments Z.shiftr : simpl never.

(* ---- 1. floats as integer fields ------------------------------------------------------------------------------------------- *)
Lemma WriteFloat32_as_int : forall mem base off v, 0 <= v < 2 ^ 32 ->
  WriteFloat32 mem base off v = WriteInt57 mem base off 32 v.
Proof. intros. unfold WriteFloat32. cbv zeta. rewrite (wrap_small 64 v) by lia. reflexivity. Qed.

Lemma WriteFloat31_as_int : forall mem base off v, 0 <= v < 2 ^ 32 ->
  WriteNonPositiveFloat31 mem base off v = WriteInt57 mem base off 31 (v mod 2 ^ 31).
Proof.
  intros mem base off v Hv. unfold WriteNonPositiveFloat31. cbv zeta. rewrite unset_sign_val by lia.
  assert (Hr : 0 <= v mod 2 ^ 31 < 2 ^ 31) by (apply Z.mod_pos_bound; lia).
  rewrite (wrap_small 64 (v mod 2 ^ 31)) by lia. reflexivity.
Qed.

Lemma ReadFloat32_as_int : forall mem base off, 0 <= off ->
  ReadFloat32 mem base off = ReadInt57 mem base off 32 (Z.ones 32).
Proof. intros. rewrite ReadFloat32_is_rd, ReadInt57_is_rd by lia. reflexivity. Qed.

Definition sign_on (x : Z) : Z := Z.lor x kSignBit.

Lemma ReadFloat31_as_int : forall mem base off, 0 <= off ->
  ReadNonPositiveFloat31 mem base off = sign_on (ReadInt57 mem base off 31 (Z.ones 31)).
Proof.
  intros mem base off Ho. rewrite ReadInt57_is_rd by lia.
  unfold ReadNonPositiveFloat31, ReadOff, BitPackShift, rd, sign_on, load64. cbv zeta. rewrite land7, shr3, wrap8_mod8 by lia.
  set (x := Z.shiftr (loadw 64 mem (base + off / 8)) (off mod 8)).
  apply Z.bits_inj'. intros i Hi. unfold kSignBit. rewrite !Z.lor_spec.
  rewrite wrap_bit by lia. rewrite wrap_bit by lia. rewrite Z.land_spec, testbit_ones by lia.
  change 2147483648 with (2 ^ 31). rewrite Z.pow2_bits_eqb by lia.
  destruct (Z.eqb_spec 31 i) as [<-|Hne]; [rewrite !orb_true_r; reflexivity|]. rewrite !orb_false_r.
  destruct (Z.ltb_spec i 31); destruct (Z.ltb_spec i 32); try lia; rewrite ?andb_true_r, ?andb_false_r; reflexivity.
Qed.

Lemma bits_needed_bound : forall x, 0 <= x -> x < 2 ^ bits_needed x.
Proof.
  intros x Hx. unfold bits_needed. destruct (Z.eqb_spec x 0) as [->|Hn]; [reflexivity|].
  apply Z.log2_spec. lia.
Qed.

Lemma bits_needed_nonneg : forall x, 0 <= bits_needed x.
Proof. intros. unfold bits_needed. destruct (x =? 0); [lia|]. pose proof (Z.log2_nonneg x). lia. Qed.

(* ---- 2. one middle array, DontBhiksha ------------------------------------------------------------------------------------------ *)
Section TMid.
  Variable m : tmid.
  Hypothesis Hbase : 0 <= t_base m.
  Hypothesis Hwb : 0 <= t_wb m <= 57.
  Hypothesis Hnb : 0 <= t_nb m <= 57.
  Let tb := t_tb m.

  Definition gw : field := {| f_k := W57; f_off := 0; f_len := t_wb m |}.
  Definition gp : field := {| f_k := W57; f_off := t_wb m; f_len := 31 |}.
  Definition gb : field := {| f_k := W57; f_off := t_wb m + 31; f_len := 32 |}.
  Definition gn : field := {| f_k := W57; f_off := t_wb m + 63; f_len := t_nb m |}.

  Definition trec_ok (r : rec pb) : Prop :=
    0 <= r_word _ r < 2 ^ t_wb m /\ 0 <= fst (r_val _ r) < 2 ^ 32 /\ 0 <= snd (r_val _ r) < 2 ^ 32 /\ 0 <= r_next _ r < 2 ^ t_nb m.

  Fixpoint tcells (i : Z) (recs : list (rec pb)) : list cell :=
    match recs with
    | [] => []
    | r :: rest => (i, gw, r_word _ r) :: (i, gn, r_next _ r) :: (i, gp, fst (r_val _ r) mod 2 ^ 31) :: (i, gb, snd (r_val _ r)) :: tcells (i + 1) rest
    end.

  Lemma tmid_insert_cells : forall mem i r, trec_ok r ->
    tmid_insert m mem i r = fold_left (do_write (t_base m)) (map (cell_write tb) (tcells i [r])) mem.
  Proof.
    intros mem i r [_ [Hp [Hb _]]]. unfold tmid_insert. cbv zeta. rewrite WriteFloat31_as_int, WriteFloat32_as_int by assumption.
    cbn [tcells map fold_left]. unfold do_write, cell_write, rec_write. cbn [w_k w_off w_len w_val fst snd f_k f_off f_len gw gp gb gn].
    fold tb. replace (i * tb + 0) with (i * tb) by lia.
    replace (i * tb + (t_wb m + 63)) with (i * tb + t_wb m + 63) by lia.
    replace (i * tb + (t_wb m + 31)) with (i * tb + t_wb m + 31) by lia. reflexivity.
  Qed.

  Lemma tmid_inserts_cells : forall recs mem i, Forall trec_ok recs ->
    tmid_inserts m mem i recs = fold_left (do_write (t_base m)) (map (cell_write tb) (tcells i recs)) mem.
  Proof.
    induction recs as [|r rest IH]; intros mem i H; [reflexivity|].
    inversion H as [|? ? Hr Hrest]. subst. cbn [tmid_inserts]. rewrite IH by exact Hrest. rewrite tmid_insert_cells by exact Hr.
    cbn [tcells map fold_left]. reflexivity.
  Qed.

  Lemma tmid_finish_cell : forall mem n x,
    tmid_finish m mem n x = fold_left (do_write (t_base m)) (map (cell_write tb) [(n, gn, x)]) mem.
  Proof.
    intros mem n x. unfold tmid_finish. cbn [map fold_left]. unfold do_write, cell_write, rec_write. cbn [w_k w_off w_len w_val fst snd f_k f_off f_len gn].
    fold tb. replace (n * tb + (tb - t_nb m)) with (n * tb + (t_wb m + 63)) by (unfold tb, t_tb; lia). reflexivity.
  Qed.

  Lemma tcells_index : forall recs i c, In c (tcells i recs) -> i <= fst (fst c) < i + Z.of_nat (length recs).
  Proof.
    induction recs as [|r rest IH]; intros i c H; [destruct H|].
    cbn [tcells In length] in *. rewrite Nat2Z.inj_succ.
    destruct H as [<-|[<-|[<-|[<-|H]]]]; cbn [fst]; try lia. specialize (IH (i + 1) c H). lia.
  Qed.

  Lemma tfields_ok : fok tb gw /\ fok tb gp /\ fok tb gb /\ fok tb gn /\
                     fdisj gw gp /\ fdisj gw gb /\ fdisj gw gn /\ fdisj gp gb /\ fdisj gn gp /\ fdisj gn gb.
  Proof. unfold fok, fdisj, gw, gp, gb, gn, tb, t_tb. cbn [f_off f_len f_k maxlen]. repeat split; lia. Qed.

  Lemma tcells_apart : forall recs i x, 0 <= i ->
    ForallOrdPairs cell_apart (tcells i recs ++ [(i + Z.of_nat (length recs), gn, x)]).
  Proof.
    destruct tfields_ok as [_ [_ [_ [_ [D1 [D2 [D3 [D4 [D5 D6]]]]]]]]].
    induction recs as [|r rest IH]; intros i x Hi.
    - cbn. constructor; [constructor|constructor].
    - cbn [tcells app length]. rewrite Nat2Z.inj_succ.
      replace (i + Z.succ (Z.of_nat (length rest))) with (i + 1 + Z.of_nat (length rest)) by lia.
      assert (Later : forall c, In c (tcells (i + 1) rest ++ [(i + 1 + Z.of_nat (length rest), gn, x)]) -> fst (fst c) <> i).
      { intros c Hc. apply in_app_or in Hc. destruct Hc as [Hc|[<-|[]]]; [pose proof (tcells_index rest (i + 1) c Hc); lia|cbn [fst]; lia]. }
      assert (LaterF : forall (me : cell), fst (fst me) = i ->
                Forall (cell_apart me) (tcells (i + 1) rest ++ [(i + 1 + Z.of_nat (length rest), gn, x)])).
      { intros me Hme. apply Forall_forall. intros c Hc. left. rewrite Hme. intros E. apply (Later c Hc). congruence. }
      constructor; [|constructor; [|constructor; [|constructor; [|apply IH; lia]]]].
      + constructor; [right; exact D3|]. constructor; [right; exact D1|]. constructor; [right; exact D2|]. apply LaterF. reflexivity.
      + constructor; [right; exact D5|]. constructor; [right; exact D6|]. apply LaterF. reflexivity.
      + constructor; [right; exact D4|]. apply LaterF. reflexivity.
      + apply LaterF. reflexivity.
  Qed.

  Lemma tcells_ok : forall recs i, 0 <= i -> Forall trec_ok recs -> Forall (cell_ok tb) (tcells i recs).
  Proof.
    destruct tfields_ok as [F1 [F2 [F3 [F4 _]]]].
    induction recs as [|r rest IH]; intros i Hi H; [constructor|].
    inversion H as [|? ? [R1 [R2 [R3 R4]]] Hr]. subst. cbn [tcells].
    constructor; [split; [exact Hi|split; [exact F1|exact R1]]|].
    constructor; [split; [exact Hi|split; [exact F4|exact R4]]|].
    constructor; [split; [exact Hi|split; [exact F2|cbn [snd fst f_len gp]; apply Z.mod_pos_bound; lia]]|].
    constructor; [split; [exact Hi|split; [exact F3|exact R3]]|]. apply IH; [lia|exact Hr].
  Qed.

  Definition dflt : rec pb := {| r_word := 0; r_val := (0, 0); r_next := 0 |}.

  Lemma tcells_nth : forall recs i k, 0 <= k < Z.of_nat (length recs) ->
    let r := nth (Z.to_nat k) recs dflt in
    In (i + k, gw, r_word _ r) (tcells i recs) /\ In (i + k, gn, r_next _ r) (tcells i recs) /\
    In (i + k, gp, fst (r_val _ r) mod 2 ^ 31) (tcells i recs) /\ In (i + k, gb, snd (r_val _ r)) (tcells i recs).
  Proof.
    induction recs as [|r0 rest IH]; intros i k Hk; cbn [length] in Hk; [lia|].
    rewrite Nat2Z.inj_succ in Hk. cbn zeta.
    destruct (Z.eq_dec k 0) as [->|Hne].
    - cbn [Z.to_nat nth tcells]. rewrite Z.add_0_r. cbn [In]. tauto.
    - assert (Ek : Z.to_nat k = S (Z.to_nat (k - 1))) by lia. rewrite Ek. cbn [nth tcells].
      specialize (IH (i + 1) (k - 1) ltac:(lia)). cbn zeta in IH. replace (i + 1 + (k - 1)) with (i + k) in IH by lia.
      destruct IH as [I1 [I2 [I3 I4]]]. cbn [In]. tauto.
  Qed.

  Variable recs : list (rec pb).
  Variable next_end : Z.
  Variable mem0 : Z.
  Let n := Z.of_nat (length recs).
  Hypothesis Hrecs : Forall trec_ok recs.
  Hypothesis Hend : 0 <= next_end < 2 ^ t_nb m.
  Hypothesis Hzero : forall i, 8 * t_base m <= i < 8 * t_base m + (n + 1) * tb -> Z.testbit mem0 i = false.

  Definition tword_of (k : Z) : Z := r_word _ (nth (Z.to_nat k) recs dflt).
  Definition tprob_of (k : Z) : Z := fst (r_val _ (nth (Z.to_nat k) recs dflt)).
  Definition tbo_of (k : Z) : Z := snd (r_val _ (nth (Z.to_nat k) recs dflt)).
  Definition tnext_of (k : Z) : Z := if k <? n then r_next _ (nth (Z.to_nat k) recs dflt) else next_end.

  Definition TL : list cell := tcells 0 recs ++ [(n, gn, next_end)].
  Definition tmem' : Z := tmid_finish m (tmid_inserts m mem0 0 recs) n next_end.

  Lemma tmem'_fold : tmem' = fold_left (do_write (t_base m)) (map (cell_write tb) TL) mem0.
  Proof. unfold tmem', TL. rewrite tmid_finish_cell, tmid_inserts_cells, map_app, fold_left_app by exact Hrecs. reflexivity. Qed.

  Lemma TL_ok : Forall (cell_ok tb) TL.
  Proof.
    destruct tfields_ok as [_ [_ [_ [F4 _]]]]. unfold TL. apply Forall_app. split; [apply tcells_ok; [lia|exact Hrecs]|].
    constructor; [|constructor]. split; [cbn [fst]; unfold n; lia|split; [exact F4|exact Hend]].
  Qed.

  Lemma TL_apart : ForallOrdPairs cell_apart TL.
  Proof. unfold TL, n. pose proof (tcells_apart recs 0 next_end ltac:(lia)) as H. rewrite Z.add_0_l in H. exact H. Qed.

  Lemma TL_index : forall c, In c TL -> 0 <= fst (fst c) <= n.
  Proof.
    intros c H. unfold TL in H. apply in_app_or in H. destruct H as [H|[<-|[]]]; [pose proof (tcells_index recs 0 c H); unfold n; lia|cbn [fst]; unfold n; lia].
  Qed.

  Lemma tread_cell : forall c, In c TL ->
    ReadInt57 tmem' (t_base m) (fst (fst c) * tb + f_off (snd (fst c))) (f_len (snd (fst c))) (Z.ones (f_len (snd (fst c)))) = snd c.
  Proof.
    intros c Hin. rewrite tmem'_fold.
    assert (Htb : 0 <= tb) by (unfold tb, t_tb; lia).
    pose proof TL_ok as Hok. pose proof Hok as Hok'. rewrite Forall_forall in Hok'. destruct (Hok' c Hin) as [Hi [[F1 [F2 F3]] Hv]].
    apply (record_array_read_back (t_base m) tb TL mem0 Hbase Htb Hok TL_apart) with (k := W57); [|exact Hin|].
    - intros c' i Hc' Hw. apply Hzero.
      destruct (Hok' c' Hc') as [Hi' [[G1 [G2 G3]] _]]. pose proof (TL_index c' Hc') as Hidx. nia.
    - destruct (snd (fst c)) as [k o l]. cbn [f_len f_k maxlen] in *. destruct k; cbn [maxlen] in F2; cbn [maxlen]; lia.
  Qed.

  Lemma in_TL : forall c, In c (tcells 0 recs) -> In c TL.
  Proof. intros. unfold TL. apply in_or_app. left. assumption. Qed.

  Lemma tkey_is_word : forall k, 0 <= k < n -> tmid_key m tmem' k = tword_of k.
  Proof.
    intros k Hk. destruct (tcells_nth recs 0 k Hk) as [I1 _]. cbn zeta in I1. rewrite Z.add_0_l in I1.
    pose proof (tread_cell _ (in_TL _ I1)) as H. cbn [fst snd f_off f_len gw] in H. rewrite Z.add_0_r in H. exact H.
  Qed.

  Lemma tnext_read : forall k, 0 <= k <= n ->
    ReadInt57 tmem' (t_base m) (k * tb + t_wb m + 63) (t_nb m) (Z.ones (t_nb m)) = tnext_of k.
  Proof.
    intros k Hk. unfold tnext_of. destruct (Z.ltb_spec k n) as [Hlt|Hge].
    - destruct (tcells_nth recs 0 k ltac:(lia)) as [_ [I2 _]]. cbn zeta in I2. rewrite Z.add_0_l in I2.
      pose proof (tread_cell _ (in_TL _ I2)) as H. cbn [fst snd f_off f_len gn] in H. rewrite <- H. f_equal. lia.
    - assert (Ek : k = n) by lia. subst k.
      pose proof (tread_cell (n, gn, next_end) ltac:(unfold TL; apply in_or_app; right; left; reflexivity)) as H.
      cbn [fst snd f_off f_len gn] in H. rewrite <- H. f_equal. lia.
  Qed.

  Lemma tprob_read : forall k, 0 <= k < n ->
    ReadNonPositiveFloat31 tmem' (t_base m) (k * tb + t_wb m) = sign_on (tprob_of k mod 2 ^ 31).
  Proof.
    intros k Hk. rewrite ReadFloat31_as_int by (unfold tb, t_tb; nia).
    destruct (tcells_nth recs 0 k Hk) as [_ [_ [I3 _]]]. cbn zeta in I3. rewrite Z.add_0_l in I3.
    pose proof (tread_cell _ (in_TL _ I3)) as H. cbn [fst snd f_off f_len gp] in H. rewrite H. reflexivity.
  Qed.

  Lemma tbo_read : forall k, 0 <= k < n ->
    ReadFloat32 tmem' (t_base m) (k * tb + t_wb m + 31) = tbo_of k.
  Proof.
    intros k Hk. rewrite ReadFloat32_as_int by (unfold tb, t_tb; nia).
    destruct (tcells_nth recs 0 k Hk) as [_ [_ [_ I4]]]. cbn zeta in I4. rewrite Z.add_0_l in I4.
    pose proof (tread_cell _ (in_TL _ I4)) as H. cbn [fst snd f_off f_len gb] in H. unfold tbo_of. rewrite <- H. f_equal. lia.
  Qed.

  Theorem tmid_refines : forall fuel word b e, 0 <= b -> b <= e -> e <= n -> t_max_vocab m < 2 ^ 32 ->
    (forall i j, b <= i -> i <= j -> j < e -> tword_of i <= tword_of j) ->
    (forall i, b <= i < e -> tword_of i <= t_max_vocab m) -> 0 <= word <= t_max_vocab m -> e - b <= 2 ^ 32 ->
    (Z.of_nat fuel >= Z.max 1 (e - b + 1)) ->
    exists res, tmid_find m fuel tmem' word b e = Some res /\
      match res with
      | Some (p, prob, bo, cb, ce) => b <= p < e /\ tword_of p = word /\ prob = sign_on (tprob_of p mod 2 ^ 31) /\ bo = tbo_of p /\
                                      cb = tnext_of p /\ ce = tnext_of (p + 1)
      | None => forall i, b <= i < e -> tword_of i <> word
      end.
  Proof.
    intros fuel word b e Hb Hbe Hen Hmv Hsorted Hle Hword Hwidth Hfuel.
    assert (Hw0 : forall k, 0 <= k < n -> 0 <= tword_of k < 2 ^ t_wb m).
    { intros k Hk. unfold tword_of. pose proof Hrecs as HR. rewrite Forall_forall in HR.
      destruct (HR (nth (Z.to_nat k) recs dflt)) as [R1 _]; [apply nth_In; unfold n in Hk; lia|exact R1]. }
    destruct (bounded_find_correct (tmid_key m tmem') Pivot32_Calc (2 ^ 32) (2 ^ 32) ltac:(lia) fuel (b - 1) 0 e (t_max_vocab m) word pivot32_ok)
      as [r [Hr Hspec]].
    - intros i j Hi Hij Hj. rewrite !tkey_is_word by lia. apply Hsorted; lia.
    - intros i Hi. rewrite tkey_is_word by lia. pose proof (Hw0 i ltac:(lia)). pose proof (Hle i ltac:(lia)). lia.
    - lia.
    - lia.
    - lia.
    - exact Hmv.
    - lia.
    - lia.
    - unfold tmid_find. rewrite Hr. destruct r as [p|].
      + destruct Hspec as [Hp Hk]. rewrite tkey_is_word in Hk by lia.
        eexists. split; [reflexivity|]. fold tb.
        split; [lia|]. split; [exact Hk|]. split; [apply tprob_read; lia|].
        split; [rewrite <- tbo_read by lia; f_equal; lia|].
        split.
        * apply tnext_read. lia.
        * rewrite <- tnext_read by lia. f_equal. lia.
      + eexists. split; [reflexivity|]. intros i Hi. rewrite <- tkey_is_word by lia. apply Hspec. lia.
  Qed.
End TMid.

(* ---- the longest array ------------------------------------------------------------------------------------------------------------ *)
Section TLong.
  Variable m : tlong.
  Hypothesis Hbase : 0 <= l_base m.
  Hypothesis Hwb : 0 <= l_wb m <= 57.
  Let tb := l_tb m.

  Definition hw : field := {| f_k := W57; f_off := 0; f_len := l_wb m |}.
  Definition hp : field := {| f_k := W57; f_off := l_wb m; f_len := 31 |}.

  Definition lrec_ok (r : rec pb) : Prop := 0 <= r_word _ r < 2 ^ l_wb m /\ 0 <= fst (r_val _ r) < 2 ^ 32.

  Fixpoint lcells (i : Z) (recs : list (rec pb)) : list cell :=
    match recs with
    | [] => []
    | r :: rest => (i, hw, r_word _ r) :: (i, hp, fst (r_val _ r) mod 2 ^ 31) :: lcells (i + 1) rest
    end.

  Lemma tlong_inserts_cells : forall recs mem i, Forall lrec_ok recs ->
    tlong_inserts m mem i recs = fold_left (do_write (l_base m)) (map (cell_write tb) (lcells i recs)) mem.
  Proof.
    induction recs as [|r rest IH]; intros mem i H; [reflexivity|].
    inversion H as [|? ? [_ Hp] Hrest]. subst. cbn [tlong_inserts]. rewrite IH by exact Hrest.
    unfold tlong_insert. cbv zeta. rewrite WriteFloat31_as_int by exact Hp.
    cbn [lcells map fold_left]. unfold do_write, cell_write, rec_write. cbn [w_k w_off w_len w_val fst snd f_k f_off f_len hw hp].
    fold tb. replace (i * tb + 0) with (i * tb) by lia. reflexivity.
  Qed.

  Lemma lcells_index : forall recs i c, In c (lcells i recs) -> i <= fst (fst c) < i + Z.of_nat (length recs).
  Proof.
    induction recs as [|r rest IH]; intros i c H; [destruct H|].
    cbn [lcells In length] in *. rewrite Nat2Z.inj_succ.
    destruct H as [<-|[<-|H]]; cbn [fst]; try lia. specialize (IH (i + 1) c H). lia.
  Qed.

  Lemma lfields_ok : fok tb hw /\ fok tb hp /\ fdisj hw hp.
  Proof. unfold fok, fdisj, hw, hp, tb, l_tb. cbn [f_off f_len f_k maxlen]. repeat split; lia. Qed.

  Lemma lcells_apart : forall recs i, 0 <= i -> ForallOrdPairs cell_apart (lcells i recs).
  Proof.
    destruct lfields_ok as [_ [_ D]].
    induction recs as [|r rest IH]; intros i Hi; [constructor|].
    cbn [lcells].
    assert (Later : forall (me : cell), fst (fst me) = i -> Forall (cell_apart me) (lcells (i + 1) rest)).
    { intros me Hme. apply Forall_forall. intros c Hc. left. rewrite Hme. pose proof (lcells_index rest (i + 1) c Hc). lia. }
    constructor; [|constructor; [|apply IH; lia]].
    - constructor; [right; exact D|]. apply Later. reflexivity.
    - apply Later. reflexivity.
  Qed.

  Lemma lcells_ok : forall recs i, 0 <= i -> Forall lrec_ok recs -> Forall (cell_ok tb) (lcells i recs).
  Proof.
    destruct lfields_ok as [F1 [F2 _]].
    induction recs as [|r rest IH]; intros i Hi H; [constructor|].
    inversion H as [|? ? [R1 R2] Hr]. subst. cbn [lcells].
    constructor; [split; [exact Hi|split; [exact F1|exact R1]]|].
    constructor; [split; [exact Hi|split; [exact F2|cbn [snd fst f_len hp]; apply Z.mod_pos_bound; lia]]|]. apply IH; [lia|exact Hr].
  Qed.

  Lemma lcells_nth : forall recs i k, 0 <= k < Z.of_nat (length recs) ->
    let r := nth (Z.to_nat k) recs dflt in
    In (i + k, hw, r_word _ r) (lcells i recs) /\ In (i + k, hp, fst (r_val _ r) mod 2 ^ 31) (lcells i recs).
  Proof.
    induction recs as [|r0 rest IH]; intros i k Hk; cbn [length] in Hk; [lia|].
    rewrite Nat2Z.inj_succ in Hk. cbn zeta.
    destruct (Z.eq_dec k 0) as [->|Hne].
    - cbn [Z.to_nat nth lcells]. rewrite Z.add_0_r. cbn [In]. tauto.
    - assert (Ek : Z.to_nat k = S (Z.to_nat (k - 1))) by lia. rewrite Ek. cbn [nth lcells].
      specialize (IH (i + 1) (k - 1) ltac:(lia)). cbn zeta in IH. replace (i + 1 + (k - 1)) with (i + k) in IH by lia.
      destruct IH as [I1 I2]. cbn [In]. tauto.
  Qed.

  Variable recs : list (rec pb).
  Variable mem0 : Z.
  Let n := Z.of_nat (length recs).
  Hypothesis Hrecs : Forall lrec_ok recs.
  Hypothesis Hzero : forall i, 8 * l_base m <= i < 8 * l_base m + (n + 1) * tb -> Z.testbit mem0 i = false.

  Definition lmem' : Z := tlong_inserts m mem0 0 recs.
  Definition lword_of (k : Z) : Z := r_word _ (nth (Z.to_nat k) recs dflt).
  Definition lprob_of (k : Z) : Z := fst (r_val _ (nth (Z.to_nat k) recs dflt)).

  Lemma lread_cell : forall c, In c (lcells 0 recs) ->
    ReadInt57 lmem' (l_base m) (fst (fst c) * tb + f_off (snd (fst c))) (f_len (snd (fst c))) (Z.ones (f_len (snd (fst c)))) = snd c.
  Proof.
    intros c Hin. unfold lmem'. rewrite tlong_inserts_cells by exact Hrecs.
    assert (Htb : 0 <= tb) by (unfold tb, l_tb; lia).
    pose proof (lcells_ok recs 0 ltac:(lia) Hrecs) as Hok. pose proof Hok as Hok'. rewrite Forall_forall in Hok'. destruct (Hok' c Hin) as [Hi [[F1 [F2 F3]] Hv]].
    apply (record_array_read_back (l_base m) tb (lcells 0 recs) mem0 Hbase Htb Hok (lcells_apart recs 0 ltac:(lia))) with (k := W57); [|exact Hin|].
    - intros c' i Hc' Hw. apply Hzero.
      destruct (Hok' c' Hc') as [Hi' [[G1 [G2 G3]] _]]. pose proof (lcells_index recs 0 c' Hc') as Hidx. fold n in Hidx. nia.
    - destruct (snd (fst c)) as [k o l]. cbn [f_len f_k maxlen] in *. destruct k; cbn [maxlen] in F2; cbn [maxlen]; lia.
  Qed.

  Lemma lkey_is_word : forall k, 0 <= k < n -> tlong_key m lmem' k = lword_of k.
  Proof.
    intros k Hk. destruct (lcells_nth recs 0 k Hk) as [I1 _]. cbn zeta in I1. rewrite Z.add_0_l in I1.
    pose proof (lread_cell _ I1) as H. cbn [fst snd f_off f_len hw] in H. rewrite Z.add_0_r in H. exact H.
  Qed.

  Theorem tlong_refines : forall fuel word b e, 0 <= b -> b <= e -> e <= n -> l_max_vocab m < 2 ^ 32 ->
    (forall i j, b <= i -> i <= j -> j < e -> lword_of i <= lword_of j) ->
    (forall i, b <= i < e -> lword_of i <= l_max_vocab m) -> 0 <= word <= l_max_vocab m -> e - b <= 2 ^ 32 ->
    (Z.of_nat fuel >= Z.max 1 (e - b + 1)) ->
    exists res, tlong_find m fuel lmem' word b e = Some res /\
      match res with
      | Some (p, prob) => b <= p < e /\ lword_of p = word /\ prob = sign_on (lprob_of p mod 2 ^ 31)
      | None => forall i, b <= i < e -> lword_of i <> word
      end.
  Proof.
    intros fuel word b e Hb Hbe Hen Hmv Hsorted Hle Hword Hwidth Hfuel.
    assert (Hw0 : forall k, 0 <= k < n -> 0 <= lword_of k < 2 ^ l_wb m).
    { intros k Hk. unfold lword_of. pose proof Hrecs as HR. rewrite Forall_forall in HR.
      destruct (HR (nth (Z.to_nat k) recs dflt)) as [R1 _]; [apply nth_In; unfold n in Hk; lia|exact R1]. }
    destruct (bounded_find_correct (tlong_key m lmem') Pivot32_Calc (2 ^ 32) (2 ^ 32) ltac:(lia) fuel (b - 1) 0 e (l_max_vocab m) word pivot32_ok)
      as [r [Hr Hspec]].
    - intros i j Hi Hij Hj. rewrite !lkey_is_word by lia. apply Hsorted; lia.
    - intros i Hi. rewrite lkey_is_word by lia. pose proof (Hw0 i ltac:(lia)). pose proof (Hle i ltac:(lia)). lia.
    - lia.
    - lia.
    - lia.
    - exact Hmv.
    - lia.
    - lia.
    - unfold tlong_find. rewrite Hr. destruct r as [p|].
      + destruct Hspec as [Hp Hk]. rewrite lkey_is_word in Hk by lia.
        eexists. split; [reflexivity|]. fold tb.
        split; [lia|]. split; [exact Hk|].
        rewrite ReadFloat31_as_int by (unfold tb, l_tb; nia).
        destruct (lcells_nth recs 0 p ltac:(lia)) as [_ I2]. cbn zeta in I2. rewrite Z.add_0_l in I2.
        pose proof (lread_cell _ I2) as H. cbn [fst snd f_off f_len hp] in H. rewrite H. reflexivity.
      + eexists. split; [reflexivity|]. intros i Hi. rewrite <- lkey_is_word by lia. apply Hspec. lia.
  Qed.
End TLong.

(* ---- 3. one middle array, ArrayBhiksha ------------------------------------------------------------------------------------------------ *)
Definition lowr (b : Z) (r : rec pb) : rec pb := {| r_word := r_word _ r; r_val := r_val _ r; r_next := low b (r_next _ r) |}.

Lemma tmidA_inserts_split : forall m recs mem offs i,
  tmidA_inserts m (mem, offs) i recs = (tmid_inserts m mem i (map (lowr (t_nb m)) recs), offs_run (t_nb m) offs i (map (r_next pb) recs)).
Proof.
  intros m. induction recs as [|r rest IH]; intros mem offs i; [reflexivity|].
  cbn [tmidA_inserts tmidA_insert map tmid_inserts]. rewrite IH, offs_run_cons. reflexivity.
Qed.

Section TMidA.
  Variable m : tmid.
  Hypothesis Hbase : 0 <= t_base m.
  Hypothesis Hwb : 0 <= t_wb m <= 57.
  Hypothesis Hnb : 0 <= t_nb m <= 57.
  Let tb := t_tb m.
  Let b := t_nb m.

  Variable recs : list (rec pb).
  Variable next_end : Z.
  Variable mem0 : Z.
  Let n := Z.of_nat (length recs).
  Let nexts := map (r_next pb) recs ++ [next_end].
  Hypothesis Hvals : Forall (fun r => 0 <= r_word _ r < 2 ^ t_wb m /\ 0 <= fst (r_val _ r) < 2 ^ 32 /\ 0 <= snd (r_val _ r) < 2 ^ 32) recs.
  Hypothesis Hsorted : sorted nexts.
  Hypothesis Hnonneg : nonneg nexts.
  Hypothesis Hzero : forall i, 8 * t_base m <= i < 8 * t_base m + (n + 1) * tb -> Z.testbit mem0 i = false.

  Definition tstA : Z * list Z := tmidA_finish m (tmidA_inserts m (mem0, []) 0 recs) n next_end.
  Let lrecs := map (lowr b) recs.

  Lemma tlow_range : forall v, 0 <= low b v < 2 ^ b.
  Proof. intros v. unfold low. rewrite Z.land_ones by (unfold b; lia). apply Z.mod_pos_bound. apply Z.pow_pos_nonneg; unfold b; lia. Qed.

  Lemma tlrecs_ok : Forall (trec_ok m) lrecs.
  Proof.
    unfold lrecs. apply Forall_forall. intros r Hr. apply in_map_iff in Hr. destruct Hr as [r0 [<- Hin]].
    rewrite Forall_forall in Hvals. destruct (Hvals r0 Hin) as [W1 [W2 W3]].
    unfold trec_ok, lowr. cbn [r_word r_val r_next]. split; [exact W1|split; [exact W2|split; [exact W3|apply tlow_range]]].
  Qed.

  Lemma tlrecs_len : Z.of_nat (length lrecs) = n.
  Proof. unfold lrecs, n. rewrite map_length. reflexivity. Qed.

  Lemma tstA_split : tstA = (tmem' m lrecs (low b next_end) mem0, fst (bhiksha_write b nexts)).
  Proof.
    unfold tstA. rewrite tmidA_inserts_split. unfold tmidA_finish. fold b. unfold tmem'. fold lrecs. rewrite tlrecs_len.
    f_equal.
    unfold bhiksha_write, nexts.
    pose proof (waf_offs (map (r_next pb) recs ++ [next_end]) b [] [] 0) as Hw.
    destruct (write_all_from b ([], []) 0 (map (r_next pb) recs ++ [next_end])) as [o i]. cbn [fst] in *. subst o.
    rewrite offs_run_app. rewrite map_length. fold n. rewrite Z.add_0_l. rewrite offs_run_one. reflexivity.
  Qed.

  Definition tnextA (k : Z) : Z := nth (Z.to_nat k) nexts 0.

  Lemma tnexts_len : length nexts = S (length recs).
  Proof. unfold nexts. rewrite app_length, map_length. cbn [length]. lia. Qed.

  Lemma lowr_dflt : lowr b dflt = dflt.
  Proof. unfold lowr, dflt, low. cbn [r_word r_val r_next]. rewrite Z.land_0_l. reflexivity. Qed.

  Lemma tlrecs_next : forall k, 0 <= k <= n -> tnext_of lrecs (low b next_end) k = low b (tnextA k).
  Proof.
    intros k Hk. unfold tnext_of, tnextA, nexts. rewrite tlrecs_len.
    destruct (Z.ltb_spec k n) as [Hlt|Hge].
    - rewrite app_nth1 by (rewrite map_length; unfold n in Hlt; lia).
      unfold lrecs. rewrite <- lowr_dflt at 1. rewrite map_nth. unfold lowr. cbn [r_next]. f_equal.
      symmetry. exact (map_nth (r_next pb) recs dflt (Z.to_nat k)).
    - assert (Ek : Z.to_nat k = length (map (r_next pb) recs)) by (rewrite map_length; unfold n in *; lia).
      rewrite Ek, nth_middle. reflexivity.
  Qed.

  Lemma tinls_are_low :
    map (fun k => ReadInt57 (fst tstA) (t_base m) (Z.of_nat k * t_tb m + t_wb m + 63) (t_nb m) (Z.ones (t_nb m))) (seq 0 (length nexts))
    = map (low b) nexts.
  Proof.
    rewrite tstA_split. cbn [fst].
    set (G := fun k : nat => ReadInt57 (tmem' m lrecs (low b next_end) mem0) (t_base m) (Z.of_nat k * t_tb m + t_wb m + 63) (t_nb m) (Z.ones (t_nb m))).
    apply nth_ext with (d := G 0%nat) (d' := low b 0); [rewrite !map_length, seq_length; reflexivity|].
    intros k Hk. rewrite map_length, seq_length in Hk.
    rewrite !map_nth. rewrite seq_nth by exact Hk. cbn [plus]. unfold G.
    rewrite tnexts_len in Hk.
    pose proof (tnext_read m Hbase Hwb Hnb lrecs (low b next_end) mem0 tlrecs_ok (tlow_range next_end)) as Hread.
    rewrite tlrecs_len in Hread. specialize (Hread Hzero (Z.of_nat k) ltac:(unfold n; lia)).
    rewrite Hread. rewrite tlrecs_next by (unfold n; lia).
    unfold tnextA. rewrite Nat2Z.id. reflexivity.
  Qed.

  Theorem tmidA_refines : forall fuel word lo hi, 0 <= lo -> lo <= hi -> hi <= n -> t_max_vocab m < 2 ^ 32 ->
    (forall i j, lo <= i -> i <= j -> j < hi -> tword_of recs i <= tword_of recs j) ->
    (forall i, lo <= i < hi -> tword_of recs i <= t_max_vocab m) -> 0 <= word <= t_max_vocab m -> hi - lo <= 2 ^ 32 ->
    (Z.of_nat fuel >= Z.max 1 (hi - lo + 1)) ->
    exists res, tmidA_find m fuel tstA word lo hi = Some res /\
      match res with
      | Some (p, prob, bo, cb, ce) => lo <= p < hi /\ tword_of recs p = word /\ prob = sign_on (tprob_of recs p mod 2 ^ 31) /\
                                      bo = tbo_of recs p /\ cb = tnextA p /\ ce = tnextA (p + 1)
      | None => forall i, lo <= i < hi -> tword_of recs i <> word
      end.
  Proof.
    intros fuel word lo hi Hlo Hlh Hhn Hmv Hsw Hle Hword Hwidth Hfuel.
    assert (Ew : forall k, tword_of lrecs k = tword_of recs k).
    { intros k. unfold tword_of, lrecs. rewrite <- lowr_dflt at 1. rewrite map_nth. reflexivity. }
    assert (Ep : forall k, tprob_of lrecs k = tprob_of recs k).
    { intros k. unfold tprob_of, lrecs. rewrite <- lowr_dflt at 1. rewrite map_nth. reflexivity. }
    assert (Eb : forall k, tbo_of lrecs k = tbo_of recs k).
    { intros k. unfold tbo_of, lrecs. rewrite <- lowr_dflt at 1. rewrite map_nth. reflexivity. }
    pose proof (tmid_refines m Hbase Hwb Hnb lrecs (low b next_end) mem0 tlrecs_ok (tlow_range next_end)) as Href.
    rewrite tlrecs_len in Href. specialize (Href Hzero fuel word lo hi Hlo Hlh Hhn Hmv).
    destruct Href as [res [Hfind Hres]]; try assumption.
    - intros i j Hi Hij Hj. rewrite !Ew. apply Hsw; assumption.
    - intros i Hi. rewrite Ew. apply Hle. exact Hi.
    - unfold tmidA_find. rewrite tstA_split. rewrite Hfind. destruct res as [[[[[p prob] bo] cb0] ce0]|].
      + destruct Hres as [Hp [Hwp [Hpr [Hbo [Hcb Hce]]]]].
        rewrite Hcb, Hce, !tlrecs_next by lia.
        pose proof (f_equal snd (write_spec b ltac:(unfold b; lia) nexts Hsorted Hnonneg)) as Hws. cbn [snd] in Hws.
        pose proof (read_after_write b ltac:(unfold b; lia) nexts p Hsorted Hnonneg ltac:(lia) ltac:(rewrite tnexts_len; unfold n in *; lia)) as Hraw.
        rewrite read_next_as_2, Hws in Hraw. unfold tnextA in *.
        change 0 with (low b 0) in Hraw at 1 2. rewrite !map_nth in Hraw.
        cbn [fst]. fold b. rewrite Hraw.
        eexists. split; [reflexivity|]. rewrite Ew in Hwp. rewrite Ep in Hpr. rewrite Eb in Hbo.
        split; [exact Hp|]. split; [exact Hwp|]. split; [exact Hpr|]. split; [exact Hbo|]. split; reflexivity.
      + eexists. split; [reflexivity|]. intros i Hi. rewrite <- Ew. apply Hres. exact Hi.
  Qed.
End TMidA.
