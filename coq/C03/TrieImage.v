(* C03/TrieImage.v -- from the abstract trie table of LM/Load.v (load_trie) to the bytes of the search structure of a `trie` /
   `trie -a` binary file (no proofs here): entries -> float32 bit patterns, keys -> forest (TrieLayout.of_table), forest -> level
   lists (TrieLayout.flat), level lists -> memory and bytes (TrieMem).  Scores are multiples of 1/64 (LM/Defs.v). *)
From Coq Require Import ZArith List Bool Arith NArith.
From Kenlm Require Import LM.Defs C03.TrieLayout C03.TrieMem.
Import ListNotations.
Local Open Scope Z_scope.

(* IEEE-754 single bit pattern of z/64, exact for |z| < 2^24 (0 -> +0.0) *)
Definition f32_of_units (z : Z) : Z :=
  if z =? 0 then 0
  else
    let s := if z <? 0 then 2147483648 else 0 in
    let m := Z.abs z in
    let e := Z.log2 m in
    let mant := if e <=? 23 then Z.shiftl m (23 - e) - 8388608 else Z.shiftr m (e - 23) - 8388608 in
    s + Z.shiftl (e - 6 + 127) 23 + mant.

(* what the arrays hold for an entry: prob as read from the text (a zero keeps the sign of the text: `pz` = it was "+0"),
   backoff = the value, or for a zero backoff the extension marker: +0.0 = has an extension, -0.0 = none *)
Definition entry_pb (pz : bool) (e : entry) : pb :=
  (if e_prob e =? 0 then (if pz then 0 else 2147483648) else f32_of_units (e_prob e),
   if e_bo e =? 0 then (if e_ext e then 0 else 2147483648) else f32_of_units (e_bo e)).

Definition zkey (k : key) : list Z := map Z.of_N k.

Definition trie_forest (t : atable) (plus_zero : list key) : forest pb :=
  of_table pb (0, 0) (map (fun ke => (zkey (fst ke), entry_pb (existsb (key_eqb (fst ke)) plus_zero) (snd ke))) t).

Definition trie_levels (N_order : nat) (t : atable) (plus_zero : list key) : levels pb :=
  flat pb 0 (trie_forest t plus_zero) (repeat [] N_order).

Definition trie_mem (array : bool) (cfg : Z) (N_order : nat) (t : atable) (plus_zero : list key) : triemem :=
  mk_trie array cfg (trie_levels N_order t plus_zero).

Definition trie_image (array : bool) (cfg : Z) (N_order : nat) (t : atable) (plus_zero : list key) : list Z :=
  trie_bytes array cfg (trie_mem array cfg N_order t plus_zero).

(* executable self-check of the glue (the theorems are about forests): the walk over the memory finds every entry of the table
   with its payload, and the child range is empty exactly when the entry does not extend left *)
Definition trie_walk_check (array : bool) (cfg : Z) (N_order : nat) (t : atable) (plus_zero : list key) : bool :=
  let tm := trie_mem array cfg N_order t plus_zero in
  forallb (fun ke =>
    match twalk array tm (zkey (fst ke)) with
    | Some (Some (v, lo, hi)) =>
        let want := entry_pb (existsb (key_eqb (fst ke)) plus_zero) (snd ke) in
        andb (andb (Z.land (fst v) 2147483647 =? Z.land (fst want) 2147483647)
                   (orb (Nat.eqb (length (fst ke)) N_order) (snd v =? snd want)))
             (orb (Nat.eqb (length (fst ke)) N_order) (Bool.eqb (lo <? hi) (e_left (snd ke))))
    | _ => false
    end) t.
