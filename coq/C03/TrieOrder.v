(* C03/TrieOrder.v -- the depth-first build visits the n-grams in the order of the sorted files: the pre-order of a forest whose sibling
   chains are strictly increasing lists the keys in strictly increasing lexicographic order, a key before its extensions
   (the order of RecursiveInsert's priority queue over files sorted by lm/trie_sort.cc: `Gram::operator<` = lexicographical_compare). *)
From Coq Require Import ZArith Lia Bool List Sorted.
From Kenlm Require Import C03.TrieLayout C03.TrieTableProofs.
Import ListNotations.
Local Open Scope Z_scope.

(* std::lexicographical_compare on word sequences: a proper prefix is smaller *)
Fixpoint klt (a b : list Z) : Prop :=
  match a, b with
  | [], [] => False
  | [], _ :: _ => True
  | _ :: _, [] => False
  | x :: a', y :: b' => x < y \/ (x = y /\ klt a' b')
  end.

Lemma klt_app : forall p a b, klt (p ++ a) (p ++ b) <-> klt a b.
Proof.
  induction p as [|x p IH]; intros a b; [tauto|]. cbn [app klt]. rewrite IH. split; [intros [H|[_ H]]; [lia|exact H]|intros H; right; split; [reflexivity|exact H]].
Qed.

Lemma klt_trans : forall a b c, klt a b -> klt b c -> klt a c.
Proof.
  induction a as [|x a IH]; intros b c Hab Hbc.
  - destruct b as [|y b]; [destruct Hab|]. destruct c as [|z c]; [destruct Hbc|exact I].
  - destruct b as [|y b]; [destruct Hab|]. destruct c as [|z c]; [destruct Hbc|]. cbn [klt] in *.
    destruct Hab as [H1|[E1 H1]]; destruct Hbc as [H2|[E2 H2]]; try (left; lia). right. split; [lia|apply (IH b c); assumption].
Qed.

Section Order.
  Variable V : Type.

  (* every key of the pre-order of f under `prefix` is prefix ++ w :: rest with w above the bound *)
  Lemma preorder_shape : forall (f : forest V) prefix lb kv, sorted_from V lb f -> In kv (preorder V prefix f) ->
    exists w rest, fst kv = prefix ++ w :: rest /\ lb < w.
  Proof.
    induction f as [|w v c IHc s IHs]; intros prefix lb kv Hs Hin; [destruct Hin|].
    cbn [sorted_from] in Hs. destruct Hs as [Hlb [Sc Ss]]. cbn [preorder In] in Hin.
    destruct Hin as [<-|Hin].
    - exists w, []. split; [reflexivity|exact Hlb].
    - apply in_app_or in Hin. destruct Hin as [Hin|Hin].
      + destruct (IHc (prefix ++ [w]) (-1) kv Sc Hin) as [w' [rest [E _]]].
        exists w, (w' :: rest). split; [rewrite E, <- app_assoc; reflexivity|exact Hlb].
      + destruct (IHs prefix w kv Ss Hin) as [w' [rest [E Hw']]]. exists w', rest. split; [exact E|lia].
  Qed.

  Theorem preorder_sorted : forall (f : forest V) prefix lb, sorted_from V lb f ->
    StronglySorted klt (map fst (preorder V prefix f)).
  Proof.
    induction f as [|w v c IHc s IHs]; intros prefix lb Hs; [constructor|].
    cbn [sorted_from] in Hs. destruct Hs as [Hlb [Sc Ss]].
    cbn [preorder map fst]. rewrite map_app.
    constructor.
    - (* the tail: children then later siblings *)
      assert (G : forall (l1 l2 : list (list Z)), StronglySorted klt l1 -> StronglySorted klt l2 ->
                  (forall a b, In a l1 -> In b l2 -> klt a b) -> StronglySorted klt (l1 ++ l2)).
      { induction l1 as [|x l1 IH1]; intros l2 S1 S2 H; [exact S2|].
        inversion S1 as [|? ? S1' F1]. subst. cbn [app]. constructor.
        - apply IH1; [exact S1'|exact S2|]. intros a b Ha Hb. apply H; [right; exact Ha|exact Hb].
        - apply Forall_app. split; [exact F1|]. apply Forall_forall. intros b Hb. apply H; [left; reflexivity|exact Hb]. }
      apply G; [apply (IHc (prefix ++ [w]) (-1) Sc)|apply (IHs prefix w Ss)|].
      intros a b Ha Hb. apply in_map_iff in Ha. destruct Ha as [kva [<- Ha]]. apply in_map_iff in Hb. destruct Hb as [kvb [<- Hb]].
      destruct (preorder_shape c (prefix ++ [w]) (-1) kva Sc Ha) as [wa [ra [Ea _]]].
      destruct (preorder_shape s prefix w kvb Ss Hb) as [wb [rb [Eb Hwb]]].
      rewrite Ea, Eb, <- app_assoc. apply klt_app. cbn [app klt]. left. exact Hwb.
    - (* the node itself is below everything that follows *)
      apply Forall_app. split; apply Forall_forall; intros k Hk; apply in_map_iff in Hk; destruct Hk as [kv [<- Hk]].
      + destruct (preorder_shape c (prefix ++ [w]) (-1) kv Sc Hk) as [w' [rest [E _]]]. rewrite E.
        rewrite <- (app_nil_r (prefix ++ [w])) at 1. apply klt_app. exact I.
      + destruct (preorder_shape s prefix w kv Ss Hk) as [w' [rest [E Hw']]]. rewrite E. apply klt_app. cbn [klt]. left. exact Hw'.
  Qed.
End Order.

(* with C03_trie_visit_is_build: the arrays are what one gets by visiting the keys of the table in increasing lexicographic order *)
Theorem table_preorder_sorted : forall (V : Type) (dv : V) (t : list (list Z * V)), table_ok V t ->
  StronglySorted klt (map fst (preorder V [] (of_table V dv t))).
Proof.
  intros V dv t Hok. destruct (lookup_of_table V dv t Hok) as [Hs _]. apply (preorder_sorted V (of_table V dv t) [] (-1) Hs).
Qed.
