(* C03/QuantModel.v -- executable model of lm/quantize.cc (MakeBins) and of SeparatelyQuantize::Bins (Encode / EncodeProb /
   EncodeBackoff / Decode) over exact rationals.  No proofs here.
   A centre is `None` for minus infinity (an empty first bin).  Values are whatever the trainer is given (the loaders pass
   the probabilities / non-zero back-offs of one order). *)
From Coq Require Import QArith List ZArith Bool Arith.
Import ListNotations.

Definition qle (a b : Q) : bool := Qle_bool a b.
Definition qlt (a b : Q) : bool := negb (Qle_bool b a).

Fixpoint insert (x : Q) (l : list Q) : list Q :=
  match l with
  | [] => [x]
  | y :: r => if qle x y then x :: l else y :: insert x r
  end.
Definition sortq (l : list Q) : list Q := fold_right insert [] l.
Definition sumq (l : list Q) : Q := fold_right Qplus 0 l.

(* MakeBins: equal-POPULATION bins over the sorted values; bin i covers positions [n*i/bins, n*(i+1)/bins) *)
Fixpoint make_bins_from (vals : list Q) (n bins : nat) (i k : nat) (start : nat) (prev : option Q) : list (option Q) :=
  match k with
  | O => []
  | S k' =>
      let finish := (n * (S i) / bins)%nat in
      let c := if Nat.eqb finish start then (if Nat.eqb i 0 then None else prev)
               else Some (Qred (sumq (firstn (finish - start) (skipn start vals)) / inject_Z (Z.of_nat (finish - start)))) in
      c :: make_bins_from vals n bins (S i) k' finish c
  end.
Definition make_bins (values : list Q) (bins : nat) : list (option Q) :=
  let vals := sortq values in
  make_bins_from vals (length vals) bins 0 bins 0 None.

(* comparisons with minus infinity *)
Definition c_lt_x (c : option Q) (x : Q) : bool := match c with None => true | Some q => qlt q x end.

(* std::lower_bound over centres[reserved..): first position whose centre is not below x *)
Fixpoint lower_bound (cs : list (option Q)) (x : Q) (pos : nat) : nat :=
  match cs with
  | [] => pos
  | c :: r => if c_lt_x c x then lower_bound r x (S pos) else pos
  end.

(* Bins::Encode(value, reserved) *)
Definition encode (centers : list (option Q)) (reserved : nat) (x : Q) : nat :=
  let above := lower_bound (skipn reserved centers) x reserved in
  if Nat.eqb above reserved then reserved
  else if Nat.eqb above (length centers) then (length centers - 1)%nat
  else
    let lo := nth (above - 1) centers None in
    let hi := nth above centers None in
    (* value - *(above-1) < *above - value ; a centre of minus infinity is infinitely far away *)
    let closer_to_lo := match lo, hi with
                        | Some l, Some h => qlt (x - l) (h - x)
                        | _, _ => false
                        end in
    (above - (if closer_to_lo then 1 else 0))%nat.

Definition decode (centers : list (option Q)) (i : nat) : option Q := nth i centers None.

(* the probability table of one order: 2^bits equal-population bins *)
Definition train_prob (bits : nat) (probs : list Q) : list (option Q) := make_bins probs (2 ^ bits).
Definition encode_prob (table : list (option Q)) (x : Q) : nat := encode table 0 x.

(* the back-off table: entries 0 and 1 are the two zeros (no extension / extension), then 2^bits - 2 bins over the
   non-zero back-offs.  EncodeBackoff of a non-zero value = Encode(value, 2); the result is stored in `bits` bits. *)
Definition train_backoff (bits : nat) (backoffs : list Q) : list (option Q) :=
  Some 0 :: Some 0 :: make_bins backoffs (2 ^ bits - 2).
Definition encode_backoff_nonzero (table : list (option Q)) (x : Q) : nat := encode table 2 x.
Definition stored (bits : nat) (code : nat) : nat := (code mod 2 ^ bits)%nat.
