From Coq Require Import ZArith List Extraction ExtrOcamlBasic.
From Kenlm Require Import C03.BhikshaModel.
Extraction Language OCaml.
Extraction "extracted/c03_model.ml" bhiksha_write read_next chop_bits inline_bits array_count.
