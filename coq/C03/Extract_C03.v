From Coq Require Import ZArith List Extraction ExtrOcamlBasic.
From Kenlm Require Import C03.BhikshaModel C03.QuantModel.
Extraction Language OCaml.
Extraction "extracted/c03_model.ml" bhiksha_write read_next chop_bits inline_bits array_count
  train_prob train_backoff encode_prob encode_backoff_nonzero decode stored.
