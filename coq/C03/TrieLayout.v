(* C03/TrieLayout.v -- executable model of how lm/search_trie.cc lays a set of n-grams out as a trie (no proofs here).
   The n-grams (words newest first, as the trie stores them) are visited in lexicographic order with a prefix before its
   extensions (RecursiveInsert's priority queue over the sorted files, blanks inserted by BlankManager) -- the pre-order of
   the trie of the key set.  Visiting an n-gram of order j appends one record to array j (Unigram / BitPackedMiddle /
   BitPackedLongest ::Insert): its last word, its payload, and as "next" pointer the current insert index of array j+1
   (WriteEntries::Unigram, BitPackedMiddle::Insert: next_source_->InsertIndex()).  FinishedLoading closes every array with
   the final insert index of the array below.  A lookup (TrieSearch::LookupUnigram / LookupMiddle / LookupLongest) indexes
   array 1 by the word and then searches, level by level, the sibling range [next_p, next_{p+1}) for the following word.

   forest  = first-child / next-sibling representation of the trie of the key set
   flat    = the depth-first build (what the code does);  build/visit = the same from the pre-order key list
   walk    = the lookup over the arrays;  lookup = the lookup in the forest (the specification)
   finsert = insertion of a key into the forest keeping siblings sorted (how the model obtains the forest of a table) *)
From Coq Require Import List ZArith Bool Arith.
Import ListNotations.
Local Open Scope Z_scope.

Section Layout.
  Variable V : Type.

  Inductive forest := FNil | FCons (w : Z) (v : V) (children siblings : forest).

  Fixpoint flen (f : forest) : Z := match f with FNil => 0 | FCons _ _ _ s => 1 + flen s end.
  Fixpoint depth (f : forest) : nat := match f with FNil => O | FCons _ _ c s => Nat.max (S (depth c)) (depth s) end.

  Record rec := { r_word : Z; r_val : V; r_next : Z }.
  Definition levels := list (list rec).

  Fixpoint push (i : nat) (r : rec) (ls : levels) : levels :=
    match ls with
    | [] => []
    | l :: rest => match i with O => (l ++ [r]) :: rest | S i' => l :: push i' r rest end
    end.
  Definition level_len (ls : levels) (i : nat) : Z := Z.of_nat (length (nth i ls [])).

  (* the depth-first build: a node, then its children (one level down), then its later siblings *)
  Fixpoint flat (d : nat) (f : forest) (ls : levels) : levels :=
    match f with
    | FNil => ls
    | FCons w v c s => flat d s (flat (S d) c (push d {| r_word := w; r_val := v; r_next := level_len ls (S d) |} ls))
    end.

  (* the same from the list of keys in visiting order *)
  Fixpoint preorder (prefix : list Z) (f : forest) : list (list Z * V) :=
    match f with
    | FNil => []
    | FCons w v c s => (prefix ++ [w], v) :: preorder (prefix ++ [w]) c ++ preorder prefix s
    end.
  Definition visit (ls : levels) (kv : list Z * V) : levels :=
    let j := length (fst kv) in
    push (j - 1) {| r_word := last (fst kv) 0; r_val := snd kv; r_next := level_len ls j |} ls.
  Definition build (n : nat) (kvs : list (list Z * V)) : levels := fold_left visit kvs (repeat [] n).

  (* ---- lookup over the arrays ------------------------------------------------------------------------------------- *)
  (* the next pointer of record p of array i; past the last record: the closing value FinishedLoading wrote *)
  Definition next_at (ls : levels) (i : nat) (p : Z) : Z :=
    match nth_error (nth i ls []) (Z.to_nat p) with Some r => r_next r | None => level_len ls (S i) end.

  (* specification of the search of a sibling range: the first position in [lo, lo+cnt) holding the word *)
  Fixpoint find_word (l : list rec) (w : Z) (lo : Z) (cnt : nat) : option Z :=
    match cnt with
    | O => None
    | S c => match nth_error l (Z.to_nat lo) with
             | Some r => if r_word r =? w then Some lo else find_word l w (lo + 1) c
             | None => None
             end
    end.

  Fixpoint walk_from (ls : levels) (i : nat) (lo hi : Z) (ws : list Z) (cur : V) : option (V * Z * Z) :=
    match ws with
    | [] => Some (cur, lo, hi)
    | w :: ws' =>
        match find_word (nth i ls []) w lo (Z.to_nat (hi - lo)) with
        | None => None
        | Some p => match nth_error (nth i ls []) (Z.to_nat p) with
                    | Some r => walk_from ls (S i) (r_next r) (next_at ls i (p + 1)) ws' (r_val r)
                    | None => None
                    end
        end
    end.

  (* Some (payload, child range) of the n-gram; the range is empty iff nothing extends it (independent_left) *)
  Definition walk (ls : levels) (k : list Z) : option (V * Z * Z) :=
    match k with
    | [] => None
    | w :: ws =>
        if 0 <=? w then
          match nth_error (nth 0 ls []) (Z.to_nat w) with
          | Some r => walk_from ls 1 (r_next r) (next_at ls 0 (w + 1)) ws (r_val r)
          | None => None
          end
        else None
    end.

  (* ---- the specification: lookup in the forest -------------------------------------------------------------------- *)
  Fixpoint find_sib (f : forest) (w : Z) : option (V * forest) :=
    match f with
    | FNil => None
    | FCons w' v c s => if w' =? w then Some (v, c) else find_sib s w
    end.
  Fixpoint lookup (f : forest) (k : list Z) : option (V * forest) :=
    match k with
    | [] => None
    | w :: ws => match find_sib f w with
                 | None => None
                 | Some (v, c) => match ws with [] => Some (v, c) | _ :: _ => lookup c ws end
                 end
    end.

  (* unigrams are indexed by word id: the i-th top-level node holds word i *)
  Fixpoint dense_from (i : Z) (f : forest) : Prop :=
    match f with FNil => True | FCons w _ _ s => w = i /\ dense_from (i + 1) s end.

  (* ---- from a table to its forest ---------------------------------------------------------------------------------- *)
  Variable dv : V.   (* payload of a node created for a prefix that has not been inserted (yet) *)

  Fixpoint finsert (k : list Z) (v : V) : forest -> forest :=
    match k with
    | [] => fun f => f
    | w :: ks =>
        fix go (f : forest) : forest :=
          match f with
          | FNil => FCons w (match ks with [] => v | _ :: _ => dv end) (finsert ks v FNil) FNil
          | FCons w' v' c s =>
              if w <? w' then FCons w (match ks with [] => v | _ :: _ => dv end) (finsert ks v FNil) f
              else if w =? w' then FCons w' (match ks with [] => v | _ :: _ => v' end) (finsert ks v c) s
              else FCons w' v' c (go s)
          end
    end.
  Definition of_table (t : list (list Z * V)) : forest := fold_left (fun f kv => finsert (fst kv) (snd kv) f) t FNil.
End Layout.

Arguments FNil {V}.
Arguments FCons {V}.
