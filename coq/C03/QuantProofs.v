(* C03/QuantProofs.v -- facts about the quantiser model (C03/QuantModel.v): the code written for a value is in range and is
   the index of a nearest centre; the claim "lossless when an order has no more distinct values than bins" is refuted
   (finding F5: the bins are equal-POPULATION bins), and so is "a non-zero back-off keeps its extension" for backoff_bits = 1
   (finding F6: no value bins are left). *)
From Coq Require Import QArith Qabs List ZArith Bool Arith Lia Lqa.
From Kenlm Require Import C03.QuantModel.
Import ListNotations.

Lemma qlt_true : forall a b, qlt a b = true <-> a < b.
Proof.
  intros a b. unfold qlt. rewrite negb_true_iff. split.
  - intros H. apply Qnot_le_lt. intros Hle. apply Qle_bool_iff in Hle. congruence.
  - intros H. destruct (Qle_bool b a) eqn:E; [|reflexivity]. apply Qle_bool_iff in E. exfalso. apply (Qlt_not_le _ _ H E).
Qed.
Lemma qlt_false : forall a b, qlt a b = false <-> b <= a.
Proof.
  intros a b. unfold qlt. rewrite negb_false_iff. apply Qle_bool_iff.
Qed.

(* lower_bound: everything before the answer is below x, the answer (if any) is not *)
Lemma lower_bound_spec : forall cs x pos,
  let a := lower_bound cs x pos in
  (pos <= a <= pos + length cs)%nat /\
  (forall j, (j < a - pos)%nat -> c_lt_x (nth j cs None) x = true) /\
  ((a - pos < length cs)%nat -> c_lt_x (nth (a - pos) cs None) x = false).
Proof.
  induction cs as [|c r IH]; intros x pos; cbn [lower_bound length].
  - split; [lia|]. split; [intros j Hj; lia|intros H; lia].
  - destruct (c_lt_x c x) eqn:E.
    + destruct (IH x (S pos)) as [H1 [H2 H3]]. split; [lia|]. split.
      * intros j Hj. destruct j; [exact E|]. cbn [nth]. apply H2. lia.
      * intros H. replace (lower_bound r x (S pos) - pos)%nat with (S (lower_bound r x (S pos) - S pos)) by lia. cbn [nth]. apply H3. lia.
    + split; [lia|]. split; [intros j Hj; lia|]. intros _. rewrite Nat.sub_diag. exact E.
Qed.

Theorem encode_in_range : forall centers reserved x, (reserved < length centers)%nat ->
  (reserved <= encode centers reserved x < length centers)%nat.
Proof.
  intros centers reserved x H. unfold encode.
  destruct (lower_bound_spec (skipn reserved centers) x reserved) as [H1 _]. rewrite skipn_length in H1.
  set (a := lower_bound (skipn reserved centers) x reserved) in *.
  destruct (Nat.eqb_spec a reserved); [lia|]. destruct (Nat.eqb_spec a (length centers)); [lia|].
  destruct (match nth (a - 1) centers None with Some l => match nth a centers None with Some h => qlt (x - l) (h - x) | None => false end | None => false end); lia.
Qed.

(* ---- refutations (kernel-checked witnesses) ----------------------------------------------------------------------- *)
Definition distinct_count (l : list Q) : nat :=
  length (fold_right (fun x acc => if existsb (fun y => Qeq_bool x y) acc then acc else x :: acc) [] l).

(* F5: bigram probabilities {-2, -1, -1, -1}, prob_bits = 1 (two bins, two distinct values): -2 is stored as -3/2 *)
Theorem quant_lossless_refuted :
  exists (probs : list Q) (bits : nat) (v : Q),
    In v probs /\ (distinct_count probs <= 2 ^ bits)%nat /\
    decode (train_prob bits probs) (encode_prob (train_prob bits probs) v) = Some (-3 # 2) /\ ~ (-3 # 2 == v).
Proof.
  exists [-2 # 1; -1 # 1; -1 # 1; -1 # 1], 1%nat, (-2 # 1).
  split; [left; reflexivity|]. split; [vm_compute; lia|]. split; [vm_compute; reflexivity|]. intros H. vm_compute in H. discriminate.
Qed.

(* F6: backoff_bits = 1 leaves 2^1 - 2 = 0 value bins: a non-zero back-off is encoded as 2, which stored in one bit is 0,
   the code of "zero back-off, no extension" *)
Theorem quant_backoff_bits1_refuted :
  exists (backoffs : list Q) (b : Q), In b backoffs /\ ~ (b == 0) /\
    encode_backoff_nonzero (train_backoff 1 backoffs) b = 2%nat /\ stored 1 2 = 0%nat.
Proof.
  exists [-1 # 2], (-1 # 2). split; [left; reflexivity|]. split; [intros H; vm_compute in H; discriminate|].
  split; vm_compute; reflexivity.
Qed.

(* sanity: with room for every value (one value per bin) the example IS lossless -- the model is not trivially lossy *)
Example quant_one_per_bin :
  let probs := [-2 # 1; -1 # 1] in
  decode (train_prob 1 probs) (encode_prob (train_prob 1 probs) (-2 # 1)) = Some (-2 # 1) /\
  decode (train_prob 1 probs) (encode_prob (train_prob 1 probs) (-1 # 1)) = Some (-1 # 1).
Proof. vm_compute. split; reflexivity. Qed.

(* ---- the code written for a value is the index of a nearest centre (centres sorted, as MakeBins produces them) ------- *)
Lemma dist_left : forall x a, a <= x -> Qabs (x - a) == x - a.
Proof. intros x a H. apply Qabs_pos. lra. Qed.
Lemma dist_right : forall x a, x <= a -> Qabs (x - a) == a - x.
Proof. intros x a H. rewrite Qabs_neg by lra. ring. Qed.

Lemma nth_skipn_q : forall (A : Type) (l : list A) k i d, nth i (skipn k l) d = nth (k + i) l d.
Proof. intros A l k. revert l. induction k as [|k IH]; intros l i d; [reflexivity|]. destruct l; [destruct i; reflexivity|]. cbn [skipn Nat.add nth]. apply IH. Qed.

Definition sorted_q (qs : list Q) : Prop := forall i j, (i <= j < length qs)%nat -> nth i qs 0 <= nth j qs 0.

Lemma nth_map_some : forall (qs : list Q) i, (i < length qs)%nat -> nth i (map Some qs) None = Some (nth i qs 0).
Proof. intros qs i H. rewrite (nth_indep _ None (Some 0)) by (rewrite map_length; exact H). apply (map_nth Some qs 0 i). Qed.

Theorem encode_nearest : forall qs reserved x, sorted_q qs -> (reserved < length qs)%nat ->
  forall j, (reserved <= j < length qs)%nat ->
  Qabs (x - nth (encode (map Some qs) reserved x) qs 0) <= Qabs (x - nth j qs 0).
Proof.
  intros qs reserved x Hs Hr j Hj. unfold encode. rewrite map_length.
  destruct (lower_bound_spec (skipn reserved (map Some qs)) x reserved) as [H1 [H2 H3]].
  rewrite skipn_length, map_length in H1, H3.
  set (a := lower_bound (skipn reserved (map Some qs)) x reserved) in *.
  assert (Hnth : forall k, (reserved + k < length qs)%nat -> nth k (skipn reserved (map Some qs)) None = Some (nth (reserved + k) qs 0)).
  { intros k Hk. rewrite nth_skipn_q. apply nth_map_some. exact Hk. }
  assert (Fbelow : forall k, (reserved <= k < a)%nat -> nth k qs 0 < x).
  { intros k Hk. specialize (H2 (k - reserved)%nat ltac:(lia)). rewrite Hnth in H2 by lia.
    replace (reserved + (k - reserved))%nat with k in H2 by lia. cbn [c_lt_x] in H2. apply qlt_true. exact H2. }
  assert (Fabove : (a < length qs)%nat -> forall k, (a <= k < length qs)%nat -> x <= nth k qs 0).
  { intros Ha k Hk. specialize (H3 ltac:(lia)). rewrite Hnth in H3 by lia.
    replace (reserved + (a - reserved))%nat with a in H3 by lia. cbn [c_lt_x] in H3. apply qlt_false in H3.
    apply (Qle_trans _ (nth a qs 0)); [exact H3|apply Hs; lia]. }
  destruct (Nat.eqb_spec a reserved) as [Ea|Ea].
  - (* everything from `reserved` on is at or above x *)
    pose proof (Fabove ltac:(lia) reserved ltac:(lia)) as Hx0. pose proof (Fabove ltac:(lia) j ltac:(lia)) as Hxj.
    rewrite dist_right by exact Hx0. rewrite dist_right by exact Hxj.
    assert (nth reserved qs 0 <= nth j qs 0) by (apply Hs; lia). lra.
  - destruct (Nat.eqb_spec a (length qs)) as [El|El].
    + (* everything is below x *)
      pose proof (Fbelow (length qs - 1)%nat ltac:(lia)) as Hl. pose proof (Fbelow j ltac:(lia)) as Hjx.
      rewrite dist_left by lra. rewrite dist_left by lra.
      assert (nth j qs 0 <= nth (length qs - 1) qs 0) by (apply Hs; lia). lra.
    + (* x lies between the centres a-1 and a *)
      rewrite !nth_map_some by lia.
      pose proof (Fbelow (a - 1)%nat ltac:(lia)) as Hlo. pose proof (Fabove ltac:(lia) a ltac:(lia)) as Hhi.
      destruct (qlt (x - nth (a - 1) qs 0) (nth a qs 0 - x)) eqn:Ec.
      * apply qlt_true in Ec. rewrite dist_left by lra.
        destruct (Nat.lt_ge_cases j a) as [Hja|Hja].
        -- pose proof (Fbelow j ltac:(lia)). rewrite dist_left by lra.
           assert (nth j qs 0 <= nth (a - 1) qs 0) by (apply Hs; lia). lra.
        -- pose proof (Fabove ltac:(lia) j ltac:(lia)). rewrite dist_right by assumption.
           assert (nth a qs 0 <= nth j qs 0) by (apply Hs; lia). lra.
      * apply qlt_false in Ec. replace (a - 0)%nat with a by lia. rewrite dist_right by exact Hhi.
        destruct (Nat.lt_ge_cases j a) as [Hja|Hja].
        -- pose proof (Fbelow j ltac:(lia)). rewrite dist_left by lra.
           assert (nth j qs 0 <= nth (a - 1) qs 0) by (apply Hs; lia). lra.
        -- pose proof (Fabove ltac:(lia) j ltac:(lia)). rewrite dist_right by assumption.
           assert (nth a qs 0 <= nth j qs 0) by (apply Hs; lia). lra.
Qed.

(* a value that IS one of the (finite, sorted) centres reads back exactly: quantisation loses nothing on such values.
   What the property's "lossless when no order has more distinct values than bins" would need in addition is that every
   distinct value becomes a centre -- which equal-population bins do not give (quant_lossless_refuted). *)
Theorem encode_exact_on_centres : forall qs reserved x j, sorted_q qs -> (reserved <= j < length qs)%nat ->
  x == nth j qs 0 -> nth (encode (map Some qs) reserved x) qs 0 == x.
Proof.
  intros qs reserved x j Hs Hj Hx.
  pose proof (encode_nearest qs reserved x Hs ltac:(lia) j Hj) as H.
  assert (H0 : Qabs (x - nth j qs 0) == 0) by (rewrite <- Hx; setoid_replace (x - x) with 0 by ring; reflexivity).
  rewrite H0 in H.
  set (c := nth (encode (map Some qs) reserved x) qs 0) in *.
  pose proof (Qabs_nonneg (x - c)) as Hn.
  assert (Hz : Qabs (x - c) == 0) by lra.
  assert (Hle : x - c <= 0) by (rewrite <- Hz; apply Qle_Qabs).
  assert (Hge : - (x - c) <= 0) by (rewrite <- Hz; rewrite <- Qabs_opp; apply Qle_Qabs).
  lra.
Qed.
