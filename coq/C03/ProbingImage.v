(* C03/ProbingImage.v -- executable model of the memory of a HashedSearch<BackoffValue> (lm/search_hashed.hh/.cc, the `probing`
   model type) and of its bytes (no proofs here):
     Unigram   (count + 1) records { float prob; float backoff } indexed by word id (+1 for a hallucinated <unk>)
     Middle n  util::ProbingHashTable<{uint64 key; float prob; float backoff}, IdentityHash> with DivMod: `buckets` cells, an entry sits
               in the first empty cell from key % buckets (linear probing with wrap-around), key 0 = empty
     Longest   the same with {uint64 key; float prob} (packed, 12 bytes)
   key = the 64-bit n-gram hash: the newest word, then CombineWordHash with each older word (ReadNGrams / LookupMiddle).
   The entries are inserted in the order in which LM/Load.v's load_probing (= ReadNGrams + FindLower blanks) appends them to its table;
   the table placement is the `insert` of C20/ProbingModel.v (proved to refine a map there).  The probability keeps its sign bit
   exactly when the entry does not extend left (MarkExtends clears it). *)
From Coq Require Import ZArith List Bool Arith NArith.
From Kenlm Require Import Base.Mem LM.Defs C20.ProbingModel C03.TrieImage.
Import ListNotations.
Local Open Scope Z_scope.

Definition combine_word_hash (current next : Z) : Z :=
  Z.lxor (wrap 64 (current * 8978948897894561157)) (wrap 64 ((1 + next) * 17894857484156487943)).

Definition hash_key (k : key) : Z :=
  match k with
  | [] => 0
  | w :: older => fold_left (fun h x => combine_word_hash h (Z.of_N x)) older (Z.of_N w)
  end.

Definition prob_bits (e : entry) : Z :=
  Z.lor (Z.land (f32_of_units (e_prob e)) 2147483647) (if e_left e then 0 else 2147483648).
Definition backoff_bits (e : entry) : Z :=
  if e_bo e =? 0 then (if e_ext e then 0 else 2147483648) else f32_of_units (e_bo e).

(* the table of one order: Insert / FindOrInsert of the entries in table order (throws ProbingSizeException at capacity) *)
Definition table_of (buckets : nat) (ents : list (Z * Z)) : res table :=
  fold_left (fun acc kv => match acc with
                           | Ok t => insert buckets (ideal_of DivMod buckets) (next_of DivMod buckets) t kv
                           | other => other
                           end) ents (Ok {| cells := empty_cells buckets; entries := 0 |}).
Definition table_cells (buckets : nat) (ents : list (Z * Z)) : option (list cell) :=
  match table_of buckets ents with Ok t => Some (cells t) | _ => None end.

Definition order_entries (t : atable) (n : nat) : list (key * entry) := filter (fun ke => Nat.eqb (length (fst ke)) n) t.

Definition uni_bytes (t : atable) (slots : nat) : list Z :=
  flat_map (fun w => match alookup t [N.of_nat w] with
                     | Some e => bytes_of_Z 4 (prob_bits e) ++ bytes_of_Z 4 (backoff_bits e)
                     | None => bytes_of_Z 4 2147483648 ++ bytes_of_Z 4 0      (* the spare slot: SetSign runs over all count + 1 slots *)
                     end) (seq 0 slots).

Definition middle_bytes (t : atable) (n : nat) (buckets : nat) : option (list Z) :=
  match table_cells buckets (map (fun ke => (hash_key (fst ke), prob_bits (snd ke) + Z.shiftl (backoff_bits (snd ke)) 32)) (order_entries t n)) with
  | None => None
  | Some c => Some (flat_map (fun kv => bytes_of_Z 8 (fst kv) ++ bytes_of_Z 8 (snd kv)) c)
  end.

Definition longest_bytes (t : atable) (n : nat) (buckets : nat) : option (list Z) :=
  match table_cells buckets (map (fun ke => (hash_key (fst ke), prob_bits (snd ke))) (order_entries t n)) with
  | None => None
  | Some c => Some (flat_map (fun kv => bytes_of_Z 8 (fst kv) ++ bytes_of_Z 4 (snd kv)) c)
  end.

(* buckets: for orders 2..N; uni_slots = announced unigram count + 1 *)
Fixpoint tables_bytes (t : atable) (n : nat) (buckets : list nat) : option (list Z) :=
  match buckets with
  | [] => Some []
  | [b] => longest_bytes t n b
  | b :: rest => match middle_bytes t n b, tables_bytes t (S n) rest with
                 | Some x, Some y => Some (x ++ y)
                 | _, _ => None
                 end
  end.

Definition probing_image (t : atable) (uni_slots : nat) (buckets : list nat) : option (list Z) :=
  match tables_bytes t 2 buckets with
  | Some x => Some (uni_bytes t uni_slots ++ x)
  | None => None
  end.

(* ---- HashedSearch<RestValue> (the `rest` model type with MaxRestBuild): weights {prob; backoff; rest}, 12 bytes; middle entries
   {key; prob; backoff; rest} packed to 20 bytes.  A rest cost is a probability with the sign bit on (SetRest / MarkExtends copy it from
   one); `unset` lists the unigrams whose rest cost ApplyBuild never sets (the last word id when the file has no <unk>): zero bytes. *)
Definition rest_bits (unset : bool) (e : entry) : Z :=
  if unset then 0 else Z.lor (Z.land (f32_of_units (e_rest e)) 2147483647) 2147483648.

Definition rest_uni_bytes (t : atable) (slots : nat) (unset : list key) : list Z :=
  flat_map (fun w => match alookup t [N.of_nat w] with
                     | Some e => bytes_of_Z 4 (prob_bits e) ++ bytes_of_Z 4 (backoff_bits e) ++
                                 bytes_of_Z 4 (rest_bits (existsb (key_eqb [N.of_nat w]) unset) e)
                     | None => bytes_of_Z 4 2147483648 ++ bytes_of_Z 8 0
                     end) (seq 0 slots).

Definition rest_middle_bytes (t : atable) (n : nat) (buckets : nat) : option (list Z) :=
  match table_cells buckets (map (fun ke => (hash_key (fst ke),
                                             prob_bits (snd ke) + Z.shiftl (backoff_bits (snd ke)) 32 + Z.shiftl (rest_bits false (snd ke)) 64))
                                 (order_entries t n)) with
  | None => None
  | Some c => Some (flat_map (fun kv => bytes_of_Z 8 (fst kv) ++ bytes_of_Z 12 (snd kv)) c)
  end.

Fixpoint rest_tables_bytes (t : atable) (n : nat) (buckets : list nat) : option (list Z) :=
  match buckets with
  | [] => Some []
  | [b] => longest_bytes t n b
  | b :: rest => match rest_middle_bytes t n b, rest_tables_bytes t (S n) rest with
                 | Some x, Some y => Some (x ++ y)
                 | _, _ => None
                 end
  end.

Definition rest_probing_image (t : atable) (uni_slots : nat) (buckets : list nat) (unset : list key) : option (list Z) :=
  match rest_tables_bytes t 2 buckets with
  | Some x => Some (rest_uni_bytes t uni_slots unset ++ x)
  | None => None
  end.
