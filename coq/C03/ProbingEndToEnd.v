(* C03/ProbingEndToEnd.v -- the table READ BACK FROM THE MEMORY OF THE PROBING MODEL (unigram array + one linear-probing table per order,
   keyed by the 64-bit n-gram hash; C03/ProbingImage.v) satisfies the loaders' invariants whenever the table it was laid out from does,
   provided the hash separates the n-grams over the vocabulary (the assumption the code itself makes, here an explicit hypothesis):
   pmem_table_TInv.  Every query theorem stated for a table with TInv then holds for the answers computed from that memory. *)
From Coq Require Import ZArith Lia Bool List NArith Arith.
From Kenlm Require Import Base.Mem LM.Defs LM.Query LM.QueryProofs C20.ProbingModel C20.ProbingProofs C03.TrieMemProofs C03.TrieImage C03.TrieDecode
                          C03.ProbingImage C03.ProbingImageProofs C03.TrieTableEnd C03.TrieEndToEnd.
Import ListNotations.
Local Open Scope Z_scope.
Arguments Z.pow : simpl never.

(* an entry as the probing model stores it: |prob| pattern with the sign kept iff it does NOT extend left; back-off or marker *)
Definition pvalue (e : entry) : Z := prob_bits e + Z.shiftl (backoff_bits e) 32.

Definition entry_of_probing (v : Z) : entry :=
  let pbits := v mod 2 ^ 32 in
  let bbits := v / 2 ^ 32 in
  let p := units_of_f32 (sign_on (pbits mod 2 ^ 31)) in
  let marker := orb (bbits =? 0) (bbits =? 2147483648) in
  {| e_prob := p; e_bo := if marker then 0 else units_of_f32 bbits; e_ext := negb (bbits =? 2147483648);
     e_left := pbits <? 2 ^ 31; e_rest := p |}.

Definition entry_of_probing_longest (v : Z) : entry :=
  let p := units_of_f32 (sign_on (v mod 2 ^ 31)) in
  {| e_prob := p; e_bo := 0; e_ext := false; e_left := v <? 2 ^ 31; e_rest := p |}.

Definition pmem_table (buckets : list nat) (n : nat) (V : Z) (t : atable) : Defs.table :=
  fun k =>
    if forallb (fun w => Z.of_N w <? V) k then
      match k with
      | [] => None
      | [w] => match Defs.alookup t [w] with Some e => Some (entry_of_probing (pvalue e)) | None => None end    (* the unigram array *)
      | _ :: _ :: _ =>
          let j := length k in
          let b := nth (j - 2) buckets 0%nat in
          if Nat.ltb n j then None else        (* there is no table beyond the model's order *)
          let longest := Nat.eqb j n in       (* the longest table stores {key; prob} only *)
          match table_of b (map (fun ke => (hash_key (fst ke), if longest then prob_bits (snd ke) else pvalue (snd ke))) (order_entries t j)) with
          | Ok tb => match ProbingModel.find b (ideal_of DivMod b) (next_of DivMod b) tb (hash_key k) with
                     | Ok (Some v) => Some (if longest then entry_of_probing_longest v else entry_of_probing v)
                     | _ => None
                     end
          | _ => None
          end
      end
    else None.

(* ---- decoding ------------------------------------------------------------------------------------------------------------------------- *)
Lemma prob_bits_range : forall e, - 2 ^ 24 < e_prob e < 2 ^ 24 -> 0 <= prob_bits e < 2 ^ 32.
Proof.
  intros e H. unfold prob_bits.
  assert (A : 0 <= Z.land (f32_of_units (e_prob e)) 2147483647 < 2 ^ 31).
  { change 2147483647 with (Z.ones 31). rewrite Z.land_ones by lia. apply Z.mod_pos_bound. reflexivity. }
  destruct (e_left e).
  - rewrite Z.lor_0_r. change (2 ^ 32) with (2 * 2 ^ 31). lia.
  - change 2147483648 with (2 ^ 31). pose proof (sign_on_add _ A) as S. unfold sign_on, Gen.BitPacking.kSignBit in S.
    change 2147483648 with (2 ^ 31) in S. rewrite S. change (2 ^ 32) with (2 * 2 ^ 31). lia.
Qed.

Lemma backoff_bits_range : forall e, - 2 ^ 24 < e_bo e < 2 ^ 24 -> 0 <= backoff_bits e < 2 ^ 32.
Proof.
  intros e H. unfold backoff_bits. destruct (e_bo e =? 0); [destruct (e_ext e); change (2 ^ 32) with 4294967296; lia|apply f32_of_units_range; exact H].
Qed.

Lemma pvalue_split : forall e, - 2 ^ 24 < e_prob e < 2 ^ 24 -> - 2 ^ 24 < e_bo e < 2 ^ 24 ->
  pvalue e mod 2 ^ 32 = prob_bits e /\ pvalue e / 2 ^ 32 = backoff_bits e.
Proof.
  intros e Hp Hb. unfold pvalue. rewrite Z.shiftl_mul_pow2 by lia.
  pose proof (prob_bits_range e Hp). pose proof (backoff_bits_range e Hb).
  split.
  - rewrite Z.mod_add by lia. apply Z.mod_small. assumption.
  - rewrite Z.div_add by lia. rewrite Z.div_small by assumption. lia.
Qed.

Lemma prob_bits_low : forall e, - 2 ^ 24 < e_prob e <= 0 ->
  prob_bits e mod 2 ^ 31 = f32_of_units (e_prob e) mod 2 ^ 31 /\ (prob_bits e <? 2 ^ 31) = e_left e.
Proof.
  intros e H. unfold prob_bits.
  assert (A : 0 <= Z.land (f32_of_units (e_prob e)) 2147483647 < 2 ^ 31).
  { change 2147483647 with (Z.ones 31). rewrite Z.land_ones by lia. apply Z.mod_pos_bound. reflexivity. }
  assert (L : Z.land (f32_of_units (e_prob e)) 2147483647 = f32_of_units (e_prob e) mod 2 ^ 31).
  { change 2147483647 with (Z.ones 31). apply Z.land_ones. lia. }
  destruct (e_left e).
  - rewrite Z.lor_0_r, L. split; [apply Z.mod_mod; lia|]. apply Z.ltb_lt. rewrite <- L. lia.
  - change 2147483648 with (2 ^ 31). pose proof (sign_on_add _ A) as S. unfold sign_on, Gen.BitPacking.kSignBit in S.
    change 2147483648 with (2 ^ 31) in S. rewrite S, L. split.
    + replace (f32_of_units (e_prob e) mod 2 ^ 31 + 2 ^ 31) with (f32_of_units (e_prob e) mod 2 ^ 31 + 1 * 2 ^ 31) by lia.
      rewrite Z.mod_add by lia. apply Z.mod_mod. lia.
    + apply Z.ltb_ge. rewrite <- L. lia.
Qed.

Lemma decode_pvalue : forall e, - 2 ^ 24 < e_prob e <= 0 -> - 2 ^ 24 < e_bo e < 2 ^ 24 -> (e_bo e <> 0 -> e_ext e = true) ->
  let e' := entry_of_probing (pvalue e) in
  e_prob e' = e_prob e /\ e_bo e' = e_bo e /\ e_ext e' = e_ext e /\ e_left e' = e_left e.
Proof.
  intros e Hp Hb Hx. cbv zeta. unfold entry_of_probing. destruct (pvalue_split e ltac:(lia) Hb) as [E1 E2]. rewrite E1, E2.
  cbn [e_prob e_bo e_ext e_left]. destruct (prob_bits_low e Hp) as [L1 L2]. rewrite L1, L2.
  split; [apply (decode_norm (e_prob e)); exact Hp|].
  unfold backoff_bits. destruct (Z.eqb_spec (e_bo e) 0) as [E0|En].
  - rewrite E0. destruct (e_ext e); repeat split; reflexivity.
  - destruct (f32_not_marker (e_bo e) Hb En) as [N1 N2].
    destruct (Z.eqb_spec (f32_of_units (e_bo e)) 0); [contradiction|]. destruct (Z.eqb_spec (f32_of_units (e_bo e)) 2147483648); [contradiction|].
    cbn [orb negb]. split; [apply f32_units_roundtrip; exact Hb|]. split; [symmetry; apply Hx; exact En|reflexivity].
Qed.

Lemma decode_longest : forall e, - 2 ^ 24 < e_prob e <= 0 ->
  let e' := entry_of_probing_longest (prob_bits e) in
  e_prob e' = e_prob e /\ e_bo e' = 0 /\ e_ext e' = false /\ e_left e' = e_left e.
Proof.
  intros e Hp. cbv zeta. unfold entry_of_probing_longest. cbn [e_prob e_bo e_ext e_left].
  destruct (prob_bits_low e Hp) as [L1 L2]. rewrite L1, L2. split; [apply (decode_norm (e_prob e)); exact Hp|]. repeat split; reflexivity.
Qed.

(* ---- the table read back ------------------------------------------------------------------------------------------------------------- *)
Lemma alookup_order_entries : forall (t : atable) j k, length k = j -> Defs.alookup (order_entries t j) k = Defs.alookup t k.
Proof.
  induction t as [|[k0 e0] r IH]; intros j k Hk; [reflexivity|].
  unfold order_entries. cbn [filter fst Defs.alookup]. fold (order_entries r j).
  destruct (Nat.eqb_spec (length k0) j) as [E|N].
  - cbn [Defs.alookup]. destruct (key_eqb k0 k); [reflexivity|apply IH; exact Hk].
  - destruct (key_eqb k0 k) eqn:Ek; [apply key_eqb_iff in Ek; subst; contradiction|apply IH; exact Hk].
Qed.

Lemma order_entries_in : forall (t : atable) j ke, In ke (order_entries t j) -> In ke t /\ length (fst ke) = j.
Proof.
  intros t j ke H. unfold order_entries in H. apply filter_In in H. destruct H as [H1 H2]. split; [exact H1|apply Nat.eqb_eq; exact H2].
Qed.

Section ProbingEndToEnd.
  Variable buckets : list nat.
  Variable n : nat.
  Variable V : Z.
  Variable t : atable.
  Variable M : arpa.
  Let T : Defs.table := Defs.alookup t.

  Hypothesis Hn : (2 <= n)%nat.
  Hypothesis Inv : TInv n T M.
  Hypothesis Hnodup : NoDup (map fst t).
  Hypothesis Hdense : forall w, T [w] <> None <-> Z.of_N w < V.
  Hypothesis Hrange : forall k e, T k = Some e -> - 2 ^ 24 < e_prob e <= 0 /\ - 2 ^ 24 < e_bo e < 2 ^ 24.
  (* room in every table (the loader throws ProbingSizeException otherwise) *)
  Hypothesis Hlongest : forall k e, T k = Some e -> length k = n -> e_bo e = 0.
  Hypothesis Hroom : forall j, (2 <= j <= n)%nat -> (length (order_entries t j) < nth (j - 2) buckets 0)%nat.
  (* the assumption the code makes about its 64-bit hash: it separates the n-grams over the vocabulary, and none hashes to the empty key *)
  Definition over_vocab (k : key) : Prop := Forall (fun w => Z.of_N w < V) k /\ (2 <= length k <= n)%nat.
  Hypothesis Hhash_nz : forall k, over_vocab k -> hash_key k <> 0.
  Hypothesis Hhash_inj : forall k1 k2, over_vocab k1 -> over_vocab k2 -> hash_key k1 = hash_key k2 -> k1 = k2.

  Let T' : Defs.table := pmem_table buckets n V t.

  Lemma key_over_vocab : forall k, T k <> None -> (2 <= length k)%nat -> over_vocab k.
  Proof.
    intros k Hk Hl. split.
    - apply Forall_forall. intros w Hw. apply Hdense. apply (words_are_unigrams n t M Inv k Hk w Hw).
    - pose proof (i_len _ _ _ Inv k Hk). lia.
  Qed.

  Lemma in_table : forall ke, In ke t -> T (fst ke) <> None.
  Proof. intros ke H. apply alookup_in. apply in_map. exact H. Qed.

  Lemma ext_consistent : forall k e, T k = Some e -> e_bo e <> 0 -> e_ext e = true.
  Proof. intros k e H Hb. destruct (e_ext e) eqn:E; [reflexivity|]. destruct (i_ext _ _ _ Inv k e H E) as [Z0 _]. contradiction. Qed.

  Lemma pmem_spec : forall k,
    match T k with
    | None => T' k = None
    | Some e => exists e', T' k = Some e' /\ e_prob e' = e_prob e /\ e_bo e' = e_bo e /\ e_left e' = e_left e /\
                           ((length k < n)%nat -> e_ext e' = e_ext e) /\ (length k = n -> e_ext e' = false)
    end.
  Proof.
    intros k. unfold T', pmem_table.
    destruct (forallb (fun w => Z.of_N w <? V) k) eqn:Eg.
    - destruct k as [|w [|w2 ks]].
      + destruct (T []) eqn:E; [|reflexivity]. pose proof (i_len _ _ _ Inv [] ltac:(rewrite E; discriminate)) as H. cbn in H. lia.
      + fold T. destruct (T [w]) as [e|] eqn:E; [|reflexivity].
        destruct (Hrange [w] e E) as [R1 R2]. eexists. split; [reflexivity|].
        destruct (decode_pvalue e R1 R2 (ext_consistent [w] e E)) as [D1 [D2 [D3 D4]]].
        split; [exact D1|]. split; [exact D2|]. split; [exact D4|]. split; [intros _; exact D3|]. cbn [length]. intros; lia.
      + set (k := w :: w2 :: ks). set (j := length k). set (b := nth (j - 2) buckets 0%nat).
        assert (Hlen2 : (2 <= j)%nat) by (unfold j, k; cbn [length]; lia).
        assert (Hvoc : Forall (fun x => Z.of_N x < V) k).
        { apply Forall_forall. intros x Hx. rewrite forallb_forall in Eg. apply Z.ltb_lt. apply Eg. exact Hx. }
        destruct (Nat.ltb_spec n j) as [Hjn|Hjn].
        * destruct (T k) eqn:E; [|reflexivity]. pose proof (i_len _ _ _ Inv k ltac:(rewrite E; discriminate)). fold j in H. lia.
        * assert (Hov : over_vocab k) by (split; [exact Hvoc|fold j; lia]).
          assert (Hj : (2 <= j <= n)%nat) by lia.
          destruct (probing_order_table_is_table (fun e => if Nat.eqb j n then prob_bits e else pvalue e) t j b ltac:(pose proof (Hroom j Hj); unfold b; lia) (Hroom j Hj)) as [tb [Etb Hfind]].
          -- intros ke Hke. destruct (order_entries_in t j ke Hke) as [H1 H2]. apply Hhash_nz. apply key_over_vocab; [apply in_table; exact H1|lia].
          -- (* distinct keys have distinct hashes *)
             assert (G : forall l : atable, NoDup (map fst l) -> (forall ke, In ke l -> over_vocab (fst ke)) -> NoDup (map (fun ke => hash_key (fst ke)) l)).
             { induction l as [|ke r IH]; intros Hnd Hov'; [constructor|]. cbn [map] in *. apply NoDup_cons_iff in Hnd. destruct Hnd as [Hni Hnd].
               constructor; [|apply IH; [exact Hnd|intros x Hx; apply Hov'; right; exact Hx]].
               intros Hin. apply in_map_iff in Hin. destruct Hin as [ke2 [Eh Hin2]]. apply Hni.
               rewrite <- (Hhash_inj (fst ke2) (fst ke) (Hov' ke2 (or_intror Hin2)) (Hov' ke (or_introl eq_refl)) Eh). apply in_map. exact Hin2. }
             apply G.
             ++ unfold order_entries. clear - Hnodup. induction t as [|[k0 e0] r IH]; [constructor|]. cbn [map fst] in Hnodup. apply NoDup_cons_iff in Hnodup.
                destruct Hnodup as [Hni Hnd]. cbn [filter fst]. destruct (Nat.eqb (length k0) j); [|apply IH; exact Hnd].
                cbn [map fst]. constructor; [|apply IH; exact Hnd]. intros H. apply Hni. apply in_map_iff in H. destruct H as [x [E Hx]].
                apply filter_In in Hx. destruct Hx as [Hx _]. apply in_map_iff. exists x. split; assumption.
             ++ intros ke Hke. destruct (order_entries_in t j ke Hke) as [H1 H2]. apply key_over_vocab; [apply in_table; exact H1|lia].
          -- rewrite Etb. rewrite (Hfind k (Hhash_nz k Hov)).
             ++ rewrite alookup_order_entries by reflexivity. fold T. destruct (T k) as [e|] eqn:E; cbn [option_map]; [|reflexivity].
                destruct (Hrange k e E) as [R1 R2]. eexists. split; [reflexivity|]. fold j.
                destruct (Nat.eqb_spec j n) as [Ejn|Njn].
                ** destruct (decode_longest e R1) as [D1 [D2 [D3 D4]]].
                   split; [exact D1|]. split; [rewrite D2; symmetry; apply (Hlongest k e E); exact Ejn|]. split; [exact D4|]. split; [intros; lia|intros _; exact D3].
                ** destruct (decode_pvalue e R1 R2 (ext_consistent k e E)) as [D1 [D2 [D3 D4]]].
                   split; [exact D1|]. split; [exact D2|]. split; [exact D4|]. split; [intros _; exact D3|intros; lia].
             ++ intros ke Hke Eh. destruct (order_entries_in t j ke Hke) as [H1 H2].
                apply (Hhash_inj (fst ke) k); [apply key_over_vocab; [apply in_table; exact H1|lia]|exact Hov|exact Eh].
    - destruct (T k) as [e|] eqn:E; [|reflexivity].
      assert (forallb (fun w => Z.of_N w <? V) k = true).
      { apply forallb_forall. intros w Hw. apply Z.ltb_lt. apply Hdense. apply (words_are_unigrams n t M Inv k ltac:(fold T; rewrite E; discriminate) w Hw). }
      congruence.
  Qed.

  Lemma pmem_none_iff : forall k, T' k <> None <-> T k <> None.
  Proof.
    intros k. pose proof (pmem_spec k) as H. destruct (T k) as [e|].
    - destruct H as [e' [H _]]. rewrite H. split; intros _; discriminate.
    - rewrite H. tauto.
  Qed.

  Lemma pmem_some : forall k e', T' k = Some e' ->
    exists e, T k = Some e /\ e_prob e' = e_prob e /\ e_bo e' = e_bo e /\ e_left e' = e_left e /\
              ((length k < n)%nat -> e_ext e' = e_ext e) /\ (length k = n -> e_ext e' = false).
  Proof.
    intros k e' H. pose proof (pmem_spec k) as S. destruct (T k) as [e|].
    - destruct S as [e2 [S1 S2]]. rewrite S1 in H. inversion H. subst e2. exists e. split; [reflexivity|exact S2].
    - rewrite S in H. discriminate.
  Qed.

  Theorem pmem_table_TInv : TInv n T' M.
  Proof.
    constructor.
    - intros k x Hk H. apply pmem_none_iff. apply pmem_none_iff in H. apply (i_suffix _ _ _ Inv k x Hk H).
    - intros k e' H Hl. destruct (pmem_some k e' H) as [e [ET [_ [_ [El _]]]]]. rewrite El.
      rewrite (i_left _ _ _ Inv k e ET Hl). split; intros [x Hx]; exists x; apply pmem_none_iff; exact Hx.
    - intros w c e' H. destruct (pmem_some (w :: c) e' H) as [e [ET [Ep _]]]. rewrite Ep. apply (i_prob _ _ _ Inv w c e ET).
    - intros k e' H. destruct (pmem_some k e' H) as [e [ET [_ [Eb _]]]]. rewrite Eb. apply (i_bo _ _ _ Inv k e ET).
    - intros k H. apply (i_sub _ _ _ Inv k). destruct (T k) eqn:E; [|reflexivity]. exfalso.
      assert (T' k <> None) by (apply pmem_none_iff; rewrite E; discriminate). contradiction.
    - intros k e' H Hx. destruct (pmem_some k e' H) as [e [ET [_ [Eb [_ [A B]]]]]].
      assert (Hlen : (1 <= length k <= n)%nat) by (apply (i_len _ _ _ Inv k); rewrite ET; discriminate).
      destruct (Nat.eq_dec (length k) n) as [Eln|Nln].
      + split; [rewrite Eb; apply (Hlongest k e ET Eln)|].
        intros x. destruct (T' (x :: k)) eqn:E; [|reflexivity]. exfalso.
        assert (Hn' : T (x :: k) <> None) by (apply pmem_none_iff; rewrite E; discriminate).
        pose proof (i_len _ _ _ Inv (x :: k) Hn') as Hl2. cbn [length] in Hl2. lia.
      + rewrite (A ltac:(lia)) in Hx. destruct (i_ext _ _ _ Inv k e ET Hx) as [Z0 Hnone]. split; [rewrite Eb; exact Z0|].
        intros x. destruct (T' (x :: k)) eqn:E; [|reflexivity]. exfalso.
        assert (Hn' : T (x :: k) <> None) by (apply pmem_none_iff; rewrite E; discriminate). apply Hn'. apply Hnone.
    - intros w k Hk H. apply pmem_none_iff. apply pmem_none_iff in H. apply (i_ctx _ _ _ Inv w k Hk H).
    - intros k H. apply pmem_none_iff in H. apply (i_len _ _ _ Inv k H).
  Qed.
End ProbingEndToEnd.
