(* C03/TrieLayoutProofs.v -- the trie layout of lm/search_trie.cc is a map (model: C03/TrieLayout.v).
   A. flat_spec: the depth-first build puts, into array d+j, the nodes of relative depth j in left-to-right order, and the next
      pointer of each is the number of records of array d+j+1 that belong to nodes before it -- i.e. the level-order layout with
      prefix sums of child counts, whatever the forest (no bound on order, fan-out or size).
   B. walk_correct: on that layout the lookup that indexes the unigram array by word and then searches sibling range after sibling
      range returns exactly what the lookup in the forest returns -- payload, and a child range whose length is the number of
      children -- and fails exactly when the forest has no such n-gram.
   C. build_is_flat: the key-by-key formulation (visit the pre-order key list) is the same build. *)
From Coq Require Import List ZArith Bool Arith Lia.
From Kenlm Require Import C03.TrieLayout.
Import ListNotations.
Local Open Scope Z_scope.

Section Proofs.
  Variable V : Type.
  Notation forest := (forest V).
  Notation rec := (rec V).
  Notation levels := (levels V).

  Definition node := (Z * V * forest)%type.
  Fixpoint chain (f : forest) : list node :=
    match f with FNil => [] | FCons w v c s => (w, v, c) :: chain s end.
  (* nodes of relative depth j, left to right *)
  Fixpoint lev (j : nat) (f : forest) : list node :=
    match f with
    | FNil => []
    | FCons w v c s => (match j with O => [(w, v, c)] | S j' => lev j' c end) ++ lev j s
    end.
  Definition sub (n : node) : list node := chain (snd n).
  Definition kidsn (n : node) : Z := flen V (snd n).
  Definition kids (ns : list node) : Z := fold_right (fun n acc => kidsn n + acc) 0 ns.
  Fixpoint recs_of (base : Z) (ns : list node) : list rec :=
    match ns with
    | [] => []
    | n :: r => {| r_word := fst (fst n); r_val := snd (fst n); r_next := base |} :: recs_of (base + kidsn n) r
    end.

  Lemma flen_chain : forall f, flen V f = Z.of_nat (length (chain f)).
  Proof. induction f as [|w v c IHc s IHs]; cbn [flen chain length]; [reflexivity|]. rewrite IHs. lia. Qed.

  Lemma flen_nonneg : forall f, 0 <= flen V f.
  Proof. intros. rewrite flen_chain. lia. Qed.

  Lemma lev_0 : forall f, lev 0 f = chain f.
  Proof. induction f as [|w v c IHc s IHs]; cbn [lev chain]; [reflexivity|]. rewrite IHs. reflexivity. Qed.

  Lemma lev_S : forall f j, lev (S j) f = flat_map sub (lev j f).
  Proof.
    induction f as [|w v c IHc s IHs]; intros j; [reflexivity|].
    cbn [lev]. rewrite flat_map_app, <- IHs. f_equal.
    destruct j as [|j'].
    - cbn [flat_map]. unfold sub at 1. cbn [snd]. rewrite app_nil_r. apply lev_0.
    - apply IHc.
  Qed.

  Lemma kids_flat_map : forall l, kids l = Z.of_nat (length (flat_map sub l)).
  Proof.
    induction l as [|n r IH]; [reflexivity|].
    cbn [kids fold_right flat_map]. rewrite app_length, Nat2Z.inj_add. fold (kids r). rewrite IH.
    unfold kidsn, sub. rewrite flen_chain. reflexivity.
  Qed.

  Lemma kids_lev : forall j f, kids (lev j f) = Z.of_nat (length (lev (S j) f)).
  Proof. intros. rewrite lev_S. apply kids_flat_map. Qed.

  Lemma kids_app : forall a b, kids (a ++ b) = kids a + kids b.
  Proof. induction a as [|n r IH]; intros b; cbn [app kids fold_right]; [reflexivity|]. fold (kids (r ++ b)). fold (kids r). rewrite IH. lia. Qed.

  Lemma kids_nonneg : forall l, 0 <= kids l.
  Proof. intros. rewrite kids_flat_map. lia. Qed.

  Lemma recs_of_app : forall a b base, recs_of base (a ++ b) = recs_of base a ++ recs_of (base + kids a) b.
  Proof.
    induction a as [|n r IH]; intros b base; cbn [app recs_of kids fold_right].
    - rewrite Z.add_0_r. reflexivity.
    - fold (kids r). rewrite IH. do 3 f_equal. lia.
  Qed.

  Lemma recs_of_length : forall ns base, length (recs_of base ns) = length ns.
  Proof. induction ns as [|n r IH]; intros base; cbn [recs_of length]; [reflexivity|]. rewrite IH. reflexivity. Qed.

  Lemma lev_depth : forall f j, (depth V f <= j)%nat -> lev j f = [].
  Proof.
    induction f as [|w v c IHc s IHs]; intros j H; [reflexivity|].
    cbn [depth] in H. cbn [lev]. rewrite (IHs j) by lia. rewrite app_nil_r.
    destruct j as [|j']; [lia|]. apply IHc. lia.
  Qed.

  (* ---- push ------------------------------------------------------------------------------------------------------------ *)
  Lemma push_length : forall ls i r, length (push V i r ls) = length ls.
  Proof. induction ls as [|l rest IH]; intros i r; [destruct i; reflexivity|]. destruct i; cbn [push length]; [reflexivity|]. rewrite IH. reflexivity. Qed.

  Lemma nth_push : forall ls i r k, (i < length ls)%nat ->
    nth k (push V i r ls) [] = if Nat.eqb k i then nth i ls [] ++ [r] else nth k ls [].
  Proof.
    induction ls as [|l rest IH]; intros i r k Hi; [cbn [length] in Hi; lia|].
    destruct i as [|i']; cbn [push].
    - destruct k as [|k']; reflexivity.
    - destruct k as [|k']; [reflexivity|]. cbn [nth]. cbn [length] in Hi. rewrite IH by lia. reflexivity.
  Qed.

  (* ---- A: the depth-first build is the level-order layout ------------------------------------------------------------------ *)
  Theorem flat_spec : forall f d ls, (d + depth V f <= length ls)%nat ->
    length (flat V d f ls) = length ls /\
    forall i, nth i (flat V d f ls) [] =
              nth i ls [] ++ (if (d <=? i)%nat then recs_of (level_len V ls (S i)) (lev (i - d) f) else []).
  Proof.
    induction f as [|w v c IHc s IHs]; intros d ls H.
    - cbn [flat lev]. split; [reflexivity|]. intros i. destruct (d <=? i)%nat; cbn [recs_of]; rewrite app_nil_r; reflexivity.
    - cbn [depth] in H. cbn [flat].
      set (r := {| r_word := w; r_val := v; r_next := level_len V ls (S d) |}).
      set (ls1 := push V d r ls).
      assert (Hd : (d < length ls)%nat) by lia.
      assert (L1 : length ls1 = length ls) by apply push_length.
      destruct (IHc (S d) ls1 ltac:(lia)) as [L2 N2].
      set (ls2 := flat V (S d) c ls1) in *.
      destruct (IHs d ls2 ltac:(lia)) as [L3 N3].
      split; [lia|].
      intros i. rewrite N3, N2. unfold ls1 at 1. rewrite nth_push by exact Hd.
      (* lengths of the levels of ls1 and ls2 one below *)
      assert (LL1 : forall k, k <> d -> level_len V ls1 k = level_len V ls k).
      { intros k Hk. unfold level_len, ls1. rewrite nth_push by exact Hd. destruct (Nat.eqb_spec k d); [contradiction|reflexivity]. }
      assert (LL2 : forall k, (d < k)%nat -> level_len V ls2 k = level_len V ls k + Z.of_nat (length (lev (k - S d) c))).
      { intros k Hk. unfold level_len at 1. rewrite N2. replace (S d <=? k)%nat with true by (symmetry; apply Nat.leb_le; lia).
        rewrite app_length, recs_of_length, Nat2Z.inj_add. fold (level_len V ls1 k). rewrite LL1 by lia. reflexivity. }
      destruct (Nat.leb_spec d i) as [Hdi|Hdi].
      + destruct (Nat.eqb_spec i d) as [->|Hne].
        * (* the level of the node itself *)
          replace (S d <=? d)%nat with false by (symmetry; apply Nat.leb_gt; lia).
          rewrite Nat.sub_diag. cbn [lev]. rewrite app_nil_r, <- app_assoc. f_equal.
          cbn [app recs_of]. unfold kidsn. cbn [fst snd]. fold r. f_equal.
          rewrite LL2 by lia. replace (S d - S d)%nat with O by lia. rewrite lev_0, <- flen_chain. reflexivity.
        * (* deeper levels *)
          replace (S d <=? i)%nat with true by (symmetry; apply Nat.leb_le; lia).
          destruct (i - d)%nat as [|j'] eqn:Ej; [lia|].
          replace (i - S d)%nat with j' by lia.
          cbn [lev]. rewrite recs_of_app, <- app_assoc. f_equal.
          rewrite LL1 by lia. f_equal. f_equal.
          rewrite LL2 by lia. replace (S i - S d)%nat with (S j') by lia. rewrite kids_lev. reflexivity.
      + destruct (Nat.eqb_spec i d); [lia|].
        replace (S d <=? i)%nat with false by (symmetry; apply Nat.leb_gt; lia).
        rewrite !app_nil_r. reflexivity.
  Qed.

  (* the complete build, from empty arrays *)
  Definition built (n : nat) (F : forest) : levels := flat V 0 F (repeat [] n).

  Lemma nth_repeat_nil : forall n i, nth i (repeat (@nil rec) n) [] = [].
  Proof. induction n as [|n IH]; intros [|i]; cbn [repeat nth]; try reflexivity. apply IH. Qed.

  Lemma built_level : forall n F j, (depth V F <= n)%nat -> nth j (built n F) [] = recs_of 0 (lev j F).
  Proof.
    intros n F j H. unfold built.
    destruct (flat_spec F 0 (repeat [] n) ltac:(rewrite repeat_length; lia)) as [_ N].
    rewrite N, nth_repeat_nil. cbn [app Nat.leb]. rewrite Nat.sub_0_r.
    unfold level_len. rewrite nth_repeat_nil. reflexivity.
  Qed.

  Lemma firstn_S_nth_error : forall (A : Type) (l : list A) p x, nth_error l p = Some x -> firstn (S p) l = firstn p l ++ [x].
  Proof.
    induction l as [|a r IH]; intros p x H; [destruct p; discriminate|].
    destruct p as [|p']; cbn [nth_error] in H.
    - inversion H. reflexivity.
    - cbn [firstn app]. f_equal. apply (IH p' x H).
  Qed.

  (* ---- records of a level ------------------------------------------------------------------------------------------------- *)
  Lemma nth_error_recs_of : forall ns base p n, nth_error ns p = Some n ->
    nth_error (recs_of base ns) p = Some {| r_word := fst (fst n); r_val := snd (fst n); r_next := base + kids (firstn p ns) |}.
  Proof.
    induction ns as [|m r IH]; intros base p n H; [destruct p; discriminate|].
    destruct p as [|p']; cbn [nth_error recs_of firstn kids fold_right] in *.
    - inversion H. subst. rewrite Z.add_0_r. reflexivity.
    - rewrite (IH _ _ _ H). fold (kids (firstn p' r)). f_equal. f_equal. lia.
  Qed.

  Lemma nth_error_recs_of_none : forall ns base p, nth_error ns p = None -> nth_error (recs_of base ns) p = None.
  Proof. intros ns base p H. apply nth_error_None. rewrite recs_of_length. apply nth_error_None. exact H. Qed.

  (* where the children of the p-th node of a list sit in the concatenation of all children *)
  Lemma flat_map_block : forall (l : list node) p n i, nth_error l p = Some n ->
    nth_error (flat_map sub l) (Z.to_nat (kids (firstn p l)) + i) =
    if (i <? length (sub n))%nat then nth_error (sub n) i
    else nth_error (flat_map sub (skipn (S p) l)) (i - length (sub n)).
  Proof.
    induction l as [|m r IH]; intros p n i H; [destruct p; discriminate|].
    destruct p as [|p']; cbn [nth_error firstn kids fold_right flat_map skipn] in *.
    - inversion H. subst m. cbn [Z.to_nat Nat.add].
      destruct (Nat.ltb_spec i (length (sub n))) as [Hlt|Hge].
      + apply nth_error_app1. exact Hlt.
      + apply nth_error_app2. exact Hge.
    - fold (kids (firstn p' r)).
      assert (Hk : Z.to_nat (kidsn m + kids (firstn p' r)) = (length (sub m) + Z.to_nat (kids (firstn p' r)))%nat).
      { unfold kidsn, sub. rewrite flen_chain. pose proof (kids_nonneg (firstn p' r)). lia. }
      rewrite Hk, <- Nat.add_assoc, nth_error_app2 by lia.
      replace (length (sub m) + (Z.to_nat (kids (firstn p' r)) + i) - length (sub m))%nat with (Z.to_nat (kids (firstn p' r)) + i)%nat by lia.
      apply IH. exact H.
  Qed.

  (* ---- B: the walk ------------------------------------------------------------------------------------------------------------ *)
  Variable N_levels : nat.
  Variable F : forest.
  Hypothesis Hdepth : (depth V F <= N_levels)%nat.
  Let L := built N_levels F.

  Lemma L_level : forall j, nth j L [] = recs_of 0 (lev j F).
  Proof. intros j. apply built_level. exact Hdepth. Qed.

  Lemma L_len : forall j, level_len V L j = Z.of_nat (length (lev j F)).
  Proof. intros j. unfold level_len. rewrite L_level, recs_of_length. reflexivity. Qed.

  Lemma next_at_L : forall j p, (p <= length (lev j F))%nat -> next_at V L j (Z.of_nat p) = kids (firstn p (lev j F)).
  Proof.
    intros j p Hp. unfold next_at. rewrite L_level, Nat2Z.id.
    destruct (nth_error (lev j F) p) as [n|] eqn:E.
    - rewrite (nth_error_recs_of _ 0 _ _ E). cbn [r_next]. lia.
    - rewrite nth_error_recs_of_none by exact E. apply nth_error_None in E.
      rewrite L_len, <- kids_lev. rewrite firstn_all2 by lia. reflexivity.
  Qed.

  (* the chain c occupies the positions lo, lo+1, ... of level j *)
  Definition Seg (j : nat) (c : forest) (lo : nat) : Prop :=
    forall i, (i < length (chain c))%nat -> nth_error (lev j F) (lo + i) = nth_error (chain c) i.

  Lemma Seg_tail : forall j w v c s lo, Seg j (FCons w v c s) lo -> Seg j s (S lo).
  Proof.
    intros j w v c s lo H i Hi. specialize (H (S i)). cbn [chain length nth_error] in H.
    replace (S lo + i)%nat with (lo + S i)%nat by lia. apply H. lia.
  Qed.

  (* the search of the range finds the first sibling holding the word *)
  Lemma find_word_chain : forall c j lo w, Seg j c lo ->
    match find_sib V c w with
    | None => find_word V (nth j L []) w (Z.of_nat lo) (length (chain c)) = None
    | Some (v, c') => exists i, (i < length (chain c))%nat /\ nth_error (chain c) i = Some (w, v, c') /\
                                find_word V (nth j L []) w (Z.of_nat lo) (length (chain c)) = Some (Z.of_nat (lo + i))
    end.
  Proof.
    induction c as [|w' v' cc _ s IHs]; intros j lo w HS; [reflexivity|].
    cbn [find_sib chain length find_word]. rewrite Nat2Z.id, L_level.
    pose proof (HS O ltac:(cbn [chain length]; lia)) as H0. rewrite Nat.add_0_r in H0. cbn [chain nth_error] in H0.
    rewrite (nth_error_recs_of _ 0 _ _ H0). cbn [r_word fst].
    destruct (Z.eqb_spec w' w) as [->|Hne].
    - exists O. split; [lia|]. split; [reflexivity|]. rewrite Nat.add_0_r. reflexivity.
    - specialize (IHs j (S lo) w (Seg_tail _ _ _ _ _ _ HS)).
      replace (Z.of_nat lo + 1) with (Z.of_nat (S lo)) by lia. rewrite <- L_level.
      destruct (find_sib V s w) as [[v c']|].
      + destruct IHs as [i [Hi [Hn Hf]]]. exists (S i). split; [lia|]. split; [exact Hn|].
        rewrite Hf. f_equal. lia.
      + exact IHs.
  Qed.

  (* the children of the node at position p of level j occupy [kids before p, + number of children) of level j+1 *)
  Lemma Seg_children : forall j p n, nth_error (lev j F) p = Some n ->
    Seg (S j) (snd n) (Z.to_nat (kids (firstn p (lev j F)))).
  Proof.
    intros j p n H i Hi. rewrite lev_S, (flat_map_block _ _ _ i H).
    replace (i <? length (sub n))%nat with true by (symmetry; apply Nat.ltb_lt; exact Hi). reflexivity.
  Qed.

  Lemma walk_from_correct : forall ws j c lo cur, Seg j c lo -> ws <> [] ->
    match lookup V c ws with
    | None => walk_from V L j (Z.of_nat lo) (Z.of_nat lo + flen V c) ws cur = None
    | Some (v, c') => exists lo', walk_from V L j (Z.of_nat lo) (Z.of_nat lo + flen V c) ws cur = Some (v, lo', lo' + flen V c')
    end.
  Proof.
    induction ws as [|w ws' IH]; intros j c lo cur HS Hne; [contradiction|].
    cbn [lookup walk_from].
    replace (Z.to_nat (Z.of_nat lo + flen V c - Z.of_nat lo)) with (length (chain c)) by (rewrite flen_chain; lia).
    pose proof (find_word_chain c j lo w HS) as Hf.
    destruct (find_sib V c w) as [[v c']|]; [|rewrite Hf; reflexivity].
    destruct Hf as [i [Hi [Hn Hf]]]. rewrite Hf, Nat2Z.id, L_level.
    assert (Hp : nth_error (lev j F) (lo + i) = Some (w, v, c')) by (rewrite (HS i Hi); exact Hn).
    rewrite (nth_error_recs_of _ 0 _ _ Hp). cbn [r_next r_val fst snd]. rewrite Z.add_0_l.
    assert (Hlen : (lo + i < length (lev j F))%nat) by (apply nth_error_Some; rewrite Hp; discriminate).
    replace (Z.of_nat (lo + i) + 1) with (Z.of_nat (S (lo + i))) by lia.
    rewrite next_at_L by lia.
    assert (Hk : kids (firstn (S (lo + i)) (lev j F)) = kids (firstn (lo + i) (lev j F)) + flen V c').
    { rewrite (firstn_S_nth_error _ _ _ _ Hp) . rewrite kids_app. cbn [kids fold_right]. unfold kidsn. cbn [snd]. lia. }
    rewrite Hk.
    set (lo' := kids (firstn (lo + i) (lev j F))).
    pose proof (Seg_children j (lo + i) _ Hp) as HS'. cbn [snd] in HS'. fold lo' in HS'.
    assert (Hlo' : 0 <= lo') by apply kids_nonneg.
    destruct ws' as [|w2 ws2].
    - exists lo'. reflexivity.
    - specialize (IH (S j) c' (Z.to_nat lo') v HS' ltac:(discriminate)).
      rewrite Z2Nat.id in IH by exact Hlo'. exact IH.
  Qed.

  (* unigrams are addressed by word id *)
  Hypothesis Hdense : dense_from V 0 F.

  Lemma dense_chain : forall f i k, dense_from V i f -> forall n, nth_error (chain f) k = Some n -> fst (fst n) = i + Z.of_nat k.
  Proof.
    induction f as [|w v c _ s IHs]; intros i k H n Hn; [destruct k; discriminate|].
    cbn [dense_from] in H. destruct H as [-> Hs]. destruct k as [|k']; cbn [chain nth_error] in Hn.
    - inversion Hn. cbn [fst]. lia.
    - rewrite (IHs (i + 1) k' Hs n Hn). lia.
  Qed.

  Lemma find_sib_dense : forall f i w, dense_from V i f ->
    find_sib V f w = match (if i <=? w then nth_error (chain f) (Z.to_nat (w - i)) else None) with
                     | Some n => Some (snd (fst n), snd n) | None => None end.
  Proof.
    induction f as [|w' v c _ s IHs]; intros i w H.
    - cbn [find_sib chain]. destruct (i <=? w); [destruct (Z.to_nat (w - i))|]; reflexivity.
    - cbn [dense_from] in H. destruct H as [-> Hs]. cbn [find_sib chain].
      destruct (Z.eqb_spec i w) as [->|Hne].
      + rewrite Z.leb_refl, Z.sub_diag. reflexivity.
      + rewrite (IHs (i + 1) w Hs). destruct (Z.leb_spec i w) as [Hle|Hgt].
        * replace (i + 1 <=? w) with true by (symmetry; apply Z.leb_le; lia).
          replace (Z.to_nat (w - i)) with (S (Z.to_nat (w - (i + 1)))) by lia. reflexivity.
        * replace (i + 1 <=? w) with false by (symmetry; apply Z.leb_gt; lia). reflexivity.
  Qed.

  Theorem walk_correct : forall k,
    match lookup V F k with
    | None => walk V L k = None
    | Some (v, c) => exists lo, walk V L k = Some (v, lo, lo + flen V c)
    end.
  Proof.
    intros [|w ws]; [reflexivity|].
    cbn [lookup walk]. rewrite (find_sib_dense F 0 w Hdense), Z.sub_0_r, L_level.
    destruct (Z.leb_spec 0 w) as [Hw|Hw]; [|reflexivity].
    destruct (nth_error (chain F) (Z.to_nat w)) as [[[w0 v] c]|] eqn:E.
    - assert (E0 : nth_error (lev 0 F) (Z.to_nat w) = Some (w0, v, c)) by (rewrite lev_0; exact E).
      rewrite (nth_error_recs_of _ 0 _ _ E0). cbn [r_next r_val fst snd]. rewrite Z.add_0_l.
      assert (Hlen : (Z.to_nat w < length (lev 0 F))%nat) by (apply nth_error_Some; rewrite E0; discriminate).
      replace (w + 1) with (Z.of_nat (S (Z.to_nat w))) by lia.
      rewrite next_at_L by lia.
      assert (Hk : kids (firstn (S (Z.to_nat w)) (lev 0 F)) = kids (firstn (Z.to_nat w) (lev 0 F)) + flen V c).
      { rewrite (firstn_S_nth_error _ _ _ _ E0), kids_app. cbn [kids fold_right]. unfold kidsn. cbn [snd]. lia. }
      rewrite Hk. set (lo := kids (firstn (Z.to_nat w) (lev 0 F))).
      pose proof (Seg_children 0 (Z.to_nat w) _ E0) as HS. cbn [snd] in HS. fold lo in HS.
      assert (Hlo : 0 <= lo) by apply kids_nonneg.
      destruct ws as [|w2 ws2].
      + exists lo. reflexivity.
      + pose proof (walk_from_correct (w2 :: ws2) 1 c (Z.to_nat lo) v HS ltac:(discriminate)) as Hwf.
        rewrite Z2Nat.id in Hwf by exact Hlo. exact Hwf.
    - rewrite nth_error_recs_of_none; [reflexivity|]. rewrite lev_0. exact E.
  Qed.
End Proofs.

(* ---- C: visiting the pre-order key list is the same build ------------------------------------------------------------------- *)
Section Preorder.
  Variable V : Type.

  Lemma visit_flat : forall (f : forest V) prefix ls,
    fold_left (visit V) (preorder V prefix f) ls = flat V (length prefix) f ls.
  Proof.
    induction f as [|w v c IHc s IHs]; intros prefix ls; [reflexivity|].
    cbn [preorder fold_left flat]. rewrite fold_left_app, IHc, IHs.
    unfold visit at 1. cbn [fst snd]. rewrite app_length, last_last. cbn [length].
    replace (length prefix + 1 - 1)%nat with (length prefix) by lia.
    replace (length prefix + 1)%nat with (S (length prefix)) by lia. reflexivity.
  Qed.

  Theorem build_is_flat : forall n (F : forest V), build V n (preorder V [] F) = flat V 0 F (repeat [] n).
  Proof. intros. unfold build. apply (visit_flat F []). Qed.
End Preorder.
