(* C03/TrieWalkProofs.v -- the lookup over the MEMORY of the trie (C03/TrieMem.v: Unigram array, bit-packed middle arrays without
   or with ArrayBhiksha pointer compression, bit-packed longest array, searched with BoundedSortedUniformFind/Pivot32 over the
   generated bit-packing routines) returns what the lookup over the level lists returns (C03/TrieLayout.v `walk`, linear search of
   the sibling range), for level lists whose sibling ranges are strictly sorted by word (`Lok`):  twalk_is_walk.
   Probabilities come back with the sign bit forced on (they are stored in 31 bits); the longest order has no back-off and no
   children. *)
From Coq Require Import ZArith Lia Bool List.
From Kenlm Require Import Base.Mem Gen.BitPacking Gen.SortedUniform C20.BitPackingProofs C20.ArrayModel C20.ArrayProofs
                          C20.SearchModel C20.SearchProofs C20.MiddleAProofs C03.BhikshaModel C03.BhikshaProofs
                          C03.TrieLayout C03.TrieMem C03.TrieMemProofs.
Import ListNotations.
Local Open Scope Z_scope.
Arguments Z.ones : simpl never.
Arguments Z.testbit : simpl never.
Arguments Z.mul : simpl never.
Arguments Z.add : simpl never.
Arguments Z.sub : simpl never.
Arguments Z.pow : simpl never.
Arguments Z.land : simpl never.
Arguments Z.lor : simpl never.
Arguments Z.shiftr : simpl never.
Arguments Z.of_nat : simpl never.

Notation rword := (r_word pb).
Notation rval := (r_val pb).
Notation rnext := (r_next pb).

Definition nxt (l : list (rec pb)) (e : Z) (p : Z) : Z :=
  if p <? Z.of_nat (length l) then rnext (nth (Z.to_nat p) l dflt) else e.
Definition words_sorted (l : list (rec pb)) (lo hi : Z) : Prop :=
  forall i j, lo <= i -> i < j -> j < hi -> rword (nth (Z.to_nat i) l dflt) < rword (nth (Z.to_nat j) l dflt).
Definition vals_ok (vocab : Z) (l : list (rec pb)) : Prop :=
  Forall (fun r => 0 <= rword r <= vocab /\ 0 <= fst (rval r) < 2 ^ 32 /\ 0 <= snd (rval r) < 2 ^ 32) l.
Definition range_ok (l : list (rec pb)) (lo hi : Z) : Prop :=
  0 <= lo /\ lo <= hi /\ hi <= Z.of_nat (length l) /\ hi - lo <= 2 ^ 32 /\ words_sorted l lo hi.

(* ---- bits ------------------------------------------------------------------------------------------------------------------ *)
Lemma bits_needed_le : forall x k, 0 <= k -> 0 <= x < 2 ^ k -> bits_needed x <= k.
Proof.
  intros x k Hk Hx. unfold bits_needed. destruct (Z.eqb_spec x 0) as [->|Hn]; [lia|].
  assert (Z.log2 x < k) by (apply Z.log2_lt_pow2; lia). lia.
Qed.

Lemma chop_search_range : forall fuel chop limit required mo mn best lowest,
  0 <= chop -> 0 <= best <= Z.max 0 limit ->
  0 <= chop_search fuel chop limit required mo mn best lowest <= Z.max 0 limit.
Proof.
  induction fuel as [|f IH]; intros chop limit required mo mn best lowest Hc Hb; cbn [chop_search]; [exact Hb|].
  destruct (Z.gtb_spec chop limit) as [Hgt|Hle]; [exact Hb|].
  destruct (Z.shiftr mn (required - chop) * 64 - mo * chop <? lowest); apply IH; lia.
Qed.

Lemma bits_req_is_needed : forall x, bits_req x = bits_needed x.
Proof. reflexivity. Qed.

Lemma inline_bits_range : forall mo mn cfg, 0 <= cfg -> 0 <= mn < 2 ^ 57 -> 0 <= inline_bits mo mn cfg <= 57.
Proof.
  intros mo mn cfg Hc Hm. unfold inline_bits, chop_bits.
  pose proof (bits_needed_nonneg mn) as H0. pose proof (bits_needed_le mn 57 ltac:(lia) Hm) as H1. rewrite <- bits_req_is_needed in H0, H1.
  pose proof (chop_search_range 70 0 (Z.min (bits_req mn) cfg) (bits_req mn) mo mn 0 (2 ^ 63 - 1) ltac:(lia) ltac:(lia)) as H2.
  lia.
Qed.

(* ---- next pointers of a level ------------------------------------------------------------------------------------------------ *)
Lemma nxt_tnext_of : forall l e p, tnext_of l e p = nxt l e p.
Proof. reflexivity. Qed.

Lemma nxt_tnextA : forall l e p, 0 <= p <= Z.of_nat (length l) -> tnextA l e p = nxt l e p.
Proof.
  intros l e p Hp. unfold tnextA, nxt. destruct (Z.ltb_spec p (Z.of_nat (length l))) as [Hlt|Hge].
  - rewrite app_nth1 by (rewrite map_length; lia). exact (map_nth rnext l dflt (Z.to_nat p)).
  - assert (E : Z.to_nat p = length (map rnext l)) by (rewrite map_length; lia). rewrite E, nth_middle. reflexivity.
Qed.

Definition nx_ok (l : list (rec pb)) (max_next : Z) : Prop :=
  forall p, 0 <= p < Z.of_nat (length l) -> 0 <= nxt l max_next p /\ nxt l max_next p <= nxt l max_next (p + 1) /\ nxt l max_next (p + 1) <= max_next.

Lemma nx_ok_mono : forall l e, 0 <= e -> nx_ok l e -> forall i j, 0 <= i -> i <= j -> j <= Z.of_nat (length l) -> nxt l e i <= nxt l e j.
Proof.
  intros l e He H i j Hi Hij Hj.
  assert (G : forall d : nat, i + Z.of_nat d <= Z.of_nat (length l) -> nxt l e i <= nxt l e (i + Z.of_nat d)).
  { induction d as [|d IH]; intros Hd; [rewrite Nat2Z.inj_0, Z.add_0_r; lia|].
    rewrite Nat2Z.inj_succ in *. specialize (IH ltac:(lia)).
    destruct (H (i + Z.of_nat d) ltac:(lia)) as [_ [H2 _]]. replace (i + Z.succ (Z.of_nat d)) with (i + Z.of_nat d + 1) by lia. lia. }
  specialize (G (Z.to_nat (j - i)) ltac:(lia)). replace (i + Z.of_nat (Z.to_nat (j - i))) with j in G by lia. exact G.
Qed.

Lemma nx_ok_sorted : forall l e, 0 <= e -> nx_ok l e -> sorted (map rnext l ++ [e]) /\ nonneg (map rnext l ++ [e]).
Proof.
  intros l e He H.
  assert (Len : length (map rnext l ++ [e]) = S (length l)) by (rewrite app_length, map_length; cbn [length]; lia).
  assert (Nth : forall k, (k <= length l)%nat -> nth k (map rnext l ++ [e]) 0 = nxt l e (Z.of_nat k)).
  { intros k Hk. rewrite <- (nxt_tnextA l e (Z.of_nat k)) by lia. unfold tnextA. rewrite Nat2Z.id. reflexivity. }
  split.
  - intros i j Hij. rewrite Len in Hij. rewrite !Nth by lia. apply nx_ok_mono; try assumption; lia.
  - intros v Hv. destruct (In_nth _ _ 0 Hv) as [k [Hk <-]]. rewrite Len in Hk. rewrite Nth by lia.
    destruct (Nat.eq_dec k (length l)) as [->|Hne].
    + unfold nxt. rewrite Z.ltb_irrefl. exact He.
    + destruct (H (Z.of_nat k) ltac:(lia)) as [H1 _]. exact H1.
Qed.

(* ---- one middle array, either compression ------------------------------------------------------------------------------------ *)
Lemma mm_find_spec : forall (array : bool) cfg vocab (l : list (rec pb)) max_next w lo hi,
  0 <= vocab < 2 ^ 32 -> 0 <= cfg -> 0 <= max_next < 2 ^ 57 -> vals_ok vocab l -> nx_ok l max_next ->
  range_ok l lo hi -> 0 <= w <= vocab ->
  exists res, mm_find array (mk_mid array cfg vocab l max_next) w lo hi = Some res /\
    match res with
    | Some (p, prob, bo, cb, ce) =>
        lo <= p < hi /\ rword (nth (Z.to_nat p) l dflt) = w /\ prob = sign_on (fst (rval (nth (Z.to_nat p) l dflt)) mod 2 ^ 31) /\
        bo = snd (rval (nth (Z.to_nat p) l dflt)) /\ cb = nxt l max_next p /\ ce = nxt l max_next (p + 1)
    | None => forall i, lo <= i < hi -> rword (nth (Z.to_nat i) l dflt) <> w
    end.
Proof.
  intros array cfg vocab l max_next w lo hi Hv Hc Hm Hvals Hnx [Hlo [Hlh [Hhn [Hwd Hws]]]] Hw.
  set (n := Z.of_nat (length l)).
  assert (Hwb : 0 <= bits_needed vocab <= 57) by (pose proof (bits_needed_nonneg vocab); pose proof (bits_needed_le vocab 32 ltac:(lia) Hv); lia).
  assert (Hsorted : forall i j, lo <= i -> i <= j -> j < hi -> tword_of l i <= tword_of l j).
  { intros i j Hi Hij Hj. destruct (Z.eq_dec i j) as [->|Hne]; [lia|]. pose proof (Hws i j Hi ltac:(lia) Hj). unfold tword_of. lia. }
  assert (Hle : forall i, lo <= i < hi -> tword_of l i <= vocab).
  { intros i Hi. unfold tword_of. unfold vals_ok in Hvals. rewrite Forall_forall in Hvals.
    destruct (Hvals (nth (Z.to_nat i) l dflt)) as [[_ H] _]; [apply nth_In; lia|exact H]. }
  assert (Hfuel : Z.of_nat (S (S (S (length l)))) >= Z.max 1 (hi - lo + 1)) by lia.
  assert (Hzero : forall nb i, 8 * 0 <= i < 8 * 0 + (n + 1) * (bits_needed vocab + 63 + nb) -> Z.testbit 0 i = false) by (intros; apply Z.bits_0).
  assert (Hnext_le : forall r, In r l -> 0 <= rnext r <= max_next).
  { intros r Hr. destruct (In_nth _ _ dflt Hr) as [k [Hk <-]].
    destruct (Hnx (Z.of_nat k) ltac:(lia)) as [H1 [H2 H3]]. unfold nxt in H1, H2 at 1.
    replace (Z.of_nat k <? Z.of_nat (length l)) with true in * by (symmetry; apply Z.ltb_lt; lia). rewrite Nat2Z.id in *. lia. }
  destruct array.
  - (* ArrayBhiksha *)
    unfold mk_mid, mm_find. cbn [mm_par mm_mem mm_offs mm_count].
    set (m := {| t_base := 0; t_wb := bits_needed vocab; t_nb := inline_bits (n + 1) max_next cfg; t_max_vocab := vocab |}).
    fold n.
    pose proof (inline_bits_range (n + 1) max_next cfg Hc Hm) as Hnb.
    destruct (nx_ok_sorted l max_next ltac:(lia) Hnx) as [Hso Hnn].
    assert (Hvals' : Forall (fun r => 0 <= rword r < 2 ^ t_wb m /\ 0 <= fst (rval r) < 2 ^ 32 /\ 0 <= snd (rval r) < 2 ^ 32) l).
    { unfold vals_ok in Hvals. rewrite Forall_forall in *. intros r Hr. destruct (Hvals r Hr) as [[A B] [C D]].
      cbn [t_wb m]. pose proof (bits_needed_bound vocab ltac:(lia)). split; [|split; assumption].
      split; [exact A|]. apply Z.le_lt_trans with vocab; assumption. }
    pose proof (tmidA_refines m ltac:(cbn; lia) ltac:(cbn [t_wb m]; exact Hwb) ltac:(cbn [t_nb m]; exact Hnb) l max_next 0 Hvals' Hso Hnn
                  ltac:(intros i Hi; apply Z.bits_0) (S (S (S (length l)))) w lo hi Hlo Hlh Hhn ltac:(cbn [t_max_vocab m]; lia) Hsorted
                  ltac:(cbn [t_max_vocab m]; exact Hle) ltac:(cbn [t_max_vocab m]; exact Hw) Hwd Hfuel) as [res [Hf Hr]].
    unfold tstA in Hf.
    exists res. split.
    + rewrite <- Hf. unfold n. rewrite <- surjective_pairing. reflexivity.
    + destruct res as [[[[[p prob] bo] cb] ce]|]; [|exact Hr].
      destruct Hr as [R1 [R2 [R3 [R4 [R5 R6]]]]]. rewrite nxt_tnextA in R5, R6 by lia.
      repeat split; try assumption; lia.
  - (* DontBhiksha *)
    unfold mk_mid, mm_find. cbn [mm_par mm_mem mm_offs mm_count].
    set (m := {| t_base := 0; t_wb := bits_needed vocab; t_nb := bits_needed max_next; t_max_vocab := vocab |}).
    fold n.
    assert (Hnb : 0 <= bits_needed max_next <= 57) by (pose proof (bits_needed_nonneg max_next); pose proof (bits_needed_le max_next 57 ltac:(lia) Hm); lia).
    assert (Hrecs : Forall (trec_ok m) l).
    { unfold vals_ok in Hvals. rewrite Forall_forall in *. intros r Hr. destruct (Hvals r Hr) as [[A B] [C D]].
      unfold trec_ok. cbn [t_wb t_nb m]. pose proof (bits_needed_bound vocab ltac:(lia)). pose proof (bits_needed_bound max_next ltac:(lia)).
      pose proof (Hnext_le r Hr). repeat split; try assumption; lia. }
    pose proof (tmid_refines m ltac:(cbn; lia) ltac:(cbn [t_wb m]; exact Hwb) ltac:(cbn [t_nb m]; exact Hnb) l max_next 0 Hrecs
                  ltac:(cbn [t_nb m]; pose proof (bits_needed_bound max_next ltac:(lia)); lia)
                  ltac:(intros i Hi; apply Z.bits_0) (S (S (S (length l)))) w lo hi Hlo Hlh Hhn ltac:(cbn [t_max_vocab m]; lia) Hsorted
                  ltac:(cbn [t_max_vocab m]; exact Hle) ltac:(cbn [t_max_vocab m]; exact Hw) Hwd Hfuel) as [res [Hf Hr]].
    exists res. split; [exact Hf|].
    destruct res as [[[[[p prob] bo] cb] ce]|]; exact Hr.
Qed.

(* the linear search of the specification finds the same record, in a strictly sorted range *)
Lemma find_word_spec : forall (l : list (rec pb)) w cnt lo, 0 <= lo -> lo + Z.of_nat cnt <= Z.of_nat (length l) ->
  match find_word pb l w lo cnt with
  | Some p => lo <= p < lo + Z.of_nat cnt /\ rword (nth (Z.to_nat p) l dflt) = w
  | None => forall i, lo <= i < lo + Z.of_nat cnt -> rword (nth (Z.to_nat i) l dflt) <> w
  end.
Proof.
  intros l w. induction cnt as [|c IH]; intros lo Hlo Hhi; cbn [find_word]; [intros i Hi; lia|].
  rewrite Nat2Z.inj_succ in *.
  destruct (nth_error l (Z.to_nat lo)) as [r|] eqn:E; [|apply nth_error_None in E; lia].
  assert (Er : nth (Z.to_nat lo) l dflt = r) by (apply nth_error_nth; exact E).
  destruct (Z.eqb_spec (r_word pb r) w) as [Hw|Hw].
  - split; [lia|]. rewrite Er. exact Hw.
  - specialize (IH (lo + 1) ltac:(lia) ltac:(lia)).
    destruct (find_word pb l w (lo + 1) c) as [p|].
    + destruct IH as [H1 H2]. split; [lia|exact H2].
    + intros i Hi. destruct (Z.eq_dec i lo) as [->|Hne]; [rewrite Er; exact Hw|]. apply IH. lia.
Qed.

(* ---- the whole walk ------------------------------------------------------------------------------------------------------------ *)
(* every sibling range is strictly sorted, inside the next level, and the next pointers are non-decreasing *)
Fixpoint Lok (vocab : Z) (ls : list (list (rec pb))) : Prop :=
  match ls with
  | [] => True
  | l :: rest =>
      vals_ok vocab l /\
      match rest with
      | [] => True
      | l' :: _ =>
          Z.of_nat (length l') < 2 ^ 57 /\
          (forall p, 0 <= p < Z.of_nat (length l) -> range_ok l' (nxt l (Z.of_nat (length l')) p) (nxt l (Z.of_nat (length l')) (p + 1)))
      end /\ Lok vocab rest
  end.

Lemma Lok_nx_ok : forall l l', (forall p, 0 <= p < Z.of_nat (length l) -> range_ok l' (nxt l (Z.of_nat (length l')) p) (nxt l (Z.of_nat (length l')) (p + 1))) ->
  nx_ok l (Z.of_nat (length l')).
Proof. intros l l' H p Hp. destruct (H p Hp) as [A [B [C _]]]. repeat split; assumption. Qed.

Lemma next_at_cons : forall (l : list (rec pb)) rest i p, next_at pb (l :: rest) (S i) p = next_at pb rest i p.
Proof. reflexivity. Qed.

Lemma walk_from_cons : forall ws (l : list (rec pb)) rest i lo hi cur,
  walk_from pb (l :: rest) (S i) lo hi ws cur = walk_from pb rest i lo hi ws cur.
Proof.
  induction ws as [|w ws IH]; intros l rest i lo hi cur; [reflexivity|].
  cbn [walk_from nth]. destruct (find_word pb (nth i rest []) w lo (Z.to_nat (hi - lo))) as [p|]; [|reflexivity].
  destruct (nth_error (nth i rest []) (Z.to_nat p)) as [r|]; [|reflexivity].
  rewrite next_at_cons. apply IH.
Qed.

Lemma next_at_nxt : forall (l l' : list (rec pb)) rest p, 0 <= p ->
  next_at pb (l :: l' :: rest) 0 p = nxt l (Z.of_nat (length l')) p.
Proof.
  intros l l' rest p Hp. unfold next_at, nxt, level_len. cbn [nth].
  destruct (Z.ltb_spec p (Z.of_nat (length l))) as [Hlt|Hge].
  - destruct (nth_error l (Z.to_nat p)) as [r|] eqn:E; [|apply nth_error_None in E; lia].
    rewrite (nth_error_nth _ _ dflt E). reflexivity.
  - destruct (nth_error l (Z.to_nat p)) as [r|] eqn:E; [|reflexivity].
    assert (Z.to_nat p < length l)%nat by (apply nth_error_Some; rewrite E; discriminate). lia.
Qed.

Lemma twalk_from_cur : forall array t mids lo hi w ws c1 c2,
  twalk_from array t mids lo hi (w :: ws) c1 = twalk_from array t mids lo hi (w :: ws) c2.
Proof. intros. destruct mids; reflexivity. Qed.

Lemma twalk_from_nil : forall array t mids lo hi cur, twalk_from array t mids lo hi [] cur = Some (Some (cur, lo, hi)).
Proof. intros. destruct mids; reflexivity. Qed.

Lemma mk_mids_cons : forall a c v (l l' : list (rec pb)) r,
  mk_mids a c v (l :: l' :: r) = mk_mid a c v l (Z.of_nat (length l')) :: mk_mids a c v (l' :: r).
Proof. reflexivity. Qed.

Lemma twalk_from_mid : forall array t mm mids lo hi w ws cur,
  twalk_from array t (mm :: mids) lo hi (w :: ws) cur =
  match mm_find array mm w lo hi with
  | None => None
  | Some None => Some None
  | Some (Some (_, prob, bo, cb, ce)) => twalk_from array t mids cb ce ws (prob, bo)
  end.
Proof. reflexivity. Qed.

Section Walk.
  Variable array : bool.
  Variable cfg vocab : Z.
  Hypothesis Hvocab : 0 <= vocab < 2 ^ 32.
  Hypothesis Hcfg : 0 <= cfg.
  Variable t : triemem.

  Definition norm_p (x : Z) : Z := sign_on (x mod 2 ^ 31).

  (* what the memory walk must return when the walk over the level lists returns (v, lo, hi) after `left` more levels exist *)
  Definition agrees (last_level : bool) (got : pb * Z * Z) (want : pb * Z * Z) : Prop :=
    fst (fst (fst got)) = norm_p (fst (fst (fst want))) /\
    (last_level = false -> snd (fst (fst got)) = snd (fst (fst want)) /\ snd (fst got) = snd (fst want) /\ snd got = snd want).

  Lemma twalk_from_ok : forall ls, ls <> [] ->
    tm_long_par t = {| l_base := 0; l_wb := bits_needed vocab; l_max_vocab := vocab |} ->
    tm_long t = tlong_inserts (tm_long_par t) 0 0 (last ls []) -> tm_long_count t = length (last ls []) ->
    Lok vocab ls ->
    forall ws lo hi cur, range_ok (hd [] ls) lo hi -> ws <> [] -> Forall (fun w => 0 <= w <= vocab) ws ->
    match walk_from pb ls 0 lo hi ws cur with
    | None => twalk_from array t (mk_mids array cfg vocab ls) lo hi ws cur = Some None
    | Some want => exists got, twalk_from array t (mk_mids array cfg vocab ls) lo hi ws cur = Some (Some got) /\
                               agrees (Nat.eqb (length ws) (length ls)) got want
    end.
  Proof.
    induction ls as [|l rest IH]; intros Hne Hpar Hlong Hcount HL ws lo hi cur Hrange Hws Hwv; [contradiction|].
    destruct ws as [|w ws']; [contradiction|]. inversion Hwv as [|? ? Hw Hwv']. subst.
    cbn [hd] in Hrange. destruct Hrange as [Hlo [Hlh [Hhn [Hwd Hsorted]]]].
    cbn [walk_from nth].
    pose proof (find_word_spec l w (Z.to_nat (hi - lo)) lo Hlo ltac:(lia)) as Hfw.
    replace (lo + Z.of_nat (Z.to_nat (hi - lo))) with hi in Hfw by lia.
    destruct rest as [|l' rest'].
    - (* the longest array *)
      cbn [mk_mids twalk_from]. cbn [last] in Hlong, Hcount.
      destruct HL as [Hvals _].
      destruct ws' as [|w2 ws2].
      + set (lp := {| l_base := 0; l_wb := bits_needed vocab; l_max_vocab := vocab |}) in *.
        assert (Hwb : 0 <= bits_needed vocab <= 57) by (pose proof (bits_needed_nonneg vocab); pose proof (bits_needed_le vocab 32 ltac:(lia) Hvocab); lia).
        assert (Hrecs : Forall (lrec_ok lp) l).
        { unfold vals_ok in Hvals. rewrite Forall_forall in *. intros r Hr. destruct (Hvals r Hr) as [[A B] [C D]].
          unfold lrec_ok. cbn [l_wb lp]. pose proof (bits_needed_bound vocab ltac:(lia)). split; [lia|exact C]. }
        assert (Hs : forall i j, lo <= i -> i <= j -> j < hi -> lword_of l i <= lword_of l j).
        { intros i j Hi Hij Hj. destruct (Z.eq_dec i j) as [->|Hn]; [lia|]. pose proof (Hsorted i j Hi ltac:(lia) Hj). unfold lword_of. lia. }
        assert (Hle : forall i, lo <= i < hi -> lword_of l i <= vocab).
        { intros i Hi. unfold lword_of. unfold vals_ok in Hvals. rewrite Forall_forall in Hvals.
          destruct (Hvals (nth (Z.to_nat i) l dflt)) as [[_ H] _]; [apply nth_In; lia|exact H]. }
        pose proof (tlong_refines lp ltac:(cbn; lia) ltac:(cbn [l_wb lp]; exact Hwb) l 0 Hrecs ltac:(intros i Hi; apply Z.bits_0)
                      (S (S (S (length l)))) w lo hi Hlo Hlh Hhn ltac:(cbn [l_max_vocab lp]; lia) Hs ltac:(cbn [l_max_vocab lp]; exact Hle)
                      ltac:(cbn [l_max_vocab lp]; exact Hw) Hwd ltac:(lia)) as [res [Hf Hr]].
        rewrite Hpar, Hcount, Hlong, Hpar. unfold lmem' in Hf. rewrite Hf.
        destruct res as [[p prob]|].
        * destruct Hr as [R1 [R2 R3]].
          destruct (find_word pb l w lo (Z.to_nat (hi - lo))) as [p'|].
          -- destruct Hfw as [F1 F2].
             assert (p' = p).
             { destruct (Z.lt_trichotomy p' p) as [Hlt|[He|Hgt]]; [|exact He|].
               - pose proof (Hsorted p' p ltac:(lia) Hlt ltac:(lia)). unfold lword_of in R2. lia.
               - pose proof (Hsorted p p' ltac:(lia) Hgt ltac:(lia)). unfold lword_of in R2. lia. }
             subst p'.
             destruct (nth_error l (Z.to_nat p)) as [r|] eqn:E; [|apply nth_error_None in E; lia].
             cbn [walk_from]. eexists. split; [reflexivity|].
             unfold agrees. cbn [fst snd length Nat.eqb]. split; [|discriminate].
             rewrite R3. unfold lprob_of, norm_p. rewrite (nth_error_nth _ _ dflt E). reflexivity.
          -- exfalso. apply (Hfw p ltac:(lia)). exact R2.
        * destruct (find_word pb l w lo (Z.to_nat (hi - lo))) as [p'|]; [|reflexivity].
          destruct Hfw as [F1 F2]. exfalso. apply (Hr p' ltac:(lia)). exact F2.
      + (* longer than the model's order: nothing below the longest array *)
        destruct (find_word pb l w lo (Z.to_nat (hi - lo))) as [p'|]; [|reflexivity].
        destruct (nth_error l (Z.to_nat p')) as [r|]; [|reflexivity].
        cbn [walk_from nth]. destruct (find_word pb [] w2 _ _) eqn:E0; [|reflexivity].
        exfalso. revert E0. generalize (Z.to_nat (next_at pb [l] 0 (p' + 1) - r_next pb r)). intros c. destruct c; cbn [find_word]; [discriminate|].
        destruct (Z.to_nat (r_next pb r)); discriminate.
    - (* a middle array *)
      rewrite mk_mids_cons, twalk_from_mid.
      destruct HL as [Hvals [[Hl57 Hranges] HLrest]].
      pose proof (Lok_nx_ok l l' Hranges) as Hnx.
      destruct (mm_find_spec array cfg vocab l (Z.of_nat (length l')) w lo hi Hvocab Hcfg ltac:(lia) Hvals Hnx
                  ltac:(unfold range_ok; repeat split; assumption) Hw) as [res [Hf Hr]].
      rewrite Hf. destruct res as [[[[[p prob] bo] cb] ce]|].
      + destruct Hr as [R1 [R2 [R3 [R4 [R5 R6]]]]].
        destruct (find_word pb l w lo (Z.to_nat (hi - lo))) as [p'|]; [|exfalso; apply (Hfw p ltac:(lia)); exact R2].
        destruct Hfw as [F1 F2].
        assert (p' = p).
        { destruct (Z.lt_trichotomy p' p) as [Hlt|[He|Hgt]]; [|exact He|].
          - pose proof (Hsorted p' p ltac:(lia) Hlt ltac:(lia)). lia.
          - pose proof (Hsorted p p' ltac:(lia) Hgt ltac:(lia)). lia. }
        subst p'.
        destruct (nth_error l (Z.to_nat p)) as [r|] eqn:E; [|apply nth_error_None in E; lia].
        pose proof (nth_error_nth _ _ dflt E) as Er.
        rewrite walk_from_cons, next_at_nxt by lia.
        assert (Ecb : cb = r_next pb r).
        { rewrite R5. unfold nxt. replace (p <? Z.of_nat (length l)) with true by (symmetry; apply Z.ltb_lt; lia). rewrite Er. reflexivity. }
        rewrite <- Ecb, <- R6.
        destruct ws' as [|w2 ws2].
        * rewrite twalk_from_nil. cbn [walk_from]. eexists. split; [reflexivity|].
          unfold agrees. cbn [fst snd]. rewrite R3, R4, Er. split; [reflexivity|]. intros _. repeat split; reflexivity.
        * assert (Hrg : range_ok l' cb ce) by (rewrite R5, R6; apply Hranges; lia).
          specialize (IH ltac:(discriminate) Hpar Hlong Hcount HLrest (w2 :: ws2) cb ce (rval r) Hrg ltac:(discriminate) Hwv').
          destruct (walk_from pb (l' :: rest') 0 cb ce (w2 :: ws2) (rval r)) as [want|].
          -- destruct IH as [got [G1 G2]].
             (* the payload passed down differs (sign bit), but walk_from only returns it for an empty suffix *)
             exists got. split; [|cbn [length Nat.eqb] in *; exact G2].
             rewrite <- G1. apply twalk_from_cur.
          -- rewrite <- IH. apply twalk_from_cur.
      + destruct (find_word pb l w lo (Z.to_nat (hi - lo))) as [p'|]; [|reflexivity].
        destruct Hfw as [F1 F2]. exfalso. apply (Hr p' ltac:(lia)). exact F2.
  Qed.
End Walk.

(* ---- the complete structure ---------------------------------------------------------------------------------------------------- *)
Theorem twalk_is_walk : forall (array : bool) cfg (L : levels pb) vocab,
  vocab = Z.of_nat (length (nth 0 L [])) -> vocab < 2 ^ 32 -> 0 <= cfg -> (2 <= length L)%nat -> Lok vocab L ->
  forall k, Forall (fun w => 0 <= w <= vocab) k ->
  match walk pb L k with
  | None => twalk array (mk_trie array cfg L) k = Some None
  | Some want => exists got, twalk array (mk_trie array cfg L) k = Some (Some got) /\
                             match k with
                             | [_] => got = want
                             | _ => agrees (Nat.eqb (length k) (length L)) got want
                             end
  end.
Proof.
  intros array cfg L vocab Hv Hv32 Hcfg HN HL k Hk.
  destruct L as [|l0 [|l1 rest]]; cbn [length] in HN; try lia.
  destruct k as [|w ws]; [reflexivity|]. inversion Hk as [|? ? Hw Hws]. subst x l.
  cbn [nth] in Hv.
  unfold walk, twalk, tuni_find, mk_trie. cbn [nth tm_uni tm_uni_end tm_mids tl].
  replace (0 <=? w) with true by (symmetry; apply Z.leb_le; lia).
  destruct (nth_error l0 (Z.to_nat w)) as [r|] eqn:E; [|reflexivity].
  assert (Hwl : w < Z.of_nat (length l0)) by (assert (Z.to_nat w < length l0)%nat by (apply nth_error_Some; rewrite E; discriminate); lia).
  rewrite walk_from_cons.
  assert (Ehi : match nth_error l0 (Z.to_nat (w + 1)) with Some r' => r_next pb r' | None => level_len pb (l0 :: l1 :: rest) 1 end
                = next_at pb (l0 :: l1 :: rest) 0 (w + 1)) by reflexivity.
  rewrite Ehi, next_at_nxt by lia.
  destruct HL as [Hvals0 [[Hl57 Hranges] HLrest]].
  assert (Elo : r_next pb r = nxt l0 (Z.of_nat (length l1)) w).
  { unfold nxt. replace (w <? Z.of_nat (length l0)) with true by (symmetry; apply Z.ltb_lt; lia). rewrite (nth_error_nth _ _ dflt E). reflexivity. }
  rewrite Elo.
  destruct ws as [|w2 ws2].
  - cbn [walk_from]. rewrite twalk_from_nil. eexists. split; reflexivity.
  - set (t := {| tm_uni := l0; tm_uni_end := level_len pb (l0 :: l1 :: rest) 1; tm_mids := mk_mids array cfg vocab (l1 :: rest);
                 tm_long_par := {| l_base := 0; l_wb := bits_needed vocab; l_max_vocab := vocab |};
                 tm_long := tlong_inserts {| l_base := 0; l_wb := bits_needed vocab; l_max_vocab := vocab |} 0 0 (last (l0 :: l1 :: rest) []);
                 tm_long_count := length (last (l0 :: l1 :: rest) []) |}).
    assert (Hlast : last (l0 :: l1 :: rest) [] = last (l1 :: rest) []) by reflexivity.
    pose proof (twalk_from_ok array cfg vocab ltac:(lia) Hcfg t (l1 :: rest) ltac:(discriminate) eq_refl
                  ltac:(cbn [tm_long tm_long_par t]; rewrite Hlast; reflexivity) ltac:(cbn [tm_long_count t]; rewrite Hlast; reflexivity) HLrest
                  (w2 :: ws2) (nxt l0 (Z.of_nat (length l1)) w) (nxt l0 (Z.of_nat (length l1)) (w + 1)) (r_val pb r)
                  ltac:(cbn [hd]; apply Hranges; lia) ltac:(discriminate) Hws) as H.
    rewrite <- Hv. fold t.
    destruct (walk_from pb (l1 :: rest) 0 _ _ (w2 :: ws2) (r_val pb r)) as [want|]; [|exact H].
    destruct H as [got [G1 G2]]. exists got. split; [exact G1|]. cbn [length Nat.eqb] in *. exact G2.
Qed.
