(* C03/TrieTableEnd.v -- from a TABLE of n-grams to the memory of its trie: trie_memory_is_table.
   For every table with distinct, prefix-closed keys over word ids 0 .. V-1 (every id a unigram), 32-bit payloads, order <= n and
   fewer than 2^57 key words in total: the lookup over the bit-level memory of the trie laid out from the table's forest
   (of_table, keys inserted in any order) finds an n-gram exactly when the table lists it, with the table's payload. *)
From Coq Require Import ZArith Lia Bool List.
From Kenlm Require Import C03.TrieLayout C03.TrieLayoutProofs C03.TrieMem C03.TrieMemProofs C03.TrieWalkProofs C03.TrieBuiltOk C03.TrieTableProofs.
Import ListNotations.
Local Open Scope Z_scope.
Arguments Z.of_nat : simpl never.
Arguments Z.pow : simpl never.

Notation pfinsert := (finsert pb (0, 0)).

Lemma sorted_from_is_fsorted : forall f lb, sorted_from pb lb f <-> fsorted_from lb f.
Proof.
  induction f as [|w v c IHc s IHs]; intros lb; cbn [sorted_from fsorted_from]; [tauto|]. rewrite IHc, IHs. tauto.
Qed.

(* ---- payload and word bounds are preserved by insertion ------------------------------------------------------------------------- *)
Definition pv_ok (v : pb) : Prop := 0 <= fst v < 2 ^ 32 /\ 0 <= snd v < 2 ^ 32.

Lemma finsert_fvals : forall vocab k v f, Forall (fun w => 0 <= w <= vocab) k -> pv_ok v -> fvals vocab f -> fvals vocab (pfinsert k v f).
Proof.
  intros vocab. induction k as [|w ks IHk]; intros v f Hk Hv Hf; [exact Hf|].
  inversion Hk as [|? ? Hw Hks]. subst.
  assert (Hdv : pv_ok (0, 0)) by (unfold pv_ok; cbn [fst snd]; lia).
  assert (Hnew : pv_ok (match ks with [] => v | _ :: _ => (0, 0) end)) by (destruct ks; assumption).
  induction f as [|w' v' c _ s IHs]; rewrite finsert_cons.
  - cbn [fvals]. split; [split; [exact Hw|exact Hnew]|]. split; [apply IHk; [exact Hks|exact Hv|exact I]|exact I].
  - cbn [fvals] in Hf. destruct Hf as [[W P] [C S]].
    destruct (w <? w').
    + cbn [fvals]. split; [split; [exact Hw|exact Hnew]|]. split; [apply IHk; [exact Hks|exact Hv|exact I]|].
      split; [split; assumption|split; assumption].
    + destruct (w =? w').
      * cbn [fvals]. split; [split; [exact W|destruct ks; assumption]|]. split; [apply IHk; assumption|exact S].
      * cbn [fvals]. split; [split; assumption|]. split; [exact C|apply IHs; exact S].
Qed.

Lemma finsert_depth : forall k v (f : forest pb), (depth pb (pfinsert k v f) <= Nat.max (length k) (depth pb f))%nat.
Proof.
  induction k as [|w ks IHk]; intros v f; [cbn [length]; rewrite finsert_nil; lia|].
  induction f as [|w' v' c _ s IHs]; rewrite finsert_cons.
  - cbn [depth length]. pose proof (IHk v FNil). cbn [depth] in *. lia.
  - destruct (w <? w').
    + cbn [depth length]. pose proof (IHk v FNil). cbn [depth] in *. lia.
    + destruct (w =? w').
      * cbn [depth length]. pose proof (IHk v c). lia.
      * cbn [depth length] in *. lia.
Qed.

(* number of nodes *)
Fixpoint fsize (f : forest pb) : nat := match f with FNil => O | FCons _ _ c s => S (fsize c + fsize s) end.

Lemma finsert_size : forall k v f, (fsize (pfinsert k v f) <= fsize f + length k)%nat.
Proof.
  induction k as [|w ks IHk]; intros v f; [rewrite finsert_nil; lia|].
  induction f as [|w' v' c _ s IHs]; rewrite finsert_cons.
  - cbn [fsize length]. pose proof (IHk v FNil). cbn [fsize] in *. lia.
  - destruct (w <? w').
    + cbn [fsize length]. pose proof (IHk v FNil). cbn [fsize] in *. lia.
    + destruct (w =? w').
      * cbn [fsize length]. pose proof (IHk v c). lia.
      * cbn [fsize length] in *. lia.
Qed.

Lemma lev_size : forall f j, (length (lev pb j f) <= fsize f)%nat.
Proof.
  induction f as [|w v c IHc s IHs]; intros j; [cbn [lev fsize length]; lia|].
  cbn [lev fsize]. rewrite app_length. specialize (IHs j). destruct j as [|j']; [cbn [length]; unfold node in *; lia|]. specialize (IHc j'). unfold node in *. lia.
Qed.

Definition key_words (t : list (list Z * pb)) : nat := fold_right (fun kv acc => (length (fst kv) + acc)%nat) O t.

Lemma of_table_facts : forall vocab n (t : list (list Z * pb)) (f : forest pb),
  Forall (fun kv => Forall (fun w => 0 <= w <= vocab) (fst kv) /\ pv_ok (snd kv) /\ (length (fst kv) <= n)%nat) t ->
  fvals vocab f -> (depth pb f <= n)%nat ->
  let F := fold_left (fun f kv => pfinsert (fst kv) (snd kv) f) t f in
  fvals vocab F /\ (depth pb F <= n)%nat /\ (fsize F <= fsize f + key_words t)%nat.
Proof.
  intros vocab n. induction t as [|[k v] r IH]; intros f Ht Hf Hd; cbn [fold_left key_words fold_right]; [repeat split; try assumption; lia|].
  inversion Ht as [|? ? [Hk [Hv Hl]] Hr]. subst. cbn [fst snd] in *.
  destruct (IH (pfinsert k v f) Hr (finsert_fvals vocab k v f Hk Hv Hf) ltac:(pose proof (finsert_depth k v f); lia)) as [A [B C]].
  split; [exact A|]. split; [exact B|]. pose proof (finsert_size k v f). fold (key_words r). lia.
Qed.

(* ---- the theorem ------------------------------------------------------------------------------------------------------------------ *)
Theorem trie_memory_is_table : forall (array : bool) cfg n V (t : list (list Z * pb)),
  (2 <= n)%nat -> 0 <= V < 2 ^ 32 -> 0 <= cfg ->
  table_ok pb t -> (forall w, In [w] (map fst t) <-> 0 <= w < V) ->
  Forall (fun kv => Forall (fun w => 0 <= w <= V) (fst kv) /\ pv_ok (snd kv) /\ (length (fst kv) <= n)%nat) t ->
  Z.of_nat (key_words t) < 2 ^ 57 ->
  let mem := mk_trie array cfg (built pb n (of_table pb (0, 0) t)) in
  forall k, k <> [] -> Forall (fun w => 0 <= w <= V) k ->
  match assoc pb t k with
  | None => twalk array mem k = Some None
  | Some v =>
      exists got, twalk array mem k = Some (Some got) /\
        match k with
        | [_] => fst (fst got) = v
        | _ => fst (fst (fst got)) = norm_p (fst v) /\ (Nat.eqb (length k) n = false -> snd (fst (fst got)) = snd v)
        end
  end.
Proof.
  intros array cfg n V t Hn HV Hcfg Hok Huni Hall Hsize mem k Hk Hkw.
  destruct (lookup_of_table pb (0, 0) t Hok) as [Hs Hl].
  destruct (of_table_dense pb (0, 0) t V Hok Huni) as [Hd Hlen].
  rewrite Z.max_r in Hlen by lia.
  destruct (of_table_facts V n t FNil Hall I ltac:(cbn; lia)) as [Hv [Hdep Hsz]]. cbn [fsize] in Hsz.
  fold (of_table pb (0, 0) t) in Hv, Hdep, Hsz.
  set (F := of_table pb (0, 0) t) in *.
  pose proof (trie_memory_is_forest_lookup array cfg n F Hn Hdep Hd ltac:(apply sorted_from_is_fsorted; exact Hs)
                ltac:(rewrite Hlen; exact Hv) ltac:(rewrite Hlen; lia) Hcfg
                ltac:(intros j; pose proof (lev_size F j); lia) k ltac:(rewrite Hlen; exact Hkw)) as H.
  specialize (Hl k Hk). unfold lookupv in Hl.
  destruct (lookup pb F k) as [[v c]|]; cbn [option_map fst] in Hl; rewrite <- Hl.
  - destruct H as [got [G1 G2]]. exists got. split; [exact G1|].
    destruct k as [|w [|w2 ws]]; [contradiction| |].
    + destruct G2 as [A _]. exact A.
    + destruct G2 as [A B]. split; [exact A|]. intros Hne. destruct (B Hne) as [B1 _]. exact B1.
  - exact H.
Qed.

(* ---- float bit patterns of the scores (C03/TrieImage.v) --------------------------------------------------------------------------- *)
From Kenlm Require Import C03.TrieImage.
Lemma f32_of_units_range : forall z, - 2 ^ 24 < z < 2 ^ 24 -> 0 <= f32_of_units z < 2 ^ 32.
Proof.
  intros z Hz. unfold f32_of_units. destruct (Z.eqb_spec z 0); [lia|].
  set (m := Z.abs z). assert (Hm : 0 < m < 2 ^ 24) by (unfold m; lia).
  set (e := Z.log2 m). assert (He : 0 <= e < 24).
  { unfold e. split; [apply Z.log2_nonneg|]. apply Z.log2_lt_pow2; lia. }
  replace (e <=? 23) with true by (symmetry; apply Z.leb_le; lia).
  assert (Hmant : 0 <= Z.shiftl m (23 - e) - 8388608 < 8388608).
  { rewrite Z.shiftl_mul_pow2 by lia. destruct (Z.log2_spec m ltac:(lia)) as [L1 L2]. fold e in L1, L2.
    replace (Z.succ e) with (e + 1) in L2 by lia.
    assert (P : 2 ^ e * 2 ^ (23 - e) = 8388608) by (rewrite <- Z.pow_add_r by lia; replace (e + (23 - e)) with 23 by lia; reflexivity).
    assert (P2 : 2 ^ (e + 1) = 2 * 2 ^ e) by (rewrite Z.pow_add_r by lia; lia).
    assert (0 < 2 ^ (23 - e)) by (apply Z.pow_pos_nonneg; lia). nia. }
  assert (Hexp : 0 <= Z.shiftl (e - 6 + 127) 23 <= 144 * 8388608).
  { rewrite Z.shiftl_mul_pow2 by lia. change (2 ^ 23) with 8388608. nia. }
  change (2 ^ 32) with 4294967296. destruct (z <? 0); lia.
Qed.
