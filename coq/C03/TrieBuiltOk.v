(* C03/TrieBuiltOk.v -- the level lists built from a forest whose sibling chains are strictly sorted by word (what sorting the n-gram
   files and RecursiveInsert's merge guarantee) satisfy the layout invariant `Lok` of C03/TrieWalkProofs.v; hence the lookup over the
   MEMORY of the trie built from the forest returns what the lookup in the forest returns:  trie_memory_is_forest_lookup. *)
From Coq Require Import ZArith Lia Bool List.
From Kenlm Require Import C03.TrieLayout C03.TrieLayoutProofs C03.TrieMem C03.TrieMemProofs C03.TrieWalkProofs.
Import ListNotations.
Local Open Scope Z_scope.
Arguments Z.of_nat : simpl never.
Arguments Z.pow : simpl never.

Notation pforest := (forest pb).

(* siblings strictly increasing (above an exclusive lower bound), recursively; payloads and words in range *)
Fixpoint fsorted_from (lb : Z) (f : pforest) : Prop :=
  match f with
  | FNil => True
  | FCons w v c s => lb < w /\ fsorted_from (-1) c /\ fsorted_from w s
  end.
Fixpoint fvals (vocab : Z) (f : pforest) : Prop :=
  match f with
  | FNil => True
  | FCons w v c s => (0 <= w <= vocab /\ 0 <= fst v < 2 ^ 32 /\ 0 <= snd v < 2 ^ 32) /\ fvals vocab c /\ fvals vocab s
  end.

Definition node_ok (vocab : Z) (n : node pb) : Prop :=
  (0 <= fst (fst n) <= vocab /\ 0 <= fst (snd (fst n)) < 2 ^ 32 /\ 0 <= snd (snd (fst n)) < 2 ^ 32) /\
  fsorted_from (-1) (snd n) /\ fvals vocab (snd n).

Lemma lev_nodes_ok : forall vocab f lb j, fsorted_from lb f -> fvals vocab f -> Forall (node_ok vocab) (lev pb j f).
Proof.
  intros vocab. induction f as [|w v c IHc s IHs]; intros lb j Hs Hv; [constructor|].
  cbn [fsorted_from fvals] in Hs, Hv. destruct Hs as [_ [Sc Ss]]. destruct Hv as [Vn [Vc Vs]].
  cbn [lev]. apply Forall_app. split; [|apply (IHs w); assumption].
  destruct j as [|j']; [|apply (IHc (-1)); assumption].
  constructor; [|constructor]. unfold node_ok. cbn [fst snd]. repeat split; try assumption; lia.
Qed.

Lemma chain_increasing : forall f lb i j n1 n2, fsorted_from lb f -> (i < j)%nat ->
  nth_error (chain pb f) i = Some n1 -> nth_error (chain pb f) j = Some n2 -> lb < fst (fst n1) /\ fst (fst n1) < fst (fst n2).
Proof.
  induction f as [|w v c _ s IHs]; intros lb i j n1 n2 Hs Hij H1 H2; [destruct i; discriminate|].
  cbn [fsorted_from] in Hs. destruct Hs as [Hlb [_ Ss]]. cbn [chain] in H1, H2.
  destruct j as [|j']; [lia|]. cbn [nth_error] in H2.
  destruct i as [|i']; cbn [nth_error] in H1.
  - inversion H1. subst n1. cbn [fst]. split; [exact Hlb|].
    (* n2 is somewhere in s: above w *)
    clear - Ss H2. revert j' n2 H2 Ss. generalize w. induction s as [|w' v' c' _ s' IH]; intros w0 j' n2 H2 Ss; [destruct j'; discriminate|].
    cbn [fsorted_from] in Ss. destruct Ss as [Hlt [_ Ss']]. destruct j' as [|j'']; cbn [chain nth_error] in H2.
    + inversion H2. cbn [fst]. exact Hlt.
    + specialize (IH w' j'' n2 H2 Ss'). lia.
  - destruct (IHs w i' j' n1 n2 Ss ltac:(lia) H1 H2) as [A B]. split; lia.
Qed.

Lemma chain_first_above : forall f lb i n, fsorted_from lb f -> nth_error (chain pb f) i = Some n -> lb < fst (fst n).
Proof.
  induction f as [|w v c _ s IHs]; intros lb i n Hs H; [destruct i; discriminate|].
  cbn [fsorted_from] in Hs. destruct Hs as [Hlb [_ Ss]]. destruct i as [|i']; cbn [chain nth_error] in H.
  - inversion H. cbn [fst]. exact Hlb.
  - specialize (IHs w i' n Ss H). lia.
Qed.

Lemma chain_len_bound : forall vocab f lb, -1 <= lb -> fsorted_from lb f -> fvals vocab f -> flen pb f <= Z.max 0 (vocab - lb).
Proof.
  intros vocab. induction f as [|w v c _ s IHs]; intros lb Hlb Hs Hv; cbn [flen]; [lia|].
  cbn [fsorted_from fvals] in Hs, Hv. destruct Hs as [Hw [_ Ss]]. destruct Hv as [[[W0 W1] _] [_ Vs]].
  specialize (IHs w ltac:(lia) Ss Vs). lia.
Qed.

Lemma recs_of_vals_ok : forall vocab ns base, Forall (node_ok vocab) ns -> vals_ok vocab (recs_of pb base ns).
Proof.
  intros vocab ns. induction ns as [|n r IH]; intros base H; cbn [recs_of]; [constructor|].
  inversion H as [|? ? [Hn _] Hr]. subst. constructor; [cbn [r_word r_val]; exact Hn|apply IH; exact Hr].
Qed.

(* ---- Lok from per-level facts ------------------------------------------------------------------------------------------------ *)
Lemma Lok_nth : forall vocab ls,
  (forall j, (j < length ls)%nat -> vals_ok vocab (nth j ls [])) ->
  (forall j, (S j < length ls)%nat ->
     Z.of_nat (length (nth (S j) ls [])) < 2 ^ 57 /\
     forall p, 0 <= p < Z.of_nat (length (nth j ls [])) ->
       range_ok (nth (S j) ls []) (nxt (nth j ls []) (Z.of_nat (length (nth (S j) ls []))) p)
                                  (nxt (nth j ls []) (Z.of_nat (length (nth (S j) ls []))) (p + 1))) ->
  Lok vocab ls.
Proof.
  intros vocab. induction ls as [|l rest IH]; intros Hv Hr; [exact I|].
  cbn [Lok]. split; [apply (Hv O); cbn [length]; lia|]. split.
  - destruct rest as [|l' rest']; [exact I|]. apply (Hr O). cbn [length]. lia.
  - apply IH.
    + intros j Hj. apply (Hv (S j)). cbn [length]. lia.
    + intros j Hj. apply (Hr (S j)). cbn [length]. lia.
Qed.

Section Built.
  Variable N_levels : nat.
  Variable F : pforest.
  Variable vocab : Z.
  Hypothesis Hdepth : (depth pb F <= N_levels)%nat.
  Hypothesis Hsorted : fsorted_from (-1) F.
  Hypothesis Hvals : fvals vocab F.
  Hypothesis Hvocab : 0 <= vocab < 2 ^ 32.
  Hypothesis Hsize : forall j, Z.of_nat (length (lev pb j F)) < 2 ^ 57.
  Let L := built pb N_levels F.

  Lemma L_length : length L = N_levels.
  Proof.
    unfold L, built. destruct (flat_spec pb F 0 (repeat [] N_levels) ltac:(rewrite repeat_length; lia)) as [H _].
    rewrite H, repeat_length. reflexivity.
  Qed.

  Lemma Lj : forall j, nth j L [] = recs_of pb 0 (lev pb j F).
  Proof. intros. apply L_level. exact Hdepth. Qed.

  Lemma Lj_len : forall j, length (nth j L []) = length (lev pb j F).
  Proof. intros. rewrite Lj. apply recs_of_length. Qed.

  Lemma Lj_nth : forall j p n, nth_error (lev pb j F) p = Some n ->
    nth p (nth j L []) dflt = {| r_word := fst (fst n); r_val := snd (fst n); r_next := kids pb (firstn p (lev pb j F)) |}.
  Proof.
    intros j p n H. rewrite Lj. apply nth_error_nth. rewrite (nth_error_recs_of pb _ 0 _ _ H). rewrite Z.add_0_l. reflexivity.
  Qed.

  Lemma nxt_L : forall j p, (p <= length (lev pb j F))%nat ->
    nxt (nth j L []) (Z.of_nat (length (nth (S j) L []))) (Z.of_nat p) = kids pb (firstn p (lev pb j F)).
  Proof.
    intros j p Hp. unfold nxt. rewrite !Lj_len, Nat2Z.id.
    destruct (Z.ltb_spec (Z.of_nat p) (Z.of_nat (length (lev pb j F)))) as [Hlt|Hge].
    - destruct (nth_error (lev pb j F) p) as [n|] eqn:E; [|apply nth_error_None in E; lia].
      rewrite (Lj_nth _ _ _ E). reflexivity.
    - rewrite firstn_all2 by lia. rewrite kids_lev. reflexivity.
  Qed.

  Lemma vals_ok_L : forall j, vals_ok vocab (nth j L []).
  Proof.
    intros j. rewrite Lj. apply recs_of_vals_ok. apply (lev_nodes_ok vocab F (-1) j Hsorted Hvals).
  Qed.

  Lemma kids_firstn_le : forall (l : list (node pb)) p, kids pb (firstn p l) <= kids pb l.
  Proof.
    intros l p. rewrite <- (firstn_skipn p l) at 2. rewrite kids_app. pose proof (kids_nonneg pb (skipn p l)). lia.
  Qed.

  Lemma range_ok_L : forall j p, 0 <= p < Z.of_nat (length (nth j L [])) ->
    range_ok (nth (S j) L []) (nxt (nth j L []) (Z.of_nat (length (nth (S j) L []))) p)
                              (nxt (nth j L []) (Z.of_nat (length (nth (S j) L []))) (p + 1)).
  Proof.
    intros j p Hp. rewrite Lj_len in Hp.
    replace p with (Z.of_nat (Z.to_nat p)) by lia. replace (Z.of_nat (Z.to_nat p) + 1) with (Z.of_nat (S (Z.to_nat p))) by lia.
    set (q := Z.to_nat p). assert (Hq : (q < length (lev pb j F))%nat) by (unfold q; lia).
    rewrite !nxt_L by lia.
    destruct (nth_error (lev pb j F) q) as [n|] eqn:E; [|apply nth_error_None in E; lia].
    rewrite (firstn_S_nth_error _ _ _ _ E), kids_app. cbn [kids fold_right]. rewrite Z.add_0_r.
    set (lo := kids pb (firstn q (lev pb j F))).
    assert (Hlo : 0 <= lo) by apply kids_nonneg.
    pose proof (lev_nodes_ok vocab F (-1) j Hsorted Hvals) as Hnodes. rewrite Forall_forall in Hnodes.
    destruct (Hnodes n (nth_error_In _ _ E)) as [_ [Sc Vc]].
    assert (Hk : 0 <= kidsn pb n) by apply flen_nonneg.
    assert (Hhi : lo + kidsn pb n <= Z.of_nat (length (nth (S j) L []))).
    { rewrite Lj_len, <- kids_lev. pose proof (kids_firstn_le (lev pb j F) (S q)) as H.
      rewrite (firstn_S_nth_error _ _ _ _ E), kids_app in H. cbn [kids fold_right] in H. fold lo in H. lia. }
    pose proof (chain_len_bound vocab (snd n) (-1) ltac:(lia) Sc Vc) as Hlen. unfold kidsn.
    split; [exact Hlo|]. split; [unfold kidsn in Hk; lia|]. split; [exact Hhi|]. split; [lia|].
    (* strictly sorted: positions lo.. hold the child chain *)
    pose proof (Seg_children pb F j q n E) as HS. fold lo in HS.
    intros a b Ha Hab Hb.
    assert (Ea : nth_error (lev pb (S j) F) (Z.to_nat a) = nth_error (chain pb (snd n)) (Z.to_nat (a - lo))).
    { specialize (HS (Z.to_nat (a - lo)) ltac:(rewrite <- Nat2Z.id, <- flen_chain; lia)).
      replace (Z.to_nat lo + Z.to_nat (a - lo))%nat with (Z.to_nat a) in HS by lia. exact HS. }
    assert (Eb : nth_error (lev pb (S j) F) (Z.to_nat b) = nth_error (chain pb (snd n)) (Z.to_nat (b - lo))).
    { specialize (HS (Z.to_nat (b - lo)) ltac:(rewrite <- Nat2Z.id, <- flen_chain; lia)).
      replace (Z.to_nat lo + Z.to_nat (b - lo))%nat with (Z.to_nat b) in HS by lia. exact HS. }
    destruct (nth_error (chain pb (snd n)) (Z.to_nat (a - lo))) as [na|] eqn:Ca;
      [|apply nth_error_None in Ca; pose proof (flen_chain pb (snd n)); unfold kidsn in *; lia].
    destruct (nth_error (chain pb (snd n)) (Z.to_nat (b - lo))) as [nb|] eqn:Cb;
      [|apply nth_error_None in Cb; pose proof (flen_chain pb (snd n)); unfold kidsn in *; lia].
    rewrite (Lj_nth _ _ _ Ea), (Lj_nth _ _ _ Eb). cbn [r_word].
    destruct (chain_increasing (snd n) (-1) (Z.to_nat (a - lo)) (Z.to_nat (b - lo)) na nb Sc ltac:(lia) Ca Cb) as [_ H]. exact H.
  Qed.

  Theorem built_Lok : Lok vocab L.
  Proof.
    apply Lok_nth.
    - intros j _. apply vals_ok_L.
    - intros j _. split; [rewrite Lj_len; apply Hsize|]. apply range_ok_L.
  Qed.
End Built.

(* ---- memory of the trie built from a forest = lookup in the forest -------------------------------------------------------------- *)
Theorem trie_memory_is_forest_lookup : forall (array : bool) cfg n (F : pforest),
  let vocab := flen pb F in
  (2 <= n)%nat -> (depth pb F <= n)%nat -> dense_from pb 0 F -> fsorted_from (-1) F -> fvals vocab F ->
  vocab < 2 ^ 32 -> 0 <= cfg -> (forall j, Z.of_nat (length (lev pb j F)) < 2 ^ 57) ->
  forall k, Forall (fun w => 0 <= w <= vocab) k ->
  match lookup pb F k with
  | None => twalk array (mk_trie array cfg (built pb n F)) k = Some None
  | Some (v, c) =>
      exists got, twalk array (mk_trie array cfg (built pb n F)) k = Some (Some got) /\
        match k with
        | [_] => fst (fst got) = v /\ snd got - snd (fst got) = flen pb c
        | _ => fst (fst (fst got)) = norm_p (fst v) /\
               (Nat.eqb (length k) n = false -> snd (fst (fst got)) = snd v /\ snd got - snd (fst got) = flen pb c)
        end
  end.
Proof.
  intros array cfg n F vocab Hn Hd Hdense Hs Hv Hv32 Hcfg Hsize k Hk.
  assert (Hvoc0 : 0 <= vocab) by apply flen_nonneg.
  pose proof (built_Lok n F vocab Hd Hs Hv ltac:(lia) Hsize) as HL.
  assert (Elen : length (built pb n F) = n) by (apply L_length; exact Hd).
  assert (Evoc : vocab = Z.of_nat (length (nth 0 (built pb n F) []))).
  { rewrite (Lj_len n F Hd), lev_0. apply flen_chain. }
  pose proof (twalk_is_walk array cfg (built pb n F) vocab Evoc Hv32 Hcfg ltac:(lia) HL k Hk) as Hw.
  pose proof (walk_correct pb n F Hd Hdense k) as Hc.
  destruct (lookup pb F k) as [[v c]|].
  - destruct Hc as [lo Hc]. rewrite Hc in Hw. destruct Hw as [got [G1 G2]]. exists got. split; [exact G1|].
    destruct k as [|w [|w2 ws]].
    + destruct G2 as [A B]. cbn [fst snd] in *. split; [exact A|]. intros Hne. rewrite Elen in B. destruct (B Hne) as [B1 [B2 B3]]. rewrite B1, B2, B3. split; [reflexivity|lia].
    + subst got. cbn [fst snd]. split; [reflexivity|lia].
    + destruct G2 as [A B]. cbn [fst snd] in *. split; [exact A|]. intros Hne. rewrite Elen in B. destruct (B Hne) as [B1 [B2 B3]]. rewrite B1, B2, B3. split; [reflexivity|lia].
  - rewrite Hc in Hw. exact Hw.
Qed.
