(* LM/ChartProofs.v -- proofs about the RuleScore model (LM/Chart.v). *)
From Coq Require Import List ZArith NArith Bool Arith Lia.
From Kenlm Require Import LM.Defs LM.Query LM.QueryProofs LM.Chart.
Import ListNotations.
Local Open Scope Z_scope.

Section ChartProofs.
  Variable n : nat.
  Variable T : table.
  Variable dr : bool.
  Variable bos_state : state.

  (* the inner loop of eval_tree, named *)
  Fixpoint run_items (first bos fast : bool) (r : rs) (l : list item) : rs :=
    match l with
    | [] => r
    | Term w :: l' => run_items false bos fast (rs_terminal n T r w) l'
    | Sub t' :: l' =>
        let '(c, p) := eval_tree n T dr bos_state t' in
        run_items false bos fast (if andb first (andb fast (negb bos)) then rs_begin_nonterminal c p else rs_nonterminal n T dr r c p) l'
    end.

  Lemma eval_tree_unfold : forall bos fast items,
    eval_tree n T dr bos_state (Rule bos fast items) =
    rs_finish n (run_items true bos fast (if bos then rs_begin_sentence bos_state rs_init else rs_init) items).
  Proof.
    intros bos fast items. cbn [eval_tree]. f_equal.
    generalize (if bos then rs_begin_sentence bos_state rs_init else rs_init). generalize true.
    induction items as [|i items IH]; intros f r; [reflexivity|].
    destruct i as [w|t']; cbn [run_items].
    - apply IH.
    - destruct (eval_tree n T dr bos_state t') as [c p]. apply IH.
  Qed.

  (* once the left state is complete, terminals are plain FullScore calls *)
  Lemma run_terminals_done : forall ws f bos fast r, rs_done r = true ->
    run_items f bos fast r (map Term ws) =
    {| rs_ptrs := rs_ptrs r; rs_right := snd (score_seq n T (rs_right r) ws); rs_done := true;
       rs_prob := rs_prob r + fold_right Z.add 0 (fst (score_seq n T (rs_right r) ws)) |}.
  Proof.
    induction ws as [|w ws IH]; intros f bos fast r Hd.
    - cbn. destruct r; cbn in *. subst. f_equal. lia.
    - cbn [map run_items score_seq]. unfold rs_terminal. rewrite Hd.
      destruct (full_score n T (rs_right r) w) as [ret out] eqn:EF.
      rewrite IH by reflexivity. cbn [rs_ptrs rs_right rs_prob].
      destruct (score_seq n T out ws) as [ps final]. cbn [fst snd fold_right]. f_equal. lia.
  Qed.

  Theorem terminals_after_bos : forall ws,
    eval_tree n T dr bos_state (Rule true false (map Term ws)) =
    ({| c_left := {| l_ptrs := []; l_full := true |}; c_right := snd (score_seq n T bos_state ws) |},
     fold_right Z.add 0 (fst (score_seq n T bos_state ws))).
  Proof.
    intros ws. rewrite eval_tree_unfold. rewrite run_terminals_done by reflexivity.
    unfold rs_finish. cbn. reflexivity.
  Qed.
End ChartProofs.

(* ---- a rule that STARTS with a sub-derivation continues that fragment ------------------------------------ *)
Section StartNonTerminal.
  Variable n : nat.
  Variable T : table.
  Variable dr : bool.

  (* the rule state a finished fragment stands for (Finish only adds "full when N-1 pointers") *)
  Definition resume_of (c : chart) (p : Z) : rs :=
    {| rs_ptrs := l_ptrs (c_left c); rs_right := c_right c; rs_done := l_full (c_left c); rs_prob := p |}.

  (* BeginNonTerminal is exactly that *)
  Lemma begin_nonterminal_is_resume : forall c p, rs_begin_nonterminal c p = resume_of c p.
  Proof. reflexivity. Qed.

  (* and so is NonTerminal applied to the initial (empty) rule state, for every chart state a fragment can leave:
     either it has pointers, or it is complete, or it is the empty fragment (null right state) *)
  Lemma nonterminal_from_init : forall c p,
    (l_ptrs (c_left c) = [] -> l_full (c_left c) = false -> c_right c = null_state) ->
    rs_nonterminal n T dr rs_init c p = resume_of c p.
  Proof.
    intros [[ptrs full] right] p Hempty. unfold rs_nonterminal, resume_of. cbn [c_left c_right l_ptrs l_full rs_init rs_prob rs_right rs_ptrs rs_done s_words s_bo null_state] in *.
    destruct ptrs as [|p0 ps].
    - destruct full.
      + cbn. f_equal; lia.
      + rewrite (Hempty eq_refl eq_refl). cbn. f_equal; lia.
    - cbn. reflexivity.
  Qed.
End StartNonTerminal.
