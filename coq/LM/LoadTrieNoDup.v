(* LM/LoadTrieNoDup.v -- the table the trie loader model produces lists every key once, when the file lists every n-gram once:
   the real keys are the file's, the blanks are deduplicated and never real. *)
From Coq Require Import List ZArith NArith Bool Arith Lia.
From Kenlm Require Import LM.Defs LM.Load LM.LoadTrieProofs.
Import ListNotations.

Lemma dedup_nodup : forall l acc, NoDup acc -> NoDup (dedup l acc).
Proof.
  induction l as [|k r IH]; intros acc H; cbn [dedup].
  - apply NoDup_rev. exact H.
  - destruct (mem_key k acc) eqn:E; [apply IH; exact H|].
    apply IH. constructor; [|exact H]. intros Hin. apply mem_key_true in Hin. congruence.
Qed.

Lemma nodup_app : forall (A : Type) (a b : list A), NoDup a -> NoDup b -> (forall x, In x a -> ~ In x b) -> NoDup (a ++ b).
Proof.
  induction a as [|x a IH]; intros b Ha Hb Hd; [exact Hb|].
  inversion Ha as [|? ? Hx Ha']. subst. cbn [app]. constructor.
  - intros Hin. apply in_app_or in Hin. destruct Hin as [H|H]; [contradiction|]. apply (Hd x); [left; reflexivity|exact H].
  - apply IH; [exact Ha'|exact Hb|]. intros y Hy. apply Hd. right. exact Hy.
Qed.

Lemma trie_tbl_nodup : forall N unigrams higher mk, (2 <= N)%nat ->
  NoDup (map g_key (unigrams ++ concat higher)) -> NoDup (map fst (trie_tbl N unigrams higher mk)).
Proof.
  intros N unigrams higher mk HN Hnd. unfold trie_tbl. rewrite map_app.
  set (reals := reals_gen mk (unigrams ++ concat higher)).
  assert (Ekeys : map fst reals = map g_key (unigrams ++ concat higher)).
  { unfold reals, reals_gen. rewrite map_map. reflexivity. }
  match goal with |- NoDup (map fst (map ?f reals) ++ map fst (map ?g ?bl)) =>
    assert (E1 : map fst (map f reals) = map fst reals) by (rewrite map_map; apply map_ext; intros; reflexivity);
    assert (E2 : map fst (map g bl) = bl) by (rewrite map_map; cbn [fst]; apply map_id)
  end.
  rewrite E1, E2.
  apply nodup_app.
  - rewrite Ekeys. exact Hnd.
  - apply dedup_nodup. constructor.
  - intros k Hk Hb. apply (blank_iff N HN unigrams higher mk k) in Hb. destruct Hb as [Hnone _].
    apply (real_key_in unigrams higher mk k) in Hk. contradiction.
Qed.

Theorem load_trie_nodup : forall N up unigrams higher t, (2 <= N)%nat ->
  NoDup (map g_key (unigrams ++ concat higher)) ->
  load_trie N true up unigrams higher = Loaded t -> NoDup (map fst t).
Proof.
  intros N up unigrams higher t HN Hnd Hload. rewrite load_trie_unfold in Hload.
  destruct (negb _); [discriminate|]. injection Hload as <-. apply trie_tbl_nodup; assumption.
Qed.
