(* LM/LoadProbingProofs.v -- the probing loader model (LM/Load.v load_probing: file-order insertion with FindLower's
   blank entries, AdjustLower, MarkExtends and context activation) establishes the invariants TInv (LM/QueryProofs.v)
   for EVERY well-formed input it accepts.  No separate rest costs (rest_max = false). *)
From Coq Require Import List ZArith NArith Bool Arith Lia.
From Kenlm Require Import LM.Defs LM.Query LM.QueryProofs LM.Load LM.InvCheck LM.LoadTrieProofs.
Import ListNotations.
Local Open Scope Z_scope.

(* ---- association lists through their lookup function -------------------------------------------- *)
Lemma alookup_snoc : forall t k e k',
  alookup (t ++ [(k, e)]) k' = match alookup t k' with Some x => Some x | None => if key_eqb k k' then Some e else None end.
Proof. intros. rewrite alookup_app. cbn [alookup]. reflexivity. Qed.

Lemma alookup_aupdate : forall t k f k',
  alookup (aupdate t k f) k' = if key_eqb k k' then option_map f (alookup t k') else alookup t k'.
Proof.
  induction t as [|[k0 e0] t IH]; intros k f k'; cbn [aupdate alookup].
  - destruct (key_eqb k k'); reflexivity.
  - destruct (key_eqb k0 k) eqn:E0; cbn [alookup].
    + apply key_eqb_true in E0. subst k0. destruct (key_eqb k k'); reflexivity.
    + destruct (key_eqb k0 k') eqn:E1.
      * apply key_eqb_true in E1. subst k0.
        assert (key_eqb k k' = false) by (apply key_eqb_false; apply key_eqb_false in E0; congruence).
        rewrite H. reflexivity.
      * apply IH.
Qed.

Lemma key_eqb_sym : forall a b, key_eqb a b = key_eqb b a.
Proof.
  intros a b. destruct (key_eqb a b) eqn:E.
  - apply key_eqb_true in E. subst. symmetry. apply key_eqb_refl.
  - symmetry. apply key_eqb_false. apply key_eqb_false in E. congruence.
Qed.

(* two tables with the same keys whose entries differ only in named fields *)
Definition same_keys (T T' : table) : Prop := forall k, T k = None <-> T' k = None.

Definition field_rel (T T' : table) (R : key -> entry -> entry -> Prop) : Prop :=
  forall k, match T k, T' k with
            | Some e, Some e' => R k e e'
            | None, None => True
            | _, _ => False
            end.

Lemma field_rel_keys : forall T T' R, field_rel T T' R -> same_keys T T'.
Proof. intros T T' R H k. specialize (H k). destruct (T k), (T' k); split; intros; try congruence; try contradiction. Qed.

(* ---- field updates as data ------------------------------------------------------------------------ *)
Inductive fop := OLeft | OExt | OProb (p : Z) | ORest (v : Z).
Definition interp (o : fop) : entry -> entry :=
  match o with OLeft => set_left | OExt => set_ext | OProb p => set_prob p | ORest v => raise_rest v end.
Definition apply_ops (ops : list (key * fop)) (t : atable) : atable :=
  fold_left (fun t op => aupdate t (fst op) (interp (snd op))) ops t.
Definition app_ops (ops : list (key * fop)) (k : key) (e : entry) : entry :=
  fold_left (fun e op => if key_eqb (fst op) k then interp (snd op) e else e) ops e.

Lemma apply_ops_lookup : forall ops t k, alookup (apply_ops ops t) k = option_map (app_ops ops k) (alookup t k).
Proof.
  induction ops as [|[k0 o] ops IH]; intros t k; cbn [apply_ops app_ops fold_left fst snd].
  - destruct (alookup t k); reflexivity.
  - fold (apply_ops ops (aupdate t k0 (interp o))). rewrite IH. rewrite alookup_aupdate.
    destruct (alookup t k) as [e|]; destruct (key_eqb k0 k) eqn:E; cbn [option_map]; try reflexivity;
      unfold app_ops; cbn [fold_left fst snd]; rewrite E; reflexivity.
Qed.

Lemma apply_ops_app : forall a b t, apply_ops (a ++ b) t = apply_ops b (apply_ops a t).
Proof. intros. unfold apply_ops. apply fold_left_app. Qed.

Definition has_op (ops : list (key * fop)) (k : key) (o : fop -> bool) : bool :=
  existsb (fun op => andb (key_eqb (fst op) k) (o (snd op))) ops.
Definition is_left (o : fop) : bool := match o with OLeft => true | _ => false end.
Definition is_ext (o : fop) : bool := match o with OExt => true | _ => false end.
Definition is_prob (o : fop) : bool := match o with OProb _ => true | _ => false end.

Lemma app_ops_bo : forall ops k e, e_bo (app_ops ops k e) = e_bo e.
Proof.
  induction ops as [|[k0 o] ops IH]; intros k e; cbn [app_ops fold_left fst snd]; [reflexivity|].
  fold (app_ops ops k (if key_eqb k0 k then interp o e else e)). rewrite IH.
  destruct (key_eqb k0 k); [|reflexivity]. destruct o; reflexivity.
Qed.

Lemma app_ops_left : forall ops k e, e_left (app_ops ops k e) = orb (e_left e) (has_op ops k is_left).
Proof.
  induction ops as [|[k0 o] ops IH]; intros k e; cbn [app_ops fold_left fst snd has_op existsb]; [rewrite orb_false_r; reflexivity|].
  fold (app_ops ops k (if key_eqb k0 k then interp o e else e)). fold (has_op ops k is_left). rewrite IH.
  destruct (key_eqb k0 k); cbn [andb orb]; [|reflexivity].
  destruct o; cbn [interp set_left set_ext set_prob e_left is_left orb]; try reflexivity.
  rewrite orb_true_r. reflexivity.
Qed.

Lemma app_ops_ext : forall ops k e, e_ext (app_ops ops k e) = orb (e_ext e) (has_op ops k is_ext).
Proof.
  induction ops as [|[k0 o] ops IH]; intros k e; cbn [app_ops fold_left fst snd has_op existsb]; [rewrite orb_false_r; reflexivity|].
  fold (app_ops ops k (if key_eqb k0 k then interp o e else e)). fold (has_op ops k is_ext). rewrite IH.
  destruct (key_eqb k0 k); cbn [andb orb]; [|reflexivity].
  destruct o; cbn [interp set_left set_ext set_prob e_ext is_ext orb]; try reflexivity.
  rewrite orb_true_r. reflexivity.
Qed.

Lemma app_ops_prob_none : forall ops k e, has_op ops k is_prob = false -> e_prob (app_ops ops k e) = e_prob e.
Proof.
  induction ops as [|[k0 o] ops IH]; intros k e H; cbn [app_ops fold_left fst snd]; [reflexivity|].
  cbn [has_op existsb fst snd] in H. apply orb_false_iff in H. destruct H as [H1 H2]. fold (has_op ops k is_prob) in H2.
  fold (app_ops ops k (if key_eqb k0 k then interp o e else e)). rewrite (IH _ _ H2).
  destruct (key_eqb k0 k); [|reflexivity]. destruct o; cbn in *; try reflexivity. discriminate.
Qed.

(* exactly one probability update on k *)
Lemma app_ops_prob_one : forall a b k p e, has_op a k is_prob = false -> has_op b k is_prob = false ->
  e_prob (app_ops (a ++ (k, OProb p) :: b) k e) = p.
Proof.
  intros a b k p e Ha Hb. unfold app_ops. rewrite fold_left_app. cbn [fold_left fst snd]. rewrite key_eqb_refl.
  fold (app_ops a k e). fold (app_ops b k (interp (OProb p) (app_ops a k e))).
  rewrite (app_ops_prob_none b k _ Hb). reflexivity.
Qed.

(* ---- AdjustLower, MarkExtends as lists of field updates --------------------------------------------- *)
Fixpoint adj_ops (T : table) (steps j : nat) (K : key) (prob : Z) : list (key * fop) :=
  match steps with
  | O => []
  | S s => let ctx := firstn (j - 1) (tl K) in
           let prob' := match T ctx with Some c => prob + e_bo c | None => prob end in
           (match T ctx with Some _ => [(ctx, OExt)] | None => [] end) ++ (firstn j K, OProb prob') :: adj_ops T s (S j) K prob'
  end.

Lemma adj_ops_agree : forall T T' steps j K prob, (forall k, option_map e_bo (T k) = option_map e_bo (T' k)) ->
  adj_ops T steps j K prob = adj_ops T' steps j K prob.
Proof.
  intros T T' steps. induction steps as [|s IH]; intros j K prob H; cbn [adj_ops]; [reflexivity|].
  pose proof (H (firstn (j - 1) (tl K))) as Hc.
  destruct (T (firstn (j - 1) (tl K))) as [c|], (T' (firstn (j - 1) (tl K))) as [c'|]; cbn [option_map] in Hc; try discriminate.
  - injection Hc as Hc. rewrite Hc. cbn [app]. f_equal. f_equal. apply IH. exact H.
  - cbn [app]. f_equal. apply IH. exact H.
Qed.

Lemma adjust_is_ops : forall steps j K prob t, adjust steps j K prob t = apply_ops (adj_ops (alookup t) steps j K prob) t.
Proof.
  induction steps as [|s IH]; intros j K prob t; cbn [adjust adj_ops]; [reflexivity|].
  destruct (alookup t (firstn (j - 1) (tl K))) as [c|] eqn:Ec.
  - rewrite IH. cbn [app]. unfold apply_ops at 2. cbn [fold_left fst snd interp].
    fold (apply_ops (adj_ops (alookup t) s (S j) K (prob + e_bo c)) (aupdate (aupdate t (firstn (j - 1) (tl K)) set_ext) (firstn j K) (set_prob (prob + e_bo c)))).
    f_equal. apply adj_ops_agree. intros k. rewrite !alookup_aupdate.
    destruct (key_eqb (firstn j K) k), (key_eqb (firstn (j - 1) (tl K)) k), (alookup t k); reflexivity.
  - rewrite IH. cbn [app]. unfold apply_ops at 2. cbn [fold_left fst snd interp].
    fold (apply_ops (adj_ops (alookup t) s (S j) K prob) (aupdate t (firstn j K) (set_prob prob))).
    f_equal. apply adj_ops_agree. intros k. rewrite !alookup_aupdate.
    destruct (key_eqb (firstn j K) k), (alookup t k); reflexivity.
Qed.

Lemma mark_left_is_ops : forall orders K t, mark_left orders K t = apply_ops (map (fun j => (firstn j K, OLeft)) orders) t.
Proof. induction orders as [|j r IH]; intros K t; cbn [mark_left map]; [reflexivity|]. rewrite IH. reflexivity. Qed.

(* ---- MaxRestBuild's MarkExtends chain and MarkLower only touch rest costs ----------------------------------- *)
Definition rest_only (ops : list (key * fop)) : Prop := Forall (fun op => exists v, snd op = ORest v) ops.

Lemma rest_only_app : forall a b, rest_only a -> rest_only b -> rest_only (a ++ b).
Proof. intros. apply Forall_app. split; assumption. Qed.

Lemma rest_only_has : forall ops k o, rest_only ops -> (forall v, o (ORest v) = false) -> has_op ops k o = false.
Proof.
  induction ops as [|[k0 o0] ops IH]; intros k o H Ho; [reflexivity|]. inversion H as [|? ? [v Hv] H']. subst.
  cbn [has_op existsb fst snd] in *. cbn [snd] in Hv. subst o0. rewrite Ho, andb_false_r. cbn [orb]. apply IH; assumption.
Qed.

Lemma rest_only_prob : forall ops k e, rest_only ops -> e_prob (app_ops ops k e) = e_prob e.
Proof. intros ops k e H. apply app_ops_prob_none. apply rest_only_has; [exact H|reflexivity]. Qed.

Lemma rest_chain_ops : forall orders K longer t, exists ops, rest_only ops /\ rest_chain orders K longer t = apply_ops ops t.
Proof.
  induction orders as [|j r IH]; intros K longer t; cbn [rest_chain].
  - exists []. split; [constructor|reflexivity].
  - destruct (IH K (rest_of (aupdate t (firstn j K) (raise_rest longer)) (firstn j K)) (aupdate t (firstn j K) (raise_rest longer))) as [ops [H1 H2]].
    exists ((firstn j K, ORest longer) :: ops). split; [constructor; [exists longer; reflexivity|exact H1]|].
    rewrite H2. reflexivity.
Qed.

Lemma mark_lower_ops : forall j K longer t, exists ops, rest_only ops /\ mark_lower j K longer t = apply_ops ops t.
Proof.
  induction j as [|j IH]; intros K longer t; cbn [mark_lower].
  - exists []. split; [constructor|reflexivity].
  - destruct (rest_of t (firstn (S j) K) >=? longer).
    + exists []. split; [constructor|reflexivity].
    + destruct (IH K longer (aupdate t (firstn (S j) K) (raise_rest longer))) as [ops [H1 H2]].
      exists ((firstn (S j) K, ORest longer) :: ops). split; [constructor; [exists longer; reflexivity|exact H1]|].
      rewrite H2. reflexivity.
Qed.

(* ---- FindLower ----------------------------------------------------------------------------------------- *)
Definition blank_key (b j : nat) (K k : key) : bool := existsb (fun i => key_eqb (firstn i K) k) (seq (S b) (j - b)).

Lemma blank_key_true : forall b j K k, blank_key b j K k = true <-> exists i, (b < i <= j)%nat /\ k = firstn i K.
Proof.
  intros b j K k. unfold blank_key. rewrite existsb_exists. split.
  - intros [i [Hi He]]. apply in_seq in Hi. apply key_eqb_true in He. exists i. split; [lia|congruence].
  - intros [i [Hi ->]]. exists i. split; [apply in_seq; lia|apply key_eqb_refl].
Qed.

Lemma firstn_inj_len : forall (K : key) i j, (i <= length K)%nat -> (j <= length K)%nat -> firstn i K = firstn j K -> i = j.
Proof. intros K i j Hi Hj H. apply (f_equal (@length N)) in H. rewrite !firstn_length in H. lia. Qed.

Lemma find_lower_SS : forall buckets j K t,
  find_lower buckets (S (S j)) K t =
  match alookup t (firstn (S (S j)) K) with
  | Some _ => Some (t, S (S j))
  | None => if Nat.leb (cap buckets (S (S j))) (S (count_order t (S (S j)))) then None
            else find_lower buckets (S j) K (t ++ [(firstn (S (S j)) K, blank_entry)])
  end.
Proof. reflexivity. Qed.

Lemma find_lower_spec : forall buckets j K t t' b, (j <= length K)%nat ->
  find_lower buckets j K t = Some (t', b) ->
  (1 <= b)%nat /\ (b <= Nat.max 1 j)%nat /\ (b = 1%nat \/ alookup t (firstn b K) <> None) /\
  (forall i, (b < i <= j)%nat -> alookup t (firstn i K) = None) /\
  (forall k, alookup t' k = match alookup t k with
                            | Some e => Some e
                            | None => if blank_key b j K k then Some blank_entry else None
                            end).
Proof.
  intros buckets j. induction j as [|j IH]; intros K t t' b Hj H.
  - cbn [find_lower] in H. injection H as <- <-.
    split; [lia|]. split; [cbn; lia|]. split; [left; reflexivity|]. split; [intros; lia|].
    intros k. unfold blank_key. cbn. destruct (alookup t k); reflexivity.
  - destruct j as [|j'].
    + cbn [find_lower] in H. injection H as <- <-.
      split; [lia|]. split; [cbn; lia|]. split; [left; reflexivity|]. split; [intros; lia|].
      intros k. unfold blank_key. cbn. destruct (alookup t k); reflexivity.
    + rewrite find_lower_SS in H. remember (S j') as j eqn:Ej.
      destruct (alookup t (firstn (S j) K)) as [e0|] eqn:E0.
      * injection H as <- <-.
        split; [lia|]. split; [lia|]. split; [right; rewrite E0; discriminate|]. split; [intros; lia|].
        intros k. unfold blank_key. rewrite Nat.sub_diag. cbn. destruct (alookup t k); reflexivity.
      * destruct (Nat.leb (cap buckets (S j)) (S (count_order t (S j)))); [discriminate|].
        destruct (IH K _ t' b ltac:(lia) H) as [H1 [H2 [H3 [H4 H5]]]].
        assert (Hne : forall i, (i <= j)%nat -> key_eqb (firstn (S j) K) (firstn i K) = false).
        { intros i Hi. apply key_eqb_false. intros Heq. apply firstn_inj_len in Heq; lia. }
        split; [lia|]. split; [lia|]. split; [|split].
        -- destruct H3 as [H3|H3]; [left; exact H3|right]. rewrite alookup_snoc in H3.
           destruct (alookup t (firstn b K)); [discriminate|]. rewrite Hne in H3 by lia. congruence.
        -- intros i Hi. destruct (Nat.eq_dec i (S j)) as [->|Hne']; [exact E0|].
           specialize (H4 i ltac:(lia)). rewrite alookup_snoc in H4. destruct (alookup t (firstn i K)); [discriminate|reflexivity].
        -- intros k. rewrite H5. rewrite alookup_snoc. destruct (alookup t k) as [e|]; [reflexivity|].
           unfold blank_key. replace (S j - b)%nat with (S (j - b)) by lia.
           rewrite seq_S. rewrite existsb_app. cbn [existsb]. rewrite orb_false_r.
           replace (S b + (j - b))%nat with (S j) by lia.
           fold (blank_key b j K k).
           destruct (key_eqb (firstn (S j) K) k) eqn:Ek.
           ++ rewrite orb_true_r. reflexivity.
           ++ rewrite orb_false_r. reflexivity.
Qed.

(* ---- one n-gram: the table afterwards in closed form ---------------------------------------------------- *)
Definition T0_of (T : table) (g : gram) : table :=
  fun k => match T k with Some e => Some e | None => if key_eqb (g_key g) k then Some (mk_entry (g_prob g) (g_bo g)) else None end.
Definition T1_of (T : table) (g : gram) (b n : nat) : table :=
  fun k => match T0_of T g k with Some e => Some e | None => if blank_key b (n - 1) (g_key g) k then Some blank_entry else None end.
Definition ops_of (T1 : table) (K : key) (b n : nat) (R : list (key * fop)) : list (key * fop) :=
  adj_ops T1 (n - 1 - b) (S b) K (match T1 (firstn b K) with Some e => e_prob e | None => 0 end) ++
  map (fun j => (firstn j K, OLeft)) (seq b (n - b)) ++ R ++ [(tl K, OExt)].

Lemma add_gram_spec : forall buckets rm n g t t', (2 <= n)%nat -> length (g_key g) = n ->
  add_gram buckets rm n g t = Loaded t' ->
  exists b R, rest_only R /\ (1 <= b <= n - 1)%nat /\
    (b = 1%nat \/ T0_of (alookup t) g (firstn b (g_key g)) <> None) /\
    (forall i, (b < i <= n - 1)%nat -> T0_of (alookup t) g (firstn i (g_key g)) = None) /\
    T1_of (alookup t) g b n (tl (g_key g)) <> None /\
    forall k, alookup t' k = option_map (app_ops (ops_of (T1_of (alookup t) g b n) (g_key g) b n R) k) (T1_of (alookup t) g b n k).
Proof.
  intros buckets rm n g t t' Hn Hlen H. unfold add_gram in H.
  destruct (Nat.leb (cap buckets n) (S (count_order t n))); [discriminate|].
  destruct (find_lower buckets (n - 1) (g_key g) (t ++ [(g_key g, mk_entry (g_prob g) (g_bo g))])) as [[t1 b]|] eqn:EF; [|discriminate].
  assert (Hjl : (n - 1 <= length (g_key g))%nat) by lia.
  destruct (find_lower_spec _ _ _ _ _ _ Hjl EF) as [F1 [F2 [F3 [F4 F5]]]].
  assert (HT0 : forall k, alookup (t ++ [(g_key g, mk_entry (g_prob g) (g_bo g))]) k = T0_of (alookup t) g k).
  { intros k. rewrite alookup_snoc. reflexivity. }
  assert (HT1 : forall k, alookup t1 k = T1_of (alookup t) g b n k).
  { intros k. rewrite F5. unfold T1_of. rewrite HT0. reflexivity. }
  set (K := g_key g) in *.
  set (t2 := if Nat.eqb b (n - 1) then t1
             else adjust (n - 1 - b) (S b) K (match alookup t1 (firstn b K) with Some e => e_prob e | None => 0 end) t1) in H.
  assert (Ht2 : t2 = apply_ops (adj_ops (alookup t1) (n - 1 - b) (S b) K (match alookup t1 (firstn b K) with Some e => e_prob e | None => 0 end)) t1).
  { unfold t2. destruct (Nat.eqb_spec b (n - 1)) as [E|E].
    - replace (n - 1 - b)%nat with 0%nat by lia. reflexivity.
    - apply adjust_is_ops. }
  rewrite mark_left_is_ops in H.
  set (t3 := apply_ops (map (fun j => (firstn j K, OLeft)) (seq b (n - b))) t2) in H.
  assert (HR : exists R, rest_only R /\
            (if rm then mark_lower (b - 1) K (rest_of (rest_chain (rev (seq b (n - b))) K (g_prob g) t3) (firstn b K))
                          (rest_chain (rev (seq b (n - b))) K (g_prob g) t3)
             else t3) = apply_ops R t3).
  { destruct rm.
    - destruct (rest_chain_ops (rev (seq b (n - b))) K (g_prob g) t3) as [R1 [A1 A2]].
      destruct (mark_lower_ops (b - 1) K (rest_of (rest_chain (rev (seq b (n - b))) K (g_prob g) t3) (firstn b K))
                  (rest_chain (rev (seq b (n - b))) K (g_prob g) t3)) as [R2 [B1 B2]].
      exists (R1 ++ R2). split; [apply rest_only_app; assumption|]. rewrite B2, A2. rewrite apply_ops_app. reflexivity.
    - exists []. split; [constructor|reflexivity]. }
  destruct HR as [R [HR1 HR2]]. rewrite HR2 in H.
  set (t4 := apply_ops R t3) in H.
  destruct (alookup t4 (tl K)) as [ec|] eqn:Ec; [|discriminate]. injection H as <-.
  exists b, R. split; [exact HR1|]. split; [lia|]. split; [rewrite <- HT0; exact F3|]. split; [intros i Hi; rewrite <- HT0; apply F4; exact Hi|].
  assert (Hall : forall k, alookup (aupdate t4 (tl K) set_ext) k =
                           option_map (app_ops (ops_of (T1_of (alookup t) g b n) K b n R) k) (alookup t1 k)).
  { intros k.
    change (aupdate t4 (tl K) set_ext) with (apply_ops [(tl K, OExt)] t4).
    unfold t4, t3. rewrite Ht2. rewrite <- !apply_ops_app. rewrite apply_ops_lookup.
    unfold ops_of.
    rewrite (adj_ops_agree (alookup t1) (T1_of (alookup t) g b n)) by (intros k0; rewrite HT1; reflexivity).
    rewrite (HT1 (firstn b K)). reflexivity. }
  split.
  - specialize (Hall (tl K)). rewrite alookup_aupdate, key_eqb_refl, Ec in Hall. cbn [option_map] in Hall.
    rewrite <- HT1. destruct (alookup t1 (tl K)); [discriminate|discriminate].
  - intros k. rewrite Hall. rewrite HT1. reflexivity.
Qed.

(* ---- what the update list of one n-gram contains -------------------------------------------------------- *)
Lemma has_op_app : forall a b k o, has_op (a ++ b) k o = orb (has_op a k o) (has_op b k o).
Proof. intros. unfold has_op. apply existsb_app. Qed.

Lemma app_ops_app : forall a b k e, app_ops (a ++ b) k e = app_ops b k (app_ops a k e).
Proof. intros. unfold app_ops. apply fold_left_app. Qed.

Lemma adj_no_left : forall T steps j K prob k, has_op (adj_ops T steps j K prob) k is_left = false.
Proof.
  intros T steps. induction steps as [|s IH]; intros j K prob k; cbn [adj_ops]; [reflexivity|].
  rewrite has_op_app. cbn [has_op existsb fst snd is_left]. fold (has_op (adj_ops T s (S j) K
    match T (firstn (j - 1) (tl K)) with Some c => prob + e_bo c | None => prob end) k is_left).
  rewrite IH. destruct (T (firstn (j - 1) (tl K))); cbn; rewrite ?andb_false_r; reflexivity.
Qed.

Lemma adj_ext : forall T steps j K prob k,
  has_op (adj_ops T steps j K prob) k is_ext = true <->
  exists i, (j <= i < j + steps)%nat /\ k = firstn (i - 1) (tl K) /\ T k <> None.
Proof.
  intros T steps. induction steps as [|s IH]; intros j K prob k; cbn [adj_ops].
  - cbn. split; [discriminate|]. intros [i [Hi _]]. lia.
  - rewrite has_op_app. cbn [has_op existsb fst snd is_ext]. rewrite andb_false_r. cbn [orb].
    fold (has_op (adj_ops T s (S j) K match T (firstn (j - 1) (tl K)) with Some c => prob + e_bo c | None => prob end) k is_ext).
    rewrite orb_true_iff. rewrite IH. split.
    + intros [H|[i [Hi [Hk Hp]]]].
      * destruct (T (firstn (j - 1) (tl K))) as [c|] eqn:Ec; cbn in H; [|discriminate].
        rewrite andb_true_r, orb_false_r in H. apply key_eqb_true in H. subst k.
        exists j. split; [lia|]. split; [reflexivity|]. rewrite Ec. discriminate.
      * exists i. split; [lia|]. split; assumption.
    + intros [i [Hi [Hk Hp]]]. destruct (Nat.eq_dec i j) as [->|Hne].
      * left. subst k. destruct (T (firstn (j - 1) (tl K))); [|congruence]. cbn. rewrite key_eqb_refl. reflexivity.
      * right. exists i. split; [lia|]. split; assumption.
Qed.

(* the probability the updates leave on k, by the same recursion *)
Fixpoint adj_prob (T : table) (steps j : nat) (K : key) (prob : Z) (k : key) (cur : Z) : Z :=
  match steps with
  | O => cur
  | S s => let prob' := match T (firstn (j - 1) (tl K)) with Some c => prob + e_bo c | None => prob end in
           adj_prob T s (S j) K prob' k (if key_eqb (firstn j K) k then prob' else cur)
  end.

Lemma adj_prob_spec : forall T steps j K prob k e,
  e_prob (app_ops (adj_ops T steps j K prob) k e) = adj_prob T steps j K prob k (e_prob e).
Proof.
  intros T steps. induction steps as [|s IH]; intros j K prob k e; cbn [adj_ops adj_prob]; [reflexivity|].
  set (prob' := match T (firstn (j - 1) (tl K)) with Some c => prob + e_bo c | None => prob end).
  set (A := match T (firstn (j - 1) (tl K)) with Some _ => [(firstn (j - 1) (tl K), OExt)] | None => [] end).
  change ((firstn j K, OProb prob') :: adj_ops T s (S j) K prob') with ([(firstn j K, OProb prob')] ++ adj_ops T s (S j) K prob').
  rewrite !app_ops_app. rewrite IH. f_equal.
  assert (He1 : e_prob (app_ops A k e) = e_prob e).
  { unfold A. destruct (T (firstn (j - 1) (tl K))); cbn [app_ops fold_left fst snd]; [|reflexivity].
    destruct (key_eqb (firstn (j - 1) (tl K)) k); reflexivity. }
  cbn [app_ops fold_left fst snd]. destruct (key_eqb (firstn j K) k); cbn [interp set_prob e_prob]; [reflexivity|exact He1].
Qed.

Lemma left_ops_has : forall K b m k o, has_op (map (fun j => (firstn j K, OLeft)) (seq b m)) k o =
  andb (o OLeft) (existsb (fun j => key_eqb (firstn j K) k) (seq b m)).
Proof.
  intros K b m. revert b. induction m as [|m IH]; intros b k o; cbn [seq map has_op existsb fst snd].
  - rewrite andb_false_r. reflexivity.
  - fold (has_op (map (fun j => (firstn j K, OLeft)) (seq (S b) m)) k o). rewrite IH.
    destruct (o OLeft), (key_eqb (firstn b K) k); reflexivity.
Qed.

Lemma left_ops_prob : forall K b m k e, e_prob (app_ops (map (fun j => (firstn j K, OLeft)) (seq b m)) k e) = e_prob e.
Proof. intros. apply app_ops_prob_none. rewrite left_ops_has. reflexivity. Qed.

(* ---- list facts ---------------------------------------------------------------------------------------------- *)
Lemma snoc_firstn : forall (K k : key) x i, (1 <= i <= length K)%nat -> k ++ [x] = firstn i K -> k = firstn (i - 1) K.
Proof.
  intros K k x i Hi H. rewrite <- (removelast_last k x). rewrite H.
  replace i with (S (i - 1)) at 1 by lia. apply removelast_firstn. lia.
Qed.

Lemma firstn_snoc_next : forall (K : key) i, (i < length K)%nat -> firstn i K ++ [nth i K 0%N] = firstn (S i) K.
Proof. intros K i Hi. symmetry. apply firstn_S_snoc. exact Hi. Qed.

Lemma tl_firstn : forall (K : key) i, (1 <= i)%nat -> tl (firstn i K) = firstn (i - 1) (tl K).
Proof.
  intros [|w c] i Hi; destruct i; try lia; cbn [firstn tl Nat.sub]; [rewrite firstn_nil; reflexivity|].
  rewrite ?Nat.sub_0_r. reflexivity.
Qed.

Section Spec.
  Variable M : arpa.
  Lemma spec_firstn' : forall ctx w k m, (k <= m)%nat -> spec M (firstn m ctx) w k = spec M ctx w k.
  Proof.
    intros ctx w k. induction k as [|k IH]; intros m Hm; cbn [spec].
    - rewrite !firstn_O. reflexivity.
    - rewrite firstn_firstn. replace (Nat.min (S k) m) with (S k) by lia.
      destruct (M (w :: firstn (S k) ctx)) as [[p b]|]; [reflexivity|]. rewrite IH by lia. reflexivity.
  Qed.
  Lemma spec_hit2 : forall w c k p q, M (w :: firstn k c) = Some (p, q) -> spec M c w k = p.
  Proof. intros w c k p q H. destruct k; cbn [spec]; rewrite H; reflexivity. Qed.
  Lemma spec_miss_S : forall w c k, M (w :: firstn (S k) c) = None -> spec M c w (S k) = bo_of M (firstn (S k) c) + spec M c w k.
  Proof. intros w c k H. cbn [spec]. rewrite H. reflexivity. Qed.
End Spec.

(* ---- the probabilities AdjustLower leaves on the blanks are the ARPA recursion --------------------------------- *)
Lemma adj_prob_other : forall T steps j K prob k cur, (j + steps <= S (length K))%nat ->
  (forall i, (j <= i < j + steps)%nat -> k <> firstn i K) -> adj_prob T steps j K prob k cur = cur.
Proof.
  intros T steps. induction steps as [|s IH]; intros j K prob k cur Hl H; cbn [adj_prob]; [reflexivity|].
  assert (E : key_eqb (firstn j K) k = false) by (apply key_eqb_false; intros Heq; apply (H j); [lia|congruence]).
  rewrite E. apply IH; [lia|]. intros i Hi. apply H. lia.
Qed.

Lemma adj_prob_at : forall M T w c steps j prob i cur,
  (forall k e, T k = Some e -> e_bo e = bo_of M k) ->
  (forall k, T k = None -> (length k < S (length c))%nat -> M k = None) ->
  (2 <= j)%nat -> (j + steps <= S (length c))%nat ->
  prob = spec M c w (j - 2) ->
  (forall l, (j <= l < j + steps)%nat -> M (firstn l (w :: c)) = None) ->
  (j <= i < j + steps)%nat ->
  adj_prob T steps j (w :: c) prob (firstn i (w :: c)) cur = spec M c w (i - 1).
Proof.
  intros M T w c steps. induction steps as [|s IH]; intros j prob i cur Hbo Hlow Hj Hl Hp Hm Hi; [lia|].
  cbn [adj_prob tl].
  set (ctx := firstn (j - 1) c).
  set (prob' := match T ctx with Some c0 => prob + e_bo c0 | None => prob end).
  assert (Hp' : prob' = spec M c w (j - 1)).
  { unfold prob', ctx. clear IH. destruct j as [|[|m]]; try lia.
    replace (S (S m) - 1)%nat with (S m) by lia. replace (S (S m) - 2)%nat with m in Hp by lia.
    rewrite spec_miss_S.
    - destruct (T (firstn (S m) c)) as [c0|] eqn:Ec.
      + rewrite (Hbo _ _ Ec). lia.
      + assert (Hn : M (firstn (S m) c) = None) by (apply Hlow; [exact Ec|rewrite firstn_length; lia]).
        unfold bo_of. rewrite Hn. lia.
    - specialize (Hm (S (S m)) ltac:(lia)). cbn [firstn] in Hm. exact Hm. }
  destruct (Nat.eq_dec i j) as [->|Hne].
  - rewrite key_eqb_refl. rewrite adj_prob_other; [exact Hp'|cbn [length]; lia|].
    intros l Hl' Heq. apply firstn_inj_len in Heq; cbn [length]; lia.
  - assert (E : key_eqb (firstn j (w :: c)) (firstn i (w :: c)) = false).
    { apply key_eqb_false. intros Heq. apply firstn_inj_len in Heq; cbn [length]; lia. }
    rewrite E. apply IH; [exact Hbo|exact Hlow|lia|lia| |intros l Hl'; apply Hm; lia|lia].
    replace (S j - 2)%nat with (j - 1)%nat by lia. exact Hp'.
Qed.

(* ---- the invariant while loading, and one n-gram ------------------------------------------------------------ *)
Section Step.
  Variable N_order : nat.
  Variable M : arpa.

  (* TInv with "the file is a subset of the table" replaced by "every listed n-gram below the current order n is there" *)
  Record PQ (T : table) (n : nat) : Prop := {
    q_len : forall k, T k <> None -> (1 <= length k <= n)%nat;
    q_lenN : forall k, T k <> None -> (length k <= N_order)%nat;
    q_suf : forall k x, k <> [] -> T (k ++ [x]) <> None -> T k <> None;
    q_left : forall k e, T k = Some e -> (length k < N_order)%nat -> (e_left e = true <-> exists x, T (k ++ [x]) <> None);
    q_prob : forall w c e, T (w :: c) = Some e -> e_prob e = spec M c w (length c);
    q_bo : forall k e, T k = Some e -> e_bo e = bo_of M k;
    q_ext : forall k e, T k = Some e -> e_ext e = false -> e_bo e = 0 /\ forall x, T (x :: k) = None;
    q_ctx : forall w k, k <> [] -> T (w :: k) <> None -> T k <> None;
    q_low : forall k, M k <> None -> (length k < n)%nat -> T k <> None
  }.

  Lemma prefix_present : forall T n, PQ T n -> forall k j, T k <> None -> (1 <= j <= length k)%nat -> T (firstn j k) <> None.
  Proof.
    intros T n Q k j Hk Hj. remember (length k - j)%nat as d eqn:Ed. revert j Hj Ed.
    induction d as [|d IH]; intros j Hj Ed.
    - replace j with (length k) by lia. rewrite firstn_all. exact Hk.
    - assert (Hs : T (firstn (S j) k) <> None) by (apply IH; lia).
      rewrite <- firstn_snoc_next in Hs by lia. apply (q_suf T n Q _ _) in Hs; [exact Hs|].
      destruct k; [cbn in Hj; lia|]. destruct j; [lia|]. discriminate.
  Qed.

  Lemma add_gram_pq : forall buckets rm n g t t', PQ (alookup t) n -> (2 <= n <= N_order)%nat -> length (g_key g) = n ->
    (forall w, In w (g_key g) -> alookup t [w] <> None) ->
    (alookup t (g_key g) = None -> M (g_key g) = Some (g_prob g, g_bo g)) ->
    add_gram buckets rm n g t = Loaded t' ->
    PQ (alookup t') n /\ alookup t' (g_key g) <> None /\ (forall k, alookup t k <> None -> alookup t' k <> None).
  Proof.
    intros buckets rm n g t t' Q Hn Hlen Hwords Hfirst Hadd.
    destruct (add_gram_spec buckets rm n g t t' ltac:(lia) Hlen Hadd) as [b [R [HRo [Hb [Hbase [Hmiss [Hact Heq]]]]]]].
    set (T := alookup t) in *. set (K := g_key g) in *.
    set (T1 := T1_of T g b n) in *. set (OPS := ops_of T1 K b n R) in *. set (T' := alookup t') in *.
    assert (HKwc : exists w c, K = w :: c) by (destruct K as [|w c]; [cbn in Hlen; lia|exists w, c; reflexivity]).
    destruct HKwc as [w [c EK]].
    assert (Hlc : length c = (n - 1)%nat) by (rewrite EK in Hlen; cbn [length] in Hlen; lia).
    (* ---- keys *)
    assert (K3 : forall k e, T k = Some e -> T1 k = Some e).
    { intros k e H. unfold T1, T1_of, T0_of. fold T. rewrite H. reflexivity. }
    assert (Kne : forall i, (i <= n - 1)%nat -> firstn i K <> K).
    { intros i Hi Heq0. apply (f_equal (@length N)) in Heq0. rewrite firstn_length in Heq0. lia. }
    assert (HmissT : forall i, (b < i <= n - 1)%nat -> T (firstn i K) = None).
    { intros i Hi. specialize (Hmiss i Hi). unfold T0_of in Hmiss. fold T in Hmiss. destruct (T (firstn i K)); [discriminate|reflexivity]. }
    assert (K2 : forall k, T1 k <> None <-> (T k <> None \/ k = K \/ exists i, (b < i <= n - 1)%nat /\ k = firstn i K)).
    { intros k. unfold T1, T1_of, T0_of. fold T. fold K. destruct (T k) as [e|] eqn:Ek.
      - split; [intros _; left; discriminate|intros _; discriminate].
      - destruct (key_eqb K k) eqn:EKk.
        + apply key_eqb_true in EKk. split; [intros _; right; left; congruence|intros _; discriminate].
        + apply key_eqb_false in EKk. destruct (blank_key b (n - 1) K k) eqn:Eb.
          * apply blank_key_true in Eb. split; [intros _; right; right; exact Eb|intros _; discriminate].
          * split; [congruence|]. intros [H|[H|H]]; [congruence|congruence|].
            apply blank_key_true in H. congruence. }
    assert (K1 : forall k, T' k <> None <-> T1 k <> None).
    { intros k. unfold T'. rewrite Heq. destruct (T1 k); cbn; split; congruence. }
    assert (Kval : forall k e', T' k = Some e' -> exists e1, T1 k = Some e1 /\ e' = app_ops OPS k e1).
    { intros k e' H. unfold T' in H. rewrite Heq in H. destruct (T1 k) as [e1|]; [|discriminate]. injection H as <-. exists e1. split; reflexivity. }
    assert (Kmono : forall k, T k <> None -> T' k <> None).
    { intros k H. apply K1. apply K2. left. exact H. }
    assert (KK : T' K <> None) by (apply K1; apply K2; right; left; reflexivity).
    (* ---- the new entries *)
    assert (T1new : forall k e1, T1 k = Some e1 -> T k = None ->
              (k = K /\ e1 = mk_entry (g_prob g) (g_bo g)) \/ ((exists i, (b < i <= n - 1)%nat /\ k = firstn i K) /\ e1 = blank_entry)).
    { intros k e1 H1 Hk. unfold T1, T1_of, T0_of in H1. fold T in H1. fold K in H1. rewrite Hk in H1.
      destruct (key_eqb K k) eqn:EKk.
      - apply key_eqb_true in EKk. injection H1 as <-. left. split; congruence.
      - destruct (blank_key b (n - 1) K k) eqn:Eb; [|discriminate]. injection H1 as <-. right.
        split; [apply blank_key_true; exact Eb|reflexivity]. }
    assert (Mblank : forall i, (b < i <= n - 1)%nat -> M (firstn i K) = None).
    { intros i Hi. destruct (M (firstn i K)) eqn:Em; [|reflexivity]. exfalso.
      apply (q_low T n Q (firstn i K)); [rewrite Em; discriminate|rewrite firstn_length; lia|apply HmissT; exact Hi]. }
    assert (Huni : T (firstn 1 K) <> None).
    { rewrite EK. cbn [firstn]. apply Hwords. rewrite EK. left. reflexivity. }
    assert (Hbpres : T1 (firstn b K) <> None).
    { apply K2. destruct Hbase as [->|Hbase]; [left; exact Huni|].
      unfold T0_of in Hbase. fold T in Hbase. fold K in Hbase. destruct (T (firstn b K)); [left; discriminate|].
      destruct (key_eqb K (firstn b K)) eqn:E; [|congruence]. apply key_eqb_true in E. exfalso. apply (Kne b); [lia|congruence]. }
    (* ---- T1 is closed under dropping the oldest word *)
    assert (S1 : forall k x, k <> [] -> T1 (k ++ [x]) <> None -> T1 k <> None).
    { intros k x Hk H. apply K2 in H. destruct H as [H|[H|[i [Hi H]]]].
      - apply K2. left. apply (q_suf T n Q k x Hk H).
      - assert (Hk' : k = firstn (n - 1) K) by (apply (snoc_firstn K k x n); [lia|rewrite H, <- Hlen; symmetry; apply firstn_all]).
        destruct (Nat.eq_dec b (n - 1)) as [Eb|Eb].
        + subst k. rewrite <- Eb. exact Hbpres.
        + apply K2. right. right. exists (n - 1)%nat. split; [lia|exact Hk'].
      - assert (Hk' : k = firstn (i - 1) K) by (apply (snoc_firstn K k x i); [lia|exact H]).
        destruct (Nat.eq_dec (i - 1) b) as [Eb|Eb].
        + subst k. rewrite Eb. exact Hbpres.
        + apply K2. right. right. exists (i - 1)%nat. split; [lia|exact Hk']. }
    (* ---- what the updates do to each field *)
    set (p0 := match T1 (firstn b K) with Some e => e_prob e | None => 0 end) in *.
    assert (HOPS : OPS = adj_ops T1 (n - 1 - b) (S b) K p0 ++ map (fun j => (firstn j K, OLeft)) (seq b (n - b)) ++ R ++ [(tl K, OExt)]) by reflexivity.
    assert (Fleft : forall k e1, e_left (app_ops OPS k e1) = orb (e_left e1) (existsb (fun j => key_eqb (firstn j K) k) (seq b (n - b)))).
    { intros k e1. rewrite app_ops_left. f_equal. rewrite HOPS. rewrite !has_op_app. rewrite adj_no_left. rewrite left_ops_has.
      rewrite (rest_only_has R k is_left HRo) by reflexivity.
      cbn [is_left andb orb has_op existsb fst snd]. rewrite andb_false_r. rewrite !orb_false_r. reflexivity. }
    assert (Fext : forall k e1, e_ext (app_ops OPS k e1) = true <->
              (e_ext e1 = true \/ (exists i, (b < i <= n - 1)%nat /\ k = firstn (i - 1) (tl K) /\ T1 k <> None) \/ k = tl K)).
    { intros k e1. rewrite app_ops_ext. rewrite orb_true_iff. rewrite HOPS. rewrite !has_op_app. rewrite !orb_true_iff.
      rewrite adj_ext. rewrite left_ops_has. rewrite (rest_only_has R k is_ext HRo) by reflexivity.
      cbn [is_ext andb has_op existsb fst snd]. rewrite andb_true_r, orb_false_r.
      split.
      - intros [H|[[i [Hi [Hk Hp]]]|[H|[H|H]]]]; [left; exact H| |discriminate|discriminate|].
        + right. left. exists i. split; [lia|]. split; assumption.
        + right. right. apply key_eqb_true in H. congruence.
      - intros [H|[[i [Hi [Hk Hp]]]|H]]; [left; exact H| |].
        + right. left. exists i. split; [lia|]. split; assumption.
        + right. right. right. right. subst k. apply key_eqb_refl. }
    assert (Fprob : forall k e1, e_prob (app_ops OPS k e1) = adj_prob T1 (n - 1 - b) (S b) K p0 k (e_prob e1)).
    { intros k e1. rewrite HOPS. rewrite !app_ops_app. cbn [app_ops fold_left fst snd].
      assert (E : forall e0, e_prob (if key_eqb (tl K) k then interp OExt e0 else e0) = e_prob e0) by (intros e0; destruct (key_eqb (tl K) k); reflexivity).
      rewrite E. fold (app_ops R k (app_ops (map (fun j => (firstn j K, OLeft)) (seq b (n - b))) k (app_ops (adj_ops T1 (n - 1 - b) (S b) K p0) k e1))).
      rewrite (rest_only_prob R k _ HRo).
      rewrite left_ops_prob. apply adj_prob_spec. }
    (* ---- bo and prob of the entries the updates start from *)
    assert (T1bo : forall k e1, T1 k = Some e1 -> e_bo e1 = bo_of M k).
    { intros k e1 H1. destruct (T k) as [e|] eqn:Ek.
      - rewrite (K3 k e Ek) in H1. injection H1 as <-. apply (q_bo T n Q k e Ek).
      - destruct (T1new k e1 H1 Ek) as [[-> ->]|[[i [Hi ->]] ->]].
        + cbn [mk_entry e_bo]. unfold bo_of. rewrite (Hfirst Ek). reflexivity.
        + cbn [blank_entry e_bo]. unfold bo_of. rewrite (Mblank i Hi). reflexivity. }
    assert (T1low : forall k, T1 k = None -> (length k < S (length c))%nat -> M k = None).
    { intros k H1 Hl. destruct (M k) eqn:Em; [|reflexivity]. exfalso.
      assert (T k <> None) by (apply (q_low T n Q k); [rewrite Em; discriminate|lia]).
      assert (T1 k <> None) by (apply K2; left; assumption). congruence. }
    assert (Hp0 : p0 = spec M c w (b - 1)).
    { unfold p0. destruct (T1 (firstn b K)) as [eb|] eqn:Eb; [|congruence].
      assert (Tb : T (firstn b K) = Some eb).
      { destruct (T (firstn b K)) as [e|] eqn:Et; [rewrite (K3 _ _ Et) in Eb; congruence|].
        destruct (T1new _ _ Eb Et) as [[Hk _]|[[i [Hi Hk]] _]].
        - exfalso. apply (Kne b); [lia|exact Hk].
        - apply firstn_inj_len in Hk; lia. }
      rewrite EK in Tb. destruct b as [|b']; [lia|]. cbn [firstn] in Tb.
      rewrite (q_prob T n Q w (firstn b' c) eb Tb). rewrite firstn_length.
      replace (Nat.min b' (length c)) with b' by lia. replace (S b' - 1)%nat with b' by lia. apply spec_firstn'. lia. }
    assert (Pblank : forall i e1, (b < i <= n - 1)%nat -> e_prob (app_ops OPS (firstn i K) e1) = spec M c w (i - 1)).
    { intros i e1 Hi. rewrite Fprob. rewrite EK.
      assert (Hp0' : p0 = spec M c w (S b - 2)) by (replace (S b - 2)%nat with (b - 1)%nat by lia; exact Hp0).
      assert (Hm' : forall l, (S b <= l < S b + (n - 1 - b))%nat -> M (firstn l (w :: c)) = None)
        by (intros l Hl; rewrite <- EK; apply Mblank; lia).
      assert (A1 : (2 <= S b)%nat) by lia. assert (A2 : (S b + (n - 1 - b) <= S (length c))%nat) by lia.
      assert (A3 : (S b <= i < S b + (n - 1 - b))%nat) by lia.
      exact (adj_prob_at M T1 w c (n - 1 - b) (S b) p0 i (e_prob e1) T1bo T1low A1 A2 Hp0' Hm' A3). }
    assert (Pother : forall k e1, (forall i, (b < i <= n - 1)%nat -> k <> firstn i K) -> e_prob (app_ops OPS k e1) = e_prob e1).
    { intros k e1 Hk. rewrite Fprob. apply adj_prob_other; [lia|]. intros i Hi. apply Hk. lia. }
    assert (P1 : forall k j, T1 k <> None -> (1 <= j <= length k)%nat -> T1 (firstn j k) <> None).
    { intros k j Hk Hj. remember (length k - j)%nat as d eqn:Ed. revert j Hj Ed.
      induction d as [|d IH]; intros j Hj Ed.
      - replace j with (length k) by lia. rewrite firstn_all. exact Hk.
      - assert (Hs : T1 (firstn (S j) k) <> None) by (apply IH; lia).
        rewrite <- firstn_snoc_next in Hs by lia. apply S1 in Hs; [exact Hs|].
        destruct k; [cbn in Hj; lia|]. destruct j; [lia|]. discriminate. }
    assert (Knil : forall k, T1 k <> None -> k <> []).
    { intros k H ->. apply K2 in H. destruct H as [H|[H|[i [Hi H]]]].
      - apply (q_len T n Q) in H. cbn in H. lia.
      - rewrite EK in H. discriminate.
      - apply (f_equal (@length N)) in H. rewrite firstn_length in H. cbn [length] in H. lia. }
    assert (Kold : forall k e e1, T k = Some e -> T1 k = Some e1 -> e1 = e).
    { intros k e e1 H H1. rewrite (K3 k e H) in H1. congruence. }
    split; [|split; [exact KK|exact Kmono]].
    constructor.
    - (* lengths *)
      intros k H. apply K1 in H. apply K2 in H. destruct H as [H|[->|[i [Hi ->]]]].
      + apply (q_len T n Q k H).
      + lia.
      + rewrite firstn_length. lia.
    - intros k H. apply K1 in H. apply K2 in H. destruct H as [H|[->|[i [Hi ->]]]].
      + apply (q_lenN T n Q k H).
      + lia.
      + rewrite firstn_length. lia.
    - (* dropping the oldest word *)
      intros k x Hk H. apply K1. apply (S1 k x Hk). apply K1. exact H.
    - (* extends-left bit *)
      intros k e' Hk Hl. destruct (Kval k e' Hk) as [e1 [H1 ->]]. rewrite Fleft. split.
      + intros H. apply orb_true_iff in H. destruct H as [H|H].
        * destruct (T k) as [e|] eqn:Ek.
          -- rewrite (Kold k e e1 Ek H1) in H. destruct (proj1 (q_left T n Q k e Ek Hl) H) as [x Hx].
             exists x. apply Kmono. exact Hx.
          -- destruct (T1new k e1 H1 Ek) as [[_ ->]|[_ ->]]; discriminate.
        * apply existsb_exists in H. destruct H as [j [Hj Hjk]]. apply in_seq in Hj. apply key_eqb_true in Hjk. subst k.
          exists (nth j K 0%N). rewrite firstn_snoc_next by lia. apply K1. apply K2.
          destruct (Nat.eq_dec (S j) n) as [E|E].
          -- right. left. rewrite E, <- Hlen. apply firstn_all.
          -- right. right. exists (S j). split; [lia|reflexivity].
      + intros [x Hx]. apply K1 in Hx. apply K2 in Hx. apply orb_true_iff. destruct Hx as [Hx|[Hx|[i [Hi Hx]]]].
        * left. assert (Hkn : k <> []) by (apply Knil; rewrite H1; discriminate).
          pose proof (q_suf T n Q k x Hkn Hx) as Hk2. destruct (T k) as [e|] eqn:Ek; [|congruence].
          rewrite (Kold k e e1 Ek H1). apply (q_left T n Q k e Ek Hl). exists x. exact Hx.
        * right. assert (Hk' : k = firstn (n - 1) K) by (apply (snoc_firstn K k x n); [lia|rewrite Hx, <- Hlen; symmetry; apply firstn_all]).
          apply existsb_exists. exists (n - 1)%nat. split; [apply in_seq; lia|subst k; apply key_eqb_refl].
        * right. assert (Hk' : k = firstn (i - 1) K) by (apply (snoc_firstn K k x i); [lia|exact Hx]).
          apply existsb_exists. exists (i - 1)%nat. split; [apply in_seq; lia|subst k; apply key_eqb_refl].
    - (* probabilities *)
      intros w' c' e' Hk. destruct (Kval _ e' Hk) as [e1 [H1 ->]].
      destruct (T (w' :: c')) as [e|] eqn:Ek.
      + rewrite Pother.
        * rewrite (Kold _ e e1 Ek H1). apply (q_prob T n Q w' c' e Ek).
        * intros i Hi Heq0. rewrite Heq0 in Ek. rewrite (HmissT i Hi) in Ek. discriminate.
      + destruct (T1new _ e1 H1 Ek) as [[HkK ->]|[[i [Hi HkK]] ->]].
        * rewrite Pother by (intros i Hi Heq0; apply (Kne i); [lia|congruence]).
          cbn [mk_entry e_prob]. rewrite EK in HkK. injection HkK as -> ->.
          symmetry. apply (spec_hit2 M w c (length c) (g_prob g) (g_bo g)). rewrite firstn_all. rewrite <- EK. apply Hfirst.
          rewrite <- Ek. rewrite EK. reflexivity.
        * rewrite HkK. rewrite Pblank by exact Hi. rewrite EK in HkK. destruct i as [|i']; [lia|]. cbn [firstn] in HkK. injection HkK as -> ->.
          rewrite firstn_length. replace (Nat.min i' (length c)) with i' by lia. replace (S i' - 1)%nat with i' by lia.
          symmetry. apply spec_firstn'. lia.
    - (* back-offs *)
      intros k e' Hk. destruct (Kval k e' Hk) as [e1 [H1 ->]]. rewrite app_ops_bo. apply (T1bo k e1 H1).
    - (* no extension bit: zero back-off, nobody's context *)
      intros k e' Hk Hx. destruct (Kval k e' Hk) as [e1 [H1 ->]].
      assert (Hx1 : e_ext e1 = false) by (destruct (e_ext e1) eqn:E; [|reflexivity]; assert (e_ext (app_ops OPS k e1) = true) by (apply Fext; left; exact E); congruence).
      assert (Hx2 : k <> tl K) by (intros ->; assert (e_ext (app_ops OPS (tl K) e1) = true) by (apply Fext; right; right; reflexivity); congruence).
      assert (Hx3 : forall i, (b < i <= n - 1)%nat -> k <> firstn (i - 1) (tl K)).
      { intros i Hi Hk3. assert (e_ext (app_ops OPS k e1) = true); [|congruence].
        apply Fext. right. left. exists i. split; [exact Hi|]. split; [exact Hk3|rewrite H1; discriminate]. }
      rewrite app_ops_bo. split.
      + destruct (T k) as [e|] eqn:Ek.
        * rewrite (Kold k e e1 Ek H1) in *. apply (q_ext T n Q k e Ek Hx1).
        * destruct (T1new k e1 H1 Ek) as [[_ ->]|[_ ->]]; [|reflexivity].
          cbn [mk_entry e_ext e_bo] in *. apply negb_false_iff in Hx1. apply Z.eqb_eq in Hx1. exact Hx1.
      + intros x. destruct (T' (x :: k)) as [ex|] eqn:Exk; [exfalso|reflexivity].
        assert (Hp : T1 (x :: k) <> None) by (apply K1; rewrite Exk; discriminate).
        apply K2 in Hp. destruct Hp as [Hp|[Hp|[i [Hi Hp]]]].
        * assert (Hkn : k <> []) by (apply Knil; rewrite H1; discriminate).
          pose proof (q_ctx T n Q x k Hkn Hp) as Hk2. destruct (T k) as [e|] eqn:Ek; [|congruence].
          rewrite (Kold k e e1 Ek H1) in Hx1. apply Hp. apply (q_ext T n Q k e Ek Hx1).
        * apply Hx2. rewrite <- Hp. reflexivity.
        * apply (Hx3 i Hi). rewrite <- tl_firstn by lia. rewrite <- Hp. reflexivity.
    - (* contexts are stored *)
      intros w' k Hk H. apply K1. apply K1 in H. apply K2 in H. destruct H as [H|[H|[i [Hi H]]]].
      + apply K2. left. apply (q_ctx T n Q w' k Hk H).
      + replace k with (tl K) by (rewrite <- H; reflexivity). exact Hact.
      + replace k with (firstn (i - 1) (tl K)) by (rewrite <- tl_firstn by lia; rewrite <- H; reflexivity).
        apply P1; [exact Hact|]. rewrite EK. cbn [tl]. lia.
    - (* lower orders stay complete *)
      intros k Hm Hl. apply Kmono. apply (q_low T n Q k Hm Hl).
  Qed.
End Step.

(* ---- whole files ---------------------------------------------------------------------------------------------- *)
Lemma M_of_app_l : forall a b k, M_of a k <> None -> M_of (a ++ b) k = M_of a k.
Proof.
  intros a b k H. unfold M_of in *. induction a as [|g a IH]; cbn [app find] in *; [congruence|].
  destruct (key_eqb (g_key g) k); [reflexivity|apply IH; exact H].
Qed.

Lemma M_of_first : forall pre g post, (forall g', In g' pre -> g_key g' <> g_key g) ->
  M_of (pre ++ g :: post) (g_key g) = Some (g_prob g, g_bo g).
Proof.
  intros pre g post H. unfold M_of. induction pre as [|g0 pre IH]; cbn [app find].
  - rewrite key_eqb_refl. reflexivity.
  - assert (E : key_eqb (g_key g0) (g_key g) = false) by (apply key_eqb_false; apply H; left; reflexivity).
    rewrite E. apply IH. intros g' Hin. apply H. right. exact Hin.
Qed.

Lemma M_of_in : forall grams k, M_of grams k <> None -> exists g, In g grams /\ g_key g = k.
Proof.
  intros grams k H. unfold M_of in H. destruct (find (fun g => key_eqb (g_key g) k) grams) as [g|] eqn:E; [|congruence].
  apply find_some in E. destruct E as [Hin Hk]. apply key_eqb_true in Hk. exists g. split; assumption.
Qed.

Section Whole.
  Variable N_order : nat.
  Hypothesis Hord : (2 <= N_order)%nat.
  Variable buckets : list nat.
  Variable grams : list gram.
  Let M := M_of grams.
  Hypothesis Hwords : forall g w, In g grams -> In w (g_key g) -> M [w] <> None.

  Lemma add_grams_pq : forall rm gs n pre post t t', grams = pre ++ gs ++ post -> (2 <= n <= N_order)%nat ->
    (forall g, In g gs -> length (g_key g) = n) ->
    PQ N_order M (alookup t) n -> (forall g', In g' pre -> alookup t (g_key g') <> None) ->
    add_grams buckets rm n gs t = Loaded t' ->
    PQ N_order M (alookup t') n /\ (forall g', In g' (pre ++ gs) -> alookup t' (g_key g') <> None).
  Proof.
    intros rm. induction gs as [|g gs IH]; intros n pre post t t' Hg Hn Hlen Q Hpre Hadd.
    - cbn [add_grams] in Hadd. injection Hadd as <-. rewrite app_nil_r. split; assumption.
    - cbn [add_grams] in Hadd. destruct (add_gram buckets rm n g t) as [t1|] eqn:E1; [|discriminate].
      assert (Hin : In g grams) by (rewrite Hg; apply in_or_app; right; left; reflexivity).
      destruct (add_gram_pq N_order M buckets rm n g t t1 Q Hn (Hlen g (or_introl eq_refl))) as [Q1 [HK Hmono]].
      + intros w Hw. apply (q_low N_order M _ n Q); [apply (Hwords g w Hin Hw)|cbn [length]; lia].
      + intros HnoK. unfold M. rewrite Hg. cbn [app]. apply M_of_first.
        intros g' Hin' Heq. apply (Hpre g' Hin'). rewrite Heq. exact HnoK.
      + exact E1.
      + destruct (IH n (pre ++ [g]) post t1 t') as [Q2 H2].
        * rewrite Hg. rewrite <- app_assoc. reflexivity.
        * exact Hn.
        * intros g0 H0. apply Hlen. right. exact H0.
        * exact Q1.
        * intros g' Hin'. apply in_app_or in Hin'. destruct Hin' as [Hin'|[<-|[]]]; [apply Hmono; apply Hpre; exact Hin'|exact HK].
        * exact Hadd.
        * split; [exact Q2|]. intros g' Hin'. apply H2. rewrite <- app_assoc. exact Hin'.
  Qed.

  Lemma pq_next_order : forall T n pre post, grams = pre ++ post -> PQ N_order M T n ->
    (forall g', In g' pre -> T (g_key g') <> None) -> (forall g', In g' post -> (n < length (g_key g'))%nat) ->
    PQ N_order M T (S n).
  Proof.
    intros T n pre post Hg Q Hpre Hpost. destruct Q. constructor; try assumption.
    - intros k H. specialize (q_len0 k H). lia.
    - intros k Hm Hl. destruct (Nat.eq_dec (length k) n) as [E|E]; [|apply q_low0; [exact Hm|lia]].
      destruct (M_of_in grams k Hm) as [g [Hin Hk]]. rewrite Hg in Hin. apply in_app_or in Hin. destruct Hin as [Hin|Hin].
      + rewrite <- Hk. apply Hpre. exact Hin.
      + specialize (Hpost g Hin). rewrite Hk in Hpost. lia.
  Qed.

  Lemma add_sections_pq : forall rm secs n pre t t', grams = pre ++ concat secs -> (2 <= n)%nat -> (n + length secs <= S N_order)%nat ->
    (forall i sec, nth_error secs i = Some sec -> forall g, In g sec -> length (g_key g) = (n + i)%nat) ->
    PQ N_order M (alookup t) n -> (forall g', In g' pre -> alookup t (g_key g') <> None) ->
    add_sections buckets rm n secs t = Loaded t' ->
    PQ N_order M (alookup t') (n + length secs) /\ (forall g', In g' grams -> alookup t' (g_key g') <> None).
  Proof.
    intros rm. induction secs as [|sec secs IH]; intros n pre t t' Hg Hn HN Hsec Q Hpre Hadd.
    - cbn [add_sections] in Hadd. injection Hadd as <-. cbn [length]. rewrite Nat.add_0_r. split; [exact Q|].
      intros g' Hin. apply Hpre. rewrite Hg in Hin. cbn [concat] in Hin. rewrite app_nil_r in Hin. exact Hin.
    - cbn [add_sections] in Hadd. destruct (add_grams buckets rm n sec t) as [t1|] eqn:E1; [|discriminate].
      cbn [concat] in Hg. cbn [length] in HN.
      destruct (add_grams_pq rm sec n pre (concat secs) t t1 Hg ltac:(lia)) as [Q1 H1]; try assumption.
      { intros g Hin. rewrite (Hsec 0%nat sec eq_refl g Hin). lia. }
      assert (Q1' : PQ N_order M (alookup t1) (S n)).
      { apply (pq_next_order _ n (pre ++ sec) (concat secs)); [rewrite Hg; apply app_assoc|exact Q1|exact H1|].
        intros g' Hin. apply in_concat in Hin. destruct Hin as [s [Hs Hin]].
        apply In_nth_error in Hs. destruct Hs as [i Hi]. rewrite (Hsec (S i) s Hi g' Hin). lia. }
      destruct (IH (S n) (pre ++ sec) t1 t') as [Q2 H2]; try assumption.
      + rewrite Hg. apply app_assoc.
      + lia.
      + lia.
      + intros i s Hi g Hin. rewrite (Hsec (S i) s Hi g Hin). lia.
      + cbn [length]. replace (n + S (length secs))%nat with (S n + length secs)%nat by lia. split; assumption.
  Qed.
End Whole.

(* ---- the unigram table, the final <unk> touch-up, and the theorem ------------------------------------------------- *)
Lemma pq_ext_raise : forall N_order M T T' n, PQ N_order M T n ->
  (forall k, match T k, T' k with
             | Some e, Some e' => e_prob e' = e_prob e /\ e_bo e' = e_bo e /\ e_left e' = e_left e /\ (e_ext e = true -> e_ext e' = true)
             | None, None => True
             | _, _ => False
             end) ->
  PQ N_order M T' n.
Proof.
  intros N_order M T T' n Q H.
  assert (Hp : forall k, T' k <> None <-> T k <> None).
  { intros k. specialize (H k). destruct (T k), (T' k); split; intros; try congruence; try contradiction. }
  assert (Hv : forall k e', T' k = Some e' -> exists e, T k = Some e /\ e_prob e' = e_prob e /\ e_bo e' = e_bo e /\ e_left e' = e_left e /\ (e_ext e = true -> e_ext e' = true)).
  { intros k e' Hk. specialize (H k). rewrite Hk in H. destruct (T k) as [e|]; [|contradiction]. exists e. split; [reflexivity|exact H]. }
  destruct Q. constructor.
  - intros k Hk. apply q_len0. apply Hp. exact Hk.
  - intros k Hk. apply q_lenN0. apply Hp. exact Hk.
  - intros k x Hk Hx. apply Hp. apply (q_suf0 k x Hk). apply Hp. exact Hx.
  - intros k e' Hk Hl. destruct (Hv k e' Hk) as [e [He [_ [_ [Hle _]]]]]. rewrite Hle. rewrite (q_left0 k e He Hl).
    split; intros [x Hx]; exists x; apply Hp; [exact Hx|]. apply Hp. apply Hp. exact Hx.
  - intros w c e' Hk. destruct (Hv _ e' Hk) as [e [He [Hpr _]]]. rewrite Hpr. apply (q_prob0 w c e He).
  - intros k e' Hk. destruct (Hv k e' Hk) as [e [He [_ [Hbo _]]]]. rewrite Hbo. apply (q_bo0 k e He).
  - intros k e' Hk Hx. destruct (Hv k e' Hk) as [e [He [_ [Hbo [_ Hex]]]]].
    assert (e_ext e = false) by (destruct (e_ext e); [rewrite Hex in Hx by reflexivity; discriminate|reflexivity]).
    destruct (q_ext0 k e He H0) as [B1 B2]. rewrite Hbo. split; [exact B1|].
    intros x. specialize (B2 x). destruct (T' (x :: k)) eqn:E; [|reflexivity]. exfalso.
    assert (T' (x :: k) <> None) by (rewrite E; discriminate). apply Hp in H1. congruence.
  - intros w k Hk Hx. apply Hp. apply (q_ctx0 w k Hk). apply Hp. exact Hx.
  - intros k Hm Hl. apply Hp. apply (q_low0 k Hm Hl).
Qed.

Definition unk_gram (unk_prob : Z) : gram := {| g_key := [0%N]; g_prob := unk_prob; g_bo := 0; g_pz := false |}.

(* entries built for the unigram section agree with the first listing of each word *)
Lemma uni_table : forall (L : list (gram * entry)) k e,
  (forall ge, In ge L -> e_prob (snd ge) = g_prob (fst ge) /\ e_bo (snd ge) = g_bo (fst ge) /\ e_left (snd ge) = false /\
                         (e_ext (snd ge) = false -> e_bo (snd ge) = 0)) ->
  alookup (map (fun ge => (g_key (fst ge), snd ge)) L) k = Some e ->
  M_of (map fst L) k = Some (e_prob e, e_bo e) /\ e_left e = false /\ (e_ext e = false -> e_bo e = 0) /\
  exists g, In g (map fst L) /\ g_key g = k.
Proof.
  induction L as [|[g0 e0] L IH]; intros k e HL H; cbn [map alookup fst snd] in H; [discriminate|].
  unfold M_of. cbn [map find fst]. destruct (key_eqb (g_key g0) k) eqn:E.
  - injection H as <-. destruct (HL (g0, e0) (or_introl eq_refl)) as [A1 [A2 [A3 A4]]]. cbn [fst snd] in *.
    split; [rewrite A1, A2; reflexivity|]. split; [exact A3|]. split; [exact A4|].
    exists g0. split; [left; reflexivity|apply key_eqb_true; exact E].
  - destruct (IH k e (fun ge Hin => HL ge (or_intror Hin)) H) as [B1 [B2 [B3 [g [Hg Hk]]]]].
    split; [exact B1|]. split; [exact B2|]. split; [exact B3|]. exists g. split; [right; exact Hg|exact Hk].
Qed.

Lemma uni_table_present : forall (L : list (gram * entry)) k,
  M_of (map fst L) k <> None -> alookup (map (fun ge => (g_key (fst ge), snd ge)) L) k <> None.
Proof.
  induction L as [|[g0 e0] L IH]; intros k H; unfold M_of in H; cbn [map find fst] in H; [congruence|].
  cbn [map alookup fst snd]. destruct (key_eqb (g_key g0) k); [discriminate|apply IH; exact H].
Qed.

Theorem load_probing_inv : forall N_order buckets (rm saw_unk : bool) unk_prob (unigrams : list gram) (higher : list (list gram)) t,
  (2 <= N_order)%nat -> length higher = (N_order - 1)%nat ->
  let U := if saw_unk then unigrams else unk_gram unk_prob :: unigrams in
  let M := M_of (U ++ concat higher) in
  (forall g, In g U -> length (g_key g) = 1%nat) ->
  (forall i sec, nth_error higher i = Some sec -> forall g, In g sec -> length (g_key g) = (2 + i)%nat) ->
  (forall g w, In g (U ++ concat higher) -> In w (g_key g) -> M [w] <> None) ->
  (saw_unk = false -> unk_prob < 0) ->
  load_probing buckets rm saw_unk unk_prob unigrams higher = Loaded t ->
  TInv N_order (alookup t) M.
Proof.
  intros N_order buckets rm saw_unk unk_prob unigrams higher t Hord Hlenh U M HU Hsec Hwords Hunk Hload.
  unfold load_probing in Hload.
  set (L := (if saw_unk then [] else [(unk_gram unk_prob, initial_unk unk_prob)]) ++ map (fun g => (g, uni_entry g)) unigrams).
  assert (HL1 : map fst L = U).
  { unfold L, U. rewrite map_app. rewrite map_map. cbn [fst]. rewrite map_id. destruct saw_unk; reflexivity. }
  set (t0 := if saw_unk then map (fun g => (g_key g, uni_entry g)) unigrams
             else ([0%N], initial_unk unk_prob) :: map (fun g => (g_key g, uni_entry g)) unigrams) in Hload.
  assert (Ht0 : t0 = map (fun ge => (g_key (fst ge), snd ge)) L).
  { unfold t0, L. rewrite map_app. rewrite map_map. cbn [fst snd]. destruct saw_unk; reflexivity. }
  assert (HLok : forall ge, In ge L -> e_prob (snd ge) = g_prob (fst ge) /\ e_bo (snd ge) = g_bo (fst ge) /\ e_left (snd ge) = false /\
                                        (e_ext (snd ge) = false -> e_bo (snd ge) = 0)).
  { intros ge Hin. unfold L in Hin. apply in_app_or in Hin. destruct Hin as [Hin|Hin].
    - destruct saw_unk; [destruct Hin|]. destruct Hin as [<-|[]]. cbn. repeat split; try reflexivity; try discriminate.
    - apply in_map_iff in Hin. destruct Hin as [g [<- _]]. cbn [fst snd uni_entry e_prob e_bo e_left e_ext].
      repeat split; try reflexivity. intros H. apply negb_false_iff in H. apply Z.eqb_eq in H. exact H. }
  assert (Hhi : forall g, In g (concat higher) -> (2 <= length (g_key g))%nat).
  { intros g Hin. apply in_concat in Hin. destruct Hin as [s [Hs Hin]]. apply In_nth_error in Hs. destruct Hs as [i Hi].
    rewrite (Hsec i s Hi g Hin). lia. }
  (* the table of the unigram section satisfies the invariant at order 2 *)
  assert (Q0 : PQ N_order M (alookup t0) 2).
  { rewrite Ht0.
    assert (V : forall k e, alookup (map (fun ge => (g_key (fst ge), snd ge)) L) k = Some e ->
                 length k = 1%nat /\ M k = Some (e_prob e, e_bo e) /\ e_left e = false /\ (e_ext e = false -> e_bo e = 0)).
    { intros k e Hk. destruct (uni_table L k e HLok Hk) as [A1 [A2 [A3 [g [Hg Hgk]]]]]. rewrite HL1 in *.
      split; [rewrite <- Hgk; apply HU; exact Hg|]. split; [|split; assumption].
      unfold M. rewrite M_of_app_l by (rewrite A1; discriminate). exact A1. }
    assert (V1 : forall k, alookup (map (fun ge => (g_key (fst ge), snd ge)) L) k <> None -> length k = 1%nat).
    { intros k Hk. destruct (alookup (map (fun ge => (g_key (fst ge), snd ge)) L) k) as [e|] eqn:E; [|congruence]. apply (V k e E). }
    constructor.
    - intros k Hk. rewrite (V1 k Hk). lia.
    - intros k Hk. rewrite (V1 k Hk). lia.
    - intros k x Hk Hx. apply V1 in Hx. rewrite app_length in Hx. cbn [length] in Hx. destruct k; [congruence|cbn [length] in Hx; lia].
    - intros k e Hk Hl. destruct (V k e Hk) as [_ [_ [A3 _]]]. rewrite A3. split; [discriminate|].
      intros [x Hx]. apply V1 in Hx. rewrite app_length in Hx. cbn [length] in Hx. pose proof (proj1 (V k e Hk)). lia.
    - intros w c e Hk. destruct (V _ e Hk) as [A0 [A1 _]]. destruct c; [|cbn [length] in A0; lia]. cbn [spec firstn length]. rewrite A1. reflexivity.
    - intros k e Hk. destruct (V k e Hk) as [_ [A1 _]]. unfold bo_of. rewrite A1. reflexivity.
    - intros k e Hk Hx. destruct (V k e Hk) as [A0 [_ [_ A4]]]. split; [apply A4; exact Hx|].
      intros x. destruct (alookup (map (fun ge => (g_key (fst ge), snd ge)) L) (x :: k)) eqn:E; [|reflexivity].
      assert (length (x :: k) = 1%nat) by (apply V1; rewrite E; discriminate). cbn [length] in H. lia.
    - intros w k Hk Hx. apply V1 in Hx. cbn [length] in Hx. destruct k; [congruence|cbn [length] in Hx; lia].
    - intros k Hm Hl. apply uni_table_present. rewrite HL1.
      destruct (M_of_in _ k Hm) as [g [Hin Hgk]]. apply in_app_or in Hin. destruct Hin as [Hin|Hin].
      + unfold M_of. destruct (find (fun g0 => key_eqb (g_key g0) k) U) eqn:Ef; [discriminate|].
        exfalso. apply (find_none _ _ Ef g) in Hin. rewrite Hgk, key_eqb_refl in Hin. discriminate.
      + specialize (Hhi g Hin). rewrite Hgk in Hhi. lia. }
  (* REST_MAX: the last listed unigram's rest cost stays 0 when <unk> is not listed -- only a rest cost *)
  set (t0' := if andb rm (negb saw_unk)
              then match rev unigrams with g :: _ => aupdate t0 (g_key g) zero_rest | [] => t0 end
              else t0) in Hload.
  assert (Hrel : forall k, match alookup t0 k, alookup t0' k with
                           | Some e, Some e' => e_prob e' = e_prob e /\ e_bo e' = e_bo e /\ e_left e' = e_left e /\ (e_ext e = true -> e_ext e' = true)
                           | None, None => True
                           | _, _ => False
                           end).
  { intros k. unfold t0'. destruct (andb rm (negb saw_unk)); [|destruct (alookup t0 k); [repeat split; auto|exact I]].
    destruct (rev unigrams) as [|g0 ?]; [destruct (alookup t0 k); [repeat split; auto|exact I]|].
    rewrite alookup_aupdate. destruct (key_eqb (g_key g0) k); destruct (alookup t0 k); cbn [option_map]; try exact I; repeat split; auto. }
  assert (Q0' : PQ N_order M (alookup t0') 2) by (apply (pq_ext_raise N_order M (alookup t0)); assumption).
  destruct (add_sections buckets rm 2 higher t0') as [t1|] eqn:E1; [|discriminate]. injection Hload as <-.
  assert (A1 : (2 <= 2)%nat) by lia. assert (A2 : (2 + length higher <= S N_order)%nat) by lia.
  destruct (add_sections_pq N_order Hord buckets (U ++ concat higher) Hwords rm higher 2 U t0' t1 eq_refl A1 A2 Hsec Q0') as [Q1 Hall].
  { intros g' Hin. assert (Hp0 : alookup t0 (g_key g') <> None).
    { rewrite Ht0. apply uni_table_present. rewrite HL1.
      unfold M_of. destruct (find (fun g0 => key_eqb (g_key g0) (g_key g')) U) eqn:Ef; [discriminate|].
      exfalso. apply (find_none _ _ Ef g') in Hin. rewrite key_eqb_refl in Hin. discriminate. }
    specialize (Hrel (g_key g')). destruct (alookup t0 (g_key g')); [|congruence]. destruct (alookup t0' (g_key g')); [discriminate|contradiction]. }
  { exact E1. }
  (* the final touch on <unk> changes nothing the invariant speaks about *)
  assert (Q2 : PQ N_order M (alookup (if saw_unk then t1 else aupdate t1 [0%N] (final_unk unk_prob))) (2 + length higher)).
  { destruct saw_unk eqn:Es; [exact Q1|].
    apply (pq_ext_raise N_order M (alookup t1)); [exact Q1|]. intros k. rewrite alookup_aupdate.
    destruct (key_eqb [0%N] k) eqn:Ek.
    - apply key_eqb_true in Ek. subst k. destruct (alookup t1 [0%N]) as [e|] eqn:E0; cbn [option_map]; [|exact I].
      assert (HM0 : M [0%N] = Some (unk_prob, 0)).
      { unfold M, U. cbn [app]. unfold M_of. cbn [find unk_gram g_key]. rewrite key_eqb_refl. reflexivity. }
      pose proof (q_prob N_order M _ _ Q1 0%N [] e E0) as P0. cbn [spec firstn length] in P0. rewrite HM0 in P0.
      pose proof (q_bo N_order M _ _ Q1 [0%N] e E0) as B0. unfold bo_of in B0. rewrite HM0 in B0.
      cbn [final_unk e_prob e_bo e_left e_ext]. split; [symmetry; exact P0|]. split; [symmetry; exact B0|]. split; [|reflexivity].
      specialize (Hunk eq_refl). replace (0 <=? unk_prob) with false by (symmetry; apply Z.leb_gt; lia). apply orb_false_r.
    - destruct (alookup t1 k); [repeat split; auto|exact I]. }
  set (tf := if saw_unk then t1 else aupdate t1 [0%N] (final_unk unk_prob)) in *.
  assert (Hpres : forall k, alookup t1 k <> None -> alookup tf k <> None).
  { intros k Hk. unfold tf. destruct saw_unk; [exact Hk|]. rewrite alookup_aupdate.
    destruct (key_eqb [0%N] k); [|exact Hk]. destruct (alookup t1 k); [discriminate|congruence]. }
  destruct Q2. constructor; try assumption.
  - intros k Hk. destruct (M k) eqn:Em; [|reflexivity]. exfalso.
    assert (Hmk : M_of (U ++ concat higher) k <> None) by (fold M; rewrite Em; discriminate).
    destruct (M_of_in _ k Hmk) as [g [Hin Hgk]].
    apply (Hpres k); [rewrite <- Hgk; apply Hall; exact Hin|exact Hk].
  - intros k Hk. split; [apply (q_len0 k Hk)|apply (q_lenN0 k Hk)].
Qed.
