(* LM/QueryProofs.v -- the query algorithms of lm/model.cc (model: LM/Query.v) compute the ARPA back-off
   recursion (LM/Defs.v), for every table that satisfies the loaders' invariants. *)
From Coq Require Import List ZArith NArith Bool Arith Lia.
From Kenlm Require Import LM.Defs LM.Query.
Import ListNotations.
Local Open Scope Z_scope.

(* ---- list plumbing ---------------------------------------------------------------------------- *)
Lemma firstn_S_snoc : forall (A : Type) (l : list A) i d, (i < length l)%nat ->
  firstn (S i) l = firstn i l ++ [nth i l d].
Proof.
  induction l as [|a l IH]; intros i d Hi; simpl in Hi; [lia|].
  destruct i as [|i]; [reflexivity|].
  change (firstn (S (S i)) (a :: l)) with (a :: firstn (S i) l).
  change (firstn (S i) (a :: l)) with (a :: firstn i l). change (nth (S i) (a :: l) d) with (nth i l d).
  rewrite (IH i d) by lia. reflexivity.
Qed.

Lemma skipn_cons_nth : forall (A : Type) (l : list A) i d, (i < length l)%nat ->
  skipn i l = nth i l d :: skipn (S i) l.
Proof.
  induction l as [|a l IH]; intros i d Hi; simpl in Hi; [lia|].
  destruct i as [|i]; simpl; [reflexivity|]. apply IH. lia.
Qed.

Section Proofs.
  Variable N_order : nat.
  Hypothesis Hord : (2 <= N_order)%nat.
  Variable T : table.
  Variable M : arpa.
  Variable K : kind.

  Definition bo_T (k : key) : Z := match T k with Some e => e_bo e | None => 0 end.

  (* ---- the invariants the loaders establish (DESIGN.md section 4, C01) ------------------------ *)
  Record TInv : Prop := {
    (* I1: dropping the oldest word of a stored n-gram gives a stored n-gram (blanks were inserted for this) *)
    i_suffix : forall k x, k <> [] -> T (k ++ [x]) <> None -> T k <> None;
    (* I2: the "extends left" bit is sound and complete below the highest order *)
    i_left : forall k e, T k = Some e -> (length k < N_order)%nat -> (e_left e = true <-> exists x, T (k ++ [x]) <> None);
    (* I3: stored probability = back-off recursion of the ARPA model for that very n-gram (real or blank);
           stored back-off = the ARPA back-off (0 for blanks) *)
    i_prob : forall w c e, T (w :: c) = Some e -> e_prob e = spec M c w (length c);
    i_bo : forall k e, T k = Some e -> e_bo e = bo_of M k;
    (* I4: the file is a subset of the table *)
    i_sub : forall k, T k = None -> M k = None;
    (* I3': an entry without the extension bit has zero back-off and is nobody's context *)
    i_ext : forall k e, T k = Some e -> e_ext e = false -> e_bo e = 0 /\ forall x, T (x :: k) = None;
    (* I5: the context of a stored n-gram is stored (the loaders throw otherwise) *)
    i_ctx : forall w k, k <> [] -> T (w :: k) <> None -> T k <> None;
    (* I6: nothing longer than the order *)
    i_len : forall k, T k <> None -> (1 <= length k <= N_order)%nat
  }.

  Hypothesis Inv : TInv.

  Lemma miss_step : forall ctx w j, (j < length ctx)%nat ->
    T (w :: firstn j ctx) = None -> T (w :: firstn (S j) ctx) = None.
  Proof.
    intros ctx w j Hj Hm. rewrite (firstn_S_snoc _ ctx j 0%N Hj).
    destruct (T (w :: firstn j ctx ++ [nth j ctx 0%N])) eqn:E; [|reflexivity]. exfalso.
    change (w :: firstn j ctx ++ [nth j ctx 0%N]) with ((w :: firstn j ctx) ++ [nth j ctx 0%N]) in E.
    apply (i_suffix Inv (w :: firstn j ctx) (nth j ctx 0%N)); [discriminate|rewrite E; discriminate|exact Hm].
  Qed.

  Lemma miss_mono : forall ctx w i j, (i <= j)%nat -> (j <= length ctx)%nat ->
    T (w :: firstn i ctx) = None -> T (w :: firstn j ctx) = None.
  Proof.
    intros ctx w i j Hij Hj Hm. induction j as [|j IH].
    - assert (i = 0)%nat by lia. subst. exact Hm.
    - destruct (Nat.eq_dec i (S j)) as [->|Hne]; [exact Hm|]. apply miss_step; [lia|]. apply IH; lia.
  Qed.

  Lemma ctx_miss_step : forall ctx j, (1 <= j)%nat -> (j < length ctx)%nat ->
    T (firstn j ctx) = None -> T (firstn (S j) ctx) = None.
  Proof.
    intros ctx j H1 Hj Hm. rewrite (firstn_S_snoc _ ctx j 0%N Hj).
    destruct (T (firstn j ctx ++ [nth j ctx 0%N])) eqn:E; [|reflexivity]. exfalso.
    apply (i_suffix Inv (firstn j ctx) (nth j ctx 0%N)).
    - destruct ctx; simpl in *; [lia|]. destruct j; [lia|]. simpl. discriminate.
    - rewrite E. discriminate.
    - exact Hm.
  Qed.

  Lemma ctx_miss_mono : forall ctx i j, (1 <= i)%nat -> (i <= j)%nat -> (j <= length ctx)%nat ->
    T (firstn i ctx) = None -> T (firstn j ctx) = None.
  Proof.
    intros ctx i j H1 Hij Hj Hm. induction j as [|j IH]; [lia|].
    destruct (Nat.eq_dec i (S j)) as [->|Hne]; [exact Hm|]. apply ctx_miss_step; [lia|lia|]. apply IH; lia.
  Qed.

  (* ---- the specification, re-expressed ------------------------------------------------------- *)
  (* sum of the ARPA back-offs of the contexts of length i+1 .. i+n *)
  Fixpoint sumbo (ctx : list word) (n i : nat) : Z :=
    match n with O => 0 | S n' => bo_of M (firstn (S i) ctx) + sumbo ctx n' (S i) end.

  Lemma sumbo_snoc : forall ctx n i, sumbo ctx (S n) i = sumbo ctx n i + bo_of M (firstn (S (i + n)) ctx).
  Proof.
    intros ctx n. induction n as [|n IH]; intros i.
    - cbn [sumbo]. replace (i + 0)%nat with i by lia. lia.
    - cbn [sumbo] in *. specialize (IH (S i)). cbn [sumbo] in IH. rewrite IH.
      replace (S i + n)%nat with (i + S n)%nat by lia. lia.
  Qed.

  Lemma spec_miss_above : forall ctx w k i, (i <= k)%nat ->
    (forall j, (i < j <= k)%nat -> M (w :: firstn j ctx) = None) ->
    spec M ctx w k = spec M ctx w i + sumbo ctx (k - i) i.
  Proof.
    intros ctx w k. induction k as [|k IH]; intros i Hik Hm.
    - assert (i = 0)%nat by lia. subst. cbn. lia.
    - destruct (Nat.eq_dec i (S k)) as [->|Hne].
      + replace (S k - S k)%nat with 0%nat by lia. cbn [sumbo]. lia.
      + cbn [spec]. rewrite (Hm (S k)) by lia.
        rewrite (IH i) by (try lia; intros; apply Hm; lia).
        replace (S k - i)%nat with (S (k - i)) by lia.
        rewrite sumbo_snoc. replace (i + (k - i))%nat with k by lia. lia.
  Qed.

  (* spec over a context depends only on the first k words *)
  Lemma spec_firstn : forall ctx w k m, (k <= m)%nat -> spec M (firstn m ctx) w k = spec M ctx w k.
  Proof.
    intros ctx w k. induction k as [|k IH]; intros m Hm; cbn [spec].
    - rewrite !firstn_O. reflexivity.
    - rewrite firstn_firstn. replace (Nat.min (S k) m) with (S k) by lia.
      destruct (M (w :: firstn (S k) ctx)) as [[p b]|]; [reflexivity|]. rewrite IH by lia. reflexivity.
  Qed.

  (* the value stored for the n-gram w :: first i words of the context is the recursion at level i *)
  Lemma stored_prob : forall ctx w i e, (i <= length ctx)%nat -> T (w :: firstn i ctx) = Some e -> e_prob e = spec M ctx w i.
  Proof.
    intros ctx w i e Hi He. rewrite (i_prob Inv w (firstn i ctx) e He).
    rewrite firstn_length. replace (Nat.min i (length ctx)) with i by lia.
    apply spec_firstn. lia.
  Qed.

  Lemma snoc_key : forall ctx w j, (j < length ctx)%nat ->
    (w :: firstn j ctx) ++ [nth j ctx 0%N] = w :: firstn (S j) ctx.
  Proof. intros. rewrite (firstn_S_snoc _ ctx j 0%N) by assumption. reflexivity. Qed.

  (* ---- ResumeScore: returns the longest stored n-gram along the context; everything longer is absent ---- *)
  Lemma resume_ret : forall hist ctx w j bos nu r e,
    hist = skipn j ctx -> (j <= length ctx)%nat -> (length ctx <= N_order - 1)%nat ->
    T (w :: firstn j ctx) = Some e -> r_prob r = e_prob e -> r_len r = S j ->
    (r_indep r = true -> forall x, T ((w :: firstn j ctx) ++ [x]) = None) ->
    exists J e', (j <= J <= length ctx)%nat /\ T (w :: firstn J ctx) = Some e' /\
      r_prob (snd (resume N_order T hist j (w :: firstn j ctx) bos nu r)) = e_prob e' /\
      r_len (snd (resume N_order T hist j (w :: firstn j ctx) bos nu r)) = S J /\
      (forall i, (J < i <= length ctx)%nat -> T (w :: firstn i ctx) = None).
  Proof.
    induction hist as [|h hist IH]; intros ctx w j bos nu r e Hh Hj Hlen He Hp Hl Hind.
    - (* context exhausted *)
      assert (j = length ctx).
      { destruct (Nat.eq_dec j (length ctx)); [assumption|]. exfalso.
        rewrite (skipn_cons_nth _ ctx j 0%N) in Hh by lia. discriminate. }
      subst j. exists (length ctx), e. cbn [resume snd]. repeat split; try lia; try assumption; try (intros; lia).
    - assert (Hjl : (j < length ctx)%nat).
      { destruct (Nat.eq_dec j (length ctx)) as [->|]; [rewrite skipn_all in Hh; discriminate|lia]. }
      rewrite (skipn_cons_nth _ ctx j 0%N Hjl) in Hh. injection Hh as Hh1 Hh2. subst h.
      cbn [resume]. destruct (r_indep r) eqn:Ei.
      + (* independent of further left context: nothing longer is stored *)
        exists j, e. cbn [snd]. repeat split; try lia; try assumption.
        intros i Hi. apply (miss_mono ctx w (S j) i); [lia|lia|].
        rewrite <- snoc_key by assumption. apply Hind. reflexivity.
      + destruct (Nat.eqb_spec j (N_order - 2)) as [Ej|Ej].
        * (* highest order *)
          assert (HS : S j = length ctx) by lia.
          rewrite snoc_key by assumption.
          destruct (T (w :: firstn (S j) ctx)) as [e1|] eqn:E1.
          -- exists (S j), e1. rewrite ?E1. cbn [snd r_prob r_len]. repeat split; try lia; try assumption; try (intros; lia).
          -- exists j, e. rewrite ?E1. cbn [snd r_prob r_len]. repeat split; try lia; try assumption.
             intros i Hi. assert (i = S j) by lia. subst i. exact E1.
        * rewrite snoc_key by assumption.
          destruct (T (w :: firstn (S j) ctx)) as [e1|] eqn:E1.
          -- rewrite ?E1. destruct (IH ctx w (S j) (bos ++ [(e_bo e1, e_ext e1)]) (if e_ext e1 then (j + 2)%nat else nu)
                        {| r_prob := e_prob e1; r_len := (j + 2)%nat; r_indep := negb (e_left e1);
                           r_ext := w :: firstn (S j) ctx; r_rest := e_rest e1 |} e1)
               as [J [e' [HJ [HT [HP [HL HM]]]]]]; try assumption; try reflexivity; try lia.
             { cbn [r_len]. lia. }
             { cbn [r_indep]. intros Hn x. apply negb_true_iff in Hn.
               destruct (T ((w :: firstn (S j) ctx) ++ [x])) eqn:Ex; [|reflexivity]. exfalso.
               assert (e_left e1 = true).
               { apply (i_left Inv _ e1 E1); [cbn [length]; rewrite firstn_length; lia|]. exists x. rewrite Ex. discriminate. }
               congruence. }
             exists J, e'. repeat split; try lia; assumption.
          -- exists j, e. rewrite ?E1. cbn [snd r_prob r_len]. repeat split; try lia; try assumption.
             intros i Hi. apply (miss_mono ctx w (S j) i); [lia|lia|exact E1].
  Qed.

  (* ---- the back-off charging loop of FullScoreForgotState ------------------------------------- *)
  Lemma bo_of_miss : forall k, T k = None -> bo_of M k = 0.
  Proof. intros k Hm. unfold bo_of. rewrite (i_sub Inv _ Hm). reflexivity. Qed.

  Lemma sumbo_zero : forall ctx n i, (S i + n <= length ctx + 1)%nat ->
    T (firstn (S i) ctx) = None -> sumbo ctx n i = 0.
  Proof.
    intros ctx n. induction n as [|n IH]; intros i Hle Hm; [reflexivity|].
    cbn [sumbo]. rewrite (bo_of_miss _ Hm).
    destruct n as [|n]; [reflexivity|].
    rewrite (IH (S i)); [reflexivity|lia|]. apply ctx_miss_step; [lia|lia|exact Hm].
  Qed.

  Lemma charge_correct : forall rest ctx i, rest = skipn i ctx -> (1 <= i <= length ctx)%nat ->
    charge T rest (firstn i ctx) = sumbo ctx (length ctx - i) i.
  Proof.
    induction rest as [|x rest IH]; intros ctx i Hr Hi.
    - assert (i = length ctx).
      { destruct (Nat.eq_dec i (length ctx)); [assumption|]. exfalso.
        rewrite (skipn_cons_nth _ ctx i 0%N) in Hr by lia. discriminate. }
      subst i. replace (length ctx - length ctx)%nat with 0%nat by lia. reflexivity.
    - assert (Hil : (i < length ctx)%nat).
      { destruct (Nat.eq_dec i (length ctx)) as [->|]; [rewrite skipn_all in Hr; discriminate|lia]. }
      rewrite (skipn_cons_nth _ ctx i 0%N Hil) in Hr. injection Hr as Hx Hrest. subst x.
      cbn [charge]. rewrite <- (firstn_S_snoc _ ctx i 0%N Hil).
      replace (length ctx - i)%nat with (S (length ctx - S i)) by lia. cbn [sumbo].
      destruct (T (firstn (S i) ctx)) as [e|] eqn:E.
      + rewrite (IH ctx (S i)) by (try assumption; lia).
        rewrite (i_bo Inv _ e E). reflexivity.
      + rewrite (bo_of_miss _ E).
        destruct (length ctx - S i)%nat eqn:En; [reflexivity|].
        rewrite sumbo_zero; [reflexivity|lia|]. apply ctx_miss_step; [lia|lia|exact E].
  Qed.

  (* the trie's FastMakeNode succeeds on a context that is stored *)
  Lemma suffix_closed_app : forall l k, k <> [] -> T (k ++ l) <> None -> T k <> None.
  Proof.
    induction l as [|x l IH] using rev_ind; intros k Hk HT.
    - rewrite app_nil_r in HT. exact HT.
    - rewrite app_assoc in HT. apply IH; [exact Hk|].
      apply (i_suffix Inv (k ++ l) x); [destruct k; [congruence|discriminate]|exact HT].
  Qed.

  Lemma trie_walk_ok : forall rest pre e, T pre = Some e -> pre <> [] -> T (pre ++ rest) <> None ->
    (length (pre ++ rest) <= N_order - 1)%nat ->
    trie_walk T rest pre (negb (e_left e)) = Some (pre ++ rest).
  Proof.
    induction rest as [|x rest IH]; intros pre e He Hne HT Hlen.
    - cbn. rewrite app_nil_r. reflexivity.
    - cbn [trie_walk].
      assert (HT' : T ((pre ++ [x]) ++ rest) <> None) by (rewrite <- app_assoc; exact HT).
      assert (Hx : T (pre ++ [x]) <> None).
      { apply (suffix_closed_app rest); [destruct pre; discriminate|exact HT']. }
      assert (Hleft : e_left e = true).
      { apply (i_left Inv _ e He); [rewrite app_length in Hlen; simpl in Hlen; lia|exists x; exact Hx]. }
      rewrite Hleft. cbn [negb].
      destruct (T (pre ++ [x])) as [e1|] eqn:E1; [|congruence].
      rewrite (IH (pre ++ [x]) e1 E1); [rewrite <- app_assoc; reflexivity|destruct pre; discriminate|exact HT'|].
      rewrite <- app_assoc. exact Hlen.
  Qed.

  Lemma fast_make_node_ok : forall ctx w J, (1 <= J <= length ctx)%nat -> (length ctx <= N_order - 1)%nat ->
    T (w :: firstn J ctx) <> None ->
    fast_make_node T K (firstn J ctx) = Some (firstn J ctx).
  Proof.
    intros ctx w J HJ Hlen HT. unfold fast_make_node. destruct K; [reflexivity|].
    assert (HC : T (firstn J ctx) <> None).
    { apply (i_ctx Inv w); [|exact HT]. destruct ctx; simpl in *; [lia|]. destruct J; [lia|]. simpl. discriminate. }
    destruct (firstn J ctx) as [|c0 rest] eqn:EF.
    - reflexivity.
    - assert (H1 : T [c0] <> None) by (apply (suffix_closed_app rest [c0]); [discriminate|exact HC]).
      unfold uni. destruct (T [c0]) as [e0|] eqn:E0; [|congruence].
      apply (trie_walk_ok rest [c0] e0 E0); [discriminate|exact HC|].
      change ([c0] ++ rest) with (c0 :: rest). rewrite <- EF. rewrite firstn_length. lia.
  Qed.

  Lemma bo_score_trunc : forall ctx0 w,
    bo_score N_order M ctx0 w = spec M (firstn (N_order - 1) ctx0) w (length (firstn (N_order - 1) ctx0)).
  Proof.
    intros ctx0 w. unfold bo_score, usable. rewrite firstn_length.
    rewrite (Nat.min_comm (N_order - 1)). symmetry. apply spec_firstn. lia.
  Qed.

  Lemma uni_some : forall w e, T [w] = Some e -> uni T w = e.
  Proof. intros w e H. unfold uni. rewrite H. reflexivity. Qed.

  Lemma uni_bo : forall c, e_bo (uni T c) = bo_of M [c].
  Proof.
    intros c. unfold uni. destruct (T [c]) as [e|] eqn:E.
    - apply (i_bo Inv _ e E).
    - rewrite (bo_of_miss _ E). reflexivity.
  Qed.

  (* ---- C01, stateless form: FullScoreForgotState returns the ARPA back-off recursion ----------- *)
  Theorem forgot_prob : forall ctx0 w, T [w] <> None ->
    r_prob (fst (full_score_forgot N_order T K ctx0 w)) = bo_score N_order M ctx0 w.
  Proof.
    intros ctx0 w Hw. rewrite bo_score_trunc. unfold full_score_forgot.
    set (ctx := firstn (N_order - 1) ctx0).
    assert (Hlen : (length ctx <= N_order - 1)%nat) by (unfold ctx; rewrite firstn_length; lia).
    destruct (T [w]) as [e|] eqn:Ew; [|congruence]. clear Hw.
    unfold score_except_backoff. rewrite (uni_some w e Ew).
    destruct ctx as [|c0 rest] eqn:Ectx.
    - cbn. rewrite (i_prob Inv w [] e Ew). reflexivity.
    - rewrite <- Ectx.
      match goal with |- context [resume N_order T ?h ?j ?nd ?b ?n ?r0] =>
        pose proof (resume_ret h ctx w 0 b n r0 e) as HR;
        change (w :: firstn 0 ctx) with nd in HR;
        destruct (resume N_order T h j nd b n r0) as [[bos nu] r] eqn:ER
      end.
      assert (Hlen' : (length ctx <= N_order - 1)%nat) by (rewrite Ectx; exact Hlen).
      specialize (HR eq_refl ltac:(lia) Hlen' Ew eq_refl eq_refl).
      cbn [r_prob r_len r_indep] in HR.
      assert (Hind : negb (e_left e) = true -> forall x, T ([w] ++ [x]) = None).
      { intros Hn x. apply negb_true_iff in Hn.
        destruct (T ([w] ++ [x])) eqn:Ex; [|reflexivity]. exfalso.
        assert (e_left e = true) by (apply (i_left Inv _ e Ew); [simpl; lia|exists x; rewrite Ex; discriminate]). congruence. }
      specialize (HR Hind). destruct HR as [J [e' [HJ [HT [HP [HL HM]]]]]].
      cbn [snd] in HP, HL.
      (* what the recursion says, given that everything above J is absent *)
      assert (Hspec : spec M ctx w (length ctx) = e_prob e' + sumbo ctx (length ctx - J) J).
      { rewrite (spec_miss_above ctx w (length ctx) J) by (try lia; intros i Hi; apply (i_sub Inv); apply HM; lia).
        rewrite <- (stored_prob ctx w J e') by (try lia; assumption). reflexivity. }
      rewrite Hspec. rewrite HL.
      destruct (Nat.ltb_spec (length ctx) (S J)) as [Hlt|Hge].
      + (* the whole context matched: nothing to charge *)
        cbn [fst]. rewrite HP. replace (length ctx - J)%nat with 0%nat by lia. cbn [sumbo]. lia.
      + destruct (Nat.leb_spec (S J) 1) as [H1|H1].
        * assert (J = 0%nat) by lia. subst J.
          rewrite Ectx. cbn [fst r_prob]. rewrite <- Ectx.
          rewrite HP. rewrite uni_bo.
          pose proof (charge_correct rest ctx 1) as HC. rewrite Ectx in HC. cbn [skipn firstn] in HC.
          rewrite HC by (cbn [length]; try reflexivity; lia).
          rewrite <- Ectx. replace (length ctx - 0)%nat with (S (length ctx - 1)) by (rewrite Ectx; cbn [length]; lia).
          cbn [sumbo]. rewrite Ectx. cbn [firstn length]. lia.
        * replace (S J - 1)%nat with J by lia.
          rewrite (fast_make_node_ok ctx w J) by (try lia; rewrite HT; discriminate).
          cbn [fst r_prob]. rewrite HP.
          rewrite (charge_correct (skipn J ctx) ctx J eq_refl) by lia. reflexivity.
  Qed.

  (* ---- states -------------------------------------------------------------------------------- *)
  (* ResumeScore builds the same back-off list / length as GetState's loop *)
  Lemma resume_state : forall hist j node bos nu r, length node = S j -> (j <= N_order - 2)%nat ->
    (r_indep r = true -> forall x, T (node ++ [x]) = None) ->
    fst (resume N_order T hist j node bos nu r) = get_state_loop T (firstn (N_order - 2 - j) hist) node bos nu (S j).
  Proof.
    induction hist as [|h hist IH]; intros j node bos nu r Hn Hj Hind.
    - rewrite firstn_nil. reflexivity.
    - cbn [resume]. destruct (r_indep r) eqn:Ei.
      + cbn [fst]. destruct (N_order - 2 - j)%nat; [reflexivity|]. cbn [firstn get_state_loop].
        rewrite (Hind eq_refl h). reflexivity.
      + destruct (Nat.eqb_spec j (N_order - 2)) as [Ej|Ej].
        * replace (N_order - 2 - j)%nat with 0%nat by lia. cbn [firstn get_state_loop].
          destruct (T (node ++ [h])); reflexivity.
        * replace (N_order - 2 - j)%nat with (S (N_order - 2 - S j)) by lia. cbn [firstn get_state_loop].
          destruct (T (node ++ [h])) as [e1|] eqn:E1; [|reflexivity].
          replace (j + 2)%nat with (S (S j)) by lia.
          apply IH; [rewrite app_length; simpl; lia|lia|].
          cbn [r_indep]. intros Hneg x. apply negb_true_iff in Hneg.
          destruct (T ((node ++ [h]) ++ [x])) eqn:Ex; [|reflexivity]. exfalso.
          assert (e_left e1 = true).
          { apply (i_left Inv _ e1 E1); [rewrite app_length; simpl; lia|exists x; rewrite Ex; discriminate]. }
          congruence.
  Qed.

  Lemma get_state_loop_len : forall rest node bos len i,
    (snd (get_state_loop T rest node bos len i) <= Nat.max len (i + length rest))%nat.
  Proof.
    induction rest as [|x rest IH]; intros node bos len i; cbn [get_state_loop snd length]; [lia|].
    destruct (T (node ++ [x])) as [e|]; cbn [snd]; [|lia].
    specialize (IH (node ++ [x]) (bos ++ [(e_bo e, e_ext e)]) (if e_ext e then S i else len) (S i)).
    destruct (e_ext e); lia.
  Qed.

  Lemma firstn_le_firstn : forall (A : Type) (l : list A) n m, (n <= m)%nat -> firstn n (firstn m l) = firstn n l.
  Proof. intros. rewrite firstn_firstn. f_equal. lia. Qed.

  (* the state that scoring leaves behind is the state of the extended history, whatever context was supplied *)
  Theorem score_state_is_get_state : forall ctx w e, T [w] = Some e ->
    snd (score_except_backoff N_order T ctx w) = get_state N_order T (w :: ctx).
  Proof.
    intros ctx w e Ew. unfold score_except_backoff, get_state. rewrite (uni_some w e Ew).
    replace (N_order - 1)%nat with (S (N_order - 2)) by lia. cbn [firstn]. rewrite (uni_some w e Ew).
    destruct ctx as [|c0 rest].
    - rewrite firstn_nil. cbn [get_state_loop snd]. reflexivity.
    - match goal with |- context [resume N_order T ?h ?j ?nd ?b ?n ?r0] =>
        pose proof (resume_state h j nd b n r0 eq_refl ltac:(lia)) as HS;
        destruct (resume N_order T h j nd b n r0) as [[bos nu] r] eqn:ER
      end.
      cbn [r_indep fst] in HS.
      assert (Hind : negb (e_left e) = true -> forall x, T ([w] ++ [x]) = None).
      { intros Hn x. apply negb_true_iff in Hn.
        destruct (T ([w] ++ [x])) eqn:Ex; [|reflexivity]. exfalso.
        assert (e_left e = true) by (apply (i_left Inv _ e Ew); [simpl; lia|exists x; rewrite Ex; discriminate]). congruence. }
      specialize (HS Hind). replace (N_order - 2 - 0)%nat with (N_order - 2)%nat in HS by lia.
      cbn [snd].
      pose proof (get_state_loop_len (firstn (N_order - 2) (c0 :: rest)) [w] [(e_bo e, e_ext e)] (if e_ext e then 1%nat else 0%nat) 1) as HL.
      rewrite <- HS in *. cbn [snd] in HL.
      assert (Hnu : (nu <= S (N_order - 2))%nat).
      { rewrite firstn_length in HL. destruct (e_ext e); lia. }
      f_equal. change (w :: firstn (N_order - 2) (c0 :: rest)) with (firstn (S (N_order - 2)) (w :: c0 :: rest)).
      rewrite firstn_le_firstn by exact Hnu. reflexivity.
  Qed.

  (* ---- C02: the state is sufficient --------------------------------------------------------- *)
  Definition bv (k : key) : boval := match T k with Some e => (e_bo e, e_ext e) | None => (0, false) end.

  Lemma bv_fst : forall k, fst (bv k) = bo_of M k.
  Proof.
    intros k. unfold bv. destruct (T k) as [e|] eqn:E; cbn [fst].
    - apply (i_bo Inv _ e E).
    - rewrite (bo_of_miss _ E). reflexivity.
  Qed.

  (* s is a faithful, possibly shortened, account of history h *)
  Record valid (s : state) (h : list word) : Prop := {
    v_len : (length (s_words s) <= usable N_order h)%nat;
    v_words : s_words s = firstn (length (s_words s)) h;
    v_bo : s_bo s = map (fun i => bv (firstn (S i) h)) (seq 0 (length (s_words s)));
    (* what was dropped cannot matter: no back-off to charge, no longer n-gram to find *)
    v_drop : forall j, (length (s_words s) < j <= usable N_order h)%nat ->
               bo_of M (firstn j h) = 0 /\ forall x, T (x :: firstn j h) = None
  }.

  Lemma skipn_seq' : forall n a len, skipn n (seq a len) = seq (a + n) (len - n).
  Proof.
    induction n as [|n IH]; intros a len.
    - rewrite Nat.add_0_r, Nat.sub_0_r. reflexivity.
    - destruct len as [|len]; [reflexivity|]. cbn [seq skipn]. rewrite IH. f_equal; lia.
  Qed.

  Lemma sum_bo_map_seq : forall h m J, sum_bo (map (fun i => bv (firstn (S i) h)) (seq J m)) = sumbo h m J.
  Proof.
    intros h m. induction m as [|m IH]; intros J; [reflexivity|].
    cbn [seq map sum_bo fold_right sumbo]. rewrite bv_fst. unfold sum_bo in IH. rewrite IH. reflexivity.
  Qed.

  Lemma sumbo_split : forall ctx a b i, sumbo ctx (a + b) i = sumbo ctx a i + sumbo ctx b (i + a).
  Proof.
    intros ctx a. induction a as [|a IH]; intros b i.
    - cbn [Nat.add sumbo]. rewrite Nat.add_0_r. lia.
    - cbn [Nat.add sumbo]. rewrite IH. replace (S i + a)%nat with (i + S a)%nat by lia. lia.
  Qed.

  (* what ScoreExceptBackoff returns, for any context no longer than order-1 *)
  Lemma score_ret : forall ctx w e, T [w] = Some e -> (length ctx <= N_order - 1)%nat ->
    exists J e', (J <= length ctx)%nat /\ T (w :: firstn J ctx) = Some e' /\
      r_prob (fst (score_except_backoff N_order T ctx w)) = e_prob e' /\
      r_len (fst (score_except_backoff N_order T ctx w)) = S J /\
      (forall i, (J < i <= length ctx)%nat -> T (w :: firstn i ctx) = None).
  Proof.
    intros ctx w e Ew Hlen. unfold score_except_backoff. rewrite (uni_some w e Ew).
    destruct ctx as [|c0 rest] eqn:Ectx.
    - exists 0%nat, e. cbn. repeat split; try lia; try assumption; try (intros; lia).
    - rewrite <- Ectx in *.
      match goal with |- context [resume N_order T ?h ?j ?nd ?b ?n ?r0] =>
        pose proof (resume_ret h ctx w 0 b n r0 e) as HR;
        change (w :: firstn 0 ctx) with nd in HR;
        destruct (resume N_order T h j nd b n r0) as [[bos nu] r] eqn:ER
      end.
      specialize (HR eq_refl ltac:(lia) Hlen Ew eq_refl eq_refl).
      cbn [r_prob r_len r_indep] in HR.
      assert (Hind : negb (e_left e) = true -> forall x, T ([w] ++ [x]) = None).
      { intros Hn x. apply negb_true_iff in Hn.
        destruct (T ([w] ++ [x])) eqn:Ex; [|reflexivity]. exfalso.
        assert (e_left e = true) by (apply (i_left Inv _ e Ew); [simpl; lia|exists x; rewrite Ex; discriminate]). congruence. }
      specialize (HR Hind). destruct HR as [J [e' [HJ [HT [HP [HL HM]]]]]].
      cbn [snd] in HP, HL. exists J, e'. rewrite Ectx at 1. cbn [fst].
      repeat split; try assumption; rewrite <- ?Ectx; lia.
  Qed.

  Theorem full_score_prob : forall s h w, valid s h -> T [w] <> None ->
    r_prob (fst (full_score N_order T s w)) = bo_score N_order M h w.
  Proof.
    intros s h w V Hw. destruct (T [w]) as [e|] eqn:Ew; [|congruence]. clear Hw.
    set (n := length (s_words s)).
    pose proof (v_len s h V) as Hn. fold n in Hn. unfold usable in Hn.
    assert (Hlen : (length (s_words s) <= N_order - 1)%nat) by (fold n; lia).
    destruct (score_ret (s_words s) w e Ew Hlen) as [J [e' [HJ [HT [HP [HL HM]]]]]].
    fold n in HJ, HM.
    unfold full_score. destruct (score_except_backoff N_order T (s_words s) w) as [r out]. cbn [fst] in *.
    cbn [r_prob]. rewrite HP, HL. replace (S J - 1)%nat with J by lia.
    (* charged back-offs *)
    rewrite (v_bo s h V). fold n. rewrite skipn_map, skipn_seq'. cbn [Nat.add]. rewrite sum_bo_map_seq.
    (* the matched entry, read off the full history *)
    assert (HF : forall i, (i <= n)%nat -> firstn i (s_words s) = firstn i h).
    { intros i Hi. rewrite (v_words s h V). fold n. apply firstn_le_firstn. exact Hi. }
    rewrite HF in HT by lia.
    unfold bo_score. set (u := usable N_order h) in *. unfold usable in u.
    assert (Hu : (n <= u)%nat) by (unfold u; lia).
    assert (Hul : (u <= length h)%nat) by (unfold u; lia).
    assert (Hmiss : forall i, (J < i <= u)%nat -> M (w :: firstn i h) = None).
    { intros i Hi. apply (i_sub Inv). destruct (Nat.le_gt_cases i n) as [Hin|Hin].
      - rewrite <- HF by lia. apply HM. lia.
      - apply (proj2 (v_drop s h V i ltac:(fold n; fold u; unfold usable; lia))). }
    rewrite (spec_miss_above h w u J) by (try lia; exact Hmiss).
    rewrite <- (stored_prob h w J e') by (try lia; assumption).
    replace (u - J)%nat with ((n - J) + (u - n))%nat by lia. rewrite sumbo_split.
    replace (J + (n - J))%nat with n by lia.
    assert (Hz : forall m i, (n <= i)%nat -> (i + m <= u)%nat -> sumbo h m i = 0).
    { induction m as [|m IHm]; intros i Hi Him; [reflexivity|]. cbn [sumbo].
      rewrite (proj1 (v_drop s h V (S i) ltac:(fold n; fold u; unfold usable; lia))). rewrite IHm by lia. reflexivity. }
    rewrite (Hz (u - n)%nat n) by lia. lia.
  Qed.

  (* ---- GetState produces a valid state; scoring from a valid state produces the state of the longer history --- *)
  Lemma bv_dropable : forall k, k <> [] -> snd (bv k) = false -> bo_of M k = 0 /\ forall x, T (x :: k) = None.
  Proof.
    intros k Hk Hs. unfold bv in Hs. destruct (T k) as [e|] eqn:E.
    - cbn [snd] in Hs. destruct (i_ext Inv k e E Hs) as [Hb Hx]. split; [|exact Hx].
      rewrite <- (i_bo Inv k e E). exact Hb.
    - split; [apply bo_of_miss; exact E|]. intros x. destruct (T (x :: k)) eqn:Ex; [|reflexivity]. exfalso.
      apply (i_ctx Inv x k Hk); [rewrite Ex; discriminate|exact E].
  Qed.

  (* loop invariant of GetState, over the (already truncated) context c *)
  Lemma gsl_inv : forall rest c i bos len,
    rest = skipn i c -> (1 <= i <= length c)%nat -> (len <= i)%nat ->
    bos = map (fun t => bv (firstn (S t) c)) (seq 0 i) ->
    (forall j, (len < j <= i)%nat -> snd (bv (firstn j c)) = false) ->
    exists L, (i <= L <= length c)%nat /\
      (snd (get_state_loop T rest (firstn i c) bos len i) <= L)%nat /\
      fst (get_state_loop T rest (firstn i c) bos len i) = map (fun t => bv (firstn (S t) c)) (seq 0 L) /\
      (forall j, (snd (get_state_loop T rest (firstn i c) bos len i) < j <= L)%nat -> snd (bv (firstn j c)) = false) /\
      ((L < length c)%nat -> T (firstn (S L) c) = None).
  Proof.
    induction rest as [|x rest IH]; intros c i bos len Hr Hi Hlen Hbos Hdrop.
    - assert (i = length c).
      { destruct (Nat.eq_dec i (length c)); [assumption|]. rewrite (skipn_cons_nth _ c i 0%N) in Hr by lia. discriminate. }
      exists i. cbn [get_state_loop fst snd]. repeat split; try lia; try assumption; try (intros; lia).
    - assert (Hil : (i < length c)%nat).
      { destruct (Nat.eq_dec i (length c)) as [->|]; [rewrite skipn_all in Hr; discriminate|lia]. }
      rewrite (skipn_cons_nth _ c i 0%N Hil) in Hr. injection Hr as Hx Hrest. subst x.
      cbn [get_state_loop]. rewrite <- (firstn_S_snoc _ c i 0%N Hil).
      destruct (T (firstn (S i) c)) as [e|] eqn:E.
      + destruct (IH c (S i) (bos ++ [(e_bo e, e_ext e)]) (if e_ext e then S i else len)) as [L HL]; try assumption; try lia.
        * destruct (e_ext e); lia.
        * rewrite seq_S, map_app. cbn [map Nat.add]. rewrite <- Hbos. unfold bv. rewrite E. reflexivity.
        * intros j Hj. destruct (e_ext e) eqn:Ex; [lia|].
          destruct (Nat.eq_dec j (S i)) as [->|Hne]; [unfold bv; rewrite E; exact Ex|apply Hdrop; lia].
        * exists L. destruct HL as [H1 [H2 [H3 [H4 H5]]]]. repeat split; try lia; assumption.
      + exists i. cbn [fst snd]. repeat split; try lia; try assumption. intros _. exact E.
  Qed.

  Lemma firstn_map_seq : forall (A : Type) (f : nat -> A) n m, (n <= m)%nat -> firstn n (map f (seq 0 m)) = map f (seq 0 n).
  Proof.
    intros A f n m Hnm. rewrite firstn_map. f_equal.
    revert n Hnm. generalize 0%nat. induction m as [|m IH]; intros a n Hnm.
    - assert (n = 0)%nat by lia. subst. reflexivity.
    - destruct n as [|n]; [reflexivity|]. cbn [seq firstn]. rewrite IH by lia. reflexivity.
  Qed.

  Theorem get_state_valid : forall h, valid (get_state N_order T h) h.
  Proof.
    intros h. unfold get_state. set (c := firstn (N_order - 1) h).
    assert (Hc : length c = usable N_order h) by (unfold c, usable; rewrite firstn_length; lia).
    assert (Hcf : forall j, (j <= length c)%nat -> firstn j c = firstn j h).
    { intros j Hj. unfold c. apply firstn_le_firstn. rewrite Hc in Hj. unfold usable in Hj. lia. }
    destruct c as [|c0 rest] eqn:Ec.
    - constructor; cbn [null_state s_words s_bo length]; try reflexivity; try lia. intros j Hj. simpl in Hc. lia.
    - rewrite <- Ec in *.
      pose proof (gsl_inv rest c 1 [(e_bo (uni T c0), e_ext (uni T c0))] (if e_ext (uni T c0) then 1%nat else 0%nat)) as HG.
      assert (Hbv0 : bv (firstn 1 c) = (e_bo (uni T c0), e_ext (uni T c0))).
      { rewrite Ec. cbn [firstn]. unfold bv, uni. destruct (T [c0]); reflexivity. }
      assert (Hlc : (1 <= length c)%nat) by (rewrite Ec; cbn [length]; lia).
      destruct HG as [L [HL1 [HL2 [HL3 [HL4 HL5]]]]].
      { rewrite Ec. reflexivity. }
      { lia. }
      { destruct (e_ext (uni T c0)); lia. }
      { cbn [seq map]. rewrite Hbv0. reflexivity. }
      { intros j Hj. destruct (e_ext (uni T c0)) eqn:Ex; [lia|]. assert (j = 1%nat) by lia. subst j. rewrite Hbv0. reflexivity. }
      assert (Hf1 : firstn 1 c = [c0]) by (rewrite Ec; reflexivity). rewrite Hf1 in *.
      destruct (get_state_loop T rest [c0] [(e_bo (uni T c0), e_ext (uni T c0))] (if e_ext (uni T c0) then 1%nat else 0%nat) 1) as [bos len] eqn:EG.
      cbn [fst snd] in *.
      assert (Hlen : length (firstn len c) = len) by (rewrite firstn_length; lia).
      constructor; cbn [s_words s_bo]; rewrite ?Hlen.
      + rewrite <- Hc. lia.
      + rewrite Hcf by lia. reflexivity.
      + rewrite HL3. rewrite firstn_map_seq by lia. apply map_ext_in. intros t Ht. apply in_seq in Ht.
        rewrite Hcf by lia. reflexivity.
      + intros j Hj. rewrite <- Hc in Hj. rewrite <- Hcf by lia.
        assert (Hne : firstn j c <> []) by (rewrite Ec; destruct j; [lia|discriminate]).
        destruct (Nat.le_gt_cases j L) as [HjL|HjL].
        * apply bv_dropable; [exact Hne|]. apply HL4. lia.
        * assert (Hn : T (firstn j c) = None).
          { apply (ctx_miss_mono c (S L) j); [lia|lia|lia|apply HL5; lia]. }
          split; [apply bo_of_miss; exact Hn|]. intros x.
          destruct (T (x :: firstn j c)) eqn:Ex; [|reflexivity]. exfalso.
          apply (i_ctx Inv x _ Hne); [rewrite Ex; discriminate|exact Hn].
  Qed.

  Lemma gsl_app_miss : forall l node bos len i x l', T ((node ++ l) ++ [x]) = None ->
    get_state_loop T (l ++ x :: l') node bos len i = get_state_loop T l node bos len i.
  Proof.
    induction l as [|y l IH]; intros node bos len i x l' Hm.
    - rewrite app_nil_r in Hm. cbn [app get_state_loop]. rewrite Hm. reflexivity.
    - cbn [app get_state_loop]. destruct (T (node ++ [y])) as [e|]; [|reflexivity].
      apply IH. rewrite <- !app_assoc in *. exact Hm.
  Qed.

  Lemma firstn_add : forall (A : Type) n m (l : list A), firstn (n + m) l = firstn n l ++ firstn m (skipn n l).
  Proof.
    induction n as [|n IH]; intros m l; [reflexivity|].
    destruct l as [|a l]; [cbn; rewrite firstn_nil; reflexivity|]. cbn [Nat.add firstn skipn app]. rewrite IH. reflexivity.
  Qed.

  (* the words a valid state dropped do not change the state of any extension *)
  Lemma get_state_valid_ext : forall s h w, valid s h -> get_state N_order T (w :: s_words s) = get_state N_order T (w :: h).
  Proof.
    intros s h w V. set (n := length (s_words s)).
    pose proof (v_len s h V) as Hn. fold n in Hn. unfold usable in Hn.
    rewrite (v_words s h V). fold n.
    unfold get_state. replace (N_order - 1)%nat with (S (N_order - 2)) by lia. cbn [firstn].
    destruct (Nat.le_gt_cases (N_order - 2) n) as [Hge|Hlt].
    - rewrite firstn_le_firstn by lia. reflexivity.
    - rewrite firstn_firstn. replace (Nat.min (N_order - 2) n) with n by lia.
      destruct (Nat.le_gt_cases (length h) n) as [Hh|Hh].
      + rewrite !firstn_all2 by lia. reflexivity.
      + set (x := nth n h 0%N). set (l' := firstn (N_order - 2 - n - 1) (skipn (S n) h)).
        assert (HR2 : firstn (N_order - 2) h = firstn n h ++ x :: l').
        { replace (N_order - 2)%nat with (n + S (N_order - 2 - n - 1))%nat at 1 by lia. rewrite firstn_add.
          rewrite (skipn_cons_nth _ h n 0%N Hh). reflexivity. }
        rewrite HR2.
        assert (Hm : T (([w] ++ firstn n h) ++ [x]) = None).
        { cbn [app]. unfold x. rewrite <- (firstn_S_snoc _ h n 0%N Hh).
          apply (proj2 (v_drop s h V (S n) ltac:(fold n; unfold usable; lia))). }
        rewrite (gsl_app_miss (firstn n h) [w] _ _ 1 x l' Hm).
        destruct (get_state_loop T (firstn n h) [w] [(e_bo (uni T w), e_ext (uni T w))] (if e_ext (uni T w) then 1%nat else 0%nat) 1) as [bos len] eqn:EG.
        pose proof (get_state_loop_len (firstn n h) [w] [(e_bo (uni T w), e_ext (uni T w))] (if e_ext (uni T w) then 1%nat else 0%nat) 1) as HL.
        rewrite EG in HL. cbn [snd] in HL. rewrite firstn_length in HL.
        assert (Hlen : (len <= S n)%nat) by (destruct (e_ext (uni T w)); lia).
        f_equal.
        change (w :: firstn n h ++ x :: l') with ((w :: firstn n h) ++ x :: l').
        rewrite firstn_app. rewrite (proj2 (Nat.sub_0_le len (length (w :: firstn n h)))) by (cbn [length]; rewrite firstn_length; lia).
        cbn [firstn]. rewrite app_nil_r. reflexivity.
  Qed.

  (* ---- C02, step: from a valid state, FullScore returns the right probability and leaves the state of the
          longer history, which is valid again.  (Induction over the sentence is then immediate.) ------------ *)
  Theorem full_score_step : forall s h w, valid s h -> T [w] <> None ->
    r_prob (fst (full_score N_order T s w)) = bo_score N_order M h w /\
    snd (full_score N_order T s w) = get_state N_order T (w :: h) /\
    valid (snd (full_score N_order T s w)) (w :: h).
  Proof.
    intros s h w V Hw. split; [apply full_score_prob; assumption|].
    assert (Hout : snd (full_score N_order T s w) = get_state N_order T (w :: h)).
    { destruct (T [w]) as [e|] eqn:Ew; [|congruence].
      rewrite <- (get_state_valid_ext s h w V). rewrite <- (score_state_is_get_state (s_words s) w e Ew).
      unfold full_score. destruct (score_except_backoff N_order T (s_words s) w). reflexivity. }
    split; [exact Hout|]. rewrite Hout. apply get_state_valid.
  Qed.

  Lemma valid_null : valid null_state [].
  Proof. constructor; cbn; try reflexivity; try lia; try (intros j Hj; unfold usable in Hj; simpl in Hj; lia). Qed.

  (* BeginSentenceState: length 1 whatever the extension bit of <s> says *)
  Definition bos_state (b : word) : state := {| s_words := [b]; s_bo := [bv [b]] |}.
  Lemma valid_bos : forall b, valid (bos_state b) [b].
  Proof.
    intros b. constructor; cbn [bos_state s_words s_bo length].
    - unfold usable. cbn [length]. lia.
    - reflexivity.
    - reflexivity.
    - intros j Hj. unfold usable in Hj. cbn [length] in Hj. lia.
  Qed.

  (* whole sentences, left to right *)
  Fixpoint score_seq (s : state) (ws : list word) : list Z * state :=
    match ws with
    | [] => ([], s)
    | w :: r => let '(ret, out) := full_score N_order T s w in
                let '(ps, final) := score_seq out r in (r_prob ret :: ps, final)
    end.
  Fixpoint spec_seq (h : list word) (ws : list word) : list Z :=
    match ws with [] => [] | w :: r => bo_score N_order M h w :: spec_seq (w :: h) r end.

  Theorem score_seq_spec : forall ws s h, valid s h -> (forall w, In w ws -> T [w] <> None) ->
    fst (score_seq s ws) = spec_seq h ws /\ snd (score_seq s ws) = (if ws then s else get_state N_order T (rev ws ++ h)).
  Proof.
    induction ws as [|w ws IH]; intros s h V Hin; [split; reflexivity|].
    cbn [score_seq spec_seq].
    destruct (full_score_step s h w V (Hin w (or_introl eq_refl))) as [Hp [Ho Hv]].
    destruct (full_score N_order T s w) as [ret out]. cbn [fst snd] in *.
    destruct (IH out (w :: h) Hv (fun x Hx => Hin x (or_intror Hx))) as [H1 H2].
    destruct (score_seq out ws) as [ps final]. cbn [fst snd] in *. split.
    - rewrite Hp, H1. reflexivity.
    - rewrite H2. destruct ws as [|w2 ws2]; [exact Ho|].
      cbn [rev]. rewrite <- !app_assoc. reflexivity.
  Qed.

  (* state size: never more than order-1 words, never more than the incoming state plus one *)
  Theorem state_bounds : forall s w,
    (length (s_words (snd (full_score N_order T s w))) <= N_order - 1)%nat /\
    (length (s_words (snd (full_score N_order T s w))) <= S (length (s_words s)))%nat.
  Proof.
    intros s w. unfold full_score. destruct (score_except_backoff N_order T (s_words s) w) as [r out] eqn:ES. cbn [snd].
    unfold score_except_backoff in ES. destruct (s_words s) as [|c0 rest] eqn:Ew.
    - injection ES as _ Ho. subst out. cbn [s_words]. rewrite firstn_length. cbn [length].
      destruct (e_ext (uni T w)); lia.
    - match type of ES with context [resume N_order T ?h ?j ?nd ?b ?n ?r0] =>
        pose proof (resume_state h j nd b n r0 eq_refl ltac:(lia)) as HS;
        destruct (resume N_order T h j nd b n r0) as [[bos nu] r'] eqn:ER
      end.
      injection ES as _ Ho. subst out. cbn [s_words]. rewrite firstn_length.
      (* nu is bounded by the number of words looked at *)
      assert (Hnu : (nu <= Nat.min (N_order - 1) (S (length (c0 :: rest))))%nat).
      { clear HS. revert ER. generalize (c0 :: rest). intros hist.
        assert (G : forall hist j node bos nu r, (nu <= S j)%nat -> (j <= N_order - 2)%nat ->
                 (snd (fst (resume N_order T hist j node bos nu r)) <= Nat.max nu (Nat.min (N_order - 1) (S j + length hist)))%nat).
        { clear. induction hist as [|x hist IH]; intros j node bos nu r Hnu Hj; cbn [resume length]; [cbn; lia|].
          destruct (r_indep r); [cbn; lia|]. destruct (Nat.eqb_spec j (N_order - 2)); [destruct (T (node ++ [x])); cbn; lia|].
          destruct (T (node ++ [x])) as [e1|]; [|cbn; lia].
          specialize (IH (S j) (node ++ [x]) (bos ++ [(e_bo e1, e_ext e1)]) (if e_ext e1 then (j + 2)%nat else nu)
                        {| r_prob := e_prob e1; r_len := (j + 2)%nat; r_indep := negb (e_left e1); r_ext := node ++ [x]; r_rest := e_rest e1 |}).
          destruct (e_ext e1); (etransitivity; [apply IH; lia|lia]). }
        assert (H0 : (0 <= N_order - 2)%nat) by lia.
        intros ER. specialize (G hist 0%nat [w] [(e_bo (uni T w), e_ext (uni T w))] (if e_ext (uni T w) then 1%nat else 0%nat)
                                 {| r_prob := e_prob (uni T w); r_len := 1; r_indep := negb (e_left (uni T w)); r_ext := [w]; r_rest := e_rest (uni T w) |}).
        rewrite ER in G. cbn [fst snd] in G. destruct (e_ext (uni T w)); specialize (G ltac:(lia) H0); lia. }
      cbn [length] in *. lia.
  Qed.

  (* ---- matched length and the left-independence flag ------------------------------------------ *)
  (* "no stored n-gram extends the match K to the left consistently with the context that was supplied":
     if the supplied context has a next word the only candidate is that word, otherwise any word counts *)
  Definition no_left_extension (ctx : list word) (w : word) (len : nat) : Prop :=
    forall x, ((len - 1 < length ctx)%nat -> x = nth (len - 1) ctx 0%N) -> T ((w :: firstn (len - 1) ctx) ++ [x]) = None.

  Lemma resume_indep : forall hist ctx w j bos nu r e,
    hist = skipn j ctx -> (j <= length ctx)%nat -> (length ctx <= N_order - 1)%nat ->
    T (w :: firstn j ctx) = Some e -> r_len r = S j ->
    (r_indep r = true <-> forall x, T ((w :: firstn j ctx) ++ [x]) = None) ->
    (r_indep (snd (resume N_order T hist j (w :: firstn j ctx) bos nu r)) = true <->
     no_left_extension ctx w (r_len (snd (resume N_order T hist j (w :: firstn j ctx) bos nu r)))).
  Proof.
    unfold no_left_extension.
    induction hist as [|h hist IH]; intros ctx w j bos nu r e Hh Hj Hlen He Hl Hr.
    - assert (j = length ctx).
      { destruct (Nat.eq_dec j (length ctx)); [assumption|]. exfalso.
        rewrite (skipn_cons_nth _ ctx j 0%N) in Hh by lia. discriminate. }
      subst j. cbn [resume snd]. rewrite Hl. replace (S (length ctx) - 1)%nat with (length ctx) by lia.
      rewrite Hr. split; [intros H x _; apply H|intros H x; apply H; lia].
    - assert (Hjl : (j < length ctx)%nat).
      { destruct (Nat.eq_dec j (length ctx)) as [->|]; [rewrite skipn_all in Hh; discriminate|lia]. }
      rewrite (skipn_cons_nth _ ctx j 0%N Hjl) in Hh. injection Hh as Hh1 Hh2. subst h.
      cbn [resume]. destruct (r_indep r) eqn:Ei.
      + cbn [snd]. rewrite Ei, Hl. replace (S j - 1)%nat with j by lia.
        split; [|reflexivity]. intros _ x _. apply (proj1 Hr eq_refl).
      + destruct (Nat.eqb_spec j (N_order - 2)) as [Ej|Ej].
        * rewrite snoc_key by assumption.
          destruct (T (w :: firstn (S j) ctx)) as [e1|] eqn:E1; rewrite ?E1; cbn [snd r_indep r_len].
          -- split; [|reflexivity]. intros _ x _.
             destruct (T ((w :: firstn (N_order - 1) ctx) ++ [x])) eqn:Ex; [|reflexivity]. exfalso.
             assert (HL := i_len Inv ((w :: firstn (N_order - 1) ctx) ++ [x]) ltac:(rewrite Ex; discriminate)).
             rewrite app_length in HL. cbn [length] in HL. rewrite firstn_length in HL. lia.
          -- rewrite Hl. replace (S j - 1)%nat with j by lia. split; [|reflexivity].
             intros _ x Hx. rewrite (Hx Hjl). rewrite snoc_key by assumption. exact E1.
        * rewrite snoc_key by assumption.
          destruct (T (w :: firstn (S j) ctx)) as [e1|] eqn:E1; rewrite ?E1.
          -- apply (IH ctx w (S j) _ _ _ e1); try assumption; try reflexivity; try lia.
             { cbn [r_len]. lia. }
             cbn [r_indep]. rewrite negb_true_iff. split.
             ++ intros Hf x. destruct (T ((w :: firstn (S j) ctx) ++ [x])) eqn:Ex; [|reflexivity]. exfalso.
                assert (e_left e1 = true).
                { apply (i_left Inv _ e1 E1); [cbn [length]; rewrite firstn_length; lia|exists x; rewrite Ex; discriminate]. }
                congruence.
             ++ intros Hn. destruct (e_left e1) eqn:El; [|reflexivity]. exfalso.
                destruct (proj1 (i_left Inv _ e1 E1 ltac:(cbn [length]; rewrite firstn_length; lia)) El) as [x Hx].
                apply Hx. apply Hn.
          -- cbn [snd r_indep r_len]. rewrite Hl. replace (S j - 1)%nat with j by lia. split; [|reflexivity].
             intros _ x Hx. rewrite (Hx Hjl). rewrite snoc_key by assumption. exact E1.
  Qed.

  Theorem indep_left_spec : forall ctx w, T [w] <> None -> (length ctx <= N_order - 1)%nat ->
    (r_indep (fst (score_except_backoff N_order T ctx w)) = true <->
     no_left_extension ctx w (r_len (fst (score_except_backoff N_order T ctx w)))).
  Proof.
    intros ctx w Hw Hlen. destruct (T [w]) as [e|] eqn:Ew; [|congruence]. clear Hw.
    assert (H0 : negb (e_left e) = true <-> forall x, T ([w] ++ [x]) = None).
    { rewrite negb_true_iff. split.
      - intros Hf x. destruct (T ([w] ++ [x])) eqn:Ex; [|reflexivity]. exfalso.
        assert (e_left e = true) by (apply (i_left Inv _ e Ew); [simpl; lia|exists x; rewrite Ex; discriminate]). congruence.
      - intros Hn. destruct (e_left e) eqn:El; [|reflexivity]. exfalso.
        destruct (proj1 (i_left Inv _ e Ew ltac:(simpl; lia)) El) as [x Hx]. apply Hx. apply Hn. }
    unfold score_except_backoff. rewrite (uni_some w e Ew).
    destruct ctx as [|c0 rest] eqn:Ectx.
    - cbn [fst r_indep r_len]. unfold no_left_extension. cbn [Nat.sub length firstn]. rewrite H0.
      split; [intros H x _; apply H|intros H x; apply H; lia].
    - rewrite <- Ectx in *.
      match goal with |- context [resume N_order T ?h ?j ?nd ?b ?n ?r0] =>
        pose proof (resume_indep h ctx w 0 b n r0 e) as HR;
        change (w :: firstn 0 ctx) with nd in HR;
        destruct (resume N_order T h j nd b n r0) as [[bos nu] r] eqn:ER
      end.
      specialize (HR eq_refl ltac:(lia) Hlen Ew eq_refl H0). cbn [snd] in HR.
      rewrite Ectx at 1 2. cbn [fst]. rewrite <- Ectx. exact HR.
  Qed.

  Lemma matched_miss_above : forall ctx w k J p, (J <= k)%nat -> M (w :: firstn J ctx) = Some p ->
    (forall i, (J < i <= k)%nat -> M (w :: firstn i ctx) = None) -> matched M ctx w k = S J.
  Proof.
    intros ctx w k. induction k as [|k IH]; intros J p HJ Hp Hm.
    - assert (J = 0)%nat by lia. subst. cbn [matched]. rewrite Hp. reflexivity.
    - destruct (Nat.eq_dec J (S k)) as [->|Hne].
      + cbn [matched]. rewrite Hp. reflexivity.
      + cbn [matched]. rewrite (Hm (S k)) by lia. apply (IH J p); [lia|exact Hp|intros; apply Hm; lia].
  Qed.

  (* when the file already contains every suffix (no blank had to be invented), the matched length is the
     length of the longest listed n-gram *)
  Theorem full_score_length : forall s h w, (forall k, M k = None -> T k = None) -> valid s h -> T [w] <> None ->
    r_len (fst (full_score N_order T s w)) = bo_length N_order M h w.
  Proof.
    intros s h w Hclosed V Hw. destruct (T [w]) as [e|] eqn:Ew; [|congruence]. clear Hw.
    set (n := length (s_words s)).
    pose proof (v_len s h V) as Hn. fold n in Hn. unfold usable in Hn.
    assert (Hlen : (length (s_words s) <= N_order - 1)%nat) by (fold n; lia).
    destruct (score_ret (s_words s) w e Ew Hlen) as [J [e' [HJ [HT [HP [HL HM]]]]]].
    fold n in HJ, HM.
    unfold full_score. destruct (score_except_backoff N_order T (s_words s) w) as [r out]. cbn [fst r_len] in *.
    rewrite HL.
    assert (HF : forall i, (i <= n)%nat -> firstn i (s_words s) = firstn i h).
    { intros i Hi. rewrite (v_words s h V). fold n. apply firstn_le_firstn. exact Hi. }
    rewrite HF in HT by lia.
    unfold bo_length. set (u := usable N_order h) in *. unfold usable in u.
    assert (HMJ : exists p, M (w :: firstn J h) = Some p).
    { destruct (M (w :: firstn J h)) as [p|] eqn:EM; [exists p; reflexivity|]. rewrite (Hclosed _ EM) in HT. discriminate. }
    destruct HMJ as [p Hp]. symmetry. apply (matched_miss_above h w u J p); [unfold u; lia|exact Hp|].
    intros i Hi. apply (i_sub Inv). destruct (Nat.le_gt_cases i n) as [Hin|Hin].
    - rewrite <- HF by lia. apply HM. lia.
    - apply (proj2 (v_drop s h V i ltac:(fold n; fold u; unfold usable; lia))).
  Qed.

  (* ---- ExtendLeft: extending an already scored n-gram with further left context = scoring with it at once ---- *)
  Lemma firstn_app_ge : forall (c1 c2 : list word) i, firstn (S (length c1 + i)) (c1 ++ c2) = c1 ++ firstn (S i) c2.
  Proof.
    intros c1 c2 i. rewrite firstn_app. rewrite firstn_all2 by lia. f_equal. f_equal. lia.
  Qed.

  Lemma sum_bo_ext : forall c1 c2 m a,
    sum_bo (map (fun i => bv (c1 ++ firstn (S i) c2)) (seq a m)) = sumbo (c1 ++ c2) m (length c1 + a).
  Proof.
    intros c1 c2 m. induction m as [|m IH]; intros a; [reflexivity|].
    cbn [seq map sum_bo fold_right sumbo]. rewrite bv_fst. rewrite firstn_app_ge. unfold sum_bo in IH. rewrite IH.
    replace (S (length c1 + a)) with (length c1 + S a)%nat by lia. reflexivity.
  Qed.

  Theorem extend_left_rescoring : forall c1 c2 w e,
    T (w :: c1) = Some e -> (length (c1 ++ c2) <= N_order - 1)%nat ->
    let bin := map (fun i => bv (c1 ++ firstn (S i) c2)) (seq 0 (length c2)) in
    let '(r, bos, nu) := extend_left N_order T c2 bin (w :: c1) in
    (* .prob is relative to the .rest returned before (= e_rest e): adding it back gives the full back-off score *)
    r_prob r + e_rest e = spec M (c1 ++ c2) w (length (c1 ++ c2)) /\
    (* the matched entry is the longest stored n-gram along the whole context *)
    (exists e', T (w :: firstn (r_len r - 1) (c1 ++ c2)) = Some e' /\
       forall i, (r_len r - 1 < i <= length (c1 ++ c2))%nat -> T (w :: firstn i (c1 ++ c2)) = None) /\
    (length c1 < r_len r)%nat.
  Proof.
    intros c1 c2 w e He Hlen bin. unfold extend_left. cbn [length]. rewrite He.
    set (ctx := c1 ++ c2) in *.
    set (r0 := {| r_prob := e_prob e; r_len := S (length c1);
                  r_indep := (if Nat.eqb (S (length c1)) 1 then negb (e_left e) else false); r_ext := w :: c1; r_rest := e_rest e |}).
    assert (Hf : firstn (length c1) ctx = c1) by (unfold ctx; rewrite firstn_app, firstn_all, Nat.sub_diag, firstn_O, app_nil_r; reflexivity).
    assert (Hs : skipn (length c1) ctx = c2) by (unfold ctx; rewrite skipn_app, skipn_all, Nat.sub_diag; reflexivity).
    replace (S (length c1) - 1)%nat with (length c1) by lia.
    pose proof (resume_ret c2 ctx w (length c1) [] (S (length c1)) r0 e (eq_sym Hs)) as HR.
    rewrite Hf in HR.
    assert (Hlc : (length c1 <= length ctx)%nat) by (unfold ctx; rewrite app_length; lia).
    specialize (HR Hlc Hlen He eq_refl eq_refl).
    assert (Hind : r_indep r0 = true -> forall x, T ((w :: c1) ++ [x]) = None).
    { cbn [r_indep r0]. destruct (Nat.eqb_spec (S (length c1)) 1) as [E1|E1]; [|discriminate].
      intros Hn x. apply negb_true_iff in Hn.
      destruct (T ((w :: c1) ++ [x])) eqn:Ex; [|reflexivity]. exfalso.
      assert (e_left e = true) by (apply (i_left Inv _ e He); [cbn [length]; lia|exists x; rewrite Ex; discriminate]). congruence. }
    specialize (HR Hind). destruct HR as [J [e' [HJ [HT [HP [HL HM]]]]]].
    destruct (resume N_order T c2 (length c1) (w :: c1) [] (S (length c1)) r0) as [[bos nu] r] eqn:ER.
    cbn [snd] in HP, HL. cbn [r_prob r_len]. rewrite HL. replace (S J - 1)%nat with J by lia.
    split; [|split; [exists e'; split; [exact HT|exact HM]|lia]].
    (* charged back-offs *)
    unfold bin. rewrite skipn_map, skipn_seq'. cbn [Nat.add]. rewrite firstn_map.
    rewrite firstn_all2 by (rewrite seq_length; lia).
    rewrite sum_bo_ext. fold ctx.
    assert (Hcl : length ctx = (length c1 + length c2)%nat) by (unfold ctx; apply app_length).
    replace (length c1 + (S J - S (length c1)))%nat with J by lia.
    replace (length c2 - (S J - S (length c1)))%nat with (length ctx - J)%nat by lia.
    rewrite (spec_miss_above ctx w (length ctx) J) by (try lia; intros i Hi; apply (i_sub Inv); apply HM; lia).
    rewrite <- (stored_prob ctx w J e') by (try lia; assumption). rewrite HP. lia.
  Qed.

  Theorem equal_states_equal_backoffs : forall s1 h1 s2 h2,
    valid s1 h1 -> valid s2 h2 -> s_words s1 = s_words s2 ->
    s_bo s1 = s_bo s2 /\ forall w, full_score N_order T s1 w = full_score N_order T s2 w.
  Proof.
    intros s1 h1 s2 h2 V1 V2 Hw.
    assert (Hb : s_bo s1 = s_bo s2).
    { rewrite (v_bo s1 h1 V1), (v_bo s2 h2 V2). rewrite <- Hw.
      apply map_ext_in. intros t Ht. apply in_seq in Ht. f_equal.
      rewrite <- (firstn_le_firstn _ h1 (S t) (length (s_words s1))) by lia.
      rewrite <- (firstn_le_firstn _ h2 (S t) (length (s_words s1))) by lia.
      rewrite <- (v_words s1 h1 V1). rewrite Hw at 2. rewrite <- (v_words s2 h2 V2). rewrite Hw. reflexivity. }
    split; [exact Hb|]. intros w. destruct s1, s2. cbn in *. subst. reflexivity.
  Qed.
End Proofs.
