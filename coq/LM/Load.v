(* LM/Load.v -- executable models of the two loaders (no proofs here).
   load_probing : lm/search_hashed.cc  ReadNGrams + FindLower + AdjustLower + MarkExtends + Activate*
   load_trie    : lm/search_trie.cc    sorted merge (RecursiveInsert) + BlankManager + SRISucks messages
   Input: the n-grams of the ARPA file after vocabulary lookup, per order, in file order. *)
From Coq Require Import List ZArith NArith Bool Arith.
From Kenlm Require Import LM.Defs.
Import ListNotations.
Local Open Scope Z_scope.

(* one line of an ARPA section.  g_pz: the probability text parsed to +0.0 (sign bit clear) -- only matters
   for unigrams in the probing model, which keep the sign bit of the text as their "extends left" bit. *)
Record gram := { g_key : key; g_prob : Z; g_bo : Z; g_pz : bool }.

Inductive load_error := MissingContext | TableFull | MissingUnigram.
Inductive loaded := Loaded (t : atable) | LoadError (e : load_error).

Definition mk_entry (p b : Z) : entry :=
  {| e_prob := p; e_bo := b; e_ext := negb (b =? 0); e_left := false; e_rest := p |}.
Definition blank_entry : entry := {| e_prob := 0; e_bo := 0; e_ext := false; e_left := false; e_rest := 0 |}.

Fixpoint aupdate (t : atable) (k : key) (f : entry -> entry) : atable :=
  match t with
  | [] => []
  | (k', e) :: r => if key_eqb k' k then (k', f e) :: r else (k', e) :: aupdate r k f
  end.
Definition set_left (e : entry) : entry :=
  {| e_prob := e_prob e; e_bo := e_bo e; e_ext := e_ext e; e_left := true; e_rest := e_rest e |}.
Definition set_ext (e : entry) : entry :=
  {| e_prob := e_prob e; e_bo := e_bo e; e_ext := true; e_left := e_left e; e_rest := e_rest e |}.
Definition set_prob (p : Z) (e : entry) : entry :=
  {| e_prob := p; e_bo := e_bo e; e_ext := e_ext e; e_left := e_left e; e_rest := p |}.

Definition count_order (t : atable) (n : nat) : nat := length (filter (fun ke => Nat.eqb (length (fst ke)) n) t).

Section Probing.
  Variable N_order : nat.
  (* bucket count of the hash table of each order (index n-2 for order n >= 2): max(count+1, multiplier*count) *)
  Variable buckets : list nat.
  (* RestProbingModel with REST_MAX (MaxRestBuild): rest = max probability over the stored left extensions *)
  Variable rest_max : bool.
  Definition cap (n : nat) : nat := nth (n - 2) buckets 0%nat.

  Definition rest_of (t : atable) (k : key) : Z := match alookup t k with Some e => e_rest e | None => 0 end.
  (* MaxRestBuild::MarkExtends(weights, to): rest := max(rest, to.rest); says whether it grew *)
  Definition raise_rest (to : Z) (e : entry) : entry :=
    {| e_prob := e_prob e; e_bo := e_bo e; e_ext := e_ext e; e_left := e_left e;
       e_rest := if e_rest e >=? to then e_rest e else to |}.
  (* the MarkExtends chain over `between` (orders n-1 down to basis), each compared with the next longer one *)
  Fixpoint rest_chain (orders : list nat) (K : key) (longer : Z) (t : atable) : atable :=
    match orders with
    | [] => t
    | j :: r => let t' := aupdate t (firstn j K) (raise_rest longer) in
                rest_chain r K (rest_of t' (firstn j K)) t'
    end.
  (* MarkLower: below the basis, always against the basis entry, stop when nothing grows *)
  Fixpoint mark_lower (j : nat) (K : key) (longer : Z) (t : atable) : atable :=
    match j with
    | O => t
    | S j' => if rest_of t (firstn j K) >=? longer then t
              else mark_lower j' K longer (aupdate t (firstn j K) (raise_rest longer))
    end.

  (* FindLower: walk from order n-1 down; returns (table with blanks inserted, basis order) or TableFull *)
  Fixpoint find_lower (j : nat) (K : key) (t : atable) : option (atable * nat) :=
    match j with
    | O => Some (t, 1%nat)            (* unreachable for j >= 1 calls *)
    | S O => Some (t, 1%nat)          (* lower == -1: the unigram *)
    | S j' => match alookup t (firstn j K) with
              | Some _ => Some (t, j)
              | None => if Nat.leb (cap j) (S (count_order t j)) then None
                        else find_lower j' K (t ++ [(firstn j K, blank_entry)])
              end
    end.

  (* AdjustLower's probability pass: blanks of order basis+1 .. n-1 *)
  Fixpoint adjust (steps : nat) (j : nat) (K : key) (prob : Z) (t : atable) : atable :=
    match steps with
    | O => t
    | S steps' =>
        (* blank of order j; its context is the (j-1)-gram tail *)
        let ctx := firstn (j - 1) (tl K) in
        let '(prob', t1) := match alookup t ctx with
                            | Some c => (prob + e_bo c, aupdate t ctx set_ext)
                            | None => (prob, t)
                            end in
        adjust steps' (S j) K prob' (aupdate t1 (firstn j K) (set_prob prob'))
    end.

  Fixpoint mark_left (orders : list nat) (K : key) (t : atable) : atable :=
    match orders with
    | [] => t
    | j :: r => mark_left r K (aupdate t (firstn j K) set_left)
    end.

  Definition add_gram (n : nat) (g : gram) (t : atable) : loaded :=
    let K := g_key g in
    if Nat.leb (cap n) (S (count_order t n)) then LoadError TableFull
    else
      let t0 := t ++ [(K, mk_entry (g_prob g) (g_bo g))] in
      match find_lower (n - 1) K t0 with
      | None => LoadError TableFull
      | Some (t1, basis) =>
          let t2 :=
            if Nat.eqb basis (n - 1) then t1
            else
              let p0 := match alookup t1 (firstn basis K) with Some e => e_prob e | None => 0 end in
              adjust (n - 1 - basis) (S basis) K p0 t1 in
          let t3 := mark_left (seq basis (n - basis)) K t2 in
          let t3 := if rest_max then
                      let t4 := rest_chain (rev (seq basis (n - basis))) K (g_prob g) t3 in
                      mark_lower (basis - 1) K (rest_of t4 (firstn basis K)) t4
                    else t3 in
          (* activate: the context must exist; it learns that it has an extension *)
          match alookup t3 (tl K) with
          | Some _ => Loaded (aupdate t3 (tl K) set_ext)
          | None => LoadError MissingContext
          end
      end.

  Fixpoint add_grams (n : nat) (gs : list gram) (t : atable) : loaded :=
    match gs with
    | [] => Loaded t
    | g :: r => match add_gram n g t with
                | Loaded t' => add_grams n r t'
                | err => err
                end
    end.

  Fixpoint add_sections (n : nat) (secs : list (list gram)) (t : atable) : loaded :=
    match secs with
    | [] => Loaded t
    | gs :: r => match add_grams n gs t with
                 | Loaded t' => add_sections (S n) r t'
                 | err => err
                 end
    end.

  (* unigrams: the sign bit of the text is the initial "extends left" bit; <unk> synthesised when absent:
     prob = unknown_missing_logprob, backoff = +0.0 (which HAS the extension bit) *)
  (* After the repair of finding F12 the sign bit is forced on after Read1Grams (as ReadNGrams always did for
     higher orders), so the text's sign no longer leaks into the flag.  pre_fix_uni_entry is the unrepaired
     behaviour, kept for the refutation witness C01_unigram_poszero_refuted. *)
  Definition pre_fix_uni_entry (g : gram) : entry :=
    {| e_prob := g_prob g; e_bo := g_bo g; e_ext := negb (g_bo g =? 0); e_left := g_pz g; e_rest := g_prob g |}.
  Definition uni_entry (g : gram) : entry :=
    {| e_prob := g_prob g; e_bo := g_bo g; e_ext := negb (g_bo g =? 0); e_left := false; e_rest := g_prob g |}.
  (* <unk> when the file has none.  Since the repair of findings F16/F17 its default probability is in place before the
     higher orders are read (so entries hallucinated on top of it use it) and the final SetUnknownMissing keeps the
     "extends left" marker: only a non-negative default switches the marker on by itself (sign bit clear). *)
  Definition initial_unk (unk_prob : Z) : entry := {| e_prob := unk_prob; e_bo := 0; e_ext := true; e_left := false; e_rest := unk_prob |}.
  Definition final_unk (unk_prob : Z) (e : entry) : entry :=
    {| e_prob := unk_prob; e_bo := 0; e_ext := true; e_left := orb (e_left e) (0 <=? unk_prob); e_rest := e_rest e |}.
  (* ApplyBuild calls SetRest for ids 0 .. counts[0]-1 only.  When the file has no <unk>, <unk> still takes id 0, so the
     last listed unigram (id = counts[0]) never gets its rest cost set: it stays 0.0 from the zero-filled memory and,
     being the maximum, is never raised.  (Rest costs are heuristics that cancel out once the context is revealed, so no
     property depends on this; the model follows the code.) *)
  Definition zero_rest (e : entry) : entry :=
    {| e_prob := e_prob e; e_bo := e_bo e; e_ext := e_ext e; e_left := e_left e; e_rest := 0 |}.
  Definition load_probing (saw_unk : bool) (unk_prob : Z) (unigrams : list gram) (higher : list (list gram)) : loaded :=
    let t0 := map (fun g => (g_key g, uni_entry g)) unigrams in
    let t0 := if saw_unk then t0 else ([0%N], initial_unk unk_prob) :: t0 in
    let t0 := if andb rest_max (negb saw_unk)
              then match rev unigrams with g :: _ => aupdate t0 (g_key g) zero_rest | [] => t0 end
              else t0 in
    match add_sections 2 higher t0 with
    | Loaded t => Loaded (if saw_unk then t else aupdate t [0%N] (final_unk unk_prob))
    | err => err
    end.
End Probing.

(* ---- trie -------------------------------------------------------------------------------------- *)
Section TrieLoad.
  Variable N_order : nat.

  Definition is_real (reals : atable) (k : key) : bool := match alookup reals k with Some _ => true | None => false end.
  Definition mem_key (k : key) (l : list key) : bool := existsb (key_eqb k) l.

  (* order of the longest real prefix of k strictly shorter than j+1, searching down from j (>= 1: unigrams are real) *)
  Fixpoint based_on (reals : atable) (k : key) (j : nat) : nat :=
    match j with
    | O => O
    | S j' => if is_real reals (firstn j k) then j else based_on reals k j'
    end.

  (* BlankManager: the blanks are the proper prefixes (orders 2..n-1) of real n-grams that are not real themselves *)
  Definition blanks_of (reals : atable) (K : key) : list key :=
    filter (fun b => negb (is_real reals b)) (map (fun j => firstn j K) (seq 2 (length K - 2))).
  Fixpoint dedup (l : list key) (acc : list key) : list key :=
    match l with
    | [] => rev acc
    | k :: r => if mem_key k acc then dedup r acc else dedup r (k :: acc)
    end.

  (* SRISucks::Send: the context n-grams whose back-offs a blank of order j based on order b has to collect *)
  Definition targets (b : nat) (B : key) : list key := map (fun i => firstn i (tl B)) (seq b (length B - b)).

  Definition blank_prob (reals : atable) (B : key) : Z :=
    let b := based_on reals B (length B - 1) in
    let basis := match alookup reals (firstn b B) with Some e => e_prob e | None => 0 end in
    fold_left (fun acc c => match alookup reals c with Some e => acc + e_bo e | None => acc end) (targets b B) basis.

  Definition load_trie (saw_unk : bool) (unk_prob : Z) (unigrams : list gram) (higher : list (list gram)) : loaded :=
    let uni_t := map (fun g => (g_key g, mk_entry (g_prob g) (g_bo g))) unigrams in
    let uni_t := if saw_unk then uni_t else ([0%N], {| e_prob := unk_prob; e_bo := 0; e_ext := true; e_left := false; e_rest := unk_prob |}) :: uni_t in
    let reals := uni_t ++ map (fun g => (g_key g, mk_entry (g_prob g) (g_bo g))) (concat higher) in
    let real_keys := map fst reals in
    let blanks := dedup (concat (map (fun K => blanks_of reals K) real_keys)) [] in
    let all_targets := concat (map (fun B => targets (based_on reals B (length B - 1)) B) blanks) in
    let real_contexts := map (fun K => tl K) (filter (fun K => Nat.ltb 1 (length K)) real_keys) in
    (* "A n-gram has context ... so this context must appear in the model": contexts of real n-grams must be real *)
    if negb (forallb (fun c => is_real reals c) real_contexts) then LoadError MissingContext
    else
      let all_keys := real_keys ++ blanks in
      let has_child (k : key) := existsb (fun k' => andb (Nat.eqb (length k') (S (length k))) (key_eqb (firstn (length k) k') k)) all_keys in
      let real_entries := map (fun ke =>
          let k := fst ke in let e := snd ke in
          (k, {| e_prob := e_prob e; e_bo := e_bo e;
                 e_ext := orb (e_ext e) (orb (mem_key k real_contexts) (mem_key k all_targets));
                 e_left := has_child k; e_rest := e_prob e |})) reals in
      let blank_entries := map (fun B =>
          let p := blank_prob reals B in
          (B, {| e_prob := p; e_bo := 0;
                 e_ext := andb (negb (Nat.eqb (length B) (N_order - 1))) (mem_key B all_targets);
                 e_left := has_child B; e_rest := p |})) blanks in
      let t := real_entries ++ blank_entries in
      Loaded (if saw_unk then t
              else aupdate t [0%N] (fun e => {| e_prob := unk_prob; e_bo := 0; e_ext := true; e_left := e_left e; e_rest := unk_prob |})).
End TrieLoad.
