(* LM/FlattenProofs.v -- the flattening identity of RuleScore (lm/left.hh): applying NonTerminal to a finished fragment
   is the same as applying Terminal to each of its words, hence every derivation of a sentence gives the state and the
   total of left-to-right scoring.  Model: LM/Chart.v over LM/Query.v.  Models without separate rest costs. *)
From Coq Require Import List ZArith NArith Bool Arith Lia.
From Kenlm Require Import LM.Defs LM.Query LM.QueryProofs LM.Chart LM.ChartProofs.
Import ListNotations.


(* ---- ResumeScore in normal form: what it appends, whether it moves next_use, what it returns ------------- *)
Section ResumeCore.
  Variable N_order : nat.
  Variable T : table.

  Fixpoint resume_core (hist : list word) (om2 : nat) (node : key) (r : ret) : list boval * option nat * ret :=
    match hist with
    | [] => ([], None, r)
    | h :: hist' =>
        if r_indep r then ([], None, r)
        else if Nat.eqb om2 (N_order - 2)%nat then
          match T (node ++ [h]) with
          | Some e => ([], None, {| r_prob := e_prob e; r_len := N_order; r_indep := true; r_ext := r_ext r; r_rest := e_prob e |})
          | None => ([], None, {| r_prob := r_prob r; r_len := r_len r; r_indep := true; r_ext := r_ext r; r_rest := r_rest r |})
          end
        else
          match T (node ++ [h]) with
          | None => ([], None, {| r_prob := r_prob r; r_len := r_len r; r_indep := true; r_ext := r_ext r; r_rest := r_rest r |})
          | Some e =>
              let r' := {| r_prob := e_prob e; r_len := (om2 + 2)%nat; r_indep := negb (e_left e); r_ext := node ++ [h]; r_rest := e_rest e |} in
              let '(b, o, r2) := resume_core hist' (S om2) (node ++ [h]) r' in
              ((e_bo e, e_ext e) :: b, match o with Some v => Some v | None => if e_ext e then Some (om2 + 2)%nat else None end, r2)
          end
    end.

  Definition pick (o : option nat) (nu : nat) : nat := match o with Some v => v | None => nu end.

  Lemma resume_normal : forall hist om2 node bos nu r,
    resume N_order T hist om2 node bos nu r =
    (let '(b, o, r') := resume_core hist om2 node r in (bos ++ b, pick o nu, r')).
  Proof.
    induction hist as [|h hist IH]; intros om2 node bos nu r; cbn [resume resume_core].
    - rewrite app_nil_r. reflexivity.
    - destruct (r_indep r); [rewrite app_nil_r; reflexivity|].
      destruct (Nat.eqb om2 (N_order - 2)).
      + destruct (T (node ++ [h])); rewrite app_nil_r; reflexivity.
      + destruct (T (node ++ [h])) as [e|]; [|rewrite app_nil_r; reflexivity].
        rewrite IH.
        destruct (resume_core hist (S om2) (node ++ [h])
                    {| r_prob := e_prob e; r_len := (om2 + 2)%nat; r_indep := negb (e_left e); r_ext := node ++ [h]; r_rest := e_rest e |})
          as [[b o] r2].
        rewrite <- app_assoc. cbn [app]. f_equal. f_equal.
        destruct o as [v|]; cbn [pick]; [reflexivity|]. destruct (e_ext e); reflexivity.
  Qed.

  (* the position it moves next_use to lies strictly above the order it started from, within the words seen *)
  Lemma core_pick_range : forall hist om2 node r b o r', resume_core hist om2 node r = (b, o, r') ->
    length b <= length hist /\
    match o with Some v => (om2 + 2 <= v <= om2 + 1 + length b)%nat | None => True end.
  Proof.
    induction hist as [|h hist IH]; intros om2 node r b o r' H; cbn [resume_core] in H.
    - injection H as <- <- <-. cbn. split; [lia|exact I].
    - destruct (r_indep r); [injection H as <- <- <-; cbn; split; [lia|exact I]|].
      destruct (Nat.eqb om2 (N_order - 2)).
      + destruct (T (node ++ [h])); injection H as <- <- <-; cbn; split; try lia; exact I.
      + destruct (T (node ++ [h])) as [e|]; [|injection H as <- <- <-; cbn; split; [lia|exact I]].
        destruct (resume_core hist (S om2) (node ++ [h]) _) as [[b1 o1] r1] eqn:E.
        injection H as <- <- <-. destruct (IH _ _ _ _ _ _ E) as [Hl Ho]. cbn [length]. split; [lia|].
        destruct o1 as [v|]; [lia|]. destruct (e_ext e); [lia|exact I].
  Qed.

  (* walking a first stretch of context and then the rest *)
  Lemma core_app : forall h1 h2 om2 node r,
    let '(b1, o1, r1) := resume_core h1 om2 node r in
    if r_indep r1 then resume_core (h1 ++ h2) om2 node r = (b1, o1, r1)
    else
      length b1 = length h1 /\
      resume_core (h1 ++ h2) om2 node r =
      (let '(b2, o2, r2) := resume_core h2 (om2 + length h1) (node ++ h1) r1 in
       (b1 ++ b2, match o2 with Some v => Some v | None => o1 end, r2)).
  Proof.
    induction h1 as [|h h1 IH]; intros h2 om2 node r; cbn [resume_core app length].
    - destruct (r_indep r) eqn:Ei.
      + destruct h2; cbn [resume_core]; rewrite ?Ei; reflexivity.
      + split; [reflexivity|]. rewrite Nat.add_0_r, app_nil_r.
        destruct (resume_core h2 om2 node r) as [[b2 o2] r2]. destruct o2; reflexivity.
    - destruct (r_indep r) eqn:Ei; [rewrite Ei; reflexivity|].
      destruct (Nat.eqb om2 (N_order - 2)).
      + destruct (T (node ++ [h])); reflexivity.
      + destruct (T (node ++ [h])) as [e|]; [|reflexivity].
        specialize (IH h2 (S om2) (node ++ [h])
                      {| r_prob := e_prob e; r_len := (om2 + 2)%nat; r_indep := negb (e_left e); r_ext := node ++ [h]; r_rest := e_rest e |}).
        destruct (resume_core h1 (S om2) (node ++ [h]) _) as [[b1 o1] r1].
        destruct (r_indep r1).
        * rewrite IH. reflexivity.
        * destruct IH as [Hl IH]. split; [cbn [length]; lia|]. rewrite IH.
          replace (S om2 + length h1)%nat with (om2 + S (length h1))%nat by lia.
          rewrite <- app_assoc. cbn [app].
          destruct (resume_core h2 (om2 + S (length h1)) (node ++ h :: h1) r1) as [[b2 o2] r2].
          cbn [app]. destruct o2; reflexivity.
  Qed.

  (* with enough context the walk always ends independent of further left context *)
  Lemma core_long_indep : forall hist om2 node r, (om2 <= N_order - 2)%nat -> (N_order - 1 <= om2 + length hist)%nat ->
    (2 <= N_order)%nat ->
    r_indep (snd (resume_core hist om2 node r)) = true.
  Proof.
    induction hist as [|h hist IH]; intros om2 node r Ho Hl Hn; cbn [resume_core length] in *; [lia|].
    destruct (r_indep r) eqn:Ei; [cbn; exact Ei|].
    destruct (Nat.eqb_spec om2 (N_order - 2)) as [E|E].
    - destruct (T (node ++ [h])); reflexivity.
    - destruct (T (node ++ [h])) as [e|]; [|reflexivity].
      specialize (IH (S om2) (node ++ [h])
                    {| r_prob := e_prob e; r_len := (om2 + 2)%nat; r_indep := negb (e_left e); r_ext := node ++ [h]; r_rest := e_rest e |}
                    ltac:(lia) ltac:(lia) Hn).
      destruct (resume_core hist (S om2) (node ++ [h]) _) as [[b o] r2]. exact IH.
  Qed.
End ResumeCore.

Section Flatten.
  Variable N_order : nat.
  Hypothesis Hord : 2 <= N_order.
  Variable T : table.
  Variable M : arpa.
  Hypothesis Inv : TInv N_order T M.
  (* Search::kDifferentRest: with separate rest costs (RestProbingModel) InternalUnRest converts rest to probability
     when a left state is completed; without them rest = probability *)
  Variable dr : bool.
  Hypothesis rest_dr : dr = false -> forall k e, T k = Some e -> e_rest e = e_prob e.
  Definition rest_eq : Prop := forall k e, T k = Some e -> e_rest e = e_prob e.
  (* the property's precondition as the tables see it: the extension bit of a back-off (set for a non-zero back-off
     or for a context) is only found on contexts of longer n-grams.  Unigrams are exempt: the <unk> entry the loaders
     synthesise when the file has none carries back-off +0.0, i.e. the bit, without being a context. *)
  Hypothesis ext_ctx : forall k e, T k = Some e -> e_ext e = true -> 2 <= length k -> exists x, T (x :: k) <> None.

  Definition r0_of (w : word) : ret :=
    let e := uni T w in {| r_prob := e_prob e; r_len := 1; r_indep := negb (e_left e); r_ext := [w]; r_rest := e_rest e |}.
  Definition bos0_of (w : word) : list boval := [(e_bo (uni T w), e_ext (uni T w))].
  Definition nu0_of (w : word) : nat := if e_ext (uni T w) then 1 else 0.

  Lemma seb_core : forall ctx w,
    score_except_backoff N_order T ctx w =
    (let '(b, o, r) := resume_core N_order T ctx 0 [w] (r0_of w) in
     (r, {| s_words := firstn (pick o (nu0_of w)) (w :: ctx); s_bo := firstn (pick o (nu0_of w)) (bos0_of w ++ b) |})).
  Proof.
    intros ctx w. unfold score_except_backoff. fold (r0_of w). destruct ctx as [|c0 rest].
    - cbn [resume_core pick]. rewrite app_nil_r. reflexivity.
    - rewrite resume_normal. fold (r0_of w).
      destruct (resume_core N_order T (c0 :: rest) 0 [w] (r0_of w)) as [[b o] r]. reflexivity.
  Qed.

  Definition rx0_of (ptr : key) : ret :=
    let e := match T ptr with Some e => e | None => unk_entry end in
    {| r_prob := e_prob e; r_len := length ptr; r_indep := (if Nat.eqb (length ptr) 1 then negb (e_left e) else false);
       r_ext := ptr; r_rest := e_rest e |}.

  Lemma extend_left_core : forall add bin ptr,
    extend_left N_order T add bin ptr =
    (let el := length ptr in
     let e := match T ptr with Some e => e | None => unk_entry end in
     let '(b, o, r) := resume_core N_order T add (el - 1) ptr (rx0_of ptr) in
     ({| r_prob := (r_prob r + sum_bo (firstn (length add - (r_len r - el)) (skipn (r_len r - el) bin)) - e_rest e)%Z;
         r_len := r_len r; r_indep := r_indep r; r_ext := r_ext r; r_rest := (r_rest r - e_rest e)%Z |},
      b, pick o el - el)).
  Proof.
    intros add bin ptr. unfold extend_left. rewrite resume_normal. fold (rx0_of ptr).
    destruct (resume_core N_order T add (length ptr - 1) ptr (rx0_of ptr)) as [[b o] r]. reflexivity.
  Qed.

  (* walking a whole stretch of context without becoming independent ends on the entry of the whole key *)
  Lemma core_walk_all : forall h1 om2 node r b1 o1 r1,
    resume_core N_order T h1 om2 node r = (b1, o1, r1) -> r_indep r1 = false -> h1 <> [] -> length node = S om2 ->
    om2 <= N_order - 2 ->
    exists e, T (node ++ h1) = Some e /\
      r1 = {| r_prob := e_prob e; r_len := length (node ++ h1); r_indep := false; r_ext := node ++ h1; r_rest := e_rest e |} /\
      e_left e = true /\
      (e_ext e = true -> o1 = Some (length (node ++ h1))) /\
      (om2 + length h1 <= N_order - 2).
  Proof.
    induction h1 as [|h h1 IH]; intros om2 node r b1 o1 r1 H Hi Hne Hn Hom; [congruence|].
    cbn [resume_core] in H. destruct (r_indep r) eqn:Ei; [injection H as <- <- <-; congruence|].
    destruct (Nat.eqb_spec om2 (N_order - 2)) as [Eo|Eo].
    - destruct (T (node ++ [h])); injection H as <- <- <-; discriminate.
    - destruct (T (node ++ [h])) as [e|] eqn:E; [|injection H as <- <- <-; discriminate].
      destruct (resume_core N_order T h1 (S om2) (node ++ [h]) _) as [[b o] r2] eqn:EC.
      injection H as <- <- <-.
      destruct h1 as [|h' h1'].
      + cbn [resume_core] in EC. injection EC as <- <- <-. cbn [r_indep] in Hi. apply negb_false_iff in Hi.
        exists e. split; [exact E|]. split.
        * rewrite app_length, Hn. cbn [length]. replace (om2 + 2) with (S om2 + 1) by lia.
          f_equal. apply negb_false_iff. exact Hi.
        * split; [exact Hi|]. split.
          -- intros Hx. rewrite Hx. rewrite app_length, Hn. cbn [length]. f_equal. lia.
          -- cbn [length]. lia.
      + destruct (IH (S om2) (node ++ [h]) _ _ _ _ EC Hi ltac:(discriminate) ltac:(rewrite app_length, Hn; cbn; lia) ltac:(lia))
          as [e' [H1 [H2 [H3 [H4 H5]]]]].
        rewrite <- app_assoc in H1, H2, H4. cbn [app] in H1, H2, H4.
        exists e'. split; [exact H1|]. split; [exact H2|]. split; [exact H3|]. split.
        * intros Hx. rewrite (H4 Hx). reflexivity.
        * cbn [length] in *. lia.
  Qed.

  (* an entry on which next_use was moved carries the extension bit *)
  Lemma core_pick_ext : forall hist om2 node r b o r' v,
    resume_core N_order T hist om2 node r = (b, o, r') -> o = Some v -> length node = S om2 ->
    exists e, T (node ++ firstn (v - S om2) hist) = Some e /\ e_ext e = true /\ (S om2 < v <= S om2 + length hist).
  Proof.
    induction hist as [|h hist IH]; intros om2 node r b o r' v H Ho Hn; cbn [resume_core] in H.
    - injection H as <- <- <-. discriminate.
    - destruct (r_indep r); [injection H as <- <- <-; discriminate|].
      destruct (Nat.eqb om2 (N_order - 2)).
      + destruct (T (node ++ [h])); injection H as <- <- <-; discriminate.
      + destruct (T (node ++ [h])) as [e|] eqn:E; [|injection H as <- <- <-; discriminate].
        destruct (resume_core N_order T hist (S om2) (node ++ [h]) _) as [[b1 o1] r1] eqn:EC.
        injection H as <- <- <-. destruct o1 as [v1|].
        * injection Ho as <-.
          destruct (IH (S om2) (node ++ [h]) _ _ _ _ v1 EC eq_refl ltac:(rewrite app_length, Hn; cbn; lia)) as [e1 [H1 [H2 H3]]].
          exists e1. replace (v1 - S om2) with (S (v1 - S (S om2))) by lia. cbn [firstn].
          rewrite <- app_assoc in H1. cbn [app] in H1. split; [exact H1|]. split; [exact H2|]. cbn [length]. lia.
        * destruct (e_ext e) eqn:Ex; [|discriminate]. injection Ho as <-.
          exists e. replace (om2 + 2 - S om2) with 1 by lia. cbn [firstn]. split; [exact E|]. split; [exact Ex|]. cbn [length]. lia.
  Qed.

  (* the extension bit is inherited by suffixes (being a context is) *)
  Lemma ext_suffix : forall k l e1 e, k <> [] -> T (k ++ l) = Some e1 -> e_ext e1 = true -> T k = Some e -> e_ext e = true.
  Proof.
    intros k l e1 e Hk H1 Hx He. destruct l as [|y l].
    - rewrite app_nil_r in H1. congruence.
    - destruct (e_ext e) eqn:Ee; [reflexivity|]. exfalso.
      destruct (ext_ctx _ _ H1 Hx) as [x Hxk].
      { rewrite app_length. cbn [length]. destruct k; [congruence|cbn [length]; lia]. }
      destruct (i_ext _ _ _ Inv k e He Ee) as [_ Hno].
      apply (suffix_closed_app N_order T M Inv (y :: l) (x :: k)); [discriminate|exact Hxk|apply Hno].
  Qed.

  Lemma sum_bo_app : forall a b, sum_bo (a ++ b) = (sum_bo a + sum_bo b)%Z.
  Proof. unfold sum_bo. induction a as [|x a IH]; intros b; cbn [app fold_right]; [lia|]. rewrite IH. lia. Qed.

  Lemma core_rlen : forall hist om2 node r b o r', resume_core N_order T hist om2 node r = (b, o, r') ->
    r_len r = S om2 -> om2 <= N_order - 2 -> S om2 <= r_len r' <= S om2 + length hist.
  Proof.
    induction hist as [|h hist IH]; intros om2 node r b o r' H Hl Ho; cbn [resume_core] in H.
    - injection H as <- <- <-. cbn [length]. lia.
    - cbn [length]. destruct (r_indep r); [injection H as <- <- <-; lia|].
      destruct (Nat.eqb_spec om2 (N_order - 2)) as [E|E].
      + destruct (T (node ++ [h])); injection H as <- <- <-; cbn [r_len]; lia.
      + destruct (T (node ++ [h])) as [e|]; [|injection H as <- <- <-; cbn [r_len]; lia].
        destruct (resume_core N_order T hist (S om2) (node ++ [h]) _) as [[b1 o1] r1] eqn:EC.
        injection H as <- <- <-. specialize (IH _ _ _ _ _ _ EC ltac:(cbn [r_len]; lia) ltac:(lia)). lia.
  Qed.

  Lemma uni_known : forall w, T [w] <> None -> T [w] = Some (uni T w).
  Proof. intros w Hw. unfold uni. destruct (T [w]); [reflexivity|congruence]. Qed.

  (* what the fragment-local scoring of a word looks like when it still extends left: it matched all the words *)
  Lemma frag_not_indep : forall c1 w b1 o1 r1, T [w] <> None ->
    resume_core N_order T c1 0 [w] (r0_of w) = (b1, o1, r1) -> r_indep r1 = false ->
    exists e, T (w :: c1) = Some e /\
      r1 = {| r_prob := e_prob e; r_len := S (length c1); r_indep := false; r_ext := w :: c1; r_rest := e_rest e |} /\
      e_left e = true /\ length b1 = length c1 /\ length c1 <= N_order - 2 /\
      pick o1 (nu0_of w) <= S (length c1) /\
      (e_ext e = true -> pick o1 (nu0_of w) = S (length c1)).
  Proof.
    intros c1 w b1 o1 r1 Hw H Hi. destruct c1 as [|c0 rest].
    - cbn [resume_core] in H. injection H as <- <- <-. exists (uni T w).
      unfold r0_of in Hi. cbn [r_indep] in Hi. apply negb_false_iff in Hi.
      split; [apply uni_known; exact Hw|]. split; [unfold r0_of; rewrite Hi; reflexivity|].
      split; [exact Hi|]. split; [reflexivity|]. split; [cbn; lia|]. unfold nu0_of. cbn [pick length].
      split; [destruct (e_ext (uni T w)); lia|]. intros ->. reflexivity.
    - pose proof (core_app N_order T (c0 :: rest) [] 0 [w] (r0_of w)) as HA. rewrite H, Hi in HA. destruct HA as [Hlen _].
      destruct (core_walk_all (c0 :: rest) 0 [w] (r0_of w) b1 o1 r1 H Hi ltac:(discriminate) eq_refl ltac:(lia))
        as [e [H1 [H2 [H3 [H4 H5]]]]].
      cbn [app length] in *. exists e. split; [exact H1|]. split; [exact H2|]. split; [exact H3|]. split; [exact Hlen|].
      split; [lia|]. destruct (core_pick_range N_order T _ _ _ _ _ _ _ H) as [Hb Ho].
      split.
      + destruct o1 as [v|]; cbn [pick]; [lia|]. unfold nu0_of. destruct (e_ext (uni T w)); lia.
      + intros Hx. rewrite (H4 Hx). reflexivity.
  Qed.

  (* ---- a word that no longer extends left inside the fragment is scored the same way with more context on the left:
          only the outer back-offs are charged in addition ------------------------------------------------------- *)
  Lemma sim_indep : forall c1 c2 B1 B2 w rf outf, length B1 = length c1 ->
    full_score N_order T {| s_words := c1; s_bo := B1 |} w = (rf, outf) -> r_indep rf = true ->
    full_score N_order T {| s_words := c1 ++ c2; s_bo := B1 ++ B2 |} w =
    ({| r_prob := (r_prob rf + sum_bo B2)%Z; r_len := r_len rf; r_indep := true; r_ext := r_ext rf; r_rest := r_rest rf |}, outf).
  Proof.
    intros c1 c2 B1 B2 w rf outf HB Hf Hi. unfold full_score in *. cbn [s_words s_bo] in *.
    rewrite seb_core in *.
    pose proof (core_app N_order T c1 c2 0 [w] (r0_of w)) as HA.
    destruct (resume_core N_order T c1 0 [w] (r0_of w)) as [[b1 o1] r1] eqn:E1.
    injection Hf as <- <-. cbn [r_indep] in Hi. rewrite Hi in HA. rewrite HA.
    destruct (core_pick_range N_order T _ _ _ _ _ _ _ E1) as [Hb Ho].
    destruct (core_rlen _ _ _ _ _ _ _ E1 eq_refl ltac:(lia)) as [Hl1 Hl2].
    assert (Hp : pick o1 (nu0_of w) <= S (length c1)).
    { destruct o1 as [v|]; cbn [pick]; [lia|]. unfold nu0_of. destruct (e_ext (uni T w)); lia. }
    f_equal.
    - cbn [r_prob r_len r_ext r_rest]. f_equal; [|exact Hi]. rewrite skipn_app, sum_bo_app.
      replace (r_len r1 - 1 - length B1) with 0 by lia. cbn [skipn]. lia.
    - f_equal.
      change (w :: c1 ++ c2) with ((w :: c1) ++ c2). rewrite firstn_app.
      replace (pick o1 (nu0_of w) - length (w :: c1)) with 0 by (cbn [length]; lia). cbn [firstn]. apply app_nil_r.
  Qed.

  Lemma core_some_om2 : forall hist om2 node r b v r', resume_core N_order T hist om2 node r = (b, Some v, r') ->
    om2 <> N_order - 2.
  Proof.
    intros hist om2 node r b v r' H. destruct hist as [|h hist]; cbn [resume_core] in H; [discriminate|].
    destruct (r_indep r); [discriminate|]. destruct (Nat.eqb_spec om2 (N_order - 2)) as [E|E]; [|exact E].
    destruct (T (node ++ [h])); discriminate.
  Qed.

  (* ---- a word that still extends left inside the fragment: scoring it with the outer context appended to the state
          is ExtendLeft of its pointer with that context, plus what the fragment had already counted -------------- *)
  Lemma sim_ext : forall c1 B1 w rf outf, T [w] <> None ->
    length B1 = length c1 ->
    full_score N_order T {| s_words := c1; s_bo := B1 |} w = (rf, outf) -> r_indep rf = false ->
    exists e, T (w :: c1) = Some e /\ e_left e = true /\ length c1 <= N_order - 2 /\
      r_prob rf = e_prob e /\ r_rest rf = e_rest e /\ r_ext rf = w :: c1 /\ r_len rf = S (length c1) /\
      length (s_words outf) <= S (length c1) /\
      forall c2 B2 rx bx nux, length B2 = length c2 -> extend_left N_order T c2 B2 (w :: c1) = (rx, bx, nux) ->
        full_score N_order T {| s_words := c1 ++ c2; s_bo := B1 ++ B2 |} w =
          ({| r_prob := (r_prob rx + e_rest e)%Z; r_len := r_len rx; r_indep := r_indep rx; r_ext := r_ext rx;
              r_rest := (r_rest rx + e_rest e)%Z |},
           {| s_words := s_words outf ++ firstn nux c2; s_bo := s_bo outf ++ firstn nux bx |}) /\
        nux <= length c2 /\ nux <= length bx /\
        (0 < nux -> s_words outf = w :: c1 /\ S (length c1) <= N_order - 2).
  Proof.
    intros c1 B1 w rf outf Hw HB1 Hf Hi. unfold full_score in Hf. cbn [s_words s_bo] in Hf.
    rewrite seb_core in Hf.
    destruct (resume_core N_order T c1 0 [w] (r0_of w)) as [[b1 o1] r1] eqn:E1.
    injection Hf as <- <-. cbn [r_indep] in Hi.
    destruct (frag_not_indep c1 w b1 o1 r1 Hw E1 Hi) as [e [He [Hr1 [Hleft [Hb1 [Hc1 [Hpick Hext]]]]]]].
    exists e. split; [exact He|]. split; [exact Hleft|]. split; [exact Hc1|].
    cbn [r_prob r_rest r_ext r_len s_words s_bo]. rewrite Hr1. cbn [r_prob r_rest r_ext r_len].
    split. { replace (S (length c1) - 1) with (length c1) by lia. rewrite skipn_all2 by lia. cbn. lia. }
    split; [reflexivity|]. split; [reflexivity|]. split; [reflexivity|].
    split. { rewrite firstn_length. cbn [length]. lia. }
    intros c2 B2 rx bx nux HB2 Hx. rewrite extend_left_core in Hx. cbn [length] in Hx.
    assert (Hr0 : rx0_of (w :: c1) = r1).
    { unfold rx0_of. rewrite He, Hr1. cbn [length]. f_equal.
      destruct (Nat.eqb (S (length c1)) 1); [rewrite Hleft; reflexivity|reflexivity]. }
    rewrite Hr0, He in Hx. replace (S (length c1) - 1) with (length c1) in Hx by lia.
    pose proof (core_app N_order T c1 c2 0 [w] (r0_of w)) as HA. rewrite E1, Hi in HA. destruct HA as [_ HA].
    cbn [Nat.add app] in HA.
    destruct (resume_core N_order T c2 (length c1) (w :: c1) r1) as [[b2 o2] r2] eqn:E2.
    injection Hx as <- <- <-.
    destruct (core_rlen _ _ _ _ _ _ _ E2 ltac:(rewrite Hr1; reflexivity) Hc1) as [Hl1 Hl2].
    destruct (core_pick_range N_order T _ _ _ _ _ _ _ E2) as [Hb2 Ho2].
    unfold full_score. cbn [s_words s_bo]. rewrite seb_core, HA. cbn [r_prob r_len r_indep r_ext r_rest].
    assert (Hbos : length (bos0_of w ++ b1) = S (length c1)) by (rewrite app_length; cbn [bos0_of length]; lia).
    split; [|split; [|split]].
    - f_equal.
      + f_equal.
        * rewrite skipn_app, sum_bo_app. rewrite (skipn_all2 B1) by lia. cbn [sum_bo fold_right].
          replace (r_len r2 - 1 - length B1) with (r_len r2 - S (length c1)) by lia.
          rewrite (firstn_all2 (skipn (r_len r2 - S (length c1)) B2)) by (rewrite skipn_length; lia). lia.
        * lia.
      + destruct o2 as [v|]; cbn [pick].
        * (* next_use moved into the outer context: the entry of the fragment words is itself a context *)
          assert (Hv : S (length c1) < v <= S (length c1) + length c2) by lia.
          destruct (core_pick_ext _ _ _ _ _ _ _ v E2 eq_refl ltac:(reflexivity)) as [e1 [H1 [H2 H3]]].
          assert (Hxe : e_ext e = true) by (apply (ext_suffix (w :: c1) (firstn (v - S (length c1)) c2) e1 e); [discriminate|exact H1|exact H2|exact He]).
          rewrite (Hext Hxe). replace (v - S (length c1) + S (length c1)) with v by lia.
          f_equal.
          -- change (w :: c1 ++ c2) with ((w :: c1) ++ c2). rewrite firstn_app. f_equal.
             rewrite !firstn_all2 by (cbn [length]; lia). reflexivity.
          -- change ((e_bo (uni T w), e_ext (uni T w)) :: b1) with (bos0_of w ++ b1).
             rewrite app_assoc. rewrite firstn_app. rewrite Hbos. f_equal.
             rewrite !firstn_all2 by lia. reflexivity.
        * replace (S (length c1) - S (length c1)) with 0 by lia. cbn [firstn]. rewrite !app_nil_r.
          f_equal.
          -- change (w :: c1 ++ c2) with ((w :: c1) ++ c2). rewrite firstn_app.
             replace (pick o1 (nu0_of w) - length (w :: c1)) with 0 by (cbn [length]; lia). cbn [firstn]. apply app_nil_r.
          -- rewrite app_assoc. rewrite firstn_app.
             replace (pick o1 (nu0_of w) - length (bos0_of w ++ b1)) with 0 by lia. cbn [firstn]. apply app_nil_r.
    - destruct o2 as [v|]; cbn [pick]; lia.
    - destruct o2 as [v|]; cbn [pick]; lia.
    - destruct o2 as [v|]; cbn [pick]; [|lia]. intros _.
      destruct (core_pick_ext _ _ _ _ _ _ _ v E2 eq_refl ltac:(reflexivity)) as [e1 [H1 [H2 H3]]].
      assert (Hxe : e_ext e = true) by (apply (ext_suffix (w :: c1) (firstn (v - S (length c1)) c2) e1 e); [discriminate|exact H1|exact H2|exact He]).
      rewrite (Hext Hxe). split.
      + replace (S (length c1)) with (length (w :: c1)) by reflexivity. apply firstn_all.
      + pose proof (core_some_om2 _ _ _ _ _ _ _ E2). lia.
  Qed.

  (* ---- ExtendLeft: bounds, and only the first |add| incoming back-offs are looked at ------------------------- *)
  Lemma extend_left_bin : forall add bin ptr,
    extend_left N_order T add bin ptr = extend_left N_order T add (firstn (length add) bin) ptr.
  Proof.
    intros add bin ptr. rewrite !extend_left_core. cbn zeta.
    destruct (resume_core N_order T add (length ptr - 1) ptr (rx0_of ptr)) as [[b o] r].
    f_equal. f_equal. f_equal. f_equal. f_equal. f_equal.
    rewrite skipn_firstn_comm. rewrite firstn_firstn. rewrite Nat.min_id. reflexivity.
  Qed.

  Lemma extend_left_bounds : forall add bin ptr rx bx nux, ptr <> [] ->
    extend_left N_order T add bin ptr = (rx, bx, nux) -> nux <= length add /\ nux <= length bx /\ r_ext rx <> [].
  Proof.
    intros add bin ptr rx bx nux Hp H. rewrite extend_left_core in H. cbn zeta in H.
    destruct (resume_core N_order T add (length ptr - 1) ptr (rx0_of ptr)) as [[b o] r] eqn:E.
    injection H as <- <- <-. destruct (core_pick_range N_order T _ _ _ _ _ _ _ E) as [Hb Ho].
    assert (Hl : 1 <= length ptr) by (destruct ptr; [congruence|cbn; lia]).
    split; [|split].
    - destruct o as [v|]; cbn [pick]; lia.
    - destruct o as [v|]; cbn [pick]; lia.
    - cbn [r_ext]. clear Ho Hb.
      assert (G : forall hist om2 node r b o r', resume_core N_order T hist om2 node r = (b, o, r') -> node <> [] -> r_ext r <> [] -> r_ext r' <> []).
      { clear. induction hist as [|h hist IH]; intros om2 node r b o r' H Hn Hr; cbn [resume_core] in H.
        - injection H as <- <- <-. exact Hr.
        - destruct (r_indep r); [injection H as <- <- <-; exact Hr|].
          destruct (Nat.eqb om2 (N_order - 2)).
          + destruct (T (node ++ [h])); injection H as <- <- <-; exact Hr.
          + destruct (T (node ++ [h])) as [e|]; [|injection H as <- <- <-; exact Hr].
            destruct (resume_core N_order T hist (S om2) (node ++ [h]) _) as [[b1 o1] r1] eqn:EC.
            injection H as <- <- <-. apply (IH _ _ _ _ _ _ EC); cbn [r_ext]; destruct node; discriminate. }
      apply (G _ _ _ _ _ _ _ E Hp). unfold rx0_of. cbn [r_ext]. exact Hp.
  Qed.

  (* ---- RuleScore ------------------------------------------------------------------------------------------ *)
  Notation term := (rs_terminal N_order T).
  Notation nt := (rs_nonterminal N_order T dr).
  Notation ntl := (nt_loop N_order T dr).
  Notation unr := (un_rest T dr).
  Notation fin := (rs_finish N_order).

  Lemma unr_nil : unr [] = 0%Z.
  Proof. unfold un_rest. destruct dr; reflexivity. Qed.
  Lemma unr_nil' : un_rest T dr (@nil (list N)) = 0%Z.
  Proof. exact unr_nil. Qed.
  Lemma unr_app : forall a b, unr (a ++ b) = (unr a + unr b)%Z.
  Proof.
    intros a b. unfold un_rest. destruct dr; [|reflexivity].
    induction a as [|p a IH]; cbn [app fold_right]; [lia|]. rewrite IH. destruct (T p); lia.
  Qed.
  Lemma unr_one : forall p e, T p = Some e -> (e_rest e + unr [p] = e_prob e)%Z.
  Proof.
    intros p e He. unfold un_rest. destruct dr eqn:Ed; cbn [fold_right].
    - rewrite He. lia.
    - rewrite (rest_dr eq_refl _ _ He). lia.
  Qed.

  (* Finish() reports the left state complete as soon as it holds N-1 pointers: two rule states that differ only in
     that are the same to every later operation *)
  Definition norm (r : rs) : rs :=
    {| rs_ptrs := rs_ptrs r; rs_right := rs_right r;
       rs_done := orb (rs_done r) (Nat.eqb (length (rs_ptrs r)) (N_order - 1)); rs_prob := rs_prob r |}.

  Definition swf (s : state) : Prop := length (s_bo s) = length (s_words s).
  Record wf (r : rs) : Prop := {
    wf_state : swf (rs_right r);
    wf_ptrs : Forall (fun p => p <> []) (rs_ptrs r);
    wf_open : rs_done r = false -> length (rs_ptrs r) = length (s_words (rs_right r))
  }.
  Record cwf (c : chart) : Prop := {
    cwf_state : swf (c_right c);
    cwf_ptrs : Forall (fun p => p <> []) (l_ptrs (c_left c));
    cwf_open : l_full (c_left c) = false -> length (l_ptrs (c_left c)) = length (s_words (c_right c))
  }.

  Lemma fin_norm : forall r, fin r = fin (norm r).
  Proof.
    intros r. unfold rs_finish, norm. cbn [rs_ptrs rs_right rs_done rs_prob].
    destruct (rs_done r), (Nat.eqb (length (rs_ptrs r)) (N_order - 1)); reflexivity.
  Qed.

  Lemma full_score_out_swf : forall s w, swf (snd (full_score N_order T s w)).
  Proof.
    intros s w. unfold full_score. rewrite seb_core.
    destruct (resume_core N_order T (s_words s) 0 [w] (r0_of w)) as [[b o] r] eqn:E. cbn [snd]. unfold swf. cbn [s_words s_bo].
    destruct (core_pick_range N_order T _ _ _ _ _ _ _ E) as [Hb Ho].
    rewrite !firstn_length, app_length. cbn [length bos0_of].
    assert (pick o (nu0_of w) <= S (length b)).
    { destruct o as [v|]; cbn [pick]; [lia|]. unfold nu0_of. destruct (e_ext (uni T w)); lia. }
    lia.
  Qed.

  Lemma full_score_ext_ne : forall s w, r_ext (fst (full_score N_order T s w)) <> [].
  Proof.
    intros s w. unfold full_score. rewrite seb_core.
    destruct (resume_core N_order T (s_words s) 0 [w] (r0_of w)) as [[b o] r] eqn:E. cbn [fst r_ext].
    assert (G : forall hist om2 node r b o r', resume_core N_order T hist om2 node r = (b, o, r') -> node <> [] -> r_ext r <> [] -> r_ext r' <> []).
    { clear. induction hist as [|h hist IH]; intros om2 node r b o r' H Hn Hr; cbn [resume_core] in H.
      - injection H as <- <- <-. exact Hr.
      - destruct (r_indep r); [injection H as <- <- <-; exact Hr|].
        destruct (Nat.eqb om2 (N_order - 2)).
        + destruct (T (node ++ [h])); injection H as <- <- <-; exact Hr.
        + destruct (T (node ++ [h])) as [e|]; [|injection H as <- <- <-; exact Hr].
          destruct (resume_core N_order T hist (S om2) (node ++ [h]) _) as [[b1 o1] r1] eqn:EC.
          injection H as <- <- <-. apply (IH _ _ _ _ _ _ EC); cbn [r_ext]; destruct node; discriminate. }
    apply (G _ _ _ _ _ _ _ E); [discriminate|]. unfold r0_of. cbn [r_ext]. discriminate.
  Qed.

  Lemma term_wf : forall r w, wf r -> wf (term r w).
  Proof.
    intros r w [W1 W2 W3]. unfold rs_terminal.
    pose proof (full_score_out_swf (rs_right r) w) as Hs. pose proof (full_score_ext_ne (rs_right r) w) as He.
    destruct (full_score N_order T (rs_right r) w) as [ret out]. cbn [fst snd] in *.
    destruct (rs_done r) eqn:Ed; [constructor; cbn; [exact Hs|exact W2|discriminate]|].
    destruct (r_indep ret); [constructor; cbn; [exact Hs|exact W2|discriminate]|].
    constructor; cbn [rs_right rs_ptrs rs_done]; [exact Hs| |].
    - apply Forall_app. split; [exact W2|]. constructor; [exact He|constructor].
    - intros Hd. apply negb_false_iff in Hd. apply Nat.eqb_eq in Hd. rewrite app_length, Hd, (W3 eq_refl). cbn [length]. lia.
  Qed.

  (* ---- the loop of NonTerminal ------------------------------------------------------------------------ *)
  Definition ntl_adj (cr : state) (q : Z) (x : rs + (list key * bool * Z * nat * list boval)) :=
    match x with
    | inl e => inl {| rs_ptrs := rs_ptrs e; rs_right := cr; rs_done := rs_done e; rs_prob := (rs_prob e + q)%Z |}
    | inr (P, d, Q, nu, b) => inr (P, d, (Q + q)%Z, nu, b)
    end.

  Lemma ntl_adj_eq : forall l in_c in_c' orig el el' P d Q q nu back,
    ntl in_c orig l el P d (Q + q)%Z nu back = ntl_adj (c_right in_c) q (ntl in_c' orig l el' P d Q nu back).
  Proof.
    induction l as [|p l IH]; intros in_c in_c' orig el el' P d Q q nu back; cbn [nt_loop ntl_adj]; [reflexivity|].
    destruct (extend_left N_order T (firstn nu (s_words orig)) back p) as [[ret bo] nu'].
    unfold process_ret.
    assert (A : forall x, (Q + q + x = Q + x + q)%Z) by (intros; lia).
    destruct d.
    - rewrite A. destruct (negb (Nat.eqb nu' (length (s_words orig)))); [destruct (Nat.eqb nu' 0)|].
      + cbn [ntl_adj rs_ptrs rs_done rs_prob]. f_equal. f_equal. lia.
      + apply IH.
      + apply IH.
    - destruct (r_indep ret).
      + rewrite A. destruct (negb (Nat.eqb nu' (length (s_words orig)))); [destruct (Nat.eqb nu' 0)|].
        * cbn [ntl_adj rs_ptrs rs_done rs_prob]. f_equal. f_equal. lia.
        * apply IH.
        * apply IH.
      + rewrite A. destruct (negb (Nat.eqb nu' (length (s_words orig)))); [destruct (Nat.eqb nu' 0)|].
        * cbn [ntl_adj rs_ptrs rs_done rs_prob]. f_equal. f_equal. lia.
        * apply IH.
        * apply IH.
  Qed.

  Lemma ntl_app : forall l1 l2 in_c orig el P d Q nu back,
    ntl in_c orig (l1 ++ l2) el P d Q nu back =
    match ntl in_c orig l1 el P d Q nu back with
    | inl e => inl {| rs_ptrs := rs_ptrs e; rs_right := rs_right e; rs_done := rs_done e; rs_prob := (rs_prob e + unr l2)%Z |}
    | inr (P1, d1, Q1, nu1, back1) => ntl in_c orig l2 el P1 d1 Q1 nu1 back1
    end.
  Proof.
    induction l1 as [|p l1 IH]; intros l2 in_c orig el P d Q nu back; cbn [app nt_loop]; [reflexivity|].
    destruct (extend_left N_order T (firstn nu (s_words orig)) back p) as [[ret bo] nu'].
    destruct (process_ret P d Q ret) as [[P1 d1] Q1].
    assert (E : forall a b c d0 e f, ntl in_c orig (l1 ++ l2) (S el) a b c d0 e =
                  match ntl in_c orig l1 (S el) a b c d0 e with
                  | inl x => inl {| rs_ptrs := rs_ptrs x; rs_right := rs_right x; rs_done := rs_done x; rs_prob := (rs_prob x + unr l2)%Z |}
                  | inr (P2, d2, Q2, nu2, back2) => ntl in_c orig l2 f P2 d2 Q2 nu2 back2 end).
    { intros a b c d0 e f. rewrite IH. destruct (ntl in_c orig l1 (S el) a b c d0 e) as [x|[[[[P2 d2] Q2] nu2] back2]]; [reflexivity|].
      replace Q2 with (Q2 + 0)%Z by lia. rewrite (ntl_adj_eq l2 in_c in_c orig (S el) f).
      rewrite (ntl_adj_eq l2 in_c in_c orig f f). reflexivity. }
    destruct (negb (Nat.eqb nu' (length (s_words orig)))); [destruct (Nat.eqb nu' 0)|].
    - cbn [rs_ptrs rs_right rs_done rs_prob]. rewrite unr_app. f_equal. f_equal. lia.
    - apply E.
    - apply E.
  Qed.

  (* what the loop keeps true about next_use, the back-offs it carries and the pointers it has written *)
  Lemma ntl_inv : forall l in_c orig el P d Q nu back P1 d1 Q1 nu1 back1,
    Forall (fun p => p <> []) l -> Forall (fun p => p <> []) P ->
    nu <= length (s_words orig) -> nu <= length back -> (d = false -> nu = length (s_words orig)) ->
    ntl in_c orig l el P d Q nu back = inr (P1, d1, Q1, nu1, back1) ->
    nu1 <= length (s_words orig) /\ nu1 <= length back1 /\ Forall (fun p => p <> []) P1 /\
    (d1 = false -> nu1 = length (s_words orig) /\ d = false /\ length P1 = length P + length l).
  Proof.
    induction l as [|p l IH]; intros in_c orig el P d Q nu back P1 d1 Q1 nu1 back1 Hl HP Hnu Hb Hd H; cbn [nt_loop] in H.
    - injection H as <- <- <- <- <-. split; [exact Hnu|]. split; [exact Hb|]. split; [exact HP|]. intros Hd1.
      split; [apply Hd; exact Hd1|]. split; [exact Hd1|]. cbn [length]. unfold key in *. lia.
    - inversion Hl as [|? ? Hp Hl']. subst.
      destruct (extend_left N_order T (firstn nu (s_words orig)) back p) as [[ret bo] nu'] eqn:EX.
      destruct (extend_left_bounds _ _ _ _ _ _ Hp EX) as [B1 [B2 B3]]. rewrite firstn_length in B1.
      destruct (process_ret P d Q ret) as [[P2 d2] Q2] eqn:EP.
      assert (HP2 : Forall (fun p => p <> []) P2 /\ (d2 = false -> d = false /\ length P2 = S (length P))).
      { unfold process_ret in EP. destruct d; [injection EP as <- <- <-; split; [exact HP|discriminate]|].
        destruct (r_indep ret); injection EP as <- <- <-; [split; [exact HP|discriminate]|].
        split; [apply Forall_app; split; [exact HP|constructor; [exact B3|constructor]]|].
        intros _. split; [reflexivity|]. rewrite app_length. cbn [length]. unfold key in *. lia. }
      destruct HP2 as [HP2 Hd2].
      destruct (Nat.eqb_spec nu' (length (s_words orig))) as [En|En]; cbn [negb] in H.
      + destruct (IH in_c orig (S el) P2 d2 Q2 nu' bo P1 d1 Q1 nu1 back1 Hl' HP2 ltac:(lia) B2 ltac:(intros; exact En) H) as [I1 [I2 [I3 I4]]].
        split; [exact I1|]. split; [exact I2|]. split; [exact I3|]. intros Hd1.
        destruct (I4 Hd1) as [J1 [J2 J3]]. destruct (Hd2 J2) as [K1 K2].
        split; [exact J1|]. split; [exact K1|]. cbn [length]. unfold key in *. lia.
      + destruct (Nat.eqb nu' 0); [discriminate|].
        destruct (IH in_c orig (S el) P2 true Q2 nu' bo P1 d1 Q1 nu1 back1 Hl' HP2 ltac:(lia) B2 ltac:(discriminate) H) as [I1 [I2 [I3 I4]]].
        split; [exact I1|]. split; [exact I2|]. split; [exact I3|]. intros Hd1.
        destruct (I4 Hd1) as [J1 [J2 J3]]. discriminate.
  Qed.

  (* an early exit always leaves the left state complete *)
  Lemma ntl_early : forall l in_c orig el P d Q nu back e, Forall (fun p => p <> []) l -> Forall (fun p => p <> []) P ->
    ntl in_c orig l el P d Q nu back = inl e ->
    rs_done e = true /\ rs_right e = c_right in_c /\ Forall (fun p => p <> []) (rs_ptrs e).
  Proof.
    induction l as [|p l IH]; intros in_c orig el P d Q nu back e Hl HP H; cbn [nt_loop] in H; [discriminate|].
    inversion Hl as [|? ? Hp Hl']. subst.
    destruct (extend_left N_order T (firstn nu (s_words orig)) back p) as [[ret bo] nu'] eqn:EX.
    destruct (extend_left_bounds _ _ _ _ _ _ Hp EX) as [B1 [B2 B3]].
    destruct (process_ret P d Q ret) as [[P2 d2] Q2] eqn:EP.
    assert (HP2 : Forall (fun p => p <> []) P2).
    { unfold process_ret in EP. destruct d; [injection EP as <- <- <-; exact HP|].
      destruct (r_indep ret); injection EP as <- <- <-; [exact HP|].
      apply Forall_app; split; [exact HP|constructor; [exact B3|constructor]]. }
    destruct (negb (Nat.eqb nu' (length (s_words orig)))); [destruct (Nat.eqb nu' 0)|].
    - injection H as <-. cbn. split; [reflexivity|]. split; [reflexivity|exact HP2].
    - apply (IH _ _ _ _ _ _ _ _ _ Hl' HP2 H).
    - apply (IH _ _ _ _ _ _ _ _ _ Hl' HP2 H).
  Qed.

  (* ---- NonTerminal of a fragment whose left state is complete: the fragment's right state is taken over, and the
          result depends on that right state and on the fragment's score only by carrying them along -------------- *)
  Definition mkchart (ptrs : list key) (full : bool) (right : state) : chart :=
    {| c_left := {| l_ptrs := ptrs; l_full := full |}; c_right := right |}.

  Lemma nt_full : forall R ptrs right right' p q, Forall (fun x => x <> []) ptrs -> wf R ->
    let Y := nt R (mkchart ptrs true right) p in
    rs_done Y = true /\ rs_right Y = right /\
    nt R (mkchart ptrs true right') (p + q)%Z =
    {| rs_ptrs := rs_ptrs Y; rs_right := right'; rs_done := true; rs_prob := (rs_prob Y + q)%Z |}.
  Proof.
    intros R ptrs right right' p q Hp WR. unfold rs_nonterminal, mkchart. cbn [c_left c_right l_ptrs l_full].
    destruct ptrs as [|p0 ps].
    - cbn. split; [reflexivity|]. split; [reflexivity|]. f_equal. lia.
    - destruct (s_words (rs_right R)) as [|c0 cs] eqn:Ew.
      + destruct (rs_done R).
        * cbn [rs_done rs_right rs_ptrs rs_prob]. split; [reflexivity|]. split; [reflexivity|]. f_equal. lia.
        * destruct (rs_ptrs R); cbn; (split; [reflexivity|]); (split; [reflexivity|]); f_equal; lia.
      + rewrite <- Ew.
        replace (rs_prob R + (p + q))%Z with ((rs_prob R + p) + q)%Z by lia.
        rewrite (ntl_adj_eq (p0 :: ps) (mkchart (p0 :: ps) true right') (mkchart (p0 :: ps) true right) (rs_right R) 1 1).
        fold (mkchart (p0 :: ps) true right).
        destruct (ntl (mkchart (p0 :: ps) true right) (rs_right R) (p0 :: ps) 1 (rs_ptrs R) (rs_done R) (rs_prob R + p)%Z
                    (length (s_words (rs_right R))) (s_bo (rs_right R))) as [e|[[[[P d] Q] nu] back]] eqn:EL.
        * destruct (ntl_early _ _ _ _ _ _ _ _ _ _ Hp (wf_ptrs R WR) EL) as [E1 [E2 E3]].
          cbn [ntl_adj c_right mkchart]. split; [exact E1|]. split; [exact E2|]. rewrite E1. reflexivity.
        * cbn [ntl_adj rs_done rs_right rs_ptrs rs_prob]. split; [reflexivity|]. split; [reflexivity|]. f_equal. lia.
  Qed.

  (* NonTerminal of a fragment whose left state is still open (it has one pointer per word and as many state words),
     into a rule state with at least one word of context: the loop, then the fragment's state extended by the part
     of the outer context that is still in use *)
  Lemma nt_open_loop : forall R ptrs c1 B1 p, wf R -> s_words (rs_right R) <> [] -> length ptrs = length c1 ->
    length B1 = length c1 ->
    nt R (mkchart ptrs false {| s_words := c1; s_bo := B1 |}) p =
    match ntl (mkchart ptrs false {| s_words := c1; s_bo := B1 |}) (rs_right R) ptrs 1 (rs_ptrs R) (rs_done R) (rs_prob R + p)%Z
              (length (s_words (rs_right R))) (s_bo (rs_right R)) with
    | inl e => e
    | inr (P, d, Q, nu, back) =>
        {| rs_ptrs := P; rs_right := {| s_words := c1 ++ firstn nu (s_words (rs_right R)); s_bo := B1 ++ firstn nu back |};
           rs_done := d; rs_prob := Q |}
    end.
  Proof.
    intros R ptrs c1 B1 p WR Hne Hlen HB. unfold rs_nonterminal, mkchart. cbn [c_left c_right l_ptrs l_full s_words s_bo].
    destruct ptrs as [|p0 ps].
    - destruct c1; [|discriminate]. destruct B1; [|discriminate]. cbn [nt_loop app].
      pose proof (wf_state R WR) as Hs. unfold swf in Hs. rewrite firstn_all. rewrite <- Hs. rewrite firstn_all.
      destruct (rs_right R) as [ws bs]. reflexivity.
    - destruct (s_words (rs_right R)) as [|c0 cs] eqn:Ew; [congruence|]. rewrite <- Ew.
      fold (mkchart (p0 :: ps) false {| s_words := c1; s_bo := B1 |}).
      destruct (ntl _ _ _ _ _ _ _ _ _) as [e|[[[[P d] Q] nu] back]]; [reflexivity|].
      rewrite Hlen. rewrite Nat.ltb_irrefl. reflexivity.
  Qed.

  (* ---- one more word: NonTerminal of (fragment + w) = Terminal w after NonTerminal of the fragment -------------- *)
  Definition known (w : word) : Prop := T [w] <> None.

  Lemma fin_eq : forall X, fin X = (mkchart (rs_ptrs X) (orb (rs_done X) (Nat.eqb (length (rs_ptrs X)) (N_order - 1))) (rs_right X), rs_prob X).
  Proof. reflexivity. Qed.

  (* a complete left state, or N-1 pointers: the next word cannot add a pointer *)
  Lemma term_closed : forall X w rf outf, wf X -> known w ->
    orb (rs_done X) (Nat.eqb (length (rs_ptrs X)) (N_order - 1)) = true ->
    full_score N_order T (rs_right X) w = (rf, outf) ->
    term X w = {| rs_ptrs := rs_ptrs X; rs_right := outf; rs_done := true; rs_prob := (rs_prob X + r_prob rf)%Z |}.
  Proof.
    intros X w rf outf WX Hw Hfull Hf. unfold rs_terminal. rewrite Hf.
    destruct (rs_done X) eqn:Ed; [reflexivity|]. cbn [orb] in Hfull. apply Nat.eqb_eq in Hfull.
    destruct (r_indep rf) eqn:Ei; [reflexivity|]. exfalso.
    pose proof (wf_open X WX Ed) as Ho. pose proof (wf_state X WX) as Hs. unfold swf in Hs.
    destruct (rs_right X) as [c1 B1]. cbn [s_words s_bo] in *.
    destruct (sim_ext c1 B1 w rf outf Hw Hs Hf Ei) as [e [_ [_ [Hc _]]]]. lia.
  Qed.

  Lemma star_full : forall X R w, wf X -> wf R -> known w ->
    orb (rs_done X) (Nat.eqb (length (rs_ptrs X)) (N_order - 1)) = true ->
    nt R (fst (fin (term X w))) (snd (fin (term X w))) = term (nt R (fst (fin X)) (snd (fin X))) w.
  Proof.
    intros X R w WX WR Hw Hfull.
    destruct (full_score N_order T (rs_right X) w) as [rf outf] eqn:Hf.
    rewrite (term_closed X w rf outf WX Hw Hfull Hf). rewrite !fin_eq. cbn [fst snd rs_ptrs rs_right rs_done rs_prob orb].
    rewrite Hfull.
    destruct (nt_full R (rs_ptrs X) (rs_right X) outf (rs_prob X) (r_prob rf) (wf_ptrs X WX) WR) as [Yd [Yr Heq]].
    rewrite Heq. unfold rs_terminal at 1. rewrite Yr, Hf, Yd. reflexivity.
  Qed.

  Lemma nt_ctx_empty : forall R ptrs full right p, s_words (rs_right R) = [] -> ptrs <> [] ->
    nt R (mkchart ptrs full right) p =
    if rs_done R then {| rs_ptrs := rs_ptrs R; rs_right := right; rs_done := true; rs_prob := (rs_prob R + p + unr ptrs)%Z |}
    else match rs_ptrs R with
         | _ :: _ => {| rs_ptrs := rs_ptrs R; rs_right := right; rs_done := true; rs_prob := (rs_prob R + p)%Z |}
         | [] => {| rs_ptrs := ptrs; rs_right := right; rs_done := full; rs_prob := (rs_prob R + p)%Z |}
         end.
  Proof.
    intros R ptrs full right p Hw Hp. unfold rs_nonterminal, mkchart. cbn [c_left c_right l_ptrs l_full].
    destruct ptrs as [|p0 ps]; [congruence|]. rewrite Hw. reflexivity.
  Qed.

  Lemma star_indep : forall X R w rf outf, wf X -> wf R -> known w ->
    orb (rs_done X) (Nat.eqb (length (rs_ptrs X)) (N_order - 1)) = false ->
    full_score N_order T (rs_right X) w = (rf, outf) -> r_indep rf = true ->
    nt R (fst (fin (term X w))) (snd (fin (term X w))) = term (nt R (fst (fin X)) (snd (fin X))) w.
  Proof.
    intros X R w rf outf WX WR Hw Hfull Hf Ei.
    apply orb_false_iff in Hfull. destruct Hfull as [Ed Hn].
    assert (HX' : term X w = {| rs_ptrs := rs_ptrs X; rs_right := outf; rs_done := true; rs_prob := (rs_prob X + r_prob rf)%Z |}).
    { unfold rs_terminal. rewrite Hf, Ed, Ei. reflexivity. }
    rewrite HX'. rewrite !fin_eq. cbn [fst snd rs_ptrs rs_right rs_done rs_prob orb]. rewrite Ed, Hn. cbn [orb].
    pose proof (wf_open X WX Ed) as Ho. pose proof (wf_state X WX) as Hs. unfold swf in Hs.
    destruct (rs_right X) as [c1 B1] eqn:EX. cbn [s_words s_bo] in *.
    destruct (s_words (rs_right R)) as [|c0 cs] eqn:Ew.
    - (* no outer context *)
      destruct (rs_ptrs X) as [|p0 ps] eqn:EP.
      + destruct c1; [|discriminate]. destruct B1; [|discriminate].
        unfold rs_nonterminal, mkchart. cbn [c_left c_right l_ptrs l_full].
        unfold rs_terminal. cbn [rs_right rs_done rs_ptrs rs_prob].
        pose proof (wf_state R WR) as HsR. unfold swf in HsR. destruct (rs_right R) as [c2 B2]. cbn [s_words s_bo] in *. subst c2.
        destruct B2; [|discriminate]. rewrite Hf. destruct (rs_done R); [|rewrite Ei]; f_equal; cbn; lia.
      + rewrite !nt_ctx_empty by (try exact Ew; discriminate).
        unfold rs_terminal. destruct (rs_done R).
        * cbn [rs_right rs_done rs_ptrs rs_prob]. rewrite Hf. f_equal. lia.
        * destruct (rs_ptrs R); cbn [rs_right rs_done rs_ptrs rs_prob]; rewrite Hf; [rewrite Ei|]; f_equal; lia.
    - (* outer context: the loop *)
      assert (Hne : s_words (rs_right R) <> []) by (rewrite Ew; discriminate).
      rewrite (nt_open_loop R (rs_ptrs X) c1 B1 (rs_prob X) WR Hne Ho Hs).
      unfold rs_nonterminal at 1. unfold mkchart at 1. cbn [c_left c_right l_ptrs l_full].
      destruct (rs_ptrs X) as [|p0 ps] eqn:EP.
      + (* the fragment had no word yet *)
        destruct c1; [|discriminate]. destruct B1; [|discriminate]. cbn [nt_loop app].
        pose proof (wf_state R WR) as HsR. unfold swf in HsR.
        rewrite firstn_all. rewrite <- HsR. rewrite firstn_all.
        unfold rs_terminal. cbn [rs_right rs_done rs_ptrs rs_prob].
        destruct (rs_right R) as [c2 B2]. cbn [s_words s_bo] in *.
        pose proof (sim_indep [] c2 [] B2 w rf outf eq_refl Hf Ei) as HS. cbn [app] in HS. rewrite HS. cbn [r_prob r_indep mkchart c_left c_right l_full].
        destruct (rs_done R); f_equal; lia.
      + rewrite Ew. rewrite <- Ew.
        assert (Hps : Forall (fun x : key => x <> []) (p0 :: ps)) by (rewrite <- EP; exact (wf_ptrs X WX)).
        replace (rs_prob R + (rs_prob X + r_prob rf))%Z with ((rs_prob R + rs_prob X) + r_prob rf)%Z by lia.
        rewrite (ntl_adj_eq (p0 :: ps) _ (mkchart (p0 :: ps) false {| s_words := c1; s_bo := B1 |}) (rs_right R) 1 1).
        destruct (ntl (mkchart (p0 :: ps) false {| s_words := c1; s_bo := B1 |}) (rs_right R) (p0 :: ps) 1 (rs_ptrs R) (rs_done R)
                    (rs_prob R + rs_prob X)%Z (length (s_words (rs_right R))) (s_bo (rs_right R))) as [e|[[[[P d] Q] nu] back]] eqn:EL.
        * destruct (ntl_early _ _ _ _ _ _ _ _ _ _ Hps (wf_ptrs R WR) EL) as [E1 [E2 E3]].
          cbn [ntl_adj c_right mkchart]. unfold rs_terminal. rewrite E2. cbn [c_right mkchart]. rewrite Hf, E1. reflexivity.
        * assert (HbR : length (s_words (rs_right R)) <= length (s_bo (rs_right R))) by (rewrite (wf_state R WR); apply le_n).
          destruct (ntl_inv _ _ _ _ _ _ _ _ _ _ _ _ _ _ Hps (wf_ptrs R WR) (le_n _) HbR (fun _ => eq_refl) EL) as [I1 [I2 [I3 I4]]].
          cbn [ntl_adj mkchart c_left c_right l_full]. unfold rs_terminal. cbn [rs_right rs_done rs_ptrs rs_prob].
          rewrite (sim_indep c1 (firstn nu (s_words (rs_right R))) B1 (firstn nu back) w rf outf Hs Hf Ei).
          cbn [r_prob r_indep]. destruct d; f_equal; lia.
  Qed.

  Lemma state_app_nil : forall s, {| s_words := s_words s ++ []; s_bo := s_bo s ++ [] |} = s.
  Proof. intros [a b]. cbn. rewrite !app_nil_r. reflexivity. Qed.

  Lemma norm_eq : forall a b, a = b -> norm a = norm b.
  Proof. intros a b ->. reflexivity. Qed.

  Lemma nt_loop_form : forall R ptrs full right p, ptrs <> [] -> s_words (rs_right R) <> [] ->
    nt R (mkchart ptrs full right) p =
    match ntl (mkchart ptrs full right) (rs_right R) ptrs 1 (rs_ptrs R) (rs_done R) (rs_prob R + p)%Z
              (length (s_words (rs_right R))) (s_bo (rs_right R)) with
    | inl e => e
    | inr (P, d, Q, nu, back) =>
        if full then {| rs_ptrs := P; rs_right := right; rs_done := true; rs_prob := (Q + sum_bo (firstn nu back))%Z |}
        else if Nat.ltb (length (s_words right)) (length ptrs) then {| rs_ptrs := P; rs_right := right; rs_done := d; rs_prob := Q |}
        else {| rs_ptrs := P; rs_right := {| s_words := s_words right ++ firstn nu (s_words (rs_right R)); s_bo := s_bo right ++ firstn nu back |};
                rs_done := d; rs_prob := Q |}
    end.
  Proof.
    intros R ptrs full right p Hp Hw. unfold rs_nonterminal, mkchart. cbn [c_left c_right l_ptrs l_full].
    destruct ptrs as [|p0 ps]; [congruence|]. destruct (s_words (rs_right R)) as [|c0 cs] eqn:Ew; [congruence|]. rewrite <- Ew.
    reflexivity.
  Qed.

  Lemma star_ext : forall X R w rf outf, wf X -> wf R -> known w ->
    orb (rs_done X) (Nat.eqb (length (rs_ptrs X)) (N_order - 1)) = false ->
    full_score N_order T (rs_right X) w = (rf, outf) -> r_indep rf = false ->
    norm (nt R (fst (fin (term X w))) (snd (fin (term X w)))) = norm (term (nt R (fst (fin X)) (snd (fin X))) w).
  Proof.
    intros X R w rf outf WX WR Hw Hfull Hf Ei.
    apply orb_false_iff in Hfull. destruct Hfull as [Ed Hn]. apply Nat.eqb_neq in Hn.
    pose proof (wf_open X WX Ed) as Ho. pose proof (wf_state X WX) as Hs. unfold swf in Hs.
    pose proof (wf_ptrs X WX) as HpX.
    destruct (rs_right X) as [c1 B1] eqn:EX. cbn [s_words s_bo] in *.
    destruct (sim_ext c1 B1 w rf outf Hw Hs Hf Ei) as [e [He [Hleft [Hc1 [Hp [Hr [Hx [Hl [Hol Hsim]]]]]]]]].
    pose proof (unr_one (w :: c1) e He) as Hone.
    set (ptrs := rs_ptrs X) in *.
    assert (HX' : term X w = {| rs_ptrs := ptrs ++ [w :: c1]; rs_right := outf;
                                rs_done := negb (Nat.eqb (length (s_words outf)) (S (length c1)));
                                rs_prob := (rs_prob X + e_rest e)%Z |}).
    { unfold rs_terminal. rewrite EX, Hf, Ed, Ei, Hx, Hr. reflexivity. }
    rewrite HX'. rewrite !fin_eq. cbn [fst snd rs_ptrs rs_right rs_done rs_prob]. fold ptrs. rewrite Ed, EX.
    replace (Nat.eqb (length ptrs) (N_order - 1)) with false by (symmetry; apply Nat.eqb_neq; exact Hn). cbn [orb].
    set (full' := orb (negb (Nat.eqb (length (s_words outf)) (S (length c1)))) (Nat.eqb (length (ptrs ++ [w :: c1])) (N_order - 1))).
    assert (Hne' : ptrs ++ [w :: c1] <> []) by (intros E0; apply app_eq_nil in E0; destruct E0; discriminate).
    assert (Hlen' : length (ptrs ++ [w :: c1]) = S (length c1)) by (rewrite app_length; cbn [length]; lia).
    pose proof (wf_state R WR) as HsR. unfold swf in HsR.
    assert (HbR : length (s_words (rs_right R)) <= length (s_bo (rs_right R))) by (rewrite HsR; apply le_n).
    destruct (s_words (rs_right R)) as [|c0 cs] eqn:Ew.
    - (* no outer context *)
      rewrite (nt_ctx_empty R (ptrs ++ [w :: c1]) full' outf _ Ew Hne').
      assert (HY : nt R (mkchart ptrs false {| s_words := c1; s_bo := B1 |}) (rs_prob X) =
                   if rs_done R then {| rs_ptrs := rs_ptrs R; rs_right := {| s_words := c1; s_bo := B1 |}; rs_done := true; rs_prob := (rs_prob R + rs_prob X + unr ptrs)%Z |}
                   else {| rs_ptrs := ptrs; rs_right := {| s_words := c1; s_bo := B1 |}; rs_done := false; rs_prob := (rs_prob R + rs_prob X)%Z |}).
      { destruct ptrs as [|p0 ps] eqn:EP.
        - destruct c1; [|discriminate]. destruct B1; [|discriminate].
          unfold rs_nonterminal, mkchart. cbn [c_left c_right l_ptrs l_full].
          destruct (rs_right R) as [c2 B2] eqn:ER. cbn [s_words s_bo] in *. subst c2. destruct B2; [|discriminate].
          destruct (rs_done R) eqn:EdR; [rewrite unr_nil; f_equal; lia|].
          pose proof (wf_open R WR EdR) as HoR. rewrite ER in HoR. cbn in HoR. destruct (rs_ptrs R); [reflexivity|discriminate].
        - rewrite (nt_ctx_empty R (p0 :: ps) false _ _ Ew ltac:(discriminate)).
          destruct (rs_done R) eqn:EdR; [reflexivity|].
          pose proof (wf_open R WR EdR) as HoR. rewrite Ew in HoR. destruct (rs_ptrs R); [reflexivity|discriminate]. }
      rewrite HY. unfold rs_terminal. destruct (rs_done R) eqn:EdR.
      + cbn [rs_right rs_done rs_ptrs rs_prob]. rewrite Hf. apply norm_eq. f_equal. rewrite unr_app, Hp. unfold key in *. lia.
      + pose proof (wf_open R WR EdR) as HoR. rewrite Ew in HoR. destruct (rs_ptrs R) as [|? ?]; [|discriminate].
        cbn [rs_right rs_done rs_ptrs rs_prob s_words]. rewrite Hf, Ei, Hx, Hr.
        unfold norm. cbn [rs_ptrs rs_right rs_done rs_prob]. unfold full'. f_equal.
        * rewrite <- orb_assoc, orb_diag. reflexivity.
        * lia.
    - (* outer context: the loop, one more iteration for the new pointer *)
      assert (HneR : s_words (rs_right R) <> []) by (rewrite Ew; discriminate).
      rewrite (nt_open_loop R ptrs c1 B1 (rs_prob X) WR HneR Ho Hs).
      rewrite (nt_loop_form R (ptrs ++ [w :: c1]) full' outf _ Hne' HneR).
      rewrite <- Ew in *.
      rewrite ntl_app.
      replace (rs_prob R + (rs_prob X + e_rest e))%Z with ((rs_prob R + rs_prob X) + e_rest e)%Z by lia.
      rewrite (ntl_adj_eq ptrs _ (mkchart ptrs false {| s_words := c1; s_bo := B1 |}) (rs_right R) 1 1).
      destruct (ntl (mkchart ptrs false {| s_words := c1; s_bo := B1 |}) (rs_right R) ptrs 1 (rs_ptrs R) (rs_done R)
                  (rs_prob R + rs_prob X)%Z (length (s_words (rs_right R))) (s_bo (rs_right R))) as [e0|[[[[P d] Q] nu] back]] eqn:EL.
      + destruct (ntl_early _ _ _ _ _ _ _ _ _ _ HpX (wf_ptrs R WR) EL) as [E1 [E2 E3]].
        cbn [ntl_adj c_right mkchart rs_ptrs rs_right rs_done rs_prob]. unfold rs_terminal. rewrite E2. cbn [c_right mkchart]. rewrite Hf, E1.
        apply norm_eq. f_equal. rewrite Hp. unfold key in *. lia.
      + destruct (ntl_inv _ _ _ _ _ _ _ _ _ _ _ _ _ _ HpX (wf_ptrs R WR) (le_n _) HbR (fun _ => eq_refl) EL) as [I1 [I2 [I3 I4]]].
        cbn [ntl_adj]. cbn [nt_loop].
        set (m := length (s_words (rs_right R))) in *.
        set (c2 := firstn nu (s_words (rs_right R))).
        assert (Hc2 : length c2 = nu) by (unfold c2; rewrite firstn_length; fold m; lia).
        rewrite (extend_left_bin c2 back (w :: c1)). rewrite Hc2.
        set (B2 := firstn nu back).
        assert (HB2 : length B2 = length c2) by (unfold B2; rewrite firstn_length, Hc2; lia).
        destruct (extend_left N_order T c2 B2 (w :: c1)) as [[rx bx] nux] eqn:EXL.
        destruct (Hsim c2 B2 rx bx nux HB2 EXL) as [Hfs [Hn1 [Hn2 Hpos]]]. rewrite Hc2 in Hn1.
        unfold rs_terminal. cbn [rs_right rs_done rs_ptrs rs_prob]. fold c2 B2. rewrite Hfs.
        cbn [r_prob r_indep r_ext r_rest s_words].
        assert (Hopen : 0 < nux -> full' = false /\ Nat.ltb (length (s_words outf)) (length (ptrs ++ [w :: c1])) = false).
        { intros H0. destruct (Hpos H0) as [Hw1 Hw2]. unfold full'. rewrite Hw1, Hlen'. cbn [length]. rewrite Nat.eqb_refl. cbn [negb orb].
          split; [apply Nat.eqb_neq; lia|apply Nat.ltb_irrefl]. }
        assert (Hfw : firstn nux (s_words (rs_right R)) = firstn nux c2).
        { unfold c2. rewrite firstn_firstn. f_equal. lia. }
        assert (Hlo : length (s_words outf ++ firstn nux c2) = length (s_words outf) + nux)
          by (rewrite app_length, firstn_length; lia).
        assert (Hlc : length (c1 ++ c2) = length c1 + nu) by (rewrite app_length; lia).
        unfold process_ret.
        destruct (Nat.eqb_spec nux m) as [Em|Em]; cbn [negb].
        * (* next_use unchanged *)
          assert (H0 : 0 < nux) by (subst nux; unfold m; rewrite Ew; cbn; lia).
          destruct (Hopen H0) as [Hf' Hlt']. destruct (Hpos H0) as [Hw1 _].
          cbn [mkchart c_left c_right l_full l_ptrs]. 
          destruct d.
          -- cbn [nt_loop]. rewrite Hf', Hlt'. rewrite Hfw. apply norm_eq. f_equal. lia.
          -- destruct (r_indep rx).
             ++ cbn [nt_loop]. rewrite Hf', Hlt'. rewrite Hfw. apply norm_eq. f_equal. lia.
             ++ cbn [nt_loop]. rewrite Hf', Hlt'. rewrite Hfw. apply norm_eq. f_equal; [|lia].
                rewrite Hlo, Hlc, Hw1. cbn [length]. destruct (I4 eq_refl) as [J1 _].
                symmetry. apply negb_false_iff. apply Nat.eqb_eq. lia.
        * destruct (Nat.eqb_spec nux 0) as [E0|E0].
          -- (* early exit *)
             subst nux. cbn [firstn]. rewrite state_app_nil. cbn [mkchart c_right]. rewrite ?unr_nil, ?unr_nil'.
             destruct d; [apply norm_eq; f_equal; lia|].
             destruct (r_indep rx); [apply norm_eq; f_equal; lia|].
             apply norm_eq. f_equal; [|lia].
             rewrite Hlc. destruct (I4 eq_refl) as [J1 _]. symmetry. apply negb_true_iff. apply Nat.eqb_neq.
             assert (0 < m) by lia. rewrite app_nil_r. lia.
          -- assert (H0 : 0 < nux) by lia.
             destruct (Hopen H0) as [Hf' Hlt']. destruct (Hpos H0) as [Hw1 _].
             cbn [mkchart c_left c_right l_full l_ptrs].
             destruct d.
             ++ cbn [nt_loop]. rewrite Hf', Hlt'. rewrite Hfw. apply norm_eq. f_equal. lia.
             ++ destruct (r_indep rx).
                ** cbn [nt_loop]. rewrite Hf', Hlt'. rewrite Hfw. apply norm_eq. f_equal. lia.
                ** cbn [nt_loop]. rewrite Hf', Hlt'. rewrite Hfw. apply norm_eq. f_equal; [|lia].
                   rewrite Hlo, Hlc, Hw1. cbn [length]. destruct (I4 eq_refl) as [J1 _].
                   symmetry. apply negb_true_iff. apply Nat.eqb_neq. lia.
  Qed.

  (* the three cases together *)
  Lemma star : forall X R w, wf X -> wf R -> known w ->
    norm (nt R (fst (fin (term X w))) (snd (fin (term X w)))) = norm (term (nt R (fst (fin X)) (snd (fin X))) w).
  Proof.
    intros X R w WX WR Hw.
    destruct (orb (rs_done X) (Nat.eqb (length (rs_ptrs X)) (N_order - 1))) eqn:Hfull.
    - apply norm_eq. apply star_full; assumption.
    - destruct (full_score N_order T (rs_right X) w) as [rf outf] eqn:Hf. destruct (r_indep rf) eqn:Ei.
      + apply norm_eq. apply (star_indep X R w rf outf); assumption.
      + apply (star_ext X R w rf outf); assumption.
  Qed.

  (* ---- well-formedness is kept by NonTerminal and Finish --------------------------------------------------- *)
  Lemma fin_cwf : forall X, wf X -> cwf (fst (fin X)).
  Proof.
    intros X [W1 W2 W3]. rewrite fin_eq. cbn [fst]. constructor; cbn [mkchart c_left c_right l_ptrs l_full].
    - exact W1.
    - exact W2.
    - intros H. apply orb_false_iff in H. apply W3. exact (proj1 H).
  Qed.

  Lemma nt_wf : forall R C p, wf R -> cwf C -> wf (nt R C p).
  Proof.
    intros R [[ptrs full] right] p WR [C1 C2 C3]. cbn [c_left c_right l_ptrs l_full] in *.
    change {| c_left := {| l_ptrs := ptrs; l_full := full |}; c_right := right |} with (mkchart ptrs full right).
    destruct WR as [W1 W2 W3].
    destruct ptrs as [|p0 ps].
    - unfold rs_nonterminal, mkchart. cbn [c_left c_right l_ptrs l_full]. destruct full; constructor; cbn; try assumption; discriminate.
    - destruct (s_words (rs_right R)) as [|c0 cs] eqn:Ew.
      + rewrite (nt_ctx_empty R (p0 :: ps) full right p Ew ltac:(discriminate)).
        destruct (rs_done R); [constructor; cbn; try assumption; discriminate|].
        destruct (rs_ptrs R); constructor; cbn [rs_right rs_ptrs rs_done]; try assumption; try discriminate.
      + assert (Hne : s_words (rs_right R) <> []) by (rewrite Ew; discriminate). rewrite <- Ew in *.
        rewrite (nt_loop_form R (p0 :: ps) full right p ltac:(discriminate) Hne).
        assert (HbR : length (s_words (rs_right R)) <= length (s_bo (rs_right R))) by (rewrite W1; apply le_n).
        destruct (ntl _ _ _ _ _ _ _ _ _) as [e|[[[[P d] Q] nu] back]] eqn:EL.
        * destruct (ntl_early _ _ _ _ _ _ _ _ _ _ C2 W2 EL) as [E1 [E2 E3]].
          constructor; [rewrite E2; exact C1|exact E3|rewrite E1; discriminate].
        * destruct (ntl_inv _ _ _ _ _ _ _ _ _ _ _ _ _ _ C2 W2 (le_n _) HbR (fun _ => eq_refl) EL) as [I1 [I2 [I3 I4]]].
          destruct full; [constructor; cbn; try assumption; discriminate|].
          pose proof (C3 eq_refl) as Hopen. rewrite Hopen. rewrite Nat.ltb_irrefl.
          constructor; cbn [rs_right rs_ptrs rs_done s_words s_bo].
          -- unfold swf in *. cbn [s_words s_bo]. rewrite !app_length, !firstn_length. lia.
          -- exact I3.
          -- intros Hd. destruct (I4 Hd) as [J1 [J2 J3]]. rewrite app_length, firstn_length. pose proof (W3 J2) as W3'.
             cbn [length] in *. unfold key in *. lia.
  Qed.

  (* ---- rule states that differ only in "complete because N-1 pointers" behave alike -------------------------- *)
  Lemma term_norm : forall A B w, wf A -> wf B -> known w -> norm A = norm B -> norm (term A w) = norm (term B w).
  Proof.
    intros A B w WA WB Hw H. unfold norm in H. injection H as H1 H2 H3 H4.
    destruct (orb (rs_done A) (Nat.eqb (length (rs_ptrs A)) (N_order - 1))) eqn:EA.
    - destruct (full_score N_order T (rs_right A) w) as [rf outf] eqn:Hf.
      rewrite (term_closed A w rf outf WA Hw EA Hf).
      assert (HfB : full_score N_order T (rs_right B) w = (rf, outf)) by (rewrite <- H2; exact Hf).
      rewrite (term_closed B w rf outf WB Hw (eq_sym H3) HfB). rewrite H1, H4. reflexivity.
    - symmetry in H3. apply orb_false_iff in EA, H3. destruct EA as [EA _]. destruct H3 as [EB _].
      apply norm_eq. f_equal. destruct A, B. cbn in *. subst. reflexivity.
  Qed.

  Definition flat (r : rs) (ws : list word) : rs := fold_left (rs_terminal N_order T) ws r.

  Lemma flat_wf : forall ws r, wf r -> wf (flat r ws).
  Proof. induction ws as [|w ws IH]; intros r W; [exact W|]. cbn [flat fold_left]. apply IH. apply term_wf. exact W. Qed.

  Lemma flat_norm : forall ws A B, wf A -> wf B -> Forall known ws -> norm A = norm B -> norm (flat A ws) = norm (flat B ws).
  Proof.
    induction ws as [|w ws IH]; intros A B WA WB Hk H; [exact H|].
    inversion Hk as [|? ? Hw Hk']. subst. cbn [flat fold_left]. apply IH; try apply term_wf; try assumption.
    apply term_norm; assumption.
  Qed.

  (* ---- NonTerminal of a finished fragment = Terminal of each of its words --------------------------------------- *)
  Theorem nt_flat : forall ws R, wf R -> Forall known ws ->
    norm (nt R (fst (fin (flat rs_init ws))) (snd (fin (flat rs_init ws)))) = norm (flat R ws).
  Proof.
    induction ws as [|w ws IH] using rev_ind; intros R WR Hk.
    - cbn [flat fold_left]. rewrite fin_eq. cbn [fst snd rs_init rs_ptrs rs_done rs_right rs_prob length orb].
      replace (Nat.eqb 0 (N_order - 1)) with false by (symmetry; apply Nat.eqb_neq; lia).
      unfold rs_nonterminal, mkchart. cbn. apply norm_eq. destruct R; cbn. f_equal. lia.
    - apply Forall_app in Hk. destruct Hk as [Hk Hw]. inversion Hw as [|? ? Hw' _]. subst.
      unfold flat. rewrite !fold_left_app. cbn [fold_left]. fold (flat rs_init ws). fold (flat R ws).
      assert (W0 : wf rs_init) by (constructor; cbn; [reflexivity|constructor|reflexivity]).
      rewrite (star (flat rs_init ws) R w (flat_wf ws rs_init W0) WR Hw').
      apply term_norm; try assumption.
      + apply nt_wf; [exact WR|]. apply fin_cwf. apply flat_wf. exact W0.
      + apply flat_wf. exact WR.
      + apply IH; assumption.
  Qed.

  (* ---- derivation trees ------------------------------------------------------------------------------------- *)
  Fixpoint yield_items (l : list item) : list word :=
    match l with
    | [] => []
    | Term w :: l' => w :: yield_items l'
    | Sub t' :: l' => yield t' ++ yield_items l'
    end.
  Lemma yield_rule : forall b f items, yield (Rule b f items) = yield_items items.
  Proof. intros b f items. cbn [yield]. induction items as [|[w|t'] l IH]; cbn [yield_items]; [reflexivity|f_equal; exact IH|f_equal; exact IH]. Qed.

  Fixpoint tsize (t : tree) : nat :=
    match t with
    | Rule _ _ items => S ((fix go (l : list item) : nat :=
                              match l with [] => 0 | Term _ :: l' => go l' | Sub t' :: l' => tsize t' + go l' end) items)
    end.
  Lemma tsize_sub : forall b f items t', In (Sub t') items -> tsize t' < tsize (Rule b f items).
  Proof.
    intros b f items t' Hin. cbn [tsize]. apply le_n_S.
    induction items as [|[w|t0] l IH]; [destruct Hin| |].
    - destruct Hin as [E|Hin]; [discriminate|]. apply IH. exact Hin.
    - destruct Hin as [E|Hin].
      + injection E as ->. lia.
      + specialize (IH Hin). lia.
  Qed.

  (* every terminal is a known word, and <s> is applied, if at all, at the root only *)
  Fixpoint good (t : tree) : Prop :=
    match t with
    | Rule bos _ items => bos = false /\
        (fix go (l : list item) : Prop :=
           match l with [] => True | Term w :: l' => known w /\ go l' | Sub t' :: l' => good t' /\ go l' end) items
    end.
  Fixpoint good_items (l : list item) : Prop :=
    match l with [] => True | Term w :: l' => known w /\ good_items l' | Sub t' :: l' => good t' /\ good_items l' end.
  Lemma good_rule : forall b f items, good (Rule b f items) <-> b = false /\ good_items items.
  Proof.
    intros b f items. cbn [good]. apply and_iff_compat_l.
    induction items as [|[w|t'] l IH]; cbn [good_items]; [tauto| |]; rewrite IH; tauto.
  Qed.

  Lemma good_items_sub : forall l t', good_items l -> In (Sub t') l -> good t'.
  Proof.
    induction l as [|[w|t0] l IH]; intros t' Hg Hin; [destruct Hin| |].
    - destruct Hin as [E|Hin]; [discriminate|]. exact (IH t' (proj2 Hg) Hin).
    - destruct Hin as [E|Hin]; [injection E as ->; exact (proj1 Hg)|]. exact (IH t' (proj2 Hg) Hin).
  Qed.
  Lemma good_items_term : forall l w, good_items l -> In (Term w) l -> known w.
  Proof.
    induction l as [|[w0|t0] l IH]; intros w Hg Hin; [destruct Hin| |].
    - destruct Hin as [E|Hin]; [injection E as ->; exact (proj1 Hg)|]. exact (IH w (proj2 Hg) Hin).
    - destruct Hin as [E|Hin]; [discriminate|]. exact (IH w (proj2 Hg) Hin).
  Qed.

  Variable bs : state.                     (* BeginSentenceState *)
  Hypothesis bs_swf : swf bs.

  Lemma wf_init : wf rs_init.
  Proof. constructor; cbn; [reflexivity|constructor|reflexivity]. Qed.
  Lemma wf_bos : wf (rs_begin_sentence bs rs_init).
  Proof. constructor; cbn; [exact bs_swf|constructor|discriminate]. Qed.

  Lemma norm_wf : forall r, wf r -> wf (norm r).
  Proof.
    intros r [W1 W2 W3]. constructor; cbn [norm rs_right rs_ptrs rs_done]; [exact W1|exact W2|].
    intros H. apply orb_false_iff in H. apply W3. exact (proj1 H).
  Qed.
  Lemma norm_idem : forall r, norm (norm r) = norm r.
  Proof. intros r. unfold norm. cbn [rs_ptrs rs_right rs_done rs_prob]. rewrite <- orb_assoc, orb_diag. reflexivity. Qed.

  (* the items of a rule, given that every sub-derivation already evaluates to its flat form *)
  Lemma run_flat : forall l bos fast start,
    (forall t', In (Sub t') l -> eval_tree N_order T dr bs t' = fin (flat rs_init (yield t')) /\ Forall known (yield t')) ->
    (forall w, In (Term w) l -> known w) -> wf start ->
    forall first r us, wf r -> norm r = norm (flat start us) -> Forall known us ->
    (first = true -> andb fast (negb bos) = true -> start = rs_init /\ us = [] /\ r = rs_init) ->
    norm (run_items N_order T dr bs first bos fast r l) = norm (flat start (us ++ yield_items l)) /\
    Forall known (us ++ yield_items l).
  Proof.
    induction l as [|i l IH]; intros bos fast start HS HT Wst first r us Wr Hr Hus Hfirst.
    - cbn [run_items yield_items]. rewrite app_nil_r. split; assumption.
    - destruct i as [w|t'].
      + cbn [run_items yield_items].
        assert (Hw : known w) by (apply HT; left; reflexivity).
        replace (us ++ w :: yield_items l) with ((us ++ [w]) ++ yield_items l) by (rewrite <- app_assoc; reflexivity).
        apply IH.
        * intros t0 H0. apply HS. right. exact H0.
        * intros w0 H0. apply HT. right. exact H0.
        * exact Wst.
        * apply term_wf. exact Wr.
        * unfold flat. rewrite fold_left_app. cbn [fold_left]. apply term_norm; try assumption. apply flat_wf. exact Wst.
        * apply Forall_app. split; [exact Hus|constructor; [exact Hw|constructor]].
        * discriminate.
      + cbn [run_items yield_items].
        destruct (HS t' (or_introl eq_refl)) as [He Hk]. rewrite He.
        destruct (fin (flat rs_init (yield t'))) as [c p] eqn:EF.
        assert (Wf0 : wf (flat rs_init (yield t'))) by (apply flat_wf; exact wf_init).
        rewrite app_assoc.
        apply IH.
        * intros t0 H0. apply HS. right. exact H0.
        * intros w0 H0. apply HT. right. exact H0.
        * exact Wst.
        * destruct (andb first (andb fast (negb bos))).
          -- replace (rs_begin_nonterminal c p) with (norm (flat rs_init (yield t'))).
             ++ apply norm_wf. exact Wf0.
             ++ rewrite fin_eq in EF. injection EF as <- <-. reflexivity.
          -- apply nt_wf; [exact Wr|]. replace c with (fst (fin (flat rs_init (yield t')))) by (rewrite EF; reflexivity).
             apply fin_cwf. exact Wf0.
        * destruct (andb first (andb fast (negb bos))) eqn:Efb.
          -- apply andb_true_iff in Efb. destruct Efb as [E1 E2]. destruct (Hfirst E1 E2) as [-> [-> ->]].
             cbn [app]. replace (rs_begin_nonterminal c p) with (norm (flat rs_init (yield t'))).
             ++ apply norm_idem.
             ++ rewrite fin_eq in EF. injection EF as <- <-. reflexivity.
          -- replace c with (fst (fin (flat rs_init (yield t')))) by (rewrite EF; reflexivity).
             replace p with (snd (fin (flat rs_init (yield t')))) by (rewrite EF; reflexivity).
             rewrite (nt_flat (yield t') r Wr Hk).
             unfold flat at 2. rewrite fold_left_app. fold (flat start us). fold (flat (flat start us) (yield t')).
             apply flat_norm; try assumption. apply flat_wf. exact Wst.
        * apply Forall_app. split; assumption.
        * discriminate.
  Qed.

  (* every derivation without inner <s>: the chart state and score of its words scored left to right *)
  Theorem tree_flat : forall t, good t ->
    eval_tree N_order T dr bs t = fin (flat rs_init (yield t)) /\ Forall known (yield t).
  Proof.
    intros t. remember (tsize t) as n eqn:En. revert t En.
    induction n as [n IHn] using lt_wf_ind. intros [bos fast items] En Hg.
    apply (proj1 (good_rule _ _ _)) in Hg. destruct Hg as [-> Hgi].
    assert (HS : forall t', In (Sub t') items ->
              eval_tree N_order T dr bs t' = fin (flat rs_init (yield t')) /\ Forall known (yield t')).
    { intros t' Hin. apply (IHn (tsize t')); [subst n; apply tsize_sub; exact Hin|reflexivity|].
      exact (good_items_sub items t' Hgi Hin). }
    assert (HT : forall w, In (Term w) items -> known w).
    { intros w Hin. exact (good_items_term items w Hgi Hin). }
    rewrite eval_tree_unfold. rewrite yield_rule.
    destruct (run_flat items false fast rs_init HS HT wf_init true rs_init [] wf_init eq_refl (Forall_nil _)
                (fun _ _ => conj eq_refl (conj eq_refl eq_refl))) as [H1 H2].
    cbn [app] in *. split; [|exact H2].
    rewrite fin_norm. rewrite H1. rewrite <- fin_norm. reflexivity.
  Qed.

  (* the root rule may apply <s> first *)
  Theorem root_flat : forall (bos fast : bool) items, good_items items ->
    let start := if bos then rs_begin_sentence bs rs_init else rs_init in
    eval_tree N_order T dr bs (Rule bos fast items) = fin (flat start (yield_items items)).
  Proof.
    intros bos fast items Hgi start.
    assert (HS : forall t', In (Sub t') items ->
              eval_tree N_order T dr bs t' = fin (flat rs_init (yield t')) /\ Forall known (yield t')).
    { intros t' Hin. apply tree_flat.
      exact (good_items_sub items t' Hgi Hin). }
    assert (HT : forall w, In (Term w) items -> known w).
    { intros w Hin. exact (good_items_term items w Hgi Hin). }
    assert (Wst : wf start) by (unfold start; destruct bos; [exact wf_bos|exact wf_init]).
    rewrite eval_tree_unfold. fold start.
    destruct (run_flat items bos fast start HS HT Wst true start [] Wst eq_refl (Forall_nil _)) as [H1 H2].
    { intros _ Hfb. apply andb_true_iff in Hfb. destruct Hfb as [_ Hb]. apply negb_true_iff in Hb. subst bos. unfold start. repeat split. }
    cbn [app] in *. rewrite fin_norm. rewrite H1. rewrite <- fin_norm. reflexivity.
  Qed.

  (* ---- Terminal by Terminal is FullScore by FullScore ------------------------------------------------------ *)
  Lemma term_score : forall X w, rest_eq -> wf X -> known w ->
    rs_right (term X w) = snd (full_score N_order T (rs_right X) w) /\
    rs_prob (term X w) = (rs_prob X + r_prob (fst (full_score N_order T (rs_right X) w)))%Z.
  Proof.
    intros X w rest_eq WX Hw. unfold rs_terminal.
    destruct (full_score N_order T (rs_right X) w) as [rf outf] eqn:Hf. cbn [fst snd].
    destruct (rs_done X); [split; reflexivity|]. destruct (r_indep rf) eqn:Ei; [split; reflexivity|].
    cbn [rs_right rs_prob]. split; [reflexivity|].
    pose proof (wf_state X WX) as Hs. unfold swf in Hs. destruct (rs_right X) as [c1 B1]. cbn [s_words s_bo] in *.
    destruct (sim_ext c1 B1 w rf outf Hw Hs Hf Ei) as [e [He [_ [_ [Hp [Hr _]]]]]].
    rewrite Hp, Hr. rewrite (rest_eq _ _ He). reflexivity.
  Qed.

  Lemma flat_score : forall ws X, rest_eq -> wf X -> Forall known ws ->
    rs_right (flat X ws) = snd (score_seq N_order T (rs_right X) ws) /\
    rs_prob (flat X ws) = (rs_prob X + fold_right Z.add 0%Z (fst (score_seq N_order T (rs_right X) ws)))%Z.
  Proof.
    induction ws as [|w ws IH]; intros X HR WX Hk.
    - cbn. split; [reflexivity|lia].
    - inversion Hk as [|? ? Hw Hk']. subst. cbn [flat fold_left score_seq].
      destruct (term_score X w HR WX Hw) as [H1 H2].
      destruct (IH (term X w) HR (term_wf X w WX) Hk') as [I1 I2]. fold (flat (term X w) ws).
      rewrite I1, I2, H1, H2.
      destruct (full_score N_order T (rs_right X) w) as [rf outf]. cbn [fst snd].
      destruct (score_seq N_order T outf ws) as [ps final]. cbn [fst snd fold_right]. split; [reflexivity|lia].
  Qed.

  (* ---- every derivation: total and right state of left-to-right scoring, i.e. the ARPA recursion ------------ *)
  Theorem any_bracketing_fragment : forall t, rest_eq -> good t ->
    snd (eval_tree N_order T dr bs t) = fold_right Z.add 0%Z (spec_seq N_order M [] (yield t)) /\
    c_right (fst (eval_tree N_order T dr bs t)) =
      (if yield t then null_state else get_state N_order T (rev (yield t))).
  Proof.
    intros t HR Hg. destruct (tree_flat t Hg) as [He Hk]. rewrite He. rewrite fin_eq. cbn [fst snd mkchart c_right].
    destruct (flat_score (yield t) rs_init HR wf_init Hk) as [H1 H2]. rewrite H1, H2. cbn [rs_init rs_right rs_prob].
    destruct (score_seq_spec N_order Hord T M Inv (yield t) null_state [] (valid_null N_order Hord T M)) as [S1 S2].
    { intros w Hin. rewrite Forall_forall in Hk. exact (Hk w Hin). }
    rewrite S1, S2. split; [lia|]. destruct (yield t); [reflexivity|]. rewrite app_nil_r. reflexivity.
  Qed.

  Theorem any_bracketing_sentence : forall b (fast : bool) items, bs = bos_state T b -> good_items items ->
    eval_tree N_order T dr bs (Rule true fast items) =
    ({| c_left := {| l_ptrs := []; l_full := true |};
        c_right := (if yield_items items then bs else get_state N_order T (rev (yield_items items) ++ [b])) |},
     fold_right Z.add 0%Z (spec_seq N_order M [b] (yield_items items))).
  Proof.
    intros b fast items Hb Hgi. rewrite (root_flat true fast items Hgi). cbn zeta.
    assert (Hk : Forall known (yield_items items)).
    { revert Hgi. induction items as [|[w|t'] l IH]; intros Hgi; cbn [yield_items].
      - constructor.
      - constructor; [exact (proj1 Hgi)|exact (IH (proj2 Hgi))].
      - apply Forall_app. split; [exact (proj2 (tree_flat t' (proj1 Hgi)))|exact (IH (proj2 Hgi))]. }
    assert (Hd : forall ws X, rs_done X = true ->
              rs_done (flat X ws) = true /\ rs_ptrs (flat X ws) = rs_ptrs X /\
              rs_right (flat X ws) = snd (score_seq N_order T (rs_right X) ws) /\
              rs_prob (flat X ws) = (rs_prob X + fold_right Z.add 0%Z (fst (score_seq N_order T (rs_right X) ws)))%Z).
    { induction ws as [|w ws IHw]; intros X Hd; [cbn; repeat split; try assumption; lia|].
      cbn [flat fold_left score_seq]. fold (flat (term X w) ws).
      assert (Ht : term X w = {| rs_ptrs := rs_ptrs X; rs_right := snd (full_score N_order T (rs_right X) w); rs_done := true;
                                 rs_prob := (rs_prob X + r_prob (fst (full_score N_order T (rs_right X) w)))%Z |}).
      { unfold rs_terminal. destruct (full_score N_order T (rs_right X) w). rewrite Hd. reflexivity. }
      destruct (IHw (term X w) ltac:(rewrite Ht; reflexivity)) as [J1 [J2 [J3 J4]]].
      rewrite J1, J2, J3, J4, Ht. cbn [rs_ptrs rs_right rs_prob].
      destruct (full_score N_order T (rs_right X) w) as [rf outf]. cbn [fst snd].
      destruct (score_seq N_order T outf ws) as [ps final]. cbn [fst snd fold_right]. repeat split; lia. }
    destruct (Hd (yield_items items) (rs_begin_sentence bs rs_init) eq_refl) as [D1 [D2 [H1 H2]]].
    rewrite fin_eq. rewrite D1, D2, H1, H2. cbn [rs_begin_sentence rs_ptrs rs_right rs_prob rs_init orb mkchart].
    destruct (score_seq_spec N_order Hord T M Inv (yield_items items) bs [b]) as [S1 S2].
    { rewrite Hb. apply valid_bos. exact Hord. }
    { intros w Hin. rewrite Forall_forall in Hk. exact (Hk w Hin). }
    rewrite S1, S2. f_equal.
  Qed.

  (* ---- lm/partial.hh: the two loops of ExtendLoop are the loop of NonTerminal -------------------------------------- *)
  Notation xw := (ext_write N_order T).
  Notation xf := (ext_full N_order T).

  Lemma xf_zero : forall add l a back, xf add l a 0 back = (l, a, 0, back).
  Proof. intros add [|p l] a back; reflexivity. Qed.

  (* left state already complete: every remaining pointer is extended with the context still in use *)
  Lemma full_sim : forall l C orig el P Q a nu back, Forall (fun p => p <> []) l ->
    nu <> 0 -> nu <= length (s_words orig) ->
    match ntl C orig l el P true Q nu back with
    | inl e => exists rest a' back2, xf (s_words orig) l a nu back = (rest, a', 0, back2) /\
                 rs_ptrs e = P /\ (rs_prob e - Q = a' - a + unr rest)%Z
    | inr (P1, d1, Q1, nu1, back1) => exists a', xf (s_words orig) l a nu back = ([], a', nu1, back1) /\
                 P1 = P /\ d1 = true /\ (Q1 - Q = a' - a)%Z /\ nu1 <> 0 /\ nu1 <= length (s_words orig)
    end.
  Proof.
    induction l as [|p l IH]; intros C orig el P Q a nu back Hl Hnu Hm.
    - cbn [nt_loop ext_full]. exists a. repeat split; try lia; assumption.
    - inversion Hl as [|? ? Hp Hl']. subst. cbn [nt_loop ext_full].
      destruct (Nat.eqb_spec nu 0) as [E0|_]; [congruence|].
      destruct (extend_left N_order T (firstn nu (s_words orig)) back p) as [[ret bo] nu'] eqn:EX.
      destruct (extend_left_bounds _ _ _ _ _ _ Hp EX) as [B1 [B2 B3]]. rewrite firstn_length in B1.
      unfold process_ret.
      destruct (Nat.eqb_spec nu' (length (s_words orig))) as [Em|Em]; cbn [negb].
      + specialize (IH C orig (S el) P (Q + r_prob ret)%Z (a + r_prob ret)%Z nu' bo Hl' ltac:(lia) ltac:(lia)).
        destruct (ntl C orig l (S el) P true (Q + r_prob ret)%Z nu' bo) as [e|[[[[P1 d1] Q1] nu1] back1]].
        * destruct IH as [rest [a' [back2 [H1 [H2 H3]]]]]. exists rest, a', back2. rewrite H1. repeat split; try assumption; lia.
        * destruct IH as [a' [H1 [H2 [H3 [H4 [H5 H6]]]]]]. exists a'. rewrite H1. repeat split; try assumption; lia.
      + destruct (Nat.eqb_spec nu' 0) as [E0|E0].
        * subst nu'. rewrite xf_zero. exists l, (a + r_prob ret)%Z, bo. cbn [rs_ptrs rs_prob]. repeat split; unfold key in *; lia.
        * specialize (IH C orig (S el) P (Q + r_prob ret)%Z (a + r_prob ret)%Z nu' bo Hl' E0 ltac:(lia)).
          destruct (ntl C orig l (S el) P true (Q + r_prob ret)%Z nu' bo) as [e|[[[[P1 d1] Q1] nu1] back1]].
          -- destruct IH as [rest [a' [back2 [H1 [H2 H3]]]]]. exists rest, a', back2. rewrite H1. repeat split; try assumption; lia.
          -- destruct IH as [a' [H1 [H2 [H3 [H4 [H5 H6]]]]]]. exists a'. rewrite H1. repeat split; try assumption; lia.
  Qed.

  (* left state still open: pointers are written while the words keep extending and next_use stays put *)
  Lemma write_sim : forall l C orig el P0 W Q a back, Forall (fun p => p <> []) l -> 0 < length (s_words orig) ->
    let m := length (s_words orig) in
    let '(rest, W', a1, mf, nu', back') := xw (s_words orig) m l W a m back in
    let '(rest2, a2, nu2, back2) := xf (s_words orig) rest a1 nu' back' in
    match ntl C orig l el (P0 ++ W) false Q m back with
    | inl e => nu2 = 0 /\ mf = true /\ rs_ptrs e = P0 ++ W' /\ (rs_prob e - Q = a2 - a + unr rest2)%Z
    | inr (P1, d1, Q1, nu1, back1) => rest2 = [] /\ nu2 = nu1 /\ back2 = back1 /\ mf = d1 /\ P1 = P0 ++ W' /\ (Q1 - Q = a2 - a)%Z /\
                                      nu1 <> 0 /\ nu1 <= m
    end.
  Proof.
    induction l as [|p l IH]; intros C orig el P0 W Q a back Hl Hm m.
    - cbn [ext_write ext_full nt_loop]. repeat split; try lia.
    - inversion Hl as [|? ? Hp Hl']. subst. cbn [ext_write nt_loop]. fold m.
      destruct (extend_left N_order T (firstn m (s_words orig)) back p) as [[ret bo] nu'] eqn:EX.
      destruct (extend_left_bounds _ _ _ _ _ _ Hp EX) as [B1 [B2 B3]]. rewrite firstn_length in B1. fold m in B1.
      unfold process_ret.
      destruct (r_indep ret) eqn:Ei.
      + (* the left state is complete from here on *)
        destruct (Nat.eqb_spec nu' m) as [Em|Em]; cbn [negb].
        * pose proof (full_sim l C orig (S el) (P0 ++ W) (Q + r_prob ret)%Z (a + r_prob ret)%Z nu' bo Hl' ltac:(lia) ltac:(fold m; lia)) as HF.
          destruct (xf (s_words orig) l (a + r_prob ret)%Z nu' bo) as [[[rest2 a2] nu2] back2].
          destruct (ntl C orig l (S el) (P0 ++ W) true (Q + r_prob ret)%Z nu' bo) as [e|[[[[P1 d1] Q1] nu1] back1]].
          -- destruct HF as [r' [a' [b' [H1 [H2 H3]]]]]. injection H1 as -> -> -> ->. repeat split; try assumption; lia.
          -- destruct HF as [a' [H1 [H2 [H3 [H4 [H5 H6]]]]]]. injection H1 as -> -> -> ->. fold m in H6. repeat split; try assumption; try lia. symmetry; exact H3.
        * destruct (Nat.eqb_spec nu' 0) as [E0|E0].
          -- subst nu'. rewrite xf_zero. cbn [rs_ptrs rs_prob]. repeat split; unfold key in *; lia.
          -- pose proof (full_sim l C orig (S el) (P0 ++ W) (Q + r_prob ret)%Z (a + r_prob ret)%Z nu' bo Hl' E0 ltac:(fold m; lia)) as HF.
             destruct (xf (s_words orig) l (a + r_prob ret)%Z nu' bo) as [[[rest2 a2] nu2] back2].
             destruct (ntl C orig l (S el) (P0 ++ W) true (Q + r_prob ret)%Z nu' bo) as [e|[[[[P1 d1] Q1] nu1] back1]].
             ++ destruct HF as [r' [a' [b' [H1 [H2 H3]]]]]. injection H1 as -> -> -> ->. repeat split; try assumption; lia.
             ++ destruct HF as [a' [H1 [H2 [H3 [H4 [H5 H6]]]]]]. injection H1 as -> -> -> ->. fold m in H6. repeat split; try assumption; try lia. symmetry; exact H3.
      + destruct (Nat.eqb_spec nu' m) as [Em|Em]; cbn [negb].
        * (* keep writing *)
          subst nu'. specialize (IH C orig (S el) P0 (W ++ [r_ext ret]) (Q + r_rest ret)%Z (a + r_rest ret)%Z bo Hl' Hm). cbv zeta in IH. fold m in IH.
          destruct (xw (s_words orig) m l (W ++ [r_ext ret]) (a + r_rest ret)%Z m bo) as [[[[[rest W'] a1] mf] nu1'] back'].
          destruct (xf (s_words orig) rest a1 nu1' back') as [[[rest2 a2] nu2] back2].
          rewrite <- app_assoc.
          destruct (ntl C orig l (S el) (P0 ++ W ++ [r_ext ret]) false (Q + r_rest ret)%Z m bo) as [e|[[[[P1 d1] Q1] nu1] back1]].
          -- destruct IH as [H1 [H2 [H3 H4]]]. repeat split; try assumption; lia.
          -- destruct IH as [H1 [H2 [H3 [H4 [H5 [H6 [H7 H8]]]]]]]. repeat split; try assumption; lia.
        * destruct (Nat.eqb_spec nu' 0) as [E0|E0].
          -- subst nu'. rewrite xf_zero. cbn [rs_ptrs rs_prob]. rewrite <- app_assoc. repeat split; unfold key in *; lia.
          -- pose proof (full_sim l C orig (S el) ((P0 ++ W) ++ [r_ext ret]) (Q + r_rest ret)%Z (a + r_rest ret)%Z nu' bo Hl' E0 ltac:(fold m; lia)) as HF.
             destruct (xf (s_words orig) l (a + r_rest ret)%Z nu' bo) as [[[rest2 a2] nu2] back2].
             destruct (ntl C orig l (S el) ((P0 ++ W) ++ [r_ext ret]) true (Q + r_rest ret)%Z nu' bo) as [e|[[[[P1 d1] Q1] nu1] back1]].
             ++ destruct HF as [r' [a' [b' [H1 [H2 H3]]]]]. injection H1 as -> -> -> ->. rewrite <- app_assoc in H2. repeat split; try assumption; lia.
             ++ destruct HF as [a' [H1 [H2 [H3 [H4 [H5 H6]]]]]]. injection H1 as -> -> -> ->. fold m in H6. rewrite <- app_assoc in H2.
                repeat split; try assumption; try lia. symmetry; exact H3.
  Qed.

  (* pointers recorded in a left state denote entries that extend left *)
  Definition gp (p : key) : Prop := exists e, T p = Some e /\ e_left e = true.

  Lemma extend_left_nil : forall p, gp p ->
    exists ret, extend_left N_order T [] [] p = (ret, [], 0) /\ r_indep ret = false /\ r_ext ret = p /\ r_rest ret = 0%Z.
  Proof.
    intros p [e [He Hl]]. rewrite extend_left_core. cbn zeta. cbn [resume_core]. unfold rx0_of. rewrite He.
    cbn [r_prob r_len r_indep r_ext r_rest pick length].
    eexists. split; [rewrite Nat.sub_diag; reflexivity|]. cbn [r_indep r_ext r_rest r_prob].
    rewrite Hl. cbn [negb]. split; [destruct (Nat.eqb (length p) 1); reflexivity|]. split; [reflexivity|]. lia.
  Qed.

  Lemma xw_empty : forall l W a, Forall gp l ->
    exists a', xw [] 0 l W a 0 [] = ([], W ++ l, a', false, 0, []) /\ a' = a.
  Proof.
    induction l as [|p l IH]; intros W a Hl.
    - cbn [ext_write]. exists a. rewrite app_nil_r. split; reflexivity.
    - inversion Hl as [|? ? Hp Hl']. subst. cbn [ext_write firstn].
      destruct (extend_left_nil p Hp) as [ret [H1 [H2 [H3 H4]]]]. rewrite H1, H2. cbn [Nat.eqb negb].
      destruct (IH (W ++ [r_ext ret]) (a + r_rest ret)%Z Hl') as [a' [I1 I2]].
      exists a'. rewrite I1. rewrite H3. rewrite <- app_assoc. split; [reflexivity|]. rewrite I2, H4. lia.
  Qed.

  Definition mkrs (P : list key) (r : state) (d : bool) (p : Z) : rs := {| rs_ptrs := P; rs_right := r; rs_done := d; rs_prob := p |}.

  Lemma norm_mk : forall P r d d' p p', p = p' ->
    orb d (Nat.eqb (length P) (N_order - 1)) = orb d' (Nat.eqb (length P) (N_order - 1)) ->
    norm (mkrs P r d p) = norm (mkrs P r d' p').
  Proof. intros P r d d' p p' -> H. unfold norm, mkrs. cbn [rs_ptrs rs_right rs_done rs_prob]. rewrite H. reflexivity. Qed.

  (* Subsume(first, second) is NonTerminal(second) applied to the rule state the first fragment stands for *)
  Lemma subsume_nt : forall P1 f1 r1 P2 f2 r2 p1 p2,
    cwf (mkchart P1 f1 r1) -> cwf (mkchart P2 f2 r2) -> Forall gp P2 ->
    forall adj l1' r2',
    subsume N_order T dr {| l_ptrs := P1; l_full := f1 |} r1 {| l_ptrs := P2; l_full := f2 |} r2 = (adj, l1', r2') ->
    norm (nt (mkrs P1 r1 f1 p1) (mkchart P2 f2 r2) p2) = norm (mkrs (l_ptrs l1') r2' (l_full l1') (p1 + p2 + adj)%Z).
  Proof.
    intros P1 f1 r1 P2 f2 r2 p1 p2 [A1 A2 A3] [B1 B2 B3] HG adj l1' r2' HS.
    cbn [mkchart c_left c_right l_ptrs l_full] in *. unfold swf in A1, B1.
    assert (WR : wf (mkrs P1 r1 f1 p1)) by (constructor; cbn; assumption).
    unfold subsume, extend_loop in HS. cbn [l_ptrs l_full] in HS.
    set (m := length (s_words r1)) in *.
    assert (Hb0 : firstn m (s_bo r1) = s_bo r1) by (apply firstn_all2; lia).
    rewrite Hb0 in HS.
    destruct P2 as [|q0 qs].
    - (* the second fragment has no pointer *)
      assert (HX : (if negb f1 then xw (s_words r1) m [] [] 0%Z m (s_bo r1) else ([], [], 0%Z, false, m, s_bo r1)) =
                   ([], [], 0%Z, false, m, s_bo r1)) by (destruct f1; reflexivity).
      rewrite HX in HS. cbn [ext_full] in HS. cbn [x_adjust x_make_full x_next_use] in HS. rewrite ?unr_nil, ?unr_nil' in HS.
      assert (Hbw : firstn m (s_bo r1) = s_bo r1) by exact Hb0. rewrite Hbw in HS.
      unfold rs_nonterminal, mkchart, mkrs. cbn [c_left c_right l_ptrs l_full rs_ptrs rs_right rs_done rs_prob].
      destruct f2.
      + injection HS as <- <- <-. destruct f1; cbn [l_ptrs l_full]; [apply norm_mk; [unfold key in *; lia|reflexivity]|].
        rewrite app_nil_r. apply norm_mk; [unfold key in *; lia|reflexivity].
      + pose proof (B3 eq_refl) as Hr2. cbn [length] in Hr2.
        destruct r2 as [w2 b2]. cbn [s_words s_bo] in *. destruct w2; [|discriminate]. destruct b2; [|discriminate].
        cbn [app] in HS. assert (Hfw : firstn m (s_words r1) = s_words r1) by (unfold m; apply firstn_all). rewrite Hfw in HS.
        injection HS as <- <- <-.
        assert (Hr1 : {| s_words := s_words r1; s_bo := s_bo r1 |} = r1) by (destruct r1; reflexivity). rewrite Hr1.
        destruct f1; cbn [l_ptrs l_full]; [apply norm_mk; [unfold key in *; lia|reflexivity]|].
        rewrite app_nil_r. fold m. apply norm_mk; [unfold key in *; lia|]. cbn [orb].
        rewrite (A3 eq_refl). fold m. destruct (Nat.eqb m (N_order - 1)); reflexivity.
    - destruct (Nat.eq_dec m 0) as [Em|Em].
      + (* the first fragment leaves no context *)
        assert (Hw1 : s_words r1 = []) by (destruct (s_words r1); [reflexivity|discriminate]).
        assert (Hb1 : s_bo r1 = []) by (destruct (s_bo r1); [reflexivity|cbn [length] in A1; lia]).
        rewrite (nt_ctx_empty (mkrs P1 r1 f1 p1) (q0 :: qs) f2 r2 p2 Hw1 ltac:(discriminate)).
        cbn [mkrs rs_done rs_ptrs rs_prob]. rewrite Hw1, Hb1, Em in HS.
        destruct f1; cbn [negb] in HS.
        * rewrite xf_zero in HS. cbn [x_adjust x_make_full x_next_use firstn] in HS.
          destruct f2; injection HS as <- <- <-; cbn [l_ptrs l_full]; rewrite ?unr_nil, ?unr_nil'.
          -- apply norm_mk; [cbn; unfold key in *; lia|reflexivity].
          -- rewrite state_app_nil. apply norm_mk; [cbn; unfold key in *; lia|reflexivity].
        * pose proof (A3 eq_refl) as HP1. destruct P1; [|cbn [length] in HP1; lia].
          destruct (xw_empty (q0 :: qs) [] 0%Z HG) as [a' [X1 X2]]. rewrite X1 in HS. subst a'.
          cbn [ext_full x_adjust x_make_full x_next_use firstn app] in HS. rewrite ?unr_nil, ?unr_nil' in HS.
          destruct f2; injection HS as <- <- <-; cbn [l_ptrs l_full app].
          -- apply norm_mk; [cbn; unfold key in *; lia|reflexivity].
          -- rewrite state_app_nil. apply norm_mk; [cbn; unfold key in *; lia|].
             change (match N_order - 1 with 0 => false | S m' => Nat.eqb (length qs) m' end) with (Nat.eqb (length (q0 :: qs)) (N_order - 1)).
             rewrite app_nil_r. rewrite <- (B3 eq_refl). destruct (Nat.eqb (length (q0 :: qs)) (N_order - 1)); reflexivity.
      + (* the loop *)
        assert (Hne : s_words (rs_right (mkrs P1 r1 f1 p1)) <> []) by (cbn; intros E0; apply Em; unfold m; rewrite E0; reflexivity).
        rewrite (nt_loop_form (mkrs P1 r1 f1 p1) (q0 :: qs) f2 r2 p2 ltac:(discriminate) Hne).
        cbn [mkrs rs_right rs_ptrs rs_done rs_prob]. fold m.
        destruct f1; cbn [negb] in HS.
        * (* the first fragment's left state is complete: nothing is written *)
          pose proof (full_sim (q0 :: qs) (mkchart (q0 :: qs) f2 r2) r1 1 P1 (p1 + p2)%Z 0%Z m (s_bo r1) B2 Em (le_n _)) as HF.
          destruct (xf (s_words r1) (q0 :: qs) 0%Z m (s_bo r1)) as [[[rest2 a2] nu2] back2].
          cbn [x_adjust x_make_full x_next_use] in HS. rewrite ?unr_nil, ?unr_nil' in HS.
          destruct (ntl (mkchart (q0 :: qs) f2 r2) r1 (q0 :: qs) 1 P1 true (p1 + p2)%Z m (s_bo r1)) as [e|[[[[Pn dn] Qn] nun] backn]] eqn:EL.
          -- destruct HF as [rest [a' [b2' [H1 [H2 H3]]]]]. injection H1 as -> -> -> ->.
             destruct (ntl_early _ _ _ _ _ _ _ _ _ _ B2 A2 EL) as [E1 [E2 E3]]. cbn [firstn] in HS.
             assert (He : e = mkrs P1 r2 true (rs_prob e)) by (destruct e; cbn in *; subst; reflexivity).
             rewrite He. destruct f2; injection HS as <- <- <-; cbn [l_ptrs l_full]; rewrite ?unr_nil, ?unr_nil'.
             ++ apply norm_mk; [cbn; unfold key in *; lia|reflexivity].
             ++ rewrite state_app_nil. apply norm_mk; [cbn; unfold key in *; lia|reflexivity].
          -- destruct HF as [a' [H1 [H2 [H3 [H4 [H5 H6]]]]]]. injection H1 as -> -> -> ->. subst Pn dn.
             destruct f2; injection HS as <- <- <-; cbn [l_ptrs l_full]; rewrite ?unr_nil, ?unr_nil'.
             ++ apply norm_mk; [unfold key in *; lia|reflexivity].
             ++ rewrite (B3 eq_refl). rewrite Nat.ltb_irrefl. apply norm_mk; [unfold key in *; lia|reflexivity].
        * (* still open: pointers of the second fragment are written while they keep extending *)
          pose proof (write_sim (q0 :: qs) (mkchart (q0 :: qs) f2 r2) r1 1 P1 [] (p1 + p2)%Z 0%Z (s_bo r1) B2 ltac:(fold m; lia)) as HW.
          cbv zeta in HW. fold m in HW. rewrite app_nil_r in HW.
          destruct (xw (s_words r1) m (q0 :: qs) [] 0%Z m (s_bo r1)) as [[[[[rest W'] a1] mf] nu'] back'].
          destruct (xf (s_words r1) rest a1 nu' back') as [[[rest2 a2] nu2] back2].
          cbn [x_adjust x_make_full x_next_use] in HS. rewrite ?unr_nil, ?unr_nil' in HS.
          destruct (ntl (mkchart (q0 :: qs) f2 r2) r1 (q0 :: qs) 1 P1 false (p1 + p2)%Z m (s_bo r1)) as [e|[[[[Pn dn] Qn] nun] backn]] eqn:EL.
          -- destruct HW as [H1 [H2 [H3 H4]]]. subst nu2 mf.
             destruct (ntl_early _ _ _ _ _ _ _ _ _ _ B2 A2 EL) as [E1 [E2 E3]]. cbn [firstn] in HS.
             assert (He : e = mkrs (P1 ++ W') r2 true (rs_prob e)) by (destruct e; cbn in *; subst; reflexivity).
             rewrite He. destruct f2; injection HS as <- <- <-; cbn [l_ptrs l_full]; rewrite ?unr_nil, ?unr_nil'.
             ++ apply norm_mk; [cbn; unfold key in *; lia|reflexivity].
             ++ rewrite state_app_nil. apply norm_mk; [cbn; unfold key in *; lia|reflexivity].
          -- destruct HW as [H1 [H2 [H3 [H4 [H5 [H6 [H7 H8]]]]]]]. subst rest2 nu2 back2 mf Pn.
             destruct f2; injection HS as <- <- <-; cbn [l_ptrs l_full]; rewrite ?unr_nil, ?unr_nil'.
             ++ apply norm_mk; [unfold key in *; lia|]. rewrite !orb_true_r. reflexivity.
             ++ rewrite (B3 eq_refl). rewrite Nat.ltb_irrefl. apply norm_mk; [unfold key in *; lia|].
                (* open result: as many state words as pointers *)
                destruct dn; [reflexivity|]. cbn [orb].
                destruct (ntl_inv _ _ _ _ _ _ _ _ _ _ _ _ _ _ B2 A2 (le_n _) ltac:(rewrite A1; apply le_n) (fun _ => eq_refl) EL) as [I1 [I2 [I3 I4]]].
                destruct (I4 eq_refl) as [J1 [_ J3]].
                assert (Hlen : length (s_words r2 ++ firstn nun (s_words r1)) = length (P1 ++ W')).
                { rewrite app_length, firstn_length. pose proof (B3 eq_refl) as K1. pose proof (A3 eq_refl) as K2.
                  cbn [length] in *. fold m. fold m in J1. unfold key in *. lia. }
                rewrite Hlen. destruct (Nat.eqb (length (P1 ++ W')) (N_order - 1)); reflexivity.
  Qed.

  Lemma term_gp : forall X w, wf X -> known w -> Forall gp (rs_ptrs X) -> Forall gp (rs_ptrs (term X w)).
  Proof.
    intros X w WX Hw HG. unfold rs_terminal.
    destruct (full_score N_order T (rs_right X) w) as [rf outf] eqn:Hf.
    destruct (rs_done X); [exact HG|]. destruct (r_indep rf) eqn:Ei; [exact HG|]. cbn [rs_ptrs].
    pose proof (wf_state X WX) as Hs. unfold swf in Hs. destruct (rs_right X) as [c1 B1]. cbn [s_words s_bo] in *.
    destruct (sim_ext c1 B1 w rf outf Hw Hs Hf Ei) as [e [He [Hl [_ [_ [_ [Hx _]]]]]]].
    apply Forall_app. split; [exact HG|]. constructor; [|constructor]. rewrite Hx. exists e. split; assumption.
  Qed.

  Lemma flat_gp : forall ws X, wf X -> Forall known ws -> Forall gp (rs_ptrs X) -> Forall gp (rs_ptrs (flat X ws)).
  Proof.
    induction ws as [|w ws IH]; intros X WX Hk HG; [exact HG|]. inversion Hk as [|? ? Hw Hk']. subst.
    cbn [flat fold_left]. apply IH; [apply term_wf; exact WX|exact Hk'|apply term_gp; assumption].
  Qed.

  (* Subsume merges two adjacent finished fragments into the finished fragment of their concatenation, and its
     adjustment is the whole minus the parts *)
  Theorem subsume_flat : forall us ws, Forall known us -> Forall known ws ->
    forall adj l' r',
    subsume N_order T dr (c_left (fst (fin (flat rs_init us)))) (c_right (fst (fin (flat rs_init us))))
                            (c_left (fst (fin (flat rs_init ws)))) (c_right (fst (fin (flat rs_init ws)))) = (adj, l', r') ->
    fin (mkrs (l_ptrs l') r' (l_full l') (snd (fin (flat rs_init us)) + snd (fin (flat rs_init ws)) + adj)%Z) =
    fin (flat rs_init (us ++ ws)).
  Proof.
    intros us ws Hu Hw adj l' r' HS.
    set (X1 := flat rs_init us) in *. set (X2 := flat rs_init ws) in *.
    assert (W1 : wf X1) by (apply flat_wf; exact wf_init). assert (W2 : wf X2) by (apply flat_wf; exact wf_init).
    pose proof (fin_cwf X1 W1) as C1. pose proof (fin_cwf X2 W2) as C2.
    rewrite !fin_eq in HS, C1, C2. cbn [fst snd mkchart c_left c_right] in HS, C1, C2.
    rewrite (fin_eq X1), (fin_eq X2). cbn [fst snd].
    assert (HG : Forall gp (rs_ptrs X2)) by (apply flat_gp; [exact wf_init|exact Hw|constructor]).
    pose proof (subsume_nt _ _ _ _ _ _ (rs_prob X1) (rs_prob X2) C1 C2 HG adj l' r' HS) as HN.
    rewrite fin_norm. rewrite <- HN.
    assert (E1 : mkrs (rs_ptrs X1) (rs_right X1) (orb (rs_done X1) (Nat.eqb (length (rs_ptrs X1)) (N_order - 1))) (rs_prob X1) = norm X1) by reflexivity.
    rewrite E1.
    assert (E2 : mkchart (rs_ptrs X2) (orb (rs_done X2) (Nat.eqb (length (rs_ptrs X2)) (N_order - 1))) (rs_right X2) = fst (fin X2)) by reflexivity.
    assert (E3 : rs_prob X2 = snd (fin X2)) by reflexivity.
    rewrite E2, E3. unfold X2 at 1 2.
    rewrite (nt_flat ws (norm X1) (norm_wf X1 W1) Hw).
    rewrite (flat_norm ws (norm X1) X1 (norm_wf X1 W1) W1 Hw (norm_idem X1)).
    rewrite <- fin_norm. unfold X1, flat. rewrite fold_left_app. reflexivity.
  Qed.
End Flatten.

(* ---- RevealBefore / RevealAfter in one step are the two halves of Subsume ------------------------------------------ *)
Lemma reveal_after_is_subsume : forall n T dr l1 r1 l2 r2,
  fst (fst (reveal_after n T dr l1 r1 l2 0)) = fst (fst (subsume n T dr l1 r1 l2 r2)).
Proof.
  intros n T dr l1 r1 l2 r2. unfold reveal_after, subsume. cbn [skipn].
  destruct (extend_loop n T dr (s_words r1) (s_bo r1) (l_ptrs l2) (negb (l_full l1))) as [[v written] bw].
  destruct (l_full l2); reflexivity.
Qed.

Lemma reveal_before_is_subsume : forall n T dr l1 r1 l2 r2,
  fst (fst (reveal_before n T dr r1 0 (l_full l1) l2 r2)) = fst (fst (subsume n T dr l1 r1 l2 r2)) /\
  snd (reveal_before n T dr r1 0 (l_full l1) l2 r2) = snd (subsume n T dr l1 r1 l2 r2).
Proof.
  intros n T dr l1 r1 l2 r2. unfold reveal_before, subsume. cbn [skipn].
  destruct (extend_loop n T dr (s_words r1) (s_bo r1) (l_ptrs l2) (negb (l_full l1))) as [[v written] bw].
  destruct (l_full l2); split; reflexivity.
Qed.
