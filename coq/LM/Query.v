(* LM/Query.v -- executable model of lm/model.cc (GenericModel): ScoreExceptBackoff, ResumeScore, FullScore,
   FullScoreForgotState, GetState, ExtendLeft, InternalUnRest -- line by line, over an abstract table lookup.
   No proofs here. *)
From Coq Require Import List ZArith NArith Bool Arith.
From Kenlm Require Import LM.Defs.
Import ListNotations.
Local Open Scope Z_scope.

(* FullScoreReturn.  extend_left is modelled by the key of the matched entry (the implementation uses a hash
   or a trie offset; only the entry it denotes is observable). *)
Record ret := { r_prob : Z; r_len : nat; r_indep : bool; r_ext : key; r_rest : Z }.

Inductive kind := Probing | Trie.

Section Query.
  Variable N_order : nat.
  Variable T : table.
  Variable K : kind.
  Variable different_rest : bool.      (* Search::kDifferentRest *)

  Definition unk_entry : entry := {| e_prob := 0; e_bo := 0; e_ext := false; e_left := false; e_rest := 0 |}.
  (* LookupUnigram never fails in the code (array indexing); the loaders guarantee every id is present *)
  Definition uni (w : word) : entry := match T [w] with Some e => e | None => unk_entry end.

  (* ResumeScore.  hist = remaining context words (newest first), om2 = order_minus_2, node = key matched so far,
     bos = backoff_out written so far (reversed accumulation is avoided: we append), nu = next_use. *)
  Fixpoint resume (hist : list word) (om2 : nat) (node : key) (bos : list boval) (nu : nat) (r : ret)
    : list boval * nat * ret :=
    match hist with
    | [] => (bos, nu, r)
    | h :: hist' =>
        if r_indep r then (bos, nu, r)
        else if Nat.eqb om2 (N_order - 2)%nat then
          (* LookupLongest; ret.independent_left = true *)
          match T (node ++ [h]) with
          | Some e => (bos, nu, {| r_prob := e_prob e; r_len := N_order; r_indep := true; r_ext := r_ext r; r_rest := e_prob e |})
          | None => (bos, nu, {| r_prob := r_prob r; r_len := r_len r; r_indep := true; r_ext := r_ext r; r_rest := r_rest r |})
          end
        else
          match T (node ++ [h]) with
          | None => (bos, nu, {| r_prob := r_prob r; r_len := r_len r; r_indep := true; r_ext := r_ext r; r_rest := r_rest r |})
          | Some e =>
              let r' := {| r_prob := e_prob e; r_len := (om2 + 2)%nat; r_indep := negb (e_left e); r_ext := node ++ [h]; r_rest := e_rest e |} in
              resume hist' (S om2) (node ++ [h]) (bos ++ [(e_bo e, e_ext e)]) (if e_ext e then (om2 + 2)%nat else nu) r'
          end
    end.

  (* ScoreExceptBackoff: returns ret and out_state *)
  Definition score_except_backoff (ctx : list word) (w : word) : ret * state :=
    let e := uni w in
    let r0 := {| r_prob := e_prob e; r_len := 1%nat; r_indep := negb (e_left e); r_ext := [w]; r_rest := e_rest e |} in
    let bos0 := [(e_bo e, e_ext e)] in
    let nu0 := if e_ext e then 1%nat else 0%nat in
    match ctx with
    | [] => (r0, {| s_words := firstn nu0 [w]; s_bo := firstn nu0 bos0 |})
    | _ =>
        let '(bos, nu, r) := resume ctx 0%nat [w] bos0 nu0 r0 in
        (r, {| s_words := firstn nu (w :: ctx); s_bo := firstn nu bos |})
    end.

  (* FullScore: charge in_state.backoff[ngram_length - 1 .. length) *)
  Definition full_score (s : state) (w : word) : ret * state :=
    let '(r, out) := score_except_backoff (s_words s) w in
    ({| r_prob := r_prob r + sum_bo (skipn (r_len r - 1)%nat (s_bo s)); r_len := r_len r; r_indep := r_indep r;
        r_ext := r_ext r; r_rest := r_rest r |}, out).

  (* FastMakeNode(begin, end): probing always succeeds; the trie walks down and may report failure *)
  Fixpoint trie_walk (rest : list word) (node : key) (indep : bool) : option key :=
    match rest with
    | [] => Some node
    | x :: rest' => if indep then None
                    else match T (node ++ [x]) with
                         | None => None
                         | Some e => trie_walk rest' (node ++ [x]) (negb (e_left e))
                         end
    end.
  Definition fast_make_node (ws : list word) : option key :=
    match K, ws with
    | Probing, _ => Some ws
    | Trie, [] => Some []
    | Trie, x :: rest => trie_walk rest [x] (negb (e_left (uni x)))
    end.

  (* the back-off charging loop of FullScoreForgotState: contexts of order om2+2 .. *)
  Fixpoint charge (rest : list word) (node : key) : Z :=
    match rest with
    | [] => 0
    | x :: rest' => match T (node ++ [x]) with
                    | None => 0
                    | Some e => e_bo e + charge rest' (node ++ [x])
                    end
    end.

  Definition full_score_forgot (ctx0 : list word) (w : word) : ret * state :=
    let ctx := firstn (N_order - 1)%nat ctx0 in
    let '(r, out) := score_except_backoff ctx w in
    let start := r_len r in
    if Nat.ltb (length ctx) start then (r, out)
    else
      let add p := {| r_prob := r_prob r + p; r_len := r_len r; r_indep := r_indep r; r_ext := r_ext r; r_rest := r_rest r |} in
      if Nat.leb start 1%nat then
        match ctx with
        | [] => (r, out)     (* unreachable: length ctx >= start >= 1 *)
        | c0 :: rest => (add (e_bo (uni c0) + charge rest [c0]), out)
        end
      else
        match fast_make_node (firstn (start - 1)%nat ctx) with
        | None => (r, out)
        | Some node => (add (charge (skipn (start - 1)%nat ctx) node), out)
        end.

  (* GetState *)
  Fixpoint get_state_loop (rest : list word) (node : key) (bos : list boval) (len : nat) (i : nat) : list boval * nat :=
    match rest with
    | [] => (bos, len)
    | x :: rest' => match T (node ++ [x]) with
                    | None => (bos, len)
                    | Some e => get_state_loop rest' (node ++ [x]) (bos ++ [(e_bo e, e_ext e)]) (if e_ext e then S i else len) (S i)
                    end
    end.
  Definition get_state (ctx0 : list word) : state :=
    let ctx := firstn (N_order - 1)%nat ctx0 in
    match ctx with
    | [] => null_state
    | c0 :: rest =>
        let e := uni c0 in
        let '(bos, len) := get_state_loop rest [c0] [(e_bo e, e_ext e)] (if e_ext e then 1%nat else 0%nat) 1%nat in
        {| s_words := firstn len ctx; s_bo := firstn len bos |}
    end.

  (* ExtendLeft(add, backoff_in, extend_pointer, extend_length) -> (ret, backoff_out, next_use)
     the pointer is the key of the entry; extend_length = length of that key *)
  Definition extend_left (add : list word) (backoff_in : list boval) (ptr : key) : ret * list boval * nat :=
    let el := length ptr in
    let e := match T ptr with Some e => e | None => unk_entry end in
    let r0 := {| r_prob := e_prob e; r_len := el; r_indep := (if Nat.eqb el 1%nat then negb (e_left e) else false);
                 r_ext := ptr; r_rest := e_rest e |} in
    let subtract := e_rest e in
    let '(bos, nu, r) := resume add (el - 1)%nat ptr [] el r0 in
    let nu' := (nu - el)%nat in
    let charged := sum_bo (firstn (length add - (r_len r - el))%nat (skipn (r_len r - el)%nat backoff_in)) in
    ({| r_prob := r_prob r + charged - subtract; r_len := r_len r; r_indep := r_indep r; r_ext := r_ext r;
        r_rest := r_rest r - subtract |}, bos, nu').

  (* UnRest(pointers, first_length) *)
  Definition un_rest (ptrs : list key) : Z :=
    if different_rest then
      fold_right (fun p acc => match T p with Some e => e_prob e - e_rest e + acc | None => acc end) 0 ptrs
    else 0.
End Query.
