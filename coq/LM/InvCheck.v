(* LM/InvCheck.v -- an executable check of the loader invariants TInv on a finite table, and its soundness.
   The correspondence harness evaluates it (extracted) on the table BOTH loader models build for every generated
   ARPA file; together with model = implementation this establishes, case by case, the hypotheses under which
   the query theorems of LM/QueryProofs.v hold.  (The checker itself is proved sound here, for all tables.) *)
From Coq Require Import List ZArith NArith Bool Arith Lia.
From Kenlm Require Import LM.Defs LM.Query LM.QueryProofs.
Import ListNotations.
Local Open Scope Z_scope.

Definition amodel := list (key * (Z * Z)).
Fixpoint mlookup (m : amodel) (k : key) : option (Z * Z) :=
  match m with
  | [] => None
  | (k', v) :: r => if key_eqb k' k then Some v else mlookup r k
  end.

Definition keys_of (t : atable) : list key := map fst t.
Definition has (t : atable) (k : key) : bool := match alookup t k with Some _ => true | None => false end.
Definition entry_of (t : atable) (k : key) : entry :=
  match alookup t k with Some e => e | None => {| e_prob := 0; e_bo := 0; e_ext := false; e_left := false; e_rest := 0 |} end.

Definition check_key (N_order : nat) (t : atable) (m : amodel) (k : key) : bool :=
  let e := entry_of t k in
  let len := length k in
  (* i_len *)
  Nat.leb 1 len && Nat.leb len N_order &&
  (* i_suffix, i_ctx *)
  (if Nat.leb 2 len then has t (removelast k) && has t (tl k) else true) &&
  (* i_left *)
  (if Nat.ltb len N_order
   then Bool.eqb (e_left e) (existsb (fun k' => Nat.eqb (length k') (S len) && key_eqb (removelast k') k) (keys_of t))
   else true) &&
  (* i_prob, i_bo *)
  (match k with
   | [] => false
   | w :: c => Z.eqb (e_prob e) (spec (mlookup m) c w (length c))
   end) &&
  Z.eqb (e_bo e) (bo_of (mlookup m) k) &&
  (* i_ext *)
  (if e_ext e then true
   else Z.eqb (e_bo e) 0 && forallb (fun k' => negb (Nat.leb 1 (length k') && key_eqb (tl k') k)) (keys_of t)).

Definition tinv_check (N_order : nat) (t : atable) (m : amodel) : bool :=
  forallb (check_key N_order t m) (keys_of t) && forallb (has t) (map fst m).

(* ---- soundness ------------------------------------------------------------------------------- *)
Lemma key_eqb_true : forall a b, key_eqb a b = true <-> a = b.
Proof. intros a b. unfold key_eqb. destruct (list_eq_dec N.eq_dec a b); split; congruence. Qed.

Lemma alookup_in : forall t k, alookup t k <> None <-> In k (keys_of t).
Proof.
  induction t as [|[k' e] t IH]; intros k; cbn [alookup keys_of map fst In].
  - split; [congruence|tauto].
  - destruct (key_eqb k' k) eqn:E.
    + apply key_eqb_true in E. subst. split; [auto|discriminate].
    + rewrite IH. split; [auto|]. intros [H|H]; [|exact H]. subst. rewrite (proj2 (key_eqb_true k k) eq_refl) in E. discriminate.
Qed.

Lemma mlookup_in : forall m k, mlookup m k <> None -> In k (map fst m).
Proof.
  induction m as [|[k' v] m IH]; intros k; cbn [mlookup map fst In]; [congruence|].
  destruct (key_eqb k' k) eqn:E; [apply key_eqb_true in E; auto|]. intros H. right. apply IH. exact H.
Qed.

Lemma has_true : forall t k, has t k = true <-> alookup t k <> None.
Proof. intros. unfold has. destruct (alookup t k); split; congruence. Qed.

Lemma removelast_snoc : forall (k : key) x, removelast (k ++ [x]) = k.
Proof. intros. apply removelast_last. Qed.

Lemma snoc_of_removelast : forall (k' : key), k' <> [] -> k' = removelast k' ++ [last k' 0%N].
Proof. intros. apply app_removelast_last. assumption. Qed.

Theorem tinv_check_sound : forall N_order t m, tinv_check N_order t m = true ->
  TInv N_order (alookup t) (mlookup m).
Proof.
  intros N_order t m H. unfold tinv_check in H. apply andb_true_iff in H. destruct H as [HK HM].
  rewrite forallb_forall in HK, HM.
  assert (CK : forall k, alookup t k <> None -> check_key N_order t m k = true).
  { intros k Hk. apply HK. apply alookup_in. exact Hk. }
  assert (EO : forall k e, alookup t k = Some e -> entry_of t k = e) by (intros k e He; unfold entry_of; rewrite He; reflexivity).
  constructor.
  - (* i_suffix *)
    intros k x Hne Hs. pose proof (CK _ Hs) as C. unfold check_key in C.
    repeat (apply andb_true_iff in C; destruct C as [C ?]).
    assert (L : (2 <= length (k ++ [x]))%nat) by (rewrite app_length; destruct k; [congruence|simpl; lia]).
    rewrite (proj2 (Nat.leb_le 2 _) L) in *.
    match goal with HH : has _ _ && has _ _ = true |- _ => apply andb_true_iff in HH; destruct HH as [Hsuf Hctx] end.
    rewrite removelast_snoc in Hsuf. apply has_true. exact Hsuf.
  - (* i_left *)
    intros k e He Hlen. pose proof (CK k ltac:(rewrite He; discriminate)) as C. unfold check_key in C.
    repeat (apply andb_true_iff in C; destruct C as [C ?]).
    rewrite (EO k e He) in *.
    rewrite (proj2 (Nat.ltb_lt _ _) Hlen) in *.
    match goal with HH : Bool.eqb _ _ = true |- _ => apply eqb_prop in HH; rename HH into HL end.
    rewrite HL. rewrite existsb_exists. split.
    + intros [k' [Hin Hk']]. apply andb_true_iff in Hk'. destruct Hk' as [Hl Hr]. apply key_eqb_true in Hr.
      apply Nat.eqb_eq in Hl. assert (k' <> []) by (destruct k'; [simpl in Hl; lia|discriminate]).
      exists (last k' 0%N). rewrite <- Hr. rewrite <- snoc_of_removelast by assumption. apply alookup_in. exact Hin.
    + intros [x Hx]. exists (k ++ [x]). split; [apply alookup_in; exact Hx|].
      rewrite app_length. cbn [length]. rewrite removelast_snoc.
      rewrite (proj2 (key_eqb_true k k) eq_refl). rewrite (proj2 (Nat.eqb_eq _ _)) by lia. reflexivity.
  - (* i_prob *)
    intros w c e He. pose proof (CK (w :: c) ltac:(rewrite He; discriminate)) as C. unfold check_key in C.
    repeat (apply andb_true_iff in C; destruct C as [C ?]).
    rewrite (EO _ e He) in *.
    match goal with HH : (e_prob e =? _) = true |- _ => apply Z.eqb_eq in HH; exact HH end.
  - (* i_bo *)
    intros k e He. pose proof (CK k ltac:(rewrite He; discriminate)) as C. unfold check_key in C.
    repeat (apply andb_true_iff in C; destruct C as [C ?]).
    rewrite (EO _ e He) in *.
    match goal with HH : (e_bo e =? bo_of _ _) = true |- _ => apply Z.eqb_eq in HH; exact HH end.
  - (* i_sub *)
    intros k Hn. destruct (mlookup m k) eqn:E; [|reflexivity]. exfalso.
    assert (In k (map fst m)) by (apply mlookup_in; rewrite E; discriminate).
    specialize (HM k H). apply has_true in HM. congruence.
  - (* i_ext *)
    intros k e He Hx. pose proof (CK k ltac:(rewrite He; discriminate)) as C. unfold check_key in C.
    repeat (apply andb_true_iff in C; destruct C as [C ?]).
    rewrite (EO k e He) in *. rewrite Hx in *.
    match goal with HH : _ && forallb _ _ = true |- _ => apply andb_true_iff in HH; destruct HH as [Hz Hf] end.
    split; [apply Z.eqb_eq; exact Hz|]. intros x.
    destruct (alookup t (x :: k)) eqn:E; [|reflexivity]. exfalso.
    rewrite forallb_forall in Hf. specialize (Hf (x :: k) ltac:(apply alookup_in; rewrite E; discriminate)).
    cbn [length tl] in Hf. rewrite (proj2 (key_eqb_true k k) eq_refl) in Hf. discriminate.
  - (* i_ctx *)
    intros w k Hne Hs. pose proof (CK _ Hs) as C. unfold check_key in C.
    repeat (apply andb_true_iff in C; destruct C as [C ?]).
    assert (L : (2 <= length (w :: k))%nat) by (destruct k; [congruence|simpl; lia]).
    rewrite (proj2 (Nat.leb_le 2 _) L) in *.
    match goal with HH : has _ _ && has _ _ = true |- _ => apply andb_true_iff in HH; destruct HH as [Hsuf Hctx] end.
    cbn [tl] in Hctx. apply has_true. exact Hctx.
  - (* i_len *)
    intros k Hk. pose proof (CK k Hk) as C. unfold check_key in C.
    repeat (apply andb_true_iff in C; destruct C as [C ?]).
    apply Nat.leb_le in C.
    match goal with HH : (length k <=? N_order)%nat = true |- _ => apply Nat.leb_le in HH end. lia.
Qed.
