(* LM/Defs.v -- shared vocabulary of the language-model development (C01-C04, C08, parts of C11/C14).
   Words are N (0 = <unk>).  An n-gram key lists its words NEWEST FIRST: the n-gram "a b c" is [c; b; a];
   the word being predicted is the head, its context is the tail, and dropping the OLDEST word (the n-gram's
   suffix in ARPA terms) is `removelast`.  A history/context is also newest first.
   Scores are exact: Z in units of 2^-6 (the correspondence generator draws multiples of 1/64 so that
   float32 arithmetic in the implementation is exact and the comparison is bit for bit). *)
From Coq Require Import List ZArith NArith Bool Arith.
Import ListNotations.

Notation word := N (only parsing).
Definition key := list word.

Definition key_eqb (a b : key) : bool := if list_eq_dec N.eq_dec a b then true else false.

(* ---- L0: the ARPA file as a finite function --------------------------------------------------- *)
(* probability and back-off of every listed n-gram (back-off 0 when the file gives none) *)
Definition arpa := key -> option (Z * Z).

Section Spec.
  Variable N_order : nat.          (* the model's order N >= 2 *)
  Variable M : arpa.

  Definition bo_of (k : key) : Z := match M k with Some (_, b) => b | None => 0%Z end.

  (* the ARPA back-off recursion with k context words available:
       p(w | c_1..c_k) = prob(w c_1..c_k)                      if listed
                       = bo(c_1..c_k) + p(w | c_1..c_{k-1})    otherwise       (and 0 if even the unigram is missing:
                                                                                 the loaders guarantee every word is a unigram) *)
  Fixpoint spec (ctx : list word) (w : word) (k : nat) : Z :=
    match M (w :: firstn k ctx) with
    | Some (p, _) => p
    | None => match k with
              | O => 0%Z
              | S k' => (bo_of (firstn k ctx) + spec ctx w k')%Z
              end
    end.

  (* matched length: the longest listed n-gram ending in w *)
  Fixpoint matched (ctx : list word) (w : word) (k : nat) : nat :=
    match M (w :: firstn k ctx) with
    | Some _ => S k
    | None => match k with O => O | S k' => matched ctx w k' end
    end.

  Definition usable (ctx : list word) : nat := Nat.min (length ctx) (N_order - 1).
  Definition bo_score (ctx : list word) (w : word) : Z := spec ctx w (usable ctx).
  Definition bo_length (ctx : list word) (w : word) : nat := matched ctx w (usable ctx).
End Spec.

(* ---- L1: what the data structures store ------------------------------------------------------- *)
(* e_ext  : HasExtension(backoff)  (back-off is not the bit pattern of -0.0)
   e_left : the entry extends to the left (NOT independent_left): probing = sign bit of prob cleared,
            trie = the node has children
   e_rest : rest cost (= e_prob except in RestProbing models) *)
Record entry := { e_prob : Z; e_bo : Z; e_ext : bool; e_left : bool; e_rest : Z }.
Definition table := key -> option entry.

(* executable tables: association lists *)
Definition atable := list (key * entry).
Fixpoint alookup (t : atable) (k : key) : option entry :=
  match t with
  | [] => None
  | (k', e) :: r => if key_eqb k' k then Some e else alookup r k
  end.

(* a back-off value as stored in a State: numeric value and the HasExtension bit (+0.0 vs -0.0) *)
Definition boval := (Z * bool)%type.
Record state := { s_words : list word; s_bo : list boval }.   (* State.length = length s_words *)
Definition null_state : state := {| s_words := []; s_bo := [] |}.

Definition sum_bo (l : list boval) : Z := fold_right (fun b acc => (fst b + acc)%Z) 0%Z l.
